(* Proofs/BandedLU.v -- the compact LU of Model/Banded.v: back substitution, forward elimination. *)
From Coq Require Import List Arith Lia ZArith Bool Ring_theory Ring Field_theory Field.
From OV Require Import Base.Panic Base.Arith Model.Vector Model.Matrix Model.Banded Proofs.Banded.
Import ListNotations.
Local Open Scope nat_scope.

Section LU.
Context {A : Arith}.
Notation T := (T A).
Notation matrix := (matrix A).
Notation banded := (banded A).
Variable FL : FieldLaws A.
Let RL : RingLaws A := RingLaws_of_Field FL.
Add Field AFld : (fl_field A FL).

Notation inv := (fl_inv A FL).

Lemma eqb_false_neq (x y : T) : eqb x y = false -> x <> y.
Proof. intros H E. apply (fl_eqb A FL) in E. congruence. Qed.

Lemma div_Ok_inv (x y q : T) : div x y = Ok q -> y <> zero /\ q = mul x (inv y).
Proof.
  rewrite (fl_div A FL). destruct (eqb y zero) eqn:E; [discriminate|].
  intros H; injection H as <-. split; auto. now apply eqb_false_neq.
Qed.

(* entry (i,s) of a compact work matrix with mm columns *)
Definition mat_at (au : matrix) (mm i s : nat) : T := nth (i * mm + s) (buf au) zero.

(* the value of row i, whose slot s holds column c + s, on the vector x (columns >= length x count as 0:
   this is how padding and the zero fill of the shifted rows drop out) *)
Definition rowval (au : matrix) (mm i c : nat) (x : list T) : T :=
  sum_n mm (fun s => mul (mat_at au mm i s) (nth (c + s) x zero)).

Lemma mget_Ok_inv (au : matrix) mm i s a :
  cols au = mm -> mget au i s = Ok a -> a = mat_at au mm i s /\ i * mm + s < length (buf au).
Proof.
  intros Hc H. unfold mget in H. rewrite Hc in H. apply (rd_Ok_inv _ _ _ zero) in H as (Hl & ->).
  split; auto.
Qed.

Lemma sum_n_peel n (f : nat -> T) : sum_n (S n) f = add (f 0) (sum_n n (fun u => f (1 + u))).
Proof.
  induction n as [|n IH].
  - cbn. ring.
  - change (sum_n (S (S n)) f) with (add (sum_n (S n) f) (f (S n))). rewrite IH. cbn [sum_n]. cbn [Nat.add]. ring.
Qed.

(* ---- back substitution solves the upper-banded system held in au (rows aligned at their own column) ---- *)
Lemma back_subst_sound (au : matrix) (mm n : nat) (y x : list T) (lf : nat) :
  cols au = mm -> 1 <= mm -> length y = n ->
  for_rev 0 n (back_step mm au) (y, 1) = Ok (x, lf) ->
  length x = n /\ forall i, i < n -> rowval au mm i i x = nth i y zero /\ mat_at au mm i 0 <> zero.
Proof.
  intros Hc Hmm Hy E. unfold for_rev in E. rewrite Nat.sub_0_r in E.
  pose (I := fun t (s : list T * nat) =>
    length (fst s) = n /\ snd s = Nat.min (n - t + 1) mm /\
    (forall j, j < t -> nth j (fst s) zero = nth j y zero) /\
    (forall r, t <= r < n -> rowval au mm r r (fst s) = nth r y zero /\ mat_at au mm r 0 <> zero)).
  assert (HI : I 0 (x, lf)).
  { apply (for_rev_from_inv_partial I n 0 (back_step mm au) (y, 1)); auto.
    - unfold I; cbn. repeat split; auto; try lia.
    - clear E x lf. intros k [x l] [x1 l1] Hk (Hlen & Hl & Hlow & Hrows) E. cbn [fst snd] in *.
      cbn [Nat.add] in E. unfold back_step in E.
      apply bind_ok in E as (dum0 & E0 & E). apply (rd_Ok_inv _ _ _ zero) in E0 as (_ & ->).
      apply bind_ok in E as (dum & Eloop & E).
      apply bind_ok in E as (d0 & Ed0 & E). apply (mget_Ok_inv _ mm) in Ed0 as (-> & _); auto.
      apply bind_ok in E as (q & Eq & E). apply div_Ok_inv in Eq as (Hd0 & ->).
      apply bind_ok in E as (x' & Ex' & E). apply upd_Ok_inv in Ex' as (Hkx & ->).
      injection E as <- <-.
      set (t := fun s => mul (mat_at au mm k s) (nth (k + s) x zero)).
      (* the inner loop: dum + sum of the terms subtracted so far = y_k *)
      assert (Hdum : add dum (sum_n (l - 1) (fun u => t (1 + u))) = nth k y zero).
      { assert (Hl1 : 1 <= l) by lia.
        refine (for_inv_partial (fun kk d => add d (sum_n (kk - 1) (fun u => t (1 + u))) = nth k y zero)
                 1 l _ _ dum Hl1 _ _ Eloop).
        - cbn. rewrite Hlow by lia. ring.
        - intros kk d d1 Hkk HJ Ed.
          apply bind_ok in Ed as (a & Ea & Ed). apply (mget_Ok_inv _ mm) in Ea as (-> & _); auto.
          apply bind_ok in Ed as (xk & Exk & Ed). apply (rd_Ok_inv _ _ _ zero) in Exk as (_ & ->).
          injection Ed as <-.
          replace (S kk - 1) with (S (kk - 1)) by lia. cbn [sum_n].
          replace (1 + (kk - 1)) with kk by lia. unfold t at 2. rewrite (Nat.add_comm k kk).
          rewrite <- HJ. ring. }
      unfold I; cbn [fst snd]. rewrite upd_list_length. split; [auto|]. split.
      { destruct (Nat.ltb_spec l mm); lia. }
      split.
      { intros j Hj. rewrite nth_upd_list by auto. destruct (Nat.eqb_spec j k); [lia|]. apply Hlow; lia. }
      intros r Hr. destruct (Nat.eq_dec r k) as [->|Hne]; [split; [|exact Hd0]|split; [|apply Hrows; lia]].
      + (* the row just solved *)
        unfold rowval.
        assert (Hsplit : mm = l + (mm - l)) by lia. rewrite Hsplit at 1.
        rewrite (sum_n_trunc RL).
        2:{ intros s Hs. rewrite nth_overflow; [ring|]. rewrite upd_list_length. lia. }
        destruct l as [|l']; [lia|]. rewrite sum_n_peel.
        rewrite Nat.add_0_r, nth_upd_list, Nat.eqb_refl by auto.
        rewrite <- Hdum. replace (S l' - 1) with l' by lia.
        rewrite (sum_n_ext l' (fun u => mul (mat_at au mm k (1 + u)) (nth (k + (1 + u)) (upd_list x k (mul dum (inv (mat_at au mm k 0)))) zero))
                              (fun u => t (1 + u))).
        2:{ intros u Hu. unfold t. rewrite nth_upd_list by auto.
            destruct (Nat.eqb_spec (k + (1 + u)) k); [lia|reflexivity]. }
        field. exact Hd0.
      + (* rows below: their entries do not involve x[k] *)
        rewrite <- (proj1 (Hrows r ltac:(lia))). unfold rowval. apply sum_n_ext. intros s Hs.
        rewrite nth_upd_list by auto. destruct (Nat.eqb_spec (r + s) k); [lia|reflexivity]. }
  destruct HI as (Hlen & _ & _ & Hrows). cbn [fst] in *. split; auto. intros i Hi. apply Hrows. lia.
Qed.

(* ------------------------------------------------------------------ element-level view of the work matrices *)

Lemma mset_Ok_inv (au au' : matrix) mm i s v :
  cols au = mm -> s < mm -> mset au i s v = Ok au' ->
  cols au' = mm /\ rows au' = rows au /\
  forall i' s', s' < mm ->
    mat_at au' mm i' s' = if (i' =? i) && (s' =? s) then v else mat_at au mm i' s'.
Proof.
  intros Hc Hs H. unfold mset in H. rewrite Hc in H.
  apply bind_ok in H as (b & Hb & H). injection H as <-. apply upd_Ok_inv in Hb as (Hl & ->).
  cbn [cols rows buf]. repeat split; auto.
  intros i' s' Hs'. unfold mat_at; cbn [buf]. rewrite nth_upd_list by auto.
  destruct (Nat.eqb_spec (i' * mm + s') (i * mm + s)) as [E|E].
  - apply flat_inj in E as (-> & ->); auto. now rewrite !Nat.eqb_refl.
  - destruct (Nat.eqb_spec i' i) as [->|]; cbn [andb]; auto.
    destruct (Nat.eqb_spec s' s) as [->|]; auto. congruence.
Qed.

(* swap_elem on two slots of the same column in different rows *)
Lemma swap_elem_Ok_inv (au au' : matrix) mm k p j :
  cols au = mm -> j < mm -> swap_elem au k j p j = Ok au' ->
  cols au' = mm /\
  forall i s, s < mm ->
    mat_at au' mm i s =
      if (i =? k) && (s =? j) then mat_at au mm p j
      else if (i =? p) && (s =? j) then mat_at au mm k j
      else mat_at au mm i s.
Proof.
  intros Hc Hj H. unfold swap_elem in H.
  apply bind_ok in H as (temp & Et & H). apply (mget_Ok_inv _ mm) in Et as (-> & _); auto.
  apply bind_ok in H as (old2 & Eo & H). apply (mget_Ok_inv _ mm) in Eo as (-> & _); auto.
  apply bind_ok in H as (m1 & E1 & H).
  apply (mset_Ok_inv _ _ mm) in E1 as (Hc1 & _ & H1); auto.
  apply (mset_Ok_inv _ _ mm) in H as (Hc2 & _ & H2); auto.
  split; auto. intros i s Hs. rewrite H2, H1 by auto. reflexivity.
Qed.

Lemma swap_band_rows_Ok_inv (au au' : matrix) mm k p :
  cols au = mm -> swap_band_rows mm au k p = Ok au' ->
  cols au' = mm /\
  forall i s, s < mm ->
    mat_at au' mm i s = if i =? k then mat_at au mm p s else if i =? p then mat_at au mm k s else mat_at au mm i s.
Proof.
  intros Hc H. unfold swap_band_rows in H.
  assert (HI : cols au' = mm /\ forall i s, s < mm ->
            mat_at au' mm i s = if s <? mm then
              (if i =? k then mat_at au mm p s else if i =? p then mat_at au mm k s else mat_at au mm i s)
              else mat_at au mm i s).
  { refine (for_inv_partial (fun j (a : matrix) => cols a = mm /\ forall i s, s < mm ->
              mat_at a mm i s = if s <? j then
                (if i =? k then mat_at au mm p s else if i =? p then mat_at au mm k s else mat_at au mm i s)
                else mat_at au mm i s) 0 mm _ au au' (Nat.le_0_l _) _ _ H).
    - split; auto.
    - intros j a a1 Hj (Hca & Ha) E.
      apply (swap_elem_Ok_inv _ _ mm) in E as (Hc1 & H1); auto; [|lia].
      split; auto. intros i s Hs. rewrite H1 by auto.
      destruct (Nat.eqb_spec s j) as [->|Hne].
      + rewrite !Ha by auto. rewrite Nat.ltb_irrefl.
        replace (j <? S j) with true by (symmetry; apply Nat.ltb_lt; lia).
        destruct (Nat.eqb_spec i k) as [->|]; cbn [andb]; auto.
        destruct (Nat.eqb_spec i p) as [->|]; cbn [andb]; auto.
      + rewrite !andb_false_r. rewrite Ha by auto.
        destruct (Nat.ltb_spec s j); destruct (Nat.ltb_spec s (S j)); try lia; auto. }
  destruct HI as (Hc' & H'). split; auto. intros i s Hs. rewrite H' by auto.
  now replace (s <? mm) with true by (symmetry; apply Nat.ltb_lt; auto).
Qed.

(* ---- elimination of one row ---- *)

(* the multiplier the repaired code stores for row i at stage k *)
Definition mult_of (au : matrix) (mm k i : nat) : T :=
  if eqb (mat_at au mm k 0) zero then zero else mul (mat_at au mm i 0) (inv (mat_at au mm k 0)).

Lemma multiplier_Ok_inv (au : matrix) mm k i m :
  cols au = mm -> multiplier false au k i = Ok m -> m = mult_of au mm k i.
Proof.
  intros Hc H. unfold multiplier in H. unfold mult_of.
  apply bind_ok in H as (akk & Ek & H). apply (mget_Ok_inv _ mm) in Ek as (-> & _); auto.
  destruct (eqb (mat_at au mm k 0) zero) eqn:E; [now injection H as <-|].
  apply bind_ok in H as (aik & Ei & H). apply (mget_Ok_inv _ mm) in Ei as (-> & _); auto.
  apply bind_ok in H as (akk & Ek & H). apply (mget_Ok_inv _ mm) in Ek as (-> & _); auto.
  apply div_Ok_inv in H as (_ & ->). reflexivity.
Qed.

(* row i after its elimination against row k: shifted one slot to the left, zero appended *)
Definition elim_new (au : matrix) (mm k i : nat) (s : nat) : T :=
  if s <? mm - 1 then sub (mat_at au mm i (s + 1)) (mul (mult_of au mm k i) (mat_at au mm k (s + 1))) else zero.

Lemma elim_row_Ok_inv (au al au' al' : matrix) mm m1 k i :
  cols au = mm -> cols al = m1 -> 1 <= mm -> i <> k -> i - k - 1 < m1 ->
  elim_row false mm k i (au, al) = Ok (au', al') ->
  cols au' = mm /\ cols al' = m1 /\
  (forall i' s, s < mm -> mat_at au' mm i' s = if i' =? i then elim_new au mm k i s else mat_at au mm i' s) /\
  (forall i' t, t < m1 -> mat_at al' m1 i' t =
      if (i' =? k) && (t =? i - k - 1) then mult_of au mm k i else mat_at al m1 i' t).
Proof.
  intros Hc Hcl Hmm Hik Ht H. unfold elim_row in H.
  apply bind_ok in H as (dum & Em & H). apply (multiplier_Ok_inv _ mm) in Em; auto. subst dum.
  apply bind_ok in H as (al1 & Eal & H). apply (mset_Ok_inv _ _ m1) in Eal as (Hcl1 & _ & Hal1); auto.
  apply bind_ok in H as (au1 & Eloop & H).
  apply bind_ok in H as (au2 & Elast & H). injection H as <- <-.
  set (m := mult_of au mm k i) in *.
  assert (HI : cols au1 = mm /\ forall i' s, s < mm ->
            mat_at au1 mm i' s = if (i' =? i) && (s <? mm - 1)
                                 then sub (mat_at au mm i (s + 1)) (mul m (mat_at au mm k (s + 1)))
                                 else mat_at au mm i' s).
  { refine (for_inv_partial (fun j (a : matrix) => cols a = mm /\ forall i' s, s < mm ->
              mat_at a mm i' s = if (i' =? i) && (s <? j - 1)
                                 then sub (mat_at au mm i (s + 1)) (mul m (mat_at au mm k (s + 1)))
                                 else mat_at au mm i' s) 1 mm _ au au1 Hmm _ _ Eloop).
    - split; auto. intros i' s Hs. cbn. now rewrite andb_false_r.
    - intros j a a1 Hj (Hca & Ha) E.
      apply bind_ok in E as (aij & Eij & E). apply (mget_Ok_inv _ mm) in Eij as (-> & _); auto.
      apply bind_ok in E as (akj & Ekj & E). apply (mget_Ok_inv _ mm) in Ekj as (-> & _); auto.
      apply (mset_Ok_inv _ _ mm) in E as (Hc1 & _ & H1); auto; [|lia].
      split; auto. intros i' s Hs. rewrite H1 by auto. rewrite !Ha by lia.
      rewrite Nat.eqb_refl. cbn [andb].
      replace (k =? i) with false by (symmetry; apply Nat.eqb_neq; auto). cbn [andb].
      replace (j <? j - 1) with false by (symmetry; apply Nat.ltb_ge; lia).
      destruct (Nat.eqb_spec i' i) as [->|]; cbn [andb]; auto.
      destruct (Nat.eqb_spec s (j - 1)) as [->|].
      + replace (j - 1 <? S j - 1) with true by (symmetry; apply Nat.ltb_lt; lia).
        now replace (j - 1 + 1) with j by lia.
      + destruct (Nat.ltb_spec s (j - 1)); destruct (Nat.ltb_spec s (S j - 1)); try lia; auto. }
  destruct HI as (Hc1 & H1).
  apply (mset_Ok_inv _ _ mm) in Elast as (Hc2 & _ & H2); auto; [|lia].
  repeat split; auto.
  - intros i' s Hs. rewrite H2, H1 by auto. unfold elim_new. fold m.
    destruct (Nat.eqb_spec i' i) as [->|]; cbn [andb]; auto.
    destruct (Nat.eqb_spec s (mm - 1)) as [->|].
    + now rewrite Nat.ltb_irrefl.
    + replace (s <? mm - 1) with true by (symmetry; apply Nat.ltb_lt; lia). reflexivity.
Qed.

(* the elimination loop over the window rows k+1 .. l-1 *)
Lemma elim_loop_Ok_inv (au al au' al' : matrix) mm m1 k l :
  cols au = mm -> cols al = m1 -> 1 <= mm -> l <= k + 1 + m1 ->
  for_ (k + 1) l (elim_row false mm k) (au, al) = Ok (au', al') ->
  cols au' = mm /\ cols al' = m1 /\
  (forall i s, s < mm -> mat_at au' mm i s =
      if (k <? i) && (i <? l) then elim_new au mm k i s else mat_at au mm i s) /\
  (forall i t, t < m1 -> mat_at al' m1 i t =
      if (i =? k) && (k + 1 + t <? l) then mult_of au mm k (k + 1 + t) else mat_at al m1 i t).
Proof.
  intros Hc Hcl Hmm Hl H.
  destruct (Nat.le_gt_cases (k + 1) l) as [Hkl|Hkl].
  2:{ rewrite for_empty in H by lia. injection H as <- <-. repeat split; auto.
      - intros i s Hs. replace ((k <? i) && (i <? l)) with false; auto.
        symmetry. apply andb_false_iff. destruct (Nat.ltb_spec k i); destruct (Nat.ltb_spec i l); auto; lia.
      - intros i t Ht. replace (k + 1 + t <? l) with false by (symmetry; apply Nat.ltb_ge; lia).
        now rewrite andb_false_r. }
  set (P := fun j (st : matrix * matrix) =>
     cols (fst st) = mm /\ cols (snd st) = m1 /\
     (forall i s, s < mm -> mat_at (fst st) mm i s =
         if (k <? i) && (i <? j) then elim_new au mm k i s else mat_at au mm i s) /\
     (forall i t, t < m1 -> mat_at (snd st) m1 i t =
         if (i =? k) && (k + 1 + t <? j) then mult_of au mm k (k + 1 + t) else mat_at al m1 i t)).
  assert (HP : P l (au', al')).
  { refine (for_inv_partial P (k + 1) l _ (au, al) (au', al') Hkl _ _ H).
    - unfold P; cbn [fst snd]. repeat split; auto.
      + intros i s Hs. replace ((k <? i) && (i <? k + 1)) with false; auto.
        symmetry. apply andb_false_iff. destruct (Nat.ltb_spec k i); destruct (Nat.ltb_spec i (k + 1)); auto; lia.
      + intros i t Ht. replace (k + 1 + t <? k + 1) with false by (symmetry; apply Nat.ltb_ge; lia).
        now rewrite andb_false_r.
    - intros j [a b] [a1 b1] Hj (Hca & Hcb & Ha & Hb) E. cbn [fst snd] in *.
      apply (elim_row_Ok_inv _ _ _ _ mm m1) in E as (Hc1 & Hcb1 & Ha1 & Hb1); auto; try lia.
      unfold P; cbn [fst snd]. repeat split; auto.
      + intros i s Hs. rewrite Ha1 by auto.
        destruct (Nat.eqb_spec i j) as [->|Hne].
        * replace ((k <? j) && (j <? S j)) with true
            by (symmetry; apply andb_true_iff; split; apply Nat.ltb_lt; lia).
          (* row j and row k of the current matrix are still those of au *)
          assert (Hrow : forall u, u < mm -> mat_at a mm j u = mat_at au mm j u /\ mat_at a mm k u = mat_at au mm k u).
          { intros u Hu. rewrite !Ha by auto.
            replace ((k <? j) && (j <? j)) with false by (rewrite Nat.ltb_irrefl; now rewrite andb_false_r).
            replace ((k <? k) && (k <? j)) with false by (rewrite Nat.ltb_irrefl; reflexivity). auto. }
          unfold elim_new, mult_of.
          destruct (Hrow 0) as (-> & ->); [lia|].
          destruct (s <? mm - 1) eqn:Es; auto.
          apply Nat.ltb_lt in Es. destruct (Hrow (s + 1)) as (-> & ->); [lia|]. reflexivity.
        * rewrite Ha by auto.
          destruct (Nat.ltb_spec k i); destruct (Nat.ltb_spec i j); destruct (Nat.ltb_spec i (S j)); cbn [andb]; auto; lia.
      + intros i t Ht. rewrite Hb1 by auto.
        destruct (Nat.eqb_spec i k) as [->|]; cbn [andb].
        * destruct (Nat.eqb_spec t (j - k - 1)) as [->|Hne].
          -- replace (k + 1 + (j - k - 1)) with j by lia.
             replace (j <? S j) with true by (symmetry; apply Nat.ltb_lt; lia).
             unfold mult_of. rewrite !Ha by lia.
             replace ((k <? j) && (j <? j)) with false by (rewrite Nat.ltb_irrefl; now rewrite andb_false_r).
             replace ((k <? k) && (k <? j)) with false by (rewrite Nat.ltb_irrefl; reflexivity).
             reflexivity.
          -- rewrite Hb by auto. rewrite Nat.eqb_refl. cbn [andb].
             destruct (Nat.ltb_spec (k + 1 + t) j); destruct (Nat.ltb_spec (k + 1 + t) (S j)); auto; lia.
        * rewrite Hb by auto. destruct (Nat.eqb_spec i k); [congruence|reflexivity]. }
  exact HP.
Qed.

(* ---- the pivot search returns a row of the window and its leading entry ---- *)
Lemma find_pivot_Ok_inv (au : matrix) mm k l dum p :
  cols au = mm -> find_pivot false au k l = Ok (dum, p) ->
  (p = k \/ (k < p /\ p < l)) /\ dum = mat_at au mm p 0.
Proof.
  intros Hc H. unfold find_pivot in H.
  apply bind_ok in H as (d0 & E0 & H). apply (mget_Ok_inv _ mm) in E0 as (-> & _); auto.
  destruct (Nat.le_gt_cases (k + 1) l) as [Hkl|Hkl].
  2:{ rewrite for_empty in H by lia. injection H as <- <-. auto. }
  refine (for_inv_partial (fun j (st : T * nat) =>
            (snd st = k \/ (k < snd st /\ snd st < j)) /\ fst st = mat_at au mm (snd st) 0)
            (k + 1) l _ (mat_at au mm k 0, k) (dum, p) Hkl _ _ H).
  - cbn. auto.
  - intros j [d i] [d1 i1] Hj (Hi & Hd) E. cbn [fst snd] in *.
    apply bind_ok in E as (a & Ea & E). apply (mget_Ok_inv _ mm) in Ea as (-> & _); auto.
    destruct (pivot_better false (mat_at au mm j 0) d); injection E as <- <-; cbn [fst snd].
    + split; auto. right. lia.
    + split; auto. destruct Hi as [->|Hi]; [auto|right; lia].
Qed.

(* ---- function-level versions (rows as functions of the slot) ---- *)

Definition mult_f (a : nat -> nat -> T) (k i : nat) : T :=
  if eqb (a k 0) zero then zero else mul (a i 0) (inv (a k 0)).
Definition elim_f (a : nat -> nat -> T) (mm k i s : nat) : T :=
  if s <? mm - 1 then sub (a i (s + 1)) (mul (mult_f a k i) (a k (s + 1))) else zero.

Lemma mult_of_ext (au : matrix) mm (a : nat -> nat -> T) k i :
  1 <= mm -> (forall r s, s < mm -> mat_at au mm r s = a r s) -> mult_of au mm k i = mult_f a k i.
Proof. intros Hmm H. unfold mult_of, mult_f. now rewrite !H by lia. Qed.

Lemma elim_new_ext (au : matrix) mm (a : nat -> nat -> T) k i s :
  1 <= mm -> (forall r s, s < mm -> mat_at au mm r s = a r s) -> elim_new au mm k i s = elim_f a mm k i s.
Proof.
  intros Hmm H. unfold elim_new, elim_f. rewrite (mult_of_ext au mm a) by auto.
  destruct (Nat.ltb_spec s (mm - 1)); auto. now rewrite !H by lia.
Qed.

(* exchange of the rows k and p *)
Definition swp (k p i : nat) : nat := if i =? k then p else if i =? p then k else i.

(* the window bound after the increment of stage k *)
Definition lnext (n l : nat) : nat := if l <? n then l + 1 else l.

(* ---- one stage of decompose whose pivot ends up nonzero ---- *)
Lemma dec_step_Ok_inv n mm m1 k (au al : matrix) (index : list nat) (d : T) l
      (au' al' : matrix) (index' : list nat) (d' : T) l' :
  cols au = mm -> cols al = m1 -> 1 <= mm -> lnext n l <= k + 1 + m1 ->
  dec_step false n mm k (au, al, index, d, l) = Ok (au', al', index', d', l') ->
  mat_at au' mm k 0 <> zero ->
  exists p,
    (p = k \/ (k < p /\ p < l')) /\ l' = lnext n l /\ cols au' = mm /\ cols al' = m1 /\
    k < length index /\ index' = upd_list index k (p + 1) /\
    let a2 := fun i s => mat_at au mm (swp k p i) s in
    a2 k 0 <> zero /\
    (forall i s, s < mm -> mat_at au' mm i s = if (k <? i) && (i <? l') then elim_f a2 mm k i s else a2 i s) /\
    (forall i t, t < m1 -> mat_at al' m1 i t =
        if (i =? k) && (k + 1 + t <? l') then mult_f a2 k (k + 1 + t) else mat_at al m1 i t).
Proof.
  intros Hc Hcl Hmm Hl H Hpiv. unfold dec_step in H. fold (lnext n l) in H.
  apply bind_ok in H as ([dum p] & Ep & H). apply (find_pivot_Ok_inv _ mm) in Ep as (Hp & Hdum); auto.
  apply bind_ok in H as (index1 & Ei & H). apply upd_Ok_inv in Ei as (Hki & ->).
  apply bind_ok in H as (au1 & E1 & H).
  apply bind_ok in H as ([au2 d2] & E2 & H).
  apply bind_ok in H as ([au3 al3] & E3 & H). injection H as <- <- <- <- <-.
  (* au2: rows k and p of au1 exchanged *)
  assert (H2 : cols au1 = mm -> cols au2 = mm /\ forall i s, s < mm -> mat_at au2 mm i s = mat_at au1 mm (swp k p i) s).
  { intros Hc1. destruct (Nat.eqb_spec p k) as [->|Hpk]; cbn [negb] in E2.
    - injection E2 as <- <-. split; auto. intros i s Hs. unfold swp.
      destruct (Nat.eqb_spec i k) as [->|]; auto.
    - apply bind_ok in E2 as (au2' & Esw & E2). injection E2 as <- <-.
      apply (swap_band_rows_Ok_inv _ _ mm) in Esw as (Hc2 & Hsw); auto.
      split; auto. intros i s Hs. rewrite Hsw by auto. unfold swp.
      destruct (i =? k); auto. destruct (i =? p); auto. }
  (* the `dum == 0` line: a no-op when the pivot ends up nonzero *)
  assert (Hau1 : au1 = au).
  { destruct (eqb dum zero) eqn:Ez; [|now injection E1 as <-]. exfalso.
    apply (fl_eqb A FL) in Ez.
    apply (mset_Ok_inv _ _ mm) in E1 as (Hc1 & _ & H1); auto; try lia.
    destruct (H2 Hc1) as (Hc2 & H2').
    apply (elim_loop_Ok_inv _ _ _ _ mm m1) in E3 as (_ & _ & H3 & _); auto.
    apply Hpiv. rewrite H3 by lia. rewrite Nat.ltb_irrefl. cbn [andb].
    rewrite H2' by lia. unfold swp. rewrite Nat.eqb_refl. rewrite H1 by lia.
    destruct (Nat.eqb_spec p k) as [->|]; cbn [andb]; auto. congruence. }
  subst au1. destruct (H2 Hc) as (Hc2 & H2').
  apply (elim_loop_Ok_inv _ _ _ _ mm m1) in E3 as (Hc3 & Hcl3 & H3 & Hal3); auto.
  exists p. split; [exact Hp|]. split; [reflexivity|]. split; [auto|]. split; [auto|]. split; [auto|].
  split; [reflexivity|]. cbn zeta.
  assert (Hk0 : mat_at au3 mm k 0 = mat_at au mm (swp k p k) 0).
  { rewrite H3 by lia. rewrite Nat.ltb_irrefl. cbn [andb]. apply H2'. lia. }
  split; [now rewrite <- Hk0|]. split.
  - intros i s Hs. rewrite H3 by auto.
    destruct ((k <? i) && (i <? lnext n l)); [|now apply H2'].
    now apply elim_new_ext.
  - intros i t Ht. rewrite Hal3 by auto.
    destruct ((i =? k) && (k + 1 + t <? lnext n l)); auto.
    now apply mult_of_ext.
Qed.

(* ---- what a stage leaves alone: the rows, multipliers and exchange indices of earlier stages ---- *)
Lemma dec_step_frame n mm m1 k (au al : matrix) (index : list nat) (d : T) l
      (au' al' : matrix) (index' : list nat) (d' : T) l' :
  cols au = mm -> cols al = m1 -> 1 <= mm -> lnext n l <= k + 1 + m1 ->
  dec_step false n mm k (au, al, index, d, l) = Ok (au', al', index', d', l') ->
  cols au' = mm /\ cols al' = m1 /\ l' = lnext n l /\
  (forall i s, i < k -> s < mm -> mat_at au' mm i s = mat_at au mm i s) /\
  (forall i t, i < k -> t < m1 -> mat_at al' m1 i t = mat_at al m1 i t) /\
  (forall i, i < k -> nth i index' 0 = nth i index 0).
Proof.
  intros Hc Hcl Hmm Hl H. unfold dec_step in H. fold (lnext n l) in H.
  apply bind_ok in H as ([dum p] & Ep & H). apply (find_pivot_Ok_inv _ mm) in Ep as (Hp & Hdum); auto.
  apply bind_ok in H as (index1 & Ei & H). apply upd_Ok_inv in Ei as (Hki & ->).
  apply bind_ok in H as (au1 & E1 & H).
  apply bind_ok in H as ([au2 d2] & E2 & H).
  apply bind_ok in H as ([au3 al3] & E3 & H). injection H as <- <- <- <- <-.
  assert (H1 : cols au1 = mm /\ forall i s, i < k -> s < mm -> mat_at au1 mm i s = mat_at au mm i s).
  { destruct (eqb dum zero); [|injection E1 as <-; auto].
    apply (mset_Ok_inv _ _ mm) in E1 as (Hc1 & _ & H1); auto; try lia.
    split; auto. intros i s Hi Hs. rewrite H1 by auto.
    destruct (Nat.eqb_spec i k); [lia|reflexivity]. }
  destruct H1 as (Hc1 & H1).
  assert (H2 : cols au2 = mm /\ forall i s, i < k -> s < mm -> mat_at au2 mm i s = mat_at au1 mm i s).
  { destruct (Nat.eqb_spec p k) as [->|Hpk]; cbn [negb] in E2.
    - injection E2 as <- <-. auto.
    - apply bind_ok in E2 as (au2' & Esw & E2). injection E2 as <- <-.
      apply (swap_band_rows_Ok_inv _ _ mm) in Esw as (Hc2 & Hsw); auto.
      split; auto. intros i s Hi Hs. rewrite Hsw by auto.
      destruct (Nat.eqb_spec i k); [lia|]. destruct (Nat.eqb_spec i p); [lia|reflexivity]. }
  destruct H2 as (Hc2 & H2).
  apply (elim_loop_Ok_inv _ _ _ _ mm m1) in E3 as (Hc3 & Hcl3 & H3 & Hal3); auto.
  repeat split; auto.
  - intros i s Hi Hs. rewrite H3 by auto.
    replace (k <? i) with false by (symmetry; apply Nat.ltb_ge; lia). cbn [andb].
    rewrite H2, H1 by auto. reflexivity.
  - intros i t Hi Ht. rewrite Hal3 by auto.
    destruct (Nat.eqb_spec i k); [lia|reflexivity].
  - intros i Hi. rewrite nth_upd_list by auto. destruct (Nat.eqb_spec i k); [lia|reflexivity].
Qed.

(* the remaining stages k0 .. k0+rem-1 leave everything below k0 alone *)
Lemma dec_loop_frame n mm m1 rem k0 (s0 sN : dec_state) :
  cols (fst (fst (fst (fst s0)))) = mm -> cols (snd (fst (fst (fst s0)))) = m1 -> 1 <= mm ->
  snd s0 = Nat.min (k0 + m1) n -> m1 <= n ->
  for_from rem k0 (dec_step false n mm) s0 = Ok sN ->
  let '(au, al, index, _, _) := s0 in
  let '(auN, alN, indexN, _, lN) := sN in
  cols auN = mm /\ cols alN = m1 /\ lN = Nat.min (k0 + rem + m1) n /\
  (forall i s, i < k0 -> s < mm -> mat_at auN mm i s = mat_at au mm i s) /\
  (forall i t, i < k0 -> t < m1 -> mat_at alN m1 i t = mat_at al m1 i t) /\
  (forall i, i < k0 -> nth i indexN 0 = nth i index 0).
Proof.
  intros Hc Hcl Hmm Hl Hm1 H.
  pose (P := fun j (st : dec_state) =>
    let '(a, b, ix, _, l) := st in
    let '(au, al, index, _, _) := s0 in
    cols a = mm /\ cols b = m1 /\ l = Nat.min (j + m1) n /\
    (forall i s, i < k0 -> s < mm -> mat_at a mm i s = mat_at au mm i s) /\
    (forall i t, i < k0 -> t < m1 -> mat_at b m1 i t = mat_at al m1 i t) /\
    (forall i, i < k0 -> nth i ix 0 = nth i index 0)).
  assert (HP : P (k0 + rem) sN).
  { apply (for_from_inv_partial P rem k0 (dec_step false n mm) s0 sN); auto.
    - destruct s0 as [[[[au al] index] d] l]. cbn in *. repeat split; auto.
    - intros j [[[[a b] ix] dd] l] [[[[a1 b1] ix1] dd1] l1] Hj HPj E.
      destruct s0 as [[[[au al] index] d0] l0]. unfold P in HPj |- *. cbn beta iota in HPj |- *.
      destruct HPj as (Hca & Hcb & Hlj & Ha & Hb & Hix).
      apply (dec_step_frame n mm m1) in E as (Hc1 & Hcb1 & Hl1 & Ha1 & Hb1 & Hix1); auto.
      2:{ rewrite Hlj. unfold lnext. destruct (Nat.ltb_spec (Nat.min (j + m1) n) n); lia. }
      repeat split; auto.
      + rewrite Hl1, Hlj. unfold lnext. destruct (Nat.ltb_spec (Nat.min (j + m1) n) n); lia.
      + intros i s Hi Hs. rewrite Ha1 by (auto; lia). now apply Ha.
      + intros i t Hi Ht. rewrite Hb1 by (auto; lia). now apply Hb.
      + intros i Hi. rewrite Hix1 by lia. now apply Hix. }
  destruct s0 as [[[[au al] index] d0] l0]. destruct sN as [[[[auN alN] indexN] dN] lN].
  exact HP.
Qed.

(* ---- one stage of the forward substitution on the right-hand side ---- *)
Lemma fwd_step_Ok_inv n m1 k (al : matrix) (index : list nat) (y y' : list T) l l' p :
  cols al = m1 -> nth k index 0 = p + 1 -> lnext n l <= k + 1 + m1 ->
  fwd_step n al index k (y, l) = Ok (y', l') ->
  l' = lnext n l /\ length y' = length y /\
  forall i, nth i y' zero =
    if (k <? i) && (i <? l')
    then sub (nth (swp k p i) y zero) (mul (mat_at al m1 k (i - k - 1)) (nth (swp k p k) y zero))
    else nth (swp k p i) y zero.
Proof.
  intros Hcl Hix Hl H. unfold fwd_step in H. fold (lnext n l) in H.
  apply bind_ok in H as (ik & Eik & H). apply (rd_Ok_inv _ _ _ 0) in Eik as (_ & ->). rewrite Hix in H.
  apply bind_ok in H as (j & Ej & H). unfold usub in Ej.
  destruct (1 <=? p + 1); [|discriminate]. injection Ej as <-. replace (p + 1 - 1) with p in H by lia.
  apply bind_ok in H as (z & Ez & H).
  apply bind_ok in H as (y1 & Eloop & H). injection H as <- <-.
  assert (Hz : length z = length y /\ forall i, nth i z zero = nth (swp k p i) y zero).
  { destruct (Nat.eqb_spec p k) as [->|Hpk]; cbn [negb] in Ez.
    - injection Ez as <-. split; auto. intros i. unfold swp. destruct (Nat.eqb_spec i k) as [->|]; auto.
    - unfold vswap in Ez.
      apply bind_ok in Ez as (a & Ea & Ez). apply (rd_Ok_inv _ _ _ zero) in Ea as (Hka & ->).
      apply bind_ok in Ez as (b & Eb & Ez). apply (rd_Ok_inv _ _ _ zero) in Eb as (Hpb & ->).
      apply bind_ok in Ez as (v1 & E1 & Ez). apply upd_Ok_inv in E1 as (_ & ->).
      apply upd_Ok_inv in Ez as (Hp1 & ->).
      split; [now rewrite !upd_list_length|].
      intros i. rewrite nth_upd_list by auto. rewrite nth_upd_list by auto. unfold swp.
      destruct (Nat.eqb_spec i p) as [->|].
      + destruct (Nat.eqb_spec p k); [congruence|reflexivity].
      + destruct (Nat.eqb_spec i k); reflexivity. }
  destruct Hz as (Hzl & Hz).
  split; [reflexivity|].
  destruct (Nat.le_gt_cases (k + 1) (lnext n l)) as [Hkl|Hkl].
  2:{ rewrite for_empty in Eloop by lia. injection Eloop as <-. split; auto. intros i. rewrite Hz.
      replace ((k <? i) && (i <? lnext n l)) with false; auto.
      symmetry. apply andb_false_iff. destruct (Nat.ltb_spec k i); destruct (Nat.ltb_spec i (lnext n l)); auto; lia. }
  refine (for_inv_partial (fun j (x : list T) => length x = length y /\ forall i, nth i x zero =
            if (k <? i) && (i <? j)
            then sub (nth (swp k p i) y zero) (mul (mat_at al m1 k (i - k - 1)) (nth (swp k p k) y zero))
            else nth (swp k p i) y zero) (k + 1) (lnext n l) _ z y1 Hkl _ _ Eloop).
  - split; auto. intros i. rewrite Hz.
    replace ((k <? i) && (i <? k + 1)) with false; auto.
    symmetry. apply andb_false_iff. destruct (Nat.ltb_spec k i); destruct (Nat.ltb_spec i (k + 1)); auto; lia.
  - intros j x x1 Hj (Hxl & Hx) E.
    apply bind_ok in E as (xk & Exk & E). apply (rd_Ok_inv _ _ _ zero) in Exk as (_ & ->).
    apply bind_ok in E as (a & Ea & E). apply (mget_Ok_inv _ m1) in Ea as (-> & _); auto.
    apply bind_ok in E as (xj & Exj & E). apply (rd_Ok_inv _ _ _ zero) in Exj as (Hjx & ->).
    apply upd_Ok_inv in E as (_ & ->). split; [now rewrite upd_list_length|].
    intros i. rewrite nth_upd_list by auto.
    destruct (Nat.eqb_spec i j) as [->|Hne].
    + replace ((k <? j) && (j <? S j)) with true
        by (symmetry; apply andb_true_iff; split; apply Nat.ltb_lt; lia).
      rewrite !Hx. rewrite (Nat.ltb_irrefl j), (Nat.ltb_irrefl k). cbn [andb]. rewrite andb_false_r. reflexivity.
    + rewrite Hx.
      destruct (Nat.ltb_spec k i); destruct (Nat.ltb_spec i j); destruct (Nat.ltb_spec i (S j)); cbn [andb]; auto; lia.
Qed.

(* ---- the algebra of one stage ---- *)

Definition c_of (m1 k i : nat) : nat := if i <? k then i else if i <? k + m1 then k else i - m1.

Definition rowf (a : nat -> T) (mm c : nat) (x : list T) : T :=
  sum_n mm (fun s => mul (a s) (nth (c + s) x zero)).

Lemma rowval_rowf (au : matrix) mm i c x : rowval au mm i c x = rowf (mat_at au mm i) mm c x.
Proof. reflexivity. Qed.

Lemma rowf_ext (a b : nat -> T) mm c x : (forall s, s < mm -> a s = b s) -> rowf a mm c x = rowf b mm c x.
Proof. intros H. unfold rowf. apply sum_n_ext. intros s Hs. now rewrite H. Qed.

Lemma sum_n_lin m (c : T) (f g : nat -> T) :
  sum_n m (fun u => sub (f u) (mul c (g u))) = sub (sum_n m f) (mul c (sum_n m g)).
Proof. induction m as [|m IH]; cbn; [ring|]. rewrite IH. ring. Qed.

Lemma neq_eqb_false (x y : T) : x <> y -> eqb x y = false.
Proof. intros H. destruct (eqb x y) eqn:E; auto. apply (fl_eqb A FL) in E. congruence. Qed.

Lemma rowf_elim (a2 : nat -> nat -> T) mm k i x :
  1 <= mm -> a2 k 0 <> zero ->
  rowf (elim_f a2 mm k i) mm (k + 1) x =
  sub (rowf (a2 i) mm k x) (mul (mult_f a2 k i) (rowf (a2 k) mm k x)).
Proof.
  intros Hmm Hk0. destruct mm as [|m]; [lia|]. unfold rowf.
  rewrite (sum_n_peel m (fun s => mul (a2 i s) (nth (k + s) x zero))).
  rewrite (sum_n_peel m (fun s => mul (a2 k s) (nth (k + s) x zero))).
  cbn [sum_n]. unfold elim_f at 2. replace (m <? S m - 1) with false by (symmetry; apply Nat.ltb_ge; lia).
  rewrite (sum_n_ext m _ (fun u => sub (mul (a2 i (1 + u)) (nth (k + (1 + u)) x zero))
                                       (mul (mult_f a2 k i) (mul (a2 k (1 + u)) (nth (k + (1 + u)) x zero))))).
  2:{ intros u Hu. unfold elim_f. replace (u <? S m - 1) with true by (symmetry; apply Nat.ltb_lt; lia).
      replace (u + 1) with (1 + u) by lia. replace (k + 1 + u) with (k + (1 + u)) by lia. ring. }
  rewrite sum_n_lin. unfold mult_f. rewrite (neq_eqb_false _ _ Hk0). rewrite Nat.add_0_r.
  field. exact Hk0.
Qed.

Lemma swp_invol k p i : swp k p (swp k p i) = i.
Proof.
  unfold swp.
  destruct (Nat.eqb_spec i k) as [->|H1].
  - destruct (Nat.eqb_spec p k) as [->|H2]; auto. now rewrite Nat.eqb_refl.
  - destruct (Nat.eqb_spec i p) as [->|H2].
    + now rewrite Nat.eqb_refl.
    + destruct (Nat.eqb_spec i k); [congruence|]. destruct (Nat.eqb_spec i p); congruence.
Qed.

Lemma stage_back n mm m1 k p l' (au au' : matrix) (y y' x : list T) :
  1 <= mm -> k < n -> l' = Nat.min (k + 1 + m1) n -> (p = k \/ (k < p /\ p < l')) ->
  let a2 := fun i s => mat_at au mm (swp k p i) s in
  a2 k 0 <> zero ->
  (forall i s, s < mm -> mat_at au' mm i s = if (k <? i) && (i <? l') then elim_f a2 mm k i s else a2 i s) ->
  (forall i, nth i y' zero =
     if (k <? i) && (i <? l')
     then sub (nth (swp k p i) y zero) (mul (mult_f a2 k i) (nth (swp k p k) y zero))
     else nth (swp k p i) y zero) ->
  (forall i, i < n -> rowval au' mm i (c_of m1 (k + 1) i) x = nth i y' zero) ->
  forall i, i < n -> rowval au mm i (c_of m1 k i) x = nth i y zero.
Proof.
  intros Hmm Hkn Hl' Hp a2 Hk0 Hau' Hy' Hnew.
  (* the system after the exchange: rows of the window, aligned at column k *)
  assert (Hwin : forall i, k <= i < l' -> rowf (a2 i) mm k x = nth (swp k p i) y zero).
  { assert (H1 : rowf (a2 k) mm k x = nth (swp k p k) y zero).
    { specialize (Hnew k Hkn). rewrite rowval_rowf in Hnew.
      rewrite (rowf_ext _ (a2 k)) in Hnew.
      2:{ intros s Hs. rewrite Hau' by auto. now rewrite Nat.ltb_irrefl. }
      rewrite Hy', Nat.ltb_irrefl in Hnew. cbn [andb] in Hnew.
      unfold c_of in Hnew. replace (k <? k + 1) with true in Hnew by (symmetry; apply Nat.ltb_lt; lia).
      exact Hnew. }
    intros i Hi. destruct (Nat.eq_dec i k) as [->|Hik]; [exact H1|].
    assert (Hin : (k <? i) && (i <? l') = true) by (apply andb_true_iff; split; apply Nat.ltb_lt; lia).
    assert (Hi' : i < n) by lia.
    specialize (Hnew i Hi'). rewrite rowval_rowf in Hnew.
    rewrite (rowf_ext _ (elim_f a2 mm k i)) in Hnew.
    2:{ intros s Hs. rewrite Hau' by auto. now rewrite Hin. }
    rewrite Hy', Hin in Hnew.
    unfold c_of in Hnew. replace (i <? k + 1) with false in Hnew by (symmetry; apply Nat.ltb_ge; lia).
    replace (i <? k + 1 + m1) with true in Hnew by (symmetry; apply Nat.ltb_lt; lia).
    rewrite rowf_elim in Hnew by auto. rewrite H1 in Hnew.
    transitivity (add (sub (rowf (a2 i) mm k x) (mul (mult_f a2 k i) (nth (swp k p k) y zero)))
                      (mul (mult_f a2 k i) (nth (swp k p k) y zero))); [ring|].
    rewrite Hnew. ring. }
  intros i Hi.
  destruct (Nat.lt_ge_cases i k) as [Hlt|Hge]; [|destruct (Nat.lt_ge_cases i l') as [Hin|Hout]].
  - (* finished rows *)
    assert (Hsw : swp k p i = i).
    { unfold swp. destruct (Nat.eqb_spec i k); [lia|]. destruct (Nat.eqb_spec i p); [lia|reflexivity]. }
    specialize (Hnew i Hi). rewrite rowval_rowf in *.
    rewrite (rowf_ext _ (mat_at au mm i)) in Hnew.
    2:{ intros s Hs. rewrite Hau' by auto.
        replace (k <? i) with false by (symmetry; apply Nat.ltb_ge; lia). cbn [andb]. unfold a2. now rewrite Hsw. }
    rewrite Hy' in Hnew. replace (k <? i) with false in Hnew by (symmetry; apply Nat.ltb_ge; lia).
    cbn [andb] in Hnew. rewrite Hsw in Hnew. unfold c_of in *.
    replace (i <? k) with true by (symmetry; apply Nat.ltb_lt; lia).
    replace (i <? k + 1) with true in Hnew by (symmetry; apply Nat.ltb_lt; lia). exact Hnew.
  - (* rows of the window *)
    pose (i' := swp k p i).
    assert (Hi'w : k <= i' < l').
    { unfold i', swp. destruct (Nat.eqb_spec i k); [lia|]. destruct (Nat.eqb_spec i p); lia. }
    specialize (Hwin i' Hi'w). unfold i' in Hwin at 2. rewrite swp_invol in Hwin.
    rewrite rowval_rowf. rewrite <- Hwin.
    unfold c_of. replace (i <? k) with false by (symmetry; apply Nat.ltb_ge; lia).
    destruct (Nat.ltb_spec i (k + m1)).
    + apply rowf_ext. intros s Hs. unfold a2, i'. now rewrite swp_invol.
    + replace (i - m1) with k by lia. apply rowf_ext. intros s Hs. unfold a2, i'. now rewrite swp_invol.
  - (* rows not yet reached *)
    assert (Hsw : swp k p i = i).
    { unfold swp. destruct (Nat.eqb_spec i k); [lia|]. destruct (Nat.eqb_spec i p); [lia|reflexivity]. }
    specialize (Hnew i Hi). rewrite rowval_rowf in *.
    rewrite (rowf_ext _ (mat_at au mm i)) in Hnew.
    2:{ intros s Hs. rewrite Hau' by auto.
        replace (i <? l') with false by (symmetry; apply Nat.ltb_ge; lia). rewrite andb_false_r.
        unfold a2. now rewrite Hsw. }
    rewrite Hy' in Hnew. replace (i <? l') with false in Hnew by (symmetry; apply Nat.ltb_ge; lia).
    rewrite andb_false_r in Hnew. rewrite Hsw in Hnew. unfold c_of in *.
    replace (i <? k) with false by (symmetry; apply Nat.ltb_ge; lia).
    replace (i <? k + m1) with false by (symmetry; apply Nat.ltb_ge; lia).
    replace (i <? k + 1) with false in Hnew by (symmetry; apply Nat.ltb_ge; lia).
    replace (i <? k + 1 + m1) with false in Hnew by (symmetry; apply Nat.ltb_ge; lia). exact Hnew.
Qed.

(* ---- all stages: a solution of the final triangular system solves the system the main loop started from ---- *)
Lemma lnext_min n m1 k : m1 <= n -> lnext n (Nat.min (k + m1) n) = Nat.min (k + 1 + m1) n.
Proof. intros H. unfold lnext. destruct (Nat.ltb_spec (Nat.min (k + m1) n) n); lia. Qed.

Lemma dec_fwd_back n mm m1 (x : list T) :
  1 <= mm -> m1 <= n ->
  forall rem k (au al : matrix) (index : list nat) (d : T) (auN alN : matrix) (indexN : list nat) (dN : T) lN
         (y yN : list T) lN',
  k + rem = n -> cols au = mm -> cols al = m1 ->
  for_from rem k (dec_step false n mm) (au, al, index, d, Nat.min (k + m1) n) = Ok (auN, alN, indexN, dN, lN) ->
  (forall i, k <= i < n -> mat_at auN mm i 0 <> zero) ->
  for_from rem k (fwd_step n alN indexN) (y, Nat.min (k + m1) n) = Ok (yN, lN') ->
  (forall i, i < n -> rowval auN mm i i x = nth i yN zero) ->
  forall i, i < n -> rowval au mm i (c_of m1 k i) x = nth i y zero.
Proof.
  intros Hmm Hm1. induction rem as [|rem IH];
    intros k au al index d auN alN indexN dN lN y yN lN' Hk Hc Hcl Hdec Hpiv Hfwd Hfin.
  - cbn in Hdec, Hfwd. injection Hdec as <- <- <- <- <-. injection Hfwd as <- <-.
    intros i Hi. unfold c_of. replace (i <? k) with true by (symmetry; apply Nat.ltb_lt; lia). now apply Hfin.
  - cbn [for_from] in Hdec, Hfwd.
    apply bind_ok in Hdec as ([[[[au1 al1] index1] d1] l1] & E1 & Hdec).
    apply bind_ok in Hfwd as ([y1 l1'] & F1 & Hfwd).
    assert (Hln : lnext n (Nat.min (k + m1) n) <= k + 1 + m1) by (rewrite lnext_min by auto; lia).
    pose proof (dec_step_frame n mm m1 k _ _ _ _ _ _ _ _ _ _ Hc Hcl Hmm Hln E1) as (Hc1 & Hcl1 & Hl1 & _).
    rewrite lnext_min in Hl1 by auto. subst l1.
    (* the later stages leave row k, its multipliers and its exchange index alone *)
    pose proof (dec_loop_frame n mm m1 rem (S k) (au1, al1, index1, d1, Nat.min (k + 1 + m1) n)
                  (auN, alN, indexN, dN, lN)) as HF.
    cbn beta iota in HF. cbn [fst snd] in HF.
    specialize (HF Hc1 Hcl1 Hmm).
    replace (S k + m1) with (k + 1 + m1) in HF by lia. specialize (HF eq_refl Hm1 Hdec).
    destruct HF as (HcN & HclN & _ & HauN & HalN & HixN).
    assert (Hpk : mat_at au1 mm k 0 <> zero).
    { rewrite <- HauN by lia. apply Hpiv. lia. }
    destruct (dec_step_Ok_inv n mm m1 k _ _ _ _ _ _ _ _ _ _ Hc Hcl Hmm Hln E1 Hpk)
      as (p & Hp & _ & _ & _ & Hki & Hix1 & Ha2 & Hau1 & Hal1).
    cbn zeta in Ha2, Hau1, Hal1.
    assert (HixNk : nth k indexN 0 = p + 1).
    { rewrite HixN by lia. rewrite Hix1, nth_upd_list by auto. now rewrite Nat.eqb_refl. }
    destruct (fwd_step_Ok_inv n m1 k alN indexN y y1 _ l1' p HclN HixNk Hln F1) as (Hl1' & _ & Hy1).
    rewrite lnext_min in Hl1' by auto. subst l1'.
    (* induction hypothesis for the stages after k *)
    assert (Hnext : forall i, i < n -> rowval au1 mm i (c_of m1 (k + 1) i) x = nth i y1 zero).
    { replace (k + 1) with (S k) by lia.
      apply (IH (S k) au1 al1 index1 d1 auN alN indexN dN lN y1 yN lN'); auto; try lia.
      - now replace (S k + m1) with (k + 1 + m1) by lia.
      - intros i Hi. apply Hpiv. lia.
      - now replace (S k + m1) with (k + 1 + m1) by lia. }
    apply (stage_back n mm m1 k p (Nat.min (k + 1 + m1) n) au au1 y y1 x); auto; try lia.
    intros i. rewrite Hy1.
    destruct ((k <? i) && (i <? Nat.min (k + 1 + m1) n)) eqn:Hin; auto.
    apply andb_true_iff in Hin as (Hki' & Hil). apply Nat.ltb_lt in Hki', Hil.
    rewrite HalN by lia. rewrite Hal1 by lia. rewrite Nat.eqb_refl. cbn [andb].
    replace (k + 1 + (i - k - 1)) with i by lia.
    replace (i <? Nat.min (k + 1 + m1) n) with true by (symmetry; apply Nat.ltb_lt; lia). reflexivity.
Qed.

(* ---- the forward loop keeps the length of the right-hand side ---- *)
Lemma fwd_step_length n (al : matrix) (index : list nat) k (y y' : list T) l l' :
  fwd_step n al index k (y, l) = Ok (y', l') -> length y' = length y.
Proof.
  intros H. unfold fwd_step in H.
  apply bind_ok in H as (ik & _ & H). apply bind_ok in H as (j & _ & H).
  apply bind_ok in H as (z & Ez & H). apply bind_ok in H as (y1 & Eloop & H). injection H as <- <-.
  assert (Hz : length z = length y).
  { destruct (negb (j =? k)); [|now injection Ez as <-]. unfold vswap in Ez.
    apply bind_ok in Ez as (a & _ & Ez). apply bind_ok in Ez as (b & _ & Ez).
    apply bind_ok in Ez as (v1 & E1 & Ez). apply upd_Ok_inv in E1 as (_ & ->).
    apply upd_Ok_inv in Ez as (_ & ->). now rewrite !upd_list_length. }
  rewrite <- Hz. set (l1 := if l <? n then l + 1 else l) in *.
  destruct (Nat.le_gt_cases (k + 1) l1) as [Hkl|Hkl].
  2:{ rewrite for_empty in Eloop by lia. now injection Eloop as <-. }
  refine (for_inv_partial (fun _ (x : list T) => length x = length z) (k + 1) l1 _ z y1 Hkl eq_refl _ Eloop).
  intros j' x x1 _ Hx E.
  apply bind_ok in E as (xk & _ & E). apply bind_ok in E as (a & _ & E). apply bind_ok in E as (xj & _ & E).
  apply upd_Ok_inv in E as (_ & ->). now rewrite upd_list_length.
Qed.

Lemma fwd_loop_length n (al : matrix) (index : list nat) rem k (s s' : list T * nat) :
  for_from rem k (fwd_step n al index) s = Ok s' -> length (fst s') = length (fst s).
Proof.
  intros H.
  refine (for_from_inv_partial (fun _ (st : list T * nat) => length (fst st) = length (fst s)) rem k _ s s' eq_refl _ H).
  intros i [y l] [y1 l1] _ Hy E. cbn [fst] in *. apply fwd_step_length in E. congruence.
Qed.

(* ---- the first loop of decompose: rows 0 .. m1-1 shifted left, lower-left padding dropped, zeros appended ---- *)
Definition shifted (au : matrix) (mm m1 r s : nat) : T :=
  if r <? m1 then (if s <? mm - (m1 - r) then mat_at au mm r (s + (m1 - r)) else zero) else mat_at au mm r s.

Lemma shift_rows_Ok_inv (au au0 : matrix) mm m1 :
  cols au = mm -> m1 < mm -> shift_rows m1 mm au = Ok au0 ->
  cols au0 = mm /\ forall r s, s < mm -> mat_at au0 mm r s = shifted au mm m1 r s.
Proof.
  intros Hc Hm H. unfold shift_rows in H. apply bind_ok in H as ([a l] & Eloop & H). injection H as <-.
  cbn [fst].
  pose (P := fun i (st : matrix * nat) =>
     snd st = m1 - i /\ cols (fst st) = mm /\
     forall r s, s < mm -> mat_at (fst st) mm r s = if r <? i then shifted au mm m1 r s else mat_at au mm r s).
  assert (HP : P m1 (a, l)).
  { refine (for_inv_partial P 0 m1 _ (au, m1) (a, l) (Nat.le_0_l _) _ _ Eloop).
    - unfold P; cbn [fst snd]. repeat split; auto. lia.
    - intros i [a0 l0] [a2 l2] Hi (Hl0 & Hc0 & Ha0) E. cbn [fst snd] in *. subst l0.
      apply bind_ok in E as (a1 & Ecopy & E). apply bind_ok in E as (a2' & Ezero & E). injection E as <- <-.
      (* copy loop *)
      assert (H1 : cols a1 = mm /\ forall r s, s < mm -> mat_at a1 mm r s =
                 if (r =? i) && (s <? mm - (m1 - i)) then mat_at a0 mm i (s + (m1 - i)) else mat_at a0 mm r s).
      { assert (Hle : m1 - i <= mm) by lia.
        refine (for_inv_partial (fun j (m : matrix) => cols m = mm /\ forall r s, s < mm -> mat_at m mm r s =
                   if (r =? i) && (s <? j - (m1 - i)) then mat_at a0 mm i (s + (m1 - i)) else mat_at a0 mm r s)
                  (m1 - i) mm _ a0 a1 Hle _ _ Ecopy).
        - split; auto. intros r s Hs. rewrite Nat.sub_diag. cbn. now rewrite andb_false_r.
        - intros j m m' Hj (Hcm & Hm') E.
          apply bind_ok in E as (v & Ev & E). apply (mget_Ok_inv _ mm) in Ev as (-> & _); auto.
          apply (mset_Ok_inv _ _ mm) in E as (Hcm' & _ & Hm''); auto; [|lia].
          split; auto. intros r s Hs. rewrite Hm'' by auto. rewrite !Hm' by lia.
          replace (j <? j - (m1 - i)) with false by (symmetry; apply Nat.ltb_ge; lia). rewrite andb_false_r.
          destruct (Nat.eqb_spec r i) as [->|]; cbn [andb]; auto.
          destruct (Nat.eqb_spec s (j - (m1 - i))) as [->|].
          + replace (j - (m1 - i) <? S j - (m1 - i)) with true by (symmetry; apply Nat.ltb_lt; lia).
            now replace (j - (m1 - i) + (m1 - i)) with j by lia.
          + destruct (Nat.ltb_spec s (j - (m1 - i))); destruct (Nat.ltb_spec s (S j - (m1 - i))); auto; lia. }
      destruct H1 as (Hc1 & H1).
      (* zero fill *)
      assert (H2 : cols a2' = mm /\ forall r s, s < mm -> mat_at a2' mm r s =
                 if (r =? i) && (mm - (m1 - i) <=? s) then zero else mat_at a1 mm r s).
      { assert (Hle : mm - (m1 - i - 1) - 1 <= mm) by lia.
        assert (Hst : mm - (m1 - i - 1) - 1 = mm - (m1 - i)) by lia.
        assert (HZ : cols a2' = mm /\ forall r s, s < mm -> mat_at a2' mm r s =
                   if (r =? i) && (mm - (m1 - i) <=? s) && (s <? mm) then zero else mat_at a1 mm r s).
        { refine (for_inv_partial (fun j (m : matrix) => cols m = mm /\ forall r s, s < mm -> mat_at m mm r s =
                   if (r =? i) && (mm - (m1 - i) <=? s) && (s <? j) then zero else mat_at a1 mm r s)
                  (mm - (m1 - i - 1) - 1) mm _ a1 a2' Hle _ _ Ezero).
          - split; auto. intros r s Hs. rewrite Hst.
            destruct (Nat.eqb_spec r i); cbn [andb]; auto.
            destruct (Nat.leb_spec (mm - (m1 - i)) s); destruct (Nat.ltb_spec s (mm - (m1 - i))); cbn [andb]; auto; lia.
          - intros j m m' Hj (Hcm & Hm') E.
            apply (mset_Ok_inv _ _ mm) in E as (Hcm' & _ & Hm''); auto; [|lia].
            split; auto. intros r s Hs. rewrite Hm'' by auto. rewrite Hm' by auto.
            destruct (Nat.eqb_spec r i) as [->|]; cbn [andb]; auto.
            destruct (Nat.eqb_spec s j) as [->|].
            + replace (mm - (m1 - i) <=? j) with true by (symmetry; apply Nat.leb_le; lia).
              replace (j <? S j) with true by (symmetry; apply Nat.ltb_lt; lia). reflexivity.
            + destruct (Nat.leb_spec (mm - (m1 - i)) s); cbn [andb]; auto.
              destruct (Nat.ltb_spec s j); destruct (Nat.ltb_spec s (S j)); auto; lia. }
        destruct HZ as (Hcz & Hz).
        split; auto. intros r s Hs. rewrite Hz by auto.
        replace (s <? mm) with true by (symmetry; apply Nat.ltb_lt; auto). now rewrite andb_true_r. }
      destruct H2 as (Hc2 & H2).
      unfold P; cbn [fst snd]. split; [lia|]. split; [auto|].
      intros r s Hs. rewrite H2, H1 by auto.
      destruct (Nat.eqb_spec r i) as [->|Hne]; cbn [andb].
      + replace (i <? S i) with true by (symmetry; apply Nat.ltb_lt; lia).
        unfold shifted. replace (i <? m1) with true by (symmetry; apply Nat.ltb_lt; lia).
        destruct (Nat.leb_spec (mm - (m1 - i)) s); destruct (Nat.ltb_spec s (mm - (m1 - i))); try lia; auto.
        rewrite Ha0 by lia. now rewrite Nat.ltb_irrefl.
      + rewrite Ha0 by auto.
        destruct (Nat.ltb_spec r i); destruct (Nat.ltb_spec r (S i)); auto; lia. }
  destruct HP as (_ & Hca & Ha). split; auto. intros r s Hs. rewrite Ha by auto.
  unfold shifted. destruct (Nat.ltb_spec r m1); auto.
Qed.

(* after the first loop every row, read at its alignment column, is the row of the dense twin *)
Lemma shifted_row_dense (B : banded) (au0 : matrix) (x : list T) i :
  wfB B -> length x = bn B -> i < bn B ->
  (forall r s, s < bm1 B + bm2 B + 1 ->
     mat_at au0 (bm1 B + bm2 B + 1) r s = shifted (compact B) (bm1 B + bm2 B + 1) (bm1 B) r s) ->
  rowval au0 (bm1 B + bm2 B + 1) i (c_of (bm1 B) 0 i) x =
  sum_n (bn B) (fun j => mul (dense_entry B i j) (nth j x zero)).
Proof.
  intros Hwf Hx Hi Hau0.
  rewrite (row_sum_dense RL B x i Hi). unfold rowval, row_cnt, row_lo, row_term.
  set (n := bn B) in *. set (m1 := bm1 B) in *. set (m2 := bm2 B) in *. set (mm := m1 + m2 + 1) in *.
  set (cnt := Nat.min n (i + m2 + 1) - (i - m1)).
  assert (Hcnt : cnt <= mm) by (unfold cnt, mm; lia).
  replace mm with (cnt + (mm - cnt)) at 1 by lia.
  rewrite (sum_n_trunc RL).
  2:{ intros s Hs. rewrite Hau0 by lia. unfold shifted, c_of. fold m1 mm. cbn [Nat.add].
      replace (i <? 0) with false by reflexivity.
      destruct (Nat.ltb_spec i m1).
      - destruct (Nat.ltb_spec s (mm - (m1 - i))).
        + rewrite nth_overflow; [ring|]. rewrite Hx. fold n. unfold cnt in Hs. lia.
        + ring.
      - rewrite nth_overflow; [ring|]. rewrite Hx. fold n. unfold cnt, mm in Hs. lia. }
  apply sum_n_ext. intros k Hk. rewrite Hau0 by lia. unfold shifted, c_of, cslot. fold m1 m2 mm. cbn [Nat.add].
  replace (i <? 0) with false by reflexivity.
  destruct (Nat.ltb_spec i m1).
  - replace (k <? mm - (m1 - i)) with true by (symmetry; apply Nat.ltb_lt; unfold cnt, mm in *; lia).
    unfold mat_at. replace (k + (m1 - i)) with (m1 - i + k) by lia.
    replace (m1 - i + k + i - m1) with (0 + k) by lia. reflexivity.
  - unfold mat_at. replace (m1 - i + k) with k by lia. replace (k + i - m1) with (i - m1 + k) by lia. reflexivity.
Qed.

Lemma nth_map_seq {X} (f : nat -> X) n i d : i < n -> nth i (map f (seq 0 n)) d = f i.
Proof.
  intros Hi. rewrite (nth_indep _ d (f 0)) by now rewrite map_length, seq_length.
  rewrite map_nth, seq_nth by auto. reflexivity.
Qed.

(* ---- band_solve is sound: an answer solves the dense twin's system ---- *)
Lemma band_solve_sound_lemma (B : banded) (b x : list T) :
  wfB B -> length b = bn B -> bm1 B <= bn B ->
  band_solve B b = Ok x -> length x = bn B /\ dense_mulv B x = b.
Proof.
  intros Hwf Hb Hm1 H. pose proof Hwf as (HwfM & Hrows & Hcols).
  unfold band_solve, band_solve_gen in H.
  destruct (negb (bn B =? length b)); [discriminate|].
  apply bind_ok in H as ([[[auN alN] indexN] dN] & Edec & H).
  apply bind_ok in H as ([y ly] & Efwd & H).
  apply bind_ok in H as ([x' lx] & Eback & H). injection H as <-. cbn [fst] in *.
  set (n := bn B) in *. set (m1 := bm1 B) in *. set (mm := m1 + bm2 B + 1) in *.
  assert (Hmm : 1 <= mm) by (unfold mm; lia).
  unfold decompose_gen in Edec. fold m1 mm n in Edec.
  apply bind_ok in Edec as (au0 & Eshift & Edec).
  apply bind_ok in Edec as ([[[[auN' alN'] indexN'] dN'] lN'] & Eloop & Edec). injection Edec as <- <- <- <-.
  apply (shift_rows_Ok_inv _ _ mm m1) in Eshift as (Hc0 & Hau0); auto; [|unfold mm; lia].
  unfold for_ in Eloop, Efwd. rewrite Nat.sub_0_r in Eloop, Efwd.
  assert (Hl0 : m1 = Nat.min (0 + m1) n) by lia.
  (* sizes of the final work matrix *)
  pose proof (dec_loop_frame n mm m1 n 0 (au0, mat_new n m1 zero, repeat 0 n, one, m1)
                (auN', alN', indexN', dN', lN')) as HF.
  cbn beta iota in HF. cbn [fst snd] in HF.
  specialize (HF Hc0 eq_refl Hmm Hl0 Hm1 Eloop). destruct HF as (HcN & _).
  (* back substitution *)
  pose proof (fwd_loop_length _ _ _ _ _ _ _ Efwd) as Hylen. cbn [fst] in Hylen.
  destruct (back_subst_sound auN' mm n y x' lx HcN Hmm) as (Hxlen & Hfin); [congruence|exact Eback|].
  split; [exact Hxlen|].
  (* all the stages, backwards *)
  assert (Eloop' : for_from n 0 (dec_step false n mm)
                     (au0, mat_new n m1 zero, repeat 0 n, one, Nat.min (0 + m1) n) = Ok (auN', alN', indexN', dN', lN'))
    by (rewrite <- Hl0; exact Eloop).
  assert (Efwd' : for_from n 0 (fwd_step n alN' indexN') (b, Nat.min (0 + m1) n) = Ok (y, ly))
    by (rewrite <- Hl0; exact Efwd).
  pose proof (dec_fwd_back n mm m1 x' Hmm Hm1 n 0 au0 (mat_new n m1 zero) (repeat 0 n) one
                auN' alN' indexN' dN' lN' b y ly eq_refl Hc0 eq_refl Eloop') as Hall.
  specialize (Hall (fun i Hi => proj2 (Hfin i (proj2 Hi))) Efwd' (fun i Hi => proj1 (Hfin i Hi))).
  (* the system the main loop started from is the dense twin's *)
  apply (nth_ext _ _ zero zero).
  - unfold dense_mulv. rewrite map_length, seq_length. fold n. lia.
  - unfold dense_mulv. rewrite map_length, seq_length. intros i Hi.
    rewrite nth_map_seq by auto.
    rewrite <- (Hall i Hi). symmetry. apply shifted_row_dense; auto.
Qed.

End LU.

(* statement pinned in Props/C04.v *)
Lemma band_solve_sound_full {A : Arith} (FL : FieldLaws A) (B : banded A) (b x : list A) :
  wfB B -> length b = bn B -> bm1 B <= bn B ->
  band_solve B b = Ok x ->
  length x = bn B /\ dense_mulv B x = b /\
  forall B' x', same_in_matrix_slots B B' -> band_solve B' b = Ok x' -> dense_mulv B x' = b.
Proof.
  intros Hwf Hb Hm1 H. destruct (band_solve_sound_lemma FL B b x Hwf Hb Hm1 H) as (Hl & Hs).
  split; auto. split; auto.
  intros B' x' HS H'. pose proof HS as (Hwf' & Hn & H1 & H2 & _).
  destruct (band_solve_sound_lemma FL B' b x') as (Hl' & Hs'); auto; try congruence.
  rewrite <- Hs'. unfold dense_mulv. rewrite Hn. apply map_ext_in. intros i Hi. apply in_seq in Hi.
  apply sum_n_ext. intros j Hj. now rewrite (dense_entry_same B B') by (auto; lia).
Qed.
