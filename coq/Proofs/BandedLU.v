(* Proofs/BandedLU.v -- the compact LU of Model/Banded.v: back substitution, forward elimination. *)
From Coq Require Import List Arith Lia ZArith Bool Ring_theory Ring Field_theory Field.
From OV Require Import Base.Panic Base.Arith Model.Vector Model.Matrix Model.Banded Proofs.Banded.
Import ListNotations.
Local Open Scope nat_scope.

Section LU.
Context {A : Arith}.
Notation T := (T A).
Notation matrix := (matrix A).
Notation banded := (banded A).
Variable FL : FieldLaws A.
Let RL : RingLaws A := RingLaws_of_Field FL.
Add Field AFld : (fl_field A FL).

Notation inv := (fl_inv A FL).

Lemma eqb_false_neq (x y : T) : eqb x y = false -> x <> y.
Proof. intros H E. apply (fl_eqb A FL) in E. congruence. Qed.

Lemma div_Ok_inv (x y q : T) : div x y = Ok q -> y <> zero /\ q = mul x (inv y).
Proof.
  rewrite (fl_div A FL). destruct (eqb y zero) eqn:E; [discriminate|].
  intros H; injection H as <-. split; auto. now apply eqb_false_neq.
Qed.

(* entry (i,s) of a compact work matrix with mm columns *)
Definition mat_at (au : matrix) (mm i s : nat) : T := nth (i * mm + s) (buf au) zero.

(* the value of row i, whose slot s holds column c + s, on the vector x (columns >= length x count as 0:
   this is how padding and the zero fill of the shifted rows drop out) *)
Definition rowval (au : matrix) (mm i c : nat) (x : list T) : T :=
  sum_n mm (fun s => mul (mat_at au mm i s) (nth (c + s) x zero)).

Lemma mget_Ok_inv (au : matrix) mm i s a :
  cols au = mm -> mget au i s = Ok a -> a = mat_at au mm i s /\ i * mm + s < length (buf au).
Proof.
  intros Hc H. unfold mget in H. rewrite Hc in H. apply (rd_Ok_inv _ _ _ zero) in H as (Hl & ->).
  split; auto.
Qed.

Lemma sum_n_peel n (f : nat -> T) : sum_n (S n) f = add (f 0) (sum_n n (fun u => f (1 + u))).
Proof.
  induction n as [|n IH].
  - cbn. ring.
  - change (sum_n (S (S n)) f) with (add (sum_n (S n) f) (f (S n))). rewrite IH. cbn [sum_n]. cbn [Nat.add]. ring.
Qed.

(* ---- back substitution solves the upper-banded system held in au (rows aligned at their own column) ---- *)
Lemma back_subst_sound (au : matrix) (mm n : nat) (y x : list T) (lf : nat) :
  cols au = mm -> 1 <= mm -> length y = n ->
  for_rev 0 n (back_step mm au) (y, 1) = Ok (x, lf) ->
  length x = n /\ forall i, i < n -> rowval au mm i i x = nth i y zero.
Proof.
  intros Hc Hmm Hy E. unfold for_rev in E. rewrite Nat.sub_0_r in E.
  pose (I := fun t (s : list T * nat) =>
    length (fst s) = n /\ snd s = Nat.min (n - t + 1) mm /\
    (forall j, j < t -> nth j (fst s) zero = nth j y zero) /\
    (forall r, t <= r < n -> rowval au mm r r (fst s) = nth r y zero)).
  assert (HI : I 0 (x, lf)).
  { apply (for_rev_from_inv_partial I n 0 (back_step mm au) (y, 1)); auto.
    - unfold I; cbn. repeat split; auto; try lia.
    - clear E x lf. intros k [x l] [x1 l1] Hk (Hlen & Hl & Hlow & Hrows) E. cbn [fst snd] in *.
      cbn [Nat.add] in E. unfold back_step in E.
      apply bind_ok in E as (dum0 & E0 & E). apply (rd_Ok_inv _ _ _ zero) in E0 as (_ & ->).
      apply bind_ok in E as (dum & Eloop & E).
      apply bind_ok in E as (d0 & Ed0 & E). apply (mget_Ok_inv _ mm) in Ed0 as (-> & _); auto.
      apply bind_ok in E as (q & Eq & E). apply div_Ok_inv in Eq as (Hd0 & ->).
      apply bind_ok in E as (x' & Ex' & E). apply upd_Ok_inv in Ex' as (Hkx & ->).
      injection E as <- <-.
      set (t := fun s => mul (mat_at au mm k s) (nth (k + s) x zero)).
      (* the inner loop: dum + sum of the terms subtracted so far = y_k *)
      assert (Hdum : add dum (sum_n (l - 1) (fun u => t (1 + u))) = nth k y zero).
      { assert (Hl1 : 1 <= l) by lia.
        refine (for_inv_partial (fun kk d => add d (sum_n (kk - 1) (fun u => t (1 + u))) = nth k y zero)
                 1 l _ _ dum Hl1 _ _ Eloop).
        - cbn. rewrite Hlow by lia. ring.
        - intros kk d d1 Hkk HJ Ed.
          apply bind_ok in Ed as (a & Ea & Ed). apply (mget_Ok_inv _ mm) in Ea as (-> & _); auto.
          apply bind_ok in Ed as (xk & Exk & Ed). apply (rd_Ok_inv _ _ _ zero) in Exk as (_ & ->).
          injection Ed as <-.
          replace (S kk - 1) with (S (kk - 1)) by lia. cbn [sum_n].
          replace (1 + (kk - 1)) with kk by lia. unfold t at 2. rewrite (Nat.add_comm k kk).
          rewrite <- HJ. ring. }
      unfold I; cbn [fst snd]. rewrite upd_list_length. split; [auto|]. split.
      { destruct (Nat.ltb_spec l mm); lia. }
      split.
      { intros j Hj. rewrite nth_upd_list by auto. destruct (Nat.eqb_spec j k); [lia|]. apply Hlow; lia. }
      intros r Hr. destruct (Nat.eq_dec r k) as [->|Hne].
      + (* the row just solved *)
        unfold rowval.
        assert (Hsplit : mm = l + (mm - l)) by lia. rewrite Hsplit at 1.
        rewrite (sum_n_trunc RL).
        2:{ intros s Hs. rewrite nth_overflow; [ring|]. rewrite upd_list_length. lia. }
        destruct l as [|l']; [lia|]. rewrite sum_n_peel.
        rewrite Nat.add_0_r, nth_upd_list, Nat.eqb_refl by auto.
        rewrite <- Hdum. replace (S l' - 1) with l' by lia.
        rewrite (sum_n_ext l' (fun u => mul (mat_at au mm k (1 + u)) (nth (k + (1 + u)) (upd_list x k (mul dum (inv (mat_at au mm k 0)))) zero))
                              (fun u => t (1 + u))).
        2:{ intros u Hu. unfold t. rewrite nth_upd_list by auto.
            destruct (Nat.eqb_spec (k + (1 + u)) k); [lia|reflexivity]. }
        field. exact Hd0.
      + (* rows below: their entries do not involve x[k] *)
        rewrite <- (Hrows r) by lia. unfold rowval. apply sum_n_ext. intros s Hs.
        rewrite nth_upd_list by auto. destruct (Nat.eqb_spec (r + s) k); [lia|reflexivity]. }
  destruct HI as (Hlen & _ & _ & Hrows). cbn [fst] in *. split; auto. intros i Hi. apply Hrows. lia.
Qed.

End LU.
