(* Proofs/GuardsModelVec.v -- C20 entry contracts of the Vector family (8 entries) on the model functions of
   Model/Vector.v and Model/ParDot.v.  None of the eight mutates in place in the model (the compound assignments
   `+=`/`-=` return the new vector), so there is no frame clause: a rejected call returns no vector at all. *)
From Coq Require Import ZArith Bool Lia ZifyBool List Arith.
From OV Require Import Base.Panic Base.Arith Model.Vector Model.ParDot gen.GuardTable Model.Guards Proofs.Guards
  Proofs.GuardsModelBase Proofs.Vector Proofs.ParDot.
Import ListNotations.

Section VecContracts.
Context {A : Arith}.
Notation T := (T A).
Implicit Types u v w : list T.

Notation Zl l := (Z.of_nat (length l)).

Lemma rejects_vec_add_ref u v : g_vec_add_ref (Zl u) (Zl v) = true -> vadd u v = Panic Guard.
Proof.
  intros H. g_true H guard_vec_add_ref_lemma ok_vec_add_ref.
  unfold vadd. destruct (Nat.eqb_spec (length u) (length v)); [exfalso; lia | reflexivity].
Qed.
Lemma accepts_vec_add_ref u v : g_vec_add_ref (Zl u) (Zl v) = false ->
  exists r, vadd u v = Ok r /\ length r = length u.
Proof.
  intros H. g_false H guard_vec_add_ref_lemma ok_vec_add_ref.
  unfold vadd. destruct (Nat.eqb_spec (length u) (length v)); [|exfalso; lia].
  eexists; split; [reflexivity|]. unfold zipw. rewrite map_length, combine_length. lia.
Qed.

Lemma rejects_vec_sub_ref u v : g_vec_sub_ref (Zl u) (Zl v) = true -> vsub u v = Panic Guard.
Proof.
  intros H. g_true H guard_vec_sub_ref_lemma ok_vec_sub_ref.
  unfold vsub. destruct (Nat.eqb_spec (length u) (length v)); [exfalso; lia | reflexivity].
Qed.
Lemma accepts_vec_sub_ref u v : g_vec_sub_ref (Zl u) (Zl v) = false ->
  exists r, vsub u v = Ok r /\ length r = length u.
Proof.
  intros H. g_false H guard_vec_sub_ref_lemma ok_vec_sub_ref.
  unfold vsub. destruct (Nat.eqb_spec (length u) (length v)); [|exfalso; lia].
  eexists; split; [reflexivity|]. unfold zipw. rewrite map_length, combine_length. lia.
Qed.

Lemma rejects_vec_add_assign u v : g_vec_add_assign (Zl u) (Zl v) = true -> vadd_assign u v = Panic Guard.
Proof.
  intros H. g_true H guard_vec_add_assign_lemma ok_vec_add_assign.
  unfold vadd_assign, vadd. destruct (Nat.eqb_spec (length u) (length v)); [exfalso; lia | reflexivity].
Qed.
Lemma accepts_vec_add_assign u v : g_vec_add_assign (Zl u) (Zl v) = false ->
  exists r, vadd_assign u v = Ok r /\ length r = length u.
Proof.
  intros H. g_false H guard_vec_add_assign_lemma ok_vec_add_assign.
  unfold vadd_assign, vadd. destruct (Nat.eqb_spec (length u) (length v)); [|exfalso; lia].
  eexists; split; [reflexivity|]. unfold zipw. rewrite map_length, combine_length. lia.
Qed.

Lemma rejects_vec_sub_assign u v : g_vec_sub_assign (Zl u) (Zl v) = true -> vsub_assign u v = Panic Guard.
Proof.
  intros H. g_true H guard_vec_sub_assign_lemma ok_vec_sub_assign.
  unfold vsub_assign, vsub. destruct (Nat.eqb_spec (length u) (length v)); [exfalso; lia | reflexivity].
Qed.
Lemma accepts_vec_sub_assign u v : g_vec_sub_assign (Zl u) (Zl v) = false ->
  exists r, vsub_assign u v = Ok r /\ length r = length u.
Proof.
  intros H. g_false H guard_vec_sub_assign_lemma ok_vec_sub_assign.
  unfold vsub_assign, vsub. destruct (Nat.eqb_spec (length u) (length v)); [|exfalso; lia].
  eexists; split; [reflexivity|]. unfold zipw. rewrite map_length, combine_length. lia.
Qed.

Lemma rejects_vec_dot u w : g_vec_dot (Zl u) (Zl w) = true -> dot u w = Panic Guard.
Proof.
  intros H. g_true H guard_vec_dot_lemma ok_vec_dot.
  unfold dot. destruct (Nat.eqb_spec (length u) (length w)); [exfalso; lia | reflexivity].
Qed.
Lemma accepts_vec_dot u w : g_vec_dot (Zl u) (Zl w) = false -> exists x, dot u w = Ok x.
Proof.
  intros H. g_false H guard_vec_dot_lemma ok_vec_dot.
  unfold dot. destruct (Nat.eqb_spec (length u) (length w)); [|exfalso; lia]. eauto.
Qed.

(* dot_f64: the threaded product, for EVERY worker count t (t = num_cpus::get() >= 1): the size guard is tested
   before the chunk size is computed and before any slice is taken *)
Lemma rejects_vec_dot_f64 t u w : g_vec_dot_f64 (Zl u) (Zl w) = true -> pardot t u w = Panic Guard.
Proof.
  intros H. g_true H guard_vec_dot_f64_lemma ok_vec_dot_f64.
  unfold pardot. destruct (Nat.eqb_spec (length u) (length w)); [exfalso; lia | reflexivity].
Qed.
Lemma accepts_vec_dot_f64 t u w : 1 <= t -> g_vec_dot_f64 (Zl u) (Zl w) = false -> exists x, pardot t u w = Ok x.
Proof.
  intros Ht H. g_false H guard_vec_dot_f64_lemma ok_vec_dot_f64.
  rewrite (pardot_closed_form_lemma t u w Ht) by lia. eauto.
Qed.

Lemma rejects_vec_sum_slice v s e :
  g_vec_sum_slice (Zl v) (Z.of_nat s) (Z.of_nat e) = true -> sum_slice v s e = Panic Guard.
Proof.
  intros H. g_true H guard_vec_sum_slice_lemma ok_vec_sum_slice.
  apply (proj2 (sum_slice_spec_lemma v s e)). lia.
Qed.
Lemma accepts_vec_sum_slice v s e :
  g_vec_sum_slice (Zl v) (Z.of_nat s) (Z.of_nat e) = false -> exists x, sum_slice v s e = Ok x.
Proof.
  intros H. g_false H guard_vec_sum_slice_lemma ok_vec_sum_slice.
  rewrite (proj1 (sum_slice_spec_lemma v s e)) by lia. eauto.
Qed.

Lemma rejects_vec_product_slice v s e :
  g_vec_product_slice (Zl v) (Z.of_nat s) (Z.of_nat e) = true -> product_slice v s e = Panic Guard.
Proof.
  intros H. g_true H guard_vec_product_slice_lemma ok_vec_product_slice.
  apply (proj2 (product_slice_spec_lemma v s e)). lia.
Qed.
Lemma accepts_vec_product_slice v s e :
  g_vec_product_slice (Zl v) (Z.of_nat s) (Z.of_nat e) = false -> exists x, product_slice v s e = Ok x.
Proof.
  intros H. g_false H guard_vec_product_slice_lemma ok_vec_product_slice.
  rewrite (proj1 (product_slice_spec_lemma v s e)) by lia. eauto.
Qed.

End VecContracts.
