(* Proofs/GuardsModelMat.v -- C20 entry contracts of the dense-matrix family (14 entries of operations.rs /
   arithmetic.rs; the five entries of solve.rs are in GuardsModelSolve.v) on the model functions of Model/Matrix.v.
   rejects_* need NO well-formedness: the guards are the first thing the function evaluates.
   accepts_* / frame_* are corollaries of the per-operation specifications of Proofs/MatrixSpec.v (C03). *)
From Coq Require Import ZArith Bool Lia ZifyBool List Arith.
From OV Require Import Base.Panic Base.Arith Model.Vector Model.Matrix gen.GuardTable Model.Guards Proofs.Guards
  Proofs.GuardsModelBase Proofs.Matrix Proofs.MatrixArith Proofs.MatrixSpec.
Import ListNotations.

Section MatContracts.
Context {A : Arith}.
Notation T := (T A).
Notation matrix := (matrix A).
Implicit Types m a b : matrix.

Notation Zr m := (Z.of_nat (rows m)).
Notation Zc m := (Z.of_nat (cols m)).
Notation Zn n := (Z.of_nat n).
Notation Zl l := (Z.of_nat (length l)).

(* shape part shared by every mutating entry *)
Definition same_shape m' m : Prop := wf m' /\ rows m' = rows m /\ cols m' = cols m.

(* ---------------- get_row / get_col ---------------- *)
Lemma rejects_mat_get_row m row : g_mat_get_row (Zr m) (Zc m) (Zn row) = true -> get_row m row = Panic Guard.
Proof. intros H. g_true H guard_mat_get_row_lemma ok_mat_get_row. apply get_row_guard. lia. Qed.
Lemma accepts_mat_get_row m row : wf m -> g_mat_get_row (Zr m) (Zc m) (Zn row) = false ->
  exists v, get_row m row = Ok v /\ length v = cols m.
Proof.
  intros W H. g_false H guard_mat_get_row_lemma ok_mat_get_row.
  destruct (proj1 (get_row_spec_lemma A m row W)) as (v & E & L & _); [lia|]. eauto.
Qed.

Lemma rejects_mat_get_col m col : g_mat_get_col (Zr m) (Zc m) (Zn col) = true -> get_col m col = Panic Guard.
Proof. intros H. g_true H guard_mat_get_col_lemma ok_mat_get_col. apply get_col_guard. lia. Qed.
Lemma accepts_mat_get_col m col : wf m -> g_mat_get_col (Zr m) (Zc m) (Zn col) = false ->
  exists v, get_col m col = Ok v /\ length v = rows m.
Proof.
  intros W H. g_false H guard_mat_get_col_lemma ok_mat_get_col.
  destruct (proj1 (get_col_spec_lemma A m col W)) as (v & E & L & _); [lia|]. eauto.
Qed.

(* ---------------- set_row ---------------- *)
Lemma rejects_mat_set_row m row v :
  g_mat_set_row (Zr m) (Zc m) (Zn row) (Zl v) = true -> set_row m row v = Panic Guard.
Proof. intros H. g_true H guard_mat_set_row_lemma ok_mat_set_row. apply set_row_guard. lia. Qed.
Lemma accepts_mat_set_row m row v : wf m ->
  g_mat_set_row (Zr m) (Zc m) (Zn row) (Zl v) = false -> exists m', set_row m row v = Ok m'.
Proof.
  intros W H. g_false H guard_mat_set_row_lemma ok_mat_set_row.
  destruct (proj1 (set_row_spec_lemma A m row v W)) as (m' & E & _); [lia..|]. eauto.
Qed.
Lemma frame_mat_set_row m row v m' : wf m -> set_row m row v = Ok m' ->
  same_shape m' m /\ forall i j, i < rows m -> j < cols m -> i <> row -> entry m' i j = entry m i j.
Proof.
  intros W E. destruct (set_row_spec_lemma A m row v W) as [Hok Hrej].
  destruct (Nat.eq_dec (length v) (cols m)) as [Hl|Hl]; [|rewrite Hrej in E by auto; discriminate].
  destruct (Nat.lt_ge_cases row (rows m)) as [Hr|Hr]; [|rewrite Hrej in E by auto; discriminate].
  destruct (Hok Hl Hr) as (m1 & E1 & W1 & R & C & F). rewrite E1 in E; injection E as <-.
  split; [repeat split; auto|]. intros i j Hi Hj Hne. rewrite F by auto.
  destruct (Nat.eqb_spec i row); [lia|reflexivity].
Qed.

(* ---------------- set_col (the repaired guard: cols <= col) ---------------- *)
Lemma rejects_mat_set_col m col v :
  g_mat_set_col (Zr m) (Zc m) (Zn col) (Zl v) = true -> set_col m col v = Panic Guard.
Proof. intros H. g_true H guard_mat_set_col_lemma ok_mat_set_col. apply set_col_guard. lia. Qed.
Lemma accepts_mat_set_col m col v : wf m ->
  g_mat_set_col (Zr m) (Zc m) (Zn col) (Zl v) = false -> exists m', set_col m col v = Ok m'.
Proof.
  intros W H. g_false H guard_mat_set_col_lemma ok_mat_set_col.
  destruct (proj1 (set_col_spec_lemma A m col v W)) as (m' & E & _); [lia..|]. eauto.
Qed.
Lemma frame_mat_set_col m col v m' : wf m -> set_col m col v = Ok m' ->
  same_shape m' m /\ forall i j, i < rows m -> j < cols m -> j <> col -> entry m' i j = entry m i j.
Proof.
  intros W E. destruct (set_col_spec_lemma A m col v W) as [Hok Hrej].
  destruct (Nat.eq_dec (length v) (rows m)) as [Hl|Hl]; [|rewrite Hrej in E by auto; discriminate].
  destruct (Nat.lt_ge_cases col (cols m)) as [Hr|Hr]; [|rewrite Hrej in E by auto; discriminate].
  destruct (Hok Hl Hr) as (m1 & E1 & W1 & R & C & F). rewrite E1 in E; injection E as <-.
  split; [repeat split; auto|]. intros i j Hi Hj Hne. rewrite F by auto.
  destruct (Nat.eqb_spec j col); [lia|reflexivity].
Qed.

(* ---------------- fill_row / fill_col ---------------- *)
Lemma rejects_mat_fill_row m row x : g_mat_fill_row (Zr m) (Zc m) (Zn row) = true -> fill_row m row x = Panic Guard.
Proof. intros H. g_true H guard_mat_fill_row_lemma ok_mat_fill_row. apply fill_row_guard. lia. Qed.
Lemma accepts_mat_fill_row m row x : wf m ->
  g_mat_fill_row (Zr m) (Zc m) (Zn row) = false -> exists m', fill_row m row x = Ok m'.
Proof.
  intros W H. g_false H guard_mat_fill_row_lemma ok_mat_fill_row.
  destruct (proj1 (fill_row_spec_lemma A m row x W)) as (m' & E & _); [lia|]. eauto.
Qed.
Lemma frame_mat_fill_row m row x m' : wf m -> fill_row m row x = Ok m' ->
  same_shape m' m /\ forall i j, i < rows m -> j < cols m -> i <> row -> entry m' i j = entry m i j.
Proof.
  intros W E. destruct (fill_row_spec_lemma A m row x W) as [Hok Hrej].
  destruct (Nat.lt_ge_cases row (rows m)) as [Hr|Hr]; [|rewrite Hrej in E by auto; discriminate].
  destruct (Hok Hr) as (m1 & E1 & W1 & R & C & F). rewrite E1 in E; injection E as <-.
  split; [repeat split; auto|]. intros i j Hi Hj Hne. rewrite F by auto.
  destruct (Nat.eqb_spec i row); [lia|reflexivity].
Qed.

Lemma rejects_mat_fill_col m col x : g_mat_fill_col (Zr m) (Zc m) (Zn col) = true -> fill_col m col x = Panic Guard.
Proof. intros H. g_true H guard_mat_fill_col_lemma ok_mat_fill_col. apply fill_col_guard. lia. Qed.
Lemma accepts_mat_fill_col m col x : wf m ->
  g_mat_fill_col (Zr m) (Zc m) (Zn col) = false -> exists m', fill_col m col x = Ok m'.
Proof.
  intros W H. g_false H guard_mat_fill_col_lemma ok_mat_fill_col.
  destruct (proj1 (fill_col_spec_lemma A m col x W)) as (m' & E & _); [lia|]. eauto.
Qed.
Lemma frame_mat_fill_col m col x m' : wf m -> fill_col m col x = Ok m' ->
  same_shape m' m /\ forall i j, i < rows m -> j < cols m -> j <> col -> entry m' i j = entry m i j.
Proof.
  intros W E. destruct (fill_col_spec_lemma A m col x W) as [Hok Hrej].
  destruct (Nat.lt_ge_cases col (cols m)) as [Hr|Hr]; [|rewrite Hrej in E by auto; discriminate].
  destruct (Hok Hr) as (m1 & E1 & W1 & R & C & F). rewrite E1 in E; injection E as <-.
  split; [repeat split; auto|]. intros i j Hi Hj Hne. rewrite F by auto.
  destruct (Nat.eqb_spec j col); [lia|reflexivity].
Qed.

(* ---------------- swap_rows ---------------- *)
Lemma rejects_mat_swap_rows m r1 r2 :
  g_mat_swap_rows (Zr m) (Zc m) (Zn r1) (Zn r2) = true -> swap_rows m r1 r2 = Panic Guard.
Proof. intros H. g_true H guard_mat_swap_rows_lemma ok_mat_swap_rows. apply swap_rows_guard. lia. Qed.
Lemma accepts_mat_swap_rows m r1 r2 : wf m ->
  g_mat_swap_rows (Zr m) (Zc m) (Zn r1) (Zn r2) = false -> exists m', swap_rows m r1 r2 = Ok m'.
Proof.
  intros W H. g_false H guard_mat_swap_rows_lemma ok_mat_swap_rows.
  destruct (proj1 (swap_rows_spec_lemma A m r1 r2 W)) as (m' & E & _); [lia..|]. eauto.
Qed.
Lemma frame_mat_swap_rows m r1 r2 m' : wf m -> swap_rows m r1 r2 = Ok m' ->
  same_shape m' m /\ forall i j, i < rows m -> j < cols m -> i <> r1 -> i <> r2 -> entry m' i j = entry m i j.
Proof.
  intros W E. destruct (swap_rows_spec_lemma A m r1 r2 W) as [Hok Hrej].
  destruct (Nat.lt_ge_cases r1 (rows m)) as [H1|H1]; [|rewrite Hrej in E by auto; discriminate].
  destruct (Nat.lt_ge_cases r2 (rows m)) as [H2|H2]; [|rewrite Hrej in E by auto; discriminate].
  destruct (Hok H1 H2) as (m1 & E1 & W1 & R & C & F). rewrite E1 in E; injection E as <-.
  split; [repeat split; auto|]. intros i j Hi Hj Hn1 Hn2. rewrite F by auto.
  destruct (Nat.eqb_spec i r1); [lia|]. destruct (Nat.eqb_spec i r2); [lia|reflexivity].
Qed.

(* ---------------- delete_row: the rows before `row` stay, the rows after it move up by one ---------------- *)
Lemma rejects_mat_delete_row m row : g_mat_delete_row (Zr m) (Zc m) (Zn row) = true -> delete_row m row = Panic Guard.
Proof. intros H. g_true H guard_mat_delete_row_lemma ok_mat_delete_row. apply delete_row_guard. lia. Qed.
Lemma accepts_mat_delete_row m row : wf m ->
  g_mat_delete_row (Zr m) (Zc m) (Zn row) = false -> exists m', delete_row m row = Ok m'.
Proof.
  intros W H. g_false H guard_mat_delete_row_lemma ok_mat_delete_row.
  destruct (proj1 (delete_row_spec_lemma A m row W)) as (m' & E & _); [lia|]. eauto.
Qed.
Lemma frame_mat_delete_row m row m' : wf m -> delete_row m row = Ok m' ->
  wf m' /\ rows m' = rows m - 1 /\ cols m' = cols m /\
  (forall i j, i < row -> j < cols m -> entry m' i j = entry m i j) /\
  (forall i j, row <= i -> i < rows m - 1 -> j < cols m -> entry m' i j = entry m (S i) j).
Proof.
  intros W E. destruct (delete_row_spec_lemma A m row W) as [Hok Hrej].
  destruct (Nat.lt_ge_cases row (rows m)) as [Hr|Hr]; [|rewrite Hrej in E by auto; discriminate].
  destruct (Hok Hr) as (m1 & E1 & W1 & R & C & F). rewrite E1 in E; injection E as <-.
  repeat split; auto.
  - intros i j Hi Hj. rewrite F by lia. destruct (Nat.ltb_spec i row); [reflexivity|lia].
  - intros i j Hi Hi' Hj. rewrite F by lia. destruct (Nat.ltb_spec i row); [lia|reflexivity].
Qed.

(* ---------------- multiply (matrix * vector) ---------------- *)
Lemma rejects_mat_multiply m v : g_mat_multiply (Zr m) (Zc m) (Zl v) = true -> multiply m v = Panic Guard.
Proof. intros H. g_true H guard_mat_multiply_lemma ok_mat_multiply. apply multiply_guard. lia. Qed.
Lemma accepts_mat_multiply m v : wf m -> g_mat_multiply (Zr m) (Zc m) (Zl v) = false ->
  exists w, multiply m v = Ok w /\ length w = rows m.
Proof.
  intros W H. g_false H guard_mat_multiply_lemma ok_mat_multiply.
  destruct (proj1 (multiply_spec_lemma A m v W)) as (w & E & L & _); [lia|]. eauto.
Qed.

(* ---------------- + - += -= (by reference) ---------------- *)
Lemma rejects_mat_add_ref a b :
  g_mat_add_ref (Zr a) (Zc a) (Zr b) (Zc b) = true -> madd a b = Panic Guard.
Proof.
  intros H. g_true H guard_mat_add_ref_lemma ok_mat_add_ref. unfold madd. bdestr.
Qed.
Lemma accepts_mat_add_ref a b : wf a -> wf b ->
  g_mat_add_ref (Zr a) (Zc a) (Zr b) (Zc b) = false -> exists m', madd a b = Ok m' /\ same_shape m' a.
Proof.
  intros Wa Wb H. g_false H guard_mat_add_ref_lemma ok_mat_add_ref.
  destruct (proj1 (madd_spec_lemma A a b Wa Wb)) as (m' & E & W & R & C & _); [lia..|].
  exists m'; repeat split; auto.
Qed.

Lemma rejects_mat_sub_ref a b :
  g_mat_sub_ref (Zr a) (Zc a) (Zr b) (Zc b) = true -> msub a b = Panic Guard.
Proof.
  intros H. g_true H guard_mat_sub_ref_lemma ok_mat_sub_ref. unfold msub. bdestr.
Qed.
Lemma accepts_mat_sub_ref a b : wf a -> wf b ->
  g_mat_sub_ref (Zr a) (Zc a) (Zr b) (Zc b) = false -> exists m', msub a b = Ok m' /\ same_shape m' a.
Proof.
  intros Wa Wb H. g_false H guard_mat_sub_ref_lemma ok_mat_sub_ref.
  destruct (proj1 (msub_spec_lemma A a b Wa Wb)) as (m' & E & W & R & C & _); [lia..|].
  exists m'; repeat split; auto.
Qed.

Lemma rejects_mat_add_assign_ref a b :
  g_mat_add_assign_ref (Zr a) (Zc a) (Zr b) (Zc b) = true -> madd_assign a b = Panic Guard.
Proof.
  intros H. g_true H guard_mat_add_assign_ref_lemma ok_mat_add_assign_ref. unfold madd_assign. bdestr.
Qed.
Lemma accepts_mat_add_assign_ref a b : wf a -> wf b ->
  g_mat_add_assign_ref (Zr a) (Zc a) (Zr b) (Zc b) = false -> exists m', madd_assign a b = Ok m' /\ same_shape m' a.
Proof.
  intros Wa Wb H. g_false H guard_mat_add_assign_ref_lemma ok_mat_add_assign_ref.
  destruct (proj1 (madd_assign_spec_lemma A a b Wa Wb)) as (m' & E & W & R & C & _); [lia..|].
  exists m'; repeat split; auto.
Qed.

Lemma rejects_mat_sub_assign_ref a b :
  g_mat_sub_assign_ref (Zr a) (Zc a) (Zr b) (Zc b) = true -> msub_assign a b = Panic Guard.
Proof.
  intros H. g_true H guard_mat_sub_assign_ref_lemma ok_mat_sub_assign_ref. unfold msub_assign. bdestr.
Qed.
Lemma accepts_mat_sub_assign_ref a b : wf a -> wf b ->
  g_mat_sub_assign_ref (Zr a) (Zc a) (Zr b) (Zc b) = false -> exists m', msub_assign a b = Ok m' /\ same_shape m' a.
Proof.
  intros Wa Wb H. g_false H guard_mat_sub_assign_ref_lemma ok_mat_sub_assign_ref.
  destruct (proj1 (msub_assign_spec_lemma A a b Wa Wb)) as (m' & E & W & R & C & _); [lia..|].
  exists m'; repeat split; auto.
Qed.

(* ---------------- &a * &b: every shape, square or not ---------------- *)
Lemma rejects_mat_mul_ref a b :
  g_mat_mul_ref (Zr a) (Zc a) (Zr b) (Zc b) = true -> mat_mul a b = Panic Guard.
Proof.
  intros H. g_true H guard_mat_mul_ref_lemma ok_mat_mul_ref. unfold mat_mul. bdestr.
Qed.
Lemma accepts_mat_mul_ref a b : wf a -> wf b ->
  g_mat_mul_ref (Zr a) (Zc a) (Zr b) (Zc b) = false ->
  exists c, mat_mul a b = Ok c /\ wf c /\ rows c = rows a /\ cols c = cols b.
Proof.
  intros Wa Wb H. g_false H guard_mat_mul_ref_lemma ok_mat_mul_ref.
  destruct (proj1 (mat_mul_spec_lemma A a b Wa Wb)) as (c & E & W & R & C & _); [lia|]. eauto.
Qed.

End MatContracts.
