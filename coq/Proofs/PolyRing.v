(* Proofs/PolyRing.v -- the operations of Model/Poly.v satisfy the commutative-ring laws coefficient by coefficient
   (p ≈ q  :=  forall k, nth k p zero = nth k q zero: equality as polynomials, formal trailing zeros ignored),
   over any commutative coefficient ring.  Built on the coefficient formulae of Proofs/Poly.v. *)
From Coq Require Import List Arith Lia Bool Ring Ring_theory.
From OV Require Import Base.Panic Base.Arith Model.Poly Proofs.Poly.
Import ListNotations.
Local Open Scope arith_scope.

Section PolyRingLaws.
Context {A : Arith} (RL : RingLaws A).
Notation coef p k := (nth k p (@zero A)).
Add Ring Aring2 : (rl_ring A RL).

Definition peq (p q : list A) : Prop := forall k, coef p k = coef q k.
Infix "≈" := peq (at level 70).

Lemma peq_refl p : p ≈ p.                                  Proof. intros k; reflexivity. Qed.
Lemma peq_sym p q : p ≈ q -> q ≈ p.                        Proof. intros H k; symmetry; apply H. Qed.
Lemma peq_trans p q r : p ≈ q -> q ≈ r -> p ≈ r.           Proof. intros H1 H2 k; rewrite H1; apply H2. Qed.

(* ---- additive group *)
Lemma padd_comm p q : padd p q ≈ padd q p.
Proof. intros k. rewrite !(nth_padd RL). ring. Qed.
Lemma padd_assoc p q r : padd (padd p q) r ≈ padd p (padd q r).
Proof. intros k. rewrite !(nth_padd RL). ring. Qed.
Lemma padd_neg p : padd p (pneg p) ≈ [].
Proof. intros k. rewrite (nth_padd RL), (nth_pneg RL), coef_nil. ring. Qed.
Lemma psub_as_add p q : psub p q ≈ padd p (pneg q).
Proof. intros k. rewrite (nth_psub RL), (nth_padd RL), (nth_pneg RL). ring. Qed.

(* ---- convolution: symmetric, bilinear, associative *)
Lemma sum_n_rev n (f : nat -> A) : sum_n n f = sum_n n (fun i => f (n - 1 - i)%nat).
Proof.
  induction n as [|n IH]; [reflexivity|].
  rewrite (sum_n_shift RL n (fun i => f (S n - 1 - i)%nat)). cbn [sum_n].
  replace (S n - 1 - 0)%nat with n by lia. rewrite IH.
  rewrite (sum_n_ext n (fun i => f (n - 1 - i)%nat) (fun k => f (S n - 1 - S k)%nat)).
  - ring.
  - intros k Hk. f_equal. lia.
Qed.

Lemma conv_comm (p q : list A) k : conv p q k = conv q p k.
Proof.
  unfold conv. rewrite sum_n_rev. apply sum_n_ext. intros i Hi.
  replace (S k - 1 - i)%nat with (k - i)%nat by lia.
  replace (k - (k - i))%nat with i by lia. ring.
Qed.

Lemma conv_ext (p p' q q' : list A) k : p ≈ p' -> q ≈ q' -> conv p q k = conv p' q' k.
Proof. intros Hp Hq. unfold conv. apply sum_n_ext. intros i _. now rewrite Hp, Hq. Qed.

Lemma conv_padd_l (p t q : list A) k : conv (padd p t) q k = conv p q k + conv t q k.
Proof.
  unfold conv. rewrite <- (sum_n_add RL). apply sum_n_ext. intros i _. rewrite (nth_padd RL). ring.
Qed.
Lemma conv_lscale (a : A) (q r : list A) k : conv (map (mul a) q) r k = a * conv q r k.
Proof.
  unfold conv. rewrite (sum_n_mul_l RL). apply sum_n_ext. intros i _.
  destruct (Nat.lt_ge_cases i (length q)) as [H|H].
  - rewrite (nth_map_lt (mul a) q i zero zero H). ring.
  - rewrite (nth_overflow (map (mul a) q)), (nth_overflow q) by (rewrite ?map_length; lia). ring.
Qed.
Lemma conv_shift (s r : list A) k : conv (zero :: s) r k = match k with 0 => zero | S k' => conv s r k' end.
Proof. rewrite (conv_cons RL). destruct k; ring. Qed.

(* (a :: p) * q  ≈  a.q + x.(p * q) *)
Lemma pmul_cons_peq (a : A) (p q : list A) : pmul (a :: p) q ≈ padd (map (mul a) q) (zero :: pmul p q).
Proof.
  intros k. rewrite (nth_pmul RL), (conv_cons RL), (nth_padd RL). f_equal.
  - destruct (Nat.lt_ge_cases k (length q)) as [H|H].
    + symmetry. now apply (nth_map_lt (mul a)).
    + rewrite !nth_overflow; [ring| |]; auto. now rewrite map_length.
  - destruct k as [|k']; cbn [nth]; [reflexivity|]. now rewrite (nth_pmul RL).
Qed.

Lemma conv_assoc (p : list A) : forall (q r : list A) k, conv (pmul p q) r k = conv p (pmul q r) k.
Proof.
  induction p as [|a p IH]; intros q r k.
  - rewrite pmul_nil_l. unfold conv. rewrite !(sum_n_zero RL); auto; intros i _; rewrite coef_nil; ring.
  - rewrite (conv_ext _ _ r r k (pmul_cons_peq a p q) (peq_refl r)).
    rewrite conv_padd_l, conv_lscale, conv_shift, (conv_cons RL), (nth_pmul RL). f_equal.
    destruct k as [|k']; [reflexivity|]. apply IH.
Qed.

(* ---- the ring laws of the product, coefficient by coefficient *)
Lemma pmul_comm p q : pmul p q ≈ pmul q p.
Proof. intros k. rewrite !(nth_pmul RL). apply conv_comm. Qed.
Lemma pmul_assoc p q r : pmul (pmul p q) r ≈ pmul p (pmul q r).
Proof. intros k. rewrite !(nth_pmul RL). apply conv_assoc. Qed.
Lemma pmul_padd_distr_r p t q : pmul (padd p t) q ≈ padd (pmul p q) (pmul t q).
Proof. intros k. rewrite (nth_padd RL), !(nth_pmul RL). apply conv_padd_l. Qed.
Lemma pmul_padd_distr_l p q t : pmul p (padd q t) ≈ padd (pmul p q) (pmul p t).
Proof.
  intros k. rewrite (nth_padd RL), !(nth_pmul RL).
  rewrite (conv_comm p (padd q t)), (conv_comm p q), (conv_comm p t). apply conv_padd_l.
Qed.
Lemma pmul_one_l p : pmul [one] p ≈ p.
Proof.
  intros k. rewrite (nth_pmul RL), (conv_cons RL).
  replace (match k with 0 => zero | S k' => conv [] p k' end) with (@zero A).
  - ring.
  - destruct k; [reflexivity|]. unfold conv. symmetry. apply (sum_n_zero RL). intros i _. rewrite coef_nil. ring.
Qed.
Lemma pscale_as_pmul p s : pscale p s ≈ pmul [s] p.
Proof.
  intros k. rewrite (nth_pscale RL), (nth_pmul RL), (conv_cons RL).
  replace (match k with 0 => zero | S k' => conv [] p k' end) with (@zero A).
  - ring.
  - destruct k; [reflexivity|]. unfold conv. symmetry. apply (sum_n_zero RL). intros i _. rewrite coef_nil. ring.
Qed.
Lemma pmul_compat p p' q q' : p ≈ p' -> q ≈ q' -> pmul p q ≈ pmul p' q'.
Proof. intros Hp Hq k. rewrite !(nth_pmul RL). now apply conv_ext. Qed.
Lemma padd_compat p p' q q' : p ≈ p' -> q ≈ q' -> padd p q ≈ padd p' q'.
Proof. intros Hp Hq k. rewrite !(nth_padd RL). now rewrite Hp, Hq. Qed.

(* all of it in one statement *)
Lemma poly_ring_laws_lemma (p q r : list A) :
  padd p q ≈ padd q p /\ padd (padd p q) r ≈ padd p (padd q r) /\ padd [] p ≈ p /\ padd p (pneg p) ≈ [] /\
  psub p q ≈ padd p (pneg q) /\
  pmul p q ≈ pmul q p /\ pmul (pmul p q) r ≈ pmul p (pmul q r) /\ pmul [one] p ≈ p /\
  pmul (padd p q) r ≈ padd (pmul p r) (pmul q r) /\ pscale p (nth 0 r zero) ≈ pmul [nth 0 r zero] p.
Proof.
  exact (conj (padd_comm p q) (conj (padd_assoc p q r) (conj (peq_refl p) (conj (padd_neg p)
        (conj (psub_as_add p q) (conj (pmul_comm p q) (conj (pmul_assoc p q r) (conj (pmul_one_l p)
        (conj (pmul_padd_distr_r p q r) (pscale_as_pmul p (nth 0 r zero))))))))))).
Qed.

End PolyRingLaws.
