(* Proofs/DenseBandLinear.v -- C03 / C04: the dense matrix-vector product (Model/Matrix.v multiply: one guarded dot product per
   row) and the banded one (Model/Banded.v band_mul: the three-case loop over the compact storage) are linear maps of the
   vector through the library's own guarded vector operations: additive, subtractive, homogeneous, zero to zero.
   Ring laws only, every shape (rectangular and empty included for the dense product), any band widths. *)
From Coq Require Import List Arith Lia Bool Ring.
From OV Require Import Base.Panic Base.Arith Model.Vector Model.Matrix Model.Banded Model.Sparse
                       Proofs.SparseBase Proofs.SparseMul Proofs.SparseLinear Proofs.Matrix Proofs.MatrixSpec Proofs.Banded.
Import ListNotations.
Local Open Scope arith_scope.

Section DenseLin.
Context {A : Arith}.
Variable RL : RingLaws A.
Notation T := (T A).

Lemma multiply_is_dmulv (m : matrix A) (v : list T) : wf m -> length v = cols m ->
  multiply m v = Ok (dmulv (entry m) (rows m) (cols m) v).
Proof.
  intros Hwf Hv. destruct (proj1 (multiply_spec_lemma A m v Hwf) Hv) as (w & Hw & Hl & Hnth).
  rewrite Hw. f_equal. apply (nth_ext _ _ zero zero).
  - unfold dmulv. now rewrite map_length, seq_length.
  - rewrite Hl. intros i Hi. unfold dmulv. rewrite nth_map_seq by auto. now apply Hnth.
Qed.

Theorem multiply_add_lemma (m : matrix A) (x y : list T) : wf m -> length x = cols m -> length y = cols m ->
  exists xy u v uv, vadd x y = Ok xy /\ multiply m x = Ok u /\ multiply m y = Ok v /\ vadd u v = Ok uv /\ multiply m xy = Ok uv.
Proof.
  intros Hwf Hx Hy.
  exists (zipw add x y), (dmulv (entry m) (rows m) (cols m) x), (dmulv (entry m) (rows m) (cols m) y),
         (zipw add (dmulv (entry m) (rows m) (cols m) x) (dmulv (entry m) (rows m) (cols m) y)).
  split; [unfold vadd; now rewrite Hx, Hy, Nat.eqb_refl|].
  split; [now apply multiply_is_dmulv|]. split; [now apply multiply_is_dmulv|].
  split; [unfold vadd, dmulv; now rewrite !map_length, Nat.eqb_refl|].
  rewrite multiply_is_dmulv by (auto; rewrite zipw_length; congruence).
  f_equal. apply (dmulv_add RL). congruence.
Qed.

Theorem multiply_sub_lemma (m : matrix A) (x y : list T) : wf m -> length x = cols m -> length y = cols m ->
  exists xy u v uv, vsub x y = Ok xy /\ multiply m x = Ok u /\ multiply m y = Ok v /\ vsub u v = Ok uv /\ multiply m xy = Ok uv.
Proof.
  intros Hwf Hx Hy.
  exists (zipw sub x y), (dmulv (entry m) (rows m) (cols m) x), (dmulv (entry m) (rows m) (cols m) y),
         (zipw sub (dmulv (entry m) (rows m) (cols m) x) (dmulv (entry m) (rows m) (cols m) y)).
  split; [unfold vsub; now rewrite Hx, Hy, Nat.eqb_refl|].
  split; [now apply multiply_is_dmulv|]. split; [now apply multiply_is_dmulv|].
  split; [unfold vsub, dmulv; now rewrite !map_length, Nat.eqb_refl|].
  rewrite multiply_is_dmulv by (auto; rewrite zipw_length; congruence).
  f_equal. apply (dmulv_sub RL). congruence.
Qed.

Theorem multiply_scale_vec_lemma (m : matrix A) (x : list T) (a : T) : wf m -> length x = cols m ->
  exists u, multiply m x = Ok u /\ multiply m (vscale x a) = Ok (vscale u a).
Proof.
  intros Hwf Hx. exists (dmulv (entry m) (rows m) (cols m) x).
  split; [now apply multiply_is_dmulv|].
  rewrite multiply_is_dmulv by (auto; unfold vscale; now rewrite map_length).
  f_equal. apply (dmulv_scale RL).
Qed.

Theorem multiply_zero_lemma (m : matrix A) : wf m ->
  multiply m (repeat zero (cols m)) = Ok (repeat zero (rows m)).
Proof.
  intros Hwf. rewrite multiply_is_dmulv by (auto; now rewrite repeat_length).
  f_equal. apply (dmulv_zero RL).
Qed.

(* ---------- banded ---------- *)
Notation banded := (banded A).

Lemma band_mul_is_dmulv (B : banded) (v : list T) : wfB B -> length v = bn B ->
  band_mul B v = Ok (dmulv (dense_entry B) (bn B) (bn B) v).
Proof. intros Hwf Hv. exact (proj1 (band_mul_spec_lemma RL B v Hwf Hv)). Qed.

Theorem band_mul_add_lemma (B : banded) (x y : list T) : wfB B -> length x = bn B -> length y = bn B ->
  exists xy u v uv, vadd x y = Ok xy /\ band_mul B x = Ok u /\ band_mul B y = Ok v /\ vadd u v = Ok uv /\ band_mul B xy = Ok uv.
Proof.
  intros Hwf Hx Hy.
  exists (zipw add x y), (dmulv (dense_entry B) (bn B) (bn B) x), (dmulv (dense_entry B) (bn B) (bn B) y),
         (zipw add (dmulv (dense_entry B) (bn B) (bn B) x) (dmulv (dense_entry B) (bn B) (bn B) y)).
  split; [unfold vadd; now rewrite Hx, Hy, Nat.eqb_refl|].
  split; [now apply band_mul_is_dmulv|]. split; [now apply band_mul_is_dmulv|].
  split; [unfold vadd, dmulv; now rewrite !map_length, Nat.eqb_refl|].
  rewrite band_mul_is_dmulv by (auto; rewrite zipw_length; congruence).
  f_equal. apply (dmulv_add RL). congruence.
Qed.

Theorem band_mul_sub_lemma (B : banded) (x y : list T) : wfB B -> length x = bn B -> length y = bn B ->
  exists xy u v uv, vsub x y = Ok xy /\ band_mul B x = Ok u /\ band_mul B y = Ok v /\ vsub u v = Ok uv /\ band_mul B xy = Ok uv.
Proof.
  intros Hwf Hx Hy.
  exists (zipw sub x y), (dmulv (dense_entry B) (bn B) (bn B) x), (dmulv (dense_entry B) (bn B) (bn B) y),
         (zipw sub (dmulv (dense_entry B) (bn B) (bn B) x) (dmulv (dense_entry B) (bn B) (bn B) y)).
  split; [unfold vsub; now rewrite Hx, Hy, Nat.eqb_refl|].
  split; [now apply band_mul_is_dmulv|]. split; [now apply band_mul_is_dmulv|].
  split; [unfold vsub, dmulv; now rewrite !map_length, Nat.eqb_refl|].
  rewrite band_mul_is_dmulv by (auto; rewrite zipw_length; congruence).
  f_equal. apply (dmulv_sub RL). congruence.
Qed.

Theorem band_mul_scale_vec_lemma (B : banded) (x : list T) (a : T) : wfB B -> length x = bn B ->
  exists u, band_mul B x = Ok u /\ band_mul B (vscale x a) = Ok (vscale u a).
Proof.
  intros Hwf Hx. exists (dmulv (dense_entry B) (bn B) (bn B) x).
  split; [now apply band_mul_is_dmulv|].
  rewrite band_mul_is_dmulv by (auto; unfold vscale; now rewrite map_length).
  f_equal. apply (dmulv_scale RL).
Qed.

Theorem band_mul_zero_lemma (B : banded) : wfB B ->
  band_mul B (repeat zero (bn B)) = Ok (repeat zero (bn B)).
Proof.
  intros Hwf. rewrite band_mul_is_dmulv by (auto; now rewrite repeat_length).
  f_equal. apply (dmulv_zero RL).
Qed.

End DenseLin.

(* ---------- dense adjoint: <y, M x> = <M^T y, x> with the library's own transpose ---------- *)
Section DenseAdjoint.
Context {A : Arith}.
Variable RL : RingLaws A.
Notation T := (T A).

Theorem multiply_adjoint_lemma (m : matrix A) (x y : list T) : wf m -> length x = cols m -> length y = rows m ->
  exists t u w d, transpose m = Ok t /\ multiply m x = Ok u /\ multiply t y = Ok w /\ dot y u = Ok d /\ dot w x = Ok d.
Proof.
  intros Hwf Hx Hy.
  destruct (transpose_spec_lemma A m Hwf) as (t & Ht & Hwt & Hrt & Hct & Het).
  exists t, (dmulv (entry m) (rows m) (cols m) x), (dtmulv (entry m) (rows m) (cols m) y),
         (dot_raw y (dmulv (entry m) (rows m) (cols m) x)).
  split; [exact Ht|]. split; [now apply multiply_is_dmulv|].
  split.
  - rewrite multiply_is_dmulv by (auto; congruence). rewrite Hrt, Hct. f_equal.
    unfold dtmulv, dmulv. apply map_ext_in. intros j Hj. apply in_seq in Hj.
    apply sum_n_ext. intros i Hi. rewrite Het by lia. reflexivity.
  - unfold dot. unfold dmulv at 1. rewrite map_length, seq_length, Hy, Nat.eqb_refl.
    unfold dtmulv at 1. rewrite map_length, seq_length, Hx, Nat.eqb_refl.
    split; auto. f_equal. symmetry. now apply (dense_adjoint RL).
Qed.
End DenseAdjoint.
