(* Proofs/CFunSeriesAll.v -- the series statements of C14 in the grouped, fully explicit form that is pinned in
   Props/C14.v (coefficients written out; no auxiliary names besides the vocabulary cpown / csum / cpsum / cconv). *)
From Coq Require Import Reals Lra.
From OV Require Import Model.CFun Proofs.CFun Proofs.CFunAlg Proofs.CFunSeries Proofs.CFunSeriesTrig Proofs.CFunSeriesAbs.
Local Open Scope R_scope.

Lemma series_vocabulary_lemma :
  (forall z : C, cpown z 0 = cone) /\
  (forall (z : C) (n : nat), cpown z (S n) = cmul z (cpown z n)) /\
  (forall f : nat -> C, csum f 0 = f 0%nat) /\
  (forall (f : nat -> C) (N : nat), csum f (S N) = cadd (csum f N) (f (S N))) /\
  (forall (a : nat -> C) (z : C) (N : nat), cpsum a z N = csum (fun n => cmul (a n) (cpown z n)) N) /\
  (forall (s : nat -> C) (l : C),
     cconv s l <-> Un_cv (fun N => re (s N)) (re l) /\ Un_cv (fun N => im (s N)) (im l)) /\
  (forall (s : nat -> C) (l : C), cconv s l <-> Un_cv (fun N => cabs (csub (s N) l)) 0) /\
  (forall (s : nat -> C) (l l' : C), cconv s l -> cconv s l' -> l = l').
Proof.
  split; [reflexivity|]. split; [reflexivity|]. split; [reflexivity|]. split; [reflexivity|].
  split; [reflexivity|]. split; [intros s l; unfold cconv; tauto|].
  split; [exact cconv_iff_modulus | exact cconv_unique].
Qed.

Lemma exp_series_lemma (z : C) :
  cconv (cpsum (fun n => RtoC (/ INR (fact n))) z) (cexp z) /\
  (forall l : C, cconv (cpsum (fun n => RtoC (/ INR (fact n))) z) l -> l = cexp z).
Proof.
  split.
  - exact (cexp_series_lemma z).
  - intros l Hl. exact (cconv_unique _ _ _ Hl (cexp_series_lemma z)).
Qed.

Lemma exp_series_absolute_lemma (z : C) :
  infinite_sum (fun n => cabs (cmul (RtoC (/ INR (fact n))) (cpown z n))) (exp (cabs z)) /\
  (forall N : nat,
     cabs (csub (cexp z) (cpsum (fun n => RtoC (/ INR (fact n))) z N))
     <= exp (cabs z) - sum_f_R0 (fun n => / INR (fact n) * cabs z ^ n) N
     <= cabs z ^ S N / INR (fact (S N)) * exp (cabs z)) /\
  Un_cv (fun N => cabs z ^ S N / INR (fact (S N)) * exp (cabs z)) 0.
Proof.
  split; [exact (exp_series_abs_lemma z)|]. split.
  - intros N. split; [exact (exp_series_tail_lemma z N)|].
    replace (cabs z ^ S N / INR (fact (S N))) with (expq (cabs z) (S N)) by (unfold expq, Rdiv; ring).
    exact (expq_tail_bound (cabs z) N (cabs_nonneg z)).
  - exact (exp_explicit_bound_to_0 (cabs z)).
Qed.

Lemma hyperbolic_series_lemma (z : C) :
  cconv (fun N => csum (fun n => cmul (RtoC (/ INR (fact (2 * n + 1)))) (cpown z (2 * n + 1))) N) (csinh z) /\
  cconv (fun N => csum (fun n => cmul (RtoC (/ INR (fact (2 * n)))) (cpown z (2 * n))) N) (ccosh z).
Proof. exact (conj (csinh_series_lemma z) (ccosh_series_lemma z)). Qed.

Lemma trig_series_lemma (z : C) :
  cconv (fun N => csum (fun n => cmul (RtoC ((-1) ^ n / INR (fact (2 * n + 1)))) (cpown z (2 * n + 1))) N) (csin z) /\
  cconv (fun N => csum (fun n => cmul (RtoC ((-1) ^ n / INR (fact (2 * n)))) (cpown z (2 * n))) N) (ccos z).
Proof. exact (conj (csin_series_lemma z) (ccos_series_lemma z)). Qed.

(* the vocabulary computes what it should: the partial sum to N = 2 of the exponential series is 1 + z + z^2/2 *)
Lemma exp_partial_sum_2 (z : C) :
  cpsum (fun n => RtoC (/ INR (fact n))) z 2 = cadd (cadd cone z) (cmul (RtoC (1 / 2)) (cmul z z)).
Proof.
  unfold cpsum. cbn [csum cpown fact Nat.mul Nat.add INR].
  destruct z as [x y]. csimpl. f_equal; field.
Qed.

(* the four functions as power series sum_n a_n z^n over every n (zero coefficients at the other parity) *)
Lemma power_series_forms_lemma (z : C) :
  cconv (cpsum (fun n => RtoC (if Nat.odd n then / INR (fact n) else 0)) z) (csinh z) /\
  cconv (cpsum (fun n => RtoC (if Nat.even n then / INR (fact n) else 0)) z) (ccosh z) /\
  cconv (cpsum (fun n => RtoC (if Nat.odd n then (-1) ^ Nat.div2 n / INR (fact n) else 0)) z) (csin z) /\
  cconv (cpsum (fun n => RtoC (if Nat.even n then (-1) ^ Nat.div2 n / INR (fact n) else 0)) z) (ccos z).
Proof.
  exact (conj (csinh_power_series z) (conj (ccosh_power_series z) (conj (csin_power_series z) (ccos_power_series z)))).
Qed.
