(* Proofs/LUSum.v -- ring facts about [sum_n] over an abstract field (FieldLaws), used by the
   LU / triangular-solve / inverse proofs.  Stdlib style only. *)
From Coq Require Import List Arith Lia Bool Ring Ring_theory Field_theory.
From OV Require Import Base.Panic Base.Arith Model.Vector Model.Matrix Proofs.Matrix Proofs.LUPrim.
Import ListNotations.
Local Open Scope arith_scope.

Section Sums.
Context {A : Arith} (FL : FieldLaws A).

Lemma A_ring : ring_theory (@zero A) one add mul sub neg eq.
Proof. exact (F_R (fl_field A FL)). Qed.
Add Ring Ar : A_ring.

Definition inv (x : A) : A := fl_inv A FL x.

Lemma inv_l (x : A) : x <> zero -> inv x * x = one.
Proof. intros H. exact (Finv_l (fl_field A FL) x H). Qed.

Lemma one_neq_zero : (@one A) <> zero.
Proof. exact (F_1_neq_0 (fl_field A FL)). Qed.

Lemma div_ok (x y : A) : y <> zero -> div x y = Ok (x * inv y).
Proof.
  intros H. rewrite (fl_div A FL). destruct (eqb y zero) eqn:E; auto.
  apply (fl_eqb A FL) in E. contradiction.
Qed.

Lemma div_Ok_inv (x y q : A) : div x y = Ok q -> y <> zero /\ q = x * inv y.
Proof.
  rewrite (fl_div A FL). destruct (eqb y zero) eqn:E; [discriminate|].
  intros H; injection H as <-. split; auto.
  intros ->. assert (eqb (@zero A) zero = true) by now apply (fl_eqb A FL). congruence.
Qed.

Lemma eqb_false_neq (x y : A) : eqb x y = false -> x <> y.
Proof. intros E ->. assert (eqb y y = true) by now apply (fl_eqb A FL). congruence. Qed.

Lemma sum_n_S n (f : nat -> A) : sum_n (S n) f = sum_n n f + f n.
Proof. reflexivity. Qed.

Lemma sum_n_zero n (f : nat -> A) : (forall k, k < n -> f k = zero) -> sum_n n f = zero.
Proof.
  induction n as [|n IH]; intros H; cbn; auto.
  rewrite IH by (intros; apply H; lia). rewrite H by lia. ring.
Qed.

Lemma sum_n_add n (f g : nat -> A) : sum_n n (fun k => f k + g k) = sum_n n f + sum_n n g.
Proof. induction n as [|n IH]; cbn; [ring|]. rewrite IH. ring. Qed.

Lemma sum_n_sub n (f g : nat -> A) : sum_n n (fun k => f k - g k) = sum_n n f - sum_n n g.
Proof. induction n as [|n IH]; cbn; [ring|]. rewrite IH. ring. Qed.

Lemma sum_n_scal_l n (x : A) (f : nat -> A) : sum_n n (fun k => x * f k) = x * sum_n n f.
Proof. induction n as [|n IH]; cbn; [ring|]. rewrite IH. ring. Qed.

Lemma sum_n_scal_r n (x : A) (f : nat -> A) : sum_n n (fun k => f k * x) = sum_n n f * x.
Proof. induction n as [|n IH]; cbn; [ring|]. rewrite IH. ring. Qed.

Lemma sum_n_swap n m (f : nat -> nat -> A) :
  sum_n n (fun i => sum_n m (fun j => f i j)) = sum_n m (fun j => sum_n n (fun i => f i j)).
Proof.
  induction n as [|n IH]; cbn.
  - symmetry. now apply sum_n_zero.
  - rewrite IH. now rewrite <- sum_n_add.
Qed.

(* picking one term *)
Lemma sum_n_pick n i (f : nat -> A) : i < n ->
  sum_n n (fun k => if k =? i then f k else zero) = f i.
Proof.
  induction n as [|n IH]; intros H; [lia|]. cbn.
  destruct (Nat.eqb_spec n i) as [->|Hn].
  - rewrite sum_n_zero; [ring|]. intros k Hk. destruct (Nat.eqb_spec k i); auto; lia.
  - rewrite IH by lia. ring.
Qed.

Lemma sum_n_delta_l n i (f : nat -> A) : i < n -> sum_n n (fun k => delta i k * f k) = f i.
Proof.
  intros H. rewrite <- (sum_n_pick n i f H). apply sum_n_ext. intros k _. unfold delta.
  rewrite (Nat.eqb_sym i k). destruct (k =? i); ring.
Qed.

(* a sum whose terms vanish from m on *)
Lemma sum_n_trunc n m (f : nat -> A) : m <= n -> (forall k, m <= k < n -> f k = zero) ->
  sum_n n f = sum_n m f.
Proof.
  intros Hle. induction n as [|n IH]; intros H.
  - now replace m with 0 by lia.
  - destruct (Nat.eq_dec m (S n)) as [->|Hn]; auto.
    cbn. rewrite IH by (try lia; intros; apply H; lia). rewrite H by lia. ring.
Qed.

(* matrix-product associativity in the form the solves need:
   sum_c (sum_k L r k * U k c) * z c = sum_k L r k * (sum_c U k c * z c) *)
Lemma mprod_mvprod n (X Y : nat -> nat -> A) (z : nat -> A) r :
  mvprod n (mprod n X Y) z r = mvprod n X (mvprod n Y z) r.
Proof.
  unfold mvprod, mprod.
  transitivity (sum_n n (fun c => sum_n n (fun k => X r k * Y k c * z c))).
  - apply sum_n_ext. intros c _. now rewrite sum_n_scal_r.
  - rewrite sum_n_swap. apply sum_n_ext. intros k _.
    rewrite <- sum_n_scal_l. apply sum_n_ext. intros c _. ring.
Qed.

(* unit-lower times upper, split into the strict part and the diagonal *)
Lemma mprod_unit_lower n (LU : matrix A) r c : r < n ->
  mprod n (unit_lower LU) (upper LU) r c =
  sum_n n (fun k => (if k <? r then ent LU r k else zero) * upper LU k c) + upper LU r c.
Proof.
  intros Hr. unfold mprod.
  replace (upper LU r c) with (sum_n n (fun k => if k =? r then upper LU k c else zero))
    by (apply (sum_n_pick n r (fun k => upper LU k c) Hr)).
  rewrite <- sum_n_add. apply sum_n_ext. intros k _. unfold unit_lower.
  destruct (Nat.ltb_spec k r); destruct (Nat.eqb_spec k r); try lia; ring.
Qed.

End Sums.
