(* Proofs/IterSparseErr.v -- round two, package iter2: the other half of C08 -- what a reported FAILURE means.
   ANY arithmetic (floats included): the value e of every Err(e), from every exit of every solver, is the
   code's error measure of the very vector the ghost g_t names:  norm2 (g_t g) / ||b||' = e; and an Err
   through budget exhaustion carries a value that FAILED the last test.
   Over a field with a linear product (and for CSC storage): g_t g = b - A x, so Err(e) reports the TRUE
   relative residual of the returned x. *)
From Coq Require Import List Arith Lia Bool Ring Field.
From OV Require Import Base.Panic Base.Arith Model.Vector Model.Matrix Model.Sparse Model.Iter
  Proofs.SparseBase Proofs.SparseMul Proofs.Iter Proofs.IterField Proofs.IterSparse Proofs.IterSparseBreakdown.
Import ListNotations.
Local Open Scope bool_scope.

Section ErrValue.
Context {A : SArith}.
Notation F := (T (SA A)).
Variables (mulA mulAT : list F -> res (list F)) (rows cols : nat).

(* "the output's error value is the measure of its ghost vector, and it did not pass the test" *)
Definition err_ok (normb tol : F) (o : iout A) : Prop :=
  match o with
  | (IErr e, _, g) => div (norm2 (g_t g)) normb = Ok e /\
                      (g_exit g = 2 -> leb e tol = false \/ ltb e tol = false)
  | _ => True
  end.

Lemma loop_err {S} (body : nat -> S -> res (step_out S)) (final : S -> iout A) (Inv : S -> Prop) normb tol fuel s0 o :
  (forall i s out, Inv s -> body i s = Ok out ->
     match out with Continue s' => Inv s' | Return o => err_ok normb tol o end) ->
  (forall s, Inv s -> err_ok normb tol (final s)) ->
  Inv s0 -> iloop body final fuel 1 s0 = Ok o -> err_ok normb tol o.
Proof.
  intros Hb Hf H0 E.
  destruct (iloop_char body final (fun _ s => Inv s)
              (fun i s s' HI Eb => Hb i s (Continue s') HI Eb) fuel 1 s0 o H0 E)
    as [(i & s & _ & HI & Eb)|(s & HI & ->)].
  - exact (Hb i s (Return o) HI Eb).
  - now apply Hf.
Qed.

Ltac fin :=
  repeat match goal with
  | E : Ok (Return _) = Ok _ |- _ => injection E; clear E; intros; subst
  | E : Ok (Continue _) = Ok _ |- _ => injection E; clear E; intros; subst
  end; cbn; auto.

(* ---- CG ---- *)
Definition cg_einv (normb tol : F) (s : @cg_st A) : Prop :=
  div (norm2 (cg_r s)) normb = Ok (cg_resid s) /\ leb (cg_resid s) tol = false.

Lemma cg_body_err tol normb i s out : cg_einv normb tol s -> cg_body mulA rows tol normb i s = Ok out ->
  match out with Continue s' => cg_einv normb tol s' | Return o => err_ok normb tol o end.
Proof. intros HI. unfold cg_body. intros H. inv_res; fin. all: unfold cg_einv; cbn; split; auto. Qed.

(* ---- BiCG ---- *)
Definition bicg_einv (itol : nat) (bnrm tol : F) (s : @bicg_st A) : Prop :=
  div (norm2 (if itol =? 2 then bi_z s else bi_r s)) bnrm = Ok (bi_err s) /\ leb (bi_err s) tol = false.

Lemma bicg_body_err itol tol bnrm i s out : itol = 1 \/ itol = 2 ->
  bicg_einv itol bnrm tol s -> bicg_body mulA mulAT rows itol tol bnrm i s = Ok out ->
  match out with Continue s' => bicg_einv itol bnrm tol s' | Return o => err_ok bnrm tol o end.
Proof.
  intros Hit HI. unfold bicg_body. intros H.
  destruct Hit as [-> | ->]; cbn [Nat.eqb] in *; inv_res; fin; unfold bicg_einv; cbn; split; congruence.
Qed.

(* ---- BiCGSTAB ---- *)
Definition stab_einv (normb tol : F) (s : @stab_st A) : Prop :=
  div (norm2 (st_r s)) normb = Ok (st_resid s) /\ (leb (st_resid s) tol = false \/ ltb (st_resid s) tol = false).

Lemma stab_body_err rtilde tol normb i s out : stab_einv normb tol s ->
  stab_body mulA rows rtilde tol normb i s = Ok out ->
  match out with Continue s' => stab_einv normb tol s' | Return o => err_ok normb tol o end.
Proof.
  intros HI. unfold stab_body. intros H. inv_res; fin.
  all: try (split; [assumption | intros Hx; discriminate Hx]).
  all: unfold stab_einv; cbn; split; auto.
Qed.

(* ---- QMR ---- *)
Definition qmr_einv (normb tol : F) (s : @qmr_st A) : Prop :=
  div (norm2 (q_r s)) normb = Ok (q_resid s) /\ leb (q_resid s) tol = false.

Lemma qmr_body_err tol normb i s out : qmr_einv normb tol s ->
  qmr_body mulA mulAT tol normb i s = Ok out ->
  match out with Continue s' => qmr_einv normb tol s' | Return o => err_ok normb tol o end.
Proof.
  intros (HI1 & HI2). unfold qmr_body, qmr_exit. intros H. inv_res; fin.
  all: try (split; [exact HI1 | intros Hx; discriminate Hx]).
  all: unfold qmr_einv; cbn; split; auto.
Qed.

Lemma bicg_start_z_is_r itol b x0 r bnrm z :
  bicg_start mulA rows cols itol b x0 = Ok (r, bnrm, z) -> z = r.
Proof.
  unfold bicg_start. intros H.
  apply bind_ok in H as (u & Hg & H). apply guards_Ok in Hg as (Hb & Hc & Hx).
  apply bind_ok in H as (ax & Eax & H). apply bind_ok in H as (r' & Er & H).
  apply bind_ok in H as (bz & Ebz & H). injection H as <- _ <-.
  destruct (itol =? 1).
  - apply bind_ok in Ebz as (z' & Ez & Ebz). injection Ebz as <-. cbn [snd].
    apply ident_pre_Ok in Ez as (-> & _); [reflexivity | apply zeros_length].
  - destruct (itol =? 2); [|discriminate].
    apply bind_ok in Ebz as (z1 & Ez1 & Ebz). apply bind_ok in Ebz as (z' & Ez & Ebz). injection Ebz as <-. cbn [snd].
    apply ident_pre_Ok in Ez1 as (-> & _); [|apply zeros_length].
    apply ident_pre_Ok in Ez as (-> & _); [reflexivity | lia].
Qed.

Theorem run_err_value sv b x0 n tol e x g :
  run mulA mulAT rows cols sv b x0 n tol = Ok (IErr e, x, g) ->
  div (norm2 (g_t g)) (nz (norm2 b)) = Ok e /\ (g_exit g = 2 -> leb e tol = false \/ ltb e tol = false).
Proof.
  intros H. change (err_ok (nz (norm2 b)) tol (IErr e, x, g)).
  destruct sv as [|itol| |]; cbn [run] in H.
  - unfold solve_cg in H. inv_res; [discriminate|].
    eapply (loop_err _ _ (cg_einv (nz (norm2 b)) tol)); [| | |exact H].
    + intros i s out. apply cg_body_err.
    + intros s (Hd1 & Hd2). unfold cg_final; cbn. auto.
    + split; cbn; auto.
  - unfold solve_bicg in H. inv_res; [discriminate|].
    match goal with E : bicg_start _ _ _ _ _ _ = Ok _ |- _ => pose proof E as Es; apply bicg_start_Ok in E as (Hit & ->) end.
    eapply (loop_err _ _ (bicg_einv itol (nz (norm2 b)) tol)); [| | |exact H].
    + intros i s out. now apply bicg_body_err.
    + intros s (Hd1 & Hd2). unfold bicg_final; cbn. auto.
    + unfold bicg_einv; cbn. split; auto.
      (* at the start z is r: the start-up measure is the measure of the ghost vector for both itol *)
      apply bicg_start_z_is_r in Es. subst. destruct (itol =? 2); assumption.
  - unfold solve_bicgstab in H. inv_res; [discriminate|].
    eapply (loop_err _ _ (stab_einv (nz (norm2 b)) tol)); [| | |exact H].
    + intros i s out. apply stab_body_err.
    + intros s (Hd1 & Hd2). unfold stab_final; cbn. auto.
    + split; cbn; auto.
  - unfold solve_qmr in H. inv_res; [discriminate|].
    eapply (loop_err _ _ (qmr_einv (nz (norm2 b)) tol)); [| | |exact H].
    + intros i s out. apply qmr_body_err.
    + intros s (Hd1 & Hd2). unfold qmr_final, qmr_exit; cbn. auto.
    + split; cbn; auto.
Qed.

End ErrValue.

Section ErrField.
Context {A : SArith}.
Notation F := (T (SA A)).
Variable FL : FieldLaws (SA A).

(* over a field, linear product: Err(e) reports the TRUE relative residual of the returned x *)
Theorem run_err_true_residual n (mulA mulAT : list F -> res (list F)) cols sv b x0 max tol e x g :
  LinOp n mulA -> run mulA mulAT n cols sv b x0 max tol = Ok (IErr e, x, g) ->
  exists ax, mulA x = Ok ax /\ div (norm2 (zipw sub b ax)) (nz (norm2 b)) = Ok e /\
    (g_exit g = 2 -> leb e tol = false \/ ltb e tol = false).
Proof.
  intros LO H. destruct (run_tracks FL n mulA mulAT LO cols sv b x0 max tol _ H) as (ax & Eax & Eg).
  destruct (run_err_value mulA mulAT n cols sv b x0 max tol e x g H) as (He & Ht).
  exists ax. rewrite <- Eg. auto.
Qed.

Theorem run_sparse_err_true_residual sv (s : sparse (SA A)) b x0 max tol e x g : wfS s ->
  run_sparse sv s b x0 max tol = Ok (IErr e, x, g) ->
  div (norm2 (zipw sub b (sp_apply s x))) (nz (norm2 b)) = Ok e /\
  (g_exit g = 2 -> leb e tol = false \/ ltb e tol = false).
Proof.
  intros Hwf H. destruct (run_sparse_tracks FL sv s b x0 max tol _ x g Hwf H) as (Eg & _).
  unfold run_sparse in H. destruct (run_err_value _ _ _ _ sv b x0 max tol e x g H) as (He & Ht).
  rewrite <- Eg. auto.
Qed.
End ErrField.
