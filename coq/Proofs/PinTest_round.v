(* Proofs/PinTest_round.v -- GENERATED: the compiled copy of the pin blocks of package round
   (Props/pending/C01_round.v.txt, C03_round.v.txt, C07_round.v.txt, C11_round.v.txt, C15_round.v.txt, concatenated
   unchanged after this header).  It exists only to prove that the blocks compile; the coordinator appends each
   block to its Props/CXX.v at merge.  Regenerate with: cat header + the pending files (see .cache/mkpintest.sh). *)
From Coq Require Import List Arith ZArith Lia.
From OV Require Import Base.Panic Base.Arith Model.Vector Model.Matrix Model.Solve Model.Sparse Model.Poly.
Import ListNotations.
Local Open Scope nat_scope.

(* ---------- Props/pending/C15_round.v.txt ---------- *)
(* ======================================================================================================
   C15 (vectors), rounding half -- package round.  Append to Props/C15.v.
   The dot product "to rounding accuracy": backward and forward error of Model/Vector.v [dot]
   (a) in the STANDARD MODEL of floating-point arithmetic (Base/RoundModel.v: the same Gallina [dot] at the
       arithmetic ARm whose operations are the exact ones times (1+d), |d| <= u), for EVERY length n with n u < 1;
   (b) for the PRIMITIVE-FLOAT instance itself ([dot] at AF, IEEE binary64), through Flocq: whenever the computed
       result is finite and no product underflows.
   Unproved remainder: (a) assumes the standard model (discharged for round-to-nearest-even with unbounded exponent in
   Proofs/RoundFlx.v, and for binary64 on the no-underflow domain in Proofs/RoundDotFloat.v); (b) says nothing when a
   product falls into the subnormal range (the absolute-error term of gradual underflow is not analysed) or when the
   result overflows.
   ====================================================================================================== *)
From Coq Require Import Reals Floats Lra Lia.
From OV Require Import Base.RoundModel Proofs.RoundDot Proofs.RoundFlx Proofs.ComplexRound Proofs.RoundDotFloat Inst.FloatInst.

(* Higham (3.4): fl(x.y) = Sum_i x_i y_i (1 + th_i), |th_i| <= gam n = n u / (1 - n u) *)
Theorem dot_backward_error : forall (u : R), (0 <= u < 1)%R ->
  forall (fadd fsub fmul fdiv : R -> R -> R),
  (forall x y : R, exists d : R, (Rabs d <= u)%R /\ fadd x y = ((x + y) * (1 + d))%R) ->
  (forall x y : R, exists d : R, (Rabs d <= u)%R /\ fmul x y = (x * y * (1 + d))%R) ->
  (forall a b : R, fadd 0%R (fmul a b) = fmul a b) ->
  forall (x y : list R) (r : R),
  (INR (length x) * u < 1)%R -> dot (A := ARm fadd fsub fmul fdiv) x y = Ok r ->
  exists th : nat -> R,
    (forall k, (k < length x)%nat -> (Rabs (th k) <= gam u (length x))%R) /\
    r = Rsum (length x) (fun k => (nth k x 0 * nth k y 0 * (1 + th k))%R).
Proof. intros u Hu fadd fsub fmul fdiv Ha Hm H0 x y r. exact (dot_backward_error_lemma u Hu fadd fsub fmul fdiv Ha Hm H0 x y r). Qed.
Check dot_backward_error : forall (u : R), (0 <= u < 1)%R ->
  forall (fadd fsub fmul fdiv : R -> R -> R),
  (forall x y : R, exists d : R, (Rabs d <= u)%R /\ fadd x y = ((x + y) * (1 + d))%R) ->
  (forall x y : R, exists d : R, (Rabs d <= u)%R /\ fmul x y = (x * y * (1 + d))%R) ->
  (forall a b : R, fadd 0%R (fmul a b) = fmul a b) ->
  forall (x y : list R) (r : R),
  (INR (length x) * u < 1)%R -> dot (A := ARm fadd fsub fmul fdiv) x y = Ok r ->
  exists th : nat -> R,
    (forall k, (k < length x)%nat -> (Rabs (th k) <= gam u (length x))%R) /\
    r = Rsum (length x) (fun k => (nth k x 0 * nth k y 0 * (1 + th k))%R).
Print Assumptions dot_backward_error.
(* the hypotheses are met by an arithmetic that rounds every operation (53-bit round-to-nearest-even), and dot answers in it *)
Example dot_backward_error_nonvacuous :
  (0 <= ux < 1)%R /\
  (forall x y : R, exists d : R, (Rabs d <= ux)%R /\ xadd x y = ((x + y) * (1 + d))%R) /\
  (forall x y : R, exists d : R, (Rabs d <= ux)%R /\ xmul x y = (x * y * (1 + d))%R) /\
  (forall a b : R, xadd 0%R (xmul a b) = xmul a b) /\
  (INR (length [1%R; 2%R; 3%R]) * ux < 1)%R /\
  (exists r, dot (A := AFlx) [1%R; 2%R; 3%R] [4%R; 5%R; 6%R] = Ok r) /\
  xdiv 1%R 3%R <> (1 / 3)%R.
Proof.
  split; [exact ux_range|]. split; [exact xadd_ok|]. split; [exact xmul_ok|]. split; [exact xadd_0_mul|].
  split; [cbn [length INR]; pose proof ux_small; lra|]. split; [eexists; reflexivity|exact xdiv_inexact].
Qed.

(* Higham (3.5): |fl(x.y) - x.y| <= gam n Sum_i |x_i| |y_i| *)
Theorem dot_forward_error : forall (u : R), (0 <= u < 1)%R ->
  forall (fadd fsub fmul fdiv : R -> R -> R),
  (forall x y : R, exists d : R, (Rabs d <= u)%R /\ fadd x y = ((x + y) * (1 + d))%R) ->
  (forall x y : R, exists d : R, (Rabs d <= u)%R /\ fmul x y = (x * y * (1 + d))%R) ->
  (forall a b : R, fadd 0%R (fmul a b) = fmul a b) ->
  forall (x y : list R) (r : R),
  (INR (length x) * u < 1)%R -> dot (A := ARm fadd fsub fmul fdiv) x y = Ok r ->
  (Rabs (r - Rsum (length x) (fun k => nth k x 0 * nth k y 0))
     <= gam u (length x) * Rsum (length x) (fun k => Rabs (nth k x 0) * Rabs (nth k y 0)))%R.
Proof. intros u Hu fadd fsub fmul fdiv Ha Hm H0 x y r. exact (dot_forward_error_lemma u Hu fadd fsub fmul fdiv Ha Hm H0 x y r). Qed.
Check dot_forward_error : forall (u : R), (0 <= u < 1)%R ->
  forall (fadd fsub fmul fdiv : R -> R -> R),
  (forall x y : R, exists d : R, (Rabs d <= u)%R /\ fadd x y = ((x + y) * (1 + d))%R) ->
  (forall x y : R, exists d : R, (Rabs d <= u)%R /\ fmul x y = (x * y * (1 + d))%R) ->
  (forall a b : R, fadd 0%R (fmul a b) = fmul a b) ->
  forall (x y : list R) (r : R),
  (INR (length x) * u < 1)%R -> dot (A := ARm fadd fsub fmul fdiv) x y = Ok r ->
  (Rabs (r - Rsum (length x) (fun k => nth k x 0 * nth k y 0))
     <= gam u (length x) * Rsum (length x) (fun k => Rabs (nth k x 0) * Rabs (nth k y 0)))%R.
Print Assumptions dot_forward_error.
Example dot_forward_error_nonvacuous :   (* same instance as above *)
  (0 <= ux < 1)%R /\ (INR (length [1%R; 2%R; 3%R]) * ux < 1)%R /\
  (exists r, dot (A := AFlx) [1%R; 2%R; 3%R] [4%R; 5%R; 6%R] = Ok r).
Proof. split; [exact ux_range|]. split; [cbn [length INR]; pose proof ux_small; lra|eexists; reflexivity]. Qed.

(* without the exact first addition 0 + x_0 y_0: the same with gam (n+1) -- the pure standard model *)
Theorem dot_backward_error_pure : forall (u : R), (0 <= u < 1)%R ->
  forall (fadd fsub fmul fdiv : R -> R -> R),
  (forall x y : R, exists d : R, (Rabs d <= u)%R /\ fadd x y = ((x + y) * (1 + d))%R) ->
  (forall x y : R, exists d : R, (Rabs d <= u)%R /\ fmul x y = (x * y * (1 + d))%R) ->
  forall (x y : list R) (r : R),
  (INR (S (length x)) * u < 1)%R -> dot (A := ARm fadd fsub fmul fdiv) x y = Ok r ->
  exists th : nat -> R,
    (forall k, (k < length x)%nat -> (Rabs (th k) <= gam u (S (length x)))%R) /\
    r = Rsum (length x) (fun k => (nth k x 0 * nth k y 0 * (1 + th k))%R).
Proof. intros u Hu fadd fsub fmul fdiv Ha Hm x y r. exact (dot_backward_error_pure_lemma u Hu fadd fsub fmul fdiv Ha Hm x y r). Qed.
Check dot_backward_error_pure : forall (u : R), (0 <= u < 1)%R ->
  forall (fadd fsub fmul fdiv : R -> R -> R),
  (forall x y : R, exists d : R, (Rabs d <= u)%R /\ fadd x y = ((x + y) * (1 + d))%R) ->
  (forall x y : R, exists d : R, (Rabs d <= u)%R /\ fmul x y = (x * y * (1 + d))%R) ->
  forall (x y : list R) (r : R),
  (INR (S (length x)) * u < 1)%R -> dot (A := ARm fadd fsub fmul fdiv) x y = Ok r ->
  exists th : nat -> R,
    (forall k, (k < length x)%nat -> (Rabs (th k) <= gam u (S (length x)))%R) /\
    r = Rsum (length x) (fun k => (nth k x 0 * nth k y 0 * (1 + th k))%R).
Print Assumptions dot_backward_error_pure.
Example dot_backward_error_pure_nonvacuous :
  (0 <= ux < 1)%R /\ (INR (S (length [1%R; 2%R; 3%R])) * ux < 1)%R /\
  (exists r, dot (A := AFlx) [1%R; 2%R; 3%R] [4%R; 5%R; 6%R] = Ok r).
Proof. split; [exact ux_range|]. split; [cbn [length INR]; pose proof ux_small; lra|eexists; reflexivity]. Qed.

(* the primitive-float instance (IEEE binary64, u = 2^-53): FR is the real value of a float *)
Theorem dot_backward_error_float : forall (v w : list PrimFloat.float) (r : PrimFloat.float),
  dot (A := AF) v w = Ok r -> ffinite r ->
  (forall k, (k < length v)%nat -> no_underflow (FR (nth k v 0%float) * FR (nth k w 0%float))%R) ->
  (INR (length v) * u64 < 1)%R ->
  exists th : nat -> R,
    (forall k, (k < length v)%nat -> (Rabs (th k) <= g64 (length v))%R) /\
    FR r = Rsum (length v) (fun k => (FR (nth k v 0%float) * FR (nth k w 0%float) * (1 + th k))%R).
Proof. exact dot_backward_error_float_lemma. Qed.
Check dot_backward_error_float : forall (v w : list PrimFloat.float) (r : PrimFloat.float),
  dot (A := AF) v w = Ok r -> ffinite r ->
  (forall k, (k < length v)%nat -> no_underflow (FR (nth k v 0%float) * FR (nth k w 0%float))%R) ->
  (INR (length v) * u64 < 1)%R ->
  exists th : nat -> R,
    (forall k, (k < length v)%nat -> (Rabs (th k) <= g64 (length v))%R) /\
    FR r = Rsum (length v) (fun k => (FR (nth k v 0%float) * FR (nth k w 0%float) * (1 + th k))%R).
Print Assumptions dot_backward_error_float.
(* 0.1 is not representable and 0.1*3 is inexact: the hypotheses hold on data that do round *)
Example dot_backward_error_float_nonvacuous :
  let v := [1.5%float; 2%float; 0.1%float] in let w := [3%float; 4%float; 3%float] in
  (exists r, dot (A := AF) v w = Ok r /\ ffinite r) /\
  (forall k, (k < length v)%nat -> no_underflow (FR (nth k v 0%float) * FR (nth k w 0%float))%R) /\
  (INR (length v) * u64 < 1)%R.
Proof.
  cbn zeta. split; [eexists; split; [reflexivity|apply ffinite_SF; reflexivity]|]. split.
  - intros [|[|[|k]]] Hk; cbn [nth]; cbn in Hk; try lia.
    + assert (Ea : FR 1.5%float = 1.5%R) by fr_eval. assert (Eb : FR 3%float = 3%R) by fr_eval.
      rewrite Ea, Eb. apply no_underflow_ge1. rewrite Rabs_pos_eq; lra.
    + assert (Ea : FR 2%float = 2%R) by fr_eval. assert (Eb : FR 4%float = 4%R) by fr_eval.
      rewrite Ea, Eb. apply no_underflow_ge1. rewrite Rabs_pos_eq; lra.
    + right. assert (Eb : FR 3%float = 3%R) by fr_eval. rewrite Eb.
      assert (Ea : (/ 16 <= FR 0.1%float)%R) by fr_eval.
      apply Rle_trans with (Flocq.Core.Raux.bpow Flocq.Core.Zaux.radix2 (-4)).
      * apply Flocq.Core.Raux.bpow_le. lia.
      * change (Flocq.Core.Raux.bpow Flocq.Core.Zaux.radix2 (-4)) with (/ 16)%R. rewrite Rabs_pos_eq; lra.
  - cbn [length INR]. pose proof u64_small. lra.
Qed.

Theorem dot_forward_error_float : forall (v w : list PrimFloat.float) (r : PrimFloat.float),
  dot (A := AF) v w = Ok r -> ffinite r ->
  (forall k, (k < length v)%nat -> no_underflow (FR (nth k v 0%float) * FR (nth k w 0%float))%R) ->
  (INR (length v) * u64 < 1)%R ->
  (Rabs (FR r - Rsum (length v) (fun k => FR (nth k v 0%float) * FR (nth k w 0%float)))
     <= g64 (length v) * Rsum (length v) (fun k => Rabs (FR (nth k v 0%float)) * Rabs (FR (nth k w 0%float))))%R.
Proof. exact dot_forward_error_float_lemma. Qed.
Check dot_forward_error_float : forall (v w : list PrimFloat.float) (r : PrimFloat.float),
  dot (A := AF) v w = Ok r -> ffinite r ->
  (forall k, (k < length v)%nat -> no_underflow (FR (nth k v 0%float) * FR (nth k w 0%float))%R) ->
  (INR (length v) * u64 < 1)%R ->
  (Rabs (FR r - Rsum (length v) (fun k => FR (nth k v 0%float) * FR (nth k w 0%float)))
     <= g64 (length v) * Rsum (length v) (fun k => Rabs (FR (nth k v 0%float)) * Rabs (FR (nth k w 0%float))))%R.
Print Assumptions dot_forward_error_float.
Example dot_forward_error_float_nonvacuous :   (* exactly representable data *)
  let v := [1.5%float; 2%float] in let w := [3%float; 4%float] in
  (exists r, dot (A := AF) v w = Ok r /\ ffinite r) /\ (INR (length v) * u64 < 1)%R.
Proof.
  cbn zeta. split; [eexists; split; [reflexivity|apply ffinite_SF; reflexivity]|].
  cbn [length INR]. pose proof u64_small. lra.
Qed.

