(* Proofs/PinTest_round.v -- GENERATED: the compiled copy of the pin blocks of package round
   (Props/pending/C01 C02 C03 C04 C07 C11 C15 _round.v.txt, concatenated
   unchanged after this header).  It exists only to prove that the blocks compile; the coordinator appends each
   block to its Props/CXX.v at merge.  To regenerate: keep this header (the lines up to and including 'Local Open Scope
   nat_scope.'), then for every f in Props/pending/C*_round.v.txt in lexical order append the line
   '(* ---------- f ---------- *)', the file f, and an empty line. *)
From Coq Require Import List Arith ZArith Lia.
From OV Require Import Base.Panic Base.Arith Model.Vector Model.Matrix Model.Solve Model.Sparse Model.Poly Model.Banded.
Import ListNotations.
Local Open Scope nat_scope.

(* ---------- Props/pending/C01_round.v.txt ---------- *)
(* ======================================================================================================
   C01 (dense direct solvers), rounding half -- package round.  Append to Props/C01.v.
   The TRIANGULAR half of the backward-error claim, in the STANDARD MODEL of floating-point arithmetic
   (Base/RoundModel.v; the same Gallina [backsolve] / [solve_lu] / [solve_basic] of Model/Solve.v at ARm), for every
   size n with n u < 1 (Higham, Accuracy and Stability of Numerical Algorithms, Theorem 8.5):
     backsolve:             (U + dU) x^ = b ,  |dU| <= gam n |U| ,  U = upper triangle of the matrix handed to backsolve
     forward substitution:  (L + dL) y^ = b ,  |dL| <= gam n |L| ,  L = unit lower triangle (the loop inside solve_lu)
     solve_lu / solve_basic: what they return went through exactly these solves with the COMPUTED factors.
   and (third block below) the FACTORISATION and the solver as a whole, Higham Theorems 9.3 and 9.4:
     lu_decomp:  L^ U^ = P A + dA,  |dA| <= gam n |L^||U^|;     solve_lu:  (A + dA) x^ = b + db,
     |dA| <= (3 gam n + gam n^2) P^T |L^||U^|,  |db| <= gam n |b|   (in IEEE arithmetic P b is exact; the pure standard
     model charges its rounding to b), L^, U^, P the COMPUTED factors and permutation, pivots nonzero.
   NOT COVERED (stated, not proved): the comparison of |L^||U^| with |A| -- that, and only that, is where the growth
   factor of Gaussian elimination with partial pivoting enters (Higham sec. 9.3-9.4); runs of solve_basic in which a
   pivot search meets an all-zero column (the known quirk of max_abs_in_column: its index starts at row 0); that IEEE
   binary64 obeys the standard model absent underflow/overflow is re-proved for the two triangular solves (second
   block), dot and multiply (Props/C15.v, Props/C03.v), not for the factorisation.
   ====================================================================================================== *)
From Coq Require Import Reals Lra Lia.
From OV Require Import Base.RoundModel Proofs.Matrix Proofs.LUSolve Proofs.RoundDot Proofs.RoundMatvec Proofs.RoundBacksolve
  Proofs.RoundSolve Proofs.RoundFlx Proofs.RoundExamples.

Theorem backsolve_backward_error : forall (u : R), (0 <= u < 1)%R ->
  forall (fadd fsub fmul fdiv : R -> R -> R),
  (forall x y : R, exists d : R, (Rabs d <= u)%R /\ fsub x y = ((x - y) * (1 + d))%R) ->
  (forall x y : R, exists d : R, (Rabs d <= u)%R /\ fmul x y = (x * y * (1 + d))%R) ->
  (forall x y : R, y <> 0%R -> exists d : R, (Rabs d <= u)%R /\ fdiv x y = (x / y * (1 + d))%R) ->
  forall (m : matrix (ARm fadd fsub fmul fdiv)) (b x : list R),
  Proofs.Matrix.wf m -> rows m = cols m -> length b = rows m -> (INR (rows m) * u < 1)%R ->
  (forall k, (k < rows m)%nat -> rentry fadd fsub fmul fdiv m k k <> 0%R) ->
  backsolve m b = Ok x ->
  length x = rows m /\
  exists dU : nat -> nat -> R,
    (forall i j, (i < rows m)%nat -> (j < rows m)%nat ->
       (Rabs (dU i j) <= gam u (rows m) * Rabs (triu fadd fsub fmul fdiv m i j))%R) /\
    forall i, (i < rows m)%nat ->
      Rsum (rows m) (fun j => ((triu fadd fsub fmul fdiv m i j + dU i j) * nth j x 0)%R) = nth i b 0%R.
Proof. intros u Hu fadd fsub fmul fdiv Hs Hm Hd m b x. exact (backsolve_backward_error_lemma u Hu fadd fsub fmul fdiv Hs Hm Hd m b x). Qed.
Check backsolve_backward_error : forall (u : R), (0 <= u < 1)%R ->
  forall (fadd fsub fmul fdiv : R -> R -> R),
  (forall x y : R, exists d : R, (Rabs d <= u)%R /\ fsub x y = ((x - y) * (1 + d))%R) ->
  (forall x y : R, exists d : R, (Rabs d <= u)%R /\ fmul x y = (x * y * (1 + d))%R) ->
  (forall x y : R, y <> 0%R -> exists d : R, (Rabs d <= u)%R /\ fdiv x y = (x / y * (1 + d))%R) ->
  forall (m : matrix (ARm fadd fsub fmul fdiv)) (b x : list R),
  Proofs.Matrix.wf m -> rows m = cols m -> length b = rows m -> (INR (rows m) * u < 1)%R ->
  (forall k, (k < rows m)%nat -> rentry fadd fsub fmul fdiv m k k <> 0%R) ->
  backsolve m b = Ok x ->
  length x = rows m /\
  exists dU : nat -> nat -> R,
    (forall i j, (i < rows m)%nat -> (j < rows m)%nat ->
       (Rabs (dU i j) <= gam u (rows m) * Rabs (triu fadd fsub fmul fdiv m i j))%R) /\
    forall i, (i < rows m)%nat ->
      Rsum (rows m) (fun j => ((triu fadd fsub fmul fdiv m i j + dU i j) * nth j x 0)%R) = nth i b 0%R.
Print Assumptions backsolve_backward_error.
(* [[2,1],[0,3]] x = [1,1] in the arithmetic that rounds every operation to 53 bits (1/3 is not representable) *)
Example backsolve_backward_error_nonvacuous :
  (0 <= ux < 1)%R /\
  (forall x y : R, exists d : R, (Rabs d <= ux)%R /\ xsub x y = ((x - y) * (1 + d))%R) /\
  (forall x y : R, exists d : R, (Rabs d <= ux)%R /\ xmul x y = (x * y * (1 + d))%R) /\
  (forall x y : R, y <> 0%R -> exists d : R, (Rabs d <= ux)%R /\ xdiv x y = (x / y * (1 + d))%R) /\
  Proofs.Matrix.wf ex_m2 /\ rows ex_m2 = cols ex_m2 /\ length ex_b2 = rows ex_m2 /\ (INR (rows ex_m2) * ux < 1)%R /\
  (forall k, (k < rows ex_m2)%nat -> rentry xadd xsub xmul xdiv ex_m2 k k <> 0%R) /\
  (exists x, backsolve ex_m2 ex_b2 = Ok x) /\ xdiv 1%R 3%R <> (1 / 3)%R.
Proof.
  split; [exact ux_range|]. split; [exact xsub_ok|]. split; [exact xmul_ok|]. split; [exact xdiv_ok|].
  split; [reflexivity|]. split; [reflexivity|]. split; [reflexivity|]. split; [exact ex_size2|].
  split; [intros [|[|k]] Hk; cbn in Hk; try lia; cbn; lra|]. split; [eexists; reflexivity|exact xdiv_inexact].
Qed.

(* the unit-lower forward substitution inside solve_lu ([fwd_loop] of Proofs/LUSolve.v is that loop, verbatim) *)
Theorem fwdsolve_backward_error : forall (u : R), (0 <= u < 1)%R ->
  forall (fadd fsub fmul fdiv : R -> R -> R),
  (forall x y : R, exists d : R, (Rabs d <= u)%R /\ fsub x y = ((x - y) * (1 + d))%R) ->
  (forall x y : R, exists d : R, (Rabs d <= u)%R /\ fmul x y = (x * y * (1 + d))%R) ->
  forall (m : matrix (ARm fadd fsub fmul fdiv)) (b y : list R),
  Proofs.Matrix.wf m -> rows m = cols m -> length b = rows m -> (INR (rows m) * u < 1)%R ->
  Proofs.LUSolve.fwd_loop (A := ARm fadd fsub fmul fdiv) m b = Ok y ->
  length y = rows m /\
  exists dL : nat -> nat -> R,
    (forall i j, (i < rows m)%nat -> (j < rows m)%nat ->
       (Rabs (dL i j) <= gam u (rows m) * Rabs (tril1 fadd fsub fmul fdiv m i j))%R) /\
    forall i, (i < rows m)%nat ->
      Rsum (rows m) (fun j => ((tril1 fadd fsub fmul fdiv m i j + dL i j) * nth j y 0)%R) = nth i b 0%R.
Proof. intros u Hu fadd fsub fmul fdiv Hs Hm m b y. exact (fwdsolve_backward_error_lemma u Hu fadd fsub fmul fdiv Hs Hm m b y). Qed.
Check fwdsolve_backward_error : forall (u : R), (0 <= u < 1)%R ->
  forall (fadd fsub fmul fdiv : R -> R -> R),
  (forall x y : R, exists d : R, (Rabs d <= u)%R /\ fsub x y = ((x - y) * (1 + d))%R) ->
  (forall x y : R, exists d : R, (Rabs d <= u)%R /\ fmul x y = (x * y * (1 + d))%R) ->
  forall (m : matrix (ARm fadd fsub fmul fdiv)) (b y : list R),
  Proofs.Matrix.wf m -> rows m = cols m -> length b = rows m -> (INR (rows m) * u < 1)%R ->
  Proofs.LUSolve.fwd_loop (A := ARm fadd fsub fmul fdiv) m b = Ok y ->
  length y = rows m /\
  exists dL : nat -> nat -> R,
    (forall i j, (i < rows m)%nat -> (j < rows m)%nat ->
       (Rabs (dL i j) <= gam u (rows m) * Rabs (tril1 fadd fsub fmul fdiv m i j))%R) /\
    forall i, (i < rows m)%nat ->
      Rsum (rows m) (fun j => ((tril1 fadd fsub fmul fdiv m i j + dL i j) * nth j y 0)%R) = nth i b 0%R.
Print Assumptions fwdsolve_backward_error.
Example fwdsolve_backward_error_nonvacuous :   (* unit lower triangle of [[1,0],[3,1]] *)
  let m := @mkM AFlx [1%R; 0%R; 3%R; 1%R] 2 2 in
  (0 <= ux < 1)%R /\ Proofs.Matrix.wf m /\ rows m = cols m /\ length ex_b2 = rows m /\ (INR (rows m) * ux < 1)%R /\
  exists y, Proofs.LUSolve.fwd_loop (A := AFlx) m ex_b2 = Ok y.
Proof.
  cbn zeta. split; [exact ux_range|]. split; [reflexivity|]. split; [reflexivity|]. split; [reflexivity|].
  split; [exact ex_size2|eexists; reflexivity].
Qed.

(* solve_lu: both triangular solves, with the computed factors *)
Theorem solve_lu_triangular_backward_error : forall (u : R), (0 <= u < 1)%R ->
  forall (fadd fsub fmul fdiv : R -> R -> R),
  (forall x y : R, exists d : R, (Rabs d <= u)%R /\ fsub x y = ((x - y) * (1 + d))%R) ->
  (forall x y : R, exists d : R, (Rabs d <= u)%R /\ fmul x y = (x * y * (1 + d))%R) ->
  (forall x y : R, y <> 0%R -> exists d : R, (Rabs d <= u)%R /\ fdiv x y = (x / y * (1 + d))%R) ->
  forall (m lu perm : matrix (ARm fadd fsub fmul fdiv)) (piv : nat) (b x : list R),
  Proofs.Matrix.wf m -> (INR (rows m) * u < 1)%R ->
  lu_decomp m = Ok (lu, piv, perm) ->
  (forall k, (k < rows m)%nat -> rentry fadd fsub fmul fdiv lu k k <> 0%R) ->
  solve_lu m b = Ok x ->
  length x = rows m /\
  exists (pb y : list R) (dL dU : nat -> nat -> R),
    multiply perm b = Ok pb /\ length y = rows m /\
    (forall i j, (i < rows m)%nat -> (j < rows m)%nat ->
       (Rabs (dL i j) <= gam u (rows m) * Rabs (tril1 fadd fsub fmul fdiv lu i j))%R) /\
    (forall i j, (i < rows m)%nat -> (j < rows m)%nat ->
       (Rabs (dU i j) <= gam u (rows m) * Rabs (triu fadd fsub fmul fdiv lu i j))%R) /\
    (forall i, (i < rows m)%nat ->
       Rsum (rows m) (fun j => ((tril1 fadd fsub fmul fdiv lu i j + dL i j) * nth j y 0)%R) = nth i pb 0%R) /\
    (forall i, (i < rows m)%nat ->
       Rsum (rows m) (fun j => ((triu fadd fsub fmul fdiv lu i j + dU i j) * nth j x 0)%R) = nth i y 0%R).
Proof. intros u Hu fadd fsub fmul fdiv Hs Hm Hd m lu perm piv b x. exact (solve_lu_triangular_backward_error_lemma u Hu fadd fsub fmul fdiv Hs Hm Hd m lu perm piv b x). Qed.
Check solve_lu_triangular_backward_error : forall (u : R), (0 <= u < 1)%R ->
  forall (fadd fsub fmul fdiv : R -> R -> R),
  (forall x y : R, exists d : R, (Rabs d <= u)%R /\ fsub x y = ((x - y) * (1 + d))%R) ->
  (forall x y : R, exists d : R, (Rabs d <= u)%R /\ fmul x y = (x * y * (1 + d))%R) ->
  (forall x y : R, y <> 0%R -> exists d : R, (Rabs d <= u)%R /\ fdiv x y = (x / y * (1 + d))%R) ->
  forall (m lu perm : matrix (ARm fadd fsub fmul fdiv)) (piv : nat) (b x : list R),
  Proofs.Matrix.wf m -> (INR (rows m) * u < 1)%R ->
  lu_decomp m = Ok (lu, piv, perm) ->
  (forall k, (k < rows m)%nat -> rentry fadd fsub fmul fdiv lu k k <> 0%R) ->
  solve_lu m b = Ok x ->
  length x = rows m /\
  exists (pb y : list R) (dL dU : nat -> nat -> R),
    multiply perm b = Ok pb /\ length y = rows m /\
    (forall i j, (i < rows m)%nat -> (j < rows m)%nat ->
       (Rabs (dL i j) <= gam u (rows m) * Rabs (tril1 fadd fsub fmul fdiv lu i j))%R) /\
    (forall i j, (i < rows m)%nat -> (j < rows m)%nat ->
       (Rabs (dU i j) <= gam u (rows m) * Rabs (triu fadd fsub fmul fdiv lu i j))%R) /\
    (forall i, (i < rows m)%nat ->
       Rsum (rows m) (fun j => ((tril1 fadd fsub fmul fdiv lu i j + dL i j) * nth j y 0)%R) = nth i pb 0%R) /\
    (forall i, (i < rows m)%nat ->
       Rsum (rows m) (fun j => ((triu fadd fsub fmul fdiv lu i j + dU i j) * nth j x 0)%R) = nth i y 0%R).
Print Assumptions solve_lu_triangular_backward_error.
(* lu_decomp of [[2,1],[0,3]] in the rounding arithmetic returns the factors ex_lu2 (nonzero diagonal), and solve_lu answers *)
Example solve_lu_triangular_backward_error_nonvacuous :
  (0 <= ux < 1)%R /\ Proofs.Matrix.wf ex_m2 /\ (INR (rows ex_m2) * ux < 1)%R /\
  lu_decomp ex_m2 = Ok (ex_lu2, 0%nat, ex_id2) /\
  (forall k, (k < rows ex_m2)%nat -> rentry xadd xsub xmul xdiv ex_lu2 k k <> 0%R) /\
  exists x, solve_lu ex_m2 ex_b2 = Ok x.
Proof.
  split; [exact ux_range|]. split; [reflexivity|]. split; [exact ex_size2|]. split; [exact ex_lu_decomp|].
  split; [exact ex_lu2_diag|exact ex_solve_lu].
Qed.

(* solve_basic: the back substitution, with the computed echelon form *)
Theorem solve_basic_triangular_backward_error : forall (u : R), (0 <= u < 1)%R ->
  forall (fadd fsub fmul fdiv : R -> R -> R),
  (forall x y : R, exists d : R, (Rabs d <= u)%R /\ fsub x y = ((x - y) * (1 + d))%R) ->
  (forall x y : R, exists d : R, (Rabs d <= u)%R /\ fmul x y = (x * y * (1 + d))%R) ->
  (forall x y : R, y <> 0%R -> exists d : R, (Rabs d <= u)%R /\ fdiv x y = (x / y * (1 + d))%R) ->
  forall (m m' : matrix (ARm fadd fsub fmul fdiv)) (b b' x : list R),
  Proofs.Matrix.wf m -> (INR (rows m) * u < 1)%R ->
  gauss_with_pivot m b = Ok (m', b') ->
  (forall k, (k < rows m)%nat -> rentry fadd fsub fmul fdiv m' k k <> 0%R) ->
  solve_basic m b = Ok x ->
  length x = rows m /\
  exists dU : nat -> nat -> R,
    (forall i j, (i < rows m)%nat -> (j < rows m)%nat ->
       (Rabs (dU i j) <= gam u (rows m) * Rabs (triu fadd fsub fmul fdiv m' i j))%R) /\
    (forall i, (i < rows m)%nat ->
       Rsum (rows m) (fun j => ((triu fadd fsub fmul fdiv m' i j + dU i j) * nth j x 0)%R) = nth i b' 0%R).
Proof. intros u Hu fadd fsub fmul fdiv Hs Hm Hd m m' b b' x. exact (solve_basic_triangular_backward_error_lemma u Hu fadd fsub fmul fdiv Hs Hm Hd m m' b b' x). Qed.
Check solve_basic_triangular_backward_error : forall (u : R), (0 <= u < 1)%R ->
  forall (fadd fsub fmul fdiv : R -> R -> R),
  (forall x y : R, exists d : R, (Rabs d <= u)%R /\ fsub x y = ((x - y) * (1 + d))%R) ->
  (forall x y : R, exists d : R, (Rabs d <= u)%R /\ fmul x y = (x * y * (1 + d))%R) ->
  (forall x y : R, y <> 0%R -> exists d : R, (Rabs d <= u)%R /\ fdiv x y = (x / y * (1 + d))%R) ->
  forall (m m' : matrix (ARm fadd fsub fmul fdiv)) (b b' x : list R),
  Proofs.Matrix.wf m -> (INR (rows m) * u < 1)%R ->
  gauss_with_pivot m b = Ok (m', b') ->
  (forall k, (k < rows m)%nat -> rentry fadd fsub fmul fdiv m' k k <> 0%R) ->
  solve_basic m b = Ok x ->
  length x = rows m /\
  exists dU : nat -> nat -> R,
    (forall i j, (i < rows m)%nat -> (j < rows m)%nat ->
       (Rabs (dU i j) <= gam u (rows m) * Rabs (triu fadd fsub fmul fdiv m' i j))%R) /\
    (forall i, (i < rows m)%nat ->
       Rsum (rows m) (fun j => ((triu fadd fsub fmul fdiv m' i j + dU i j) * nth j x 0)%R) = nth i b' 0%R).
Print Assumptions solve_basic_triangular_backward_error.
Example solve_basic_triangular_backward_error_nonvacuous :
  (0 <= ux < 1)%R /\ Proofs.Matrix.wf ex_m2 /\ (INR (rows ex_m2) * ux < 1)%R /\
  gauss_with_pivot ex_m2 ex_b2 = Ok (ex_g2, ex_gb2) /\
  (forall k, (k < rows ex_m2)%nat -> rentry xadd xsub xmul xdiv ex_g2 k k <> 0%R) /\
  exists x, solve_basic ex_m2 ex_b2 = Ok x.
Proof.
  split; [exact ux_range|]. split; [reflexivity|]. split; [exact ex_size2|]. split; [exact ex_gauss|].
  split; [exact ex_g2_diag|exact ex_solve_basic].
Qed.

(* ---- the same two solves at the PRIMITIVE-FLOAT instance (IEEE binary64, u = 2^-53), through Flocq ----
   No hypothesis about rounding remains.  The side conditions are about computable values: the answer is finite,
   the diagonal is nonzero, no product m_kj * x_j and no quotient racc/m_kk falls into the underflow range
   ([racc m b x k n] = ((b_k - m_{k,k+1} x_{k+1}) - ...) - m_{k,n-1} x_{n-1}, the accumulated value of row k as the
   code forms it: Proofs/RoundTrace.v proves  x_k = racc / m_kk  for backsolve over ANY arithmetic).
   Unproved remainder: subnormal products/quotients, overflow, and the factorisation (as above). *)
From Coq Require Import Floats.
From OV Require Import Inst.FloatInst Proofs.ComplexRound Proofs.RoundDotFloat Proofs.RoundTrace Proofs.RoundTriFloat.

Theorem backsolve_backward_error_float : forall (m : matrix AF) (b x : list PrimFloat.float),
  Proofs.Matrix.wf m -> rows m = cols m -> length b = rows m -> (INR (rows m) * u64 < 1)%R ->
  backsolve (A := AF) m b = Ok x ->
  (forall k, (k < rows m)%nat -> ffinite (nth k x 0%float) /\ fentry m k k <> 0%R) ->
  (forall k j, (k < j)%nat -> (j < rows m)%nat -> no_underflow (fentry m k j * FR (nth j x 0%float))%R) ->
  (forall k, (k < rows m)%nat -> no_underflow (FR (racc (A := AF) m b x k (rows m)) / fentry m k k)%R) ->
  length x = rows m /\
  exists dU : nat -> nat -> R,
    (forall i j, (i < rows m)%nat -> (j < rows m)%nat ->
       (Rabs (dU i j) <= g64 (rows m) * Rabs (triu Fadd Fsub Fmul Fdiv (mFR m) i j))%R) /\
    forall i, (i < rows m)%nat ->
      Rsum (rows m) (fun j => ((triu Fadd Fsub Fmul Fdiv (mFR m) i j + dU i j) * FR (nth j x 0%float))%R)
      = FR (nth i b 0%float).
Proof. exact backsolve_backward_error_float_lemma. Qed.
Check backsolve_backward_error_float : forall (m : matrix AF) (b x : list PrimFloat.float),
  Proofs.Matrix.wf m -> rows m = cols m -> length b = rows m -> (INR (rows m) * u64 < 1)%R ->
  backsolve (A := AF) m b = Ok x ->
  (forall k, (k < rows m)%nat -> ffinite (nth k x 0%float) /\ fentry m k k <> 0%R) ->
  (forall k j, (k < j)%nat -> (j < rows m)%nat -> no_underflow (fentry m k j * FR (nth j x 0%float))%R) ->
  (forall k, (k < rows m)%nat -> no_underflow (FR (racc (A := AF) m b x k (rows m)) / fentry m k k)%R) ->
  length x = rows m /\
  exists dU : nat -> nat -> R,
    (forall i j, (i < rows m)%nat -> (j < rows m)%nat ->
       (Rabs (dU i j) <= g64 (rows m) * Rabs (triu Fadd Fsub Fmul Fdiv (mFR m) i j))%R) /\
    forall i, (i < rows m)%nat ->
      Rsum (rows m) (fun j => ((triu Fadd Fsub Fmul Fdiv (mFR m) i j + dU i j) * FR (nth j x 0%float))%R)
      = FR (nth i b 0%float).
Print Assumptions backsolve_backward_error_float.
(* [[2,1],[0,3]] x = [1,1] in binary64: x_1 = fl(1/3) and x_0 = fl(fl(1 - fl(1/3))/2) are inexact *)
Example backsolve_backward_error_float_nonvacuous :
  Proofs.Matrix.wf exf_m /\ rows exf_m = cols exf_m /\ length exf_b = rows exf_m /\ (INR (rows exf_m) * u64 < 1)%R /\
  backsolve (A := AF) exf_m exf_b = Ok exf_x /\
  (forall k, (k < rows exf_m)%nat -> ffinite (nth k exf_x 0%float) /\ fentry exf_m k k <> 0%R) /\
  (forall k j, (k < j)%nat -> (j < rows exf_m)%nat -> no_underflow (fentry exf_m k j * FR (nth j exf_x 0%float))%R) /\
  (forall k, (k < rows exf_m)%nat ->
     no_underflow (FR (racc (A := AF) exf_m exf_b exf_x k (rows exf_m)) / fentry exf_m k k)%R).
Proof.
  split; [reflexivity|]. split; [reflexivity|]. split; [reflexivity|].
  split; [cbn [exf_m rows INR]; pose proof u64_small; lra|]. split; [exact exf_backsolve|exact exf_conditions].
Qed.

Theorem fwdsolve_backward_error_float : forall (m : matrix AF) (b y : list PrimFloat.float),
  Proofs.Matrix.wf m -> rows m = cols m -> length b = rows m -> (INR (rows m) * u64 < 1)%R ->
  Proofs.LUSolve.fwd_loop (A := AF) m b = Ok y ->
  (forall i, (i < rows m)%nat -> ffinite (nth i y 0%float)) ->
  (forall i j, (j < i)%nat -> (i < rows m)%nat -> no_underflow (fentry m i j * FR (nth j y 0%float))%R) ->
  length y = rows m /\
  exists dL : nat -> nat -> R,
    (forall i j, (i < rows m)%nat -> (j < rows m)%nat ->
       (Rabs (dL i j) <= g64 (rows m) * Rabs (tril1 Fadd Fsub Fmul Fdiv (mFR m) i j))%R) /\
    forall i, (i < rows m)%nat ->
      Rsum (rows m) (fun j => ((tril1 Fadd Fsub Fmul Fdiv (mFR m) i j + dL i j) * FR (nth j y 0%float))%R)
      = FR (nth i b 0%float).
Proof. exact fwdsolve_backward_error_float_lemma. Qed.
Check fwdsolve_backward_error_float : forall (m : matrix AF) (b y : list PrimFloat.float),
  Proofs.Matrix.wf m -> rows m = cols m -> length b = rows m -> (INR (rows m) * u64 < 1)%R ->
  Proofs.LUSolve.fwd_loop (A := AF) m b = Ok y ->
  (forall i, (i < rows m)%nat -> ffinite (nth i y 0%float)) ->
  (forall i j, (j < i)%nat -> (i < rows m)%nat -> no_underflow (fentry m i j * FR (nth j y 0%float))%R) ->
  length y = rows m /\
  exists dL : nat -> nat -> R,
    (forall i j, (i < rows m)%nat -> (j < rows m)%nat ->
       (Rabs (dL i j) <= g64 (rows m) * Rabs (tril1 Fadd Fsub Fmul Fdiv (mFR m) i j))%R) /\
    forall i, (i < rows m)%nat ->
      Rsum (rows m) (fun j => ((tril1 Fadd Fsub Fmul Fdiv (mFR m) i j + dL i j) * FR (nth j y 0%float))%R)
      = FR (nth i b 0%float).
Print Assumptions fwdsolve_backward_error_float.
(* unit lower triangle of [[1,0],[0x1.999999999999ap-4,1]] (the double nearest 0.1): y_1 = fl(1 - 0.1) is inexact *)
Example fwdsolve_backward_error_float_nonvacuous :
  let m := @mkM AF [1%float; 0%float; 0x1.999999999999ap-4%float; 1%float] 2 2 in
  let b := [1%float; 1%float] in
  Proofs.Matrix.wf m /\ rows m = cols m /\ length b = rows m /\ (INR (rows m) * u64 < 1)%R /\
  exists y, Proofs.LUSolve.fwd_loop (A := AF) m b = Ok y /\
    (forall i, (i < rows m)%nat -> ffinite (nth i y 0%float)) /\
    (forall i j, (j < i)%nat -> (i < rows m)%nat -> no_underflow (fentry m i j * FR (nth j y 0%float))%R).
Proof.
  cbn zeta. split; [reflexivity|]. split; [reflexivity|]. split; [reflexivity|].
  split; [cbn [rows INR]; pose proof u64_small; lra|].
  exists [1%float; (1 - 0x1.999999999999ap-4 * 1)%float]. split; [vm_compute; reflexivity|]. split.
  - intros [|[|i]] Hi; cbn in Hi; try lia; apply ffinite_SF; reflexivity.
  - intros [|[|i]] [|j] Hji Hi; cbn in Hi; try lia.
    unfold fentry; cbn [nth buf cols Nat.mul Nat.add].
    assert (E1 : FR 1%float = 1%R) by fr_eval.
    assert (Ea : (/ 16 <= FR 0x1.999999999999ap-4%float)%R) by fr_eval.
    rewrite E1. apply no_underflow_ge_small. rewrite Rabs_pos_eq; lra.
Qed.

(* ---- the factorisation and the solver as a whole (Higham Theorems 9.3, 9.4), standard model ---- *)
From OV Require Import Proofs.RoundLUFun Proofs.RoundLUTrace Proofs.RoundLUError Proofs.RoundSolveLU.

Theorem lu_factor_backward_error : forall (u : R), (0 <= u < 1)%R ->
  forall (fadd fsub fmul fdiv : R -> R -> R),
  (forall x y : R, exists d : R, (Rabs d <= u)%R /\ fsub x y = ((x - y) * (1 + d))%R) ->
  (forall x y : R, exists d : R, (Rabs d <= u)%R /\ fmul x y = (x * y * (1 + d))%R) ->
  (forall x y : R, y <> 0%R -> exists d : R, (Rabs d <= u)%R /\ fdiv x y = (x / y * (1 + d))%R) ->
  forall (m lu perm : matrix (ARm fadd fsub fmul fdiv)) (piv : nat),
  Proofs.Matrix.wf m -> (INR (rows m) * u < 1)%R -> lu_decomp m = Ok (lu, piv, perm) ->
  (forall k, (k < rows m)%nat -> rentry fadd fsub fmul fdiv lu k k <> 0%R) ->
  Proofs.LUPrim.shape lu (rows m) (rows m) /\ Proofs.LUPrim.shape perm (rows m) (rows m) /\
  exists tau : nat -> nat, PermOK fadd fsub fmul fdiv (rows m) tau perm /\
    forall i c, (i < rows m)%nat -> (c < rows m)%nat ->
      exists th : nat -> R, (forall k, (k < rows m)%nat -> (Rabs (th k) <= gam u (rows m))%R) /\
        rentry fadd fsub fmul fdiv m (tau i) c
        = Rsum (rows m) (fun k => (tril1 fadd fsub fmul fdiv lu i k * triu fadd fsub fmul fdiv lu k c * (1 + th k))%R).
Proof. intros u Hu fadd fsub fmul fdiv Hs Hm Hd m lu perm piv. exact (lu_factor_backward_error_lemma u Hu fadd fsub fmul fdiv Hs Hm Hd m lu perm piv). Qed.
Check lu_factor_backward_error : forall (u : R), (0 <= u < 1)%R ->
  forall (fadd fsub fmul fdiv : R -> R -> R),
  (forall x y : R, exists d : R, (Rabs d <= u)%R /\ fsub x y = ((x - y) * (1 + d))%R) ->
  (forall x y : R, exists d : R, (Rabs d <= u)%R /\ fmul x y = (x * y * (1 + d))%R) ->
  (forall x y : R, y <> 0%R -> exists d : R, (Rabs d <= u)%R /\ fdiv x y = (x / y * (1 + d))%R) ->
  forall (m lu perm : matrix (ARm fadd fsub fmul fdiv)) (piv : nat),
  Proofs.Matrix.wf m -> (INR (rows m) * u < 1)%R -> lu_decomp m = Ok (lu, piv, perm) ->
  (forall k, (k < rows m)%nat -> rentry fadd fsub fmul fdiv lu k k <> 0%R) ->
  Proofs.LUPrim.shape lu (rows m) (rows m) /\ Proofs.LUPrim.shape perm (rows m) (rows m) /\
  exists tau : nat -> nat, PermOK fadd fsub fmul fdiv (rows m) tau perm /\
    forall i c, (i < rows m)%nat -> (c < rows m)%nat ->
      exists th : nat -> R, (forall k, (k < rows m)%nat -> (Rabs (th k) <= gam u (rows m))%R) /\
        rentry fadd fsub fmul fdiv m (tau i) c
        = Rsum (rows m) (fun k => (tril1 fadd fsub fmul fdiv lu i k * triu fadd fsub fmul fdiv lu k c * (1 + th k))%R).
Print Assumptions lu_factor_backward_error.
Example lu_factor_backward_error_nonvacuous :   (* the factors of [[2,1],[0,3]] in the rounding arithmetic have a nonzero diagonal *)
  (0 <= ux < 1)%R /\ Proofs.Matrix.wf ex_m2 /\ (INR (rows ex_m2) * ux < 1)%R /\
  lu_decomp ex_m2 = Ok (ex_lu2, 0%nat, ex_id2) /\
  (forall k, (k < rows ex_m2)%nat -> rentry xadd xsub xmul xdiv ex_lu2 k k <> 0%R).
Proof.
  split; [exact ux_range|]. split; [reflexivity|]. split; [exact ex_size2|]. split; [exact ex_lu_decomp|exact ex_lu2_diag].
Qed.

Theorem solve_lu_backward_error : forall (u : R), (0 <= u < 1)%R ->
  forall (fadd fsub fmul fdiv : R -> R -> R),
  (forall x y : R, exists d : R, (Rabs d <= u)%R /\ fadd x y = ((x + y) * (1 + d))%R) ->
  (forall x y : R, exists d : R, (Rabs d <= u)%R /\ fsub x y = ((x - y) * (1 + d))%R) ->
  (forall x y : R, exists d : R, (Rabs d <= u)%R /\ fmul x y = (x * y * (1 + d))%R) ->
  (forall x y : R, y <> 0%R -> exists d : R, (Rabs d <= u)%R /\ fdiv x y = (x / y * (1 + d))%R) ->
  (forall a b : R, fadd 0%R (fmul a b) = fmul a b) ->
  forall (m lu perm : matrix (ARm fadd fsub fmul fdiv)) (piv : nat) (b x : list R),
  Proofs.Matrix.wf m -> (INR (rows m) * u < 1)%R ->
  lu_decomp m = Ok (lu, piv, perm) ->
  (forall k, (k < rows m)%nat -> rentry fadd fsub fmul fdiv lu k k <> 0%R) ->
  solve_lu m b = Ok x ->
  length x = rows m /\
  exists tau : nat -> nat,
    (forall r, (r < rows m)%nat -> (tau r < rows m)%nat) /\
    (forall r r', (r < rows m)%nat -> (r' < rows m)%nat -> tau r = tau r' -> r = r') /\
    exists (dA : nat -> nat -> R) (db : nat -> R),
      (forall i c, (i < rows m)%nat -> (c < rows m)%nat ->
         (Rabs (dA i c) <= (3 * gam u (rows m) + gam u (rows m) * gam u (rows m))
                           * Rsum (rows m) (fun k => Rabs (tril1 fadd fsub fmul fdiv lu i k)
                                                     * Rabs (triu fadd fsub fmul fdiv lu k c)))%R) /\
      (forall i, (i < rows m)%nat -> (Rabs (db i) <= gam u (rows m) * Rabs (nth (tau i) b 0))%R) /\
      (forall i, (i < rows m)%nat ->
         Rsum (rows m) (fun c => ((rentry fadd fsub fmul fdiv m (tau i) c + dA i c) * nth c x 0)%R)
         = (nth (tau i) b 0 + db i)%R).
Proof. intros u Hu fadd fsub fmul fdiv Ha Hs Hm Hd H0 m lu perm piv b x. exact (solve_lu_backward_error_lemma u Hu fadd fsub fmul fdiv Ha Hs Hm Hd H0 m lu perm piv b x). Qed.
Check solve_lu_backward_error : forall (u : R), (0 <= u < 1)%R ->
  forall (fadd fsub fmul fdiv : R -> R -> R),
  (forall x y : R, exists d : R, (Rabs d <= u)%R /\ fadd x y = ((x + y) * (1 + d))%R) ->
  (forall x y : R, exists d : R, (Rabs d <= u)%R /\ fsub x y = ((x - y) * (1 + d))%R) ->
  (forall x y : R, exists d : R, (Rabs d <= u)%R /\ fmul x y = (x * y * (1 + d))%R) ->
  (forall x y : R, y <> 0%R -> exists d : R, (Rabs d <= u)%R /\ fdiv x y = (x / y * (1 + d))%R) ->
  (forall a b : R, fadd 0%R (fmul a b) = fmul a b) ->
  forall (m lu perm : matrix (ARm fadd fsub fmul fdiv)) (piv : nat) (b x : list R),
  Proofs.Matrix.wf m -> (INR (rows m) * u < 1)%R ->
  lu_decomp m = Ok (lu, piv, perm) ->
  (forall k, (k < rows m)%nat -> rentry fadd fsub fmul fdiv lu k k <> 0%R) ->
  solve_lu m b = Ok x ->
  length x = rows m /\
  exists tau : nat -> nat,
    (forall r, (r < rows m)%nat -> (tau r < rows m)%nat) /\
    (forall r r', (r < rows m)%nat -> (r' < rows m)%nat -> tau r = tau r' -> r = r') /\
    exists (dA : nat -> nat -> R) (db : nat -> R),
      (forall i c, (i < rows m)%nat -> (c < rows m)%nat ->
         (Rabs (dA i c) <= (3 * gam u (rows m) + gam u (rows m) * gam u (rows m))
                           * Rsum (rows m) (fun k => Rabs (tril1 fadd fsub fmul fdiv lu i k)
                                                     * Rabs (triu fadd fsub fmul fdiv lu k c)))%R) /\
      (forall i, (i < rows m)%nat -> (Rabs (db i) <= gam u (rows m) * Rabs (nth (tau i) b 0))%R) /\
      (forall i, (i < rows m)%nat ->
         Rsum (rows m) (fun c => ((rentry fadd fsub fmul fdiv m (tau i) c + dA i c) * nth c x 0)%R)
         = (nth (tau i) b 0 + db i)%R).
Print Assumptions solve_lu_backward_error.
Example solve_lu_backward_error_nonvacuous :   (* every operation of the example arithmetic rounds; solve_lu answers on [[2,1],[0,3]] x = [1,1] *)
  (0 <= ux < 1)%R /\
  (forall x y : R, exists d : R, (Rabs d <= ux)%R /\ xadd x y = ((x + y) * (1 + d))%R) /\
  (forall x y : R, exists d : R, (Rabs d <= ux)%R /\ xsub x y = ((x - y) * (1 + d))%R) /\
  (forall x y : R, exists d : R, (Rabs d <= ux)%R /\ xmul x y = (x * y * (1 + d))%R) /\
  (forall x y : R, y <> 0%R -> exists d : R, (Rabs d <= ux)%R /\ xdiv x y = (x / y * (1 + d))%R) /\
  (forall a b : R, xadd 0%R (xmul a b) = xmul a b) /\
  Proofs.Matrix.wf ex_m2 /\ (INR (rows ex_m2) * ux < 1)%R /\
  lu_decomp ex_m2 = Ok (ex_lu2, 0%nat, ex_id2) /\
  (forall k, (k < rows ex_m2)%nat -> rentry xadd xsub xmul xdiv ex_lu2 k k <> 0%R) /\
  exists x, solve_lu ex_m2 ex_b2 = Ok x.
Proof.
  split; [exact ux_range|]. split; [exact xadd_ok|]. split; [exact xsub_ok|]. split; [exact xmul_ok|].
  split; [exact xdiv_ok|]. split; [exact xadd_0_mul|]. split; [reflexivity|]. split; [exact ex_size2|].
  split; [exact ex_lu_decomp|]. split; [exact ex_lu2_diag|exact ex_solve_lu].
Qed.

(* the same with Higham's constant gam (3n)  (3 gam n + gam n^2 <= gam (3n), Lemma 3.3), for 3 n u < 1 *)
Theorem solve_lu_backward_error_gam3n : forall (u : R), (0 <= u < 1)%R ->
  forall (fadd fsub fmul fdiv : R -> R -> R),
  (forall x y : R, exists d : R, (Rabs d <= u)%R /\ fadd x y = ((x + y) * (1 + d))%R) ->
  (forall x y : R, exists d : R, (Rabs d <= u)%R /\ fsub x y = ((x - y) * (1 + d))%R) ->
  (forall x y : R, exists d : R, (Rabs d <= u)%R /\ fmul x y = (x * y * (1 + d))%R) ->
  (forall x y : R, y <> 0%R -> exists d : R, (Rabs d <= u)%R /\ fdiv x y = (x / y * (1 + d))%R) ->
  (forall a b : R, fadd 0%R (fmul a b) = fmul a b) ->
  forall (m lu perm : matrix (ARm fadd fsub fmul fdiv)) (piv : nat) (b x : list R),
  Proofs.Matrix.wf m -> (INR (3 * rows m) * u < 1)%R ->
  lu_decomp m = Ok (lu, piv, perm) ->
  (forall k, (k < rows m)%nat -> rentry fadd fsub fmul fdiv lu k k <> 0%R) ->
  solve_lu m b = Ok x ->
  length x = rows m /\
  exists tau : nat -> nat,
    (forall r, (r < rows m)%nat -> (tau r < rows m)%nat) /\
    (forall r r', (r < rows m)%nat -> (r' < rows m)%nat -> tau r = tau r' -> r = r') /\
    exists (dA : nat -> nat -> R) (db : nat -> R),
      (forall i c, (i < rows m)%nat -> (c < rows m)%nat ->
         (Rabs (dA i c) <= gam u (3 * rows m)
                           * Rsum (rows m) (fun k => Rabs (tril1 fadd fsub fmul fdiv lu i k)
                                                     * Rabs (triu fadd fsub fmul fdiv lu k c)))%R) /\
      (forall i, (i < rows m)%nat -> (Rabs (db i) <= gam u (rows m) * Rabs (nth (tau i) b 0))%R) /\
      (forall i, (i < rows m)%nat ->
         Rsum (rows m) (fun c => ((rentry fadd fsub fmul fdiv m (tau i) c + dA i c) * nth c x 0)%R)
         = (nth (tau i) b 0 + db i)%R).
Proof. intros u Hu fadd fsub fmul fdiv Ha Hs Hm Hd H0 m lu perm piv b x. exact (solve_lu_backward_error_gam3n_lemma u Hu fadd fsub fmul fdiv Ha Hs Hm Hd H0 m lu perm piv b x). Qed.
Check solve_lu_backward_error_gam3n : forall (u : R), (0 <= u < 1)%R ->
  forall (fadd fsub fmul fdiv : R -> R -> R),
  (forall x y : R, exists d : R, (Rabs d <= u)%R /\ fadd x y = ((x + y) * (1 + d))%R) ->
  (forall x y : R, exists d : R, (Rabs d <= u)%R /\ fsub x y = ((x - y) * (1 + d))%R) ->
  (forall x y : R, exists d : R, (Rabs d <= u)%R /\ fmul x y = (x * y * (1 + d))%R) ->
  (forall x y : R, y <> 0%R -> exists d : R, (Rabs d <= u)%R /\ fdiv x y = (x / y * (1 + d))%R) ->
  (forall a b : R, fadd 0%R (fmul a b) = fmul a b) ->
  forall (m lu perm : matrix (ARm fadd fsub fmul fdiv)) (piv : nat) (b x : list R),
  Proofs.Matrix.wf m -> (INR (3 * rows m) * u < 1)%R ->
  lu_decomp m = Ok (lu, piv, perm) ->
  (forall k, (k < rows m)%nat -> rentry fadd fsub fmul fdiv lu k k <> 0%R) ->
  solve_lu m b = Ok x ->
  length x = rows m /\
  exists tau : nat -> nat,
    (forall r, (r < rows m)%nat -> (tau r < rows m)%nat) /\
    (forall r r', (r < rows m)%nat -> (r' < rows m)%nat -> tau r = tau r' -> r = r') /\
    exists (dA : nat -> nat -> R) (db : nat -> R),
      (forall i c, (i < rows m)%nat -> (c < rows m)%nat ->
         (Rabs (dA i c) <= gam u (3 * rows m)
                           * Rsum (rows m) (fun k => Rabs (tril1 fadd fsub fmul fdiv lu i k)
                                                     * Rabs (triu fadd fsub fmul fdiv lu k c)))%R) /\
      (forall i, (i < rows m)%nat -> (Rabs (db i) <= gam u (rows m) * Rabs (nth (tau i) b 0))%R) /\
      (forall i, (i < rows m)%nat ->
         Rsum (rows m) (fun c => ((rentry fadd fsub fmul fdiv m (tau i) c + dA i c) * nth c x 0)%R)
         = (nth (tau i) b 0 + db i)%R).
Print Assumptions solve_lu_backward_error_gam3n.
Example solve_lu_backward_error_gam3n_nonvacuous :   (* the instance of solve_lu_backward_error_nonvacuous; 6 u < 1 *)
  (0 <= ux < 1)%R /\ Proofs.Matrix.wf ex_m2 /\ (INR (3 * rows ex_m2) * ux < 1)%R /\
  lu_decomp ex_m2 = Ok (ex_lu2, 0%nat, ex_id2) /\
  (forall k, (k < rows ex_m2)%nat -> rentry xadd xsub xmul xdiv ex_lu2 k k <> 0%R) /\
  exists x, solve_lu ex_m2 ex_b2 = Ok x.
Proof.
  split; [exact ux_range|]. split; [reflexivity|]. split; [cbn; pose proof ux_small; lra|].
  split; [exact ex_lu_decomp|]. split; [exact ex_lu2_diag|exact ex_solve_lu].
Qed.

(* ---- solve_basic as a whole (Higham Theorem 9.4 for elimination on the augmented system), standard model ----
   (A + dA) x^ = b EXACTLY in b; L^ = the multipliers the elimination used (not stored by the code, hence existential;
   |l_ik| <= 1 + u by partial pivoting), U^ = the computed echelon form; g = gam (n+1).  The first alternative of the conclusion is the run in which a pivot
   search met an all-zero column ([BadRun]: a prefix of the run and the zero column are exhibited). *)
From OV Require Import Proofs.RoundGaussTrace Proofs.RoundSolveBasic Proofs.RoundExamples3.

Theorem solve_basic_backward_error : forall (u : R), (0 <= u < 1)%R ->
  forall (fadd fsub fmul fdiv : R -> R -> R),
  (forall x y : R, exists d : R, (Rabs d <= u)%R /\ fsub x y = ((x - y) * (1 + d))%R) ->
  (forall x y : R, exists d : R, (Rabs d <= u)%R /\ fmul x y = (x * y * (1 + d))%R) ->
  (forall x y : R, y <> 0%R -> exists d : R, (Rabs d <= u)%R /\ fdiv x y = (x / y * (1 + d))%R) ->
  forall (m m' : matrix (ARm fadd fsub fmul fdiv)) (b b' x : list R),
  Proofs.Matrix.wf m -> (INR (S (rows m)) * u < 1)%R ->
  gauss_with_pivot m b = Ok (m', b') ->
  (forall k, (k < rows m)%nat -> rentry fadd fsub fmul fdiv m' k k <> 0%R) ->
  solve_basic m b = Ok x ->
  length x = rows m /\
  (BadRun fadd fsub fmul fdiv m b (rows m) (rows m - 1) \/
   exists (tau : nat -> nat) (L : nat -> nat -> R),
     (forall r, (r < rows m)%nat -> (tau r < rows m)%nat) /\
     (forall r r', (r < rows m)%nat -> (r' < rows m)%nat -> tau r = tau r' -> r = r') /\
     (forall i, L i i = 1%R) /\ (forall i k, (i < k)%nat -> L i k = 0%R) /\
     (forall i k, (k < i)%nat -> (i < rows m)%nat -> (Rabs (L i k) <= 1 + u)%R) /\
     exists dA : nat -> nat -> R,
       (forall i c, (i < rows m)%nat -> (c < rows m)%nat ->
          (Rabs (dA i c) <= (3 * gam u (S (rows m)) + gam u (S (rows m)) * gam u (S (rows m)))
                            * Rsum (rows m) (fun k => Rabs (L i k) * Rabs (triu fadd fsub fmul fdiv m' k c)))%R) /\
       (forall i, (i < rows m)%nat ->
          Rsum (rows m) (fun c => ((rentry fadd fsub fmul fdiv m (tau i) c + dA i c) * nth c x 0)%R)
          = nth (tau i) b 0%R)).
Proof. intros u Hu fadd fsub fmul fdiv Hs Hm Hd m m' b b' x. exact (solve_basic_backward_error_lemma u Hu fadd fsub fmul fdiv Hs Hm Hd m m' b b' x). Qed.
Check solve_basic_backward_error : forall (u : R), (0 <= u < 1)%R ->
  forall (fadd fsub fmul fdiv : R -> R -> R),
  (forall x y : R, exists d : R, (Rabs d <= u)%R /\ fsub x y = ((x - y) * (1 + d))%R) ->
  (forall x y : R, exists d : R, (Rabs d <= u)%R /\ fmul x y = (x * y * (1 + d))%R) ->
  (forall x y : R, y <> 0%R -> exists d : R, (Rabs d <= u)%R /\ fdiv x y = (x / y * (1 + d))%R) ->
  forall (m m' : matrix (ARm fadd fsub fmul fdiv)) (b b' x : list R),
  Proofs.Matrix.wf m -> (INR (S (rows m)) * u < 1)%R ->
  gauss_with_pivot m b = Ok (m', b') ->
  (forall k, (k < rows m)%nat -> rentry fadd fsub fmul fdiv m' k k <> 0%R) ->
  solve_basic m b = Ok x ->
  length x = rows m /\
  (BadRun fadd fsub fmul fdiv m b (rows m) (rows m - 1) \/
   exists (tau : nat -> nat) (L : nat -> nat -> R),
     (forall r, (r < rows m)%nat -> (tau r < rows m)%nat) /\
     (forall r r', (r < rows m)%nat -> (r' < rows m)%nat -> tau r = tau r' -> r = r') /\
     (forall i, L i i = 1%R) /\ (forall i k, (i < k)%nat -> L i k = 0%R) /\
     (forall i k, (k < i)%nat -> (i < rows m)%nat -> (Rabs (L i k) <= 1 + u)%R) /\
     exists dA : nat -> nat -> R,
       (forall i c, (i < rows m)%nat -> (c < rows m)%nat ->
          (Rabs (dA i c) <= (3 * gam u (S (rows m)) + gam u (S (rows m)) * gam u (S (rows m)))
                            * Rsum (rows m) (fun k => Rabs (L i k) * Rabs (triu fadd fsub fmul fdiv m' k c)))%R) /\
       (forall i, (i < rows m)%nat ->
          Rsum (rows m) (fun c => ((rentry fadd fsub fmul fdiv m (tau i) c + dA i c) * nth c x 0)%R)
          = nth (tau i) b 0%R)).
Print Assumptions solve_basic_backward_error.
(* [[2,1],[0,3]] x = [1,1] in the arithmetic that rounds every operation: the run is not the excluded one *)
Example solve_basic_backward_error_nonvacuous :
  (0 <= ux < 1)%R /\ Proofs.Matrix.wf ex_m2 /\ (INR (S (rows ex_m2)) * ux < 1)%R /\
  gauss_with_pivot ex_m2 ex_b2 = Ok (ex_g2, ex_gb2) /\
  (forall k, (k < rows ex_m2)%nat -> rentry xadd xsub xmul xdiv ex_g2 k k <> 0%R) /\
  (exists x, solve_basic ex_m2 ex_b2 = Ok x) /\
  ~ BadRun xadd xsub xmul xdiv ex_m2 ex_b2 (rows ex_m2) (rows ex_m2 - 1).
Proof.
  split; [exact ux_range|]. split; [reflexivity|]. split; [exact ex_size3|]. split; [exact ex_gauss|].
  split; [exact ex_g2_diag|]. split; [exact ex_solve_basic|exact ex_no_badrun].
Qed.

(* ---- partial pivoting keeps the computed multipliers small: |l_ik| <= 1 + u, hence (|L^||U^|)_ic <= (1+u) Sum_k |u_kc| ----
   (needs the standard-model hypothesis for the division only; the pivot search compares exactly).  With it the bound of
   solve_lu_backward_error reads in terms of U^ alone; how large U^ is compared with A is the growth factor: not estimated. *)
From OV Require Import Proofs.RoundLUMult.

Theorem lu_multipliers_bounded : forall (u : R), (0 <= u < 1)%R ->
  forall (fadd fsub fmul fdiv : R -> R -> R),
  (forall x y : R, y <> 0%R -> exists d : R, (Rabs d <= u)%R /\ fdiv x y = (x / y * (1 + d))%R) ->
  forall (m lu perm : matrix (ARm fadd fsub fmul fdiv)) (piv : nat),
  Proofs.Matrix.wf m -> lu_decomp m = Ok (lu, piv, perm) ->
  (forall k, (k < rows m)%nat -> rentry fadd fsub fmul fdiv lu k k <> 0%R) ->
  (forall i k, (k < i)%nat -> (i < rows m)%nat -> (Rabs (rentry fadd fsub fmul fdiv lu i k) <= 1 + u)%R) /\
  (forall i c, (i < rows m)%nat -> (c < rows m)%nat ->
     (Rsum (rows m) (fun k => Rabs (tril1 fadd fsub fmul fdiv lu i k) * Rabs (triu fadd fsub fmul fdiv lu k c))
      <= (1 + u) * Rsum (rows m) (fun k => Rabs (triu fadd fsub fmul fdiv lu k c)))%R).
Proof.
  intros u Hu fadd fsub fmul fdiv Hd m lu perm piv W E Dg. split.
  - exact (lu_multipliers_bounded_lemma u Hu fadd fsub fmul fdiv Hd m lu perm piv W E Dg).
  - exact (lu_abs_product_bound_lemma u Hu fadd fsub fmul fdiv Hd m lu perm piv W E Dg).
Qed.
Check lu_multipliers_bounded : forall (u : R), (0 <= u < 1)%R ->
  forall (fadd fsub fmul fdiv : R -> R -> R),
  (forall x y : R, y <> 0%R -> exists d : R, (Rabs d <= u)%R /\ fdiv x y = (x / y * (1 + d))%R) ->
  forall (m lu perm : matrix (ARm fadd fsub fmul fdiv)) (piv : nat),
  Proofs.Matrix.wf m -> lu_decomp m = Ok (lu, piv, perm) ->
  (forall k, (k < rows m)%nat -> rentry fadd fsub fmul fdiv lu k k <> 0%R) ->
  (forall i k, (k < i)%nat -> (i < rows m)%nat -> (Rabs (rentry fadd fsub fmul fdiv lu i k) <= 1 + u)%R) /\
  (forall i c, (i < rows m)%nat -> (c < rows m)%nat ->
     (Rsum (rows m) (fun k => Rabs (tril1 fadd fsub fmul fdiv lu i k) * Rabs (triu fadd fsub fmul fdiv lu k c))
      <= (1 + u) * Rsum (rows m) (fun k => Rabs (triu fadd fsub fmul fdiv lu k c)))%R).
Print Assumptions lu_multipliers_bounded.
Example lu_multipliers_bounded_nonvacuous :   (* the factors of [[2,1],[0,3]] in the rounding arithmetic; row 1 has a multiplier *)
  (0 <= ux < 1)%R /\
  (forall x y : R, y <> 0%R -> exists d : R, (Rabs d <= ux)%R /\ xdiv x y = (x / y * (1 + d))%R) /\
  Proofs.Matrix.wf ex_m2 /\ lu_decomp ex_m2 = Ok (ex_lu2, 0%nat, ex_id2) /\
  (forall k, (k < rows ex_m2)%nat -> rentry xadd xsub xmul xdiv ex_lu2 k k <> 0%R) /\ (0 < 1 < rows ex_m2)%nat.
Proof.
  split; [exact ux_range|]. split; [exact xdiv_ok|]. split; [reflexivity|]. split; [exact ex_lu_decomp|].
  split; [exact ex_lu2_diag|cbn; lia].
Qed.

(* ---------- Props/pending/C02_round.v.txt ---------- *)
(* ======================================================================================================
   C02 (determinant and inverse), rounding half -- package round.  Append to Props/C02.v.
   The determinant "to rounding accuracy", in the STANDARD MODEL of floating-point arithmetic (the same Gallina
   [determinant] of Model/Solve.v at ARm): the computed determinant is +- the exact product of the diagonal of the
   COMPUTED factor, up to n roundings: relative error gam n = n u / (1 - n u), every size with n u < 1.
   The inverse: column-wise backward error of its two in-place triangular sweeps (second block below).
   NOT covered: the factorisation (how far the computed factors are from exact factors of the input: growth factor of
   Gaussian elimination with partial pivoting) -- hence nothing about X A - I or det(A) itself -- and the standard
   model itself for IEEE binary64.
   ====================================================================================================== *)
From Coq Require Import Reals Lra Lia.
From OV Require Import Base.RoundModel Proofs.Matrix Proofs.RoundMatvec Proofs.RoundDet Proofs.RoundFlx Proofs.RoundExamples.

Theorem determinant_product_error : forall (u : R), (0 <= u < 1)%R ->
  forall (fadd fsub fmul fdiv : R -> R -> R),
  (forall x y : R, exists d : R, (Rabs d <= u)%R /\ fmul x y = (x * y * (1 + d))%R) ->
  forall (m lu perm : Model.Matrix.matrix (ARm fadd fsub fmul fdiv)) (piv : nat) (d : R),
  Proofs.Matrix.wf m -> (INR (Model.Matrix.rows m) * u < 1)%R ->
  Model.Solve.lu_decomp m = Base.Panic.Ok (lu, piv, perm) -> Model.Solve.determinant m = Base.Panic.Ok d ->
  exists th : R, (Rabs th <= gam u (Model.Matrix.rows m))%R /\
    d = ((if Nat.even piv then 1 else -1) * Rprod (Model.Matrix.rows m) (fun i => rentry fadd fsub fmul fdiv lu i i) * (1 + th))%R.
Proof. intros u Hu fadd fsub fmul fdiv Hm m lu perm piv d. exact (determinant_product_error_lemma u Hu fadd fsub fmul fdiv Hm m lu perm piv d). Qed.
Check determinant_product_error : forall (u : R), (0 <= u < 1)%R ->
  forall (fadd fsub fmul fdiv : R -> R -> R),
  (forall x y : R, exists d : R, (Rabs d <= u)%R /\ fmul x y = (x * y * (1 + d))%R) ->
  forall (m lu perm : Model.Matrix.matrix (ARm fadd fsub fmul fdiv)) (piv : nat) (d : R),
  Proofs.Matrix.wf m -> (INR (Model.Matrix.rows m) * u < 1)%R ->
  Model.Solve.lu_decomp m = Base.Panic.Ok (lu, piv, perm) -> Model.Solve.determinant m = Base.Panic.Ok d ->
  exists th : R, (Rabs th <= gam u (Model.Matrix.rows m))%R /\
    d = ((if Nat.even piv then 1 else -1) * Rprod (Model.Matrix.rows m) (fun i => rentry fadd fsub fmul fdiv lu i i) * (1 + th))%R.
Print Assumptions determinant_product_error.
(* [[2,1],[0,3]] in the arithmetic that rounds every operation to 53 bits: lu_decomp returns ex_lu2, determinant answers *)
Example determinant_product_error_nonvacuous :
  (0 <= ux < 1)%R /\
  (forall x y : R, exists d : R, (Rabs d <= ux)%R /\ xmul x y = (x * y * (1 + d))%R) /\
  Proofs.Matrix.wf ex_m2 /\ (INR (Model.Matrix.rows ex_m2) * ux < 1)%R /\
  Model.Solve.lu_decomp ex_m2 = Base.Panic.Ok (ex_lu2, 0%nat, ex_id2) /\ exists d, Model.Solve.determinant ex_m2 = Base.Panic.Ok d.
Proof.
  split; [exact ux_range|]. split; [exact xmul_ok|]. split; [reflexivity|]. split; [exact ex_size2|].
  split; [exact ex_lu_decomp|exact ex_determinant].
Qed.

(* ---- the inverse: column-wise backward error of its two triangular sweeps, standard model ----
   Every column x_j of the computed inverse satisfies (L + dL_j) y_j = P e_j, (U + dU_j) x_j = y_j with the COMPUTED
   factors L (unit lower), U (upper) of lu_decomp and |dL_j| <= gam n |L|, |dU_j| <= gam n |U| (Proofs/RoundInverse.v:
   the in-place sweeps have the closed form of forward/back substitution over ANY arithmetic, [inverse_trace]).
   (Names are fully qualified: this file has mathcomp's matrix/nth/< in scope.) *)
From OV Require Import Proofs.RoundBacksolve Proofs.RoundInverse Proofs.RoundExamples2.

Theorem inverse_columns_backward_error : forall (u : R), (0 <= u < 1)%R ->
  forall (fadd fsub fmul fdiv : R -> R -> R),
  (forall x y : R, exists d : R, (Rabs d <= u)%R /\ fsub x y = ((x - y) * (1 + d))%R) ->
  (forall x y : R, exists d : R, (Rabs d <= u)%R /\ fmul x y = (x * y * (1 + d))%R) ->
  (forall x y : R, y <> 0%R -> exists d : R, (Rabs d <= u)%R /\ fdiv x y = (x / y * (1 + d))%R) ->
  forall (m lu perm inv : Model.Matrix.matrix (ARm fadd fsub fmul fdiv)) (piv : nat),
  Proofs.Matrix.wf m -> (INR (Model.Matrix.rows m) * u < 1)%R ->
  Model.Solve.lu_decomp m = Base.Panic.Ok (lu, piv, perm) ->
  (forall k, Peano.lt k (Model.Matrix.rows m) -> rentry fadd fsub fmul fdiv lu k k <> 0%R) ->
  Model.Solve.inverse m = Base.Panic.Ok inv ->
  Proofs.Matrix.wf inv /\ Model.Matrix.rows inv = Model.Matrix.rows m /\ Model.Matrix.cols inv = Model.Matrix.rows m /\
  forall j, Peano.lt j (Model.Matrix.rows m) ->
    exists (y : list R) (dL dU : nat -> nat -> R),
      List.length y = Model.Matrix.rows m /\
      (forall i k, Peano.lt i (Model.Matrix.rows m) -> Peano.lt k (Model.Matrix.rows m) ->
         (Rabs (dL i k) <= gam u (Model.Matrix.rows m) * Rabs (tril1 fadd fsub fmul fdiv lu i k))%R) /\
      (forall i k, Peano.lt i (Model.Matrix.rows m) -> Peano.lt k (Model.Matrix.rows m) ->
         (Rabs (dU i k) <= gam u (Model.Matrix.rows m) * Rabs (triu fadd fsub fmul fdiv lu i k))%R) /\
      (forall i, Peano.lt i (Model.Matrix.rows m) ->
         Rsum (Model.Matrix.rows m) (fun k => ((tril1 fadd fsub fmul fdiv lu i k + dL i k) * List.nth k y 0)%R)
         = rentry fadd fsub fmul fdiv perm i j) /\
      (forall i, Peano.lt i (Model.Matrix.rows m) ->
         Rsum (Model.Matrix.rows m) (fun k => ((triu fadd fsub fmul fdiv lu i k + dU i k) * rentry fadd fsub fmul fdiv inv k j)%R)
         = List.nth i y 0%R).
Proof. intros u Hu fadd fsub fmul fdiv Hs Hm Hd m lu perm inv piv. exact (inverse_columns_backward_error_lemma u Hu fadd fsub fmul fdiv Hs Hm Hd m lu perm inv piv). Qed.
Check inverse_columns_backward_error : forall (u : R), (0 <= u < 1)%R ->
  forall (fadd fsub fmul fdiv : R -> R -> R),
  (forall x y : R, exists d : R, (Rabs d <= u)%R /\ fsub x y = ((x - y) * (1 + d))%R) ->
  (forall x y : R, exists d : R, (Rabs d <= u)%R /\ fmul x y = (x * y * (1 + d))%R) ->
  (forall x y : R, y <> 0%R -> exists d : R, (Rabs d <= u)%R /\ fdiv x y = (x / y * (1 + d))%R) ->
  forall (m lu perm inv : Model.Matrix.matrix (ARm fadd fsub fmul fdiv)) (piv : nat),
  Proofs.Matrix.wf m -> (INR (Model.Matrix.rows m) * u < 1)%R ->
  Model.Solve.lu_decomp m = Base.Panic.Ok (lu, piv, perm) ->
  (forall k, Peano.lt k (Model.Matrix.rows m) -> rentry fadd fsub fmul fdiv lu k k <> 0%R) ->
  Model.Solve.inverse m = Base.Panic.Ok inv ->
  Proofs.Matrix.wf inv /\ Model.Matrix.rows inv = Model.Matrix.rows m /\ Model.Matrix.cols inv = Model.Matrix.rows m /\
  forall j, Peano.lt j (Model.Matrix.rows m) ->
    exists (y : list R) (dL dU : nat -> nat -> R),
      List.length y = Model.Matrix.rows m /\
      (forall i k, Peano.lt i (Model.Matrix.rows m) -> Peano.lt k (Model.Matrix.rows m) ->
         (Rabs (dL i k) <= gam u (Model.Matrix.rows m) * Rabs (tril1 fadd fsub fmul fdiv lu i k))%R) /\
      (forall i k, Peano.lt i (Model.Matrix.rows m) -> Peano.lt k (Model.Matrix.rows m) ->
         (Rabs (dU i k) <= gam u (Model.Matrix.rows m) * Rabs (triu fadd fsub fmul fdiv lu i k))%R) /\
      (forall i, Peano.lt i (Model.Matrix.rows m) ->
         Rsum (Model.Matrix.rows m) (fun k => ((tril1 fadd fsub fmul fdiv lu i k + dL i k) * List.nth k y 0)%R)
         = rentry fadd fsub fmul fdiv perm i j) /\
      (forall i, Peano.lt i (Model.Matrix.rows m) ->
         Rsum (Model.Matrix.rows m) (fun k => ((triu fadd fsub fmul fdiv lu i k + dU i k) * rentry fadd fsub fmul fdiv inv k j)%R)
         = List.nth i y 0%R).
Print Assumptions inverse_columns_backward_error.
(* [[2,1],[0,3]] in the arithmetic that rounds every operation to 53 bits: the factors have a nonzero diagonal, inverse answers *)
Example inverse_columns_backward_error_nonvacuous :
  (0 <= ux < 1)%R /\ Proofs.Matrix.wf ex_m2 /\ (INR (Model.Matrix.rows ex_m2) * ux < 1)%R /\
  Model.Solve.lu_decomp ex_m2 = Base.Panic.Ok (ex_lu2, 0%nat, ex_id2) /\
  (forall k, Peano.lt k (Model.Matrix.rows ex_m2) -> rentry xadd xsub xmul xdiv ex_lu2 k k <> 0%R) /\
  exists inv, Model.Solve.inverse ex_m2 = Base.Panic.Ok inv.
Proof.
  split; [exact ux_range|]. split; [reflexivity|]. split; [exact ex_size2|]. split; [exact ex_lu_decomp|].
  split; [exact ex_lu2_diag|exact ex_inverse].
Qed.

(* ---- the inverse as a whole: every column is the exact column of the inverse of a nearby matrix ----
   (A + dA_j) x_j = e_j with |dA_j| <= (3 gam n + gam n^2) P^T |L^||U^| (Higham sec. 14.1): Thm 9.3 for the factorisation
   (Proofs/RoundLUError.v) combined with the column sweeps above.  In terms of the COMPUTED |L^||U^|: the comparison with
   |A| (growth factor) is not made, and since dA_j depends on the column nothing is claimed about X A - I. *)
From OV Require Import Proofs.RoundInverseLU.

Theorem inverse_backward_error : forall (u : R), (0 <= u < 1)%R ->
  forall (fadd fsub fmul fdiv : R -> R -> R),
  (forall x y : R, exists d : R, (Rabs d <= u)%R /\ fsub x y = ((x - y) * (1 + d))%R) ->
  (forall x y : R, exists d : R, (Rabs d <= u)%R /\ fmul x y = (x * y * (1 + d))%R) ->
  (forall x y : R, y <> 0%R -> exists d : R, (Rabs d <= u)%R /\ fdiv x y = (x / y * (1 + d))%R) ->
  forall (m lu perm inv : Model.Matrix.matrix (ARm fadd fsub fmul fdiv)) (piv : nat),
  Proofs.Matrix.wf m -> (INR (Model.Matrix.rows m) * u < 1)%R ->
  Model.Solve.lu_decomp m = Base.Panic.Ok (lu, piv, perm) ->
  (forall k, Peano.lt k (Model.Matrix.rows m) -> rentry fadd fsub fmul fdiv lu k k <> 0%R) ->
  Model.Solve.inverse m = Base.Panic.Ok inv ->
  Proofs.Matrix.wf inv /\ Model.Matrix.rows inv = Model.Matrix.rows m /\ Model.Matrix.cols inv = Model.Matrix.rows m /\
  exists tau : nat -> nat,
    (forall r, Peano.lt r (Model.Matrix.rows m) -> Peano.lt (tau r) (Model.Matrix.rows m)) /\
    (forall r r', Peano.lt r (Model.Matrix.rows m) -> Peano.lt r' (Model.Matrix.rows m) -> tau r = tau r' -> r = r') /\
    forall j, Peano.lt j (Model.Matrix.rows m) ->
      exists dA : nat -> nat -> R,
        (forall i c, Peano.lt i (Model.Matrix.rows m) -> Peano.lt c (Model.Matrix.rows m) ->
           (Rabs (dA i c) <= (3 * gam u (Model.Matrix.rows m) + gam u (Model.Matrix.rows m) * gam u (Model.Matrix.rows m))
                             * Rsum (Model.Matrix.rows m)
                                 (fun k => Rabs (tril1 fadd fsub fmul fdiv lu i k) * Rabs (triu fadd fsub fmul fdiv lu k c)))%R) /\
        forall i, Peano.lt i (Model.Matrix.rows m) ->
          Rsum (Model.Matrix.rows m)
            (fun c => ((rentry fadd fsub fmul fdiv m (tau i) c + dA i c) * rentry fadd fsub fmul fdiv inv c j)%R)
          = if Nat.eqb j (tau i) then 1%R else 0%R.
Proof. intros u Hu fadd fsub fmul fdiv Hs Hm Hd m lu perm inv piv. exact (inverse_backward_error_lemma u Hu fadd fsub fmul fdiv Hs Hm Hd m lu perm inv piv). Qed.
Check inverse_backward_error : forall (u : R), (0 <= u < 1)%R ->
  forall (fadd fsub fmul fdiv : R -> R -> R),
  (forall x y : R, exists d : R, (Rabs d <= u)%R /\ fsub x y = ((x - y) * (1 + d))%R) ->
  (forall x y : R, exists d : R, (Rabs d <= u)%R /\ fmul x y = (x * y * (1 + d))%R) ->
  (forall x y : R, y <> 0%R -> exists d : R, (Rabs d <= u)%R /\ fdiv x y = (x / y * (1 + d))%R) ->
  forall (m lu perm inv : Model.Matrix.matrix (ARm fadd fsub fmul fdiv)) (piv : nat),
  Proofs.Matrix.wf m -> (INR (Model.Matrix.rows m) * u < 1)%R ->
  Model.Solve.lu_decomp m = Base.Panic.Ok (lu, piv, perm) ->
  (forall k, Peano.lt k (Model.Matrix.rows m) -> rentry fadd fsub fmul fdiv lu k k <> 0%R) ->
  Model.Solve.inverse m = Base.Panic.Ok inv ->
  Proofs.Matrix.wf inv /\ Model.Matrix.rows inv = Model.Matrix.rows m /\ Model.Matrix.cols inv = Model.Matrix.rows m /\
  exists tau : nat -> nat,
    (forall r, Peano.lt r (Model.Matrix.rows m) -> Peano.lt (tau r) (Model.Matrix.rows m)) /\
    (forall r r', Peano.lt r (Model.Matrix.rows m) -> Peano.lt r' (Model.Matrix.rows m) -> tau r = tau r' -> r = r') /\
    forall j, Peano.lt j (Model.Matrix.rows m) ->
      exists dA : nat -> nat -> R,
        (forall i c, Peano.lt i (Model.Matrix.rows m) -> Peano.lt c (Model.Matrix.rows m) ->
           (Rabs (dA i c) <= (3 * gam u (Model.Matrix.rows m) + gam u (Model.Matrix.rows m) * gam u (Model.Matrix.rows m))
                             * Rsum (Model.Matrix.rows m)
                                 (fun k => Rabs (tril1 fadd fsub fmul fdiv lu i k) * Rabs (triu fadd fsub fmul fdiv lu k c)))%R) /\
        forall i, Peano.lt i (Model.Matrix.rows m) ->
          Rsum (Model.Matrix.rows m)
            (fun c => ((rentry fadd fsub fmul fdiv m (tau i) c + dA i c) * rentry fadd fsub fmul fdiv inv c j)%R)
          = if Nat.eqb j (tau i) then 1%R else 0%R.
Print Assumptions inverse_backward_error.
Example inverse_backward_error_nonvacuous :   (* same instance as inverse_columns_backward_error_nonvacuous *)
  (0 <= ux < 1)%R /\ Proofs.Matrix.wf ex_m2 /\ (INR (Model.Matrix.rows ex_m2) * ux < 1)%R /\
  Model.Solve.lu_decomp ex_m2 = Base.Panic.Ok (ex_lu2, 0%nat, ex_id2) /\
  (forall k, Peano.lt k (Model.Matrix.rows ex_m2) -> rentry xadd xsub xmul xdiv ex_lu2 k k <> 0%R) /\
  exists inv, Model.Solve.inverse ex_m2 = Base.Panic.Ok inv.
Proof.
  split; [exact ux_range|]. split; [reflexivity|]. split; [exact ex_size2|]. split; [exact ex_lu_decomp|].
  split; [exact ex_lu2_diag|exact ex_inverse].
Qed.

(* ---------- Props/pending/C03_round.v.txt ---------- *)
(* ======================================================================================================
   C03 (dense matrix algebra), rounding half -- package round.  Append to Props/C03.v.
   Matrix * vector "to rounding accuracy": fl(A x) = (A + dA) x with |dA| <= gam n |A| componentwise, n = cols A,
   for Model/Matrix.v [multiply]
   (a) in the STANDARD MODEL of floating-point arithmetic (the same Gallina [multiply] at ARm), every shape with n u < 1;
   (b) for the PRIMITIVE-FLOAT instance itself ([multiply] at AF, IEEE binary64) through Flocq, row by row: for every
       finite component of the result whose products do not underflow.
   and the same for the matrix-matrix product [mat_mul] (column j of fl(A B) is (A + dA_j) b_j; Higham (3.13)).
   Unproved remainder: (a) assumes the standard model (discharged for 53-bit round-to-nearest-even with unbounded
   exponent in Proofs/RoundFlx.v); (b) is silent on subnormal products and overflow.
   ====================================================================================================== *)
From Coq Require Import Reals Floats Lra Lia.
From OV Require Import Base.RoundModel Proofs.Matrix Proofs.RoundDot Proofs.RoundMatvec Proofs.RoundFlx Proofs.ComplexRound
  Proofs.RoundDotFloat Inst.FloatInst.

Theorem matvec_backward_error : forall (u : R), (0 <= u < 1)%R ->
  forall (fadd fsub fmul fdiv : R -> R -> R),
  (forall x y : R, exists d : R, (Rabs d <= u)%R /\ fadd x y = ((x + y) * (1 + d))%R) ->
  (forall x y : R, exists d : R, (Rabs d <= u)%R /\ fmul x y = (x * y * (1 + d))%R) ->
  (forall a b : R, fadd 0%R (fmul a b) = fmul a b) ->
  forall (m : matrix (ARm fadd fsub fmul fdiv)) (v w : list R),
  Proofs.Matrix.wf m -> (INR (cols m) * u < 1)%R -> multiply m v = Ok w ->
  length w = rows m /\
  exists dA : nat -> nat -> R,
    (forall i j, (i < rows m)%nat -> (j < cols m)%nat ->
       (Rabs (dA i j) <= gam u (cols m) * Rabs (rentry fadd fsub fmul fdiv m i j))%R) /\
    forall i, (i < rows m)%nat ->
      nth i w 0%R = Rsum (cols m) (fun j => ((rentry fadd fsub fmul fdiv m i j + dA i j) * nth j v 0)%R).
Proof. intros u Hu fadd fsub fmul fdiv Ha Hm H0 m v w. exact (matvec_backward_error_lemma u Hu fadd fsub fmul fdiv Ha Hm H0 m v w). Qed.
Check matvec_backward_error : forall (u : R), (0 <= u < 1)%R ->
  forall (fadd fsub fmul fdiv : R -> R -> R),
  (forall x y : R, exists d : R, (Rabs d <= u)%R /\ fadd x y = ((x + y) * (1 + d))%R) ->
  (forall x y : R, exists d : R, (Rabs d <= u)%R /\ fmul x y = (x * y * (1 + d))%R) ->
  (forall a b : R, fadd 0%R (fmul a b) = fmul a b) ->
  forall (m : matrix (ARm fadd fsub fmul fdiv)) (v w : list R),
  Proofs.Matrix.wf m -> (INR (cols m) * u < 1)%R -> multiply m v = Ok w ->
  length w = rows m /\
  exists dA : nat -> nat -> R,
    (forall i j, (i < rows m)%nat -> (j < cols m)%nat ->
       (Rabs (dA i j) <= gam u (cols m) * Rabs (rentry fadd fsub fmul fdiv m i j))%R) /\
    forall i, (i < rows m)%nat ->
      nth i w 0%R = Rsum (cols m) (fun j => ((rentry fadd fsub fmul fdiv m i j + dA i j) * nth j v 0)%R).
Print Assumptions matvec_backward_error.
(* [[1,2],[3,4]] * [5,6] in the arithmetic that rounds every operation to 53 bits *)
Example matvec_backward_error_nonvacuous :
  let m := @mkM AFlx [1%R; 2%R; 3%R; 4%R] 2 2 in
  (0 <= ux < 1)%R /\
  (forall x y : R, exists d : R, (Rabs d <= ux)%R /\ xadd x y = ((x + y) * (1 + d))%R) /\
  (forall x y : R, exists d : R, (Rabs d <= ux)%R /\ xmul x y = (x * y * (1 + d))%R) /\
  (forall a b : R, xadd 0%R (xmul a b) = xmul a b) /\
  Proofs.Matrix.wf m /\ (INR (cols m) * ux < 1)%R /\ exists w, multiply m [5%R; 6%R] = Ok w.
Proof.
  cbn zeta. split; [exact ux_range|]. split; [exact xadd_ok|]. split; [exact xmul_ok|]. split; [exact xadd_0_mul|].
  split; [reflexivity|]. split; [cbn [cols INR]; pose proof ux_small; lra|eexists; reflexivity].
Qed.

(* Higham (3.11): |fl(A x) - A x|_i <= gam n Sum_j |a_ij| |x_j| *)
Theorem matvec_forward_error : forall (u : R), (0 <= u < 1)%R ->
  forall (fadd fsub fmul fdiv : R -> R -> R),
  (forall x y : R, exists d : R, (Rabs d <= u)%R /\ fadd x y = ((x + y) * (1 + d))%R) ->
  (forall x y : R, exists d : R, (Rabs d <= u)%R /\ fmul x y = (x * y * (1 + d))%R) ->
  (forall a b : R, fadd 0%R (fmul a b) = fmul a b) ->
  forall (m : matrix (ARm fadd fsub fmul fdiv)) (v w : list R),
  Proofs.Matrix.wf m -> (INR (cols m) * u < 1)%R -> multiply m v = Ok w ->
  forall i, (i < rows m)%nat ->
    (Rabs (nth i w 0 - Rsum (cols m) (fun j => rentry fadd fsub fmul fdiv m i j * nth j v 0))
       <= gam u (cols m) * Rsum (cols m) (fun j => Rabs (rentry fadd fsub fmul fdiv m i j) * Rabs (nth j v 0)))%R.
Proof. intros u Hu fadd fsub fmul fdiv Ha Hm H0 m v w. exact (matvec_forward_error_lemma u Hu fadd fsub fmul fdiv Ha Hm H0 m v w). Qed.
Check matvec_forward_error : forall (u : R), (0 <= u < 1)%R ->
  forall (fadd fsub fmul fdiv : R -> R -> R),
  (forall x y : R, exists d : R, (Rabs d <= u)%R /\ fadd x y = ((x + y) * (1 + d))%R) ->
  (forall x y : R, exists d : R, (Rabs d <= u)%R /\ fmul x y = (x * y * (1 + d))%R) ->
  (forall a b : R, fadd 0%R (fmul a b) = fmul a b) ->
  forall (m : matrix (ARm fadd fsub fmul fdiv)) (v w : list R),
  Proofs.Matrix.wf m -> (INR (cols m) * u < 1)%R -> multiply m v = Ok w ->
  forall i, (i < rows m)%nat ->
    (Rabs (nth i w 0 - Rsum (cols m) (fun j => rentry fadd fsub fmul fdiv m i j * nth j v 0))
       <= gam u (cols m) * Rsum (cols m) (fun j => Rabs (rentry fadd fsub fmul fdiv m i j) * Rabs (nth j v 0)))%R.
Print Assumptions matvec_forward_error.
Example matvec_forward_error_nonvacuous :   (* same instance *)
  let m := @mkM AFlx [1%R; 2%R; 3%R; 4%R] 2 2 in
  (0 <= ux < 1)%R /\ Proofs.Matrix.wf m /\ (INR (cols m) * ux < 1)%R /\ (exists w, multiply m [5%R; 6%R] = Ok w) /\ (0 < rows m)%nat.
Proof.
  cbn zeta. split; [exact ux_range|]. split; [reflexivity|]. split; [cbn [cols INR]; pose proof ux_small; lra|].
  split; [eexists; reflexivity|cbn; lia].
Qed.

(* the primitive-float instance (IEEE binary64, u = 2^-53): fentry is the real value of a stored entry *)
Theorem matvec_backward_error_float : forall (m : matrix AF) (v w : list PrimFloat.float),
  Proofs.Matrix.wf m -> multiply (A := AF) m v = Ok w -> (INR (cols m) * u64 < 1)%R ->
  length w = rows m /\
  forall i, (i < rows m)%nat -> ffinite (nth i w 0%float) ->
    (forall j, (j < cols m)%nat -> no_underflow (fentry m i j * FR (nth j v 0%float))%R) ->
    exists d : nat -> R,
      (forall j, (j < cols m)%nat -> (Rabs (d j) <= g64 (cols m) * Rabs (fentry m i j))%R) /\
      FR (nth i w 0%float) = Rsum (cols m) (fun j => ((fentry m i j + d j) * FR (nth j v 0%float))%R).
Proof. exact matvec_backward_error_float_lemma. Qed.
Check matvec_backward_error_float : forall (m : matrix AF) (v w : list PrimFloat.float),
  Proofs.Matrix.wf m -> multiply (A := AF) m v = Ok w -> (INR (cols m) * u64 < 1)%R ->
  length w = rows m /\
  forall i, (i < rows m)%nat -> ffinite (nth i w 0%float) ->
    (forall j, (j < cols m)%nat -> no_underflow (fentry m i j * FR (nth j v 0%float))%R) ->
    exists d : nat -> R,
      (forall j, (j < cols m)%nat -> (Rabs (d j) <= g64 (cols m) * Rabs (fentry m i j))%R) /\
      FR (nth i w 0%float) = Rsum (cols m) (fun j => ((fentry m i j + d j) * FR (nth j v 0%float))%R).
Print Assumptions matvec_backward_error_float.
(* [[1.5,2],[3,4]] * [3,4]: finite result, products far from the underflow range *)
Example matvec_backward_error_float_nonvacuous :
  let m := @mkM AF [1.5%float; 2%float; 3%float; 4%float] 2 2 in let v := [3%float; 4%float] in
  Proofs.Matrix.wf m /\ (INR (cols m) * u64 < 1)%R /\
  exists w, multiply (A := AF) m v = Ok w /\ ffinite (nth 0 w 0%float) /\
    (forall j, (j < cols m)%nat -> no_underflow (fentry m 0 j * FR (nth j v 0%float))%R).
Proof.
  cbn zeta. split; [reflexivity|]. split; [cbn [cols INR]; pose proof u64_small; lra|].
  eexists. split; [reflexivity|]. split; [apply ffinite_SF; reflexivity|].
  assert (E15 : FR 1.5%float = 1.5%R) by fr_eval. assert (E2 : FR 2%float = 2%R) by fr_eval.
  assert (E3 : FR 3%float = 3%R) by fr_eval. assert (E4 : FR 4%float = 4%R) by fr_eval.
  intros [|[|j]] Hj; cbn in Hj; try lia; unfold fentry; cbn [nth buf cols Nat.mul Nat.add];
    rewrite ?E15, ?E2, ?E3, ?E4; apply no_underflow_ge1; rewrite Rabs_pos_eq; lra.
Qed.

(* ---- the matrix-matrix product ---- *)
From OV Require Import Proofs.RoundMatmul.

Theorem matmul_backward_error : forall (u : R), (0 <= u < 1)%R ->
  forall (fadd fsub fmul fdiv : R -> R -> R),
  (forall x y : R, exists d : R, (Rabs d <= u)%R /\ fadd x y = ((x + y) * (1 + d))%R) ->
  (forall x y : R, exists d : R, (Rabs d <= u)%R /\ fmul x y = (x * y * (1 + d))%R) ->
  (forall a b : R, fadd 0%R (fmul a b) = fmul a b) ->
  forall (a b c : matrix (ARm fadd fsub fmul fdiv)),
  Proofs.Matrix.wf a -> Proofs.Matrix.wf b -> (INR (cols a) * u < 1)%R -> mat_mul a b = Ok c ->
  Proofs.Matrix.wf c /\ rows c = rows a /\ cols c = cols b /\
  forall i j, (i < rows a)%nat -> (j < cols b)%nat ->
    exists d : nat -> R,
      (forall q, (q < cols a)%nat -> (Rabs (d q) <= gam u (cols a) * Rabs (rentry fadd fsub fmul fdiv a i q))%R) /\
      rentry fadd fsub fmul fdiv c i j
      = Rsum (cols a) (fun q => ((rentry fadd fsub fmul fdiv a i q + d q) * rentry fadd fsub fmul fdiv b q j)%R).
Proof. intros u Hu fadd fsub fmul fdiv Ha Hm H0 a b c. exact (matmul_backward_error_lemma u Hu fadd fsub fmul fdiv Ha Hm H0 a b c). Qed.
Check matmul_backward_error : forall (u : R), (0 <= u < 1)%R ->
  forall (fadd fsub fmul fdiv : R -> R -> R),
  (forall x y : R, exists d : R, (Rabs d <= u)%R /\ fadd x y = ((x + y) * (1 + d))%R) ->
  (forall x y : R, exists d : R, (Rabs d <= u)%R /\ fmul x y = (x * y * (1 + d))%R) ->
  (forall a b : R, fadd 0%R (fmul a b) = fmul a b) ->
  forall (a b c : matrix (ARm fadd fsub fmul fdiv)),
  Proofs.Matrix.wf a -> Proofs.Matrix.wf b -> (INR (cols a) * u < 1)%R -> mat_mul a b = Ok c ->
  Proofs.Matrix.wf c /\ rows c = rows a /\ cols c = cols b /\
  forall i j, (i < rows a)%nat -> (j < cols b)%nat ->
    exists d : nat -> R,
      (forall q, (q < cols a)%nat -> (Rabs (d q) <= gam u (cols a) * Rabs (rentry fadd fsub fmul fdiv a i q))%R) /\
      rentry fadd fsub fmul fdiv c i j
      = Rsum (cols a) (fun q => ((rentry fadd fsub fmul fdiv a i q + d q) * rentry fadd fsub fmul fdiv b q j)%R).
Print Assumptions matmul_backward_error.
(* [[1,2],[3,4]] * [[5,6],[7,8]] in the arithmetic that rounds every operation to 53 bits *)
Example matmul_backward_error_nonvacuous :
  let a := @mkM AFlx [1%R; 2%R; 3%R; 4%R] 2 2 in let b := @mkM AFlx [5%R; 6%R; 7%R; 8%R] 2 2 in
  (0 <= ux < 1)%R /\ Proofs.Matrix.wf a /\ Proofs.Matrix.wf b /\ (INR (cols a) * ux < 1)%R /\
  exists c, mat_mul a b = Ok c.
Proof.
  cbn zeta. split; [exact ux_range|]. split; [reflexivity|]. split; [reflexivity|].
  split; [cbn [cols INR]; pose proof ux_small; lra|eexists; reflexivity].
Qed.

Theorem matmul_forward_error : forall (u : R), (0 <= u < 1)%R ->
  forall (fadd fsub fmul fdiv : R -> R -> R),
  (forall x y : R, exists d : R, (Rabs d <= u)%R /\ fadd x y = ((x + y) * (1 + d))%R) ->
  (forall x y : R, exists d : R, (Rabs d <= u)%R /\ fmul x y = (x * y * (1 + d))%R) ->
  (forall a b : R, fadd 0%R (fmul a b) = fmul a b) ->
  forall (a b c : matrix (ARm fadd fsub fmul fdiv)),
  Proofs.Matrix.wf a -> Proofs.Matrix.wf b -> (INR (cols a) * u < 1)%R -> mat_mul a b = Ok c ->
  forall i j, (i < rows a)%nat -> (j < cols b)%nat ->
    (Rabs (rentry fadd fsub fmul fdiv c i j
           - Rsum (cols a) (fun q => rentry fadd fsub fmul fdiv a i q * rentry fadd fsub fmul fdiv b q j))
       <= gam u (cols a)
          * Rsum (cols a) (fun q => Rabs (rentry fadd fsub fmul fdiv a i q) * Rabs (rentry fadd fsub fmul fdiv b q j)))%R.
Proof. intros u Hu fadd fsub fmul fdiv Ha Hm H0 a b c. exact (matmul_forward_error_lemma u Hu fadd fsub fmul fdiv Ha Hm H0 a b c). Qed.
Check matmul_forward_error : forall (u : R), (0 <= u < 1)%R ->
  forall (fadd fsub fmul fdiv : R -> R -> R),
  (forall x y : R, exists d : R, (Rabs d <= u)%R /\ fadd x y = ((x + y) * (1 + d))%R) ->
  (forall x y : R, exists d : R, (Rabs d <= u)%R /\ fmul x y = (x * y * (1 + d))%R) ->
  (forall a b : R, fadd 0%R (fmul a b) = fmul a b) ->
  forall (a b c : matrix (ARm fadd fsub fmul fdiv)),
  Proofs.Matrix.wf a -> Proofs.Matrix.wf b -> (INR (cols a) * u < 1)%R -> mat_mul a b = Ok c ->
  forall i j, (i < rows a)%nat -> (j < cols b)%nat ->
    (Rabs (rentry fadd fsub fmul fdiv c i j
           - Rsum (cols a) (fun q => rentry fadd fsub fmul fdiv a i q * rentry fadd fsub fmul fdiv b q j))
       <= gam u (cols a)
          * Rsum (cols a) (fun q => Rabs (rentry fadd fsub fmul fdiv a i q) * Rabs (rentry fadd fsub fmul fdiv b q j)))%R.
Print Assumptions matmul_forward_error.
Example matmul_forward_error_nonvacuous :   (* same instance *)
  let a := @mkM AFlx [1%R; 2%R; 3%R; 4%R] 2 2 in let b := @mkM AFlx [5%R; 6%R; 7%R; 8%R] 2 2 in
  (0 <= ux < 1)%R /\ Proofs.Matrix.wf a /\ Proofs.Matrix.wf b /\ (INR (cols a) * ux < 1)%R /\
  (exists c, mat_mul a b = Ok c) /\ (0 < rows a)%nat /\ (0 < cols b)%nat.
Proof.
  cbn zeta. split; [exact ux_range|]. split; [reflexivity|]. split; [reflexivity|].
  split; [cbn [cols INR]; pose proof ux_small; lra|]. split; [eexists; reflexivity|cbn; lia].
Qed.

Theorem matmul_forward_error_float : forall (a b c : matrix AF),
  Proofs.Matrix.wf a -> Proofs.Matrix.wf b -> (INR (cols a) * u64 < 1)%R -> mat_mul (A := AF) a b = Ok c ->
  Proofs.Matrix.wf c /\ rows c = rows a /\ cols c = cols b /\
  forall i j, (i < rows a)%nat -> (j < cols b)%nat -> ffinite (entry c i j) ->
    (forall q, (q < cols a)%nat -> no_underflow (fentry a i q * fentry b q j)%R) ->
    (Rabs (fentry c i j - Rsum (cols a) (fun q => fentry a i q * fentry b q j))
       <= g64 (cols a) * Rsum (cols a) (fun q => Rabs (fentry a i q) * Rabs (fentry b q j)))%R.
Proof. exact matmul_forward_error_float_lemma. Qed.
Check matmul_forward_error_float : forall (a b c : matrix AF),
  Proofs.Matrix.wf a -> Proofs.Matrix.wf b -> (INR (cols a) * u64 < 1)%R -> mat_mul (A := AF) a b = Ok c ->
  Proofs.Matrix.wf c /\ rows c = rows a /\ cols c = cols b /\
  forall i j, (i < rows a)%nat -> (j < cols b)%nat -> ffinite (entry c i j) ->
    (forall q, (q < cols a)%nat -> no_underflow (fentry a i q * fentry b q j)%R) ->
    (Rabs (fentry c i j - Rsum (cols a) (fun q => fentry a i q * fentry b q j))
       <= g64 (cols a) * Rsum (cols a) (fun q => Rabs (fentry a i q) * Rabs (fentry b q j)))%R.
Print Assumptions matmul_forward_error_float.
(* [[1.5,2],[3,4]]^2 in binary64: entry (0,0) is finite and its products are far from the underflow range *)
Example matmul_forward_error_float_nonvacuous :
  let a := @mkM AF [1.5%float; 2%float; 3%float; 4%float] 2 2 in
  Proofs.Matrix.wf a /\ (INR (cols a) * u64 < 1)%R /\
  exists c, mat_mul (A := AF) a a = Ok c /\ ffinite (entry c 0 0) /\
    (forall q, (q < cols a)%nat -> no_underflow (fentry a 0 q * fentry a q 0)%R).
Proof.
  cbn zeta. split; [reflexivity|]. split; [cbn [cols INR]; pose proof u64_small; lra|].
  eexists. split; [vm_compute; reflexivity|]. split; [apply ffinite_SF; reflexivity|].
  assert (E15 : FR 1.5%float = 1.5%R) by fr_eval. assert (E2 : FR 2%float = 2%R) by fr_eval.
  assert (E3 : FR 3%float = 3%R) by fr_eval.
  intros [|[|q]] Hq; cbn in Hq; try lia; unfold fentry; cbn [nth buf cols Nat.mul Nat.add];
    rewrite ?E15, ?E2, ?E3; apply no_underflow_ge1; rewrite Rabs_pos_eq; lra.
Qed.

(* ---------- Props/pending/C04_round.v.txt ---------- *)
(* ======================================================================================================
   C04 (banded matrices), rounding half -- package round.  Append to Props/C04.v.
   The banded matrix-vector product "to rounding accuracy": Model/Banded.v [band_mul]
   (a) in the STANDARD MODEL of floating-point arithmetic (the same Gallina [band_mul] at ARm): every in-matrix band
       entry of row i is perturbed relatively by at most gam (row_cnt B i), and row_cnt B i <= m1 + m2 + 1 -- the
       constant depends on the BANDWIDTH, not on the dimension ([bslot B i k] is the k-th in-matrix slot of row i,
       [bcol B i k] the index of the vector entry it multiplies);
   (b) for the PRIMITIVE-FLOAT instance (IEEE binary64) through Flocq: for every finite component whose products do not
       underflow.
   NOT covered: band_solve / band_det -- the compact LU with its shifting storage (the backward-error claim of C04 for
   the solver stays with tie + search); (a) assumes the standard model.
   ====================================================================================================== *)
From Coq Require Import Reals Floats Lra Lia.
From OV Require Import Base.RoundModel Proofs.Banded Proofs.RoundDot Proofs.RoundFlx Proofs.ComplexRound Proofs.RoundDotFloat
  Proofs.RoundBanded Inst.FloatInst.

Theorem band_mul_backward_error : forall (u : R), (0 <= u < 1)%R ->
  forall (fadd fsub fmul fdiv : R -> R -> R),
  (forall x y : R, exists d : R, (Rabs d <= u)%R /\ fadd x y = ((x + y) * (1 + d))%R) ->
  (forall x y : R, exists d : R, (Rabs d <= u)%R /\ fmul x y = (x * y * (1 + d))%R) ->
  (forall a b : R, fadd 0%R (fmul a b) = fmul a b) ->
  forall (B : banded (ARm fadd fsub fmul fdiv)) (v w : list R),
  wfB B -> band_mul B v = Ok w ->
  length w = bn B /\
  forall i, (i < bn B)%nat -> (INR (row_cnt B i) * u < 1)%R ->
    exists th : nat -> R,
      (forall k, (k < row_cnt B i)%nat -> (Rabs (th k) <= gam u (row_cnt B i))%R) /\
      nth i w 0%R = Rsum (row_cnt B i)
                      (fun k => (bslot fadd fsub fmul fdiv B i k * (1 + th k) * nth (bcol fadd fsub fmul fdiv B i k) v 0)%R).
Proof. intros u Hu fadd fsub fmul fdiv Ha Hm H0 B v w. exact (band_mul_backward_error_lemma u Hu fadd fsub fmul fdiv Ha Hm H0 B v w). Qed.
Check band_mul_backward_error : forall (u : R), (0 <= u < 1)%R ->
  forall (fadd fsub fmul fdiv : R -> R -> R),
  (forall x y : R, exists d : R, (Rabs d <= u)%R /\ fadd x y = ((x + y) * (1 + d))%R) ->
  (forall x y : R, exists d : R, (Rabs d <= u)%R /\ fmul x y = (x * y * (1 + d))%R) ->
  (forall a b : R, fadd 0%R (fmul a b) = fmul a b) ->
  forall (B : banded (ARm fadd fsub fmul fdiv)) (v w : list R),
  wfB B -> band_mul B v = Ok w ->
  length w = bn B /\
  forall i, (i < bn B)%nat -> (INR (row_cnt B i) * u < 1)%R ->
    exists th : nat -> R,
      (forall k, (k < row_cnt B i)%nat -> (Rabs (th k) <= gam u (row_cnt B i))%R) /\
      nth i w 0%R = Rsum (row_cnt B i)
                      (fun k => (bslot fadd fsub fmul fdiv B i k * (1 + th k) * nth (bcol fadd fsub fmul fdiv B i k) v 0)%R).
Print Assumptions band_mul_backward_error.
(* the tridiagonal 3x3 band (m1 = m2 = 1) filled with 2's, times [1,2,3], in the arithmetic that rounds every operation *)
Example band_mul_backward_error_nonvacuous :
  let B := @band_new AFlx 3 1 1 2%R in
  (0 <= ux < 1)%R /\
  (forall x y : R, exists d : R, (Rabs d <= ux)%R /\ xadd x y = ((x + y) * (1 + d))%R) /\
  (forall x y : R, exists d : R, (Rabs d <= ux)%R /\ xmul x y = (x * y * (1 + d))%R) /\
  (forall a b : R, xadd 0%R (xmul a b) = xmul a b) /\
  wfB B /\ (exists w, band_mul B [1%R; 2%R; 3%R] = Ok w) /\
  (forall i, (i < bn B)%nat -> (INR (row_cnt B i) * ux < 1)%R) /\ row_cnt B 1 = 3%nat.
Proof.
  cbn zeta. split; [exact ux_range|]. split; [exact xadd_ok|]. split; [exact xmul_ok|]. split; [exact xadd_0_mul|].
  split; [apply band_new_wf|]. split; [eexists; reflexivity|]. split; [|reflexivity].
  intros [|[|[|i]]] Hi; cbn in Hi; try lia; cbn; pose proof ux_small; lra.
Qed.

Theorem band_mul_forward_error : forall (u : R), (0 <= u < 1)%R ->
  forall (fadd fsub fmul fdiv : R -> R -> R),
  (forall x y : R, exists d : R, (Rabs d <= u)%R /\ fadd x y = ((x + y) * (1 + d))%R) ->
  (forall x y : R, exists d : R, (Rabs d <= u)%R /\ fmul x y = (x * y * (1 + d))%R) ->
  (forall a b : R, fadd 0%R (fmul a b) = fmul a b) ->
  forall (B : banded (ARm fadd fsub fmul fdiv)) (v w : list R),
  wfB B -> band_mul B v = Ok w ->
  forall i, (i < bn B)%nat -> (INR (row_cnt B i) * u < 1)%R ->
    (Rabs (nth i w 0 - Rsum (row_cnt B i)
                         (fun k => bslot fadd fsub fmul fdiv B i k * nth (bcol fadd fsub fmul fdiv B i k) v 0))
       <= gam u (row_cnt B i)
          * Rsum (row_cnt B i)
              (fun k => Rabs (bslot fadd fsub fmul fdiv B i k) * Rabs (nth (bcol fadd fsub fmul fdiv B i k) v 0)))%R.
Proof. intros u Hu fadd fsub fmul fdiv Ha Hm H0 B v w. exact (band_mul_forward_error_lemma u Hu fadd fsub fmul fdiv Ha Hm H0 B v w). Qed.
Check band_mul_forward_error : forall (u : R), (0 <= u < 1)%R ->
  forall (fadd fsub fmul fdiv : R -> R -> R),
  (forall x y : R, exists d : R, (Rabs d <= u)%R /\ fadd x y = ((x + y) * (1 + d))%R) ->
  (forall x y : R, exists d : R, (Rabs d <= u)%R /\ fmul x y = (x * y * (1 + d))%R) ->
  (forall a b : R, fadd 0%R (fmul a b) = fmul a b) ->
  forall (B : banded (ARm fadd fsub fmul fdiv)) (v w : list R),
  wfB B -> band_mul B v = Ok w ->
  forall i, (i < bn B)%nat -> (INR (row_cnt B i) * u < 1)%R ->
    (Rabs (nth i w 0 - Rsum (row_cnt B i)
                         (fun k => bslot fadd fsub fmul fdiv B i k * nth (bcol fadd fsub fmul fdiv B i k) v 0))
       <= gam u (row_cnt B i)
          * Rsum (row_cnt B i)
              (fun k => Rabs (bslot fadd fsub fmul fdiv B i k) * Rabs (nth (bcol fadd fsub fmul fdiv B i k) v 0)))%R.
Print Assumptions band_mul_forward_error.
Example band_mul_forward_error_nonvacuous :   (* same instance *)
  let B := @band_new AFlx 3 1 1 2%R in
  (0 <= ux < 1)%R /\ wfB B /\ (exists w, band_mul B [1%R; 2%R; 3%R] = Ok w) /\
  (forall i, (i < bn B)%nat -> (INR (row_cnt B i) * ux < 1)%R).
Proof.
  cbn zeta. split; [exact ux_range|]. split; [apply band_new_wf|]. split; [eexists; reflexivity|].
  intros [|[|[|i]]] Hi; cbn in Hi; try lia; cbn; pose proof ux_small; lra.
Qed.

Theorem band_mul_backward_error_float : forall (B : banded AF) (v w : list PrimFloat.float),
  wfB B -> band_mul (A := AF) B v = Ok w ->
  length w = bn B /\
  forall i, (i < bn B)%nat -> ffinite (nth i w 0%float) ->
    (forall k, (k < row_cnt B i)%nat -> no_underflow (fbslot B i k * FR (nth (fbcol B i k) v 0%float))%R) ->
    (INR (row_cnt B i) * u64 < 1)%R ->
    exists th : nat -> R,
      (forall k, (k < row_cnt B i)%nat -> (Rabs (th k) <= g64 (row_cnt B i))%R) /\
      FR (nth i w 0%float) = Rsum (row_cnt B i)
                               (fun k => (fbslot B i k * (1 + th k) * FR (nth (fbcol B i k) v 0%float))%R).
Proof. exact band_mul_backward_error_float_lemma. Qed.
Check band_mul_backward_error_float : forall (B : banded AF) (v w : list PrimFloat.float),
  wfB B -> band_mul (A := AF) B v = Ok w ->
  length w = bn B /\
  forall i, (i < bn B)%nat -> ffinite (nth i w 0%float) ->
    (forall k, (k < row_cnt B i)%nat -> no_underflow (fbslot B i k * FR (nth (fbcol B i k) v 0%float))%R) ->
    (INR (row_cnt B i) * u64 < 1)%R ->
    exists th : nat -> R,
      (forall k, (k < row_cnt B i)%nat -> (Rabs (th k) <= g64 (row_cnt B i))%R) /\
      FR (nth i w 0%float) = Rsum (row_cnt B i)
                               (fun k => (fbslot B i k * (1 + th k) * FR (nth (fbcol B i k) v 0%float))%R).
Print Assumptions band_mul_backward_error_float.
(* the tridiagonal 3x3 band filled with 1.5, times [3,4,3] in binary64: row 1 accumulates three products *)
Example band_mul_backward_error_float_nonvacuous :
  let B := @band_new AF 3 1 1 1.5%float in let v := [3%float; 4%float; 3%float] in
  wfB B /\ exists w, band_mul (A := AF) B v = Ok w /\ ffinite (nth 1 w 0%float) /\
    (forall k, (k < row_cnt B 1)%nat -> no_underflow (fbslot B 1 k * FR (nth (fbcol B 1 k) v 0%float))%R) /\
    (INR (row_cnt B 1) * u64 < 1)%R.
Proof.
  cbn zeta. split; [apply band_new_wf|]. eexists. split; [vm_compute; reflexivity|].
  split; [apply ffinite_SF; reflexivity|].
  assert (E15 : FR 1.5%float = 1.5%R) by fr_eval. assert (E3 : FR 3%float = 3%R) by fr_eval.
  assert (E4 : FR 4%float = 4%R) by fr_eval.
  split; [|cbn; pose proof u64_small; lra].
  intros [|[|[|k]]] Hk; cbn in Hk; try lia; unfold fbslot, fbcol, cslot; cbn -[FR]; rewrite ?E15, ?E3, ?E4;
    apply no_underflow_ge1; rewrite Rabs_pos_eq; lra.
Qed.

(* ---------- Props/pending/C07_round.v.txt ---------- *)
(* ======================================================================================================
   C07 (sparse products), rounding half -- package round.  Append to Props/C07.v.
   The compressed-sparse-column product "to rounding accuracy", Model/Sparse.v [sp_mul] in the STANDARD MODEL of
   floating-point arithmetic (the same Gallina [sp_mul] at ARm): fl(A x) = (A + dA) x where dA has the sparsity
   pattern of A and perturbs every STORED value of row i by a relative amount |th| <= gam m_i, m_i = the number of
   entries stored in row i ([row_entries s i]: the (column, storage index) pairs of row i in accumulation order).
   Unproved remainder: the standard model itself for IEEE binary64 (only dot / dense multiply are tied to the
   primitive-float instance, Props/C15.v and Props/C03.v); transpose_multiply (same loop shape, not stated).
   ====================================================================================================== *)
From Coq Require Import Reals Lra Lia.
From OV Require Import Base.RoundModel Proofs.SparseBase Proofs.RoundDot Proofs.RoundSparse Proofs.RoundFlx Proofs.RoundExamples.

Theorem sp_mul_backward_error : forall (u : R), (0 <= u < 1)%R ->
  forall (fadd fsub fmul fdiv : R -> R -> R),
  (forall x y : R, exists d : R, (Rabs d <= u)%R /\ fadd x y = ((x + y) * (1 + d))%R) ->
  (forall x y : R, exists d : R, (Rabs d <= u)%R /\ fmul x y = (x * y * (1 + d))%R) ->
  (forall a b : R, fadd 0%R (fmul a b) = fmul a b) ->
  forall (s : sparse (ARm fadd fsub fmul fdiv)) (x y : list R),
  wfS s -> sp_mul s x = Ok y ->
  length y = sp_rows s /\
  forall i, (i < sp_rows s)%nat -> (INR (length (row_entries s i)) * u < 1)%R ->
    exists th : nat -> R,
      (forall t, (t < length (row_entries s i))%nat ->
         (Rabs (th t) <= gam u (length (row_entries s i)))%R) /\
      nth i y 0%R = Rsum (length (row_entries s i))
                      (fun t => (re_val s i t * (1 + th t)
                                 * nth (re_col s i t) x 0)%R).
Proof. intros u Hu fadd fsub fmul fdiv Ha Hm H0 s x y. exact (sp_mul_backward_error_lemma u Hu fadd fsub fmul fdiv Ha Hm H0 s x y). Qed.
Check sp_mul_backward_error : forall (u : R), (0 <= u < 1)%R ->
  forall (fadd fsub fmul fdiv : R -> R -> R),
  (forall x y : R, exists d : R, (Rabs d <= u)%R /\ fadd x y = ((x + y) * (1 + d))%R) ->
  (forall x y : R, exists d : R, (Rabs d <= u)%R /\ fmul x y = (x * y * (1 + d))%R) ->
  (forall a b : R, fadd 0%R (fmul a b) = fmul a b) ->
  forall (s : sparse (ARm fadd fsub fmul fdiv)) (x y : list R),
  wfS s -> sp_mul s x = Ok y ->
  length y = sp_rows s /\
  forall i, (i < sp_rows s)%nat -> (INR (length (row_entries s i)) * u < 1)%R ->
    exists th : nat -> R,
      (forall t, (t < length (row_entries s i))%nat ->
         (Rabs (th t) <= gam u (length (row_entries s i)))%R) /\
      nth i y 0%R = Rsum (length (row_entries s i))
                      (fun t => (re_val s i t * (1 + th t)
                                 * nth (re_col s i t) x 0)%R).
Print Assumptions sp_mul_backward_error.
(* the 2x2 matrix [[1,0],[2,3]] in compressed-column form times [5,6], in the arithmetic that rounds every operation *)
Example sp_mul_backward_error_nonvacuous :
  (0 <= ux < 1)%R /\
  (forall x y : R, exists d : R, (Rabs d <= ux)%R /\ xadd x y = ((x + y) * (1 + d))%R) /\
  (forall x y : R, exists d : R, (Rabs d <= ux)%R /\ xmul x y = (x * y * (1 + d))%R) /\
  (forall a b : R, xadd 0%R (xmul a b) = xmul a b) /\
  wfS ex_sp /\ (exists y, sp_mul ex_sp [5%R; 6%R] = Ok y) /\
  (forall i, (i < sp_rows ex_sp)%nat -> (INR (length (row_entries ex_sp i)) * ux < 1)%R) /\
  length (row_entries ex_sp 1) = 2%nat.
Proof.
  split; [exact ux_range|]. split; [exact xadd_ok|]. split; [exact xmul_ok|]. split; [exact xadd_0_mul|].
  split; [exact ex_sp_wf|]. split; [eexists; reflexivity|]. split; [exact ex_sp_rows|reflexivity].
Qed.

Theorem sp_mul_forward_error : forall (u : R), (0 <= u < 1)%R ->
  forall (fadd fsub fmul fdiv : R -> R -> R),
  (forall x y : R, exists d : R, (Rabs d <= u)%R /\ fadd x y = ((x + y) * (1 + d))%R) ->
  (forall x y : R, exists d : R, (Rabs d <= u)%R /\ fmul x y = (x * y * (1 + d))%R) ->
  (forall a b : R, fadd 0%R (fmul a b) = fmul a b) ->
  forall (s : sparse (ARm fadd fsub fmul fdiv)) (x y : list R),
  wfS s -> sp_mul s x = Ok y ->
  forall i, (i < sp_rows s)%nat -> (INR (length (row_entries s i)) * u < 1)%R ->
    (Rabs (nth i y 0 - Rsum (length (row_entries s i))
                         (fun t => re_val s i t * nth (re_col s i t) x 0))
       <= gam u (length (row_entries s i))
          * Rsum (length (row_entries s i))
              (fun t => Rabs (re_val s i t) * Rabs (nth (re_col s i t) x 0)))%R.
Proof. intros u Hu fadd fsub fmul fdiv Ha Hm H0 s x y. exact (sp_mul_forward_error_lemma u Hu fadd fsub fmul fdiv Ha Hm H0 s x y). Qed.
Check sp_mul_forward_error : forall (u : R), (0 <= u < 1)%R ->
  forall (fadd fsub fmul fdiv : R -> R -> R),
  (forall x y : R, exists d : R, (Rabs d <= u)%R /\ fadd x y = ((x + y) * (1 + d))%R) ->
  (forall x y : R, exists d : R, (Rabs d <= u)%R /\ fmul x y = (x * y * (1 + d))%R) ->
  (forall a b : R, fadd 0%R (fmul a b) = fmul a b) ->
  forall (s : sparse (ARm fadd fsub fmul fdiv)) (x y : list R),
  wfS s -> sp_mul s x = Ok y ->
  forall i, (i < sp_rows s)%nat -> (INR (length (row_entries s i)) * u < 1)%R ->
    (Rabs (nth i y 0 - Rsum (length (row_entries s i))
                         (fun t => re_val s i t * nth (re_col s i t) x 0))
       <= gam u (length (row_entries s i))
          * Rsum (length (row_entries s i))
              (fun t => Rabs (re_val s i t) * Rabs (nth (re_col s i t) x 0)))%R.
Print Assumptions sp_mul_forward_error.
Example sp_mul_forward_error_nonvacuous :   (* same instance *)
  (0 <= ux < 1)%R /\ wfS ex_sp /\ (exists y, sp_mul ex_sp [5%R; 6%R] = Ok y) /\
  (forall i, (i < sp_rows ex_sp)%nat -> (INR (length (row_entries ex_sp i)) * ux < 1)%R).
Proof. split; [exact ux_range|]. split; [exact ex_sp_wf|]. split; [eexists; reflexivity|exact ex_sp_rows]. Qed.

(* ---- the same at the PRIMITIVE-FLOAT instance (IEEE binary64, u = 2^-53), through Flocq: for every finite component
   of the result whose products do not underflow; no hypothesis about rounding remains ---- *)
From Coq Require Import Floats.
From OV Require Import Inst.FloatInst Proofs.ComplexRound Proofs.RoundDotFloat.

Theorem sp_mul_backward_error_float : forall (s : sparse AF) (x y : list PrimFloat.float),
  wfS s -> sp_mul (A := AF) s x = Ok y ->
  length y = sp_rows s /\
  forall i, (i < sp_rows s)%nat -> ffinite (nth i y 0%float) ->
    (forall t, (t < length (row_entries s i))%nat ->
       no_underflow (FR (re_val s i t) * FR (nth (re_col s i t) x 0%float))%R) ->
    (INR (length (row_entries s i)) * u64 < 1)%R ->
    exists th : nat -> R,
      (forall t, (t < length (row_entries s i))%nat -> (Rabs (th t) <= g64 (length (row_entries s i)))%R) /\
      FR (nth i y 0%float) = Rsum (length (row_entries s i))
                               (fun t => (FR (re_val s i t) * (1 + th t) * FR (nth (re_col s i t) x 0%float))%R).
Proof. exact sp_mul_backward_error_float_lemma. Qed.
Check sp_mul_backward_error_float : forall (s : sparse AF) (x y : list PrimFloat.float),
  wfS s -> sp_mul (A := AF) s x = Ok y ->
  length y = sp_rows s /\
  forall i, (i < sp_rows s)%nat -> ffinite (nth i y 0%float) ->
    (forall t, (t < length (row_entries s i))%nat ->
       no_underflow (FR (re_val s i t) * FR (nth (re_col s i t) x 0%float))%R) ->
    (INR (length (row_entries s i)) * u64 < 1)%R ->
    exists th : nat -> R,
      (forall t, (t < length (row_entries s i))%nat -> (Rabs (th t) <= g64 (length (row_entries s i)))%R) /\
      FR (nth i y 0%float) = Rsum (length (row_entries s i))
                               (fun t => (FR (re_val s i t) * (1 + th t) * FR (nth (re_col s i t) x 0%float))%R).
Print Assumptions sp_mul_backward_error_float.
(* [[1.5,0],[2,3]] in compressed-column form times [3,4] in binary64; row 1 accumulates two products *)
Example sp_mul_backward_error_float_nonvacuous :
  let s := @mkS AF 2 2 3 [1.5%float; 2%float; 3%float] [0%nat; 1%nat; 1%nat] [0%nat; 2%nat; 3%nat] in
  let x := [3%float; 4%float] in
  wfS s /\ exists y, sp_mul (A := AF) s x = Ok y /\ ffinite (nth 1 y 0%float) /\
    (forall t, (t < length (row_entries s 1))%nat ->
       no_underflow (FR (re_val s 1 t) * FR (nth (re_col s 1 t) x 0%float))%R) /\
    (INR (length (row_entries s 1)) * u64 < 1)%R /\ length (row_entries s 1) = 2%nat.
Proof.
  cbn zeta. split.
  { unfold wfS; cbn. repeat split; try reflexivity.
    - intros [|[|j]] Hj; cbn; lia.
    - intros [|[|[|k]]] Hk; cbn; lia. }
  eexists. split; [vm_compute; reflexivity|]. split; [apply ffinite_SF; reflexivity|].
  assert (E2 : FR 2%float = 2%R) by fr_eval. assert (E3 : FR 3%float = 3%R) by fr_eval.
  assert (E4 : FR 4%float = 4%R) by fr_eval.
  split; [|split; [cbn; pose proof u64_small; lra|reflexivity]].
  intros [|[|t]] Ht; cbn in Ht; try lia; unfold re_val, re_col; cbn -[FR]; rewrite ?E2, ?E3, ?E4;
    apply no_underflow_ge1; rewrite Rabs_pos_eq; lra.
Qed.

(* ---- the dense formulation: fl(A x) = (A + dA) x, |dA| <= gam |A| componentwise ----
   sp_rentry s i j = the (i,j) entry the structure denotes over the reals (sum of the stored values of row i that sit in
   column j), sp_rabs s i j = the sum of their absolute values; the two agree in absolute value when no position of the
   row is stored twice (sp_rabs_nodup). *)
From OV Require Import Proofs.RoundSparseDense.

Theorem sp_mul_dense_backward_error : forall (u : R), (0 <= u < 1)%R ->
  forall (fadd fsub fmul fdiv : R -> R -> R),
  (forall x y : R, exists d : R, (Rabs d <= u)%R /\ fadd x y = ((x + y) * (1 + d))%R) ->
  (forall x y : R, exists d : R, (Rabs d <= u)%R /\ fmul x y = (x * y * (1 + d))%R) ->
  (forall a b : R, fadd 0%R (fmul a b) = fmul a b) ->
  forall (s : sparse (ARm fadd fsub fmul fdiv)) (x y : list R),
  wfS s -> sp_mul s x = Ok y ->
  length y = sp_rows s /\
  exists dA : nat -> nat -> R,
    forall i, (i < sp_rows s)%nat -> (INR (length (row_entries s i)) * u < 1)%R ->
      (forall j, (j < sp_cols s)%nat ->
         (Rabs (dA i j) <= gam u (length (row_entries s i)) * sp_rabs fadd fsub fmul fdiv s i j)%R) /\
      nth i y 0%R = Rsum (sp_cols s) (fun j => ((sp_rentry fadd fsub fmul fdiv s i j + dA i j) * nth j x 0)%R).
Proof. intros u Hu fadd fsub fmul fdiv Ha Hm H0 s x y. exact (sp_mul_dense_backward_error_lemma u Hu fadd fsub fmul fdiv Ha Hm H0 s x y). Qed.
Check sp_mul_dense_backward_error : forall (u : R), (0 <= u < 1)%R ->
  forall (fadd fsub fmul fdiv : R -> R -> R),
  (forall x y : R, exists d : R, (Rabs d <= u)%R /\ fadd x y = ((x + y) * (1 + d))%R) ->
  (forall x y : R, exists d : R, (Rabs d <= u)%R /\ fmul x y = (x * y * (1 + d))%R) ->
  (forall a b : R, fadd 0%R (fmul a b) = fmul a b) ->
  forall (s : sparse (ARm fadd fsub fmul fdiv)) (x y : list R),
  wfS s -> sp_mul s x = Ok y ->
  length y = sp_rows s /\
  exists dA : nat -> nat -> R,
    forall i, (i < sp_rows s)%nat -> (INR (length (row_entries s i)) * u < 1)%R ->
      (forall j, (j < sp_cols s)%nat ->
         (Rabs (dA i j) <= gam u (length (row_entries s i)) * sp_rabs fadd fsub fmul fdiv s i j)%R) /\
      nth i y 0%R = Rsum (sp_cols s) (fun j => ((sp_rentry fadd fsub fmul fdiv s i j + dA i j) * nth j x 0)%R).
Print Assumptions sp_mul_dense_backward_error.
Example sp_mul_dense_backward_error_nonvacuous :   (* the instance of sp_mul_backward_error_nonvacuous; its rows store no position twice *)
  (0 <= ux < 1)%R /\ wfS ex_sp /\ (exists y, sp_mul ex_sp [5%R; 6%R] = Ok y) /\
  (forall i, (i < sp_rows ex_sp)%nat -> (INR (length (row_entries ex_sp i)) * ux < 1)%R) /\
  (forall i, (i < sp_rows ex_sp)%nat -> row_nodup xadd xsub xmul xdiv ex_sp i).
Proof.
  split; [exact ux_range|]. split; [exact ex_sp_wf|]. split; [eexists; reflexivity|]. split; [exact ex_sp_rows|].
  intros [|[|i]] Hi; cbn in Hi; try lia; intros t t' Ht Ht'; cbn in Ht, Ht'.
  - assert (t = 0%nat) by lia. assert (t' = 0%nat) by lia. congruence.
  - destruct t as [|[|t]], t' as [|[|t']]; try lia; cbn; intros E; try reflexivity; discriminate.
Qed.

(* ---- transpose_multiply (sp_tmul): the gather loop, standard model and primitive floats ----
   [col_entries s j] lists the (column, storage index) pairs of column j in storage order; every stored value of
   column j is perturbed relatively by at most gam c_j, c_j = the number of entries stored in column j. *)
From OV Require Import Proofs.RoundSparseT.

Theorem sp_tmul_backward_error : forall (u : R), (0 <= u < 1)%R ->
  forall (fadd fsub fmul fdiv : R -> R -> R),
  (forall x y : R, exists d : R, (Rabs d <= u)%R /\ fadd x y = ((x + y) * (1 + d))%R) ->
  (forall x y : R, exists d : R, (Rabs d <= u)%R /\ fmul x y = (x * y * (1 + d))%R) ->
  (forall a b : R, fadd 0%R (fmul a b) = fmul a b) ->
  forall (s : sparse (ARm fadd fsub fmul fdiv)) (x y : list R),
  wfS s -> sp_tmul s x = Ok y ->
  length y = sp_cols s /\
  forall j, (j < sp_cols s)%nat -> (INR (length (col_entries s j)) * u < 1)%R ->
    exists th : nat -> R,
      (forall t, (t < length (col_entries s j))%nat -> (Rabs (th t) <= gam u (length (col_entries s j)))%R) /\
      nth j y 0%R = Rsum (length (col_entries s j))
                      (fun t => (ce_val s j t * (1 + th t) * nth (ce_row s j t) x 0)%R).
Proof. intros u Hu fadd fsub fmul fdiv Ha Hm H0 s x y. exact (sp_tmul_backward_error_lemma u Hu fadd fsub fmul fdiv Ha Hm H0 s x y). Qed.
Check sp_tmul_backward_error : forall (u : R), (0 <= u < 1)%R ->
  forall (fadd fsub fmul fdiv : R -> R -> R),
  (forall x y : R, exists d : R, (Rabs d <= u)%R /\ fadd x y = ((x + y) * (1 + d))%R) ->
  (forall x y : R, exists d : R, (Rabs d <= u)%R /\ fmul x y = (x * y * (1 + d))%R) ->
  (forall a b : R, fadd 0%R (fmul a b) = fmul a b) ->
  forall (s : sparse (ARm fadd fsub fmul fdiv)) (x y : list R),
  wfS s -> sp_tmul s x = Ok y ->
  length y = sp_cols s /\
  forall j, (j < sp_cols s)%nat -> (INR (length (col_entries s j)) * u < 1)%R ->
    exists th : nat -> R,
      (forall t, (t < length (col_entries s j))%nat -> (Rabs (th t) <= gam u (length (col_entries s j)))%R) /\
      nth j y 0%R = Rsum (length (col_entries s j))
                      (fun t => (ce_val s j t * (1 + th t) * nth (ce_row s j t) x 0)%R).
Print Assumptions sp_tmul_backward_error.
Example sp_tmul_backward_error_nonvacuous :   (* the matrix of sp_mul_backward_error_nonvacuous, transposed product with [5,6] *)
  (0 <= ux < 1)%R /\ wfS ex_sp /\ (exists y, sp_tmul ex_sp [5%R; 6%R] = Ok y) /\
  (forall j, (j < sp_cols ex_sp)%nat -> (INR (length (col_entries ex_sp j)) * ux < 1)%R) /\
  length (col_entries ex_sp 0) = 2%nat.
Proof.
  split; [exact ux_range|]. split; [exact ex_sp_wf|]. split; [eexists; reflexivity|]. split; [|reflexivity].
  intros [|[|j]] Hj; cbn in Hj; try lia; cbn; pose proof ux_small; lra.
Qed.

Theorem sp_tmul_backward_error_float : forall (s : sparse AF) (x y : list PrimFloat.float),
  wfS s -> sp_tmul (A := AF) s x = Ok y ->
  length y = sp_cols s /\
  forall j, (j < sp_cols s)%nat -> ffinite (nth j y 0%float) ->
    (forall t, (t < length (col_entries s j))%nat ->
       no_underflow (FR (ce_val s j t) * FR (nth (ce_row s j t) x 0%float))%R) ->
    (INR (length (col_entries s j)) * u64 < 1)%R ->
    exists th : nat -> R,
      (forall t, (t < length (col_entries s j))%nat -> (Rabs (th t) <= g64 (length (col_entries s j)))%R) /\
      FR (nth j y 0%float) = Rsum (length (col_entries s j))
                               (fun t => (FR (ce_val s j t) * (1 + th t) * FR (nth (ce_row s j t) x 0%float))%R).
Proof. exact sp_tmul_backward_error_float_lemma. Qed.
Check sp_tmul_backward_error_float : forall (s : sparse AF) (x y : list PrimFloat.float),
  wfS s -> sp_tmul (A := AF) s x = Ok y ->
  length y = sp_cols s /\
  forall j, (j < sp_cols s)%nat -> ffinite (nth j y 0%float) ->
    (forall t, (t < length (col_entries s j))%nat ->
       no_underflow (FR (ce_val s j t) * FR (nth (ce_row s j t) x 0%float))%R) ->
    (INR (length (col_entries s j)) * u64 < 1)%R ->
    exists th : nat -> R,
      (forall t, (t < length (col_entries s j))%nat -> (Rabs (th t) <= g64 (length (col_entries s j)))%R) /\
      FR (nth j y 0%float) = Rsum (length (col_entries s j))
                               (fun t => (FR (ce_val s j t) * (1 + th t) * FR (nth (ce_row s j t) x 0%float))%R).
Print Assumptions sp_tmul_backward_error_float.
Example sp_tmul_backward_error_float_nonvacuous :   (* column 0 of [[1.5,0],[2,3]] gathers two products *)
  let s := @mkS AF 2 2 3 [1.5%float; 2%float; 3%float] [0%nat; 1%nat; 1%nat] [0%nat; 2%nat; 3%nat] in
  let x := [3%float; 4%float] in
  wfS s /\ exists y, sp_tmul (A := AF) s x = Ok y /\ ffinite (nth 0 y 0%float) /\
    (forall t, (t < length (col_entries s 0))%nat ->
       no_underflow (FR (ce_val s 0 t) * FR (nth (ce_row s 0 t) x 0%float))%R) /\
    (INR (length (col_entries s 0)) * u64 < 1)%R /\ length (col_entries s 0) = 2%nat.
Proof.
  cbn zeta. split.
  { unfold wfS; cbn. repeat split; try reflexivity.
    - intros [|[|j]] Hj; cbn; lia.
    - intros [|[|[|k]]] Hk; cbn; lia. }
  eexists. split; [vm_compute; reflexivity|]. split; [apply ffinite_SF; reflexivity|].
  assert (E15 : FR 1.5%float = 1.5%R) by fr_eval. assert (E2 : FR 2%float = 2%R) by fr_eval.
  assert (E3 : FR 3%float = 3%R) by fr_eval. assert (E4 : FR 4%float = 4%R) by fr_eval.
  split; [|split; [cbn; pose proof u64_small; lra|reflexivity]].
  intros [|[|t]] Ht; cbn in Ht; try lia; unfold ce_val, ce_row; cbn -[FR]; rewrite ?E15, ?E2, ?E3, ?E4;
    apply no_underflow_ge1; rewrite Rabs_pos_eq; lra.
Qed.

(* ---------- Props/pending/C11_round.v.txt ---------- *)
(* ======================================================================================================
   C11 (polynomial ring and calculus laws), rounding half -- package round.  Append to Props/C11.v.
   Horner evaluation "to rounding accuracy": Model/Poly.v [peval] in the STANDARD MODEL of floating-point arithmetic
   (the same Gallina [peval] at ARm): the computed value is the exact value of a polynomial whose coefficients are
   perturbed relatively by at most gam (2d), d = degree; hence |fl(p(x)) - p(x)| <= gam (2d) Sum |a_i| |x|^i
   (Higham, Accuracy and Stability of Numerical Algorithms, (5.3)), for every degree with 2 d u < 1.
   Unproved remainder: this is the a priori bound; the running (a posteriori) error bound of Higham Alg. 5.1 belongs to
   an algorithm the code does not contain.  The standard model itself for IEEE binary64 is not re-proved here.
   ====================================================================================================== *)
From Coq Require Import Reals Lra Lia.
From OV Require Import Base.RoundModel Proofs.RoundPoly Proofs.RoundFlx.

Theorem peval_backward_error : forall (u : R), (0 <= u < 1)%R ->
  forall (fadd fsub fmul fdiv : R -> R -> R),
  (forall x y : R, exists d : R, (Rabs d <= u)%R /\ fadd x y = ((x + y) * (1 + d))%R) ->
  (forall x y : R, exists d : R, (Rabs d <= u)%R /\ fmul x y = (x * y * (1 + d))%R) ->
  forall (p : list R) (x r : R),
  (INR (2 * (length p - 1)) * u < 1)%R -> peval (A := ARm fadd fsub fmul fdiv) p x = Ok r ->
  exists th : nat -> R,
    (forall i, (i < length p)%nat -> (Rabs (th i) <= gam u (2 * (length p - 1)))%R) /\
    r = Rsum (length p) (fun i => (nth i p 0 * (1 + th i) * x ^ i)%R).
Proof. intros u Hu fadd fsub fmul fdiv Ha Hm p x r. exact (peval_backward_error_lemma u Hu fadd fsub fmul fdiv Ha Hm p x r). Qed.
Check peval_backward_error : forall (u : R), (0 <= u < 1)%R ->
  forall (fadd fsub fmul fdiv : R -> R -> R),
  (forall x y : R, exists d : R, (Rabs d <= u)%R /\ fadd x y = ((x + y) * (1 + d))%R) ->
  (forall x y : R, exists d : R, (Rabs d <= u)%R /\ fmul x y = (x * y * (1 + d))%R) ->
  forall (p : list R) (x r : R),
  (INR (2 * (length p - 1)) * u < 1)%R -> peval (A := ARm fadd fsub fmul fdiv) p x = Ok r ->
  exists th : nat -> R,
    (forall i, (i < length p)%nat -> (Rabs (th i) <= gam u (2 * (length p - 1)))%R) /\
    r = Rsum (length p) (fun i => (nth i p 0 * (1 + th i) * x ^ i)%R).
Print Assumptions peval_backward_error.
(* 1 + 2x + 3x^2 at x = 2 in the arithmetic that rounds every operation to 53 bits *)
Example peval_backward_error_nonvacuous :
  (0 <= ux < 1)%R /\
  (forall x y : R, exists d : R, (Rabs d <= ux)%R /\ xadd x y = ((x + y) * (1 + d))%R) /\
  (forall x y : R, exists d : R, (Rabs d <= ux)%R /\ xmul x y = (x * y * (1 + d))%R) /\
  (INR (2 * (length [1%R; 2%R; 3%R] - 1)) * ux < 1)%R /\
  exists r, peval (A := AFlx) [1%R; 2%R; 3%R] 2%R = Ok r.
Proof.
  split; [exact ux_range|]. split; [exact xadd_ok|]. split; [exact xmul_ok|].
  split; [cbn [length Nat.sub Nat.mul Nat.add INR]; pose proof ux_small; lra|eexists; reflexivity].
Qed.

Theorem peval_forward_error : forall (u : R), (0 <= u < 1)%R ->
  forall (fadd fsub fmul fdiv : R -> R -> R),
  (forall x y : R, exists d : R, (Rabs d <= u)%R /\ fadd x y = ((x + y) * (1 + d))%R) ->
  (forall x y : R, exists d : R, (Rabs d <= u)%R /\ fmul x y = (x * y * (1 + d))%R) ->
  forall (p : list R) (x r : R),
  (INR (2 * (length p - 1)) * u < 1)%R -> peval (A := ARm fadd fsub fmul fdiv) p x = Ok r ->
  (Rabs (r - Rsum (length p) (fun i => nth i p 0 * x ^ i))
     <= gam u (2 * (length p - 1)) * Rsum (length p) (fun i => Rabs (nth i p 0) * Rabs x ^ i))%R.
Proof. intros u Hu fadd fsub fmul fdiv Ha Hm p x r. exact (peval_forward_error_lemma u Hu fadd fsub fmul fdiv Ha Hm p x r). Qed.
Check peval_forward_error : forall (u : R), (0 <= u < 1)%R ->
  forall (fadd fsub fmul fdiv : R -> R -> R),
  (forall x y : R, exists d : R, (Rabs d <= u)%R /\ fadd x y = ((x + y) * (1 + d))%R) ->
  (forall x y : R, exists d : R, (Rabs d <= u)%R /\ fmul x y = (x * y * (1 + d))%R) ->
  forall (p : list R) (x r : R),
  (INR (2 * (length p - 1)) * u < 1)%R -> peval (A := ARm fadd fsub fmul fdiv) p x = Ok r ->
  (Rabs (r - Rsum (length p) (fun i => nth i p 0 * x ^ i))
     <= gam u (2 * (length p - 1)) * Rsum (length p) (fun i => Rabs (nth i p 0) * Rabs x ^ i))%R.
Print Assumptions peval_forward_error.
Example peval_forward_error_nonvacuous :   (* same instance *)
  (0 <= ux < 1)%R /\ (INR (2 * (length [1%R; 2%R; 3%R] - 1)) * ux < 1)%R /\
  exists r, peval (A := AFlx) [1%R; 2%R; 3%R] 2%R = Ok r.
Proof.
  split; [exact ux_range|].
  split; [cbn [length Nat.sub Nat.mul Nat.add INR]; pose proof ux_small; lra|eexists; reflexivity].
Qed.

(* ---- the same at the PRIMITIVE-FLOAT instance (IEEE binary64, u = 2^-53), through Flocq: no hypothesis about rounding
   remains; the result must be finite and no product acc * x of the Horner loop may underflow ([horner_partial p x k] is
   the accumulator after k steps, a float expression in p and x) ---- *)
From Coq Require Import Floats.
From OV Require Import Inst.FloatInst Proofs.ComplexRound Proofs.RoundDotFloat Proofs.RoundPolyFloat.

Theorem peval_backward_error_float : forall (p : list PrimFloat.float) (x r : PrimFloat.float),
  peval (A := AF) p x = Ok r -> ffinite r ->
  (forall k, (k < length p - 1)%nat -> no_underflow (FR (horner_partial p x k) * FR x)%R) ->
  (INR (2 * (length p - 1)) * u64 < 1)%R ->
  exists th : nat -> R,
    (forall i, (i < length p)%nat -> (Rabs (th i) <= g64 (2 * (length p - 1)))%R) /\
    FR r = Rsum (length p) (fun i => (FR (nth i p 0%float) * (1 + th i) * FR x ^ i)%R).
Proof. exact peval_backward_error_float_lemma. Qed.
Check peval_backward_error_float : forall (p : list PrimFloat.float) (x r : PrimFloat.float),
  peval (A := AF) p x = Ok r -> ffinite r ->
  (forall k, (k < length p - 1)%nat -> no_underflow (FR (horner_partial p x k) * FR x)%R) ->
  (INR (2 * (length p - 1)) * u64 < 1)%R ->
  exists th : nat -> R,
    (forall i, (i < length p)%nat -> (Rabs (th i) <= g64 (2 * (length p - 1)))%R) /\
    FR r = Rsum (length p) (fun i => (FR (nth i p 0%float) * (1 + th i) * FR x ^ i)%R).
Print Assumptions peval_backward_error_float.
(* 1 + c x + 3 x^2 at x = 0.5 with c the double nearest 0.1: the sum 1.5 + c is inexact *)
Example peval_backward_error_float_nonvacuous :
  let p := [1%float; 0x1.999999999999ap-4%float; 3%float] in let x := 0.5%float in
  (exists r, peval (A := AF) p x = Ok r /\ ffinite r) /\
  (forall k, (k < length p - 1)%nat -> no_underflow (FR (horner_partial p x k) * FR x)%R) /\
  (INR (2 * (length p - 1)) * u64 < 1)%R.
Proof.
  cbn zeta. split; [eexists; split; [reflexivity|apply ffinite_SF; reflexivity]|]. split.
  - assert (Eh : FR 0.5%float = (/ 2)%R) by fr_eval. assert (E3 : FR 3%float = 3%R) by fr_eval.
    assert (B : (1 <= FR (3 * 0.5 + 0x1.999999999999ap-4)%float <= 2)%R) by (split; fr_eval).
    intros [|[|k]] Hk; cbn in Hk; try lia; apply no_underflow_ge_small.
    + change (horner_partial [1%float; 0x1.999999999999ap-4%float; 3%float] 0.5%float 0) with 3%float.
      rewrite Eh, E3, Rabs_pos_eq; lra.
    + change (horner_partial [1%float; 0x1.999999999999ap-4%float; 3%float] 0.5%float 1)
        with (3 * 0.5 + 0x1.999999999999ap-4)%float.
      rewrite Eh, Rabs_pos_eq; lra.
  - cbn [length Nat.sub Nat.mul Nat.add INR]. pose proof u64_small. lra.
Qed.

Theorem peval_forward_error_float : forall (p : list PrimFloat.float) (x r : PrimFloat.float),
  peval (A := AF) p x = Ok r -> ffinite r ->
  (forall k, (k < length p - 1)%nat -> no_underflow (FR (horner_partial p x k) * FR x)%R) ->
  (INR (2 * (length p - 1)) * u64 < 1)%R ->
  (Rabs (FR r - Rsum (length p) (fun i => FR (nth i p 0%float) * FR x ^ i))
     <= g64 (2 * (length p - 1)) * Rsum (length p) (fun i => Rabs (FR (nth i p 0%float)) * Rabs (FR x) ^ i))%R.
Proof. exact peval_forward_error_float_lemma. Qed.
Check peval_forward_error_float : forall (p : list PrimFloat.float) (x r : PrimFloat.float),
  peval (A := AF) p x = Ok r -> ffinite r ->
  (forall k, (k < length p - 1)%nat -> no_underflow (FR (horner_partial p x k) * FR x)%R) ->
  (INR (2 * (length p - 1)) * u64 < 1)%R ->
  (Rabs (FR r - Rsum (length p) (fun i => FR (nth i p 0%float) * FR x ^ i))
     <= g64 (2 * (length p - 1)) * Rsum (length p) (fun i => Rabs (FR (nth i p 0%float)) * Rabs (FR x) ^ i))%R.
Print Assumptions peval_forward_error_float.
Example peval_forward_error_float_nonvacuous :   (* exactly representable data: 1 + 2x + 3x^2 at 0.5 *)
  let p := [1%float; 2%float; 3%float] in let x := 0.5%float in
  (exists r, peval (A := AF) p x = Ok r /\ ffinite r) /\ (INR (2 * (length p - 1)) * u64 < 1)%R.
Proof.
  cbn zeta. split; [eexists; split; [reflexivity|apply ffinite_SF; reflexivity]|].
  cbn [length Nat.sub Nat.mul Nat.add INR]. pose proof u64_small. lra.
Qed.

(* ---------- Props/pending/C15_round.v.txt ---------- *)
(* ======================================================================================================
   C15 (vectors), rounding half -- package round.  Append to Props/C15.v.
   The dot product "to rounding accuracy": backward and forward error of Model/Vector.v [dot]
   (a) in the STANDARD MODEL of floating-point arithmetic (Base/RoundModel.v: the same Gallina [dot] at the
       arithmetic ARm whose operations are the exact ones times (1+d), |d| <= u), for EVERY length n with n u < 1;
   (b) for the PRIMITIVE-FLOAT instance itself ([dot] at AF, IEEE binary64), through Flocq: whenever the computed
       result is finite and no product underflows.
   Unproved remainder: (a) assumes the standard model (discharged for round-to-nearest-even with unbounded exponent in
   Proofs/RoundFlx.v, and for binary64 on the no-underflow domain in Proofs/RoundDotFloat.v); (b) says nothing when a
   product falls into the subnormal range (the absolute-error term of gradual underflow is not analysed) or when the
   result overflows.
   ====================================================================================================== *)
From Coq Require Import Reals Floats Lra Lia.
From OV Require Import Base.RoundModel Proofs.RoundDot Proofs.RoundFlx Proofs.ComplexRound Proofs.RoundDotFloat Inst.FloatInst.

(* Higham (3.4): fl(x.y) = Sum_i x_i y_i (1 + th_i), |th_i| <= gam n = n u / (1 - n u) *)
Theorem dot_backward_error : forall (u : R), (0 <= u < 1)%R ->
  forall (fadd fsub fmul fdiv : R -> R -> R),
  (forall x y : R, exists d : R, (Rabs d <= u)%R /\ fadd x y = ((x + y) * (1 + d))%R) ->
  (forall x y : R, exists d : R, (Rabs d <= u)%R /\ fmul x y = (x * y * (1 + d))%R) ->
  (forall a b : R, fadd 0%R (fmul a b) = fmul a b) ->
  forall (x y : list R) (r : R),
  (INR (length x) * u < 1)%R -> dot (A := ARm fadd fsub fmul fdiv) x y = Ok r ->
  exists th : nat -> R,
    (forall k, (k < length x)%nat -> (Rabs (th k) <= gam u (length x))%R) /\
    r = Rsum (length x) (fun k => (nth k x 0 * nth k y 0 * (1 + th k))%R).
Proof. intros u Hu fadd fsub fmul fdiv Ha Hm H0 x y r. exact (dot_backward_error_lemma u Hu fadd fsub fmul fdiv Ha Hm H0 x y r). Qed.
Check dot_backward_error : forall (u : R), (0 <= u < 1)%R ->
  forall (fadd fsub fmul fdiv : R -> R -> R),
  (forall x y : R, exists d : R, (Rabs d <= u)%R /\ fadd x y = ((x + y) * (1 + d))%R) ->
  (forall x y : R, exists d : R, (Rabs d <= u)%R /\ fmul x y = (x * y * (1 + d))%R) ->
  (forall a b : R, fadd 0%R (fmul a b) = fmul a b) ->
  forall (x y : list R) (r : R),
  (INR (length x) * u < 1)%R -> dot (A := ARm fadd fsub fmul fdiv) x y = Ok r ->
  exists th : nat -> R,
    (forall k, (k < length x)%nat -> (Rabs (th k) <= gam u (length x))%R) /\
    r = Rsum (length x) (fun k => (nth k x 0 * nth k y 0 * (1 + th k))%R).
Print Assumptions dot_backward_error.
(* the hypotheses are met by an arithmetic that rounds every operation (53-bit round-to-nearest-even), and dot answers in it *)
Example dot_backward_error_nonvacuous :
  (0 <= ux < 1)%R /\
  (forall x y : R, exists d : R, (Rabs d <= ux)%R /\ xadd x y = ((x + y) * (1 + d))%R) /\
  (forall x y : R, exists d : R, (Rabs d <= ux)%R /\ xmul x y = (x * y * (1 + d))%R) /\
  (forall a b : R, xadd 0%R (xmul a b) = xmul a b) /\
  (INR (length [1%R; 2%R; 3%R]) * ux < 1)%R /\
  (exists r, dot (A := AFlx) [1%R; 2%R; 3%R] [4%R; 5%R; 6%R] = Ok r) /\
  xdiv 1%R 3%R <> (1 / 3)%R.
Proof.
  split; [exact ux_range|]. split; [exact xadd_ok|]. split; [exact xmul_ok|]. split; [exact xadd_0_mul|].
  split; [cbn [length INR]; pose proof ux_small; lra|]. split; [eexists; reflexivity|exact xdiv_inexact].
Qed.

(* Higham (3.5): |fl(x.y) - x.y| <= gam n Sum_i |x_i| |y_i| *)
Theorem dot_forward_error : forall (u : R), (0 <= u < 1)%R ->
  forall (fadd fsub fmul fdiv : R -> R -> R),
  (forall x y : R, exists d : R, (Rabs d <= u)%R /\ fadd x y = ((x + y) * (1 + d))%R) ->
  (forall x y : R, exists d : R, (Rabs d <= u)%R /\ fmul x y = (x * y * (1 + d))%R) ->
  (forall a b : R, fadd 0%R (fmul a b) = fmul a b) ->
  forall (x y : list R) (r : R),
  (INR (length x) * u < 1)%R -> dot (A := ARm fadd fsub fmul fdiv) x y = Ok r ->
  (Rabs (r - Rsum (length x) (fun k => nth k x 0 * nth k y 0))
     <= gam u (length x) * Rsum (length x) (fun k => Rabs (nth k x 0) * Rabs (nth k y 0)))%R.
Proof. intros u Hu fadd fsub fmul fdiv Ha Hm H0 x y r. exact (dot_forward_error_lemma u Hu fadd fsub fmul fdiv Ha Hm H0 x y r). Qed.
Check dot_forward_error : forall (u : R), (0 <= u < 1)%R ->
  forall (fadd fsub fmul fdiv : R -> R -> R),
  (forall x y : R, exists d : R, (Rabs d <= u)%R /\ fadd x y = ((x + y) * (1 + d))%R) ->
  (forall x y : R, exists d : R, (Rabs d <= u)%R /\ fmul x y = (x * y * (1 + d))%R) ->
  (forall a b : R, fadd 0%R (fmul a b) = fmul a b) ->
  forall (x y : list R) (r : R),
  (INR (length x) * u < 1)%R -> dot (A := ARm fadd fsub fmul fdiv) x y = Ok r ->
  (Rabs (r - Rsum (length x) (fun k => nth k x 0 * nth k y 0))
     <= gam u (length x) * Rsum (length x) (fun k => Rabs (nth k x 0) * Rabs (nth k y 0)))%R.
Print Assumptions dot_forward_error.
Example dot_forward_error_nonvacuous :   (* same instance as above *)
  (0 <= ux < 1)%R /\ (INR (length [1%R; 2%R; 3%R]) * ux < 1)%R /\
  (exists r, dot (A := AFlx) [1%R; 2%R; 3%R] [4%R; 5%R; 6%R] = Ok r).
Proof. split; [exact ux_range|]. split; [cbn [length INR]; pose proof ux_small; lra|eexists; reflexivity]. Qed.

(* without the exact first addition 0 + x_0 y_0: the same with gam (n+1) -- the pure standard model *)
Theorem dot_backward_error_pure : forall (u : R), (0 <= u < 1)%R ->
  forall (fadd fsub fmul fdiv : R -> R -> R),
  (forall x y : R, exists d : R, (Rabs d <= u)%R /\ fadd x y = ((x + y) * (1 + d))%R) ->
  (forall x y : R, exists d : R, (Rabs d <= u)%R /\ fmul x y = (x * y * (1 + d))%R) ->
  forall (x y : list R) (r : R),
  (INR (S (length x)) * u < 1)%R -> dot (A := ARm fadd fsub fmul fdiv) x y = Ok r ->
  exists th : nat -> R,
    (forall k, (k < length x)%nat -> (Rabs (th k) <= gam u (S (length x)))%R) /\
    r = Rsum (length x) (fun k => (nth k x 0 * nth k y 0 * (1 + th k))%R).
Proof. intros u Hu fadd fsub fmul fdiv Ha Hm x y r. exact (dot_backward_error_pure_lemma u Hu fadd fsub fmul fdiv Ha Hm x y r). Qed.
Check dot_backward_error_pure : forall (u : R), (0 <= u < 1)%R ->
  forall (fadd fsub fmul fdiv : R -> R -> R),
  (forall x y : R, exists d : R, (Rabs d <= u)%R /\ fadd x y = ((x + y) * (1 + d))%R) ->
  (forall x y : R, exists d : R, (Rabs d <= u)%R /\ fmul x y = (x * y * (1 + d))%R) ->
  forall (x y : list R) (r : R),
  (INR (S (length x)) * u < 1)%R -> dot (A := ARm fadd fsub fmul fdiv) x y = Ok r ->
  exists th : nat -> R,
    (forall k, (k < length x)%nat -> (Rabs (th k) <= gam u (S (length x)))%R) /\
    r = Rsum (length x) (fun k => (nth k x 0 * nth k y 0 * (1 + th k))%R).
Print Assumptions dot_backward_error_pure.
Example dot_backward_error_pure_nonvacuous :
  (0 <= ux < 1)%R /\ (INR (S (length [1%R; 2%R; 3%R])) * ux < 1)%R /\
  (exists r, dot (A := AFlx) [1%R; 2%R; 3%R] [4%R; 5%R; 6%R] = Ok r).
Proof. split; [exact ux_range|]. split; [cbn [length INR]; pose proof ux_small; lra|eexists; reflexivity]. Qed.

(* the primitive-float instance (IEEE binary64, u = 2^-53): FR is the real value of a float *)
Theorem dot_backward_error_float : forall (v w : list PrimFloat.float) (r : PrimFloat.float),
  dot (A := AF) v w = Ok r -> ffinite r ->
  (forall k, (k < length v)%nat -> no_underflow (FR (nth k v 0%float) * FR (nth k w 0%float))%R) ->
  (INR (length v) * u64 < 1)%R ->
  exists th : nat -> R,
    (forall k, (k < length v)%nat -> (Rabs (th k) <= g64 (length v))%R) /\
    FR r = Rsum (length v) (fun k => (FR (nth k v 0%float) * FR (nth k w 0%float) * (1 + th k))%R).
Proof. exact dot_backward_error_float_lemma. Qed.
Check dot_backward_error_float : forall (v w : list PrimFloat.float) (r : PrimFloat.float),
  dot (A := AF) v w = Ok r -> ffinite r ->
  (forall k, (k < length v)%nat -> no_underflow (FR (nth k v 0%float) * FR (nth k w 0%float))%R) ->
  (INR (length v) * u64 < 1)%R ->
  exists th : nat -> R,
    (forall k, (k < length v)%nat -> (Rabs (th k) <= g64 (length v))%R) /\
    FR r = Rsum (length v) (fun k => (FR (nth k v 0%float) * FR (nth k w 0%float) * (1 + th k))%R).
Print Assumptions dot_backward_error_float.
(* 0x1.999999999999ap-4 is the double nearest 0.1 and its product with 3 is inexact: the hypotheses hold on data that do round *)
Example dot_backward_error_float_nonvacuous :
  let v := [1.5%float; 2%float; 0x1.999999999999ap-4%float] in let w := [3%float; 4%float; 3%float] in
  (exists r, dot (A := AF) v w = Ok r /\ ffinite r) /\
  (forall k, (k < length v)%nat -> no_underflow (FR (nth k v 0%float) * FR (nth k w 0%float))%R) /\
  (INR (length v) * u64 < 1)%R.
Proof.
  cbn zeta. split; [eexists; split; [reflexivity|apply ffinite_SF; reflexivity]|]. split.
  - intros [|[|[|k]]] Hk; cbn [nth]; cbn in Hk; try lia.
    + assert (Ea : FR 1.5%float = 1.5%R) by fr_eval. assert (Eb : FR 3%float = 3%R) by fr_eval.
      rewrite Ea, Eb. apply no_underflow_ge1. rewrite Rabs_pos_eq; lra.
    + assert (Ea : FR 2%float = 2%R) by fr_eval. assert (Eb : FR 4%float = 4%R) by fr_eval.
      rewrite Ea, Eb. apply no_underflow_ge1. rewrite Rabs_pos_eq; lra.
    + right. assert (Eb : FR 3%float = 3%R) by fr_eval. rewrite Eb.
      assert (Ea : (/ 16 <= FR 0x1.999999999999ap-4%float)%R) by fr_eval.
      apply Rle_trans with (Flocq.Core.Raux.bpow Flocq.Core.Zaux.radix2 (-4)).
      * apply Flocq.Core.Raux.bpow_le. lia.
      * change (Flocq.Core.Raux.bpow Flocq.Core.Zaux.radix2 (-4)) with (/ 16)%R. rewrite Rabs_pos_eq; lra.
  - cbn [length INR]. pose proof u64_small. lra.
Qed.

Theorem dot_forward_error_float : forall (v w : list PrimFloat.float) (r : PrimFloat.float),
  dot (A := AF) v w = Ok r -> ffinite r ->
  (forall k, (k < length v)%nat -> no_underflow (FR (nth k v 0%float) * FR (nth k w 0%float))%R) ->
  (INR (length v) * u64 < 1)%R ->
  (Rabs (FR r - Rsum (length v) (fun k => FR (nth k v 0%float) * FR (nth k w 0%float)))
     <= g64 (length v) * Rsum (length v) (fun k => Rabs (FR (nth k v 0%float)) * Rabs (FR (nth k w 0%float))))%R.
Proof. exact dot_forward_error_float_lemma. Qed.
Check dot_forward_error_float : forall (v w : list PrimFloat.float) (r : PrimFloat.float),
  dot (A := AF) v w = Ok r -> ffinite r ->
  (forall k, (k < length v)%nat -> no_underflow (FR (nth k v 0%float) * FR (nth k w 0%float))%R) ->
  (INR (length v) * u64 < 1)%R ->
  (Rabs (FR r - Rsum (length v) (fun k => FR (nth k v 0%float) * FR (nth k w 0%float)))
     <= g64 (length v) * Rsum (length v) (fun k => Rabs (FR (nth k v 0%float)) * Rabs (FR (nth k w 0%float))))%R.
Print Assumptions dot_forward_error_float.
Example dot_forward_error_float_nonvacuous :   (* exactly representable data *)
  let v := [1.5%float; 2%float] in let w := [3%float; 4%float] in
  (exists r, dot (A := AF) v w = Ok r /\ ffinite r) /\ (INR (length v) * u64 < 1)%R.
Proof.
  cbn zeta. split; [eexists; split; [reflexivity|apply ffinite_SF; reflexivity]|].
  cbn [length INR]. pose proof u64_small. lra.
Qed.

(* ---- norm_1 "to rounding accuracy" (standard model): relative error gam n, since all terms have one sign ---- *)
From OV Require Import Proofs.RoundNorm.

Theorem norm_1_backward_error : forall (u : R), (0 <= u < 1)%R ->
  forall (fadd fsub fmul fdiv : R -> R -> R),
  (forall x y : R, exists d : R, (Rabs d <= u)%R /\ fadd x y = ((x + y) * (1 + d))%R) ->
  forall (v : list R), (INR (length v) * u < 1)%R ->
  exists th : nat -> R,
    (forall k, (k < length v)%nat -> (Rabs (th k) <= gam u (length v))%R) /\
    norm_1 (A := ARm fadd fsub fmul fdiv) v = Rsum (length v) (fun k => (Rabs (nth k v 0) * (1 + th k))%R).
Proof. intros u Hu fadd fsub fmul fdiv Ha v. exact (norm_1_backward_error_lemma u Hu fadd fsub fmul fdiv Ha v). Qed.
Check norm_1_backward_error : forall (u : R), (0 <= u < 1)%R ->
  forall (fadd fsub fmul fdiv : R -> R -> R),
  (forall x y : R, exists d : R, (Rabs d <= u)%R /\ fadd x y = ((x + y) * (1 + d))%R) ->
  forall (v : list R), (INR (length v) * u < 1)%R ->
  exists th : nat -> R,
    (forall k, (k < length v)%nat -> (Rabs (th k) <= gam u (length v))%R) /\
    norm_1 (A := ARm fadd fsub fmul fdiv) v = Rsum (length v) (fun k => (Rabs (nth k v 0) * (1 + th k))%R).
Print Assumptions norm_1_backward_error.
Example norm_1_backward_error_nonvacuous :
  (0 <= ux < 1)%R /\
  (forall x y : R, exists d : R, (Rabs d <= ux)%R /\ xadd x y = ((x + y) * (1 + d))%R) /\
  (INR (length [1%R; (-2)%R; 3%R]) * ux < 1)%R.
Proof. split; [exact ux_range|]. split; [exact xadd_ok|cbn [length INR]; pose proof ux_small; lra]. Qed.

Theorem norm_1_relative_error : forall (u : R), (0 <= u < 1)%R ->
  forall (fadd fsub fmul fdiv : R -> R -> R),
  (forall x y : R, exists d : R, (Rabs d <= u)%R /\ fadd x y = ((x + y) * (1 + d))%R) ->
  forall (v : list R), (INR (length v) * u < 1)%R ->
  (Rabs (norm_1 (A := ARm fadd fsub fmul fdiv) v - Rsum (length v) (fun k => Rabs (nth k v 0)))
     <= gam u (length v) * Rsum (length v) (fun k => Rabs (nth k v 0)))%R.
Proof. intros u Hu fadd fsub fmul fdiv Ha v. exact (norm_1_relative_error_lemma u Hu fadd fsub fmul fdiv Ha v). Qed.
Check norm_1_relative_error : forall (u : R), (0 <= u < 1)%R ->
  forall (fadd fsub fmul fdiv : R -> R -> R),
  (forall x y : R, exists d : R, (Rabs d <= u)%R /\ fadd x y = ((x + y) * (1 + d))%R) ->
  forall (v : list R), (INR (length v) * u < 1)%R ->
  (Rabs (norm_1 (A := ARm fadd fsub fmul fdiv) v - Rsum (length v) (fun k => Rabs (nth k v 0)))
     <= gam u (length v) * Rsum (length v) (fun k => Rabs (nth k v 0)))%R.
Print Assumptions norm_1_relative_error.
Example norm_1_relative_error_nonvacuous :
  (0 <= ux < 1)%R /\ (INR (length [1%R; (-2)%R; 3%R]) * ux < 1)%R.
Proof. split; [exact ux_range|cbn [length INR]; pose proof ux_small; lra]. Qed.

(* ---- norm_2 "to rounding accuracy": standard model extended by a rounded square root; relative error gam (n+1) ---- *)
From OV Require Import Proofs.RoundNorm2.

Theorem norm_2_relative_error : forall (u : R), (0 <= u < 1)%R ->
  forall (fadd fsub fmul fdiv : R -> R -> R) (fsqrt : R -> R),
  (forall x y : R, exists d : R, (Rabs d <= u)%R /\ fadd x y = ((x + y) * (1 + d))%R) ->
  (forall x y : R, exists d : R, (Rabs d <= u)%R /\ fmul x y = (x * y * (1 + d))%R) ->
  (forall a b : R, fadd 0%R (fmul a b) = fmul a b) ->
  (forall x : R, (0 <= x)%R -> exists d : R, (Rabs d <= u)%R /\ fsqrt x = (R_sqrt.sqrt x * (1 + d))%R) ->
  forall (v : list R), (INR (length v + 1) * u < 1)%R ->
  exists th : R, (Rabs th <= gam u (length v + 1))%R /\
    (norm_2 (F := SARm fadd fsub fmul fdiv fsqrt) Rabs v : R)
    = (R_sqrt.sqrt (Rsum (length v) (fun k => nth k v 0 * nth k v 0)) * (1 + th))%R.
Proof. intros u Hu fadd fsub fmul fdiv fsqrt Ha Hm H0 Hs v. exact (norm_2_relative_error_lemma u Hu fadd fsub fmul fdiv fsqrt Ha Hm H0 Hs v). Qed.
Check norm_2_relative_error : forall (u : R), (0 <= u < 1)%R ->
  forall (fadd fsub fmul fdiv : R -> R -> R) (fsqrt : R -> R),
  (forall x y : R, exists d : R, (Rabs d <= u)%R /\ fadd x y = ((x + y) * (1 + d))%R) ->
  (forall x y : R, exists d : R, (Rabs d <= u)%R /\ fmul x y = (x * y * (1 + d))%R) ->
  (forall a b : R, fadd 0%R (fmul a b) = fmul a b) ->
  (forall x : R, (0 <= x)%R -> exists d : R, (Rabs d <= u)%R /\ fsqrt x = (R_sqrt.sqrt x * (1 + d))%R) ->
  forall (v : list R), (INR (length v + 1) * u < 1)%R ->
  exists th : R, (Rabs th <= gam u (length v + 1))%R /\
    (norm_2 (F := SARm fadd fsub fmul fdiv fsqrt) Rabs v : R)
    = (R_sqrt.sqrt (Rsum (length v) (fun k => nth k v 0 * nth k v 0)) * (1 + th))%R.
Print Assumptions norm_2_relative_error.
(* the hypotheses are met by 53-bit round-to-nearest-even after every operation, the square root included *)
Example norm_2_relative_error_nonvacuous :
  (0 <= ux < 1)%R /\
  (forall x y : R, exists d : R, (Rabs d <= ux)%R /\ xadd x y = ((x + y) * (1 + d))%R) /\
  (forall x y : R, exists d : R, (Rabs d <= ux)%R /\ xmul x y = (x * y * (1 + d))%R) /\
  (forall a b : R, xadd 0%R (xmul a b) = xmul a b) /\
  (forall x : R, (0 <= x)%R -> exists d : R, (Rabs d <= ux)%R /\ rndx (R_sqrt.sqrt x) = (R_sqrt.sqrt x * (1 + d))%R) /\
  (INR (length [3%R; (-4)%R] + 1) * ux < 1)%R.
Proof.
  split; [exact ux_range|]. split; [exact xadd_ok|]. split; [exact xmul_ok|]. split; [exact xadd_0_mul|].
  split; [intros x _; apply rndx_rel|cbn [length Nat.add INR]; pose proof ux_small; lra].
Qed.

(* ---- recursive summation (sum_slice / sum) "to rounding accuracy": standard model, and the primitive floats with NO side
   condition beyond a finite result (float additions never lose relative accuracy to underflow) ---- *)
From OV Require Import Proofs.RoundSum.

Theorem sum_slice_backward_error : forall (u : R), (0 <= u < 1)%R ->
  forall (fadd fsub fmul fdiv : R -> R -> R),
  (forall x y : R, exists d : R, (Rabs d <= u)%R /\ fadd x y = ((x + y) * (1 + d))%R) ->
  forall (v : list R) (s e : nat) (r : R),
  (INR (length (slice v s e)) * u < 1)%R -> sum_slice (A := ARm fadd fsub fmul fdiv) v s e = Ok r ->
  exists th : nat -> R,
    (forall k, (k < length (slice v s e))%nat -> (Rabs (th k) <= gam u (length (slice v s e)))%R) /\
    r = Rsum (length (slice v s e)) (fun k => (nth k (slice v s e) 0 * (1 + th k))%R).
Proof. intros u Hu fadd fsub fmul fdiv Ha v s e r. exact (sum_slice_backward_error_lemma u Hu fadd fsub fmul fdiv Ha v s e r). Qed.
Check sum_slice_backward_error : forall (u : R), (0 <= u < 1)%R ->
  forall (fadd fsub fmul fdiv : R -> R -> R),
  (forall x y : R, exists d : R, (Rabs d <= u)%R /\ fadd x y = ((x + y) * (1 + d))%R) ->
  forall (v : list R) (s e : nat) (r : R),
  (INR (length (slice v s e)) * u < 1)%R -> sum_slice (A := ARm fadd fsub fmul fdiv) v s e = Ok r ->
  exists th : nat -> R,
    (forall k, (k < length (slice v s e))%nat -> (Rabs (th k) <= gam u (length (slice v s e)))%R) /\
    r = Rsum (length (slice v s e)) (fun k => (nth k (slice v s e) 0 * (1 + th k))%R).
Print Assumptions sum_slice_backward_error.
Example sum_slice_backward_error_nonvacuous :
  let v := [1%R; 2%R; 3%R; 4%R] in
  (0 <= ux < 1)%R /\
  (forall x y : R, exists d : R, (Rabs d <= ux)%R /\ xadd x y = ((x + y) * (1 + d))%R) /\
  (INR (length (slice v 1 2)) * ux < 1)%R /\ length (slice v 1 2) = 2%nat /\
  exists r, sum_slice (A := AFlx) v 1 2 = Ok r.
Proof.
  cbn zeta. split; [exact ux_range|]. split; [exact xadd_ok|].
  split; [cbn; pose proof ux_small; lra|]. split; [reflexivity|eexists; reflexivity].
Qed.

Theorem sum_slice_forward_error : forall (u : R), (0 <= u < 1)%R ->
  forall (fadd fsub fmul fdiv : R -> R -> R),
  (forall x y : R, exists d : R, (Rabs d <= u)%R /\ fadd x y = ((x + y) * (1 + d))%R) ->
  forall (v : list R) (s e : nat) (r : R),
  (INR (length (slice v s e)) * u < 1)%R -> sum_slice (A := ARm fadd fsub fmul fdiv) v s e = Ok r ->
  (Rabs (r - Rsum (length (slice v s e)) (fun k => nth k (slice v s e) 0))
     <= gam u (length (slice v s e)) * Rsum (length (slice v s e)) (fun k => Rabs (nth k (slice v s e) 0)))%R.
Proof. intros u Hu fadd fsub fmul fdiv Ha v s e r. exact (sum_slice_forward_error_lemma u Hu fadd fsub fmul fdiv Ha v s e r). Qed.
Check sum_slice_forward_error : forall (u : R), (0 <= u < 1)%R ->
  forall (fadd fsub fmul fdiv : R -> R -> R),
  (forall x y : R, exists d : R, (Rabs d <= u)%R /\ fadd x y = ((x + y) * (1 + d))%R) ->
  forall (v : list R) (s e : nat) (r : R),
  (INR (length (slice v s e)) * u < 1)%R -> sum_slice (A := ARm fadd fsub fmul fdiv) v s e = Ok r ->
  (Rabs (r - Rsum (length (slice v s e)) (fun k => nth k (slice v s e) 0))
     <= gam u (length (slice v s e)) * Rsum (length (slice v s e)) (fun k => Rabs (nth k (slice v s e) 0)))%R.
Print Assumptions sum_slice_forward_error.
Example sum_slice_forward_error_nonvacuous :
  let v := [1%R; 2%R; 3%R; 4%R] in
  (0 <= ux < 1)%R /\ (INR (length (slice v 1 2)) * ux < 1)%R /\ exists r, sum_slice (A := AFlx) v 1 2 = Ok r.
Proof. cbn zeta. split; [exact ux_range|]. split; [cbn; pose proof ux_small; lra|eexists; reflexivity]. Qed.

Theorem sum_slice_backward_error_float : forall (v : list PrimFloat.float) (s e : nat) (r : PrimFloat.float),
  sum_slice (A := AF) v s e = Ok r -> ffinite r -> (INR (length (slice v s e)) * u64 < 1)%R ->
  exists th : nat -> R,
    (forall k, (k < length (slice v s e))%nat -> (Rabs (th k) <= g64 (length (slice v s e)))%R) /\
    FR r = Rsum (length (slice v s e)) (fun k => (FR (nth k (slice v s e) 0%float) * (1 + th k))%R).
Proof. exact sum_slice_backward_error_float_lemma. Qed.
Check sum_slice_backward_error_float : forall (v : list PrimFloat.float) (s e : nat) (r : PrimFloat.float),
  sum_slice (A := AF) v s e = Ok r -> ffinite r -> (INR (length (slice v s e)) * u64 < 1)%R ->
  exists th : nat -> R,
    (forall k, (k < length (slice v s e))%nat -> (Rabs (th k) <= g64 (length (slice v s e)))%R) /\
    FR r = Rsum (length (slice v s e)) (fun k => (FR (nth k (slice v s e) 0%float) * (1 + th k))%R).
Print Assumptions sum_slice_backward_error_float.
Example sum_slice_backward_error_float_nonvacuous :   (* 0.1 + 1.5 + 3 in binary64 (0.1 as its nearest double): inexact *)
  let v := [0x1.999999999999ap-4%float; 1.5%float; 3%float] in
  (exists r, sum_slice (A := AF) v 0 2 = Ok r /\ ffinite r) /\ (INR (length (slice v 0 2)) * u64 < 1)%R.
Proof.
  cbn zeta. split; [eexists; split; [reflexivity|apply ffinite_SF; reflexivity]|].
  cbn; pose proof u64_small; lra.
Qed.

Theorem sum_slice_forward_error_float : forall (v : list PrimFloat.float) (s e : nat) (r : PrimFloat.float),
  sum_slice (A := AF) v s e = Ok r -> ffinite r -> (INR (length (slice v s e)) * u64 < 1)%R ->
  (Rabs (FR r - Rsum (length (slice v s e)) (fun k => FR (nth k (slice v s e) 0%float)))
     <= g64 (length (slice v s e)) * Rsum (length (slice v s e)) (fun k => Rabs (FR (nth k (slice v s e) 0%float))))%R.
Proof. exact sum_slice_forward_error_float_lemma. Qed.
Check sum_slice_forward_error_float : forall (v : list PrimFloat.float) (s e : nat) (r : PrimFloat.float),
  sum_slice (A := AF) v s e = Ok r -> ffinite r -> (INR (length (slice v s e)) * u64 < 1)%R ->
  (Rabs (FR r - Rsum (length (slice v s e)) (fun k => FR (nth k (slice v s e) 0%float)))
     <= g64 (length (slice v s e)) * Rsum (length (slice v s e)) (fun k => Rabs (FR (nth k (slice v s e) 0%float))))%R.
Print Assumptions sum_slice_forward_error_float.
Example sum_slice_forward_error_float_nonvacuous :
  let v := [0x1.999999999999ap-4%float; (-1.5)%float; 3%float] in
  (exists r, sum_slice (A := AF) v 0 2 = Ok r /\ ffinite r) /\ (INR (length (slice v 0 2)) * u64 < 1)%R.
Proof.
  cbn zeta. split; [eexists; split; [reflexivity|apply ffinite_SF; reflexivity]|].
  cbn; pose proof u64_small; lra.
Qed.

(* norm_1 at the primitive floats: relative error gam n whenever the computed norm is finite *)
Theorem norm_1_relative_error_float : forall (v : list PrimFloat.float),
  ffinite (norm_1 (A := AF) v) -> (INR (length v) * u64 < 1)%R ->
  (Rabs (FR (norm_1 (A := AF) v) - Rsum (length v) (fun k => Rabs (FR (nth k v 0%float))))
     <= g64 (length v) * Rsum (length v) (fun k => Rabs (FR (nth k v 0%float))))%R.
Proof. exact norm_1_relative_error_float_lemma. Qed.
Check norm_1_relative_error_float : forall (v : list PrimFloat.float),
  ffinite (norm_1 (A := AF) v) -> (INR (length v) * u64 < 1)%R ->
  (Rabs (FR (norm_1 (A := AF) v) - Rsum (length v) (fun k => Rabs (FR (nth k v 0%float))))
     <= g64 (length v) * Rsum (length v) (fun k => Rabs (FR (nth k v 0%float))))%R.
Print Assumptions norm_1_relative_error_float.
Example norm_1_relative_error_float_nonvacuous :
  let v := [0x1.999999999999ap-4%float; (-1.5)%float; 3%float] in
  ffinite (norm_1 (A := AF) v) /\ (INR (length v) * u64 < 1)%R.
Proof. cbn zeta. split; [apply ffinite_SF; reflexivity|cbn; pose proof u64_small; lra]. Qed.

