(* Proofs/BandedDet2Wide.v -- the hypothesis m1 <= n of the LU theorems of C04 is necessary, and what happens
   without it is known exactly: on a well-formed band with m1 > n, over ANY arithmetic, decompose falls off the
   compact buffer in its first loop (the left shift of the rows 0 .. m1-1 reaches row n, which the n x mm buffer
   does not have), so Banded::det and Banded::solve panic with an index error -- they never return a value.
   (Rows 0 .. n-1 are shifted without incident first; the panic is the read au[(n, m1 - n)].) *)
From Coq Require Import List Arith Lia ZArith Bool.
From OV Require Import Base.Panic Base.Arith Model.Vector Model.Matrix Model.Banded
                       Proofs.Banded Proofs.BandedLU Proofs.BandedTotal.
Import ListNotations.
Local Open Scope nat_scope.

(* a loop whose iterations lo .. lo+t-1 succeed (keeping I) and whose iteration lo+t panics *)
Lemma for_from_panic_at {S} (I : nat -> S -> Prop) (body : nat -> S -> res S) (k : pkind) :
  forall t n lo (s : S), t < n -> I lo s ->
  (forall i s, lo <= i < lo + t -> I i s -> exists s', body i s = Ok s' /\ I (Datatypes.S i) s') ->
  (forall s, I (lo + t) s -> body (lo + t) s = Panic k) ->
  for_from n lo body s = Panic k.
Proof.
  induction t as [|t IH]; intros n lo s Ht H0 Hstep Hpanic.
  - destruct n as [|n]; [lia|]. cbn [for_from]. rewrite Nat.add_0_r in Hpanic. now rewrite Hpanic.
  - destruct n as [|n]; [lia|]. cbn [for_from].
    destruct (Hstep lo s) as (s1 & E1 & H1); [lia|auto|]. rewrite E1. cbn [bind].
    apply (IH n (Datatypes.S lo) s1); [lia|auto| |].
    + intros i s' Hi HI. apply Hstep; auto. lia.
    + intros s' HI. replace (Datatypes.S lo + t) with (lo + Datatypes.S t) in * by lia. now apply Hpanic.
Qed.

Section Wide.
Context {A : Arith}.
Notation T := (T A).
Notation matrix := (matrix A).
Notation banded := (banded A).

Lemma shift_rows_wide n mm m1 (au : matrix) :
  okM n mm au -> n < m1 -> m1 < mm -> shift_rows m1 mm au = Panic Index.
Proof.
  intros Hau Hn Hmm. unfold shift_rows.
  match goal with |- context [for_ 0 m1 ?body ?s0] =>
    assert (E : for_ 0 m1 body s0 = Panic Index) end.
  { unfold for_ at 1. rewrite Nat.sub_0_r.
    apply (for_from_panic_at (fun i (st : matrix * nat) => okM n mm (fst st) /\ snd st = m1 - i) _ Index n m1 0).
    - exact Hn.
    - cbn [fst snd]. split; [auto|lia].
    - (* rows 0 .. n-1: as in shift_rows_total *)
      intros i [a l] Hi (Ha & Hl). cbn [fst snd Nat.add] in *. subst l.
      match goal with |- context [for_ (m1 - i) mm ?body ?s0] =>
        destruct (for_inv (fun _ m => okM n mm m) (m1 - i) mm body s0) as (a1 & E1 & Ha1) end; auto; try lia.
      { intros j m Hj Hm. destruct (mget_total n mm m i j) as (x & ->); auto; try lia. cbn [bind].
        apply (mset_total n mm); auto; lia. }
      rewrite E1. cbn [bind].
      match goal with |- context [for_ ?lo mm ?body a1] =>
        destruct (for_inv (fun _ m => okM n mm m) lo mm body a1) as (a2 & E2 & Ha2) end; auto; try lia.
      { intros j m Hj Hm. apply (mset_total n mm); auto; lia. }
      rewrite E2. cbn [bind]. eexists; split; [reflexivity|]. cbn [fst snd]. split; [auto|lia].
    - (* row n: the first read is off the buffer *)
      intros [a l] ((Hc & Hlen) & Hl). cbn [fst snd Nat.add] in *.
      unfold for_. destruct (mm - (m1 - n)) as [|q] eqn:Eq; [lia|]. cbn [for_from].
      unfold mget at 1. rewrite rd_panic by (rewrite Hc, Hlen; lia). reflexivity. }
  now rewrite E.
Qed.

(* m1 > n: det and solve panic (index), whatever the entries and whatever the arithmetic *)
Lemma band_wide_panics_lemma (B : banded) :
  wfB B -> bn B < bm1 B ->
  band_det B = Panic Index /\
  forall b : list T, band_solve B b = if bn B =? length b then Panic Index else Panic Guard.
Proof.
  intros (HwfM & Hrows & Hcols) Hn.
  assert (Hau : okM (bn B) (bm1 B + bm2 B + 1) (compact B)).
  { split; auto. unfold wfM in HwfM. now rewrite HwfM, Hrows, Hcols. }
  assert (E : forall al index, decompose_gen false B (compact B) al index = Panic Index).
  { intros al index. unfold decompose_gen.
    rewrite (shift_rows_wide (bn B) (bm1 B + bm2 B + 1) (bm1 B)); auto. lia. }
  split.
  - unfold band_det, band_det_gen. now rewrite E.
  - intros b. unfold band_solve, band_solve_gen.
    destruct (bn B =? length b); cbn [negb]; [|reflexivity]. now rewrite E.
Qed.

End Wide.
