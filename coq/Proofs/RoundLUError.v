(* Proofs/RoundLUError.v -- the backward error of the LU factorisation of Model/Solve.v ([lu_decomp], in-place with partial
   pivoting) in the STANDARD MODEL of floating-point arithmetic, the same Gallina lu_decomp at [ARm]:

     lu_factor_backward_error_lemma  (Higham, Accuracy and Stability of Numerical Algorithms, Theorem 9.3):
        L^ U^ = P A + dA ,   |dA| <= gam n |L^| |U^|   componentwise,
        L^ = unit lower triangle of the computed lu, U^ = its upper triangle, P = the computed row permutation,
        for every size n with n u < 1, provided the computed pivots lu_kk are nonzero.

   No growth-factor assumption is needed for this componentwise form: the growth factor only enters when |L^||U^| is
   compared with |A| (Higham sec. 9.3-9.4), which is NOT done here.
   Method: Proofs/RoundLUTrace.v gives Doolittle's closed form of every entry of lu (one left fold per entry, over the
   permuted rows); each fold is analysed as in Proofs/RoundBacksolve.v. *)
From Coq Require Import List Arith Lia Bool Reals Lra Psatz.
From OV Require Import Base.Panic Base.Arith Base.RoundModel Model.Vector Model.Matrix Model.Solve
  Proofs.Matrix Proofs.LUPrim Proofs.RoundDot Proofs.RoundMatvec Proofs.RoundBacksolve Proofs.RoundLUFun Proofs.RoundLUTrace.
Import ListNotations.
Local Open Scope R_scope.

Section LUError.
Variable u : R.
Hypothesis u_range : 0 <= u < 1.
Variables fadd fsub fmul fdiv : R -> R -> R.
Hypothesis fsub_ok : forall x y, exists d, Rabs d <= u /\ fsub x y = (x - y) * (1 + d).
Hypothesis fmul_ok : forall x y, exists d, Rabs d <= u /\ fmul x y = x * y * (1 + d).
Hypothesis fdiv_ok : forall x y, y <> 0 -> exists d, Rabs d <= u /\ fdiv x y = x / y * (1 + d).

Notation AR := (ARm fadd fsub fmul fdiv).
Notation bnd := (bnd u).
Notation gam := (gam u).
Notation rentry := (rentry fadd fsub fmul fdiv).
Notation triu := (triu fadd fsub fmul fdiv).
Notation tril1 := (tril1 fadd fsub fmul fdiv).
Notation lacc_f := (lacc_f fsub fmul).

(* the fold  a0 - E r 0 E 0 c - ... - E r (t-1) E (t-1) c  in the standard model *)
Lemma lacc_f_round (E : nat -> nat -> R) (r c t : nat) (a0 : R) :
  exists P W, bnd t P /\ (forall k, (k < t)%nat -> bnd (k + 1) (W k)) /\
    lacc_f E r c t a0 = P * (a0 - Rsum t (fun k => E r k * E k c * W k)).
Proof using u_range fsub_ok fmul_ok.
  induction t as [|t IH].
  - exists 1, (fun _ => 1). split; [apply bnd_0|]. split; [intros; lia|]. cbn. ring.
  - destruct IH as (P & W & HP & HW & E0).
    destruct (fmul_bnd u u_range fmul fmul_ok (E r t) (E t c)) as (em & Hem & Em).
    destruct (fsub_bnd u u_range fsub fsub_ok (lacc_f E r c t a0) (fmul (E r t) (E t c))) as (es & Hes & Es).
    exists (P * es), (fun k => if (k =? t)%nat then em / P else W k).
    split; [replace (S t) with (t + 1)%nat by lia; now apply bnd_mul|]. split.
    + intros k Hk. destruct (Nat.eqb_spec k t) as [->|Ne].
      * replace (t + 1)%nat with (1 + t)%nat by lia. now apply bnd_div.
      * apply HW. lia.
    + rewrite lacc_f_S, Es, Em, E0. cbn [Rsum]. rewrite Nat.eqb_refl.
      rewrite (Rsum_ext t (fun k => E r k * E k c * (if (k =? t)%nat then em / P else W k))
                 (fun k => E r k * E k c * W k)).
      2:{ intros k Hk. destruct (Nat.eqb_spec k t); [lia|reflexivity]. }
      pose proof (bnd_nz u u_range _ _ HP). field. assumption.
Qed.

(* Higham Theorem 9.3, entry by entry *)
Lemma lu_entry_backward (n : nat) (PA E : nat -> nat -> R) (r c : nat) :
  GoodF fsub fmul fdiv n n PA E -> (r < n)%nat -> (c < n)%nat -> (forall k, (k < n)%nat -> E k k <> 0) ->
  exists V : nat -> R, (forall k, (k < n)%nat -> bnd n (V k)) /\
    PA r c = Rsum n (fun k => (if (k <? r)%nat then E r k else if (k =? r)%nat then 1 else 0)
                              * (if (k <=? c)%nat then E k c else 0) * V k).
Proof using u_range fsub_ok fmul_ok fdiv_ok.
  intros G Hr Hc Dg. specialize (G r c Hr Hc). unfold CF in G.
  destruct (Nat.le_gt_cases r c) as [L|L].
  - (* an entry of U: r <= c *)
    assert (B : (c <? r)%nat && (c <? n)%nat = false) by (destruct (Nat.ltb_spec c r); [lia|reflexivity]).
    rewrite B in G. replace (Nat.min r (Nat.min c n)) with r in G by lia.
    destruct (lacc_f_round E r c r (PA r c)) as (P & W & HP & HW & E0). rewrite E0 in G.
    exists (fun k => if (k <? r)%nat then W k else if (k =? r)%nat then / P else 1). split.
    + intros k Hk. destruct (Nat.ltb_spec k r).
      * apply (bnd_mono u u_range (k + 1)); [lia|now apply HW].
      * destruct (Nat.eqb_spec k r); [apply (bnd_mono u u_range r); [lia|now apply bnd_inv]|apply bnd_1; exact u_range].
    + rewrite (Rsum_ext n _ (fun k => if (k <=? r)%nat
                                      then (if (k <? r)%nat then E r k * E k c * W k else E r c * / P) else 0)).
      2:{ intros k Hk. destruct (Nat.leb_spec k r) as [Lk|Lk].
          - destruct (Nat.ltb_spec k r) as [Lk'|Lk'].
            + destruct (Nat.leb_spec k c); [reflexivity|lia].
            + assert (k = r) by lia. subst k. rewrite Nat.eqb_refl. destruct (Nat.leb_spec r c); [ring|lia].
          - destruct (Nat.ltb_spec k r); [lia|]. destruct (Nat.eqb_spec k r); [lia|]. ring. }
      rewrite Rsum_head by exact Hr. cbn [Rsum]. rewrite Nat.ltb_irrefl.
      rewrite (Rsum_ext r _ (fun k => E r k * E k c * W k)).
      2:{ intros k Hk. destruct (Nat.ltb_spec k r); [reflexivity|lia]. }
      pose proof (bnd_nz u u_range _ _ HP). rewrite G. field. assumption.
  - (* a multiplier: r > c *)
    assert (B : (c <? r)%nat && (c <? n)%nat = true).
    { apply andb_true_intro. split; apply Nat.ltb_lt; lia. }
    rewrite B in G.
    destruct (lacc_f_round E r c c (PA r c)) as (P & W & HP & HW & E0). rewrite E0 in G.
    destruct (fdiv_bnd u u_range fdiv fdiv_ok (P * (PA r c - Rsum c (fun k => E r k * E k c * W k))) (E c c)
                (Dg c Hc)) as (e & He & Ed). rewrite Ed in G.
    exists (fun k => if (k <? c)%nat then W k else if (k =? c)%nat then / (P * e) else 1). split.
    + intros k Hk. destruct (Nat.ltb_spec k c).
      * apply (bnd_mono u u_range (k + 1)); [lia|now apply HW].
      * destruct (Nat.eqb_spec k c); [|apply bnd_1; exact u_range].
        apply (bnd_mono u u_range (c + 1)); [lia|]. apply bnd_inv; [exact u_range|now apply bnd_mul].
    + rewrite (Rsum_ext n _ (fun k => if (k <=? c)%nat
                                      then (if (k <? c)%nat then E r k * E k c * W k else E r c * E c c * / (P * e)) else 0)).
      2:{ intros k Hk. destruct (Nat.leb_spec k c) as [Lk|Lk].
          - destruct (Nat.ltb_spec k c) as [Lk'|Lk'].
            + destruct (Nat.ltb_spec k r); [reflexivity|lia].
            + assert (k = c) by lia. subst k. rewrite Nat.eqb_refl. destruct (Nat.ltb_spec c r); [ring|lia].
          - ring. }
      rewrite Rsum_head by exact Hc. cbn [Rsum]. rewrite Nat.ltb_irrefl.
      rewrite (Rsum_ext c _ (fun k => E r k * E k c * W k)).
      2:{ intros k Hk. destruct (Nat.ltb_spec k c); [reflexivity|lia]. }
      pose proof (bnd_nz u u_range _ _ HP). pose proof (bnd_nz u u_range _ _ He). pose proof (Dg c Hc).
      rewrite G. field. repeat split; assumption.
Qed.

Theorem lu_factor_backward_error_lemma (m lu perm : matrix AR) (piv : nat) :
  wf m -> INR (rows m) * u < 1 -> lu_decomp m = Ok (lu, piv, perm) ->
  (forall k, (k < rows m)%nat -> rentry lu k k <> 0) ->
  shape lu (rows m) (rows m) /\ shape perm (rows m) (rows m) /\
  exists tau, PermOK fadd fsub fmul fdiv (rows m) tau perm /\
    forall i c, (i < rows m)%nat -> (c < rows m)%nat ->
      exists th : nat -> R, (forall k, (k < rows m)%nat -> Rabs (th k) <= gam (rows m)) /\
        rentry m (tau i) c = Rsum (rows m) (fun k => tril1 lu i k * triu lu k c * (1 + th k)).
Proof using u_range fsub_ok fmul_ok fdiv_ok.
  intros W Hn E Dg.
  destruct (lu_decomp_trace fadd fsub fmul fdiv m lu perm piv W E) as (SL & SP & tau & PO & GD).
  split; [exact SL|]. split; [exact SP|]. exists tau. split; [exact PO|].
  destruct GD as [G|(c0 & Hc0 & Z)]; [|exfalso; exact (Dg c0 Hc0 Z)].
  intros i c Hi Hc.
  destruct (lu_entry_backward (rows m) _ _ i c G Hi Hc Dg) as (V & HV & EV).
  exists (fun k => V k - 1). split.
  - intros k Hk. apply (bnd_gam u u_range); [now apply HV|exact Hn].
  - change (rentry m (tau i) c) with (ent (A := AR) m (tau i) c). rewrite EV.
    apply Rsum_ext. intros k Hk. unfold RoundBacksolve.tril1, RoundBacksolve.triu.
    change (rentry lu i k) with (ent (A := AR) lu i k). change (rentry lu k c) with (ent (A := AR) lu k c). ring.
Qed.

End LUError.
