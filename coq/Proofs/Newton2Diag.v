(* Proofs/Newton2Diag.v -- C17 over the reals: nonlinear systems of ANY dimension, decoupled case
   (package newton2).  Newton<Vec64>::solve_jacobian (Model/Newton.v newton_sysjac at NRl) on
        F(x)_i = f_i(x_i),    jac(x) = diag(f_i'(x_i)),        i < dim,  1 <= dim,
   for arbitrary closures F / jac that return these values (hypotheses HF / HJ below).  The whole code
   path of a system pass is exercised in dimension dim: func, Vector::norm_inf over dim entries, jac,
   solve_basic (Gaussian elimination with pivoting on a dim x dim matrix: discharged by C01's completeness,
   soundness and a left inverse of the diagonal matrix), the vector update.

   norm_inf_R_spec         norm_inf returns the largest |v_i|;
   solve_diag              solve_basic on a nonsingular diagonal matrix divides componentwise;
   diag_pass               one pass: x'_i = x_i - f_i(x_i)/f_i'(x_i), test  max_i |f_i(x_i)| <= tol;
   newton_diag_*           each f_i as in Proofs/Newton2Scalar.v on [a_i, b_i] (common m, Mb, L), root r_i;
                           sup-norm ball |x0_i - r_i| <= rho with q = (L/m) rho < 1 inside the intervals:
                           no panic; |x^k_i - r_i| <= q^k rho; Ok as soon as Mb q^N rho <= tol, N < max_iter;
                           every Ok answer has |x_i - r_i| <= (L/m) (tol/m)^2. *)
From Coq Require Import List Arith Lia Reals Lra Psatz.
From OV Require Import Base.Panic Base.Arith Model.Vector Model.Matrix Model.Solve Model.Newton
  Proofs.Matrix Proofs.SolveBase Proofs.Solve Proofs.SolveComplete
  Proofs.NewtonLoop Proofs.Newton Proofs.NewtonJac Proofs.NewtonReal
  Proofs.Newton2Real Proofs.Newton2Scalar Proofs.Newton2Mono.
Import ListNotations.
Local Open Scope R_scope.

(* ---- Vector::norm_inf over R ---- *)
Lemma norm_inf_R_spec (v : list (NA NRl)) : (0 < length v)%nat ->
  exists r, norm_inf NRl v = Ok r /\
    (forall i, (i < length v)%nat -> Rabs (nth i v zero) <= r) /\
    (exists i, (i < length v)%nat /\ r = Rabs (nth i v zero)).
Proof.
  intros Hn. unfold norm_inf. rewrite (rd_ok v 0 zero) by exact Hn. cbn [bind].
  destruct (for_inv (fun k (r : NR NRl) => (forall i, (i < k)%nat -> Rabs (nth i v zero) <= r) /\
                                      (exists i, (i < k)%nat /\ r = Rabs (nth i v zero)))
             1 (length v)
             (fun i r => let* x := rd v i in if ltb r (mag NRl x) then Ok (mag NRl x) else Ok r)
             (mag NRl (nth 0 v zero))) as (r & E & H1 & H2).
  - lia.
  - split.
    + intros i Hi. assert (i = 0%nat) by lia. subst. cbn. lra.
    + exists 0%nat. split; [lia|reflexivity].
  - intros i r Hi (H1 & j & Hj & Ej). rewrite (rd_ok v i zero) by lia. cbn [bind].
    change (ltb r (mag NRl (nth i v zero))) with (R_ltb r (Rabs (nth i v zero))).
    change (mag NRl (nth i v zero)) with (Rabs (nth i v zero)).
    unfold R_ltb. destruct (Rlt_dec r (Rabs (nth i v zero))) as [Hlt|Hge].
    + eexists. split; [reflexivity|]. split.
      * intros k Hk. destruct (Nat.eq_dec k i) as [->|Hne]; [lra|].
        assert (Hki : (k < i)%nat) by lia. specialize (H1 k Hki). lra.
      * exists i. split; [lia|reflexivity].
    + eexists. split; [reflexivity|]. split.
      * intros k Hk. destruct (Nat.eq_dec k i) as [->|Hne]; [lra|]. apply H1. lia.
      * exists j. split; [lia|exact Ej].
  - exists r. split; [exact E|]. split; [exact H1|]. destruct H2 as (i & Hi & Ei). exists i. split; [lia|exact Ei].
Qed.

Lemma div_from_mul (d u w : R) : d <> 0 -> d * u = w -> u = w / d.
Proof. intros Hd <-. field. exact Hd. Qed.

(* ---- solve_basic on a nonsingular diagonal matrix ---- *)
Lemma solve_diag (J : matrix AR) (b : list R) (dim : nat) (d : nat -> R) :
  wf J -> rows J = dim -> cols J = dim -> (1 <= dim)%nat -> length b = dim ->
  (forall i j, (i < dim)%nat -> (j < dim)%nat -> ent J i j = if (i =? j)%nat then d i else 0) ->
  (forall i, (i < dim)%nat -> d i <> 0) ->
  exists dx, solve_basic J b = Ok dx /\ length dx = dim /\
    forall i, (i < dim)%nat -> nth i dx 0 = nth i b 0 / d i.
Proof.
  intros W Hr Hc Hn Lb HE Hd.
  assert (Hsq : rows J = cols J) by congruence.
  assert (Lb' : length b = rows J) by congruence.
  assert (LI : exists N : nat -> nat -> AR, left_inverse (rows J) N (ent J)).
  { exists (fun i k => if (i =? k)%nat then / d i else 0). rewrite Hr. intros i j Hi Hj.
    rewrite (sum_n_single ARn_FieldLaws dim i); [|exact Hi|].
    - rewrite Nat.eqb_refl, (HE i j Hi Hj). destruct (i =? j)%nat; cbn; [field; auto|ring].
    - intros k Hk Hne. destruct (Nat.eqb_spec i k); [congruence|]. cbn. ring. }
  destruct (solve_basic_complete_lemma ARn_FieldLaws ARn_PivLaws J b W Hsq Lb' ltac:(lia) LI) as (dx & E).
  destruct (solve_basic_sound_lemma ARn_FieldLaws J b dx W Hsq Lb' E) as [Lx S].
  exists dx. split; [exact E|]. split; [congruence|].
  intros i Hi. specialize (S i ltac:(lia)). rewrite Hr in S. unfold mvprod in S.
  rewrite (sum_n_single ARn_FieldLaws dim i) in S; [|exact Hi|].
  2:{ intros k Hk Hne. rewrite (HE i k Hi Hk). destruct (Nat.eqb_spec i k); [congruence|]. cbn. ring. }
  rewrite (HE i i Hi Hi), Nat.eqb_refl in S.
  exact (div_from_mul (d i) _ _ (Hd i Hi) S).
Qed.

Section Decoupled.
Variables (dim : nat) (f f' : nat -> R -> R).
Variables (F : list R -> res (list R)) (Jc : list R -> res (matrix AR)).
Hypothesis Hdim : (1 <= dim)%nat.
Hypothesis HF : forall x, length x = dim ->
  exists v, F x = Ok v /\ length v = dim /\ forall i, (i < dim)%nat -> nth i v 0 = f i (nth i x 0).
Hypothesis HJ : forall x, length x = dim ->
  exists J, Jc x = Ok J /\ wf J /\ rows J = dim /\ cols J = dim /\
    forall i j, (i < dim)%nat -> (j < dim)%nat ->
      ent J i j = if (i =? j)%nat then f' i (nth i x 0) else 0.

(* one pass *)
Lemma diag_pass tl x : length x = dim -> (forall i, (i < dim)%nat -> f' i (nth i x 0) <> 0) ->
  exists x' mr e, sysjac_step NRl tl F Jc x = Ok (x', R_leb mr tl, e) /\ length x' = dim /\
    (forall i, (i < dim)%nat -> nth i x' 0 = nth i x 0 - f i (nth i x 0) / f' i (nth i x 0)) /\
    (forall i, (i < dim)%nat -> Rabs (f i (nth i x 0)) <= mr) /\
    (exists i, (i < dim)%nat /\ mr = Rabs (f i (nth i x 0))).
Proof.
  intros Lx Hd.
  destruct (HF x Lx) as (v & EF & Lv & Hv).
  destruct (HJ x Lx) as (J & EJ & W & Hr & Hc & HE).
  assert (Hlv : (0 < length v)%nat) by lia.
  destruct (norm_inf_R_spec v Hlv) as (mr & EN & Hmax & (k & Hk & Ek)).
  destruct (solve_diag J v dim (fun i => f' i (nth i x 0)) W Hr Hc Hdim Lv HE Hd) as (dx & ES & Ldx & Hdx).
  exists (@zipw AR (@sub AR) x dx), mr, [CF x; CJ x]. split.
  - unfold sysjac_step. rewrite EF. cbn [bind]. rewrite EN. cbn [bind]. rewrite EJ. cbn [bind].
    change (@solve_basic (NA NRl)) with (@solve_basic AR). rewrite ES. cbn [bind].
    unfold vsub_assign. rewrite nw_vsub_ok by (transitivity dim; [exact Lx|symmetry; exact Ldx]). reflexivity.
  - split; [rewrite nw_zipw_length; [exact Lx|transitivity dim; [exact Lx|symmetry; exact Ldx]]|]. split; [|split].
    + intros i Hi.
      assert (Hix : (i < length x)%nat) by (rewrite Lx; exact Hi).
      assert (Hidx : (i < length dx)%nat) by (rewrite Ldx; exact Hi).
      change 0 with (@zero AR) at 1. rewrite nw_zipw_nth; [|exact Hix|exact Hidx].
      pose proof (Hdx i Hi) as E1. pose proof (Hv i Hi) as E2.
      assert (G : nth i x 0 - nth i dx 0 = nth i x 0 - f i (nth i x 0) / f' i (nth i x 0))
        by (rewrite E1, E2; reflexivity).
      exact G.
    + intros i Hi. assert (Hiv : (i < length v)%nat) by (rewrite Lv; exact Hi).
      pose proof (Hmax i Hiv) as G. pose proof (Hv i Hi) as E2.
      assert (G' : Rabs (nth i v 0) <= mr) by exact G. rewrite E2 in G'. exact G'.
    + assert (Hkd : (k < dim)%nat) by (rewrite <- Lv; exact Hk).
      exists k. split; [exact Hkd|]. pose proof (Hv k Hkd) as E2.
      assert (G' : mr = Rabs (nth k v 0)) by exact Ek. rewrite E2 in G'. exact G'.
Qed.

(* ---- the basin, in the sup norm ---- *)
Section Basin.
Variables (a b r : nat -> R) (m Mb L rho tl : R).
Hypothesis Hder : forall i, (i < dim)%nat -> forall c, a i <= c <= b i -> derivable_pt_lim (f i) c (f' i c).
Hypothesis Hm : 0 < m.
Hypothesis HL : 0 <= L.
Hypothesis Hlo : forall i, (i < dim)%nat -> forall c, a i <= c <= b i -> m <= Rabs (f' i c).
Hypothesis Hhi : forall i, (i < dim)%nat -> forall c, a i <= c <= b i -> Rabs (f' i c) <= Mb.
Hypothesis Hlip : forall i, (i < dim)%nat -> forall u v, a i <= u <= b i -> a i <= v <= b i ->
  Rabs (f' i u - f' i v) <= L * Rabs (u - v).
Hypothesis Hroot : forall i, (i < dim)%nat -> f i (r i) = 0.
Hypothesis Hrho : 0 <= rho.
Hypothesis Hin : forall i, (i < dim)%nat -> a i <= r i - rho /\ r i + rho <= b i.
Notation q := (L / m * rho).
Hypothesis Hq : q < 1.

Definition in_ball (e : R) (x : list R) : Prop :=
  length x = dim /\ forall i, (i < dim)%nat -> Rabs (nth i x 0 - r i) <= e.

Lemma q_nonneg_d : 0 <= q.
Proof. apply Rmult_le_pos; [|exact Hrho]. unfold Rdiv. apply Rmult_le_pos; [exact HL|]. left. now apply Rinv_0_lt_compat. Qed.

Lemma comp_in i y : (i < dim)%nat -> Rabs (y - r i) <= rho -> a i <= y <= b i /\ a i <= r i <= b i.
Proof. intros Hi H. destruct (Hin i Hi). unfold Rabs in H. destruct (Rcase_abs (y - r i)); lra. Qed.

(* one pass from a point of the ball of radius e <= rho *)
Lemma diag_basin_pass e x : e <= rho -> in_ball e x ->
  exists x' bt ev, sysjac_step NRl tl F Jc x = Ok (x', bt, ev) /\
    in_ball (q * e) x' /\
    (forall i, (i < dim)%nat -> Rabs (nth i x' 0 - r i) <= L / m * (Rabs (nth i x 0 - r i) * Rabs (nth i x 0 - r i))) /\
    (bt = false -> tl < Mb * e) /\
    (bt = true -> forall i, (i < dim)%nat -> Rabs (nth i x 0 - r i) <= tl / m).
Proof.
  intros He [Lx Hx].
  assert (Hc : forall i, (i < dim)%nat ->
            f' i (nth i x 0) <> 0 /\
            Rabs (nth i x 0 - f i (nth i x 0) / f' i (nth i x 0) - r i) <=
              L / m * (Rabs (nth i x 0 - r i) * Rabs (nth i x 0 - r i)) /\
            Rabs (f i (nth i x 0)) <= Mb * Rabs (nth i x 0 - r i) /\
            m * Rabs (nth i x 0 - r i) <= Rabs (f i (nth i x 0))).
  { intros i Hi. specialize (Hx i Hi).
    destruct (comp_in i (nth i x 0) Hi ltac:(lra)) as [Hy Hri].
    destruct (exact_pass_err (f i) (f' i) (a i) (b i) (Hder i Hi) m Mb L (r i) Hm HL (Hlo i Hi) (Hhi i Hi)
                (Hlip i Hi) Hri (Hroot i Hi) (nth i x 0) Hy) as (N & H1 & _ & _).
    destruct (root_mvt (f i) (f' i) (a i) (b i) (Hder i Hi) (r i) Hri (Hroot i Hi) (nth i x 0) Hy) as (xi & Hxi & _ & Ef).
    split; [exact N|]. split; [exact H1|].
    rewrite Ef, Rabs_mult. pose proof (Hlo i Hi xi Hxi). pose proof (Hhi i Hi xi Hxi).
    pose proof (Rabs_pos (nth i x 0 - r i)). split; nra. }
  destruct (diag_pass tl x Lx (fun i Hi => proj1 (Hc i Hi))) as (x' & mr & ev & Es & Lx' & Hx' & Hmax & (k & Hk & Ek)).
  exists x', (R_leb mr tl), ev. split; [exact Es|].
  pose proof q_nonneg_d as Hq0.
  assert (HLm : 0 <= L / m) by (unfold Rdiv; apply Rmult_le_pos; [exact HL|left; now apply Rinv_0_lt_compat]).
  assert (Hquad : forall i, (i < dim)%nat ->
            Rabs (nth i x' 0 - r i) <= L / m * (Rabs (nth i x 0 - r i) * Rabs (nth i x 0 - r i))).
  { intros i Hi. rewrite (Hx' i Hi). exact (proj1 (proj2 (Hc i Hi))). }
  split; [|split; [exact Hquad|split]].
  - split; [exact Lx'|]. intros i Hi. eapply Rle_trans; [apply Hquad; exact Hi|].
    specialize (Hx i Hi). pose proof (Rabs_pos (nth i x 0 - r i)) as HA.
    replace (L / m * rho * e) with (L / m * (rho * e)) by ring.
    apply Rmult_le_compat_l; [exact HLm|]. nra.
  - intros Hb. apply R_leb_false in Hb. rewrite Ek in Hb.
    destruct (Hc k Hk) as (_ & _ & H3 & _). specialize (Hx k Hk).
    pose proof (Mb_pos (f' k) (a k) (b k) m Mb (r k) Hm (Hlo k Hk) (Hhi k Hk)) as HMb.
    destruct (comp_in k (nth k x 0) Hk ltac:(lra)) as [_ Hrk]. specialize (HMb Hrk).
    assert (Mb * Rabs (nth k x 0 - r k) <= Mb * e) by (apply Rmult_le_compat_l; lra). lra.
  - intros Hb. apply R_leb_true in Hb. intros i Hi.
    destruct (Hc i Hi) as (_ & _ & _ & H4). specialize (Hmax i Hi).
    apply (Rmult_le_reg_l m); [exact Hm|].
    assert (Em : m * (tl / m) = tl) by (field; lra). rewrite Em. lra.
Qed.

Lemma in_ball_weaken e e' x : e <= e' -> in_ball e x -> in_ball e' x.
Proof. intros He [Lx Hx]. split; [exact Lx|]. intros i Hi. specialize (Hx i Hi). lra. Qed.

Lemma qe_le e : 0 <= e -> q * e <= e.
Proof. intros He. pose proof q_nonneg_d. nra. Qed.

(* no panic *)
Lemma newton_diag_total_lemma dl n x0 : in_ball rho x0 ->
  exists res evs, newton_sysjac NRl (mkCfg tl dl n x0) F Jc = Ok (res, evs).
Proof.
  intros H0. unfold newton_sysjac. cbn [tol delta max_iter guess].
  apply (nloop_total _ (in_ball rho)); [|exact H0].
  intros x Hx. destruct (diag_basin_pass rho x (Rle_refl rho) Hx) as (x' & bt & ev & E & Hb & _).
  do 3 eexists. split; [exact E|]. eapply in_ball_weaken; [|exact Hb]. apply qe_le. exact Hrho.
Qed.

(* failed passes contract the sup-norm error *)
Lemma diag_run k x xk es :
  run (sysjac_step NRl tl F Jc) k x xk es -> forall e, 0 <= e <= rho -> in_ball e x -> in_ball (q ^ k * e) xk.
Proof.
  induction 1 as [x|k x x1 xk ev es P Rn IH]; intros e He H0.
  - cbn. eapply in_ball_weaken; [|exact H0]. lra.
  - unfold pass in P. destruct (diag_basin_pass e x (proj2 He) H0) as (x1' & bt & ev' & E & Hb & _).
    pose proof (eq_trans (eq_sym E) P) as Q. injection Q as -> _ _.
    pose proof q_nonneg_d as Hq0. pose proof (qe_le e (proj1 He)).
    assert (He' : 0 <= q * e <= rho) by (split; [apply Rmult_le_pos; lra|lra]).
    specialize (IH (q * e) He' Hb). cbn [pow].
    replace (q * q ^ k * e) with (q ^ k * (q * e)) by ring. exact IH.
Qed.

(* every Ok answer: componentwise within (L/m) (tol/m)^2 of the root *)
Lemma newton_diag_ok_close_lemma dl n x0 x evs : in_ball rho x0 ->
  newton_sysjac NRl (mkCfg tl dl n x0) F Jc = Ok (NOk x, evs) ->
  in_ball rho x /\ forall i, (i < dim)%nat -> Rabs (nth i x 0 - r i) <= L / m * (tl / m * (tl / m)).
Proof.
  intros H0 H. unfold newton_sysjac in H. cbn [tol delta max_iter guess] in H.
  apply nloop_spec in H as [(es & x' & Hx & _)|(k & es & xk & x' & e & Hx & Hk & Rn & P & _)]; [discriminate|].
  injection Hx as <-.
  pose proof (diag_run _ _ _ _ Rn rho (conj Hrho (Rle_refl rho)) H0) as Hk'.
  pose proof q_nonneg_d as Hq0.
  assert (Hqk : q ^ k * rho <= rho).
  { assert (q ^ k <= 1) by (apply pow_incr_1 || (rewrite <- (pow1 k); apply pow_incr; lra)). nra. }
  assert (Hxk : in_ball rho xk) by (eapply in_ball_weaken; [exact Hqk|exact Hk']).
  unfold pass in P. destruct (diag_basin_pass rho xk (Rle_refl rho) Hxk) as (x1 & bt & ev & E & Hb & Hquad & _ & Ht).
  pose proof (eq_trans (eq_sym E) P) as Q. injection Q as -> -> _.
  split; [eapply in_ball_weaken; [|exact Hb]; apply qe_le; exact Hrho|].
  intros i Hi. eapply Rle_trans; [apply Hquad; exact Hi|].
  specialize (Ht eq_refl i Hi). pose proof (Rabs_pos (nth i xk 0 - r i)).
  assert (HLm : 0 <= L / m) by (unfold Rdiv; apply Rmult_le_pos; [exact HL|left; now apply Rinv_0_lt_compat]).
  apply Rmult_le_compat_l; [exact HLm|].
  assert (G : forall A T : R, 0 <= A <= T -> A * A <= T * T) by (intros A T HAT; nra).
  apply G. split; [apply Rabs_pos|exact Ht].
Qed.

(* enough passes => Ok *)
Lemma newton_diag_ok_lemma dl N n x0 : in_ball rho x0 ->
  Mb * (q ^ N * rho) <= tl -> (N < n)%nat ->
  exists x evs, newton_sysjac NRl (mkCfg tl dl n x0) F Jc = Ok (NOk x, evs) /\
    in_ball rho x /\ forall i, (i < dim)%nat -> Rabs (nth i x 0 - r i) <= L / m * (tl / m * (tl / m)).
Proof.
  intros H0 HN Hn. destruct (newton_diag_total_lemma dl n x0 H0) as (res & evs & H).
  destruct res as [x|x].
  - exists x, evs. split; [exact H|]. exact (newton_diag_ok_close_lemma dl n x0 x evs H0 H).
  - exfalso. unfold newton_sysjac in H. cbn [tol delta max_iter guess] in H.
    apply nloop_spec in H as [(es & x' & _ & Rn & _)|(k & es & xk & x' & e & Hx & _)]; [|discriminate].
    destruct (run_prefix _ _ _ _ _ N Rn Hn) as (xj & x1 & e1 & Rj & Pj).
    pose proof (diag_run _ _ _ _ Rj rho (conj Hrho (Rle_refl rho)) H0) as Hj.
    pose proof q_nonneg_d as Hq0. pose proof (pow_le q N Hq0) as Hqp.
    assert (Hqk : q ^ N * rho <= rho).
    { assert (q ^ N <= 1) by (rewrite <- (pow1 N); apply pow_incr; lra). nra. }
    unfold pass in Pj.
    destruct (diag_basin_pass (q ^ N * rho) xj Hqk Hj) as (x2 & bt & ev & E & _ & _ & Hf & _).
    pose proof (eq_trans (eq_sym E) Pj) as Q. injection Q as _ -> _. specialize (Hf eq_refl). lra.
Qed.

End Basin.
End Decoupled.
