(* Proofs/MeshBase.v -- shared vocabulary of the mesh proofs: representation invariants of
   Model/Mesh.v, and the arithmetic instance over R at which the f64-only methods
   (interpolation, quadrature) are proved. *)
From Coq Require Import List Arith Lia Bool Reals Lra ZArith.
From OV Require Import Base.Panic.
From OV Require Import Base.Arith.
From OV Require Import Model.Vector.
From OV Require Import Model.Matrix.
From OV Require Import Model.Mesh.
From OV Require gen.Params.
Import ListNotations.

Section WF.
Context {A : Arith} {X : Type}.

(* one variable vector of length nvars per node *)
Definition wf1 (m : mesh1 A X) : Prop :=
  length (m1_vars m) = length (m1_nodes m) /\
  Forall (fun r => length r = m1_nvars m) (m1_vars m).

Definition wf2 (m : mesh2 A X) : Prop :=
  m2_nx m = length (m2_x m) /\ m2_ny m = length (m2_y m) /\
  length (m2_vars m) = m2_nx m * m2_ny m /\
  Forall (fun r => length r = m2_nvars m) (m2_vars m).

End WF.

(* ---- the arithmetic of R, in the shape of the Arith record ---- *)
Definition Rltb (x y : R) : bool := if Rlt_dec x y then true else false.
Definition Rleb (x y : R) : bool := if Rle_dec x y then true else false.
Definition Reqb (x y : R) : bool := if Req_EM_T x y then true else false.
Definition Rabs' (x : R) : R := if Rltb x 0 then (- x)%R else x.          (* traits.rs impl_signed! shape *)
Definition Rdiv' (x y : R) : res R := if Reqb y 0 then Panic DivZero else Ok (x / y)%R.

Definition AR : Arith := {|
  T := R; zero := 0%R; one := 1%R;
  add := Rplus; sub := Rminus; mul := Rmult; neg := Ropp;
  abs := Rabs'; div := Rdiv'; eqb := Reqb; ltb := Rltb; leb := Rleb |}.

Lemma Rltb_true x y : Rltb x y = true <-> (x < y)%R.
Proof. unfold Rltb; destruct (Rlt_dec x y); split; auto; discriminate. Qed.
Lemma Rltb_false x y : Rltb x y = false <-> (y <= x)%R.
Proof. unfold Rltb; destruct (Rlt_dec x y); split; auto; try discriminate; lra. Qed.
Lemma Reqb_true x y : Reqb x y = true <-> x = y.
Proof. unfold Reqb; destruct (Req_EM_T x y); split; auto; discriminate. Qed.
Lemma Reqb_false x y : Reqb x y = false <-> x <> y.
Proof. unfold Reqb; destruct (Req_EM_T x y); split; auto; try discriminate; contradiction. Qed.
Lemma Rabs'_Rabs x : Rabs' x = Rabs x.
Proof.
  unfold Rabs', Rabs. destruct (Rltb x 0) eqn:E.
  - apply Rltb_true in E. destruct (Rcase_abs x); lra.
  - apply Rltb_false in E. destruct (Rcase_abs x); lra.
Qed.
Lemma Rdiv'_ok x y : y <> 0%R -> Rdiv' x y = Ok (x / y)%R.
Proof. intros H; unfold Rdiv'. apply Reqb_false in H. now rewrite H. Qed.

(* the literals of the f64-only code, over R.  The snapping window is the constant the
   translator reads from the source (gen/Params.v, regenerated on every check). *)
Definition halfR : R := (/ 2)%R.
Definition quarterR : R := (/ 4)%R.
Definition snapR : R :=
  (IZR (fst Params.MESH_SNAP_Q) / IZR (Zpos (snd Params.MESH_SNAP_Q)))%R.
