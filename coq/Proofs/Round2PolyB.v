(* Proofs/Round2PolyB.v -- package round2, C12: the hypotheses of Proofs/Round2Poly.v discharged for the rounding
   arithmetic AFlx of Proofs/RoundFlx.v (every operation = the exact one followed by round-to-nearest-even to 53 bits),
   with F = the numbers representable in that format, and a concrete division in it whose quotient is inexact:
        (1 + x) / 3  =  (c + c x)  remainder 0,   c = fl(1/3) <> 1/3
   (two passes of the loop; the discarded leading coefficients 1 - 3 c are the error of the identity). *)
From Coq Require Import ZArith Reals Lra Lia List.
From Flocq Require Import Core.
From OV Require Import Base.Panic Base.Arith Base.RoundModel gen.Params Model.Poly Proofs.PolyDiv Proofs.RoundFlx Proofs.Round2Poly.
Import ListNotations.
Local Open Scope R_scope.

Definition Fx (x : R) : Prop := generic_format radix2 (FLX_exp 53) x.

Lemma Fx_rndx x : Fx (rndx x).
Proof. unfold Fx, rndx. apply generic_format_round; [apply FLX_exp_valid; exact P53x|apply valid_rnd_N]. Qed.
Lemma rndx_Fx x : Fx x -> rndx x = x.
Proof. intros H. unfold rndx. apply round_generic; [apply valid_rnd_N|exact H]. Qed.
Lemma Fx_sub x y : Fx (xsub x y).  Proof. apply Fx_rndx. Qed.
Lemma Fx_mul x y : Fx (xmul x y).  Proof. apply Fx_rndx. Qed.
Lemma Fx_div x y : Fx (xdiv x y).  Proof. apply Fx_rndx. Qed.
Lemma xadd_0_l x : Fx x -> xadd 0 x = x.
Proof. intros H. unfold xadd. rewrite Rplus_0_l. now apply rndx_Fx. Qed.
Lemma xadd_0_r x : Fx x -> xadd x 0 = x.
Proof. intros H. unfold xadd. rewrite Rplus_0_r. now apply rndx_Fx. Qed.
Lemma xsub_0_r x : Fx x -> xsub x 0 = x.
Proof. intros H. unfold xsub. rewrite Rminus_0_r. now apply rndx_Fx. Qed.
Lemma Fx_0 : Fx 0.
Proof. apply generic_format_0. Qed.
Lemma Fx_1 : Fx 1.
Proof.
  unfold Fx. change 1 with (bpow radix2 0). apply generic_format_bpow. unfold FLX_exp. lia.
Qed.

Lemma xdiv13_nz : xdiv 1 3 <> 0.
Proof. unfold xdiv. apply rndx_nz. lra. Qed.



Notation c13 := (xdiv 1 3).
Ltac dec_step :=
  match goal with
  | |- context [Req_EM_T ?a ?b] =>
      destruct (Req_EM_T a b); [try (exfalso; first [contradiction | lra])|try (exfalso; first [congruence | lra])]
  end.

Lemma ex_r0 : xsub (xadd 0 1) (xadd 0 (xmul 0 3)) = 1.
Proof.
  unfold xmul, xadd, xsub. rewrite Rmult_0_l, rndx_0, !Rplus_0_l, rndx_0, Rminus_0_r.
  now rewrite !(rndx_Fx 1 Fx_1).
Qed.

Lemma ex_body1 : polydiv_body (A := AFlx) [] [1; 1] [3] = Ok ([0; c13], [1]).
Proof.
  pose proof xdiv13_nz as Hc.
  unfold polydiv_body. cbn. repeat dec_step. cbn [rev app]. now rewrite ex_r0.
Qed.

Lemma ex_body2 : polydiv_body (A := AFlx) [0; c13] [1] [3] = Ok ([c13; c13], [0]).
Proof.
  pose proof xdiv13_nz as Hc.
  unfold polydiv_body. cbn. rewrite (xadd_0_l 0 Fx_0), !(xadd_0_l c13 (Fx_div 1 3)).
  repeat dec_step. reflexivity.
Qed.

Lemma AFlx_eqb00 : eqb (a := AFlx) zero zero = true.
Proof. cbn. destruct (Req_EM_T 0 0); [reflexivity|congruence]. Qed.

Lemma ex_loop : polydiv_loop (A := AFlx) 2 0 [] [1; 1] [3] = Ok (inl ([c13; c13], [0])).
Proof.
  rewrite polydiv_loop_unfold. cbn [length is_zero forallb Nat.ltb Nat.leb orb eqb AFlx ARm andb zero].
  repeat dec_step. cbn [andb orb]. rewrite ex_body1. cbn [bind fst snd].
  change (POLYDIV_MAX <? 1)%nat with false. cbv iota.
  rewrite polydiv_loop_unfold. cbn [length is_zero forallb Nat.ltb Nat.leb orb eqb AFlx ARm andb zero].
  repeat dec_step. cbn [andb orb]. rewrite ex_body2. cbn [bind fst snd].
  change (POLYDIV_MAX <? 2)%nat with false. cbv iota.
  rewrite polydiv_loop_unfold. cbn [length is_zero forallb Nat.ltb Nat.leb orb eqb AFlx ARm andb zero].
  repeat dec_step. reflexivity.
Qed.

Lemma ex_polydiv : polydiv (A := AFlx) [1; 1] [3] = Ok (inl ([c13; c13], [0])).
Proof.
  rewrite <- ex_loop. symmetry.
  apply (@polydiv_passes AFlx AFlx_eqb00 (fun x y _ => ex_intro _ _ eq_refl)).
  - discriminate.
  - cbn. dec_step. reflexivity.
  - cbn. dec_step. reflexivity.
  - unfold POLYDIV_MAX. cbn [length]. lia.
  - cbn [length]. lia.
Qed.
