(* Proofs/Round2PolyB.v -- package round2, C12: the hypotheses of Proofs/Round2Poly.v discharged for the rounding
   arithmetic AFlx of Proofs/RoundFlx.v (every operation = the exact one followed by round-to-nearest-even to 53 bits),
   with F = the numbers representable in that format, and a concrete division in it whose quotient is inexact:
        (1 + x) / 3  =  (c + c x)  remainder 0,   c = fl(1/3) <> 1/3
   (two passes of the loop; the discarded leading coefficients 1 - 3 c are the error of the identity), and
        (1 + x + x^2) / (1 + 3x)  =  (c2 + c x)  remainder y,   c2 = fl(fl(1 - c)/3),  y = fl(1 - c2). *)
From Coq Require Import ZArith Reals Lra Lia List.
From Flocq Require Import Core.
From OV Require Import Base.Panic Base.Arith Base.RoundModel gen.Params Model.Poly Proofs.PolyDiv Proofs.RoundFlx Proofs.Round2Poly.
Import ListNotations.
Local Open Scope R_scope.

Definition Fx (x : R) : Prop := generic_format radix2 (FLX_exp 53) x.

Lemma Fx_rndx x : Fx (rndx x).
Proof. unfold Fx, rndx. apply generic_format_round; [apply FLX_exp_valid; exact P53x|apply valid_rnd_N]. Qed.
Lemma rndx_Fx x : Fx x -> rndx x = x.
Proof. intros H. unfold rndx. apply round_generic; [apply valid_rnd_N|exact H]. Qed.
Lemma Fx_sub x y : Fx (xsub x y).  Proof. apply Fx_rndx. Qed.
Lemma Fx_mul x y : Fx (xmul x y).  Proof. apply Fx_rndx. Qed.
Lemma Fx_div x y : Fx (xdiv x y).  Proof. apply Fx_rndx. Qed.
Lemma xadd_0_l x : Fx x -> xadd 0 x = x.
Proof. intros H. unfold xadd. rewrite Rplus_0_l. now apply rndx_Fx. Qed.
Lemma xadd_0_r x : Fx x -> xadd x 0 = x.
Proof. intros H. unfold xadd. rewrite Rplus_0_r. now apply rndx_Fx. Qed.
Lemma xsub_0_r x : Fx x -> xsub x 0 = x.
Proof. intros H. unfold xsub. rewrite Rminus_0_r. now apply rndx_Fx. Qed.
Lemma Fx_0 : Fx 0.
Proof. apply generic_format_0. Qed.
Lemma Fx_1 : Fx 1.
Proof.
  unfold Fx. change 1 with (bpow radix2 0). apply generic_format_bpow. unfold FLX_exp. lia.
Qed.

Lemma xdiv13_nz : xdiv 1 3 <> 0.
Proof. unfold xdiv. apply rndx_nz. lra. Qed.



Notation c13 := (xdiv 1 3).
Ltac dec_step :=
  match goal with
  | |- context [Req_EM_T ?a ?b] =>
      destruct (Req_EM_T a b); [try (exfalso; first [contradiction | lra])|try (exfalso; first [congruence | lra])]
  end.

Lemma ex_r0 : xsub (xadd 0 1) (xadd 0 (xmul 0 3)) = 1.
Proof.
  unfold xmul, xadd, xsub. rewrite Rmult_0_l, rndx_0, !Rplus_0_l, rndx_0, Rminus_0_r.
  now rewrite !(rndx_Fx 1 Fx_1).
Qed.

Lemma ex_body1 : polydiv_body (A := AFlx) [] [1; 1] [3] = Ok ([0; c13], [1]).
Proof.
  pose proof xdiv13_nz as Hc.
  unfold polydiv_body. cbn. repeat dec_step. cbn [rev app]. now rewrite ex_r0.
Qed.

Lemma ex_body2 : polydiv_body (A := AFlx) [0; c13] [1] [3] = Ok ([c13; c13], [0]).
Proof.
  pose proof xdiv13_nz as Hc.
  unfold polydiv_body. cbn. rewrite (xadd_0_l 0 Fx_0), !(xadd_0_l c13 (Fx_div 1 3)).
  repeat dec_step. reflexivity.
Qed.

Lemma AFlx_eqb00 : eqb (a := AFlx) zero zero = true.
Proof. cbn. destruct (Req_EM_T 0 0); [reflexivity|congruence]. Qed.

Lemma ex_loop : polydiv_loop (A := AFlx) 2 0 [] [1; 1] [3] = Ok (inl ([c13; c13], [0])).
Proof.
  rewrite polydiv_loop_unfold. cbn [length is_zero forallb Nat.ltb Nat.leb orb eqb AFlx ARm andb zero].
  repeat dec_step. cbn [andb orb]. rewrite ex_body1. cbn [bind fst snd].
  change (POLYDIV_MAX <? 1)%nat with false. cbv iota.
  rewrite polydiv_loop_unfold. cbn [length is_zero forallb Nat.ltb Nat.leb orb eqb AFlx ARm andb zero].
  repeat dec_step. cbn [andb orb]. rewrite ex_body2. cbn [bind fst snd].
  change (POLYDIV_MAX <? 2)%nat with false. cbv iota.
  rewrite polydiv_loop_unfold. cbn [length is_zero forallb Nat.ltb Nat.leb orb eqb AFlx ARm andb zero].
  repeat dec_step. reflexivity.
Qed.

Lemma ex_polydiv : polydiv (A := AFlx) [1; 1] [3] = Ok (inl ([c13; c13], [0])).
Proof.
  rewrite <- ex_loop. symmetry.
  apply (@polydiv_passes AFlx AFlx_eqb00 (fun x y _ => ex_intro _ _ eq_refl)).
  - discriminate.
  - cbn. dec_step. reflexivity.
  - cbn. dec_step. reflexivity.
  - unfold POLYDIV_MAX. cbn [length]. lia.
  - cbn [length]. lia.
Qed.

(* ---- a division with a divisor of degree 1: (1 + x + x^2) / (1 + 3x): two passes, each coefficient of the remainder
   goes through a rounded product and a rounded subtraction *)
Definition ex_x1 : R := xsub 1 c13.
Definition ex_c2 : R := xdiv ex_x1 3.
Definition ex_y : R := xsub 1 ex_c2.

Lemma c13_bounds : / 4 <= c13 <= / 2.
Proof.
  unfold xdiv. destruct (rndx_rel (1 / 3)) as (d & Hd & ->). pose proof ux_small.
  assert (- ux <= d <= ux) by (unfold Rabs in Hd; destruct (Rcase_abs d); lra). split; nra.
Qed.
Lemma ex_x1_nz : ex_x1 <> 0.
Proof. unfold ex_x1, xsub. apply rndx_nz. pose proof c13_bounds. lra. Qed.
Lemma ex_c2_nz : ex_c2 <> 0.
Proof.
  unfold ex_c2, xdiv. apply rndx_nz. pose proof ex_x1_nz as Hx. intros E. apply Hx.
  apply (Rmult_eq_reg_r (/ 3)); [|lra]. unfold Rdiv in E. lra.
Qed.

Lemma xmul_0_l x : xmul 0 x = 0.
Proof. unfold xmul. now rewrite Rmult_0_l, rndx_0. Qed.
Lemma xmul_1_r x : Fx x -> xmul x 1 = x.
Proof. intros H. unfold xmul. rewrite Rmult_1_r. now apply rndx_Fx. Qed.

Lemma ex2_body1 : polydiv_body (A := AFlx) [] [1; 1; 1] [1; 3] = Ok ([0; c13], [1; ex_x1]).
Proof.
  pose proof xdiv13_nz as Hc. pose proof ex_x1_nz as Hx.
  unfold polydiv_body. cbn.
  rewrite !xmul_0_l, !(xadd_0_l 0 Fx_0), !(xadd_0_l 1 Fx_1), (xmul_1_r c13 (Fx_div 1 3)), (xsub_0_r 1 Fx_1).
  rewrite (xadd_0_l c13 (Fx_div 1 3)). fold ex_x1.
  repeat dec_step. reflexivity.
Qed.

Lemma ex2_body2 : polydiv_body (A := AFlx) [0; c13] [1; ex_x1] [1; 3] = Ok ([ex_c2; c13], [ex_y]).
Proof.
  pose proof xdiv13_nz as Hc. pose proof ex_c2_nz as Hx.
  unfold polydiv_body. cbn. fold ex_c2.
  rewrite !(xadd_0_l 0 Fx_0), !(xadd_0_l 1 Fx_1), (xmul_1_r ex_c2 (Fx_div _ 3)), (xadd_0_l c13 (Fx_div 1 3)).
  rewrite !(xadd_0_l ex_c2 (Fx_div _ 3)). fold ex_y.
  repeat dec_step. reflexivity.
Qed.

Lemma ex2_loop : polydiv_loop (A := AFlx) 3 0 [] [1; 1; 1] [1; 3] = Ok (inl ([ex_c2; c13], [ex_y])).
Proof.
  pose proof ex_x1_nz as Hx.
  rewrite polydiv_loop_unfold. cbn [length is_zero forallb Nat.ltb Nat.leb orb eqb AFlx ARm andb zero].
  repeat dec_step. cbn [andb orb]. rewrite ex2_body1. cbn [bind fst snd].
  change (POLYDIV_MAX <? 1)%nat with false. cbv iota.
  rewrite polydiv_loop_unfold. cbn [length is_zero forallb Nat.ltb Nat.leb orb eqb AFlx ARm andb zero].
  repeat dec_step. cbn [andb orb]. rewrite ex2_body2. cbn [bind fst snd].
  change (POLYDIV_MAX <? 2)%nat with false. cbv iota.
  rewrite polydiv_loop_unfold. cbn [length is_zero forallb Nat.ltb Nat.leb orb eqb AFlx ARm andb zero].
  repeat dec_step; reflexivity.
Qed.

Lemma ex2_polydiv : polydiv (A := AFlx) [1; 1; 1] [1; 3] = Ok (inl ([ex_c2; c13], [ex_y])).
Proof.
  rewrite <- ex2_loop. symmetry.
  apply (@polydiv_passes AFlx AFlx_eqb00 (fun x y _ => ex_intro _ _ eq_refl)).
  - discriminate.
  - cbn. repeat dec_step; reflexivity.
  - cbn. dec_step. reflexivity.
  - unfold POLYDIV_MAX. cbn [length]. lia.
  - cbn [length]. lia.
Qed.

(* ================================================================================================================
   binary64 itself: [polydiv] at the primitive floats (AF), through Flocq.
   Method (as Proofs/RoundPolyFloat.v): a finite answer (q, r) forces every state of the float run to be finite
   (body_fin_inv, loop_fin_inv: each kept value is an operand of a finite kept value, and the cancelled leading
   coefficient is the numerator of a finite quotient coefficient); each operation whose result is kept is then the
   correctly rounded exact one, so the float run maps under FR to the run of the SAME [polydiv] in the total
   standard-model arithmetic A64r of Proofs/RoundDotFloat.v (body_transfer, loop_transfer_fin), to which
   Proofs/Round2Poly.v applies with F = all reals (in A64r, 0 + x = x + 0 = x - 0 = x for every real x).
   The product c * v_top of each pass is NOT required to be finite or free of underflow: its only use is the
   coefficient that the repaired loop overwrites with zero.
     polydiv_rounded_identity_float_lemma :
        polydiv (A := AF) a v = Ok (q, r),  q and r finite,  FR (lead v) <> 0,  pd_nounder ... ->
        | FR a_k - Sum_i FR q_i FR v_{k-i} - FR r_k |  <=  g64 (2 M) ( |FR a_k| + Sum_i |FR q_i| |FR v_{k-i}| )
   [pd_nounder]: no quotient r_top / v_top and no product c * v_j (j below the leading index) of the run underflows (a
   condition on computable values of the run).  Not covered: underflow, overflow of kept values.
   ================================================================================================================ *)
From Coq Require Import Floats Bool Arith.
From Flocq Require Import BinarySingleNaN PrimFloat.
From OV Require Import Base.Panic Base.Arith Inst.FloatInst Proofs.Poly Proofs.ComplexRound Proofs.RoundDotFloat Proofs.RoundTriFloat.
Import Base.Arith Model.Poly.

(* ---- one operation: a finite result is the correctly rounded exact one, i.e. the operation of A64r on the images *)
Lemma add_hom (x y : pfloat) : ffinite (x + y)%float ->
  ffinite x /\ ffinite y /\ FR (x + y)%float = Fadd (FR x) (FR y).
Proof.
  intros H. destruct (fadd_finite_inv x y H) as (Hx & Hy & E). split; [exact Hx|]. split; [exact Hy|].
  rewrite Fadd_fmt by apply FR_fmt. exact E.
Qed.
Lemma sub_hom (x y : pfloat) : ffinite (x - y)%float ->
  ffinite x /\ ffinite y /\ FR (x - y)%float = Fsub (FR x) (FR y).
Proof.
  intros H. destruct (fsub_finite_inv x y H) as (Hx & Hy & E). split; [exact Hx|]. split; [exact Hy|].
  rewrite Fsub_fmt by apply FR_fmt. exact E.
Qed.
Lemma mul_hom (x y : pfloat) : ffinite (x * y)%float -> no_underflow (FR x * FR y) ->
  ffinite x /\ ffinite y /\ FR (x * y)%float = Fmul (FR x) (FR y).
Proof.
  intros H U. destruct (fmul_finite_inv x y H) as (Hx & Hy & E). split; [exact Hx|]. split; [exact Hy|].
  rewrite Fmul_nounder by exact U. exact E.
Qed.
Lemma div_hom (x y : pfloat) : ffinite (x / y)%float -> FR y <> 0 -> no_underflow (FR x / FR y) ->
  ffinite x /\ FR (x / y)%float = Fdiv (FR x) (FR y).
Proof.
  intros H Hy U. destruct (fdiv_finite_inv x y H Hy) as (Hx & E). split; [exact Hx|].
  rewrite Fdiv_nounder by exact U. exact E.
Qed.

Lemma ffinite_0 : ffinite 0%float.
Proof. apply ffinite_SF. reflexivity. Qed.

(* ---- comparison with zero *)
Lemma feqb0_finite (x : pfloat) : (x =? 0)%float = true -> ffinite x /\ FR x = 0.
Proof.
  rewrite eqb_equiv. unfold ffinite, FR. change (Prim2B 0%float) with (B754_zero false : binary_float prec emax).
  destruct (Prim2B x) as [s|s| |s m e B]; cbn; try discriminate; auto; destruct s; discriminate.
Qed.
Lemma feqb0_spec (x : pfloat) : ffinite x ->
  (x =? 0)%float = (if Req_EM_T (FR x) 0 then true else false).
Proof.
  intros H. rewrite eqb_equiv, Beqb_correct by (exact H || reflexivity).
  change (B2R (Prim2B 0%float)) with 0. fold (FR x).
  destruct (Req_EM_T (FR x) 0) as [E|N]; [now apply Req_bool_true|now apply Req_bool_false].
Qed.

Notation Ffin := (Forall ffinite).

(* ---- trim, is_zero: the control flow of the float run is the control flow of the run on the images *)
Lemma trim_rev_F_spec (l : list pfloat) :
  exists Z, l = Z ++ trim_rev (A := AF) l /\ Forall (fun x => (x =? 0)%float = true) Z.
Proof.
  induction l as [|c t IH]; [exists []; split; [reflexivity|constructor]|].
  destruct t as [|b t']; [exists []; split; [reflexivity|constructor]|].
  rewrite (@trim_rev_cons2 AF). destruct (eqb (a := AF) c zero) eqn:E; [|exists []; split; [reflexivity|constructor]].
  destruct IH as (Z & IH & HZ). exists (c :: Z). change (T AF) with pfloat in *. split; [cbn [app]; f_equal; exact IH|constructor; [exact E|exact HZ]].
Qed.

Lemma trim_rev_transfer (l : list pfloat) : Ffin l ->
  map FR (trim_rev (A := AF) l) = trim_rev (A := A64r) (map FR l).
Proof.
  induction l as [|c t IH]; intros H; [reflexivity|]. destruct t as [|b t']; [reflexivity|].
  cbn [map]. rewrite (@trim_rev_cons2 AF), (@trim_rev_cons2 A64r).
  change (eqb (a := AF) c zero) with (c =? 0)%float. rewrite feqb0_spec by (inversion H; assumption).
  change (eqb (a := A64r) (FR c) zero) with (if Req_EM_T (FR c) 0 then true else false).
  destruct (Req_EM_T (FR c) 0); [|reflexivity]. apply IH. inversion H; assumption.
Qed.

Lemma ptrim_transfer (p p' : list pfloat) : ptrim (A := AF) p = Ok p' -> Ffin p ->
  ptrim (A := A64r) (map FR p) = Ok (map FR p').
Proof.
  destruct p as [|a t]; [discriminate|]. intros E; injection E as <-. intros H.
  change (map FR (a :: t)) with (FR a :: map FR t). unfold ptrim. f_equal.
  change (FR a :: map FR t) with (map FR (a :: t)).
  rewrite <- map_rev, <- trim_rev_transfer by (apply Forall_rev; exact H). now rewrite map_rev.
Qed.

Lemma ptrim_fin_inv (p p' : list pfloat) : ptrim (A := AF) p = Ok p' -> Ffin p' -> Ffin p.
Proof.
  destruct p as [|a t]; [discriminate|]. intros E; injection E as <-. intros H.
  change (rev t ++ [a]) with (rev (a :: t)) in H.
  destruct (trim_rev_F_spec (rev (a :: t))) as (Z & EZ & HZ).
  apply Forall_rev in H. rewrite rev_involutive in H.
  rewrite <- (rev_involutive (a :: t)). apply Forall_rev. rewrite EZ. apply Forall_app. split; [|exact H].
  eapply Forall_impl; [|exact HZ]. intros x Hx. now apply feqb0_finite.
Qed.

Lemma is_zero_transfer (r : list pfloat) : Ffin r -> is_zero (A := AF) r = is_zero (A := A64r) (map FR r).
Proof.
  induction r as [|c t IH]; intros H; [reflexivity|]. cbn [is_zero forallb map].
  change (eqb (a := AF) c zero) with (c =? 0)%float. rewrite feqb0_spec by (inversion H; assumption).
  change (eqb (a := A64r) (FR c) zero) with (if Req_EM_T (FR c) 0 then true else false).
  f_equal. apply IH. inversion H; assumption.
Qed.

(* ---- padd, psub, pmul on finite results *)
Lemma FR_zero : FR (@zero AF) = @zero A64r.
Proof. exact FR_0. Qed.

Lemma padd_elt_transfer (oa ob : option pfloat) :
  ffinite (opt_acc (A := AF) add (opt_acc (A := AF) add zero oa) ob) ->
  FR (opt_acc (A := AF) add (opt_acc (A := AF) add zero oa) ob)
  = opt_acc (A := A64r) add (opt_acc (A := A64r) add zero (option_map FR oa)) (option_map FR ob).
Proof.
  destruct oa as [a|], ob as [b|]; cbn [opt_acc option_map]; intros H.
  - destruct (add_hom _ _ H) as (H1 & _ & E). change (@add AF) with PrimFloat.add in *. rewrite E.
    destruct (add_hom _ _ H1) as (_ & _ & E1). rewrite E1, FR_zero. reflexivity.
  - destruct (add_hom _ _ H) as (_ & _ & E). change (@add AF) with PrimFloat.add in *. rewrite E, FR_zero. reflexivity.
  - destruct (add_hom _ _ H) as (_ & _ & E). change (@add AF) with PrimFloat.add in *. rewrite E, FR_zero. reflexivity.
  - exact FR_zero.
Qed.

Lemma psub_elt_transfer (oa ob : option pfloat) :
  ffinite (opt_acc (A := AF) sub (opt_acc (A := AF) add zero oa) ob) ->
  FR (opt_acc (A := AF) sub (opt_acc (A := AF) add zero oa) ob)
  = opt_acc (A := A64r) sub (opt_acc (A := A64r) add zero (option_map FR oa)) (option_map FR ob).
Proof.
  destruct oa as [a|], ob as [b|]; cbn [opt_acc option_map]; intros H.
  - destruct (sub_hom _ _ H) as (H1 & _ & E). change (@sub AF) with PrimFloat.sub in *. rewrite E.
    destruct (add_hom _ _ H1) as (_ & _ & E1). change (@add AF) with PrimFloat.add in *. rewrite E1, FR_zero. reflexivity.
  - destruct (add_hom _ _ H) as (_ & _ & E). change (@add AF) with PrimFloat.add in *. rewrite E, FR_zero. reflexivity.
  - destruct (sub_hom _ _ H) as (_ & _ & E). change (@sub AF) with PrimFloat.sub in *. rewrite E, FR_zero. reflexivity.
  - exact FR_zero.
Qed.

Lemma padd_transfer (q t : list pfloat) : Ffin (padd (A := AF) q t) ->
  map FR (padd (A := AF) q t) = padd (A := A64r) (map FR q) (map FR t).
Proof.
  destruct q as [|x q]; [reflexivity|]. destruct t as [|y t]; [reflexivity|].
  intros H. rewrite (@padd_cons AF) in *. change (map FR (x :: q)) with (FR x :: map FR q).
  change (map FR (y :: t)) with (FR y :: map FR t). rewrite (@padd_cons A64r).
  change (FR x :: map FR q) with (map FR (x :: q)). change (FR y :: map FR t) with (map FR (y :: t)).
  rewrite !map_length, map_map. apply map_ext_in. intros i Hi. rewrite !nth_error_map.
  apply padd_elt_transfer. rewrite Forall_forall in H. apply H. apply in_map_iff. exists i. split; [reflexivity|exact Hi].
Qed.

Lemma psub_ne_gen {A : Arith} (p q : list A) : p <> [] -> q <> [] ->
  psub p q = map (fun i => opt_acc sub (opt_acc add zero (nth_error p i)) (nth_error q i))
                 (seq 0 (Nat.max (length p) (length q))).
Proof. destruct p; [congruence|]. destruct q; [congruence|]. reflexivity. Qed.

Lemma psub_nth_transfer (P Qf : list pfloat) (Qr : list R) i :
  P <> [] -> Qf <> [] -> length Qr = length Qf -> (i < Nat.max (length P) (length Qf))%nat ->
  nth_error Qr i = option_map FR (nth_error Qf i) ->
  ffinite (nth i (psub (A := AF) P Qf) 0%float) ->
  FR (nth i (psub (A := AF) P Qf) 0%float) = nth i (psub (A := A64r) (map FR P) Qr) 0.
Proof.
  intros NP NQ L Hi EQ H.
  assert (NP' : map FR P <> []) by (destruct P; [congruence|discriminate]).
  assert (NQ' : Qr <> []) by (destruct Qr; [destruct Qf; [congruence|discriminate]|discriminate]).
  rewrite (@psub_ne_gen AF) in * by assumption. rewrite (@psub_ne_gen A64r) by assumption.
  change (T A64r) with R. change (T AF) with pfloat in *. rewrite map_length, L.
  rewrite (nth_map_seq _ _ _ 0%float) in * by exact Hi. rewrite (nth_map_seq _ _ _ 0) by exact Hi.
  rewrite nth_error_map, EQ. now apply psub_elt_transfer.
Qed.

Lemma pmul_coeff_transfer (t v : list pfloat) k :
  (forall i a b, nth_error t i = Some a -> (i <= k)%nat -> nth_error v (k - i) = Some b -> no_underflow (FR a * FR b)) ->
  ffinite (pmul_coeff (A := AF) t v k) ->
  FR (pmul_coeff (A := AF) t v k) = pmul_coeff (A := A64r) (map FR t) (map FR v) k.
Proof.
  intros U. unfold pmul_coeff. rewrite map_length. change (T AF) with pfloat. generalize (seq 0 (length t)). intros l.
  induction l as [|i l IH] using rev_ind; [intros _; exact FR_zero|].
  rewrite !fold_left_app. cbn [fold_left]. rewrite !nth_error_map.
  destruct (nth_error t i) as [a|] eqn:Ea; cbn [option_map]; [|exact IH].
  destruct (Nat.leb_spec i k) as [Lk|Lk]; [|exact IH].
  destruct (nth_error v (k - i)) as [b|] eqn:Eb; cbn [option_map]; [|exact IH].
  intros H. destruct (add_hom _ _ H) as (Ha & Hp & E). change (@add AF) with PrimFloat.add in *.
  change (@mul AF) with PrimFloat.mul in *. rewrite E, (IH Ha).
  destruct (mul_hom _ _ Hp (U i a b Ea Lk Eb)) as (_ & _ & Em). rewrite Em. reflexivity.
Qed.

Lemma pmul_ne_gen {A : Arith} (p q : list A) : p <> [] -> q <> [] ->
  pmul p q = map (pmul_coeff p q) (seq 0 (length p + length q - 1)).
Proof. destruct p; [congruence|]. destruct q; [congruence|]. reflexivity. Qed.

Lemma nth_error_map_seq {X} (f : nat -> X) n k : (k < n)%nat -> nth_error (map f (seq 0 n)) k = Some (f k).
Proof.
  intros H. rewrite nth_error_map. rewrite (nth_error_nth' (seq 0 n) 0%nat) by (rewrite seq_length; exact H).
  cbn [option_map]. now rewrite seq_nth.
Qed.

Lemma padd_fin_r (q t : list pfloat) : Ffin (padd (A := AF) q t) -> Ffin t.
Proof.
  destruct q as [|x q]; [auto|]. destruct t as [|y t]; [constructor|]. intros H.
  rewrite (@padd_cons AF) in H.
  rewrite Forall_forall in *. intros z Hz. apply In_nth_error in Hz as (i & Ei).
  assert (Li : (i < length (y :: t))%nat) by (apply nth_error_Some; congruence).
  assert (Hf : ffinite (opt_acc (A := AF) add (opt_acc (A := AF) add zero (nth_error (x :: q) i)) (nth_error (y :: t) i))).
  { apply H. apply in_map_iff. exists i. split; [reflexivity|]. apply in_seq. change (T AF) with pfloat in *. lia. }
  rewrite Ei in Hf. cbn [opt_acc] in Hf.
  now destruct (add_hom _ _ Hf) as (_ & Hz' & _).
Qed.

Lemma map_FR_monomial s (c : pfloat) : map FR (repeat 0%float s ++ [c]) = repeat 0 s ++ [FR c].
Proof. rewrite map_app. f_equal. induction s as [|s IH]; [reflexivity|]. cbn [repeat map]. now rewrite IH. Qed.

Lemma Ffin_nth (l : list pfloat) k : Ffin l -> ffinite (nth k l 0%float).
Proof.
  intros H. destruct (Nat.lt_ge_cases k (length l)) as [L|L].
  - rewrite Forall_forall in H. apply H. now apply nth_In.
  - rewrite nth_overflow by exact L. exact ffinite_0.
Qed.

(* ---- one pass of the loop: the float run maps to the run of the same body in A64r *)
Lemma body_transfer (q r v q1 r1 : list pfloat) :
  r <> [] -> v <> [] -> (length v <= length r)%nat -> FR (nth (length v - 1) v 0%float) <> 0 ->
  polydiv_body (A := AF) q r v = Ok (q1, r1) ->
  Ffin q1 -> Ffin r1 ->
  no_underflow (FR (nth (length r - 1) r 0%float) / FR (nth (length v - 1) v 0%float)) ->
  (forall j, (j < length v - 1)%nat ->
     no_underflow (FR (nth (length r - 1) r 0 / nth (length v - 1) v 0)%float * FR (nth j v 0%float))) ->
  polydiv_body (A := A64r) (map FR q) (map FR r) (map FR v) = Ok (map FR q1, map FR r1).
Proof.
  intros Nr Nv Hlen Hvl E Hq1 Hr1 Ud Um.
  unfold polydiv_body in E |- *. cbv zeta in E |- *. rewrite !map_length.
  change (T AF) with pfloat in *. change (@zero AF) with 0%float in *.
  assert (Lr : (0 < length r)%nat) by (destruct r; [congruence|cbn; lia]).
  assert (Lv : (0 < length v)%nat) by (destruct v; [congruence|cbn; lia]).
  apply bind_ok in E as (rl & E1 & E). apply (rd_Ok_inv _ _ _ 0%float) in E1 as (_ & ->).
  apply bind_ok in E as (vl & E2 & E). apply (rd_Ok_inv _ _ _ 0%float) in E2 as (_ & ->).
  apply bind_ok in E as (c & Ec & E).
  change (Ok (nth (length r - 1) r 0 / nth (length v - 1) v 0)%float = Ok c) in Ec. injection Ec as Ec.
  rewrite Ec in Um.
  set (rl := nth (length r - 1) r 0%float) in *. set (vl := nth (length v - 1) v 0%float) in *.
  replace (length r - 1 - (length v - 1))%nat with (length r - length v)%nat in * by lia.
  set (s := (length r - length v)%nat) in *.
  set (t := repeat 0%float s ++ [c]) in *.
  assert (Lt : length t = S s) by (unfold t; rewrite app_length, repeat_length; cbn [length]; lia).
  assert (Nt : t <> []) by (intros Z; rewrite Z in Lt; discriminate).
  assert (Lm : length (pmul (A := AF) t v) = length r).
  { rewrite length_pmul by auto. change (T AF) with pfloat. unfold s in *. lia. }
  set (r0 := psub (A := AF) r (pmul (A := AF) t v)) in *.
  assert (L0 : length r0 = length r) by (unfold r0; rewrite length_psub; change (T AF) with pfloat in *; lia).
  apply bind_ok in E as (l & El & E). unfold usub in El.
  destruct (1 <=? _)%nat in El; [|discriminate]. injection El as <-.
  apply bind_ok in E as (r2 & E2 & E). apply upd_Ok_inv in E2 as (Hl & ->).
  apply bind_ok in E as (r3 & E3 & E).
  apply bind_ok in E as (q3 & E4 & E). injection E as <- <-.
  unfold poly in *. change (T AF) with pfloat in *.
  (* finiteness, backwards from the outputs *)
  pose proof (ptrim_fin_inv _ _ E4 Hq1) as Fp.
  pose proof (ptrim_fin_inv _ _ E3 Hr1) as Fu.
  assert (Fc : ffinite c).
  { pose proof (padd_fin_r _ _ Fp) as Ft. rewrite Forall_forall in Ft. apply Ft. unfold t. apply in_or_app. right. now left. }
  destruct (div_hom rl vl ltac:(rewrite Ec; exact Fc) Hvl Ud) as (_ & Edv). rewrite Ec in Edv.
  (* the run in A64r *)
  rewrite (rd_ok _ _ 0) by (rewrite map_length; lia). cbn [bind]. rewrite nth_map_FR. fold rl.
  rewrite (rd_ok _ _ 0) by (rewrite map_length; lia). cbn [bind]. rewrite nth_map_FR. fold vl.
  change (div (a := A64r) (FR rl) (FR vl)) with (Ok (Fdiv (FR rl) (FR vl))). cbn [bind]. rewrite <- Edv.
  change (@zero A64r) with 0. change (T A64r) with R. rewrite <- (map_FR_monomial s c). fold t.
  set (t' := map FR t). set (v' := map FR v). set (r' := map FR r).
  assert (Nt' : t' <> []) by (unfold t'; destruct t; [congruence|discriminate]).
  assert (Nv' : v' <> []) by (unfold v'; destruct v; [congruence|discriminate]).
  assert (Lm' : length (pmul (A := A64r) t' v') = length r).
  { rewrite length_pmul by auto. unfold t', v'. rewrite !map_length. change (T A64r) with R. unfold s in *. lia. }
  set (r0' := psub (A := A64r) r' (pmul (A := A64r) t' v')).
  assert (L0' : length r0' = length r).
  { unfold r0'. rewrite length_psub. unfold r'. rewrite map_length. change (T A64r) with R in *. lia. }
  unfold usub. change (T A64r) with R in *. rewrite L0'.
  destruct (Nat.leb_spec 1 (length r)) as [_|]; [|lia]. cbn [bind].
  rewrite upd_ok by lia. cbn [bind].
  assert (EU : upd_list r0' (length r - 1) 0 = map FR (upd_list r0 (length r0 - 1) 0%float)).
  { apply (list_eq_nth _ _ 0).
    { rewrite map_length, !upd_list_length. lia. }
    intros k. rewrite nth_map_FR, !nth_upd_list by lia. rewrite L0.
    destruct (Nat.eqb_spec k (length r - 1)) as [->|Nk]; [symmetry; exact FR_0|].
    destruct (Nat.lt_ge_cases k (length r)) as [Hk|Hk].
    2:{ rewrite !nth_overflow by lia. symmetry. exact FR_0. }
    assert (Fk : ffinite (nth k r0 0%float)).
    { pose proof (Ffin_nth _ k Fu) as Fk. rewrite nth_upd_list in Fk by lia. rewrite L0 in Fk.
      destruct (Nat.eqb_spec k (length r - 1)); [congruence|exact Fk]. }
    symmetry. unfold r0, r0', r'.
    assert (Np : pmul (A := AF) t v <> []) by (intros Z; rewrite Z in Lm; cbn in Lm; lia).
    apply psub_nth_transfer; auto.
    - change (T A64r) with R. rewrite Lm', Lm. reflexivity.
    - change (T AF) with pfloat. rewrite Lm. lia.
    - (* the product coefficient *)
      rewrite (@pmul_ne_gen AF) by auto. rewrite (@pmul_ne_gen A64r) by auto.
      unfold t', v'. rewrite !map_length. change (T AF) with pfloat.
      rewrite !nth_error_map_seq by (rewrite Lt; unfold s; lia). cbn [option_map]. f_equal. symmetry.
      apply pmul_coeff_transfer.
      + intros i a b Ea Lik Eb.
        destruct (Nat.lt_ge_cases i s) as [Hi|Hi].
        * unfold t in Ea. rewrite nth_error_app1 in Ea by (rewrite repeat_length; exact Hi).
          rewrite nth_error_repeat in Ea by exact Hi. injection Ea as <-. left. rewrite FR_0. ring.
        * assert (Ei : i = s).
          { assert (i < length t)%nat by (apply nth_error_Some; congruence). lia. }
          subst i. unfold t in Ea. rewrite nth_error_app2 in Ea by (rewrite repeat_length; lia).
          rewrite repeat_length, Nat.sub_diag in Ea. injection Ea as <-.
          apply (nth_error_nth _ _ 0%float) in Eb. rewrite <- Eb. apply Um. unfold s in *. lia.
      + (* finite: it was subtracted into a finite coefficient *)
        unfold r0 in Fk. rewrite (@psub_ne_gen AF) in Fk by auto.
        change (T AF) with pfloat in Fk. rewrite Lm in Fk.
        rewrite (nth_map_seq _ _ _ 0%float) in Fk by lia.
        rewrite (@pmul_ne_gen AF) in Fk by auto. change (T AF) with pfloat in Fk.
        rewrite nth_error_map_seq in Fk by (rewrite Lt; unfold s; lia).
        rewrite (nth_error_nth' r 0%float) in Fk by exact Hk. cbn [opt_acc] in Fk.
        now destruct (sub_hom _ _ Fk) as (_ & Hp & _). }
  change (T A64r) with R in EU. rewrite EU. rewrite (ptrim_transfer _ _ E3 Fu). cbn [bind].
  unfold t'. rewrite <- (padd_transfer q t Fp). rewrite (ptrim_transfer _ _ E4 Fp). cbn [bind]. reflexivity.
Qed.

(* ---- the whole run *)
Lemma padd_fin_l (q t : list pfloat) : Ffin (padd (A := AF) q t) -> Ffin q.
Proof.
  destruct q as [|x q]; [constructor|]. destruct t as [|y t]; [auto|]. intros H.
  rewrite (@padd_cons AF) in H.
  rewrite Forall_forall in *. intros z Hz. apply In_nth_error in Hz as (i & Ei).
  assert (Li : (i < length (x :: q))%nat) by (apply nth_error_Some; congruence).
  assert (Hf : ffinite (opt_acc (A := AF) add (opt_acc (A := AF) add zero (nth_error (x :: q) i)) (nth_error (y :: t) i))).
  { apply H. apply in_map_iff. exists i. split; [reflexivity|]. apply in_seq. change (T AF) with pfloat in *. lia. }
  rewrite Ei in Hf. cbn [opt_acc] in Hf.
  assert (H0 : ffinite (0 + z)%float).
  { destruct (nth_error (y :: t) i); cbn [opt_acc] in Hf; [|exact Hf]. now destruct (add_hom _ _ Hf) as (H0 & _ & _). }
  now destruct (add_hom _ _ H0) as (_ & Hz' & _).
Qed.

(* a finite state after one pass comes from a finite state *)
Lemma body_fin_inv (q r v q1 r1 : list pfloat) :
  r <> [] -> v <> [] -> (length v <= length r)%nat -> FR (nth (length v - 1) v 0%float) <> 0 ->
  polydiv_body (A := AF) q r v = Ok (q1, r1) -> Ffin q1 -> Ffin r1 -> Ffin q /\ Ffin r.
Proof.
  intros Nr Nv Hlen Hvl E Hq1 Hr1.
  unfold polydiv_body in E. cbv zeta in E.
  change (T AF) with pfloat in *. change (@zero AF) with 0%float in *.
  assert (Lr : (0 < length r)%nat) by (destruct r; [congruence|cbn; lia]).
  assert (Lv : (0 < length v)%nat) by (destruct v; [congruence|cbn; lia]).
  apply bind_ok in E as (rl & E1 & E). apply (rd_Ok_inv _ _ _ 0%float) in E1 as (_ & ->).
  apply bind_ok in E as (vl & E2 & E). apply (rd_Ok_inv _ _ _ 0%float) in E2 as (_ & ->).
  apply bind_ok in E as (c & Ec & E).
  change (Ok (nth (length r - 1) r 0 / nth (length v - 1) v 0)%float = Ok c) in Ec. injection Ec as Ec.
  set (rl := nth (length r - 1) r 0%float) in *. set (vl := nth (length v - 1) v 0%float) in *.
  replace (length r - 1 - (length v - 1))%nat with (length r - length v)%nat in * by lia.
  set (s := (length r - length v)%nat) in *.
  set (t := repeat 0%float s ++ [c]) in *.
  assert (Lt : length t = S s) by (unfold t; rewrite app_length, repeat_length; cbn [length]; lia).
  assert (Nt : t <> []) by (intros Z; rewrite Z in Lt; discriminate).
  assert (Lm : length (pmul (A := AF) t v) = length r).
  { rewrite length_pmul by auto. change (T AF) with pfloat. unfold s in *. lia. }
  set (r0 := psub (A := AF) r (pmul (A := AF) t v)) in *.
  assert (L0 : length r0 = length r) by (unfold r0; rewrite length_psub; change (T AF) with pfloat in *; lia).
  apply bind_ok in E as (l & El & E). unfold usub in El.
  destruct (1 <=? _)%nat in El; [|discriminate]. injection El as <-.
  apply bind_ok in E as (r2 & E2 & E). apply upd_Ok_inv in E2 as (Hl & ->).
  apply bind_ok in E as (r3 & E3 & E).
  apply bind_ok in E as (q3 & E4 & E). injection E as <- <-.
  unfold poly in *. change (T AF) with pfloat in *.
  pose proof (ptrim_fin_inv _ _ E4 Hq1) as Fp.
  pose proof (ptrim_fin_inv _ _ E3 Hr1) as Fu.
  split; [exact (padd_fin_l _ _ Fp)|].
  assert (Fc : ffinite c).
  { pose proof (padd_fin_r _ _ Fp) as Ft. rewrite Forall_forall in Ft. apply Ft. unfold t. apply in_or_app. right. now left. }
  rewrite Forall_forall. intros x Hx. apply (In_nth _ _ 0%float) in Hx as (k & Hk & <-).
  destruct (Nat.eq_dec k (length r - 1)) as [->|Nk].
  - fold rl. rewrite <- Ec in Fc. now destruct (fdiv_finite_inv rl vl Fc Hvl) as (Hx & _).
  - assert (Fk : ffinite (nth k r0 0%float)).
    { pose proof (Ffin_nth _ k Fu) as Fk. rewrite nth_upd_list in Fk by lia. rewrite L0 in Fk.
      destruct (Nat.eqb_spec k (length r - 1)); [congruence|exact Fk]. }
    assert (Np : pmul (A := AF) t v <> []) by (intros Z; rewrite Z in Lm; cbn in Lm; lia).
    unfold r0 in Fk. rewrite (@psub_ne_gen AF) in Fk by auto.
    change (T AF) with pfloat in Fk. rewrite Lm in Fk.
    rewrite (nth_map_seq _ _ _ 0%float) in Fk by lia.
    rewrite (nth_error_nth' r 0%float) in Fk by exact Hk.
    rewrite (nth_error_nth' (pmul (A := AF) t v) 0%float) in Fk by (change (T AF) with pfloat; lia).
    cbn [opt_acc] in Fk.
    destruct (sub_hom _ _ Fk) as (H0 & _ & _). now destruct (add_hom _ _ H0) as (_ & Hx & _).
Qed.

Lemma loop_fin_inv (v : list pfloat) (fuel : nat) : forall count (q0 r0 q r : list pfloat),
  v <> [] -> FR (nth (length v - 1) v 0%float) <> 0 ->
  polydiv_loop (A := AF) fuel count q0 r0 v = Ok (inl (q, r)) -> Ffin q -> Ffin r -> Ffin q0 /\ Ffin r0.
Proof.
  induction fuel as [|fuel IH]; intros count q0 r0 q r Nv Hv E Hq Hr;
    rewrite polydiv_loop_unfold in E; destruct (is_zero _ || _) eqn:C.
  - injection E as <- <-. auto.
  - discriminate.
  - injection E as <- <-. auto.
  - apply orb_false_iff in C as (Cz & Cl). apply Nat.ltb_ge in Cl.
    assert (Nr : r0 <> []) by (intros ->; discriminate Cz).
    apply bind_ok in E as ((q1 & r1) & Eb & E). cbn [fst snd] in E.
    destruct (POLYDIV_MAX <? S count)%nat; [discriminate|].
    destruct (IH _ _ _ _ _ Nv Hv E Hq Hr) as (Fq1 & Fr1).
    exact (body_fin_inv q0 r0 v q1 r1 Nr Nv Cl Hv Eb Fq1 Fr1).
Qed.

(* ---- the whole run.  [pd_nounder]: no quotient r_top / v_top and no product c * v_j (j below the leading index) of
   the float run underflows -- a condition on computable values of the run itself *)
Fixpoint pd_nounder (fuel : nat) (q r v : list pfloat) : Prop :=
  if is_zero (A := AF) r || (length r <? length v)%nat then True else
  match fuel with
  | O => True
  | S fuel' =>
      no_underflow (FR (nth (length r - 1) r 0%float) / FR (nth (length v - 1) v 0%float)) /\
      (forall j, (j < length v - 1)%nat ->
         no_underflow (FR (nth (length r - 1) r 0 / nth (length v - 1) v 0)%float * FR (nth j v 0%float))) /\
      match polydiv_body (A := AF) q r v with
      | Ok (q1, r1) => pd_nounder fuel' q1 r1 v
      | Panic _ => True
      end
  end.

Lemma loop_transfer_fin (v : list pfloat) (fuel : nat) : forall count (q0 r0 q r : list pfloat),
  v <> [] -> FR (nth (length v - 1) v 0%float) <> 0 ->
  polydiv_loop (A := AF) fuel count q0 r0 v = Ok (inl (q, r)) -> Ffin q -> Ffin r -> pd_nounder fuel q0 r0 v ->
  polydiv_loop (A := A64r) fuel count (map FR q0) (map FR r0) (map FR v) = Ok (inl (map FR q, map FR r)).
Proof.
  induction fuel as [|fuel IH]; intros count q0 r0 q r Nv Hv E Hq Hr P;
    destruct (loop_fin_inv v _ _ _ _ _ _ Nv Hv E Hq Hr) as (Fq0 & Fr0);
    rewrite polydiv_loop_unfold in E; rewrite polydiv_loop_unfold;
    rewrite <- (is_zero_transfer r0 Fr0), !map_length; change (T AF) with pfloat in *;
    destruct (is_zero (A := AF) r0 || (length r0 <? length v)%nat) eqn:C.
  - injection E as <- <-. reflexivity.
  - discriminate.
  - injection E as <- <-. reflexivity.
  - cbn [pd_nounder] in P. change (T AF) with pfloat in P. rewrite C in P. destruct P as (Ud & Um & P).
    apply orb_false_iff in C as (Cz & Cl). apply Nat.ltb_ge in Cl.
    assert (Nr : r0 <> []) by (intros ->; discriminate Cz).
    apply bind_ok in E as ((q1 & r1) & Eb & E). rewrite Eb in P. cbn [bind fst snd] in *.
    destruct (POLYDIV_MAX <? S count)%nat eqn:M; [discriminate|].
    destruct (loop_fin_inv v _ _ _ _ _ _ Nv Hv E Hq Hr) as (Fq1 & Fr1).
    rewrite (body_transfer q0 r0 v q1 r1 Nr Nv Cl Hv Eb Fq1 Fr1 Ud Um). cbn [bind fst snd].
    now apply IH.
Qed.

Lemma Fadd_0_l_all x : Fadd 0 x = x.
Proof.
  unfold Fadd. destruct (isfmt 0 && isfmt x) eqn:E; [|ring].
  apply andb_prop in E as [_ E]. apply isfmt_true in E. rewrite Rplus_0_l. now apply rnd64_id.
Qed.
Lemma Fadd_0_r_all x : Fadd x 0 = x.
Proof.
  unfold Fadd. destruct (isfmt x && isfmt 0) eqn:E; [|ring].
  apply andb_prop in E as [E _]. apply isfmt_true in E. rewrite Rplus_0_r. now apply rnd64_id.
Qed.
Lemma Fsub_0_r_all x : Fsub x 0 = x.
Proof.
  unfold Fsub. destruct (isfmt x && isfmt 0) eqn:E; [|ring].
  apply andb_prop in E as [E _]. apply isfmt_true in E. rewrite Rminus_0_r. now apply rnd64_id.
Qed.

Lemma is_zero_lead_false (v : list pfloat) : FR (last v 0%float) <> 0 -> is_zero (A := A64r) (map FR v) = false.
Proof.
  induction v as [|x v IH]; [intros H; exfalso; apply H; exact FR_0|].
  intros H. cbn [map is_zero forallb]. destruct v as [|y v'].
  - cbn [last] in H. change (eqb (a := A64r) (FR x) zero) with (if Req_EM_T (FR x) 0 then true else false).
    destruct (Req_EM_T (FR x) 0); [contradiction|reflexivity].
  - change (forallb (fun c : A64r => eqb c zero) (map FR (y :: v'))) with (is_zero (A := A64r) (map FR (y :: v'))).
    rewrite IH by exact H. apply andb_false_r.
Qed.


(* the float run IS the run of the same polydiv in A64r on the real images *)
Lemma polydiv_float_transfer (a v q r : list pfloat) :
  polydiv (A := AF) a v = Ok (inl (q, r)) -> Ffin q -> Ffin r -> FR (last v 0%float) <> 0 ->
  pd_nounder (S POLYDIV_MAX) [] a v ->
  polydiv (A := A64r) (map FR a) (map FR v) = Ok (inl (map FR q, map FR r)).
Proof.
  intros E Hq Hr Hv P.
  assert (Nv : v <> []) by (intros ->; apply Hv; exact FR_0).
  assert (Hv' : FR (nth (length v - 1) v 0%float) <> 0) by (rewrite nth_last_idx; exact Hv).
  unfold polydiv in E |- *. rewrite map_length. change (T AF) with pfloat in *.
  destruct (length v =? 0)%nat; [discriminate|]. rewrite (is_zero_lead_false v Hv).
  destruct (is_zero (A := AF) v); [discriminate|].
  exact (loop_transfer_fin v _ _ [] a q r Nv Hv' E Hq Hr P).
Qed.

Lemma last_map_FR (v : list pfloat) : FR (last v 0%float) <> 0 -> last (map FR v) 0 <> 0.
Proof. intros H. rewrite <- nth_last_idx, map_length, nth_map_FR, nth_last_idx. exact H. Qed.

Theorem polydiv_rounded_identity_float_lemma (a v q r : list pfloat) :
  polydiv (A := AF) a v = Ok (inl (q, r)) -> Ffin q -> Ffin r -> FR (last v 0%float) <> 0 ->
  pd_nounder (S POLYDIV_MAX) [] a v ->
  INR (2 * Nat.min (length a + 1 - length v) (length v)) * u64 < 1 ->
  forall k, Rabs (FR (nth k a 0%float) - Rsum (S k) (fun i => FR (nth i q 0%float) * FR (nth (k - i) v 0%float))
                  - FR (nth k r 0%float))
            <= g64 (2 * Nat.min (length a + 1 - length v) (length v))
               * (Rabs (FR (nth k a 0%float))
                  + Rsum (S k) (fun i => Rabs (FR (nth i q 0%float)) * Rabs (FR (nth (k - i) v 0%float)))).
Proof.
  intros E Hq Hr Hv P Hn k.
  pose proof (polydiv_float_transfer a v q r E Hq Hr Hv P) as E'.
  pose proof (polydiv_rounded_identity_lemma u64 u64_range Fadd Fsub Fmul Fdiv Fadd_ok Fsub_ok Fmul_ok Fdiv_ok
                (fun _ => True) (fun _ _ => I) (fun _ _ => I) (fun _ _ => I)
                (fun x _ => Fadd_0_l_all x) (fun x _ => Fadd_0_r_all x) (fun x _ => Fsub_0_r_all x)
                (map FR v) (last_map_FR v Hv) (map FR a) (map FR q) (map FR r)) as H.
  rewrite !map_length in H. specialize (H ltac:(apply Forall_forall; intros; exact I) Hn E' k).
  rewrite !nth_map_FR in H.
  rewrite (Rsum_ext (S k) _ (fun i => FR (nth i q 0%float) * FR (nth (k - i) v 0%float))) in H
    by (intros i _; now rewrite !nth_map_FR).
  rewrite (Rsum_ext (S k) (fun i => Rabs (nth i (map FR q) 0) * Rabs (nth (k - i) (map FR v) 0))
             (fun i => Rabs (FR (nth i q 0%float)) * Rabs (FR (nth (k - i) v 0%float)))) in H
    by (intros i _; now rewrite !nth_map_FR).
  exact H.
Qed.

Theorem polydiv_rounded_residual_float_lemma (a v q r : list pfloat) :
  polydiv (A := AF) a v = Ok (inl (q, r)) -> Ffin q -> Ffin r -> FR (last v 0%float) <> 0 ->
  pd_nounder (S POLYDIV_MAX) [] a v ->
  INR (4 * Nat.min (length a + 1 - length v) (length v)) * u64 < 1 ->
  forall k, Rabs (FR (nth k a 0%float) - Rsum (S k) (fun i => FR (nth i q 0%float) * FR (nth (k - i) v 0%float))
                  - FR (nth k r 0%float))
            <= g64 (4 * Nat.min (length a + 1 - length v) (length v))
               * (Rsum (S k) (fun i => Rabs (FR (nth i q 0%float)) * Rabs (FR (nth (k - i) v 0%float)))
                  + Rabs (FR (nth k r 0%float))).
Proof.
  intros E Hq Hr Hv P Hn k.
  pose proof (polydiv_float_transfer a v q r E Hq Hr Hv P) as E'.
  pose proof (polydiv_rounded_residual_lemma u64 u64_range Fadd Fsub Fmul Fdiv Fadd_ok Fsub_ok Fmul_ok Fdiv_ok
                (fun _ => True) (fun _ _ => I) (fun _ _ => I) (fun _ _ => I)
                (fun x _ => Fadd_0_l_all x) (fun x _ => Fadd_0_r_all x) (fun x _ => Fsub_0_r_all x)
                (map FR v) (last_map_FR v Hv) (map FR a) (map FR q) (map FR r)) as H.
  rewrite !map_length in H. specialize (H ltac:(apply Forall_forall; intros; exact I) Hn E' k).
  rewrite !nth_map_FR in H.
  rewrite (Rsum_ext (S k) _ (fun i => FR (nth i q 0%float) * FR (nth (k - i) v 0%float))) in H
    by (intros i _; now rewrite !nth_map_FR).
  rewrite (Rsum_ext (S k) (fun i => Rabs (nth i (map FR q) 0) * Rabs (nth (k - i) (map FR v) 0))
             (fun i => Rabs (FR (nth i q 0%float)) * Rabs (FR (nth (k - i) v 0%float)))) in H
    by (intros i _; now rewrite !nth_map_FR).
  exact H.
Qed.

Lemma pd_nounder_stop fuel (q r v : list pfloat) :
  is_zero (A := AF) r || (length r <? length v)%nat = true -> pd_nounder fuel q r v.
Proof. intros C. destruct fuel; cbn [pd_nounder]; change (T AF) with pfloat; rewrite C; auto. Qed.

Lemma pd_nounder_step fuel (q r v q1 r1 : list pfloat) :
  no_underflow (FR (nth (length r - 1) r 0%float) / FR (nth (length v - 1) v 0%float)) ->
  (forall j, (j < length v - 1)%nat ->
     no_underflow (FR (nth (length r - 1) r 0 / nth (length v - 1) v 0)%float * FR (nth j v 0%float))) ->
  polydiv_body (A := AF) q r v = Ok (q1, r1) -> pd_nounder fuel q1 r1 v -> pd_nounder (S fuel) q r v.
Proof.
  intros Ud Um Eb P. cbn [pd_nounder]. change (T AF) with pfloat. rewrite Eb.
  destruct (is_zero (A := AF) r || (length r <? length v)%nat); auto.
Qed.

(* ---- a concrete division at binary64: (1 + x + x^2) / (1 + 3x), quotient coefficients fl(1/3), fl(fl(1 - fl(1/3))/3) *)
Definition exf_a : list pfloat := [1%float; 1%float; 1%float].
Definition exf_v : list pfloat := [1%float; 3%float].
Definition exf_q : list pfloat := [0x1.c71c71c71c71dp-3%float; 0x1.5555555555555p-2%float].
Definition exf_r : list pfloat := [0x1.8e38e38e38e39p-1%float].

Lemma exf_polydiv : polydiv (A := AF) exf_a exf_v = Ok (inl (exf_q, exf_r)).
Proof. vm_compute. reflexivity. Qed.

Lemma exf_q_inexact : FR (nth 1 exf_q 0%float) < 1 / 3.
Proof. cbn [nth exf_q]. fr_eval. Qed.

Lemma exf_fin : Ffin exf_q /\ Ffin exf_r.
Proof. split; repeat constructor; apply ffinite_SF; reflexivity. Qed.

Lemma exf_nounder : pd_nounder (S POLYDIV_MAX) [] exf_a exf_v.
Proof.
  assert (E1 : FR 1%float = 1) by fr_eval. assert (E3 : FR 3%float = 3) by fr_eval.
  assert (B3 : / 4 <= FR (1 / 3)%float <= / 2) by (split; fr_eval).
  assert (Bx : / 2 <= FR 0x1.5555555555556p-1%float <= 1) by (split; fr_eval).
  assert (Bc : / 8 <= FR (0x1.5555555555556p-1 / 3)%float <= / 2) by (split; fr_eval).
  unfold exf_a, exf_v.
  apply (pd_nounder_step _ _ _ _ [0%float; (1 / 3)%float] [1%float; 0x1.5555555555556p-1%float]).
  - cbn [length nth Nat.sub]. rewrite E1, E3. apply no_underflow_ge_small. rewrite Rabs_pos_eq; lra.
  - intros j Hj. cbn [length Nat.sub] in Hj. assert (j = 0%nat) by lia. subst j. cbn [length nth Nat.sub].
    rewrite E1. apply no_underflow_ge_small. rewrite Rabs_pos_eq; lra.
  - vm_compute. reflexivity.
  - unfold POLYDIV_MAX.
    apply (pd_nounder_step _ _ _ _ exf_q exf_r).
    + cbn [length nth Nat.sub]. rewrite E3. apply no_underflow_ge_small.
      rewrite Rabs_pos_eq; [lra|]. apply Rmult_le_pos; lra.
    + intros j Hj. cbn [length Nat.sub] in Hj. assert (j = 0%nat) by lia. subst j. cbn [length nth Nat.sub].
      rewrite E1. apply no_underflow_ge_small. rewrite Rabs_pos_eq; lra.
    + vm_compute. reflexivity.
    + apply pd_nounder_stop. vm_compute. reflexivity.
Qed.

Lemma exf_lead : FR (last exf_v 0%float) <> 0.
Proof. cbn [last exf_v]. assert (E3 : FR 3%float = 3) by fr_eval. rewrite E3. lra. Qed.

Lemma exf_size : INR (2 * Nat.min (length exf_a + 1 - length exf_v) (length exf_v)) * u64 < 1.
Proof. cbn [length exf_a exf_v Nat.add Nat.sub Nat.mul Nat.min INR]. pose proof u64_small. lra. Qed.

(* ---- what the float run does outside the hypotheses (vm_compute, for the record):
   a NaN coefficient in the dividend ends as a NaN quotient coefficient and a remainder reported as exactly zero (the
   cancelled leading coefficient is SET to zero whatever its value); a divisor whose leading coefficient is zero gives
   infinite coefficients with Ok; with v = 49 the discarded residual 1 - fl(1/49) 49 = 2^-53 is not zero although r = 0 *)
Lemma polydiv_float_nan_dividend : polydiv (A := AF) [nan; 1%float] [1%float] = Ok (inl ([nan; 1%float], [0%float])).
Proof. vm_compute. reflexivity. Qed.
Lemma polydiv_float_zero_lead : polydiv (A := AF) [1%float; 1%float] [1%float; 0%float] = Ok (inl ([infinity], [neg_infinity])).
Proof. vm_compute. reflexivity. Qed.
Lemma polydiv_float_discarded_residual :
  polydiv (A := AF) [1%float] [49%float] = Ok (inl ([(1 / 49)%float], [0%float])) /\
  (1 - 1 / 49 * 49)%float = 0x1p-53%float.
Proof. split; vm_compute; reflexivity. Qed.
