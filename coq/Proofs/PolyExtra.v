(* Proofs/PolyExtra.v -- is_zero / trim / index of Model/Poly.v (C11 anchors "trim / is_zero", index operator).
   is_zero and trim compare with ==, so their specifications need == to decide equality
   (a Section hypothesis: true of Rat/Qc; false of f64 only through NaN and -0.0 == 0.0). *)
From Coq Require Import List Arith Lia Bool.
From OV Require Import Base.Panic Base.Arith Model.Poly.
Import ListNotations.

Section Access.
Context {A : Arith}.
Notation coef p k := (nth k p (@zero A)).

(* Index / IndexMut: the explicit guard fires exactly on index >= len; otherwise the element / the updated vector *)
Lemma pindex_spec_lemma (p : list A) i x :
  (i < length p -> pindex p i = Ok (coef p i) /\ pindex_set p i x = Ok (upd_list p i x)) /\
  (length p <= i -> pindex p i = Panic Guard /\ pindex_set p i x = Panic Guard).
Proof.
  unfold pindex, pindex_set. split; intros H.
  - replace (length p <=? i) with false by (symmetry; apply Nat.leb_gt; lia).
    split; [now apply rd_ok | now apply upd_ok].
  - replace (length p <=? i) with true by (symmetry; apply Nat.leb_le; lia). auto.
Qed.

Hypothesis eqb_spec : forall x y : A, eqb x y = true <-> x = y.

Lemma is_zero_spec_lemma (p : list A) : is_zero p = true <-> forall k, coef p k = zero.
Proof.
  unfold is_zero. rewrite forallb_forall. split.
  - intros H k. destruct (Nat.lt_ge_cases k (length p)) as [Hk|Hk].
    + apply eqb_spec, H, nth_In, Hk.
    + now apply nth_overflow.
  - intros H x Hx. apply (In_nth _ _ zero) in Hx as (k & _ & <-). apply eqb_spec, H.
Qed.

Lemma trim_rev_cons2' (c b : A) t : trim_rev (c :: b :: t) = if eqb c zero then trim_rev (b :: t) else c :: b :: t.
Proof. reflexivity. Qed.

(* trim_rev strips leading zeros of the reversed list and stops at the first nonzero or at the last element *)
Lemma trim_rev_zeros (l : list A) : exists n, l = repeat zero n ++ trim_rev l.
Proof.
  induction l as [|c t IH]; [exists 0; reflexivity|]. destruct t as [|b t']; [exists 0; reflexivity|].
  rewrite trim_rev_cons2'. destruct (eqb c zero) eqn:E; [|exists 0; reflexivity].
  apply eqb_spec in E. subst c. destruct IH as (n & IH). exists (S n). cbn [repeat app]. now rewrite <- IH.
Qed.
Lemma trim_rev_head (l : list A) : l <> [] ->
  exists c t, trim_rev l = c :: t /\ (t = [] \/ c <> zero).
Proof.
  induction l as [|c t IH]; [congruence|]. intros _. destruct t as [|b t'].
  - exists c, []. auto.
  - rewrite trim_rev_cons2'. destruct (eqb c zero) eqn:E.
    + apply IH. discriminate.
    + exists c, (b :: t'). split; auto. right. intros Z. apply eqb_spec in Z. congruence.
Qed.

Lemma rev_repeat' (x : A) n : rev (repeat x n) = repeat x n.
Proof. induction n as [|n IH]; [reflexivity|]. cbn. rewrite IH. symmetry. apply repeat_cons. Qed.

Lemma coef_app_zeros' (p : list A) n k : coef (p ++ repeat zero n) k = coef p k.
Proof.
  destruct (Nat.lt_ge_cases k (length p)) as [H|H].
  - now apply app_nth1.
  - rewrite app_nth2 by auto. rewrite nth_repeat. now rewrite nth_overflow.
Qed.

(* trim: panics on the empty polynomial (usize underflow); otherwise removes exactly the zero coefficients above
   the last nonzero one (keeping one coefficient at least): same polynomial, formal degree = true degree *)
Lemma ptrim_spec_lemma (p : list A) :
  (p = [] -> ptrim p = Panic Underflow) /\
  (p <> [] -> exists p' n, ptrim p = Ok p' /\ p = p' ++ repeat zero n /\ p' <> [] /\
                           (forall k, coef p' k = coef p k) /\ (length p' = 1 \/ last p' zero <> zero)).
Proof.
  split; [intros ->; reflexivity|]. intros Hp.
  destruct p as [|a t]; [congruence|]. unfold ptrim.
  change (rev (a :: t)) with (rev t ++ [a]). change (rev t ++ [a]) with (rev (a :: t)).
  set (l := rev (a :: t)).
  assert (Nl : l <> []).
  { intros Z. apply (f_equal (@length _)) in Z. unfold l in Z. rewrite rev_length in Z. discriminate. }
  destruct (trim_rev_zeros l) as (n & Hn). destruct (trim_rev_head l Nl) as (c & tl & Et & Hc).
  exists (rev (trim_rev l)), n. split; [reflexivity|].
  assert (Hp' : a :: t = rev (trim_rev l) ++ repeat zero n).
  { apply (f_equal (@rev _)) in Hn. unfold l in Hn at 1. rewrite rev_involutive, rev_app_distr, rev_repeat' in Hn. exact Hn. }
  split; [exact Hp'|]. split.
  - rewrite Et. cbn [rev]. intros Z. apply (f_equal (@length _)) in Z. rewrite app_length in Z. cbn in Z. lia.
  - split.
    + intros k. clearbody l. rewrite Hp'. now rewrite coef_app_zeros'.
    + rewrite Et. cbn [rev]. rewrite last_last. destruct Hc as [->|Hc]; [left; reflexivity|right; exact Hc].
Qed.

End Access.

(* ---- the polynomial API panics exactly on the empty polynomial (eval, derivative, trim) -- every arithmetic *)
Section Panics.
Context {A : Arith}.

Lemma peval_total (p : list A) x : p <> [] -> exists a, peval p x = Ok a.
Proof.
  intros H. unfold peval. destruct (rev p) as [|c rest] eqn:E.
  - apply (f_equal (@length _)) in E. rewrite rev_length in E. destruct p; [congruence|discriminate].
  - eexists; reflexivity.
Qed.

Lemma poly_panics_exactly_lemma (p : list A) (x : A) :
  (p = [] -> peval p x = Panic Unwrap /\ pderiv p = Panic Unwrap /\ ptrim p = Panic Underflow) /\
  (p <> [] -> (exists a, peval p x = Ok a) /\ (exists d, pderiv p = Ok d) /\ (exists t, ptrim p = Ok t)).
Proof.
  split.
  - intros ->. auto.
  - intros H. split; [now apply peval_total|]. destruct p as [|a t]; [congruence|].
    split; eexists; reflexivity.
Qed.

End Panics.
