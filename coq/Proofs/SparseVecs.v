(* Proofs/SparseVecs.v -- from_vecs echoes its arguments: on raw arrays that form a well-formed
   compressed-column structure it returns exactly that structure (nonzero = the last column start). *)
From Coq Require Import List Arith Lia.
From OV Require Import Base.Panic Base.Arith Model.Vector Model.Matrix Model.Sparse Proofs.SparseBase.
Import ListNotations.

Section Vecs.
Context {A : Arith}.
Notation T := (T A).

Theorem from_vecs_wf_lemma r c (v : list T) (ri cs : list nat) :
  wfS (mkS r c (nth c cs 0) v ri cs) ->
  sp_from_vecs r c v ri cs = Ok (mkS r c (nth c cs 0) v ri cs).
Proof.
  intros (Hl & _). cbn [sp_col_start sp_cols] in Hl.
  unfold sp_from_vecs, usub. rewrite Hl.
  destruct (Nat.leb_spec 1 (c + 1)); [|lia]. cbn [bind].
  replace (c + 1 - 1) with c by lia.
  rewrite (rd_ok cs c 0) by lia. reflexivity.
Qed.

End Vecs.
