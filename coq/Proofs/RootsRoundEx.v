(* Proofs/RootsRoundEx.v -- non-vacuity for Proofs/RootsRound.v: a CONCRETE inexact arithmetic that satisfies [std_model].

   [pert_ops e]: every rounded complex operation returns the exact result multiplied by the real factor 1 + e
   (relative error exactly e, never 0 on a non-zero result); the square root is the principal complex square root
   [Csqrt] (explicit, proved: Csqrt z * Csqrt z = z) times 1 + e.  With e = 1/1024 it is an instance of the
   hypotheses of every theorem of RootsRound.v, and on x^2 - 1 (b = 0) the two values it returns do NOT sum to 0:
   no quadratic with the same (zero) middle coefficient has both as roots -- the simultaneous COMPONENTWISE backward
   error |db| <= k eps |b| is not attainable, which is why the theorems are stated per root. *)
From Coq Require Import List Arith Bool Reals Lra Lia Psatz.
From Coquelicot Require Import Complex.
From OV Require Import Base.Panic Base.Arith gen.Params Model.Roots Proofs.RootsRound.
Import ListNotations.
Local Open Scope R_scope.
Import RRN.

(* ---------------------------------------------------------------- the principal square root *)
Definition Csqrt (z : C) : C :=
  (R_sqrt.sqrt ((Cmod z + fst z) / 2), (if Rle_dec 0 (snd z) then 1 else Ropp 1) * R_sqrt.sqrt ((Cmod z - fst z) / 2)).

Lemma Csqrt_sqr (z : C) : (Csqrt z * Csqrt z)%C = z.
Proof.
  destruct z as [x y]. unfold Csqrt. cbn [fst snd].
  set (r := Cmod (x, y)).
  assert (Hr : r * r = x * x + y * y) by (unfold r; rewrite Cmod_sqr; reflexivity).
  assert (Pr : 0 <= r) by apply Cmod_ge_0.
  assert (Hx : - r <= x <= r).
  { split; destruct (Rle_dec (- r) x) as [L|N]; destruct (Rle_dec x r) as [L'|N']; try lra; exfalso; nra. }
  set (u := R_sqrt.sqrt ((r + x) / 2)). set (v := R_sqrt.sqrt ((r - x) / 2)).
  assert (Eu : u * u = (r + x) / 2) by (unfold u; apply R_sqrt.sqrt_sqrt; lra).
  assert (Ev : v * v = (r - x) / 2) by (unfold v; apply R_sqrt.sqrt_sqrt; lra).
  assert (Euv : u * v = Rabs y / 2).
  { unfold u, v. rewrite <- sqrt_mult by lra.
    replace ((r + x) / 2 * ((r - x) / 2)) with (Rsqr (y / 2)) by (unfold Rsqr; nra).
    rewrite sqrt_Rsqr_abs. unfold Rdiv. rewrite Rabs_mult. rewrite (Rabs_pos_eq (/ 2)); lra. }
  unfold Cmult. cbn [fst snd]. f_equal.
  - destruct (Rle_dec 0 y); nra.
  - destruct (Rle_dec 0 y) as [P|N].
    + rewrite Rabs_pos_eq in Euv by lra. nra.
    + rewrite Rabs_left in Euv by lra. nra.
Qed.

Lemma Csqrt_R (x : R) : 0 <= x -> Csqrt (RtoC x) = RtoC (R_sqrt.sqrt x).
Proof.
  intros Hx. unfold Csqrt, RtoC. cbn [fst snd]. fold (RtoC x). rewrite Cmod_R, Rabs_pos_eq by exact Hx.
  destruct (Rle_dec 0 0) as [_|N]; [|exfalso; lra].
  replace ((x + x) / 2) with x by field. replace ((x - x) / 2) with 0 by field. rewrite sqrt_0. f_equal. ring.
Qed.

(* ---------------------------------------------------------------- the perturbing arithmetic *)
Definition pert_ops (e : R) : RoundOps := {|
  o_radd := Rplus; o_rsub := Rminus; o_rmul := Rmult; o_rdiv := Rdiv; o_rsqrt := R_sqrt.sqrt; o_rfrac := [];
  o_kabs := Cmod; o_kabsA := fun z => RtoC (Cmod z); o_kdivr := fun z r => (z / RtoC r)%C;
  o_kltb := fun _ _ => false; o_kleb := fun _ _ => false; o_pow := fun z _ => z; o_polar := fun r _ => RtoC r;
  o_add := fun x y => ((x + y) * RtoC (1 + e))%C;
  o_sub := fun x y => ((x - y) * RtoC (1 + e))%C;
  o_mul := fun x y => ((x * y) * RtoC (1 + e))%C;
  o_div := fun x y => ((x / y) * RtoC (1 + e))%C;
  o_scale := fun z r => ((z * RtoC r) * RtoC (1 + e))%C;
  o_sqrt := fun z => (Csqrt z * RtoC (1 + e))%C |}.

Lemma pert_rel (e : R) (s : C) : 0 <= e -> Cmod (s * RtoC (1 + e) - s)%C <= e * Cmod s.
Proof.
  intros He. replace (s * RtoC (1 + e) - s)%C with (s * RtoC e)%C by (rewrite RtoC_plus; ring).
  rewrite Cmod_mult, Cmod_R, Rabs_pos_eq by exact He. lra.
Qed.

Lemma pert_std_model (e : R) : 0 <= e -> std_model e (pert_ops e).
Proof.
  intros He. unfold std_model, pert_ops. cbn.
  repeat split; intros; try (apply pert_rel; exact He).
  exists (Csqrt z). split; [apply Csqrt_sqr | apply pert_rel; exact He].
Qed.

(* 1/1024: an admissible eps, and the arithmetic is really inexact: fl(1 * 1) <> 1 *)
Lemma pert_nonvacuous :
  0 <= / 1024 <= / 100 /\ std_model (/ 1024) (pert_ops (/ 1024)) /\ o_mul (pert_ops (/ 1024)) C1 C1 <> C1.
Proof.
  split; [lra|]. split; [apply pert_std_model; lra|].
  cbn. rewrite <- !RtoC_mult. intros H. apply RtoC_inj in H. lra.
Qed.

(* ---------------------------------------------------------------- x^2 - 1 in the perturbing arithmetic: the componentwise
   simultaneous backward error is not attainable *)
Section Refute.
Variable e : R.
Hypothesis e_pos : 0 < e.
Let f : R := 1 + e.
Let S : R := R_sqrt.sqrt (4 * f * f * f).
Notation O := (pert_ops e).

Ltac cplx_ring := unfold RtoC, Cconj, Cmult, Cminus, Cplus, Copp, Cdiv, Cinv; cbn [fst snd]; f_equal; cbn [INR]; try ring.

Lemma ex_disc : q_disc (o_sub O) (o_mul O) (o_scale O) C1 C0 (RtoC (-1)) = RtoC (4 * f * f * f).
Proof. unfold q_disc. cbn [o_sub o_mul o_scale pert_ops]. fold f. cplx_ring. Qed.

Lemma fpos : 1 < f. Proof. unfold f. lra. Qed.

Lemma Spos : 0 < S /\ S * S = 4 * f * f * f.
Proof.
  pose proof fpos as F. assert (P : 0 < 4 * f * f * f) by (repeat apply Rmult_lt_0_compat; lra).
  split; [apply sqrt_lt_R0; exact P | apply R_sqrt.sqrt_sqrt; lra].
Qed.

Lemma ex_sh : o_sqrt O (RtoC (4 * f * f * f)) = RtoC (S * f).
Proof.
  pose proof fpos as F. assert (P : 0 < 4 * f * f * f) by (repeat apply Rmult_lt_0_compat; lra).
  cbn [o_sqrt pert_ops]. rewrite Csqrt_R by lra. fold f S. now rewrite RtoC_mult.
Qed.

Lemma ex_sgn : q_sgn (o_sub O) (o_mul O) (o_scale O) (o_sqrt O) C1 C0 (RtoC (-1)) = 1.
Proof.
  unfold q_sgn. rewrite ex_disc, ex_sh.
  assert (Z : fst (o_mul O (Cconj C0) (RtoC (S * f))) = 0).
  { cbn [o_mul pert_ops]. unfold RtoC, Cconj, Cmult. cbn [fst snd]. ring. }
  rewrite Z. destruct (Rle_dec 0 0) as [_|N]; [reflexivity | exfalso; lra].
Qed.

Lemma ex_q : q_q (o_add O) (o_sub O) (o_mul O) (o_scale O) (o_sqrt O) C1 C0 (RtoC (-1)) = RtoC (- (S * f * f * f * f) / 2).
Proof.
  unfold q_q. rewrite ex_sgn, ex_disc, ex_sh. cbn [o_add o_scale pert_ops]. fold f. cplx_ring. field.
Qed.

Lemma quadratic_componentwise_simultaneous_refuted_lemma :
  exists r0 r1 : C, poly_solve (RoundRAo e O) [RtoC (-1); C0; C1] false = Ok ([r0; r1], []) /\
    (r0 + r1)%C <> C0 /\ r0 <> r1 /\
    forall a' c' : C, a' <> C0 -> ~ ((a' * r0 * r0 + C0 * r0 + c')%C = C0 /\ (a' * r1 * r1 + C0 * r1 + c')%C = C0).
Proof.
  pose proof fpos as F. destruct Spos as [PS ES].
  set (q := - (S * f * f * f * f) / 2).
  assert (Nq : q <> 0).
  { unfold q. assert (0 < S * f * f * f * f) by (repeat apply Rmult_lt_0_compat; lra). lra. }
  assert (NqC : RtoC q <> C0) by (intros H; apply RtoC_inj in H; contradiction).
  exists (RtoC (q * f)), (RtoC (-1 / q * f)).
  assert (Sum : q * f + -1 / q * f <> 0).
  { intros H. assert (E : (q * f + -1 / q * f) * q = f * (q * q - 1)) by (field; exact Nq).
    rewrite H in E. assert (K : q * q = 1) by nra.
    unfold q in K.
    assert (K2 : S * S * (f * f * f * f * f * f * f * f) = 4) by nra.
    rewrite ES in K2.
    assert (G2 : 1 < f * f) by nra. assert (G3 : 1 < f * f * f) by nra.
    assert (G4 : 1 < (f * f) * (f * f)) by nra.
    assert (G8 : 1 < ((f * f) * (f * f)) * ((f * f) * (f * f))) by (revert G4; generalize ((f * f) * (f * f)); intros y G4; nra).
    assert (G11 : 1 < (f * f * f) * (((f * f) * (f * f)) * ((f * f) * (f * f)))).
    { revert G3 G8. generalize (f * f * f) (((f * f) * (f * f)) * ((f * f) * (f * f))). intros y z G3 G8. nra. }
    replace (4 * f * f * f * (f * f * f * f * f * f * f * f))
      with (4 * ((f * f * f) * (((f * f) * (f * f)) * ((f * f) * (f * f))))) in K2 by ring.
    lra. }
  assert (Dif : q * f <> -1 / q * f).
  { assert (q * f < 0) by (unfold q; assert (0 < S * f * f * f * f * f) by (repeat apply Rmult_lt_0_compat; lra); nra).
    assert (0 < -1 / q * f).
    { unfold Rdiv. assert (/ q < 0) by (apply Rinv_lt_0_compat; unfold q; assert (0 < S * f * f * f * f) by (repeat apply Rmult_lt_0_compat; lra); lra). nra. }
    lra. }
  split; [|split; [|split]].
  - unfold RoundRAo. rewrite poly_solve_deg2_eq, quadratic_solve_round_eq. rewrite ex_q. fold q.
    destruct (Ceq_dec (RtoC q) C0) as [Z|_]; [contradiction|].
    cbn [bind o_div pert_ops]. fold f. do 3 f_equal.
    + replace (RtoC q / C1)%C with (RtoC q) by (field; intros H; apply RtoC_inj in H; lra).
      now rewrite RtoC_mult.
    + f_equal. rewrite RtoC_mult, RtoC_div by exact Nq. reflexivity.
  - rewrite <- RtoC_plus. intros H. apply RtoC_inj in H. contradiction.
  - intros H. apply RtoC_inj in H. contradiction.
  - intros a' c' Ha' [H0 H1].
    assert (K : (a' * ((RtoC (q * f) - RtoC (-1 / q * f)) * (RtoC (q * f) + RtoC (-1 / q * f))))%C = C0).
    { transitivity ((a' * RtoC (q * f) * RtoC (q * f) + C0 * RtoC (q * f) + c') - (a' * RtoC (-1 / q * f) * RtoC (-1 / q * f) + C0 * RtoC (-1 / q * f) + c'))%C; [ring|].
      rewrite H0, H1. ring. }
    rewrite <- RtoC_minus, <- RtoC_plus, <- RtoC_mult in K.
    apply (Cmult_neq_0 a' (RtoC ((q * f - -1 / q * f) * (q * f + -1 / q * f)))); [exact Ha' | | exact K].
    intros H. apply RtoC_inj in H. apply Rmult_integral in H. destruct H; [apply Dif | apply Sum]; lra.
Qed.
End Refute.

Lemma quadratic_componentwise_simultaneous_refuted_1024 :
  exists r0 r1 : C, poly_solve (RoundRAo (/ 1024) (pert_ops (/ 1024))) [RtoC (-1); RtoC 0; RtoC 1] false = Ok ([r0; r1], []) /\
    (r0 + r1)%C <> RtoC 0 /\ r0 <> r1 /\
    forall a' c' : C, a' <> RtoC 0 ->
      ~ ((a' * r0 * r0 + RtoC 0 * r0 + c')%C = RtoC 0 /\ (a' * r1 * r1 + RtoC 0 * r1 + c')%C = RtoC 0).
Proof. apply quadratic_componentwise_simultaneous_refuted_lemma. lra. Qed.

(* the local hypotheses hold wherever the global ones do *)
Lemma quad_ops_ok_nonvacuous :
  (0 <= / 1024 <= / 100) /\ RtoC 1 <> RtoC 0 /\ quad_ops_ok (/ 1024) (pert_ops (/ 1024)) (RtoC 1) (RtoC (-5)) (RtoC 2).
Proof.
  assert (N : RtoC 1 <> RtoC 0) by (intros H; apply RtoC_inj in H; lra).
  split; [lra|]. split; [exact N|]. apply std_model_ops_ok; [exact N | apply pert_std_model; lra].
Qed.

(* ---------------------------------------------------------------- an arithmetic with a BOUNDED RANGE *)
(* [sat_ops e]: as [pert_ops e], but a product of modulus > 1000 "overflows" (0 is returned).  It is NOT an instance of
   std_model; yet on x^2 - 5x + 2 every operation quadratic_solve performs stays in range, [quad_ops_ok] holds, and
   quadratic_residual_local applies: the local theorem is strictly more general than the global one. *)
Definition sat_ops (e : R) : RoundOps := {|
  o_radd := Rplus; o_rsub := Rminus; o_rmul := Rmult; o_rdiv := Rdiv; o_rsqrt := R_sqrt.sqrt; o_rfrac := [];
  o_kabs := Cmod; o_kabsA := fun z => RtoC (Cmod z); o_kdivr := fun z r => (z / RtoC r)%C;
  o_kltb := fun _ _ => false; o_kleb := fun _ _ => false; o_pow := fun z _ => z; o_polar := fun r _ => RtoC r;
  o_add := o_add (pert_ops e); o_sub := o_sub (pert_ops e);
  o_mul := fun x y => if Rle_dec (Cmod (x * y)%C) 1000 then o_mul (pert_ops e) x y else RtoC 0;
  o_div := o_div (pert_ops e); o_scale := o_scale (pert_ops e); o_sqrt := o_sqrt (pert_ops e) |}.

Lemma sat_not_std_model (e : R) : 0 <= e < 1 -> ~ std_model e (sat_ops e).
Proof.
  intros He (_ & _ & Hm & _). specialize (Hm (RtoC 100) (RtoC 100)). cbn [o_mul sat_ops] in Hm.
  rewrite <- RtoC_mult in Hm. rewrite Cmod_R, Rabs_pos_eq in Hm by lra.
  destruct (Rle_dec (100 * 100) 1000) as [L|_]; [lra|].
  replace (RtoC 0 - RtoC (100 * 100))%C with (- RtoC (100 * 100))%C in Hm by ring.
  rewrite Cmod_opp, Cmod_R, Rabs_pos_eq in Hm by lra. nra.
Qed.

Lemma sat_mul_small (e : R) (x y : C) : Cmod (x * y)%C <= 1000 -> o_mul (sat_ops e) x y = o_mul (pert_ops e) x y.
Proof. intros H. cbn [o_mul sat_ops]. destruct (Rle_dec (Cmod (x * y)%C) 1000) as [_|N]; [reflexivity|contradiction]. Qed.

Lemma Cmod_Csqrt_sqr (z : C) : Cmod (Csqrt z) * Cmod (Csqrt z) = Cmod z.
Proof. now rewrite <- Cmod_mult, Csqrt_sqr. Qed.

Lemma sat_ops_ok_lemma :
  let e := / 1024 in
  (0 <= e <= / 100) /\ RtoC 1 <> RtoC 0 /\ ~ std_model e (sat_ops e) /\ quad_ops_ok e (sat_ops e) (RtoC 1) (RtoC (-5)) (RtoC 2).
Proof.
  intros e. assert (He : 0 <= e <= / 100) by (unfold e; lra).
  assert (N : RtoC 1 <> RtoC 0) by (intros H; apply RtoC_inj in H; lra).
  split; [exact He|]. split; [exact N|]. split; [apply sat_not_std_model; lra|].
  pose proof (std_model_ops_ok e (pert_ops e) (RtoC 1) (RtoC (-5)) (RtoC 2) N (pert_std_model e (proj1 He))) as P.
  set (f := 1 + e). assert (Hf : 1 <= f <= 1.001) by (unfold f, e; lra).
  set (a := RtoC 1) in *. set (b := RtoC (-5)) in *. set (c := RtoC 2) in *.
  set (a4 := o_scale (pert_ops e) a (INR 4)).
  set (dh := o_sub (pert_ops e) (o_mul (pert_ops e) b b) (o_mul (pert_ops e) a4 c)).
  set (sh := o_sqrt (pert_ops e) dh).
  assert (Mb : Cmod b = 5) by (unfold b; rewrite Cmod_R, Rabs_left; lra).
  assert (Mf : Cmod (RtoC f) = f) by (rewrite Cmod_R, Rabs_pos_eq; lra).
  assert (Ma4 : Cmod a4 = 4 * f).
  { unfold a4, a. cbn [o_scale pert_ops]. fold f. rewrite !Cmod_mult, Cmod_1, Cmod_INR4, Mf. ring. }
  assert (Mc : Cmod c = 2) by (unfold c; rewrite Cmod_R, Rabs_pos_eq; lra).
  assert (C1' : Cmod (b * b)%C <= 1000) by (rewrite Cmod_mult, Mb; lra).
  assert (C2' : Cmod (a4 * c)%C <= 1000) by (rewrite Cmod_mult, Ma4, Mc; lra).
  assert (Mdh : Cmod dh <= 40).
  { unfold dh. cbn [o_sub o_mul pert_ops]. fold f. rewrite Cmod_mult, Mf.
    assert (K : Cmod (b * b * RtoC f - a4 * c * RtoC f)%C <= 25 * f + 8 * f * f).
    { eapply Rle_trans; [apply Cmod_minus_le|]. rewrite !Cmod_mult, Mb, Ma4, Mc, Mf. lra. }
    pose proof (Cmod_ge_0 (b * b * RtoC f - a4 * c * RtoC f)%C). nra. }
  assert (Msh : Cmod sh <= 8).
  { unfold sh. cbn [o_sqrt pert_ops]. fold f. rewrite Cmod_mult, Mf.
    pose proof (Cmod_Csqrt_sqr dh) as K. pose proof (Cmod_ge_0 (Csqrt dh)).
    assert (Cmod (Csqrt dh) <= 7) by (destruct (Rle_dec (Cmod (Csqrt dh)) 7) as [L|G]; [exact L | exfalso; nra]). nra. }
  assert (C3' : Cmod (Cconj b * sh)%C <= 1000) by (rewrite Cmod_mult, Cmod_Cconj, Mb; lra).
  unfold quad_ops_ok in *. cbv zeta in *.
  change (o_scale (sat_ops e)) with (o_scale (pert_ops e)). change (o_add (sat_ops e)) with (o_add (pert_ops e)).
  change (o_sub (sat_ops e)) with (o_sub (pert_ops e)). change (o_div (sat_ops e)) with (o_div (pert_ops e)).
  change (o_sqrt (sat_ops e)) with (o_sqrt (pert_ops e)).
  fold a4. rewrite (sat_mul_small e b b C1'). rewrite (sat_mul_small e a4 c C2'). fold dh. fold sh.
  rewrite (sat_mul_small e (Cconj b) sh C3'). fold a4 dh sh in P. exact P.
Qed.

(* ---------------------------------------------------------------- the hypothesis EXCLUDES the range failures (KF-C10-H) *)
(* [flush_ops e]: as [pert_ops e], but Complex::sqrt returns 0 for arguments of modulus <= 1 -- what the real Complex::sqrt does
   below 1e-162, where re^2 + im^2 underflows (findings/C10-closed-form-scale.md).  On (x^2 - 3x + 2) / 10 the discriminant is
   about 0.01: [quad_ops_ok] FAILS (at the square root: 0 is within eps of no square root of a non-zero number), the model returns
   1.5 (1+e)^3 as first value -- the values -b/2a, -2c/b the real code returns for 1e-85 (x-1)(x-2) -- and the residual bound of
   quadratic_residual_local is violated by a factor > 7.  The no-underflow / no-overflow content of the hypotheses is what
   separates the theorems from that class. *)
Definition flush_ops (e : R) : RoundOps := {|
  o_radd := Rplus; o_rsub := Rminus; o_rmul := Rmult; o_rdiv := Rdiv; o_rsqrt := R_sqrt.sqrt; o_rfrac := [];
  o_kabs := Cmod; o_kabsA := fun z => RtoC (Cmod z); o_kdivr := fun z r => (z / RtoC r)%C;
  o_kltb := fun _ _ => false; o_kleb := fun _ _ => false; o_pow := fun z _ => z; o_polar := fun r _ => RtoC r;
  o_add := o_add (pert_ops e); o_sub := o_sub (pert_ops e); o_mul := o_mul (pert_ops e); o_div := o_div (pert_ops e);
  o_scale := o_scale (pert_ops e);
  o_sqrt := fun z => if Rle_dec (Cmod z) 1 then RtoC 0 else o_sqrt (pert_ops e) z |}.

Section Flush.
Let e : R := / 4096.
Let f : R := 1 + e.
Let a : C := RtoC (/ 10).
Let b : C := RtoC (-3 / 10).
Let c : C := RtoC (2 / 10).
Let dr : R := (9 / 100 * f - 8 / 100 * f * f) * f.
Notation O := (flush_ops e).

Lemma fl_f : 1 < f < 1.0003. Proof. unfold f, e. lra. Qed.
Lemma fl_dr : 0 < dr <= 1. Proof. pose proof fl_f. unfold dr. split; nra. Qed.

Lemma fl_disc : q_disc (o_sub O) (o_mul O) (o_scale O) a b c = RtoC dr.
Proof.
  unfold q_disc, a, b, c, dr. cbn [o_sub o_mul o_scale flush_ops pert_ops]. fold f.
  repeat (rewrite <- RtoC_mult || rewrite <- RtoC_minus || rewrite <- RtoC_plus). f_equal. cbn [INR]. field.
Qed.

Lemma fl_sqrt : o_sqrt O (RtoC dr) = RtoC 0.
Proof.
  pose proof fl_dr. cbn [o_sqrt flush_ops]. rewrite Cmod_R, Rabs_pos_eq by lra.
  destruct (Rle_dec dr 1) as [_|N]; [reflexivity | exfalso; lra].
Qed.

Lemma fl_sgn : q_sgn (o_sub O) (o_mul O) (o_scale O) (o_sqrt O) a b c = 1.
Proof.
  unfold q_sgn. rewrite fl_disc, fl_sqrt.
  assert (Z : fst (o_mul O (Cconj b) (RtoC 0)) = 0).
  { cbn [o_mul flush_ops pert_ops]. unfold b, RtoC, Cconj, Cmult. cbn [fst snd]. ring. }
  rewrite Z. destruct (Rle_dec 0 0) as [_|N]; [reflexivity | exfalso; lra].
Qed.

Lemma fl_q : q_q (o_add O) (o_sub O) (o_mul O) (o_scale O) (o_sqrt O) a b c = RtoC (15 / 100 * f * f).
Proof.
  unfold q_q. rewrite fl_sgn, fl_disc, fl_sqrt. unfold b. cbn [o_add o_scale flush_ops pert_ops]. fold f.
  repeat (rewrite <- RtoC_mult || rewrite <- RtoC_minus || rewrite <- RtoC_plus). f_equal. field.
Qed.

Lemma flush_excluded_lemma :
  ~ quad_ops_ok e O a b c /\
  exists r0 r1 : C, poly_solve (RoundRAo e O) [c; b; a] false = Ok ([r0; r1], []) /\
    ~ (Cmod (a * r0 * r0 + b * r0 + c)%C <= 16 * e * (Cmod a * Cmod r0 * Cmod r0 + Cmod b * Cmod r0 + Cmod c)).
Proof.
  pose proof fl_f as Hf. pose proof fl_dr as Hd. split.
  - unfold quad_ops_ok. cbv zeta. intros (_ & _ & _ & _ & (w & Ew & Hw) & _).
    fold (q_disc (o_sub O) (o_mul O) (o_scale O) a b c) in Ew, Hw. rewrite fl_disc in Ew, Hw. rewrite fl_sqrt in Hw.
    unfold relc in Hw. replace (RtoC 0 - w)%C with (- w)%C in Hw by ring. rewrite Cmod_opp in Hw.
    assert (Zw : w = RtoC 0).
    { apply Cmod_eq_0. pose proof (Cmod_ge_0 w). unfold e in Hw. nra. }
    rewrite Zw in Ew. replace (RtoC 0 * RtoC 0)%C with (RtoC 0) in Ew by ring. apply RtoC_inj in Ew. lra.
  - rewrite poly_solve_deg2_o_eq. unfold o_q. rewrite fl_q.
    assert (Nq : RtoC (15 / 100 * f * f) <> RtoC 0) by (intros H; apply RtoC_inj in H; nra).
    destruct (Ceq_dec (RtoC (15 / 100 * f * f)) (RtoC 0)) as [Z|_]; [contradiction|].
    do 2 eexists. split; [reflexivity|].
    set (y := f * f * f). assert (Hy : 1 < y < 1.001) by (unfold y; nra).
    assert (Er0 : o_div O (RtoC (15 / 100 * f * f)) a = RtoC (3 / 2 * y)).
    { unfold a. cbn [o_div flush_ops pert_ops]. fold f. rewrite <- RtoC_div by lra. rewrite <- RtoC_mult. f_equal. unfold y. field. }
    rewrite Er0. unfold a, b, c.
    repeat (rewrite <- RtoC_mult || rewrite <- RtoC_minus || rewrite <- RtoC_plus). rewrite !Cmod_R.
    rewrite (Rabs_pos_eq (/ 10)), (Rabs_pos_eq (3 / 2 * y)), (Rabs_left (-3 / 10)), (Rabs_pos_eq (2 / 10)) by lra.
    rewrite Rabs_left by nra. unfold e. nra.
Qed.
End Flush.

Lemma flush_excluded_4096 :
  let e := / 4096 in let a := RtoC (/ 10) in let b := RtoC (-3 / 10) in let c := RtoC (2 / 10) in
  ~ quad_ops_ok e (flush_ops e) a b c /\
  exists r0 r1 : C, poly_solve (RoundRAo e (flush_ops e)) [c; b; a] false = Ok ([r0; r1], []) /\
    ~ (Cmod (a * r0 * r0 + b * r0 + c)%C <= 16 * e * (Cmod a * Cmod r0 * Cmod r0 + Cmod b * Cmod r0 + Cmod c)).
Proof. exact flush_excluded_lemma. Qed.
