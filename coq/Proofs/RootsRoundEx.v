(* Proofs/RootsRoundEx.v -- non-vacuity for Proofs/RootsRound.v: a CONCRETE inexact arithmetic that satisfies [std_model].

   [pert_ops e]: every rounded complex operation returns the exact result multiplied by the real factor 1 + e
   (relative error exactly e, never 0 on a non-zero result); the square root is the principal complex square root
   [Csqrt] (explicit, proved: Csqrt z * Csqrt z = z) times 1 + e.  With e = 1/1024 it is an instance of the
   hypotheses of every theorem of RootsRound.v, and on x^2 - 1 (b = 0) the two values it returns do NOT sum to 0:
   no quadratic with the same (zero) middle coefficient has both as roots -- the simultaneous COMPONENTWISE backward
   error |db| <= k eps |b| is not attainable, which is why the theorems are stated per root. *)
From Coq Require Import List Arith Bool Reals Lra Lia Psatz.
From Coquelicot Require Import Complex.
From OV Require Import Base.Panic Base.Arith gen.Params Model.Roots Proofs.RootsRound.
Import ListNotations.
Local Open Scope R_scope.

(* ---------------------------------------------------------------- the principal square root *)
Definition Csqrt (z : C) : C :=
  (R_sqrt.sqrt ((Cmod z + fst z) / 2), (if Rle_dec 0 (snd z) then 1 else Ropp 1) * R_sqrt.sqrt ((Cmod z - fst z) / 2)).

Lemma Csqrt_sqr (z : C) : (Csqrt z * Csqrt z)%C = z.
Proof.
  destruct z as [x y]. unfold Csqrt. cbn [fst snd].
  set (r := Cmod (x, y)).
  assert (Hr : r * r = x * x + y * y) by (unfold r; rewrite Cmod_sqr; reflexivity).
  assert (Pr : 0 <= r) by apply Cmod_ge_0.
  assert (Hx : - r <= x <= r).
  { split; destruct (Rle_dec (- r) x) as [L|N]; destruct (Rle_dec x r) as [L'|N']; try lra; exfalso; nra. }
  set (u := R_sqrt.sqrt ((r + x) / 2)). set (v := R_sqrt.sqrt ((r - x) / 2)).
  assert (Eu : u * u = (r + x) / 2) by (unfold u; apply R_sqrt.sqrt_sqrt; lra).
  assert (Ev : v * v = (r - x) / 2) by (unfold v; apply R_sqrt.sqrt_sqrt; lra).
  assert (Euv : u * v = Rabs y / 2).
  { unfold u, v. rewrite <- sqrt_mult by lra.
    replace ((r + x) / 2 * ((r - x) / 2)) with (Rsqr (y / 2)) by (unfold Rsqr; nra).
    rewrite sqrt_Rsqr_abs. unfold Rdiv. rewrite Rabs_mult. rewrite (Rabs_pos_eq (/ 2)); lra. }
  unfold Cmult. cbn [fst snd]. f_equal.
  - destruct (Rle_dec 0 y); nra.
  - destruct (Rle_dec 0 y) as [P|N].
    + rewrite Rabs_pos_eq in Euv by lra. nra.
    + rewrite Rabs_left in Euv by lra. nra.
Qed.

Lemma Csqrt_R (x : R) : 0 <= x -> Csqrt (RtoC x) = RtoC (R_sqrt.sqrt x).
Proof.
  intros Hx. unfold Csqrt, RtoC. cbn [fst snd]. fold (RtoC x). rewrite Cmod_R, Rabs_pos_eq by exact Hx.
  destruct (Rle_dec 0 0) as [_|N]; [|exfalso; lra].
  replace ((x + x) / 2) with x by field. replace ((x - x) / 2) with 0 by field. rewrite sqrt_0. f_equal. ring.
Qed.

(* ---------------------------------------------------------------- the perturbing arithmetic *)
Definition pert_ops (e : R) : RoundOps := {|
  o_radd := Rplus; o_rsub := Rminus; o_rmul := Rmult; o_rdiv := Rdiv; o_rsqrt := R_sqrt.sqrt; o_rfrac := [];
  o_kabs := Cmod; o_kabsA := fun z => RtoC (Cmod z); o_kdivr := fun z r => (z / RtoC r)%C;
  o_kltb := fun _ _ => false; o_kleb := fun _ _ => false; o_pow := fun z _ => z; o_polar := fun r _ => RtoC r;
  o_add := fun x y => ((x + y) * RtoC (1 + e))%C;
  o_sub := fun x y => ((x - y) * RtoC (1 + e))%C;
  o_mul := fun x y => ((x * y) * RtoC (1 + e))%C;
  o_div := fun x y => ((x / y) * RtoC (1 + e))%C;
  o_scale := fun z r => ((z * RtoC r) * RtoC (1 + e))%C;
  o_sqrt := fun z => (Csqrt z * RtoC (1 + e))%C |}.

Lemma pert_rel (e : R) (s : C) : 0 <= e -> Cmod (s * RtoC (1 + e) - s)%C <= e * Cmod s.
Proof.
  intros He. replace (s * RtoC (1 + e) - s)%C with (s * RtoC e)%C by (rewrite RtoC_plus; ring).
  rewrite Cmod_mult, Cmod_R, Rabs_pos_eq by exact He. lra.
Qed.

Lemma pert_std_model (e : R) : 0 <= e -> std_model e (pert_ops e).
Proof.
  intros He. unfold std_model, pert_ops. cbn.
  repeat split; intros; try (apply pert_rel; exact He).
  exists (Csqrt z). split; [apply Csqrt_sqr | apply pert_rel; exact He].
Qed.

(* 1/1024: an admissible eps, and the arithmetic is really inexact: fl(1 * 1) <> 1 *)
Lemma pert_nonvacuous :
  0 <= / 1024 <= / 100 /\ std_model (/ 1024) (pert_ops (/ 1024)) /\ o_mul (pert_ops (/ 1024)) C1 C1 <> C1.
Proof.
  split; [lra|]. split; [apply pert_std_model; lra|].
  cbn. rewrite <- !RtoC_mult. intros H. apply RtoC_inj in H. lra.
Qed.
