(* Proofs/SolveBack.v -- back substitution (Model/Solve.v: backsolve) on a well-formed square
   matrix: normal form of one iteration, soundness on an upper-triangular matrix, the diagonal
   entries it divided by are non-zero, totality when the diagonal is non-zero. *)
From Coq Require Import List Arith Lia Bool Ring Field.
From OV Require Import Base.Panic Base.Arith Model.Vector Model.Matrix Model.Solve Proofs.Matrix Proofs.SolveBase.
Import ListNotations.
Local Open Scope arith_scope.

Section Back.
Context {A : Arith}.
Variable FL : FieldLaws A.
Notation inv := (fl_inv A FL).
Add Field AFieldB : (A_field FL).

Variable m : matrix A.
Variable n : nat.
Hypothesis W : wf m.
Hypothesis Hr : rows m = n.
Hypothesis Hc : cols m = n.

Lemma div_nf (x y : A) : div x y = if eqb y zero then Panic DivZero else Ok (x * inv y).
Proof. apply (fl_div A FL). Qed.

Lemma eqb_zero_false (y : A) : eqb y zero = false <-> y <> zero.
Proof.
  pose proof (fl_eqb A FL y zero) as H. destruct (eqb y zero); split; intros; try congruence.
  - exfalso. apply H0. now apply H.
  - intros E. apply H in E. discriminate.
Qed.

Lemma eqb_zero_true (y : A) : eqb y zero = true <-> y = zero.
Proof. apply (fl_eqb A FL). Qed.

Definition back_tail (k : nat) (X : list A) : A :=
  sum_n (n - k - 1) (fun t => ent m k (k + 1 + t) * vnth X (k + 1 + t)).

Definition back_body (n' : nat) (x : list A) : res (list A) :=
    let* k := usub (rows m) n' in
    let* x := for_ (rows m - n' + 1) (rows m) (fun j x =>
                let* xj := rd x j in
                let* xk := rd x k in
                let* a := mget m k j in
                upd x k (xk - a * xj)) x in
    let* xk := rd x k in
    let* d := mget m k k in
    let* q := div xk d in
    upd x k q.

Lemma backsolve_unfold (x : list A) :
  backsolve m x =
  (let* last := usub (rows m) 1 in
   let* xl := rd x last in
   let* d := mget m last last in
   let* q := div xl d in
   let* x := upd x last q in
   for_ 2 (rows m + 1) back_body x).
Proof. reflexivity. Qed.

Lemma back_inner (k : nat) (X : list A) : (k < n)%nat -> length X = n ->
  exists X', for_ (k + 1) n (fun j x =>
                let* xj := rd x j in
                let* xk := rd x k in
                let* a := mget m k j in
                upd x k (xk - a * xj)) X = Ok X' /\
    length X' = n /\ (forall i, i <> k -> vnth X' i = vnth X i) /\
    vnth X' k = vnth X k - back_tail k X.
Proof.
  intros Hk HL.
  destruct (for_inv (fun j0 (X' : list A) => length X' = n /\ (forall i, i <> k -> vnth X' i = vnth X i) /\
              vnth X' k = vnth X k - sum_n (j0 - (k + 1)) (fun t => ent m k (k + 1 + t) * vnth X (k + 1 + t)))
            (k + 1)%nat n (fun j x =>
                let* xj := rd x j in
                let* xk := rd x k in
                let* a := mget m k j in
                upd x k (xk - a * xj)) X) as (X' & E & L' & O' & K').
  - lia.
  - repeat split; auto. rewrite Nat.sub_diag. cbn [sum_n]. ring.
  - intros j X0 Hj (L0 & O0 & K0).
    rewrite (rd_ok X0 j zero) by lia. rewrite (rd_ok X0 k zero) by lia. cbn [bind].
    rewrite mget_ok by (auto; lia). cbn [bind].
    rewrite upd_ok by lia. eexists; split; [reflexivity|].
    rewrite upd_list_length. split; auto. split.
    + intros i Hi. unfold vnth. rewrite nth_upd_list by lia.
      destruct (Nat.eqb_spec i k); [lia|]. apply O0; auto.
    + unfold vnth at 1. rewrite nth_upd_list by lia. rewrite Nat.eqb_refl.
      replace (S j - (k + 1))%nat with (S (j - (k + 1))) by lia. cbn [sum_n].
      replace (k + 1 + (j - (k + 1)))%nat with j by lia.
      fold (vnth X0 k). fold (vnth X0 j). rewrite K0. rewrite (O0 j) by lia. ring.
  - exists X'; split; auto. repeat split; auto.
    rewrite K'. unfold back_tail. replace (n - (k + 1))%nat with (n - k - 1)%nat by lia. reflexivity.
Qed.

(* normal form of one iteration of the outer loop *)
Lemma back_step (n' : nat) (X : list A) : (1 <= n' <= n)%nat -> length X = n ->
  exists X1, length X1 = n /\ (forall i, i <> (n - n')%nat -> vnth X1 i = vnth X i) /\
    vnth X1 (n - n') = vnth X (n - n') - back_tail (n - n') X /\
    back_body n' X =
      (let* q := div (vnth X1 (n - n')) (ent m (n - n') (n - n')) in Ok (upd_list X1 (n - n') q)).
Proof.
  intros Hn HL. unfold back_body. rewrite Hr. unfold usub.
  destruct (Nat.leb_spec n' n); [|lia]. cbn [bind].
  replace (n - n' + 1)%nat with ((n - n') + 1)%nat by lia.
  destruct (back_inner (n - n') X) as (X1 & E & L1 & O1 & K1); [lia|auto|].
  rewrite E. cbn [bind]. exists X1. repeat split; auto.
  rewrite (rd_ok X1 (n - n') zero) by lia. cbn [bind].
  rewrite mget_ok by (auto; lia). cbn [bind]. fold (vnth X1 (n - n')).
  destruct (div (vnth X1 (n - n')) (ent m (n - n') (n - n'))); cbn; auto.
  apply upd_ok. lia.
Qed.

Definition UT : Prop := forall i j, (j < i)%nat -> (i < n)%nat -> ent m i j = zero.

(* effect of a successful iteration on the invariant *)
Definition back_inv (x : list A) (t : nat) (X : list A) : Prop :=
  length X = n /\
  (forall i, (i < n - t)%nat -> vnth X i = vnth x i) /\
  (forall i, (n - t <= i)%nat -> (i < n)%nat -> ent m i i <> zero /\ (UT -> mvprod n (ent m) (vnth X) i = vnth x i)).

Lemma back_row (k : nat) (X X1 : list A) (q xk : A) :
  (k < n)%nat -> UT -> length X1 = n ->
  ent m k k <> zero ->
  (forall i, i <> k -> vnth X1 i = vnth X i) ->
  vnth X1 k = xk - back_tail k X ->
  q = vnth X1 k * inv (ent m k k) ->
  mvprod n (ent m) (vnth (upd_list X1 k q)) k = xk.
Proof.
  intros Hk U L1 Hd O1 K1 Hq. unfold mvprod.
  replace n with (k + (1 + (n - k - 1)))%nat at 1 by lia.
  rewrite (sum_n_split FL), (sum_n_split FL 1). cbn [sum_n].
  rewrite (sum_n_zero FL).
  2:{ intros j Hj. rewrite (U k j) by lia. ring. }
  rewrite Nat.add_0_r.
  assert (E : sum_n (n - k - 1) (fun t => ent m k (k + (1 + t)) * vnth (upd_list X1 k q) (k + (1 + t))) = back_tail k X).
  { unfold back_tail. apply sum_n_ext. intros t Ht.
    replace (k + (1 + t))%nat with (k + 1 + t)%nat by lia. f_equal.
    unfold vnth at 1. rewrite nth_upd_list by lia. destruct (Nat.eqb_spec (k + 1 + t) k); [lia|].
    apply O1. lia. }
  rewrite E.
  assert (Eq : vnth (upd_list X1 k q) k = q).
  { unfold vnth. rewrite nth_upd_list by lia. now rewrite Nat.eqb_refl. }
  rewrite Eq, Hq, K1. field. exact Hd.
Qed.

Lemma back_inv_step (x : list A) (n' : nat) (X X' : list A) : (2 <= n' <= n)%nat -> length x = n ->
  back_inv x (n' - 1) X -> back_body n' X = Ok X' -> back_inv x n' X'.
Proof.
  intros Hn Lx (LX & Un & So) E.
  destruct (back_step n' X) as (X1 & L1 & O1 & K1 & B); [lia|auto|].
  rewrite B in E. rewrite div_nf in E.
  destruct (eqb (ent m (n - n') (n - n')) zero) eqn:Ez; [discriminate|].
  apply eqb_zero_false in Ez. cbn [bind] in E. injection E as <-.
  set (k := (n - n')%nat) in *.
  assert (Hk : (k < n)%nat) by (unfold k; lia).
  assert (V : forall i, i <> k -> vnth (upd_list X1 k (vnth X1 k * inv (ent m k k))) i = vnth X i).
  { intros i Hi. unfold vnth at 1. rewrite nth_upd_list by lia.
    destruct (Nat.eqb_spec i k); [lia|]. now apply O1. }
  split; [now rewrite upd_list_length|]. split.
  - intros i Hi. rewrite V by lia. apply Un. lia.
  - intros i Hi1 Hi2. destruct (Nat.eq_dec i k) as [->|Hik].
    + split; auto. intros U.
      apply (back_row k X X1 _ (vnth x k)); auto.
      rewrite K1. rewrite (Un k) by lia. reflexivity.
    + destruct (So i) as (D & S); [lia|auto|]. split; auto.
      intros U. rewrite <- (S U). unfold mvprod. apply sum_n_ext. intros j Hj.
      destruct (Nat.eq_dec j k) as [->|Hjk].
      * rewrite (U i k) by lia. ring.
      * now rewrite V.
Qed.

Lemma backsolve_nf (x : list A) : (1 <= n)%nat -> length x = n ->
  backsolve m x =
  (let* q := div (vnth x (n - 1)) (ent m (n - 1) (n - 1)) in
   for_ 2 (n + 1) back_body (upd_list x (n - 1) q)).
Proof.
  intros Hn Lx. rewrite backsolve_unfold. rewrite Hr. unfold usub.
  destruct (Nat.leb_spec 1 n); [|lia]. cbn [bind].
  rewrite (rd_ok x (n - 1) zero) by lia. cbn [bind].
  rewrite mget_ok by (auto; lia). cbn [bind]. fold (vnth x (n - 1)).
  destruct (div (vnth x (n - 1)) (ent m (n - 1) (n - 1))); cbn [bind]; auto.
  rewrite upd_ok by lia. reflexivity.
Qed.

Lemma back_inv_init (x : list A) : (1 <= n)%nat -> length x = n ->
  ent m (n - 1) (n - 1) <> zero ->
  back_inv x 1 (upd_list x (n - 1) (vnth x (n - 1) * inv (ent m (n - 1) (n - 1)))).
Proof.
  intros Hn Lx D. split; [now rewrite upd_list_length|]. split.
  - intros i Hi. unfold vnth. rewrite nth_upd_list by lia.
    destruct (Nat.eqb_spec i (n - 1)); [lia|]. reflexivity.
  - intros i Hi1 Hi2. assert (i = (n - 1)%nat) as -> by lia. split; auto.
    intros U. apply (back_row (n - 1) x x _ (vnth x (n - 1))); auto; try lia.
    unfold back_tail. replace (n - (n - 1) - 1)%nat with 0%nat by lia. cbn [sum_n]. ring.
Qed.

(* partial correctness: whatever backsolve returns *)
Lemma backsolve_spec (x y : list A) : length x = n -> backsolve m x = Ok y ->
  length y = n /\ (forall i, (i < n)%nat -> ent m i i <> zero) /\
  (UT -> forall i, (i < n)%nat -> mvprod n (ent m) (vnth y) i = vnth x i).
Proof.
  intros Lx E.
  destruct (Nat.eq_dec n 0) as [Z|NZ].
  { rewrite backsolve_unfold in E. rewrite Hr, Z in E. discriminate. }
  rewrite backsolve_nf in E by (auto; lia). rewrite div_nf in E.
  destruct (eqb (ent m (n - 1) (n - 1)) zero) eqn:Ez; [discriminate|].
  apply eqb_zero_false in Ez. cbn [bind] in E.
  assert (J : back_inv x (n + 1 - 1) y).
  {
    apply (for_inv_partial (fun n' X => back_inv x (n' - 1) X) 2 (n + 1) back_body
             (upd_list x (n - 1) (vnth x (n - 1) * inv (ent m (n - 1) (n - 1)))) y); [lia| | |exact E].
    - apply back_inv_init; auto; lia.
    - intros i s s1 Hi Hs Hb. replace (S i - 1)%nat with i by lia.
      apply (back_inv_step x i s s1); auto; lia. }
  replace (n + 1 - 1)%nat with n in J by lia.
  destruct J as (Ly & _ & So). split; auto. split.
  - intros i Hi. apply So; auto; lia.
  - intros U i Hi. apply So; auto; lia.
Qed.

(* totality: a non-zero diagonal is all back substitution needs *)
Lemma backsolve_total (x : list A) : (1 <= n)%nat -> length x = n ->
  (forall i, (i < n)%nat -> ent m i i <> zero) -> exists y, backsolve m x = Ok y.
Proof.
  intros Hn Lx D. rewrite backsolve_nf by auto. rewrite div_nf.
  assert (Ez : eqb (ent m (n - 1) (n - 1)) zero = false) by (apply eqb_zero_false, D; lia).
  rewrite Ez. cbn [bind].
  destruct (for_inv (fun (_ : nat) (X : list A) => length X = n) 2 (n + 1) back_body
              (upd_list x (n - 1) (vnth x (n - 1) * inv (ent m (n - 1) (n - 1))))) as (y & E & _).
  - lia.
  - now rewrite upd_list_length.
  - intros i X Hi LX.
    destruct (back_step i X) as (X1 & L1 & O1 & K1 & B); [lia|auto|].
    rewrite B, div_nf.
    assert (Ez' : eqb (ent m (n - i) (n - i)) zero = false) by (apply eqb_zero_false, D; lia).
    rewrite Ez'. cbn [bind]. eexists; split; [reflexivity|]. now rewrite upd_list_length.
  - eauto.
Qed.

End Back.
