(* Proofs/LUPrim.v -- entry-level specifications of the dense-matrix primitives the LU code is
   built from (mget, mset, swap_rows, eye), the textbook notions used on the right-hand side of
   the C01/C02 theorems (entries, sums, products, triangular parts, permutations by row
   transpositions) and the ring facts about [sum_n].  Stdlib style only. *)
From Coq Require Import List Arith Lia Bool Ring Ring_theory Field_theory.
From OV Require Import Base.Panic Base.Arith Model.Vector Model.Matrix Proofs.Matrix.
Import ListNotations.
Local Open Scope arith_scope.

(* What the pivot rule of lu_decomp_in_place needs from Signed::abs and PartialOrd:
   it skips the elimination of column i exactly when the running maximum of |a_ki| (k >= i),
   updated under the strict test |a| > max, is still zero.  These three laws make that
   "the whole sub-column is zero" and make a non-skipped pivot nonzero.  They hold for Q, R and
   for any ordered field with its absolute value.  (Without them the code's LU is NOT a
   factorisation of P*M: e.g. with abs = const 0 every column is skipped.) *)
Record PivLaws (A : Arith) : Prop := {
  pl_abs0 : forall x : A, abs x = zero <-> x = zero;
  pl_pos  : forall x : A, x <> zero -> ltb zero (abs x) = true;
  pl_nneg : forall x : A, ltb (abs x) zero = false;
}.

Section Prim.
Context {A : Arith}.
Notation matrix := (matrix A).

(* the (i,j) entry of the flat row-major buffer; meaningful under wf and in-range indices *)
Definition ent (m : matrix) (i j : nat) : A := nth (i * cols m + j) (buf m) zero.

Definition shape (m : matrix) (r c : nat) : Prop := wf m /\ rows m = r /\ cols m = c.

(* textbook notions over entry functions *)
Definition mprod (n : nat) (X Y : nat -> nat -> A) (r c : nat) : A :=
  sum_n n (fun k => X r k * Y k c).
Definition mvprod (n : nat) (X : nat -> nat -> A) (v : nat -> A) (r : nat) : A :=
  sum_n n (fun k => X r k * v k).
Definition delta (i j : nat) : A := if i =? j then one else zero.
Definition unit_lower (LU : matrix) (r k : nat) : A :=
  if k <? r then ent LU r k else if k =? r then one else zero.
Definition upper (LU : matrix) (k c : nat) : A :=
  if k <=? c then ent LU k c else zero.

(* row transposition and permutations reached by a list of transpositions (most recent first) *)
Definition tr (a b i : nat) : nat := if i =? a then b else if i =? b then a else i.
Fixpoint perm_of (sw : list (nat * nat)) (r : nat) : nat :=
  match sw with
  | [] => r
  | (a, b) :: t => perm_of t (tr a b r)
  end.
Definition swaps_ok (n : nat) (sw : list (nat * nat)) : Prop :=
  Forall (fun p => fst p < n /\ snd p < n /\ fst p <> snd p) sw.
(* P is the identity with its rows exchanged by [piv] genuine transpositions *)
Definition perm_by_swaps (n piv : nat) (P : matrix) (sw : list (nat * nat)) : Prop :=
  length sw = piv /\ swaps_ok n sw /\
  forall r c, r < n -> c < n -> ent P r c = delta (perm_of sw r) c.

(* ---------- index arithmetic ---------- *)
Lemma idx_lt i j r c : i < r -> j < c -> i * c + j < r * c.
Proof. nia. Qed.

Lemma idx_eqb i j i' j' c : j < c -> j' < c ->
  (i' * c + j' =? i * c + j) = ((i' =? i) && (j' =? j)).
Proof.
  intros Hj Hj'.
  destruct (Nat.eqb_spec i' i) as [->|Hi]; cbn.
  - destruct (Nat.eqb_spec j' j) as [->|Hn].
    + apply Nat.eqb_refl.
    + apply Nat.eqb_neq. lia.
  - apply Nat.eqb_neq. intros E.
    apply Hi.
    assert (E1 : (j' + i' * c) / c = (j + i * c) / c) by (f_equal; lia).
    rewrite !Nat.div_add, !Nat.div_small in E1 by lia. lia.
Qed.

(* ---------- mget / mset ---------- *)
Lemma mget_ok m r c i j : shape m r c -> i < r -> j < c -> mget m i j = Ok (ent m i j).
Proof.
  intros (W & <- & <-) Hi Hj. unfold mget, ent. apply rd_ok.
  rewrite W. now apply idx_lt.
Qed.

Lemma mget_Ok_inv m i j x : mget m i j = Ok x -> x = ent m i j.
Proof. unfold mget, ent. intros H. now apply (rd_Ok_inv _ _ _ zero) in H as [_ ->]. Qed.

Lemma mset_ok m r c i j x : shape m r c -> i < r -> j < c ->
  exists m', mset m i j x = Ok m' /\ shape m' r c /\
    forall i' j', j' < c -> ent m' i' j' = if (i' =? i) && (j' =? j) then x else ent m i' j'.
Proof.
  intros (W & <- & <-) Hi Hj. unfold mset.
  assert (L : i * cols m + j < length (buf m)) by (rewrite W; now apply idx_lt).
  rewrite (upd_ok _ _ _ L); cbn.
  eexists; split; [reflexivity|]. split.
  - unfold shape, wf; cbn. now rewrite upd_list_length.
  - intros i' j' Hj'. unfold ent; cbn.
    rewrite nth_upd_list by exact L. now rewrite idx_eqb.
Qed.

(* ---------- swap_rows ---------- *)
Lemma tr_lt a b i n : a < n -> b < n -> i < n -> tr a b i < n.
Proof. unfold tr. destruct (i =? a), (i =? b); lia. Qed.
Lemma tr_invol a b i : tr a b (tr a b i) = i.
Proof.
  unfold tr. destruct (Nat.eqb_spec i a) as [->|Ha].
  - rewrite Nat.eqb_refl. destruct (Nat.eqb_spec b a); auto.
  - destruct (Nat.eqb_spec i b) as [->|Hb].
    + now rewrite Nat.eqb_refl.
    + apply Nat.eqb_neq in Ha, Hb. now rewrite Ha, Hb.
Qed.
Lemma tr_same a i : tr a a i = i.
Proof. unfold tr. destruct (Nat.eqb_spec i a); auto. Qed.
Lemma tr_other a b i : i <> a -> i <> b -> tr a b i = i.
Proof. unfold tr. intros Ha Hb. apply Nat.eqb_neq in Ha, Hb. now rewrite Ha, Hb. Qed.
Lemma tr_l a b : tr a b a = b.
Proof. unfold tr. now rewrite Nat.eqb_refl. Qed.
Lemma tr_r a b : tr a b b = a.
Proof. unfold tr. rewrite Nat.eqb_refl. destruct (Nat.eqb_spec b a); auto. Qed.

Lemma swap_elem_ok m r c r1 r2 j : shape m r c -> r1 < r -> r2 < r -> j < c ->
  exists m', swap_elem m r1 j r2 j = Ok m' /\ shape m' r c /\
    forall i' j', j' < c -> ent m' i' j' = if j' =? j then ent m (tr r1 r2 i') j' else ent m i' j'.
Proof.
  intros S H1 H2 Hj. unfold swap_elem.
  rewrite (mget_ok m r c r1 j S H1 Hj), (mget_ok m r c r2 j S H2 Hj); cbn.
  destruct (mset_ok m r c r2 j (ent m r1 j) S H2 Hj) as (m1 & E1 & S1 & V1).
  rewrite E1; cbn.
  destruct (mset_ok m1 r c r1 j (ent m r2 j) S1 H1 Hj) as (m2 & E2 & S2 & V2).
  rewrite E2. exists m2; split; auto; split; auto.
  intros i' j' Hj'. rewrite V2, V1 by auto. unfold tr.
  destruct (Nat.eqb_spec j' j) as [->|Hn]; cbn [andb]; rewrite ?andb_true_r, ?andb_false_r; auto.
  destruct (i' =? r1); auto.
  destruct (i' =? r2); auto.
Qed.

Lemma swap_rows_ok m r c r1 r2 : shape m r c -> r1 < r -> r2 < r ->
  exists m', swap_rows m r1 r2 = Ok m' /\ shape m' r c /\
    forall i j, j < c -> ent m' i j = ent m (tr r1 r2 i) j.
Proof.
  intros S H1 H2. unfold swap_rows.
  destruct S as (W & Er & Ec).
  assert (G : (rows m <=? r1) || (rows m <=? r2) = false).
  { apply orb_false_iff; split; apply Nat.leb_gt; lia. }
  rewrite G.
  destruct (for_inv (fun j m' => shape m' r c /\
              forall i j', j' < c -> ent m' i j' = if j' <? j then ent m (tr r1 r2 i) j' else ent m i j')
            0 (cols m) (fun j m => swap_elem m r1 j r2 j) m) as (m' & E & S' & V).
  - lia.
  - split; [now split|]. intros i j' _. reflexivity.
  - intros j s Hj (Ss & Vs).
    destruct (swap_elem_ok s r c r1 r2 j Ss H1 H2) as (s' & E' & S' & V'); [lia|].
    exists s'; split; auto; split; auto.
    intros i j' Hj'. rewrite V', !Vs by auto.
    destruct (Nat.eqb_spec j' j) as [->|Hn].
    + rewrite Nat.ltb_irrefl. replace (j <? S j) with true by (symmetry; apply Nat.ltb_lt; lia). reflexivity.
    + destruct (Nat.ltb_spec j' j), (Nat.ltb_spec j' (S j)); auto; lia.
  - exists m'; split; auto; split; auto.
    intros i j Hj. rewrite V by auto. rewrite Ec. now apply Nat.ltb_lt in Hj as ->.
Qed.

(* ---------- eye ---------- *)
Lemma mat_new_shape r c (x : A) : shape (mat_new r c x) r c.
Proof. unfold shape, wf, mat_new; cbn. now rewrite repeat_length. Qed.

Lemma mat_new_ent r c (x : A) i j : i < r -> j < c -> ent (mat_new r c x) i j = x.
Proof.
  intros Hi Hj. unfold ent, mat_new; cbn.
  assert (L : (i * c + j < r * c)%nat) by now apply idx_lt.
  revert L. generalize (i * c + j)%nat (r * c)%nat. intros k n. revert k.
  induction n as [|n IH]; intros k L; [lia|]. destruct k; cbn; auto. apply IH; lia.
Qed.

Lemma eye_ok n : exists m, eye n = Ok m /\ shape m n n /\
  forall i j, i < n -> j < n -> ent m i j = delta i j.
Proof.
  unfold eye.
  destruct (for_inv (fun k m' => shape m' n n /\
              forall i j, i < n -> j < n -> ent m' i j = if (i =? j) && (i <? k) then one else zero)
            0 n (fun i m => mset m i i one) (mat_new n n zero)) as (m' & E & S' & V).
  - lia.
  - split; [apply mat_new_shape|]. intros i j Hi Hj. rewrite andb_false_r. now apply mat_new_ent.
  - intros k s Hk (Ss & Vs).
    destruct (mset_ok s n n k k one Ss) as (s' & E' & S' & V'); [lia|lia|].
    exists s'; split; auto; split; auto.
    intros i j Hi Hj. rewrite V', Vs by auto.
    destruct (Nat.eqb_spec i k) as [->|Hn]; cbn [andb].
    + destruct (Nat.eqb_spec j k) as [->|Hn'].
      * rewrite Nat.eqb_refl. replace (k <? S k) with true by (symmetry; apply Nat.ltb_lt; lia). reflexivity.
      * destruct (Nat.eqb_spec k j); [congruence|reflexivity].
    + destruct (Nat.eqb_spec i j); cbn [andb]; auto.
      destruct (Nat.ltb_spec i k), (Nat.ltb_spec i (S k)); auto; lia.
  - exists m'; split; auto; split; auto.
    intros i j Hi Hj. rewrite V by auto. unfold delta.
    apply Nat.ltb_lt in Hi as ->. now rewrite andb_true_r.
Qed.

(* ---------- permutations by transpositions ---------- *)
Lemma perm_of_lt n sw r : swaps_ok n sw -> r < n -> perm_of sw r < n.
Proof.
  revert r; induction sw as [|[a b] t IH]; intros r H Hr; cbn; auto.
  inversion H as [|x l (Ha & Hb & _) Ht]; subst; cbn in *.
  apply IH; auto. now apply tr_lt.
Qed.

Lemma perm_of_inj sw r r' : perm_of sw r = perm_of sw r' -> r = r'.
Proof.
  revert r r'; induction sw as [|[a b] t IH]; intros r r' H; cbn in *; auto.
  apply IH in H. rewrite <- (tr_invol a b r), H. apply tr_invol.
Qed.

(* every row index is hit: perm_of sw is onto [0,n) *)
Lemma perm_of_surj n sw q : swaps_ok n sw -> q < n -> exists r, r < n /\ perm_of sw r = q.
Proof.
  revert q; induction sw as [|[a b] t IH]; intros q H Hq; cbn.
  - exists q; auto.
  - inversion H as [|x l (Ha & Hb & _) Ht]; subst; cbn in *.
    destruct (IH q Ht Hq) as (r & Hr & E).
    exists (tr a b r); split; [now apply tr_lt|]. now rewrite tr_invol.
Qed.

End Prim.
