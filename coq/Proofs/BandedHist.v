(* Proofs/BandedHist.v -- well-formedness (the hypothesis wfB of every theorem of C04) is an invariant of
   every operation of the public API: whatever history of operations built a banded matrix, starting from
   Banded::new, the compact storage is the n x (m1+m2+1) matrix the index map assumes. *)
From Coq Require Import List Arith Lia ZArith Bool.
From OV Require Import Base.Panic Base.Arith Model.Vector Model.Matrix Model.Banded Proofs.Banded.
Import ListNotations.
Local Open Scope nat_scope.

Section Hist.
Context {A : Arith}.
Notation T := (T A).
Notation matrix := (matrix A).
Notation banded := (banded A).

(* same shape and buffer length *)
Definition same_shape (m0 m : matrix) : Prop :=
  rows m = rows m0 /\ cols m = cols m0 /\ length (buf m) = length (buf m0).

Lemma same_shape_refl m : same_shape m m.
Proof. unfold same_shape; auto. Qed.

Lemma same_shape_trans m0 m1 m2 : same_shape m0 m1 -> same_shape m1 m2 -> same_shape m0 m2.
Proof. unfold same_shape; intuition congruence. Qed.

Lemma mset_shape (m m' : matrix) i j x : mset m i j x = Ok m' -> same_shape m m'.
Proof.
  unfold mset. intros H. apply bind_ok in H as (b & Hb & H). injection H as <-.
  apply upd_Ok_inv in Hb as (_ & ->). unfold same_shape; cbn. now rewrite upd_list_length.
Qed.

(* a loop whose body keeps the shape keeps the shape *)
Lemma for_shape lo hi (body : nat -> matrix -> res matrix) (m0 m m' : matrix) :
  (forall i a a', body i a = Ok a' -> same_shape a a') ->
  same_shape m0 m -> for_ lo hi body m = Ok m' -> same_shape m0 m'.
Proof.
  intros Hb H0 H. destruct (Nat.le_gt_cases lo hi) as [Hle|Hgt].
  - refine (for_inv_partial (fun _ a => same_shape m0 a) lo hi body m m' Hle H0 _ H).
    intros i a a' _ Ha E. eapply same_shape_trans; eauto.
  - rewrite for_empty in H by lia. now injection H as <-.
Qed.

Lemma for_shape' lo hi (body : nat -> matrix -> res matrix) (m m' : matrix) :
  (forall i a a', body i a = Ok a' -> same_shape a a') -> for_ lo hi body m = Ok m' -> same_shape m m'.
Proof. intros Hb. apply for_shape; auto. apply same_shape_refl. Qed.

Lemma fill_shape (m m' : matrix) x : fill m x = Ok m' -> same_shape m m'.
Proof.
  unfold fill. apply for_shape'. intros i a a'. apply for_shape'. intros j b b'. apply mset_shape.
Qed.

Lemma fill_col_shape (m m' : matrix) c x : fill_col m c x = Ok m' -> same_shape m m'.
Proof.
  unfold fill_col. destruct (cols m <=? c); [discriminate|].
  apply for_shape'. intros i a a'. apply mset_shape.
Qed.

Lemma mupd_all_shape (m m' : matrix) h : mupd_all m h = Ok m' -> same_shape m m'.
Proof.
  unfold mupd_all. apply for_shape'. intros i a a'. apply for_shape'. intros j b b' E.
  apply bind_ok in E as (x & _ & E). apply bind_ok in E as (y & _ & E). now apply mset_shape in E.
Qed.

Lemma resize_shape (m m' : matrix) nr nc :
  resize m nr nc = Ok m' -> rows m' = nr /\ cols m' = nc /\ length (buf m') = nr * nc.
Proof.
  unfold resize. intros H.
  assert (HS : same_shape (mat_new nr nc zero) m').
  { revert H. apply for_shape'. intros i a a'. apply for_shape'. intros j b b' E.
    destruct ((i <? rows m) && (j <? cols m)).
    - apply bind_ok in E as (x & _ & E). now apply mset_shape in E.
    - injection E as <-. apply same_shape_refl. }
  destruct HS as (Hr & Hc & Hl). cbn in Hr, Hc, Hl. rewrite repeat_length in Hl. auto.
Qed.

(* wfB through a shape-preserving change of the compact matrix *)
Lemma wfB_with_compact (B : banded) (c : matrix) : wfB B -> same_shape (compact B) c -> wfB (with_compact B c).
Proof.
  intros (Hw & Hr & Hc) (Hr' & Hc' & Hl'). unfold wfB, wfM, with_compact in *; cbn.
  repeat split; congruence.
Qed.

(* ---- every mutating operation of the API keeps the matrix well formed ---- *)
Lemma bstep_wf (B B' : banded) (o : bop A) (v : bval) : wfB B -> bstep B o = Ok (B', v) -> wfB B'.
Proof.
  intros Hwf H. destruct o; cbn [bstep] in H;
    try (injection H as <- <-; exact Hwf);
    try (apply bind_ok in H as (X & HX & H); injection H as <- <-; try exact Hwf).
  - (* new *) injection H as <- <-. apply band_new_wf.
  - (* fill *) unfold band_fill in HX. apply bind_ok in HX as (c & Hc & HX). injection HX as <-.
    apply wfB_with_compact; auto. now apply fill_shape in Hc.
  - (* resize *) unfold band_resize in HX. apply bind_ok in HX as (c & Hc & HX). injection HX as <-.
    apply resize_shape in Hc as (Hr & Hcc & Hl). unfold wfB, wfM; cbn. repeat split; auto. now rewrite Hl, Hr, Hcc.
  - (* fill_band *) unfold band_fill_band in HX.
    destruct ((b <? - Z.of_nat (bm1 B))%Z || (Z.of_nat (bm2 B) <? b)%Z); [discriminate|].
    apply bind_ok in HX as (c & Hc & HX). injection HX as <-.
    apply wfB_with_compact; auto. now apply fill_col_shape in Hc.
  - (* index_mut *) unfold band_set in HX. destruct (out_of_band (bm1 B) (bm2 B) i j); [discriminate|].
    apply bind_ok in HX as (c & Hc & HX). injection HX as <-.
    apply wfB_with_compact; auto. now apply mset_shape in Hc.
  - (* += *) unfold band_add_assign, band_guard3 in HX.
    destruct (negb (bn B =? bn C)); [discriminate|]. destruct (negb (bm1 B =? bm1 C)); [discriminate|].
    destruct (negb (bm2 B =? bm2 C)); [discriminate|].
    apply bind_ok in HX as (c & Hc & HX). injection HX as <-. apply wfB_with_compact; auto.
    unfold madd_assign in Hc. destruct (negb (rows (compact B) =? rows (compact C))); [discriminate|].
    destruct (negb (cols (compact B) =? cols (compact C))); [discriminate|]. now apply mupd_all_shape in Hc.
  - (* -= *) unfold band_sub_assign, band_guard3 in HX.
    destruct (negb (bn B =? bn C)); [discriminate|]. destruct (negb (bm1 B =? bm1 C)); [discriminate|].
    destruct (negb (bm2 B =? bm2 C)); [discriminate|].
    apply bind_ok in HX as (c & Hc & HX). injection HX as <-. apply wfB_with_compact; auto.
    unfold msub_assign in Hc. destruct (negb (rows (compact B) =? rows (compact C))); [discriminate|].
    destruct (negb (cols (compact B) =? cols (compact C))); [discriminate|]. now apply mupd_all_shape in Hc.
  - unfold band_mul_assign_s in HX. apply bind_ok in HX as (c & Hc & HX). injection HX as <-.
    apply wfB_with_compact; auto. now apply mupd_all_shape in Hc.
  - unfold band_div_assign_s in HX. apply bind_ok in HX as (c & Hc & HX). injection HX as <-.
    apply wfB_with_compact; auto. now apply mupd_all_shape in Hc.
  - unfold band_add_assign_s in HX. apply bind_ok in HX as (c & Hc & HX). injection HX as <-.
    apply wfB_with_compact; auto. now apply mupd_all_shape in Hc.
  - unfold band_sub_assign_s in HX. apply bind_ok in HX as (c & Hc & HX). injection HX as <-.
    apply wfB_with_compact; auto. now apply mupd_all_shape in Hc.
Qed.

(* the state after a history: a panicking operation leaves the matrix as it was *)
Definition brun_state (B : banded) (ops : list (bop A)) : banded :=
  fold_left (fun B o => match bstep B o with Ok (B', _) => B' | Panic _ => B end) ops B.

Lemma band_history_wf_lemma (ops : list (bop A)) (B : banded) : wfB B -> wfB (brun_state B ops).
Proof.
  revert B. induction ops as [|o ops IH]; intros B Hwf; cbn; auto.
  apply IH. destruct (bstep B o) as [[B' v]|k] eqn:E; auto. now apply (bstep_wf B B' o v).
Qed.

End Hist.
