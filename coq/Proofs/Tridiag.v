(* Proofs/Tridiag.v -- stub, to be filled in *)
