(* Proofs/Tridiag.v -- lemmas about Model/Tridiag.v: every view of a tridiagonal matrix equals its
   dense twin [dense t : nat -> nat -> A] (the textbook matrix with the same three diagonals). *)
From Coq Require Import List Arith Lia Bool Ring_theory Ring.
From OV Require Import Base.Panic Base.Arith Model.Vector Model.Matrix Model.Tridiag.
Import ListNotations.

(* ---------- small list facts ---------- *)
Lemma nth_repeat_any {X} (x : X) n i : nth i (repeat x n) x = x.
Proof. revert i; induction n as [|n IH]; intros [|i]; cbn; auto. Qed.

Lemma nth_repeat_lt {X} (x d : X) n i : i < n -> nth i (repeat x n) d = x.
Proof. revert i; induction n as [|n IH]; intros [|i] H; cbn; auto; try lia. apply IH; lia. Qed.

Lemma idx_inj c a b a' b' : b < c -> b' < c -> a * c + b = a' * c + b' -> a = a' /\ b = b'.
Proof.
  intros Hb Hb' E.
  assert (a = a') as ->.
  { apply (f_equal (fun x => x / c)) in E.
    rewrite !Nat.div_add_l, !Nat.div_small, !Nat.add_0_r in E by lia. exact E. }
  split; [reflexivity | lia].
Qed.

Section TriProofs.
Context {A : Arith}.
Notation T := (T A).
Notation tridiag := (tridiag A).
Notation matrix := (matrix A).

(* well-formed: the invariant every constructor establishes *)
Definition wfT (t : tridiag) : Prop :=
  length (tmain t) = tn t /\ length (tsub t) = tn t - 1 /\ length (tsup t) = tn t - 1.

(* in the band: on one of the three diagonals *)
Definition in_band (i j : nat) : Prop := i = j \/ i = j + 1 \/ i + 1 = j.

(* dense-matrix side: well-formed flat buffer and its (i,j) entry *)
Definition wfM (m : matrix) : Prop := length (buf m) = rows m * cols m.
Definition entry (m : matrix) (i j : nat) : T := nth (i * cols m + j) (buf m) zero.

(* ---------- constructors establish wfT ---------- *)
Lemma with_vecs_spec (sub main sup : list T) :
  1 <= length main -> length sub = length main - 1 -> length sup = length main - 1 ->
  exists t, with_vecs sub main sup = Ok t /\ wfT t /\ tn t = length main /\
            tsub t = sub /\ tmain t = main /\ tsup t = sup.
Proof.
  intros Hn Hs Hp. unfold with_vecs, usub.
  destruct (Nat.leb_spec 1 (length main)) as [_|]; [|lia]. cbn [bind].
  rewrite Hs, Hp, Nat.eqb_refl. cbn [negb bind].
  eexists; split; [reflexivity|]. unfold wfT; cbn. auto.
Qed.

Lemma with_vecs_rejects (sub main sup : list T) :
  1 <= length main -> (length sub <> length main - 1 \/ length sup <> length main - 1) ->
  with_vecs sub main sup = Panic Guard.
Proof.
  intros Hn H. unfold with_vecs, usub.
  destruct (Nat.leb_spec 1 (length main)) as [_|]; [|lia]. cbn [bind].
  destruct (Nat.eqb_spec (length sub) (length main - 1)) as [E1|]; cbn [negb]; [|reflexivity].
  cbn [bind]. destruct (Nat.eqb_spec (length sup) (length main - 1)) as [E2|]; cbn [negb]; [|reflexivity].
  lia.
Qed.

Lemma with_elements_spec (a b c : T) n : 1 <= n ->
  exists t, with_elements a b c n = Ok t /\ wfT t /\ tn t = n /\
    forall i j, i < n -> j < n -> dense t i j =
      if i =? j then b else if i =? j + 1 then a else if i + 1 =? j then c else zero.
Proof.
  intros Hn. unfold with_elements, usub.
  destruct (Nat.leb_spec 1 n) as [_|]; [|lia]. cbn [bind].
  eexists; split; [reflexivity|]. unfold wfT; cbn [tmain tsub tsup tn].
  rewrite !repeat_length. repeat split; auto.
  intros i j Hi Hj. unfold dense; cbn [tmain tsub tsup].
  destruct (Nat.eqb_spec i j); [apply nth_repeat_lt|]; try lia.
  destruct (Nat.eqb_spec i (j + 1)); [apply nth_repeat_lt|]; try lia.
  destruct (Nat.eqb_spec (i + 1) j); [apply nth_repeat_lt|]; try lia.
  reflexivity.
Qed.

(* ---------- index: the dense twin on the three diagonals, a refusal everywhere else ---------- *)
Lemma tindex_in_band t i j : wfT t -> i < tn t -> j < tn t -> in_band i j ->
  tindex t i j = Ok (dense t i j).
Proof.
  intros (Hm & Hs & Hp) Hi Hj Hb. unfold tindex, dense.
  destruct (Nat.leb_spec (tn t) i); [lia|]. destruct (Nat.leb_spec (tn t) j); [lia|]. cbn [orb].
  destruct (Nat.eqb_spec i j); [apply rd_ok; lia|].
  destruct (Nat.eqb_spec i (j + 1)); [apply rd_ok; lia|].
  destruct (Nat.eqb_spec (i + 1) j); [apply rd_ok; lia|].
  unfold in_band in Hb; lia.
Qed.

Lemma tindex_refuses (t : tridiag) i j : (tn t <= i \/ tn t <= j \/ ~ in_band i j) -> tindex t i j = Panic Guard.
Proof.
  intros H. unfold tindex.
  destruct (Nat.leb_spec (tn t) i); [reflexivity|]. destruct (Nat.leb_spec (tn t) j); [reflexivity|]. cbn [orb].
  unfold in_band in H.
  destruct (Nat.eqb_spec i j); [lia|]. destruct (Nat.eqb_spec i (j + 1)); [lia|].
  destruct (Nat.eqb_spec (i + 1) j); [lia|]. reflexivity.
Qed.

Lemma dense_off_band (t : tridiag) i j : ~ in_band i j -> dense t i j = zero.
Proof.
  intros H. unfold dense, in_band in *.
  destruct (Nat.eqb_spec i j); [lia|]. destruct (Nat.eqb_spec i (j + 1)); [lia|].
  destruct (Nat.eqb_spec (i + 1) j); [lia|]. reflexivity.
Qed.

(* ---------- writes through IndexMut ---------- *)
Lemma tset_in_band t i j x : wfT t -> i < tn t -> j < tn t -> in_band i j ->
  exists t', tset t i j x = Ok t' /\ wfT t' /\ tn t' = tn t /\
    forall a b, a < tn t -> b < tn t ->
      dense t' a b = if (a =? i) && (b =? j) then x else dense t a b.
Proof.
  intros (Hm & Hs & Hp) Hi Hj Hb. unfold tset.
  destruct (Nat.leb_spec (tn t) i); [lia|]. destruct (Nat.leb_spec (tn t) j); [lia|]. cbn [orb].
  destruct (Nat.eqb_spec i j) as [E|NE].
  { subst j. rewrite upd_ok by lia. cbn [bind]. eexists; split; [reflexivity|].
    unfold wfT; cbn [tmain tsub tsup tn]. rewrite upd_list_length. repeat split; auto.
    intros a b Ha Hb'. unfold dense; cbn [tmain tsub tsup].
    destruct (Nat.eqb_spec a b) as [Eab|]; [subst a|].
    - rewrite nth_upd_list by lia. destruct (Nat.eqb_spec b i); cbn [andb]; reflexivity.
    - destruct (Nat.eqb_spec a i); destruct (Nat.eqb_spec b i); cbn [andb]; try reflexivity; lia. }
  destruct (Nat.eqb_spec i (j + 1)) as [E|NE2].
  { subst i. rewrite upd_ok by lia. cbn [bind]. eexists; split; [reflexivity|].
    unfold wfT; cbn [tmain tsub tsup tn]. rewrite upd_list_length. repeat split; auto.
    intros a b Ha Hb'. unfold dense; cbn [tmain tsub tsup].
    destruct (Nat.eqb_spec a b) as [Eab|]; [subst a|].
    { destruct (Nat.eqb_spec b (j + 1)); destruct (Nat.eqb_spec b j); cbn [andb]; try reflexivity; lia. }
    destruct (Nat.eqb_spec a (b + 1)) as [->|].
    { rewrite nth_upd_list by lia.
      destruct (Nat.eqb_spec b j); destruct (Nat.eqb_spec (b + 1) (j + 1)); cbn [andb]; try reflexivity; lia.
    }
    destruct (Nat.eqb_spec a (j + 1)); destruct (Nat.eqb_spec b j); cbn [andb]; try reflexivity; lia. }
  destruct (Nat.eqb_spec (i + 1) j) as [E|NE3]; [|unfold in_band in Hb; lia].
  subst j. rewrite upd_ok by lia. cbn [bind]. eexists; split; [reflexivity|].
  unfold wfT; cbn [tmain tsub tsup tn]. rewrite upd_list_length. repeat split; auto.
  intros a b Ha Hb'. unfold dense; cbn [tmain tsub tsup].
  destruct (Nat.eqb_spec a b) as [Eab|]; [subst a|].
  { destruct (Nat.eqb_spec b i); destruct (Nat.eqb_spec b (i + 1)); cbn [andb]; try reflexivity; lia. }
  destruct (Nat.eqb_spec a (b + 1)) as [->|].
  { destruct (Nat.eqb_spec (b + 1) i); destruct (Nat.eqb_spec b (i + 1)); cbn [andb]; try reflexivity; lia. }
  destruct (Nat.eqb_spec (a + 1) b) as [<-|].
  { rewrite nth_upd_list by lia.
    destruct (Nat.eqb_spec a i); destruct (Nat.eqb_spec (a + 1) (i + 1)); cbn [andb]; try reflexivity; lia. }
  destruct (Nat.eqb_spec a i); destruct (Nat.eqb_spec b (i + 1)); cbn [andb]; try reflexivity; lia.
Qed.

Lemma tset_refuses (t : tridiag) i j x : (tn t <= i \/ tn t <= j \/ ~ in_band i j) -> tset t i j x = Panic Guard.
Proof.
  intros H. unfold tset.
  destruct (Nat.leb_spec (tn t) i); [reflexivity|]. destruct (Nat.leb_spec (tn t) j); [reflexivity|]. cbn [orb].
  unfold in_band in H.
  destruct (Nat.eqb_spec i j); [lia|]. destruct (Nat.eqb_spec i (j + 1)); [lia|].
  destruct (Nat.eqb_spec (i + 1) j); [lia|]. reflexivity.
Qed.

(* ---------- transpose = exchange of sub- and super-diagonal ---------- *)
Lemma ttranspose_spec t : wfT t ->
  wfT (ttranspose t) /\ tn (ttranspose t) = tn t /\ forall i j, dense (ttranspose t) i j = dense t j i.
Proof.
  intros (Hm & Hs & Hp). unfold ttranspose, ttranspose_in_place, wfT; cbn [tmain tsub tsup tn].
  repeat split; auto.
  intros i j. unfold dense; cbn [tmain tsub tsup].
  destruct (Nat.eqb_spec i j) as [->|]; [now rewrite Nat.eqb_refl|].
  destruct (Nat.eqb_spec j i); [lia|].
  destruct (Nat.eqb_spec i (j + 1)) as [->|].
  { destruct (Nat.eqb_spec j (j + 1 + 1)); [lia|]. now rewrite Nat.eqb_refl. }
  destruct (Nat.eqb_spec (j + 1) i); [lia|].
  destruct (Nat.eqb_spec (i + 1) j) as [<-|].
  { now rewrite Nat.eqb_refl. }
  destruct (Nat.eqb_spec j (i + 1)); [lia|]. reflexivity.
Qed.

(* ---------- convert: the flat row-major dense matrix holds the dense twin ---------- *)
Lemma mset_spec (d : matrix) a b x : wfM d -> a < rows d -> b < cols d ->
  exists d', mset d a b x = Ok d' /\ wfM d' /\ rows d' = rows d /\ cols d' = cols d /\
    forall a' b', a' < rows d -> b' < cols d ->
      entry d' a' b' = if (a' =? a) && (b' =? b) then x else entry d a' b'.
Proof.
  intros Hw Ha Hb. unfold mset, wfM in *.
  assert (Hlt : a * cols d + b < length (buf d)) by nia.
  rewrite upd_ok by exact Hlt. cbn [bind]. eexists; split; [reflexivity|].
  cbn [buf rows cols]. rewrite upd_list_length. repeat split; auto.
  intros a' b' Ha' Hb'. unfold entry; cbn [buf rows cols].
  rewrite nth_upd_list by exact Hlt.
  destruct (Nat.eqb_spec (a' * cols d + b') (a * cols d + b)) as [E|NE].
  - apply idx_inj in E as [-> ->]; auto. now rewrite !Nat.eqb_refl.
  - destruct (Nat.eqb_spec a' a) as [->|]; destruct (Nat.eqb_spec b' b) as [->|]; cbn [andb]; auto; lia.
Qed.

Lemma tconvert_spec t : wfT t -> 1 <= tn t ->
  exists m, tconvert t = Ok m /\ wfM m /\ rows m = tn t /\ cols m = tn t /\
    forall i j, i < tn t -> j < tn t -> entry m i j = dense t i j.
Proof.
  intros (Hm & Hs & Hp) Hn. unfold tconvert.
  set (n := tn t) in *.
  assert (W0 : wfM (mat_new n n (@zero A)) /\ rows (mat_new n n (@zero A)) = n /\ cols (mat_new n n (@zero A)) = n
               /\ forall i j, entry (mat_new n n (@zero A)) i j = zero).
  { unfold wfM, mat_new, entry; cbn. rewrite repeat_length. repeat split; auto.
    intros; apply nth_repeat_any. }
  destruct W0 as (W0 & R0 & C0 & E0).
  destruct (Nat.eqb_spec n 0); [lia|].
  destruct (Nat.eqb_spec n 1) as [N1|N1].
  - (* n = 1 *)
    rewrite (rd_ok _ _ zero) by lia. cbn [bind].
    destruct (mset_spec (mat_new n n zero) 0 0 (nth 0 (tmain t) zero) W0) as (d & E & W & R & C & V); try lia.
    exists d; split; [exact E|]. rewrite R, C, R0, C0. repeat split; auto.
    intros i j Hi Hj. rewrite V by lia. assert (i = 0) as -> by lia. assert (j = 0) as -> by lia. reflexivity.
  - (* n >= 2 *)
    rewrite (rd_ok _ _ zero) by lia. cbn [bind].
    destruct (mset_spec (mat_new n n zero) 0 0 (nth 0 (tmain t) zero) W0) as (d1 & E1 & W1 & R1 & C1 & V1); try lia.
    rewrite E1; cbn [bind]. rewrite (rd_ok _ _ zero) by lia. cbn [bind].
    destruct (mset_spec d1 0 1 (nth 0 (tsup t) zero) W1) as (d2 & E2 & W2 & R2 & C2 & V2); try lia.
    rewrite E2; cbn [bind].
    (* the loop over the interior rows *)
    pose (I := fun (i : nat) (d : matrix) =>
      wfM d /\ rows d = n /\ cols d = n /\
      forall a b, a < n -> b < n -> entry d a b = if a <? i then dense t a b else zero).
    assert (I2 : I 1 d2).
    { unfold I. rewrite R2, C2, R1, C1, R0, C0. repeat split; auto.
      intros a b Ha Hb. rewrite V2, V1 by lia. rewrite E0.
      destruct (Nat.ltb_spec a 1) as [La|La].
      - assert (a = 0) as -> by lia. cbn [Nat.eqb andb]. unfold dense.
        destruct b as [|[|b]]; cbn [Nat.eqb andb]; reflexivity.
      - destruct (Nat.eqb_spec a 0); [lia|]. reflexivity. }
    destruct (for_inv I 1 (n - 1) (fun i d =>
                let* x := rd (tsub t) (i - 1) in
                let* d := mset d i (i - 1) x in
                let* x := rd (tmain t) i in
                let* d := mset d i i x in
                let* x := rd (tsup t) i in
                mset d i (i + 1) x) d2) as (d3 & E3 & (W3 & R3 & C3 & V3)); [lia|exact I2| |].
    { intros i d Hi (W & R & C & V).
      rewrite (rd_ok _ _ zero) by lia. cbn [bind].
      destruct (mset_spec d i (i - 1) (nth (i - 1) (tsub t) zero) W) as (da & Ea & Wa & Ra & Ca & Va); try lia.
      rewrite Ea; cbn [bind]. rewrite (rd_ok _ _ zero) by lia. cbn [bind].
      destruct (mset_spec da i i (nth i (tmain t) zero) Wa) as (db & Eb & Wb & Rb & Cb & Vb); try lia.
      rewrite Eb; cbn [bind]. rewrite (rd_ok _ _ zero) by lia. cbn [bind].
      destruct (mset_spec db i (i + 1) (nth i (tsup t) zero) Wb) as (dc & Ec & Wc & Rc & Cc & Vc); try lia.
      exists dc; split; [exact Ec|]. unfold I. rewrite Rc, Cc, Rb, Cb, Ra, Ca. repeat split; auto.
      intros a b Ha Hb. rewrite Vc, Vb, Va, V by lia.
      destruct (Nat.eqb_spec a i) as [Eai|NA]; [subst a|]; cbn [andb].
      - destruct (Nat.ltb_spec i (S i)); [|lia]. destruct (Nat.ltb_spec i i); [lia|].
        unfold dense.
        destruct (Nat.eqb_spec b (i + 1)) as [->|].
        { destruct (Nat.eqb_spec i (i + 1)); [lia|]. destruct (Nat.eqb_spec i (i + 1 + 1)); [lia|].
          now rewrite Nat.eqb_refl. }
        destruct (Nat.eqb_spec b i) as [Ebi|]; [subst b; now rewrite Nat.eqb_refl|].
        destruct (Nat.eqb_spec i b); [lia|].
        destruct (Nat.eqb_spec b (i - 1)) as [->|].
        { destruct (Nat.eqb_spec i (i - 1 + 1)); [reflexivity|lia]. }
        destruct (Nat.eqb_spec i (b + 1)); [lia|]. destruct (Nat.eqb_spec (i + 1) b); [lia|]. reflexivity.
      - destruct (Nat.ltb_spec a (S i)); destruct (Nat.ltb_spec a i); try reflexivity; lia. }
    rewrite E3; cbn [bind]. rewrite (rd_ok _ _ zero) by lia. cbn [bind].
    destruct (mset_spec d3 (n - 1) (n - 2) (nth (n - 2) (tsub t) zero) W3) as (d4 & E4 & W4 & R4 & C4 & V4); try lia.
    rewrite E4; cbn [bind]. rewrite (rd_ok _ _ zero) by lia. cbn [bind].
    destruct (mset_spec d4 (n - 1) (n - 1) (nth (n - 1) (tmain t) zero) W4) as (d5 & E5 & W5 & R5 & C5 & V5); try lia.
    exists d5; split; [exact E5|]. rewrite R5, C5, R4, C4. repeat split; auto.
    intros i j Hi Hj. rewrite V5, V4, V3 by lia.
    destruct (Nat.eqb_spec i (n - 1)) as [->|NI]; cbn [andb].
    + destruct (Nat.ltb_spec (n - 1) (n - 1)); [lia|]. unfold dense.
      destruct (Nat.eqb_spec j (n - 1)) as [->|]; [now rewrite Nat.eqb_refl|].
      destruct (Nat.eqb_spec (n - 1) j); [lia|].
      destruct (Nat.eqb_spec j (n - 2)) as [->|].
      { destruct (Nat.eqb_spec (n - 1) (n - 2 + 1)); [reflexivity|lia]. }
      destruct (Nat.eqb_spec (n - 1) (j + 1)); [lia|]. destruct (Nat.eqb_spec (n - 1 + 1) j); [lia|]. reflexivity.
    + destruct (Nat.ltb_spec i (n - 1)); [reflexivity|lia].
Qed.

End TriProofs.
