(* Proofs/Tridiag.v -- lemmas about Model/Tridiag.v: every view of a tridiagonal matrix equals its
   dense twin [dense t : nat -> nat -> A] (the textbook matrix with the same three diagonals). *)
From Coq Require Import List Arith Lia Bool Ring_theory Ring.
From OV Require Import Base.Panic Base.Arith Model.Vector Model.Matrix Model.Tridiag.
Import ListNotations.

(* ---------- small list facts ---------- *)
Lemma nth_repeat_any {X} (x : X) n i : nth i (repeat x n) x = x.
Proof. revert i; induction n as [|n IH]; intros [|i]; cbn; auto. Qed.

Lemma nth_repeat_lt {X} (x d : X) n i : i < n -> nth i (repeat x n) d = x.
Proof. revert i; induction n as [|n IH]; intros [|i] H; cbn; auto; try lia. apply IH; lia. Qed.

Lemma idx_inj c a b a' b' : b < c -> b' < c -> a * c + b = a' * c + b' -> a = a' /\ b = b'.
Proof.
  intros Hb Hb' E.
  assert (a = a') as ->.
  { apply (f_equal (fun x => x / c)) in E.
    rewrite !Nat.div_add_l, !Nat.div_small, !Nat.add_0_r in E by lia. exact E. }
  split; [reflexivity | lia].
Qed.

Section TriProofs.
Context {A : Arith}.
Notation T := (T A).
Notation tridiag := (tridiag A).
Notation matrix := (matrix A).

(* well-formed: the invariant every constructor establishes *)
Definition wfT (t : tridiag) : Prop :=
  length (tmain t) = tn t /\ length (tsub t) = tn t - 1 /\ length (tsup t) = tn t - 1.

(* in the band: on one of the three diagonals *)
Definition in_band (i j : nat) : Prop := i = j \/ i = j + 1 \/ i + 1 = j.

(* dense-matrix side: well-formed flat buffer and its (i,j) entry *)
Definition wfM (m : matrix) : Prop := length (buf m) = rows m * cols m.
Definition entry (m : matrix) (i j : nat) : T := nth (i * cols m + j) (buf m) zero.

(* ---------- constructors establish wfT ---------- *)
Lemma with_vecs_spec (sub main sup : list T) :
  1 <= length main -> length sub = length main - 1 -> length sup = length main - 1 ->
  exists t, with_vecs sub main sup = Ok t /\ wfT t /\ tn t = length main /\
            tsub t = sub /\ tmain t = main /\ tsup t = sup.
Proof.
  intros Hn Hs Hp. unfold with_vecs, usub.
  destruct (Nat.leb_spec 1 (length main)) as [_|]; [|lia]. cbn [bind].
  rewrite Hs, Hp, Nat.eqb_refl. cbn [negb bind].
  eexists; split; [reflexivity|]. unfold wfT; cbn. auto.
Qed.

Lemma with_vecs_rejects (sub main sup : list T) :
  1 <= length main -> (length sub <> length main - 1 \/ length sup <> length main - 1) ->
  with_vecs sub main sup = Panic Guard.
Proof.
  intros Hn H. unfold with_vecs, usub.
  destruct (Nat.leb_spec 1 (length main)) as [_|]; [|lia]. cbn [bind].
  destruct (Nat.eqb_spec (length sub) (length main - 1)) as [E1|]; cbn [negb]; [|reflexivity].
  cbn [bind]. destruct (Nat.eqb_spec (length sup) (length main - 1)) as [E2|]; cbn [negb]; [|reflexivity].
  lia.
Qed.

Lemma with_elements_spec (a b c : T) n : 1 <= n ->
  exists t, with_elements a b c n = Ok t /\ wfT t /\ tn t = n /\
    forall i j, i < n -> j < n -> dense t i j =
      if i =? j then b else if i =? j + 1 then a else if i + 1 =? j then c else zero.
Proof.
  intros Hn. unfold with_elements, usub.
  destruct (Nat.leb_spec 1 n) as [_|]; [|lia]. cbn [bind].
  eexists; split; [reflexivity|]. unfold wfT; cbn [tmain tsub tsup tn].
  rewrite !repeat_length. repeat split; auto.
  intros i j Hi Hj. unfold dense; cbn [tmain tsub tsup].
  destruct (Nat.eqb_spec i j); [apply nth_repeat_lt|]; try lia.
  destruct (Nat.eqb_spec i (j + 1)); [apply nth_repeat_lt|]; try lia.
  destruct (Nat.eqb_spec (i + 1) j); [apply nth_repeat_lt|]; try lia.
  reflexivity.
Qed.

(* ---------- index: the dense twin on the three diagonals, a refusal everywhere else ---------- *)
Lemma tindex_in_band t i j : wfT t -> i < tn t -> j < tn t -> in_band i j ->
  tindex t i j = Ok (dense t i j).
Proof.
  intros (Hm & Hs & Hp) Hi Hj Hb. unfold tindex, dense.
  destruct (Nat.leb_spec (tn t) i); [lia|]. destruct (Nat.leb_spec (tn t) j); [lia|]. cbn [orb].
  destruct (Nat.eqb_spec i j); [apply rd_ok; lia|].
  destruct (Nat.eqb_spec i (j + 1)); [apply rd_ok; lia|].
  destruct (Nat.eqb_spec (i + 1) j); [apply rd_ok; lia|].
  unfold in_band in Hb; lia.
Qed.

Lemma tindex_refuses (t : tridiag) i j : (tn t <= i \/ tn t <= j \/ ~ in_band i j) -> tindex t i j = Panic Guard.
Proof.
  intros H. unfold tindex.
  destruct (Nat.leb_spec (tn t) i); [reflexivity|]. destruct (Nat.leb_spec (tn t) j); [reflexivity|]. cbn [orb].
  unfold in_band in H.
  destruct (Nat.eqb_spec i j); [lia|]. destruct (Nat.eqb_spec i (j + 1)); [lia|].
  destruct (Nat.eqb_spec (i + 1) j); [lia|]. reflexivity.
Qed.

Lemma dense_off_band (t : tridiag) i j : ~ in_band i j -> dense t i j = zero.
Proof.
  intros H. unfold dense, in_band in *.
  destruct (Nat.eqb_spec i j); [lia|]. destruct (Nat.eqb_spec i (j + 1)); [lia|].
  destruct (Nat.eqb_spec (i + 1) j); [lia|]. reflexivity.
Qed.

(* ---------- writes through IndexMut ---------- *)
Lemma tset_in_band t i j x : wfT t -> i < tn t -> j < tn t -> in_band i j ->
  exists t', tset t i j x = Ok t' /\ wfT t' /\ tn t' = tn t /\
    forall a b, a < tn t -> b < tn t ->
      dense t' a b = if (a =? i) && (b =? j) then x else dense t a b.
Proof.
  intros (Hm & Hs & Hp) Hi Hj Hb. unfold tset.
  destruct (Nat.leb_spec (tn t) i); [lia|]. destruct (Nat.leb_spec (tn t) j); [lia|]. cbn [orb].
  destruct (Nat.eqb_spec i j) as [E|NE].
  { subst j. rewrite upd_ok by lia. cbn [bind]. eexists; split; [reflexivity|].
    unfold wfT; cbn [tmain tsub tsup tn]. rewrite upd_list_length. repeat split; auto.
    intros a b Ha Hb'. unfold dense; cbn [tmain tsub tsup].
    destruct (Nat.eqb_spec a b) as [Eab|]; [subst a|].
    - rewrite nth_upd_list by lia. destruct (Nat.eqb_spec b i); cbn [andb]; reflexivity.
    - destruct (Nat.eqb_spec a i); destruct (Nat.eqb_spec b i); cbn [andb]; try reflexivity; lia. }
  destruct (Nat.eqb_spec i (j + 1)) as [E|NE2].
  { subst i. rewrite upd_ok by lia. cbn [bind]. eexists; split; [reflexivity|].
    unfold wfT; cbn [tmain tsub tsup tn]. rewrite upd_list_length. repeat split; auto.
    intros a b Ha Hb'. unfold dense; cbn [tmain tsub tsup].
    destruct (Nat.eqb_spec a b) as [Eab|]; [subst a|].
    { destruct (Nat.eqb_spec b (j + 1)); destruct (Nat.eqb_spec b j); cbn [andb]; try reflexivity; lia. }
    destruct (Nat.eqb_spec a (b + 1)) as [->|].
    { rewrite nth_upd_list by lia.
      destruct (Nat.eqb_spec b j); destruct (Nat.eqb_spec (b + 1) (j + 1)); cbn [andb]; try reflexivity; lia.
    }
    destruct (Nat.eqb_spec a (j + 1)); destruct (Nat.eqb_spec b j); cbn [andb]; try reflexivity; lia. }
  destruct (Nat.eqb_spec (i + 1) j) as [E|NE3]; [|unfold in_band in Hb; lia].
  subst j. rewrite upd_ok by lia. cbn [bind]. eexists; split; [reflexivity|].
  unfold wfT; cbn [tmain tsub tsup tn]. rewrite upd_list_length. repeat split; auto.
  intros a b Ha Hb'. unfold dense; cbn [tmain tsub tsup].
  destruct (Nat.eqb_spec a b) as [Eab|]; [subst a|].
  { destruct (Nat.eqb_spec b i); destruct (Nat.eqb_spec b (i + 1)); cbn [andb]; try reflexivity; lia. }
  destruct (Nat.eqb_spec a (b + 1)) as [->|].
  { destruct (Nat.eqb_spec (b + 1) i); destruct (Nat.eqb_spec b (i + 1)); cbn [andb]; try reflexivity; lia. }
  destruct (Nat.eqb_spec (a + 1) b) as [<-|].
  { rewrite nth_upd_list by lia.
    destruct (Nat.eqb_spec a i); destruct (Nat.eqb_spec (a + 1) (i + 1)); cbn [andb]; try reflexivity; lia. }
  destruct (Nat.eqb_spec a i); destruct (Nat.eqb_spec b (i + 1)); cbn [andb]; try reflexivity; lia.
Qed.

Lemma tset_refuses (t : tridiag) i j x : (tn t <= i \/ tn t <= j \/ ~ in_band i j) -> tset t i j x = Panic Guard.
Proof.
  intros H. unfold tset.
  destruct (Nat.leb_spec (tn t) i); [reflexivity|]. destruct (Nat.leb_spec (tn t) j); [reflexivity|]. cbn [orb].
  unfold in_band in H.
  destruct (Nat.eqb_spec i j); [lia|]. destruct (Nat.eqb_spec i (j + 1)); [lia|].
  destruct (Nat.eqb_spec (i + 1) j); [lia|]. reflexivity.
Qed.

(* ---------- transpose = exchange of sub- and super-diagonal ---------- *)
Lemma ttranspose_spec t : wfT t ->
  wfT (ttranspose t) /\ tn (ttranspose t) = tn t /\ forall i j, dense (ttranspose t) i j = dense t j i.
Proof.
  intros (Hm & Hs & Hp). unfold ttranspose, ttranspose_in_place, wfT; cbn [tmain tsub tsup tn].
  repeat split; auto.
  intros i j. unfold dense; cbn [tmain tsub tsup].
  destruct (Nat.eqb_spec i j) as [->|]; [now rewrite Nat.eqb_refl|].
  destruct (Nat.eqb_spec j i); [lia|].
  destruct (Nat.eqb_spec i (j + 1)) as [->|].
  { destruct (Nat.eqb_spec j (j + 1 + 1)); [lia|]. now rewrite Nat.eqb_refl. }
  destruct (Nat.eqb_spec (j + 1) i); [lia|].
  destruct (Nat.eqb_spec (i + 1) j) as [<-|].
  { now rewrite Nat.eqb_refl. }
  destruct (Nat.eqb_spec j (i + 1)); [lia|]. reflexivity.
Qed.

(* ---------- convert: the flat row-major dense matrix holds the dense twin ---------- *)
Lemma mset_spec (d : matrix) a b x : wfM d -> a < rows d -> b < cols d ->
  exists d', mset d a b x = Ok d' /\ wfM d' /\ rows d' = rows d /\ cols d' = cols d /\
    forall a' b', a' < rows d -> b' < cols d ->
      entry d' a' b' = if (a' =? a) && (b' =? b) then x else entry d a' b'.
Proof.
  intros Hw Ha Hb. unfold mset, wfM in *.
  assert (Hlt : a * cols d + b < length (buf d)) by nia.
  rewrite upd_ok by exact Hlt. cbn [bind]. eexists; split; [reflexivity|].
  cbn [buf rows cols]. rewrite upd_list_length. repeat split; auto.
  intros a' b' Ha' Hb'. unfold entry; cbn [buf rows cols].
  rewrite nth_upd_list by exact Hlt.
  destruct (Nat.eqb_spec (a' * cols d + b') (a * cols d + b)) as [E|NE].
  - apply idx_inj in E as [-> ->]; auto. now rewrite !Nat.eqb_refl.
  - destruct (Nat.eqb_spec a' a) as [->|]; destruct (Nat.eqb_spec b' b) as [->|]; cbn [andb]; auto; lia.
Qed.

Lemma tconvert_spec t : wfT t -> 1 <= tn t ->
  exists m, tconvert t = Ok m /\ wfM m /\ rows m = tn t /\ cols m = tn t /\
    forall i j, i < tn t -> j < tn t -> entry m i j = dense t i j.
Proof.
  intros (Hm & Hs & Hp) Hn. unfold tconvert.
  set (n := tn t) in *.
  assert (W0 : wfM (mat_new n n (@zero A)) /\ rows (mat_new n n (@zero A)) = n /\ cols (mat_new n n (@zero A)) = n
               /\ forall i j, entry (mat_new n n (@zero A)) i j = zero).
  { unfold wfM, mat_new, entry; cbn. rewrite repeat_length. repeat split; auto.
    intros; apply nth_repeat_any. }
  destruct W0 as (W0 & R0 & C0 & E0).
  destruct (Nat.eqb_spec n 0); [lia|].
  destruct (Nat.eqb_spec n 1) as [N1|N1].
  - (* n = 1 *)
    rewrite (rd_ok _ _ zero) by lia. cbn [bind].
    destruct (mset_spec (mat_new n n zero) 0 0 (nth 0 (tmain t) zero) W0) as (d & E & W & R & C & V); try lia.
    exists d; split; [exact E|]. rewrite R, C, R0, C0. repeat split; auto.
    intros i j Hi Hj. rewrite V by lia. assert (i = 0) as -> by lia. assert (j = 0) as -> by lia. reflexivity.
  - (* n >= 2 *)
    rewrite (rd_ok _ _ zero) by lia. cbn [bind].
    destruct (mset_spec (mat_new n n zero) 0 0 (nth 0 (tmain t) zero) W0) as (d1 & E1 & W1 & R1 & C1 & V1); try lia.
    rewrite E1; cbn [bind]. rewrite (rd_ok _ _ zero) by lia. cbn [bind].
    destruct (mset_spec d1 0 1 (nth 0 (tsup t) zero) W1) as (d2 & E2 & W2 & R2 & C2 & V2); try lia.
    rewrite E2; cbn [bind].
    (* the loop over the interior rows *)
    pose (I := fun (i : nat) (d : matrix) =>
      wfM d /\ rows d = n /\ cols d = n /\
      forall a b, a < n -> b < n -> entry d a b = if a <? i then dense t a b else zero).
    assert (I2 : I 1 d2).
    { unfold I. rewrite R2, C2, R1, C1, R0, C0. repeat split; auto.
      intros a b Ha Hb. rewrite V2, V1 by lia. rewrite E0.
      destruct (Nat.ltb_spec a 1) as [La|La].
      - assert (a = 0) as -> by lia. cbn [Nat.eqb andb]. unfold dense.
        destruct b as [|[|b]]; cbn [Nat.eqb andb]; reflexivity.
      - destruct (Nat.eqb_spec a 0); [lia|]. reflexivity. }
    destruct (for_inv I 1 (n - 1) (fun i d =>
                let* x := rd (tsub t) (i - 1) in
                let* d := mset d i (i - 1) x in
                let* x := rd (tmain t) i in
                let* d := mset d i i x in
                let* x := rd (tsup t) i in
                mset d i (i + 1) x) d2) as (d3 & E3 & (W3 & R3 & C3 & V3)); [lia|exact I2| |].
    { intros i d Hi (W & R & C & V).
      rewrite (rd_ok _ _ zero) by lia. cbn [bind].
      destruct (mset_spec d i (i - 1) (nth (i - 1) (tsub t) zero) W) as (da & Ea & Wa & Ra & Ca & Va); try lia.
      rewrite Ea; cbn [bind]. rewrite (rd_ok _ _ zero) by lia. cbn [bind].
      destruct (mset_spec da i i (nth i (tmain t) zero) Wa) as (db & Eb & Wb & Rb & Cb & Vb); try lia.
      rewrite Eb; cbn [bind]. rewrite (rd_ok _ _ zero) by lia. cbn [bind].
      destruct (mset_spec db i (i + 1) (nth i (tsup t) zero) Wb) as (dc & Ec & Wc & Rc & Cc & Vc); try lia.
      exists dc; split; [exact Ec|]. unfold I. rewrite Rc, Cc, Rb, Cb, Ra, Ca. repeat split; auto.
      intros a b Ha Hb. rewrite Vc, Vb, Va, V by lia.
      destruct (Nat.eqb_spec a i) as [Eai|NA]; [subst a|]; cbn [andb].
      - destruct (Nat.ltb_spec i (S i)); [|lia]. destruct (Nat.ltb_spec i i); [lia|].
        unfold dense.
        destruct (Nat.eqb_spec b (i + 1)) as [->|].
        { destruct (Nat.eqb_spec i (i + 1)); [lia|]. destruct (Nat.eqb_spec i (i + 1 + 1)); [lia|].
          now rewrite Nat.eqb_refl. }
        destruct (Nat.eqb_spec b i) as [Ebi|]; [subst b; now rewrite Nat.eqb_refl|].
        destruct (Nat.eqb_spec i b); [lia|].
        destruct (Nat.eqb_spec b (i - 1)) as [->|].
        { destruct (Nat.eqb_spec i (i - 1 + 1)); [reflexivity|lia]. }
        destruct (Nat.eqb_spec i (b + 1)); [lia|]. destruct (Nat.eqb_spec (i + 1) b); [lia|]. reflexivity.
      - destruct (Nat.ltb_spec a (S i)); destruct (Nat.ltb_spec a i); try reflexivity; lia. }
    rewrite E3; cbn [bind]. rewrite (rd_ok _ _ zero) by lia. cbn [bind].
    destruct (mset_spec d3 (n - 1) (n - 2) (nth (n - 2) (tsub t) zero) W3) as (d4 & E4 & W4 & R4 & C4 & V4); try lia.
    rewrite E4; cbn [bind]. rewrite (rd_ok _ _ zero) by lia. cbn [bind].
    destruct (mset_spec d4 (n - 1) (n - 1) (nth (n - 1) (tmain t) zero) W4) as (d5 & E5 & W5 & R5 & C5 & V5); try lia.
    exists d5; split; [exact E5|]. rewrite R5, C5, R4, C4. repeat split; auto.
    intros i j Hi Hj. rewrite V5, V4, V3 by lia.
    destruct (Nat.eqb_spec i (n - 1)) as [->|NI]; cbn [andb].
    + destruct (Nat.ltb_spec (n - 1) (n - 1)); [lia|]. unfold dense.
      destruct (Nat.eqb_spec j (n - 1)) as [->|]; [now rewrite Nat.eqb_refl|].
      destruct (Nat.eqb_spec (n - 1) j); [lia|].
      destruct (Nat.eqb_spec j (n - 2)) as [->|].
      { destruct (Nat.eqb_spec (n - 1) (n - 2 + 1)); [reflexivity|lia]. }
      destruct (Nat.eqb_spec (n - 1) (j + 1)); [lia|]. destruct (Nat.eqb_spec (n - 1 + 1) j); [lia|]. reflexivity.
    + destruct (Nat.ltb_spec i (n - 1)); [reflexivity|lia].
Qed.

(* ---------- any history of writes refines pointwise updates of the dense twin ---------- *)
Definition band_b (i j : nat) : bool := (i =? j) || (i =? j + 1) || (i + 1 =? j).
Lemma band_b_spec i j : band_b i j = true <-> in_band i j.
Proof.
  unfold band_b, in_band. rewrite !orb_true_iff, !Nat.eqb_eq. tauto.
Qed.

(* one write as the caller sees it: a refused write leaves the matrix as it was *)
Definition wstep (t : tridiag) (w : nat * nat * T) : tridiag :=
  let '(i, j, x) := w in match tset t i j x with Ok t' => t' | Panic _ => t end.
(* the same write on the textbook n x n matrix restricted to the band *)
Definition dstep (n : nat) (d : nat -> nat -> T) (w : nat * nat * T) : nat -> nat -> T :=
  let '(i, j, x) := w in
  if (i <? n) && (j <? n) && band_b i j
  then fun a b => if (a =? i) && (b =? j) then x else d a b
  else d.

Lemma wstep_spec t w : wfT t ->
  wfT (wstep t w) /\ tn (wstep t w) = tn t /\
  forall a b, a < tn t -> b < tn t -> dense (wstep t w) a b = dstep (tn t) (dense t) w a b.
Proof.
  intros W. destruct w as [[i j] x]. unfold wstep, dstep.
  destruct (Nat.ltb_spec i (tn t)) as [Hi|Hi]; cbn [andb].
  2:{ rewrite tset_refuses by lia. auto. }
  destruct (Nat.ltb_spec j (tn t)) as [Hj|Hj]; cbn [andb].
  2:{ rewrite tset_refuses by lia. auto. }
  destruct (band_b i j) eqn:Eb.
  - apply band_b_spec in Eb. destruct (tset_in_band t i j x W Hi Hj Eb) as (t' & E & W' & N' & V').
    rewrite E. auto.
  - rewrite tset_refuses; auto. right; right. intros Hb. apply band_b_spec in Hb. congruence.
Qed.

Lemma write_history_lemma (ws : list (nat * nat * T)) : forall t, wfT t ->
  wfT (fold_left wstep ws t) /\ tn (fold_left wstep ws t) = tn t /\
  forall a b, a < tn t -> b < tn t ->
    dense (fold_left wstep ws t) a b = fold_left (dstep (tn t)) ws (dense t) a b.
Proof.
  induction ws as [|w ws IH]; intros t W; cbn [fold_left]; [auto|].
  destruct (wstep_spec t w W) as (W1 & N1 & V1).
  destruct (IH (wstep t w) W1) as (W2 & N2 & V2).
  split; [exact W2|]. split; [congruence|].
  intros a b Ha Hb. rewrite V2 by lia. rewrite N1.
  (* the two folds start from functions that agree on [0,n) x [0,n) *)
  assert (Ext : forall ws (d d' : nat -> nat -> T),
            (forall a b, a < tn t -> b < tn t -> d a b = d' a b) ->
            forall a b, a < tn t -> b < tn t ->
              fold_left (dstep (tn t)) ws d a b = fold_left (dstep (tn t)) ws d' a b).
  { clear. induction ws as [|w ws IH]; intros d d' H a b Ha Hb; cbn [fold_left]; [now apply H|].
    apply IH; auto. intros a' b' Ha' Hb'. destruct w as [[i j] x]. unfold dstep.
    destruct ((i <? tn t) && (j <? tn t) && band_b i j); [|now apply H].
    destruct ((a' =? i) && (b' =? j)); [reflexivity|now apply H]. }
  apply Ext; auto.
Qed.

Lemma tridiag_constructors_lemma (sub main sup : list T) (a b c : T) (n : nat) :
  (1 <= length main -> length sub = length main - 1 -> length sup = length main - 1 ->
     exists t, with_vecs sub main sup = Ok t /\ wfT t /\ tn t = length main /\
               tsub t = sub /\ tmain t = main /\ tsup t = sup) /\
  (1 <= length main -> (length sub <> length main - 1 \/ length sup <> length main - 1) ->
     with_vecs sub main sup = Panic Guard) /\
  (1 <= n -> exists t, with_elements a b c n = Ok t /\ wfT t /\ tn t = n /\
     forall i j, i < n -> j < n -> dense t i j =
       if i =? j then b else if i =? j + 1 then a else if i + 1 =? j then c else zero).
Proof.
  split; [|split].
  - exact (with_vecs_spec sub main sup).
  - exact (with_vecs_rejects sub main sup).
  - exact (with_elements_spec a b c n).
Qed.

(* the views together, as pinned in Props/C05.v *)
Lemma tridiag_views_lemma t : wfT t -> 1 <= tn t ->
  (forall i j, i < tn t -> j < tn t -> in_band i j -> tindex t i j = Ok (dense t i j)) /\
  (forall i j, tn t <= i \/ tn t <= j \/ ~ in_band i j -> tindex t i j = Panic Guard) /\
  (forall i j, ~ in_band i j -> dense t i j = zero) /\
  (exists m, tconvert t = Ok m /\ wfM m /\ rows m = tn t /\ cols m = tn t /\
             forall i j, i < tn t -> j < tn t -> entry m i j = dense t i j) /\
  (wfT (ttranspose t) /\ tn (ttranspose t) = tn t /\ forall i j, dense (ttranspose t) i j = dense t j i).
Proof.
  intros W Hn. split; [|split; [|split; [|split]]].
  - intros i j. now apply tindex_in_band.
  - intros i j. apply tindex_refuses.
  - intros i j. apply dense_off_band.
  - now apply tconvert_spec.
  - now apply ttranspose_spec.
Qed.

Lemma tridiag_writes_lemma t i j x : wfT t ->
  (i < tn t -> j < tn t -> in_band i j ->
     exists t', tset t i j x = Ok t' /\ wfT t' /\ tn t' = tn t /\
       forall a b, a < tn t -> b < tn t -> dense t' a b = if (a =? i) && (b =? j) then x else dense t a b) /\
  (tn t <= i \/ tn t <= j \/ ~ in_band i j -> tset t i j x = Panic Guard).
Proof. intros W. split; [now apply tset_in_band | apply tset_refuses]. Qed.

End TriProofs.

(* ====================== arithmetic and the product: ring laws needed ====================== *)
Section TriRing.
Context {A : Arith}.
Variable RL : RingLaws A.
Notation T := (T A).
Notation tridiag := (tridiag A).
Add Ring Aring : (rl_ring A RL).

Lemma nth_map0 (f : T -> T) (l : list T) i : f zero = zero -> nth i (map f l) zero = f (nth i l zero).
Proof. intros H. rewrite <- H at 1. apply map_nth. Qed.

Lemma nth_zipw0 (f : T -> T -> T) (u v : list T) i : f zero zero = zero -> length u = length v ->
  nth i (zipw f u v) zero = f (nth i u zero) (nth i v zero).
Proof.
  intros H L. unfold zipw.
  change (nth i (map (fun p : T * T => f (fst p) (snd p)) (combine u v)) zero)
    with (nth i (map (fun p : T * T => f (fst p) (snd p)) (combine u v)) zero).
  rewrite <- H at 1.
  change (f zero zero) with ((fun p : T * T => f (fst p) (snd p)) (zero, zero)).
  rewrite map_nth. rewrite combine_nth by exact L. reflexivity.
Qed.

Lemma zipw_length (f : T -> T -> T) (u v : list T) : length u = length v -> length (zipw f u v) = length u.
Proof. intros L. unfold zipw. rewrite map_length, combine_length. lia. Qed.

(* an operation applied to the three diagonals, with f 0 = 0, is that operation on the dense twin *)
Lemma dense_map3 (f : T -> T) (t : tridiag) i j : f zero = zero ->
  dense (mkT (map f (tsub t)) (map f (tmain t)) (map f (tsup t)) (tn t)) i j = f (dense t i j).
Proof.
  intros H. unfold dense; cbn [tmain tsub tsup].
  destruct (i =? j); [now apply nth_map0|].
  destruct (i =? j + 1); [now apply nth_map0|].
  destruct (i + 1 =? j); [now apply nth_map0|]. now rewrite H.
Qed.

Lemma wfT_map3 (f g h : T -> T) (t : tridiag) : wfT t ->
  wfT (mkT (map f (tsub t)) (map g (tmain t)) (map h (tsup t)) (tn t)).
Proof. intros (Hm & Hs & Hp). unfold wfT; cbn [tmain tsub tsup tn]. now rewrite !map_length. Qed.

Lemma tneg_spec (t : tridiag) : wfT t ->
  wfT (tneg t) /\ tn (tneg t) = tn t /\ forall i j, dense (tneg t) i j = (- dense t i j)%A.
Proof.
  intros W. split; [apply wfT_map3; exact W|]. split; [reflexivity|].
  intros i j. unfold tneg, vneg. apply dense_map3. ring.
Qed.

Lemma tscale_spec (t : tridiag) (s : T) : wfT t ->
  wfT (tscale t s) /\ tn (tscale t s) = tn t /\ forall i j, dense (tscale t s) i j = (dense t i j * s)%A.
Proof.
  intros W. split; [apply wfT_map3; exact W|]. split; [reflexivity|].
  intros i j. unfold tscale, vscale. apply (dense_map3 (fun x => (x * s)%A)). ring.
Qed.

Lemma tscale_l_spec (s : T) (t : tridiag) : wfT t ->
  wfT (tscale_l s t) /\ tn (tscale_l s t) = tn t /\ forall i j, dense (tscale_l s t) i j = (s * dense t i j)%A.
Proof.
  intros W. split; [apply wfT_map3; exact W|]. split; [reflexivity|].
  intros i j. unfold tscale_l, vscale_l. apply (dense_map3 (fun x => (s * x)%A)). ring.
Qed.

Lemma tmul_assign_s_spec (t : tridiag) (s : T) : wfT t ->
  wfT (tmul_assign_s t s) /\ tn (tmul_assign_s t s) = tn t /\
  forall i j, dense (tmul_assign_s t s) i j = (dense t i j * s)%A.
Proof. exact (tscale_spec t s). Qed.

(* T += s, T -= s act on the stored elements: the three diagonals *)
Lemma dense_map3_band (f : T -> T) (t : tridiag) i j : wfT t -> i < tn t -> j < tn t -> in_band i j ->
  dense (mkT (map f (tsub t)) (map f (tmain t)) (map f (tsup t)) (tn t)) i j = f (dense t i j).
Proof.
  intros (Hm & Hs & Hp) Hi Hj Hb. unfold dense, in_band in *; cbn [tmain tsub tsup].
  destruct (Nat.eqb_spec i j).
  { rewrite (nth_indep _ zero (f zero)) by (rewrite map_length; lia). apply map_nth. }
  destruct (Nat.eqb_spec i (j + 1)).
  { rewrite (nth_indep _ zero (f zero)) by (rewrite map_length; lia). apply map_nth. }
  destruct (Nat.eqb_spec (i + 1) j); [|lia].
  rewrite (nth_indep _ zero (f zero)) by (rewrite map_length; lia). apply map_nth.
Qed.

Lemma tadd_assign_s_spec (t : tridiag) (s : T) : wfT t ->
  wfT (tadd_assign_s t s) /\ tn (tadd_assign_s t s) = tn t /\
  forall i j, i < tn t -> j < tn t -> in_band i j -> dense (tadd_assign_s t s) i j = (dense t i j + s)%A.
Proof.
  intros W. split; [apply wfT_map3; exact W|]. split; [reflexivity|].
  intros i j Hi Hj Hb. unfold tadd_assign_s, vadd_scalar. now apply (dense_map3_band (fun x => (x + s)%A)).
Qed.

Lemma tsub_assign_s_spec (t : tridiag) (s : T) : wfT t ->
  wfT (tsub_assign_s t s) /\ tn (tsub_assign_s t s) = tn t /\
  forall i j, i < tn t -> j < tn t -> in_band i j -> dense (tsub_assign_s t s) i j = (dense t i j - s)%A.
Proof.
  intros W. split; [apply wfT_map3; exact W|]. split; [reflexivity|].
  intros i j Hi Hj Hb. unfold tsub_assign_s, vsub_scalar. now apply (dense_map3_band (fun x => (x - s)%A)).
Qed.

Lemma dense_zip3 (f : T -> T -> T) (a b : tridiag) i j : f zero zero = zero ->
  wfT a -> wfT b -> tn a = tn b ->
  dense (mkT (zipw f (tsub a) (tsub b)) (zipw f (tmain a) (tmain b)) (zipw f (tsup a) (tsup b)) (tn a)) i j
  = f (dense a i j) (dense b i j).
Proof.
  intros H (Hm & Hs & Hp) (Hm' & Hs' & Hp') E. unfold dense; cbn [tmain tsub tsup].
  destruct (i =? j); [apply nth_zipw0; auto; lia|].
  destruct (i =? j + 1); [apply nth_zipw0; auto; lia|].
  destruct (i + 1 =? j); [apply nth_zipw0; auto; lia|]. now rewrite H.
Qed.

Lemma tadd_spec (a b : tridiag) : wfT a -> wfT b -> tn a = tn b ->
  exists c, tadd a b = Ok c /\ wfT c /\ tn c = tn a /\
            forall i j, dense c i j = (dense a i j + dense b i j)%A.
Proof.
  intros Wa Wb E. pose proof Wa as (Hm & Hs & Hp). pose proof Wb as (Hm' & Hs' & Hp').
  unfold tadd, tsize, vadd. destruct (Nat.eqb_spec (tn a) (tn b)); [|lia]. cbn [negb].
  replace (length (tsub a) =? length (tsub b)) with true by (symmetry; apply Nat.eqb_eq; lia).
  replace (length (tmain a) =? length (tmain b)) with true by (symmetry; apply Nat.eqb_eq; lia).
  replace (length (tsup a) =? length (tsup b)) with true by (symmetry; apply Nat.eqb_eq; lia).
  cbn [bind]. eexists; split; [reflexivity|]. split; [|split; [reflexivity|]].
  - unfold wfT; cbn [tmain tsub tsup tn]. rewrite !zipw_length by lia. lia.
  - intros i j. apply (dense_zip3 add); auto. ring.
Qed.

Lemma tminus_spec (a b : tridiag) : wfT a -> wfT b -> tn a = tn b ->
  exists c, tminus a b = Ok c /\ wfT c /\ tn c = tn a /\
            forall i j, dense c i j = (dense a i j - dense b i j)%A.
Proof.
  intros Wa Wb E. pose proof Wa as (Hm & Hs & Hp). pose proof Wb as (Hm' & Hs' & Hp').
  unfold tminus, tsize, vsub. destruct (Nat.eqb_spec (tn a) (tn b)); [|lia]. cbn [negb].
  replace (length (tsub a) =? length (tsub b)) with true by (symmetry; apply Nat.eqb_eq; lia).
  replace (length (tmain a) =? length (tmain b)) with true by (symmetry; apply Nat.eqb_eq; lia).
  replace (length (tsup a) =? length (tsup b)) with true by (symmetry; apply Nat.eqb_eq; lia).
  cbn [bind]. eexists; split; [reflexivity|]. split; [|split; [reflexivity|]].
  - unfold wfT; cbn [tmain tsub tsup tn]. rewrite !zipw_length by lia. lia.
  - intros i j. apply (dense_zip3 sub); auto. ring.
Qed.

Lemma tadd_rejects (a b : tridiag) : tn a <> tn b -> tadd a b = Panic Guard /\ tminus a b = Panic Guard.
Proof.
  intros NE. unfold tadd, tminus, tsize.
  destruct (Nat.eqb_spec (tn a) (tn b)); [lia|]. split; reflexivity.
Qed.

(* ---------- sums with sparse support ---------- *)
Lemma sum_n_zero n (f : nat -> T) : (forall k, k < n -> f k = zero) -> sum_n n f = zero.
Proof.
  induction n as [|n IH]; cbn; intros H; auto.
  rewrite IH by (intros; apply H; lia). rewrite H by lia. ring.
Qed.

Lemma sum_n_single n (f : nat -> T) p : p < n -> (forall k, k < n -> k <> p -> f k = zero) -> sum_n n f = f p.
Proof.
  induction n as [|n IH]; intros Hp H; [lia|]. cbn.
  destruct (Nat.eq_dec p n) as [->|NE].
  - rewrite sum_n_zero by (intros; apply H; lia). ring.
  - rewrite IH by (try lia; intros; apply H; lia). rewrite (H n) by lia. ring.
Qed.

Lemma sum_n_plus n (f g : nat -> T) : sum_n n (fun k => (f k + g k)%A) = (sum_n n f + sum_n n g)%A.
Proof. induction n as [|n IH]; cbn; [ring|]. rewrite IH. ring. Qed.

(* the three-term row of the dense twin applied to a vector *)
Definition row3 (t : tridiag) (v : list T) (i : nat) : T :=
  ((if 1 <=? i then nth (i - 1) (tsub t) zero * nth (i - 1) v zero else zero)
   + nth i (tmain t) zero * nth i v zero
   + (if i + 1 <? tn t then nth i (tsup t) zero * nth (i + 1) v zero else zero))%A.

Lemma dense_row_sum (t : tridiag) (v : list T) i : i < tn t ->
  sum_n (tn t) (fun j => (dense t i j * nth j v zero)%A) = row3 t v i.
Proof.
  intros Hi.
  pose (fa := fun j => if j + 1 =? i then (nth j (tsub t) zero * nth j v zero)%A else @zero A).
  pose (fb := fun j => if j =? i then (nth i (tmain t) zero * nth i v zero)%A else @zero A).
  pose (fc := fun j => if j =? i + 1 then (nth i (tsup t) zero * nth j v zero)%A else @zero A).
  rewrite (sum_n_ext _ _ (fun j => (fa j + fb j + fc j)%A)).
  2:{ intros j Hj. unfold dense, fa, fb, fc.
      destruct (Nat.eqb_spec i j) as [E|]; [subst j|].
      { rewrite Nat.eqb_refl. destruct (Nat.eqb_spec (i + 1) i); [lia|].
        destruct (Nat.eqb_spec i (i + 1)); [lia|]. ring. }
      destruct (Nat.eqb_spec j i); [lia|].
      destruct (Nat.eqb_spec i (j + 1)) as [E|]; [subst i|].
      { rewrite Nat.eqb_refl. destruct (Nat.eqb_spec j (j + 1 + 1)); [lia|]. ring. }
      destruct (Nat.eqb_spec (j + 1) i); [lia|].
      destruct (Nat.eqb_spec (i + 1) j) as [E|]; [subst j|].
      { rewrite Nat.eqb_refl. ring. }
      destruct (Nat.eqb_spec j (i + 1)); [lia|]. ring. }
  rewrite !sum_n_plus. unfold row3. f_equal; [f_equal|].
  - destruct (Nat.leb_spec 1 i).
    + rewrite (sum_n_single _ fa (i - 1)) by
        (first [lia | intros k Hk NE; unfold fa; destruct (Nat.eqb_spec (k + 1) i); [lia|reflexivity]]).
      unfold fa. destruct (Nat.eqb_spec (i - 1 + 1) i); [reflexivity|lia].
    + apply sum_n_zero. intros k Hk. unfold fa. destruct (Nat.eqb_spec (k + 1) i); [lia|reflexivity].
  - rewrite (sum_n_single _ fb i) by
      (first [lia | intros k Hk NE; unfold fb; destruct (Nat.eqb_spec k i); [lia|reflexivity]]).
    unfold fb. now rewrite Nat.eqb_refl.
  - destruct (Nat.ltb_spec (i + 1) (tn t)).
    + rewrite (sum_n_single _ fc (i + 1)) by
        (first [lia | intros k Hk NE; unfold fc; destruct (Nat.eqb_spec k (i + 1)); [lia|reflexivity]]).
      unfold fc. now rewrite Nat.eqb_refl.
    + apply sum_n_zero. intros k Hk. unfold fc. destruct (Nat.eqb_spec k (i + 1)); [lia|reflexivity].
Qed.

(* ---------- &T * &v (with the n = 1 branch) ---------- *)
Lemma tmul_row3 (t : tridiag) (v : list T) : wfT t -> 1 <= tn t -> length v = tn t ->
  exists w, tmul t v = Ok w /\ length w = tn t /\ forall i, i < tn t -> nth i w zero = row3 t v i.
Proof.
  intros (Hm & Hs & Hp) Hn Hv. unfold tmul, tmul_gen, tsize.
  rewrite Hv, Nat.eqb_refl. cbn [negb andb].
  set (n := tn t) in *.
  destruct (Nat.eqb_spec n 1) as [N1|N1].
  - rewrite !(rd_ok _ _ zero) by lia. cbn [bind]. rewrite upd_ok by (rewrite repeat_length; lia).
    eexists; split; [reflexivity|]. rewrite upd_list_length, repeat_length. split; [reflexivity|].
    intros i Hi. assert (i = 0) as -> by lia.
    rewrite nth_upd_list by (rewrite repeat_length; lia). cbn [Nat.eqb]. unfold row3. fold n.
    cbn [Nat.leb]. destruct (Nat.ltb_spec (0 + 1) n); [lia|]. ring.
  - rewrite !(rd_ok _ _ zero) by lia. cbn [bind]. rewrite upd_ok by (rewrite repeat_length; lia). cbn [bind].
    unfold usub. destruct (Nat.leb_spec 1 n); [|lia]. cbn [bind].
    pose (I := fun (i : nat) (w : list T) =>
      length w = n /\ forall k, k < i -> nth k w zero = row3 t v k).
    destruct (for_inv I 1 (n - 1) (fun i result =>
                   let* sb := rd (tsub t) (i - 1) in
                   let* vm := rd v (i - 1) in
                   let* mi := rd (tmain t) i in
                   let* vi := rd v i in
                   let* sp := rd (tsup t) i in
                   let* vp := rd v (i + 1) in
                   upd result i (sb * vm + mi * vi + sp * vp)%A)
                (upd_list (repeat zero n) 0
                   (nth 0 (tmain t) zero * nth 0 v zero + nth 0 (tsup t) zero * nth 1 v zero)%A))
      as (w & Ew & Lw & Vw); [lia| | |].
    { unfold I. rewrite upd_list_length, repeat_length. split; [reflexivity|].
      intros k Hk. assert (k = 0) as -> by lia.
      rewrite nth_upd_list by (rewrite repeat_length; lia). cbn [Nat.eqb]. unfold row3. fold n.
      cbn [Nat.leb]. destruct (Nat.ltb_spec (0 + 1) n); [|lia]. cbn [Nat.add]. ring. }
    { intros i w (Hi1 & Hi2) (Lw & Vw).
      rewrite !(rd_ok _ _ zero) by lia. cbn [bind]. rewrite upd_ok by lia.
      eexists; split; [reflexivity|]. unfold I. rewrite upd_list_length. split; [exact Lw|].
      intros k Hk. rewrite nth_upd_list by lia.
      destruct (Nat.eqb_spec k i) as [E|NE]; [subst k|apply Vw; lia].
      unfold row3. fold n. destruct (Nat.leb_spec 1 i); [|lia]. destruct (Nat.ltb_spec (i + 1) n); [|lia].
      reflexivity. }
    rewrite Ew. cbn [bind]. destruct (Nat.leb_spec 2 n); [|lia]. cbn [bind].
    rewrite !(rd_ok _ _ zero) by lia. cbn [bind]. rewrite upd_ok by lia.
    eexists; split; [reflexivity|]. rewrite upd_list_length. split; [exact Lw|].
    intros i Hi. rewrite nth_upd_list by lia.
    destruct (Nat.eqb_spec i (n - 1)) as [E|NE]; [subst i|apply Vw; lia].
    unfold row3. fold n. destruct (Nat.leb_spec 1 (n - 1)); [|lia].
    destruct (Nat.ltb_spec (n - 1 + 1) n); [lia|].
    replace (n - 1 - 1) with (n - 2) by lia. ring.
Qed.

Lemma tmul_spec_lemma (t : tridiag) (v : list T) : wfT t -> 1 <= tn t -> length v = tn t ->
  exists w, tmul t v = Ok w /\ length w = tn t /\
    forall i, i < tn t -> nth i w zero = sum_n (tn t) (fun j => (dense t i j * nth j v zero)%A).
Proof.
  intros W Hn Hv. destruct (tmul_row3 t v W Hn Hv) as (w & E & L & V).
  exists w; repeat split; auto. intros i Hi. rewrite V by exact Hi. symmetry. now apply dense_row_sum.
Qed.

Lemma tmul_rejects (t : tridiag) v : length v <> tn t -> tmul t v = Panic Guard.
Proof.
  intros NE. unfold tmul, tmul_gen, tsize. destruct (Nat.eqb_spec (tn t) (length v)); [lia|reflexivity].
Qed.

Lemma tridiag_arith_lemma (a b : tridiag) (s : T) : wfT a -> wfT b -> tn a = tn b ->
  (wfT (tneg a) /\ tn (tneg a) = tn a /\ forall i j, dense (tneg a) i j = (- dense a i j)%A) /\
  (exists c, tadd a b = Ok c /\ wfT c /\ tn c = tn a /\ forall i j, dense c i j = (dense a i j + dense b i j)%A) /\
  (exists c, tminus a b = Ok c /\ wfT c /\ tn c = tn a /\ forall i j, dense c i j = (dense a i j - dense b i j)%A) /\
  (wfT (tscale a s) /\ tn (tscale a s) = tn a /\ forall i j, dense (tscale a s) i j = (dense a i j * s)%A) /\
  (wfT (tscale_l s a) /\ tn (tscale_l s a) = tn a /\ forall i j, dense (tscale_l s a) i j = (s * dense a i j)%A).
Proof.
  intros Wa Wb E. split; [|split; [|split; [|split]]].
  - now apply tneg_spec.
  - now apply tadd_spec.
  - now apply tminus_spec.
  - now apply tscale_spec.
  - now apply tscale_l_spec.
Qed.

Lemma tridiag_scalar_assign_lemma (t : tridiag) (s : T) : wfT t ->
  (wfT (tadd_assign_s t s) /\ tn (tadd_assign_s t s) = tn t /\
   forall i j, i < tn t -> j < tn t -> in_band i j -> dense (tadd_assign_s t s) i j = (dense t i j + s)%A) /\
  (wfT (tsub_assign_s t s) /\ tn (tsub_assign_s t s) = tn t /\
   forall i j, i < tn t -> j < tn t -> in_band i j -> dense (tsub_assign_s t s) i j = (dense t i j - s)%A) /\
  (wfT (tmul_assign_s t s) /\ tn (tmul_assign_s t s) = tn t /\
   forall i j, dense (tmul_assign_s t s) i j = (dense t i j * s)%A).
Proof.
  intros W. split; [|split].
  - now apply tadd_assign_s_spec.
  - now apply tsub_assign_s_spec.
  - now apply tmul_assign_s_spec.
Qed.

End TriRing.
