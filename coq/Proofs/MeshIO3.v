(* Proofs/MeshIO3.v -- Mesh1D::output followed by Mesh1D::read when the formatter ROUNDS
   (src/mesh1d.rs:98-122, 147-159).  The real formatter is `{number:.prec$}`: a value does not
   survive printing unless it has at most `prec` decimals, so `parse (fmt x) = Ok x` (the hypothesis
   of MeshIO.read_layout_roundtrip) cannot hold for every x.  Here the hypothesis is
        parse (fmt x) = Ok (rnd x)
   for an arbitrary function rnd ("the value the printed token denotes"), required only of the
   values the mesh holds, and the conclusion is that the mesh read back is the written mesh with
   every node and every variable value replaced by its rounding -- same nvars, same number of
   nodes, same order, nothing else.  Corollaries: the values held survive printing -> the mesh
   read is the mesh written; fmt (rnd x) = fmt x -> the second file is the first file, token for
   token, and a second round trip is the identity; a value whose token does not parse -> read
   panics (with the panic of the parser when the parser has only one).
   No law on the arithmetic [A] is used.  Built on MeshIO2.read1_tokens_gen (no loop is re-proved). *)
From Coq Require Import List Arith Lia Bool.
From OV Require Import Base.Panic.
From OV Require Import Base.Arith.
From OV Require Import Model.Vector.
From OV Require Import Model.Matrix.
From OV Require Import Model.Mesh.
From OV Require Import Proofs.MeshBase.
From OV Require Import Proofs.MeshStore.
From OV Require Import Proofs.MeshIO.
From OV Require Import Proofs.MeshIO2.
Import ListNotations.

(* ------------------------------------------------------------------ lists *)
Lemma nth_map_default {Y Z} (f : Y -> Z) (l : list Y) k d d' :
  k < length l -> nth k (map f l) d' = f (nth k l d).
Proof.
  intros Hk. rewrite (nth_indep _ d' (f d)) by (now rewrite map_length). apply map_nth.
Qed.

Lemma in_concat_nth {Y} (ls : list (list Y)) k v d :
  k < length ls -> v < length (nth k ls []) -> In (nth v (nth k ls []) d) (concat ls).
Proof.
  intros Hk Hv. apply in_concat. exists (nth k ls []). split; apply nth_In; assumption.
Qed.

Lemma map_id_on {Y} (f : Y -> Y) (l : list Y) : (forall x, In x l -> f x = x) -> map f l = l.
Proof.
  induction l as [|h t IH]; intros H; [reflexivity|]. cbn [map].
  rewrite H by (now left). f_equal. apply IH. intros x Hx. apply H. now right.
Qed.

Lemma map_map_id_on {Y} (f : Y -> Y) (ls : list (list Y)) :
  (forall x, In x (concat ls) -> f x = x) -> map (map f) ls = ls.
Proof.
  induction ls as [|l ls IH]; intros H; [reflexivity|]. cbn [map concat] in *.
  rewrite map_id_on by (intros x Hx; apply H, in_or_app; now left). f_equal.
  apply IH. intros x Hx. apply H, in_or_app. now right.
Qed.

(* ================================================================== the mesh with every value
   replaced by its image: same nvars, same number of nodes and of values, same order *)
Section MapMesh.
Context {A : Arith}.
Notation mesh1 := (mesh1 A A).

Definition map_mesh1 (f : A -> A) (m : mesh1) : mesh1 :=
  mkM1 (m1_nvars m) (map f (m1_nodes m)) (map (map f) (m1_vars m)).

(* the values a mesh holds *)
Definition values1 (m : mesh1) : list A := m1_nodes m ++ concat (m1_vars m).

Lemma map_mesh1_wf f (m : mesh1) : wf1 m -> wf1 (map_mesh1 f m).
Proof.
  intros [Hlen Hall]. split; cbn [map_mesh1 m1_nvars m1_nodes m1_vars].
  - now rewrite !map_length.
  - apply Forall_forall. intros r Hr. apply in_map_iff in Hr as (r0 & <- & Hr0).
    rewrite map_length. rewrite Forall_forall in Hall. now apply Hall.
Qed.

(* what "every value replaced by its image, nothing else changed" means, entry by entry *)
Lemma map_mesh1_entries f (m : mesh1) :
  wf1 m ->
  m1_nvars (map_mesh1 f m) = m1_nvars m /\
  length (m1_nodes (map_mesh1 f m)) = length (m1_nodes m) /\
  length (m1_vars (map_mesh1 f m)) = length (m1_vars m) /\
  (forall k, k < length (m1_nodes m) ->
     nth k (m1_nodes (map_mesh1 f m)) zero = f (nth k (m1_nodes m) zero)) /\
  (forall k v, k < length (m1_nodes m) -> v < m1_nvars m ->
     nth v (nth k (m1_vars (map_mesh1 f m)) []) zero = f (nth v (nth k (m1_vars m) []) zero)).
Proof.
  intros [Hlen Hall]. cbn [map_mesh1 m1_nvars m1_nodes m1_vars]. rewrite !map_length.
  split; [reflexivity|]. split; [reflexivity|]. split; [reflexivity|]. split.
  - intros k Hk. now apply nth_map_default.
  - intros k v Hk Hv. rewrite (nth_map_default (map f) _ k []) by lia.
    apply nth_map_default. rewrite (Forall_nth_lt _ _ k [] Hall) by lia. exact Hv.
Qed.

Lemma map_mesh1_id_on f (m : mesh1) :
  (forall x, In x (values1 m) -> f x = x) -> map_mesh1 f m = m.
Proof.
  intros H. destruct m as [nv nodes vars]. unfold map_mesh1, values1 in *.
  cbn [m1_nvars m1_nodes m1_vars] in *. f_equal.
  - apply map_id_on. intros x Hx. apply H, in_or_app. now left.
  - apply map_map_id_on. intros x Hx. apply H, in_or_app. now right.
Qed.

Lemma map_mesh1_compose f g (m : mesh1) :
  map_mesh1 f (map_mesh1 g m) = map_mesh1 (fun x => f (g x)) m.
Proof.
  unfold map_mesh1. cbn [m1_nvars m1_nodes m1_vars]. f_equal.
  - apply map_map.
  - rewrite map_map. apply map_ext. intros r. apply map_map.
Qed.

Lemma values1_map f (m : mesh1) : values1 (map_mesh1 f m) = map f (values1 m).
Proof.
  unfold values1, map_mesh1. cbn [m1_nodes m1_vars]. rewrite map_app. f_equal.
  now rewrite concat_map.
Qed.

End MapMesh.

(* ================================================================== output then read *)
Section Rounded.
Context {A : Arith}.
Variable tok : Type.
Variable fmt : A -> tok.
Variable parse : tok -> res A.

Notation mesh1 := (mesh1 A A).

(* the tokens of the file are the images of the tokens of the file of numbers *)
Lemma layout1_natural (m : mesh1) :
  layout1 tok fmt m = map (map fmt) (layout1 A (fun x => x) m).
Proof.
  unfold layout1. rewrite map_map. apply map_ext. intros [x r]. cbn [fst snd map].
  now rewrite map_map.
Qed.

(* reading is natural in the token type: reading the images of the tokens with [parse] is
   reading the tokens with [parse o f] *)
Lemma bind_ext {Y Z} (r r' : res Y) (g g' : Y -> res Z) :
  r = r' -> (forall y, g y = g' y) -> bind r g = bind r' g'.
Proof. intros <- H. destruct r; cbn [bind]; [apply H | reflexivity]. Qed.

Lemma read1_natural {tok0 : Type} (f : tok0 -> tok) (m0 : mesh1) (toks : list tok0) :
  read1 tok parse m0 (map f toks) = read1 tok0 (fun t => parse (f t)) m0 toks.
Proof.
  unfold read1. cbv zeta. rewrite map_length.
  assert (E1 : forall (St : Type) (g : A -> res St) i,
             (let* t := rd (map f toks) i in let* x := parse t in g x) =
             (let* t := rd toks i in let* x := parse (f t) in g x)).
  { intros St g i. unfold rd. rewrite nth_error_map. destruct (nth_error toks i); reflexivity. }
  apply bind_ext.
  - unfold for_. apply for_from_ext. intros i s _.
    destruct (i mod (m1_nvars m0 + 1) =? 0); [apply E1|reflexivity].
  - intros nodes. apply bind_ext; [|reflexivity].
    unfold for_. apply for_from_ext. intros i s _. apply for_from_ext. intros var s1 _.
    destruct (i mod (m1_nvars m0 + 1) =? var + 1); [apply E1|reflexivity].
Qed.

(* rd on a list, as nth_error *)
Lemma rd_Ok_nth_error {Y} (l : list Y) i y : rd l i = Ok y -> nth_error l i = Some y.
Proof. unfold rd. destruct (nth_error l i); [now intros [= ->] | discriminate]. Qed.

Section Rnd.
Variable rnd : A -> A.

(* ------------------------------------------------------------------ 1. the mesh read back is the
   written mesh, rounded.  The hypothesis is needed only of the values the mesh holds. *)
Lemma read_layout_roundtrip_on (m m0 : mesh1) :
  (forall x, In x (values1 m) -> parse (fmt x) = Ok (rnd x)) ->
  wf1 m -> m1_nvars m0 = m1_nvars m ->
  Forall (fun r => length r = m1_nvars m0) (m1_vars m0) ->
  read1 tok parse m0 (concat (layout1 tok fmt m)) = Ok (map_mesh1 rnd m).
Proof.
  intros Hp Hwf Hnv Hall0. pose proof Hwf as [Hlen Hall].
  destruct (map_mesh1_entries rnd m Hwf) as (Env & Enn & Env' & Enode & Evar).
  apply (read1_tokens_gen tok parse (map_mesh1 rnd m) (concat (layout1 tok fmt m))).
  - now apply map_mesh1_wf.
  - rewrite Env, Enn. now apply layout1_toks_length.
  - rewrite Env, Enn. intros k Hk. exists (fmt (nth k (m1_nodes m) zero)). split.
    + apply rd_Ok_nth_error. now apply layout1_tok_node.
    + rewrite Enode by exact Hk. apply Hp. apply in_or_app. left. now apply nth_In.
  - rewrite Env, Enn. intros k v Hk Hv. exists (fmt (nth v (nth k (m1_vars m) []) zero)). split.
    + apply rd_Ok_nth_error. now apply layout1_tok_var.
    + rewrite Evar by assumption. apply Hp. apply in_or_app. right.
      apply in_concat_nth; [lia|]. rewrite (Forall_nth_lt _ _ k [] Hall) by lia. exact Hv.
  - exact Hnv.
  - exact Hall0.
Qed.

Lemma read_output_roundtrip_on (m m0 : mesh1) :
  (forall x, In x (values1 m) -> parse (fmt x) = Ok (rnd x)) ->
  wf1 m -> m1_nvars m0 = m1_nvars m ->
  Forall (fun r => length r = m1_nvars m0) (m1_vars m0) ->
  (let* lines := output1 tok fmt fmt m in read1 tok parse m0 (concat lines)) = Ok (map_mesh1 rnd m).
Proof.
  intros Hp Hwf Hnv Hall0. rewrite output1_layout by exact Hwf. cbn [bind].
  now apply read_layout_roundtrip_on.
Qed.

Hypothesis parse_fmt_rnd : forall x, parse (fmt x) = Ok (rnd x).

Lemma read_layout_roundtrip_rounded (m m0 : mesh1) :
  wf1 m -> m1_nvars m0 = m1_nvars m ->
  Forall (fun r => length r = m1_nvars m0) (m1_vars m0) ->
  (let* lines := output1 tok fmt fmt m in read1 tok parse m0 (concat lines)) = Ok (map_mesh1 rnd m).
Proof. apply read_output_roundtrip_on. intros x _. apply parse_fmt_rnd. Qed.

(* ------------------------------------------------------------------ 2b. idempotence *)
Hypothesis fmt_rnd : forall x, fmt (rnd x) = fmt x.

Lemma rnd_idempotent x : rnd (rnd x) = rnd x.
Proof.
  pose proof (parse_fmt_rnd (rnd x)) as E. rewrite fmt_rnd, parse_fmt_rnd in E. now injection E.
Qed.

(* the file written from the re-read mesh is the first file, token for token *)
Lemma layout1_rounded (m : mesh1) : layout1 tok fmt (map_mesh1 rnd m) = layout1 tok fmt m.
Proof.
  unfold layout1, map_mesh1. cbn [m1_nodes m1_vars].
  generalize (m1_vars m). induction (m1_nodes m) as [|x xs IH]; intros [|r rs]; try reflexivity.
  cbn [map combine fst snd]. rewrite IH, fmt_rnd. do 2 f_equal.
  rewrite map_map. apply map_ext. intros y. apply fmt_rnd.
Qed.

Lemma map_mesh1_rnd_twice (m : mesh1) : map_mesh1 rnd (map_mesh1 rnd m) = map_mesh1 rnd m.
Proof.
  rewrite map_mesh1_compose. unfold map_mesh1. f_equal.
  - apply map_ext. intros x. apply rnd_idempotent.
  - apply map_ext. intros r. apply map_ext. intros x. apply rnd_idempotent.
Qed.

(* write, read, write again, read again: second file = first file, second mesh = first mesh read *)
Lemma roundtrip_twice (m m0 m1 : mesh1) :
  wf1 m -> m1_nvars m0 = m1_nvars m -> m1_nvars m1 = m1_nvars m ->
  Forall (fun r => length r = m1_nvars m0) (m1_vars m0) ->
  Forall (fun r => length r = m1_nvars m1) (m1_vars m1) ->
  exists lines m',
    output1 tok fmt fmt m = Ok lines /\
    read1 tok parse m0 (concat lines) = Ok m' /\ m' = map_mesh1 rnd m /\
    output1 tok fmt fmt m' = Ok lines /\
    read1 tok parse m1 (concat lines) = Ok m'.
Proof.
  intros Hwf Hnv0 Hnv1 Hall0 Hall1.
  exists (layout1 tok fmt m), (map_mesh1 rnd m).
  split; [now apply output1_layout|].
  split; [apply read_layout_roundtrip_on; auto|].
  split; [reflexivity|].
  split.
  - rewrite output1_layout by now apply map_mesh1_wf. now rewrite layout1_rounded.
  - apply read_layout_roundtrip_on; auto.
Qed.

End Rnd.

(* ------------------------------------------------------------------ 2a. the values held survive
   printing: the mesh read back is the mesh written *)
Lemma read_layout_roundtrip_held (m m0 : mesh1) :
  (forall x, In x (m1_nodes m ++ concat (m1_vars m)) -> parse (fmt x) = Ok x) ->
  wf1 m -> m1_nvars m0 = m1_nvars m ->
  Forall (fun r => length r = m1_nvars m0) (m1_vars m0) ->
  (let* lines := output1 tok fmt fmt m in read1 tok parse m0 (concat lines)) = Ok m.
Proof.
  intros Hp Hwf Hnv Hall0.
  rewrite (read_output_roundtrip_on (fun x => x) m m0 Hp Hwf Hnv Hall0).
  f_equal. apply map_mesh1_id_on. reflexivity.
Qed.

(* ------------------------------------------------------------------ 2c. a held value whose token
   does not parse: read panics *)
Lemma in_values1_token (m : mesh1) x :
  wf1 m -> In x (values1 m) -> In (fmt x) (concat (layout1 tok fmt m)).
Proof.
  intros [Hlen Hall] Hx. unfold values1 in Hx. apply in_concat.
  unfold layout1. revert Hlen Hall Hx. generalize (m1_vars m).
  induction (m1_nodes m) as [|y ys IH]; intros [|r rs] Hlen Hall Hx; cbn [length] in Hlen;
    try discriminate.
  - destruct Hx.
  - cbn [combine map fst snd concat] in *. apply in_app_or in Hx.
    assert (Hcase : x = y \/ In x r \/ In x (ys ++ concat rs)).
    { destruct Hx as [[->|Hx]|Hx]; auto.
      - right. right. apply in_or_app. now left.
      - apply in_app_or in Hx as [Hx|Hx]; auto. right. right. apply in_or_app. now right. }
    destruct Hcase as [->|[Hr|Hrest]].
    + eexists. split; [now left|]. now left.
    + eexists. split; [now left|]. right. now apply in_map.
    + destruct (IH rs) as (l & Hl & Hin); [lia | now inversion Hall | exact Hrest |].
      exists l. split; [now right | exact Hin].
Qed.

Lemma read_written_bad_token (m m0 : mesh1) x k :
  wf1 m -> In x (values1 m) -> parse (fmt x) = Panic k ->
  exists k', (let* lines := output1 tok fmt fmt m in read1 tok parse m0 (concat lines)) = Panic k'.
Proof.
  intros Hwf Hx Hp. rewrite output1_layout by exact Hwf. cbn [bind].
  apply (in_values1_token m x Hwf) in Hx. apply In_nth_error in Hx as (i & Hi).
  exact (read1_bad_token tok parse m0 _ i _ k Hi Hp).
Qed.

End Rounded.

(* ================================================================== Mesh1D::read on ANY token
   list (any length, complete lines or not) into any mesh whose rows have nvars entries:
   the only panics are those of the parser.  In particular `self.vars[i / (nvars+1)][var]` is
   always in range: the first loop has pushed ceil(len / (nvars+1)) nodes. *)
Section LoopOr.
Context {St : Type}.

(* a loop each of whose iterations keeps the invariant or panics with a panic in P *)
Lemma for_from_inv_or (I : nat -> St -> Prop) (P : pkind -> Prop) n lo
      (body : nat -> St -> res St) s :
  I lo s ->
  (forall i s, lo <= i < lo + n -> I i s ->
     match body i s with Ok s' => I (S i) s' | Panic k => P k end) ->
  match for_from n lo body s with Ok s' => I (lo + n) s' | Panic k => P k end.
Proof.
  revert lo s; induction n as [|n IH]; intros lo s H0 Hstep; cbn [for_from].
  - now rewrite Nat.add_0_r.
  - pose proof (Hstep lo s ltac:(lia) H0) as H1.
    destruct (body lo s) as [s1|k]; cbn [bind]; [|exact H1].
    replace (lo + S n) with (S lo + n) by lia. apply IH; [exact H1|].
    intros i s2 Hi. apply Hstep. lia.
Qed.

End LoopOr.

(* the number of line starts among the first i token positions: ceil (i / (nv+1)) *)
Lemma ceil_step nv i :
  (S i + nv) / (nv + 1) = (i + nv) / (nv + 1) + (if i mod (nv + 1) =? 0 then 1 else 0).
Proof.
  set (w := nv + 1). pose proof (Nat.div_mod_eq i w) as E.
  assert (Hr : i mod w < w) by (apply Nat.mod_upper_bound; lia).
  set (q := i / w) in *. set (r := i mod w) in *.
  assert (E1 : (S i + nv) / w = q + 1).
  { symmetry. apply (Nat.div_unique _ _ _ r); lia. }
  rewrite E1. destruct (Nat.eqb_spec r 0) as [E0|E0].
  - f_equal. apply (Nat.div_unique _ _ _ nv); lia.
  - rewrite Nat.add_0_r. apply (Nat.div_unique _ _ _ (r - 1)); lia.
Qed.

Lemma div_lt_ceil nv i n : i < n -> i / (nv + 1) < (n + nv) / (nv + 1).
Proof.
  intros Hi. set (w := nv + 1).
  apply Nat.lt_le_trans with ((i + w) / w).
  - replace (i + w) with (i + 1 * w) by lia. rewrite Nat.div_add by lia. lia.
  - apply Nat.div_le_mono; lia.
Qed.

Section Total.
Context {A : Arith}.
Variable tok : Type.
Variable parse : tok -> res A.
Notation mesh1 := (mesh1 A A).

(* the panic is that of the parser on one of the tokens *)
Definition parse_panic (toks : list tok) (k : pkind) : Prop :=
  exists t, In t toks /\ parse t = Panic k.

Lemma read1_ok_or_parse_panic (m0 : mesh1) (toks : list tok) :
  Forall (fun r => length r = m1_nvars m0) (m1_vars m0) ->
  match read1 tok parse m0 toks with
  | Ok m' => wf1 m' /\ m1_nvars m' = m1_nvars m0 /\
             length (m1_nodes m') = (length toks + m1_nvars m0) / (m1_nvars m0 + 1)
  | Panic k => parse_panic toks k
  end.
Proof.
  intros Hall0. unfold read1. cbv zeta. set (nv := m1_nvars m0) in *.
  (* a token in range: a value, or the panic of the parser on it *)
  assert (Htok : forall (St : Type) i (g : A -> res St) (Q : St -> Prop),
            i < length toks ->
            (forall x, match g x with Ok s => Q s | Panic k => parse_panic toks k end) ->
            match (let* t := rd toks i in let* x := parse t in g x) with
            | Ok s => Q s | Panic k => parse_panic toks k end).
  { intros St i g Q Hi Hg. unfold rd. destruct (nth_error toks i) as [t|] eqn:Et.
    - cbn [bind]. destruct (parse t) as [x|k] eqn:Ep; cbn [bind]; [apply Hg|].
      exists t. split; [now apply nth_error_In in Et | exact Ep].
    - apply nth_error_None in Et. lia. }
  set (N := (length toks + nv) / (nv + 1)).
  lazymatch goal with |- context [bind ?L _] =>
    assert (H1 : match L with Ok nodes => length nodes = N | Panic k => parse_panic toks k end);
    [|destruct L as [nodes|k1]; cbn [bind]; [|exact H1]] end.
  { unfold for_. rewrite Nat.sub_0_r.
    apply (for_from_inv_or (fun i (nodes : list A) => length nodes = (i + nv) / (nv + 1))
             (parse_panic toks) (length toks) 0).
    - cbn [length Nat.add]. symmetry. apply Nat.div_small. lia.
    - intros i s Hi Hs. rewrite ceil_step. destruct (i mod (nv + 1) =? 0).
      + apply Htok; [lia|]. intros x. cbn [bind]. rewrite app_length. cbn [length]. lia.
      + lia. }
  set (J := fun vars : list (list A) => length vars = N /\ Forall (fun r => length r = nv) vars).
  lazymatch goal with |- context [bind ?L _] =>
    assert (H2 : match L with Ok vars => J vars | Panic k => parse_panic toks k end);
    [|destruct L as [vars|k2]; cbn [bind]; [|exact H2]] end.
  { unfold for_ at 1. rewrite Nat.sub_0_r.
    apply (for_from_inv_or (fun _ => J) (parse_panic toks) (length toks) 0).
    - split; [rewrite resize_list_length; exact H1|].
      apply Forall_resize_list; [exact Hall0 | apply repeat_length].
    - intros i vs Hi Hvs. unfold for_. rewrite Nat.sub_0_r.
      apply (for_from_inv_or (fun _ => J) (parse_panic toks) nv 0); [exact Hvs|].
      intros var vs1 Hvar [Hl Hf]. destruct (i mod (nv + 1) =? var + 1); [|now split].
      assert (Hk : i / (nv + 1) < length vs1) by (rewrite Hl; apply div_lt_ceil; lia).
      apply Htok; [lia|]. intros x. rewrite set_elem_ok.
      + split; [now rewrite upd_list_length|]. apply Forall_upd_list; [exact Hf|].
        rewrite upd_list_length. now apply Forall_nth_lt.
      + exact Hk.
      + rewrite (Forall_nth_lt _ _ _ [] Hf Hk). lia. }
  destruct H2 as [Hl Hf]. cbn [m1_nvars m1_nodes m1_vars].
  split; [split; cbn [m1_nvars m1_nodes m1_vars]; [congruence | exact Hf]|]. split; [reflexivity | exact H1].
Qed.

(* every token parses <-> read returns a mesh; in that case it is well formed, has the nvars of
   the mesh read into and one node per line start *)
Lemma read1_ok_iff (m0 : mesh1) (toks : list tok) :
  Forall (fun r => length r = m1_nvars m0) (m1_vars m0) ->
  (exists m', read1 tok parse m0 toks = Ok m') <->
  Forall (fun t => exists x, parse t = Ok x) toks.
Proof.
  intros Hall0. split.
  - intros (m' & E). apply Forall_forall. intros t Ht.
    destruct (parse t) as [x|k] eqn:Ep; [now exists x|].
    apply In_nth_error in Ht as (i & Hi).
    destruct (read1_bad_token tok parse m0 toks i t k Hi Ep) as (k' & E'). congruence.
  - intros Hall. pose proof (read1_ok_or_parse_panic m0 toks Hall0) as H.
    destruct (read1 tok parse m0 toks) as [m'|k]; [now exists m'|].
    destruct H as (t & Ht & Ep). rewrite Forall_forall in Hall.
    destruct (Hall t Ht) as (x & Ex). congruence.
Qed.

(* a parser with a single panic (f64::from_str(..).unwrap(): Unwrap): read returns a mesh or
   exactly that panic, and the panic exactly when some token does not parse *)
Lemma read1_panic_class (m0 : mesh1) (toks : list tok) k :
  Forall (fun r => length r = m1_nvars m0) (m1_vars m0) ->
  (forall t k', In t toks -> parse t = Panic k' -> k' = k) ->
  (read1 tok parse m0 toks = Panic k <-> exists t, In t toks /\ parse t = Panic k) /\
  (forall k', read1 tok parse m0 toks = Panic k' -> k' = k).
Proof.
  intros Hall0 Hone. pose proof (read1_ok_or_parse_panic m0 toks Hall0) as H. split; [split|].
  - intros E. rewrite E in H. exact H.
  - intros (t & Ht & Ep). apply In_nth_error in Ht as (i & Hi).
    destruct (read1_bad_token tok parse m0 toks i t k Hi Ep) as (k' & E').
    rewrite E' in H. destruct H as (t' & Ht' & Ep'). now rewrite <- (Hone t' k' Ht' Ep').
  - intros k' E. rewrite E in H. destruct H as (t & Ht & Ep). exact (Hone t k' Ht Ep).
Qed.

End Total.

(* ================================================================== the tied step function
   (Model/MeshOps.v step1, run against the implementation on every check): tokens are carried as
   the numbers they parse to, fmt = fmt_tbl tbl is the table "value -> value of its printed
   token" measured on the implementation, parse = Ok.  The step returns the rounded mesh. *)
From OV Require Import Model.MeshOps.

Section Tied.
Context {A : Arith}.
Variable K : @mconst A.
Notation mesh1 := (mesh1 A A).

Lemma tied_reread_rounded (m : mesh1) tbl :
  wf1 m ->
  step1 K m (O1Reread tbl) =
  Ok (map_mesh1 (fmt_tbl tbl) m,
      VLinesM1 (layout1 A (fmt_tbl tbl) m) (map_mesh1 (fmt_tbl tbl) m)).
Proof.
  intros Hwf. pose proof Hwf as [_ Hall]. cbn [step1].
  rewrite output1_layout by exact Hwf. cbn [bind].
  rewrite (read_layout_roundtrip_on A (fmt_tbl tbl) (fun t => Ok t) (fmt_tbl tbl) m m);
    [reflexivity | reflexivity | exact Hwf | reflexivity | exact Hall].
Qed.

Lemma tied_file_rounded (m : mesh1) tbl nodes2 :
  wf1 m ->
  step1 K m (O1File tbl (m1_nvars m) nodes2) =
  Ok (m, VLinesM1 (layout1 A (fmt_tbl tbl) m) (map_mesh1 (fmt_tbl tbl) m)).
Proof.
  intros Hwf. cbn [step1].
  rewrite output1_layout by exact Hwf. cbn [bind].
  rewrite (read_layout_roundtrip_on A (fmt_tbl tbl) (fun t => Ok t) (fmt_tbl tbl) m
             (mesh1_new nodes2 (m1_nvars m)));
    [reflexivity | reflexivity | exact Hwf | reflexivity |].
  destruct (mesh1_new_wf (A:=A) nodes2 (m1_nvars m)) as [_ H]. exact H.
Qed.

End Tied.

(* ================================================================== idempotence, hypotheses only
   on the values held (for parsers that round again, where fmt (rnd x) = fmt x needs a bound on x) *)
Section RndOn.
Context {A : Arith}.
Variable tok : Type.
Variable fmt : A -> tok.
Variable parse : tok -> res A.
Variable rnd : A -> A.
Notation mesh1 := (mesh1 A A).

Lemma combine_map_map {Y Z Y' Z'} (f : Y -> Y') (g : Z -> Z') (l : list Y) (l' : list Z) :
  combine (map f l) (map g l') = map (fun p => (f (fst p), g (snd p))) (combine l l').
Proof.
  revert l'; induction l as [|y l IH]; intros [|z l']; try reflexivity.
  cbn [map combine fst snd]. now rewrite IH.
Qed.

Lemma layout1_rounded_on (m : mesh1) :
  (forall x, In x (values1 m) -> fmt (rnd x) = fmt x) ->
  layout1 tok fmt (map_mesh1 rnd m) = layout1 tok fmt m.
Proof.
  intros H. unfold layout1, map_mesh1, values1 in *. cbn [m1_nodes m1_vars].
  rewrite combine_map_map, map_map. apply map_ext_in. intros [x r] Hin. cbn [fst snd].
  rewrite H by (apply in_or_app; left; eapply in_combine_l; exact Hin). f_equal.
  rewrite map_map. apply map_ext_in. intros y Hy. apply H. apply in_or_app. right.
  apply in_concat. exists r. split; [eapply in_combine_r; exact Hin | exact Hy].
Qed.

Lemma roundtrip_twice_on (m m0 m1 : mesh1) :
  (forall x, In x (values1 m) -> parse (fmt x) = Ok (rnd x)) ->
  (forall x, In x (values1 m) -> fmt (rnd x) = fmt x) ->
  wf1 m -> m1_nvars m0 = m1_nvars m -> m1_nvars m1 = m1_nvars m ->
  Forall (fun r => length r = m1_nvars m0) (m1_vars m0) ->
  Forall (fun r => length r = m1_nvars m1) (m1_vars m1) ->
  exists lines m',
    output1 tok fmt fmt m = Ok lines /\
    read1 tok parse m0 (concat lines) = Ok m' /\ m' = map_mesh1 rnd m /\
    output1 tok fmt fmt m' = Ok lines /\
    read1 tok parse m1 (concat lines) = Ok m'.
Proof.
  intros Hp Hf Hwf Hnv0 Hnv1 Hall0 Hall1.
  exists (layout1 tok fmt m), (map_mesh1 rnd m).
  split; [now apply output1_layout|].
  split; [apply read_layout_roundtrip_on; auto|].
  split; [reflexivity|].
  split.
  - rewrite output1_layout by now apply map_mesh1_wf. now rewrite layout1_rounded_on.
  - apply read_layout_roundtrip_on; auto.
Qed.

End RndOn.
