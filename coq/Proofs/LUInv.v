(* Proofs/LUInv.v -- inverse of Model/Solve.v (src/matrix/solve.rs: inverse) is a right inverse:
   whatever it returns satisfies M * N = I.  Column j of the permutation matrix is overwritten in
   place by the solution of L U z = P e_j (forward, then backward substitution with division);
   the other columns are not touched.  Stdlib style only. *)
From Coq Require Import List Arith Lia Bool Ring Ring_theory Field_theory.
From OV Require Import Base.Panic Base.Arith Model.Vector Model.Matrix Model.Solve
  Proofs.Matrix Proofs.LUPrim Proofs.LUSum Proofs.LU Proofs.LUSolve.
Import ListNotations.
Local Open Scope arith_scope.

Section LUInv.
Context {A : Arith} (FL : FieldLaws A) (PL : PivLaws A).
Add Ring Ar : (A_ring FL).
Notation matrix := (matrix A).
Notation inv := (inv FL).

Definition col (X : matrix) (j : nat) : nat -> A := fun k => ent X k j.

(* ---------- forward substitution on column j ---------- *)
Definition fwd_col (lu : matrix) (n j : nat) (X : matrix) : res matrix :=
  for_ 0 n (fun i inv =>
    for_ 0 i (fun k inv =>
      let* kj := mget inv k j in
      let* ij := mget inv i j in
      let* a := mget lu i k in
      mset inv i j (ij - a * kj)) inv) X.

Lemma fwd_col_ok (LU X : matrix) n j : shape LU n n -> shape X n n -> j < n ->
  exists Y, fwd_col LU n j X = Ok Y /\ shape Y n n /\
    (forall r c, r < n -> c < n -> c <> j -> ent Y r c = ent X r c) /\
    forall r, r < n -> mvprod n (unit_lower LU) (col Y j) r = ent X r j.
Proof.
  intros SL SX Hj. unfold fwd_col.
  destruct (for_inv (fun i (Y : matrix) => shape Y n n /\
               (forall r c, r < n -> c < n -> c <> j -> ent Y r c = ent X r c) /\
               (forall r, i <= r < n -> ent Y r j = ent X r j) /\
               (forall r, r < i -> sum_n r (fun k => ent LU r k * ent Y k j) + ent Y r j = ent X r j))
              0 n (fun i inv =>
                for_ 0 i (fun k inv =>
                  let* kj := mget inv k j in
                  let* ij := mget inv i j in
                  let* a := mget LU i k in
                  mset inv i j (ij - a * kj)) inv) X) as (Y & E & SY & Ho & _ & Hd).
  - lia.
  - split; auto. split; auto. split; auto. intros; lia.
  - intros i s Hi (Ss & Hos & Hu & Hd).
    destruct (for_inv (fun k (t : matrix) => shape t n n /\
                 (forall r c, r < n -> c < n -> ~ (r = i /\ c = j) -> ent t r c = ent s r c) /\
                 ent t i j = ent s i j - sum_n k (fun k' => ent LU i k' * ent s k' j))
                0 i (fun k inv =>
                  let* kj := mget inv k j in
                  let* ij := mget inv i j in
                  let* a := mget LU i k in
                  mset inv i j (ij - a * kj)) s) as (t & Et & St & Hot & Hti).
    + lia.
    + split; auto. split; auto. cbn. ring.
    + intros k t Hk (St & Hot & Hti).
      rewrite (mget_ok t n n k j St), (mget_ok t n n i j St), (mget_ok LU n n i k SL) by lia.
      cbn [bind].
      destruct (mset_ok t n n i j (ent t i j - ent LU i k * ent t k j) St) as (t1 & E1 & S1 & V1); [lia|lia|].
      exists t1; split; auto. split; auto. split.
      * intros r c Hr Hc Hn. rewrite V1 by auto.
        destruct (Nat.eqb_spec r i); destruct (Nat.eqb_spec c j); cbn [andb]; try (apply Hot; auto).
        exfalso; auto.
      * rewrite V1 by auto. rewrite !Nat.eqb_refl. cbn [andb]. rewrite Hti, sum_n_S.
        rewrite (Hot k j) by lia. ring.
    + exists t; split; auto. split; auto. split; [|split].
      * intros r c Hr Hc Hn. rewrite Hot by (auto; lia). now apply Hos.
      * intros r Hr. rewrite Hot by lia. apply Hu; lia.
      * intros r Hr. destruct (Nat.eq_dec r i) as [->|Hn].
        -- rewrite Hti. rewrite <- (Hu i) by lia.
           rewrite (sum_n_ext i (fun k => ent LU i k * ent t k j) (fun k => ent LU i k * ent s k j))
             by (intros k Hk; rewrite Hot by lia; reflexivity).
           ring.
        -- rewrite Hot by lia. rewrite <- (Hd r) by lia. f_equal.
           apply sum_n_ext. intros k Hk. rewrite Hot by lia. reflexivity.
  - exists Y; split; auto. split; auto. split; auto.
    intros r Hr. rewrite (mvprod_unit_lower FL) by auto. unfold col. apply Hd; lia.
Qed.

(* ---------- backward substitution with division on column j ---------- *)
Definition bwd_col (lu : matrix) (n j : nat) (Y : matrix) : res matrix :=
  for_rev 0 n (fun i inv =>
    let* inv := for_ (i + 1) n (fun k inv =>
                  let* kj := mget inv k j in
                  let* ij := mget inv i j in
                  let* a := mget lu i k in
                  mset inv i j (ij - a * kj)) inv in
    let* ij := mget inv i j in
    let* d := mget lu i i in
    let* q := div ij d in
    mset inv i j q) Y.

Lemma bwd_col_sound (LU Y Z : matrix) n j : shape LU n n -> shape Y n n -> j < n ->
  bwd_col LU n j Y = Ok Z ->
  shape Z n n /\
  (forall r c, r < n -> c < n -> c <> j -> ent Z r c = ent Y r c) /\
  forall r, r < n -> mvprod n (upper LU) (col Z j) r = ent Y r j.
Proof.
  intros SL SY Hj H. unfold bwd_col, for_rev in H. rewrite Nat.sub_0_r in H.
  pose (J := fun (k' : nat) (Z : matrix) => shape Z n n /\
               (forall r c, r < n -> c < n -> c <> j -> ent Z r c = ent Y r c) /\
               (forall r, r < k' -> ent Z r j = ent Y r j) /\
               (forall r, k' <= r < n -> mvprod n (upper LU) (col Z j) r = ent Y r j)).
  assert (HJ : J 0 Z).
  { eapply (for_rev_from_inv_partial J n 0); [| |exact H].
    - split; auto. split; auto. split; auto. intros; lia.
    - clear H. intros i s s1 Hi (Ss & Hos & Hu & Hdn) H. cbn [Nat.add] in H.
      destruct (for_inv (fun k (t : matrix) => shape t n n /\
                   (forall r c, r < n -> c < n -> ~ (r = i /\ c = j) -> ent t r c = ent s r c) /\
                   ent t i j = ent s i j - sum_n k (fun k' => if i <? k' then ent LU i k' * ent s k' j else zero))
                  (i + 1)%nat n (fun k inv =>
                    let* kj := mget inv k j in
                    let* ij := mget inv i j in
                    let* a := mget LU i k in
                    mset inv i j (ij - a * kj)) s) as (t & Et & St & Hot & Hti).
      + lia.
      + split; auto. split; auto. rewrite (sum_n_zero FL); [ring|]. intros k Hk. nb.
      + intros k t Hk (St & Hot & Hti).
        rewrite (mget_ok t n n k j St), (mget_ok t n n i j St), (mget_ok LU n n i k SL) by lia.
        cbn [bind].
        destruct (mset_ok t n n i j (ent t i j - ent LU i k * ent t k j) St) as (t1 & E1 & S1 & V1); [lia|lia|].
        exists t1; split; auto. split; auto. split.
        * intros r c Hr Hc Hn. rewrite V1 by auto.
          destruct (Nat.eqb_spec r i); destruct (Nat.eqb_spec c j); cbn [andb]; try (apply Hot; auto).
          exfalso; auto.
        * rewrite V1 by auto. rewrite !Nat.eqb_refl. cbn [andb]. rewrite Hti, sum_n_S.
          replace (i <? k) with true by (symmetry; apply Nat.ltb_lt; lia).
          rewrite (Hot k j) by lia. ring.
      + rewrite Et in H. cbn [bind] in H.
        rewrite (mget_ok t n n i j St), (mget_ok LU n n i i SL) in H by lia. cbn [bind] in H.
        destruct (div (ent t i j) (ent LU i i)) as [q|] eqn:Eq; [|discriminate].
        apply (div_Ok_inv FL) in Eq as (Hd & Hq). cbn [bind] in H.
        destruct (mset_ok t n n i j q St) as (t1 & E1 & S1 & V1); [lia|lia|].
        rewrite E1 in H. injection H as <-.
        split; auto. split; [|split].
        * intros r c Hr Hc Hn. rewrite V1 by auto.
          replace (c =? j) with false by (symmetry; now apply Nat.eqb_neq).
          rewrite andb_false_r. rewrite Hot by (auto; lia). now apply Hos.
        * intros r Hr. rewrite V1 by auto.
          replace (r =? i) with false by (symmetry; apply Nat.eqb_neq; lia). cbn [andb].
          rewrite Hot by lia. apply Hu; lia.
        * intros r Hr. destruct (Nat.eq_dec r i) as [->|Hne].
          -- apply (row_done FL); auto.
             unfold col. rewrite V1 by auto. rewrite !Nat.eqb_refl. cbn [andb].
             rewrite Hq, Hti. rewrite (Hu i) by lia.
             f_equal. f_equal. apply sum_n_ext. intros k Hk.
             destruct (Nat.ltb_spec i k); auto.
             rewrite V1 by auto.
             replace (k =? i) with false by (symmetry; apply Nat.eqb_neq; lia). cbn [andb].
             rewrite Hot by lia. reflexivity.
          -- rewrite <- (Hdn r) by lia. unfold mvprod, col. apply sum_n_ext.
             intros k Hk. unfold upper. destruct (Nat.leb_spec r k); [|ring].
             rewrite V1 by auto.
             replace (k =? i) with false by (symmetry; apply Nat.eqb_neq; lia). cbn [andb].
             rewrite Hot by lia. reflexivity. }
  destruct HJ as (SZ & Ho & _ & Hdn). split; auto. split; auto. intros r Hr. apply Hdn; lia.
Qed.

(* ---------- inverse ---------- *)
Lemma inverse_eq (m : matrix) :
  inverse m = if negb (rows m =? cols m) then Panic Guard else
              let* r := lu_decomp m in
              let '(lu, _, inv) := r in
              for_ 0 (rows m) (fun j inv =>
                let* inv := fwd_col lu (rows m) j inv in bwd_col lu (rows m) j inv) inv.
Proof. reflexivity. Qed.

Lemma inverse_shape_right (M N : matrix) n : shape M n n -> inverse M = Ok N ->
  shape N n n /\ forall i j, i < n -> j < n -> mprod n (ent M) (ent N) i j = delta i j.
Proof.
  intros SH H. rewrite inverse_eq in H. destruct (SH) as (_ & Er & Ec).
  rewrite Er, Ec, Nat.eqb_refl in H. cbn [negb] in H.
  destruct (lu_decomp_ok FL PL M n SH) as (LU & piv & P & sw & E & SL & SP & (_ & Hs & HP) & HI).
  rewrite E in H. cbn [bind] in H.
  pose (J := fun (j : nat) (X : matrix) => shape X n n /\
               (forall r c, r < n -> j <= c < n -> ent X r c = ent P r c) /\
               (forall r c, r < n -> c < j -> mvprod n (ent M) (col X c) (perm_of sw r) = ent P r c)).
  assert (HJ : J n N).
  { eapply (for_inv_partial J 0 n); [lia| | |exact H].
    - split; auto. split; auto. intros; lia.
    - clear H. intros j X X1 Hj (SX & Hu & Hdn) H.
      destruct (fwd_col_ok LU X n j SL SX) as (Y & EY & SY & HoY & HY); [lia|].
      rewrite EY in H. cbn [bind] in H.
      destruct (bwd_col_sound LU Y X1 n j SL SY) as (SZ & HoZ & HZ); [lia|exact H|].
      split; auto. split.
      + intros r c Hr Hc. rewrite HoZ, HoY by lia. apply Hu; lia.
      + intros r c Hr Hc. destruct (Nat.eq_dec c j) as [->|Hn].
        * rewrite (lu_combine FL M LU n (perm_of sw) (col Y j) (col X1 j) (col X j)); auto.
          unfold col. apply Hu; lia.
        * rewrite <- (Hdn r c) by lia. unfold mvprod, col. apply sum_n_ext. intros k Hk.
          rewrite HoZ, HoY by lia. reflexivity. }
  destruct HJ as (SN & _ & Hdn). split; auto.
  intros i j Hi Hj. destruct (perm_of_surj n sw i Hs Hi) as (r & Hr & <-).
  change (mprod n (ent M) (ent N) (perm_of sw r) j) with (mvprod n (ent M) (col N j) (perm_of sw r)).
  rewrite Hdn by auto. now apply HP.
Qed.

Lemma inverse_right_lemma (M N : matrix) : wf M -> rows M = cols M -> inverse M = Ok N ->
  shape N (rows M) (rows M) /\
  forall i j, i < rows M -> j < rows M -> mprod (rows M) (ent M) (ent N) i j = delta i j.
Proof.
  intros W E H. apply inverse_shape_right; auto. split; auto.
Qed.

End LUInv.
