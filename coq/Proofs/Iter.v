(* Proofs/Iter.v -- stub, to be filled in *)
