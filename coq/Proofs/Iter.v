(* Proofs/Iter.v -- lemmas about Model/Iter.v that hold over ANY arithmetic (floats included):
   the loop rule for fuelled early-exit loops, the identity preconditioner, and for each of the
   four solvers: Ok k => k <= max_iter, budget 0 => x untouched, Ok only after a passed test. *)
From Coq Require Import List Arith Lia Bool.
From OV Require Import Base.Panic Base.Arith Model.Vector Model.Iter.
Import ListNotations.
Local Open Scope bool_scope.

(* invert an equation  <monadic program> = Ok _  one statement at a time *)
Ltac inv_step :=
  match goal with
  | H : bind _ _ = Ok _ |- _ => apply bind_ok in H; destruct H as (? & ? & H); cbv beta in H
  | H : Panic _ = Ok _ |- _ => discriminate H
  | H : (if ?c then _ else _) = Ok _ |- _ => destruct c eqn:?
  | H : (let '(_, _) := ?p in _) = Ok _ |- _ => destruct p
  end.
Ltac inv_res := repeat inv_step.

Section LoopRule.
Context {A : SArith}.

(* every result of a loop is either returned by the body from a state reached through
   [Continue] steps, or the final value of the state reached when the fuel ran out *)
Lemma iloop_char {S} (body : nat -> S -> res (step_out S)) (final : S -> iout A) (Inv : nat -> S -> Prop) :
  (forall i s s', Inv i s -> body i s = Ok (Continue s') -> Inv (Datatypes.S i) s') ->
  forall fuel i0 s0 o, Inv i0 s0 -> iloop body final fuel i0 s0 = Ok o ->
    (exists i s, i0 <= i < i0 + fuel /\ Inv i s /\ body i s = Ok (Return o)) \/
    (exists s, Inv (i0 + fuel) s /\ o = final s).
Proof.
  intros Hstep fuel; induction fuel as [|f IH]; intros i0 s0 o H0 E; cbn in E.
  - right. exists s0. rewrite Nat.add_0_r. split; auto. congruence.
  - apply bind_ok in E as (so & Eb & E). destruct so as [s'|o'].
    + destruct (IH (Datatypes.S i0) s' o (Hstep _ _ _ H0 Eb) E) as [(i & s & Hi & HI & Hb)|(s & HI & ->)].
      * left. exists i, s. split; [lia|auto].
      * right. exists s. split; auto. now replace (i0 + Datatypes.S f) with (Datatypes.S i0 + f) by lia.
    + injection E as <-. left. exists i0, s0. split; [lia|auto].
Qed.

Lemma iloop_zero {S} (body : nat -> S -> res (step_out S)) (final : S -> iout A) i s :
  iloop body final 0 i s = Ok (final s).
Proof. reflexivity. Qed.

End LoopRule.

Section IdentPre.
Context {A : SArith}.
Notation F := (T (SA A)).

(* vadd / vsub succeed exactly when the sizes agree *)
Lemma vadd_Ok (u v w : list F) : vadd u v = Ok w -> length u = length v /\ w = zipw add u v.
Proof. unfold vadd. destruct (Nat.eqb_spec (length u) (length v)); [|discriminate]. intros H; injection H as <-; auto. Qed.
Lemma vsub_Ok (u v w : list F) : vsub u v = Ok w -> length u = length v /\ w = zipw sub u v.
Proof. unfold vsub. destruct (Nat.eqb_spec (length u) (length v)); [|discriminate]. intros H; injection H as <-; auto. Qed.
Lemma zipw_length (f : F -> F -> F) (u v : list F) : length u = length v -> length (zipw f u v) = length u.
Proof. intros H. unfold zipw. rewrite map_length, combine_length. lia. Qed.
Lemma vscale_length (u : list F) c : length (vscale u c) = length u.
Proof. apply map_length. Qed.
Lemma vscale_l_length (u : list F) c : length (vscale_l c u) = length u.
Proof. apply map_length. Qed.

Lemma guards_Ok rows cols (b x : list F) u :
  guards rows cols b x = Ok u -> rows = length b /\ rows = cols /\ length b = length x.
Proof.
  unfold guards.
  destruct (Nat.eqb_spec rows (length b)); [|discriminate].
  destruct (Nat.eqb_spec rows cols); [|discriminate].
  destruct (Nat.eqb_spec (length b) (length x)); [|discriminate]. auto.
Qed.

(* identity_preconditioner(b, x) overwrites x with b *)
Lemma ident_pre_ok rows (b x : list F) :
  length b = rows -> length x = rows -> ident_pre rows b x = Ok b.
Proof.
  intros Hb Hx. unfold ident_pre. rewrite Hb, Nat.eqb_refl. cbn [negb].
  destruct (for_inv (fun i (y : list F) => length y = rows /\
              forall j, j < rows -> nth j y zero = if j <? i then nth j b zero else nth j x zero)
            0 rows (fun i x => let* bi := rd b i in upd x i bi) x) as (y & Ey & Hl & Hy).
  - lia.
  - split; auto.
  - intros i y Hi (Hl & Hy). rewrite (rd_ok b i zero) by lia. cbn [bind].
    rewrite upd_ok by lia. eexists; split; [reflexivity|]. split.
    + now rewrite upd_list_length.
    + intros j Hj. rewrite nth_upd_list by lia.
      destruct (Nat.eqb_spec j i) as [->|Hne].
      * now replace (i <? Datatypes.S i) with true by (symmetry; apply Nat.ltb_lt; lia).
      * rewrite Hy by lia. destruct (Nat.ltb_spec j i), (Nat.ltb_spec j (Datatypes.S i)); auto; lia.
  - rewrite Ey. f_equal. apply (nth_ext y b zero zero); [lia|].
    intros j Hj. rewrite Hy by lia. now replace (j <? rows) with true by (symmetry; apply Nat.ltb_lt; lia).
Qed.

Lemma ident_pre_Ok rows (b x y : list F) :
  ident_pre rows b x = Ok y -> length x = rows -> y = b /\ length b = rows.
Proof.
  intros E Hx. assert (Hb : length b = rows).
  { unfold ident_pre in E. destruct (Nat.eqb_spec rows (length b)); [auto|discriminate]. }
  rewrite ident_pre_ok in E by auto. injection E as <-; auto.
Qed.

End IdentPre.

Section AnyArith.
Context {A : SArith}.
Notation F := (T (SA A)).
Variables (mulA mulAT : list F -> res (list F)) (rows cols : nat).

(* "the last convergence test succeeded": the norm of the ghost vector g_t over the code's
   ||b|| (0 replaced by 1) is <= tol (or < tol: the BiCGSTAB full-step exit) *)
Definition passed (b : list F) (tol : F) (g : ghost A) : Prop :=
  exists resid, div (norm2 (g_t g)) (nz (norm2 b)) = Ok resid /\
                (leb resid tol = true \/ ltb resid tol = true).

(* an Ok answer of a loop comes from a body step that returned it *)
Lemma loop_ok_inv {S} (body : nat -> S -> res (step_out S)) (final : S -> iout A) (Q : ghost A -> Prop) n s0 k x g :
  (forall i s k x g, body i s = Ok (Return (IOk k, x, g)) -> k = i /\ Q g) ->
  (forall s, exists e x g, final s = (IErr e, x, g)) ->
  iloop body final n 1 s0 = Ok (IOk k, x, g) -> 1 <= k <= n /\ Q g.
Proof.
  intros Hret Hfin E.
  destruct (iloop_char body final (fun _ _ => True) (fun _ _ _ _ _ => I) n 1 s0 _ I E)
    as [(i & s & Hi & _ & Hb)|(s & _ & Ef)].
  - apply Hret in Hb as (-> & HQ). split; [lia|auto].
  - destruct (Hfin s) as (e & x' & g' & Ef'). rewrite Ef' in Ef. discriminate.
Qed.

Ltac fin_ret_core :=
  repeat match goal with E : Ok _ = Ok _ |- _ => injection E; clear E; intros end;
  first [congruence | subst; split; [reflexivity | cbn; eauto]].
Ltac fin_ret := first [congruence | fin_ret_core].

Lemma cg_body_ret tol normb i s k x g :
  cg_body mulA rows tol normb i s = Ok (Return (IOk k, x, g)) ->
  k = i /\ exists resid, div (norm2 (g_t g)) normb = Ok resid /\ (leb resid tol = true \/ ltb resid tol = true).
Proof. unfold cg_body. intros H. inv_res; fin_ret. Qed.

Lemma bicg_body_ret itol tol bnrm i s k x g : itol = 1 \/ itol = 2 ->
  bicg_body mulA mulAT rows itol tol bnrm i s = Ok (Return (IOk k, x, g)) ->
  k = i /\ exists resid, div (norm2 (g_t g)) bnrm = Ok resid /\ (leb resid tol = true \/ ltb resid tol = true).
Proof.
  unfold bicg_body. intros [-> | ->] H; cbn [Nat.eqb] in H; inv_res; try discriminate;
    fin_ret.
Qed.

Lemma stab_body_ret rtilde tol normb i s k x g :
  stab_body mulA rows rtilde tol normb i s = Ok (Return (IOk k, x, g)) ->
  k = i /\ exists resid, div (norm2 (g_t g)) normb = Ok resid /\ (leb resid tol = true \/ ltb resid tol = true).
Proof. unfold stab_body. intros H. inv_res; fin_ret. Qed.

Lemma qmr_body_ret tol normb i s k x g :
  qmr_body mulA mulAT tol normb i s = Ok (Return (IOk k, x, g)) ->
  k = i /\ exists resid, div (norm2 (g_t g)) normb = Ok resid /\ (leb resid tol = true \/ ltb resid tol = true).
Proof. unfold qmr_body, qmr_exit. intros H. inv_res; fin_ret. Qed.

End AnyArith.

Section AnyArithRun.
Context {A : SArith}.
Notation F := (T (SA A)).
Variables (mulA mulAT : list F -> res (list F)) (rows cols : nat).

Lemma zeros_length : length (@zeros A rows) = rows.
Proof. apply repeat_length. Qed.

Lemma bicg_start_Ok itol (b x r z : list F) bnrm :
  bicg_start mulA rows cols itol b x = Ok (r, bnrm, z) ->
  (itol = 1 \/ itol = 2) /\ bnrm = norm2 b.
Proof.
  unfold bicg_start. intros H. inv_res.
  - apply Nat.eqb_eq in Heqb0. destruct x3 as [f l]; cbn in H. split; [auto | congruence].
  - apply Nat.eqb_eq in Heqb1.
    apply guards_Ok in H0 as (Hr & _ & _).
    match goal with E : ident_pre _ b _ = Ok _ |- _ =>
      apply ident_pre_Ok in E as (-> & _); [|apply zeros_length] end.
    destruct x3 as [f l]; cbn in H. split; [auto | congruence].
Qed.

Definition tested (normb tol : F) (g : ghost A) : Prop :=
  exists resid, div (norm2 (g_t g)) normb = Ok resid /\ (leb resid tol = true \/ ltb resid tol = true).


Lemma run_ok_inv sv b x0 n tol k x g :
  run mulA mulAT rows cols sv b x0 n tol = Ok (IOk k, x, g) ->
  k <= n /\ passed b tol g.
Proof.
  unfold passed. fold (tested (nz (norm2 b)) tol g).
  destruct sv as [|itol| |]; cbn [run]; intros H.
  - unfold solve_cg in H. inv_res.
    + injection H as <- <- <-. split; [lia|]. unfold tested; cbn; eauto.
    + apply (loop_ok_inv _ _ (tested (nz (norm2 b)) tol)) in H as (Hk & HQ); [split; [lia|auto]| |].
      * intros i s k' x' g'. apply cg_body_ret.
      * intros s. unfold cg_final. eauto.
  - unfold solve_bicg in H. inv_res.
    + apply bicg_start_Ok in H0 as (Hit & ->).
      injection H as <- <- <-. split; [lia|]. unfold tested; cbn; eauto.
    + apply bicg_start_Ok in H0 as (Hit & ->).
      apply (loop_ok_inv _ _ (tested (nz (norm2 b)) tol)) in H as (Hk & HQ); [split; [lia|auto]| |].
      * intros i s k' x' g'. now apply bicg_body_ret.
      * intros s. unfold bicg_final. eauto.
  - unfold solve_bicgstab in H. inv_res.
    + injection H as <- <- <-. split; [lia|]. unfold tested; cbn; eauto.
    + apply (loop_ok_inv _ _ (tested (nz (norm2 b)) tol)) in H as (Hk & HQ); [split; [lia|auto]| |].
      * intros i s k' x' g'. apply stab_body_ret.
      * intros s. unfold stab_final. eauto.
  - unfold solve_qmr in H. inv_res.
    + injection H as <- <- <-. split; [lia|]. unfold tested; cbn; eauto.
    + apply (loop_ok_inv _ _ (tested (nz (norm2 b)) tol)) in H as (Hk & HQ); [split; [lia|auto]| |].
      * intros i s k' x' g'. apply qmr_body_ret.
      * intros s. unfold qmr_final, qmr_exit. eauto.
Qed.

(* budget 0: whatever is returned, x is the caller's x *)
Lemma run_zero_budget sv b x0 tol o x g :
  run mulA mulAT rows cols sv b x0 0 tol = Ok (o, x, g) -> x = x0.
Proof.
  destruct sv as [|itol| |]; cbn [run]; intros H.
  - unfold solve_cg in H. inv_res; cbn [iloop] in H; unfold cg_final, bicg_final, stab_final, qmr_final, qmr_exit in H; cbn in H; congruence.
  - unfold solve_bicg in H. inv_res; cbn [iloop] in H; unfold cg_final, bicg_final, stab_final, qmr_final, qmr_exit in H; cbn in H; congruence.
  - unfold solve_bicgstab in H. inv_res; cbn [iloop] in H; unfold cg_final, bicg_final, stab_final, qmr_final, qmr_exit in H; cbn in H; congruence.
  - unfold solve_qmr in H. inv_res; cbn [iloop] in H; unfold cg_final, bicg_final, stab_final, qmr_final, qmr_exit in H; cbn in H; congruence.
Qed.

End AnyArithRun.

(* observers used by the non-vacuity examples (closed terms evaluate under vm_compute) *)
Definition ok_k {A : SArith} (o : res (iout A)) : option nat :=
  match o with Ok (IOk k, _, _) => Some k | _ => None end.
Definition out_x {A : SArith} (o : res (iout A)) : option (list (T (SA A))) :=
  match o with Ok (_, x, _) => Some x | _ => None end.
Lemma ok_k_witness {A : SArith} (o : res (iout A)) k :
  ok_k o = Some k -> exists x g, o = Ok (IOk k, x, g).
Proof. destruct o as [[[[k'|e] x] g]|p]; cbn; intros H; try discriminate. injection H as ->. eauto. Qed.
Lemma out_x_witness {A : SArith} (o : res (iout A)) x :
  out_x o = Some x -> exists r g, o = Ok (r, x, g).
Proof. destruct o as [[[r x'] g]|p]; cbn; intros H; try discriminate. injection H as ->. eauto. Qed.

Section Startup.
Context {A : SArith}.
Notation F := (T (SA A)).
Variables (mulA mulAT : list F -> res (list F)) (rows cols : nat).

(* ANY arithmetic (floats included): if the start-up residual r = b - A x0 the code forms passes the
   code's test, every solver returns Ok 0 at once and leaves x0 untouched *)
Lemma run_startup_accepts sv (b x0 : list F) max tol ax r e :
  (forall itol, sv = BiCG itol -> itol = 1 \/ itol = 2) ->
  guards rows cols b x0 = Ok tt -> mulA x0 = Ok ax -> vsub b ax = Ok r ->
  div (norm2 r) (nz (norm2 b)) = Ok e -> leb e tol = true ->
  exists g, run mulA mulAT rows cols sv b x0 max tol = Ok (IOk 0, x0, g).
Proof.
  intros Hit Hg Eax Er Ee Ht.
  destruct sv as [|itol| |]; cbn [run].
  - unfold solve_cg. rewrite Hg, Eax. cbn [bind]. rewrite Er. cbn [bind]. rewrite Ee. cbn [bind]. rewrite Ht. eauto.
  - apply guards_Ok in Hg as Hl. destruct Hl as (Hb & Hc & Hx).
    apply vsub_Ok in Er as Hr. destruct Hr as (Hlr & Hrv).
    assert (Hrl : length r = rows) by (subst r; rewrite zipw_length; auto).
    unfold solve_bicg, bicg_start. rewrite Hg, Eax. cbn [bind]. rewrite Er. cbn [bind].
    destruct (Hit itol eq_refl) as [-> | ->]; cbn [Nat.eqb].
    + rewrite ident_pre_ok by (auto; apply zeros_length). cbn [bind fst snd].
      rewrite Ee. cbn [bind]. rewrite Ht. eauto.
    + rewrite ident_pre_ok by (auto; apply zeros_length). cbn [bind].
      rewrite ident_pre_ok by auto. cbn [bind fst snd].
      rewrite Ee. cbn [bind]. rewrite Ht. eauto.
  - unfold solve_bicgstab. rewrite Hg, Eax. cbn [bind]. rewrite Er. cbn [bind]. rewrite Ee. cbn [bind]. rewrite Ht. eauto.
  - unfold solve_qmr. rewrite Hg, Eax. cbn [bind]. rewrite Er. cbn [bind]. rewrite Ee. cbn [bind]. rewrite Ht. eauto.
Qed.
End Startup.

Section Lengths.
Context {A : SArith}.
Notation F := (T (SA A)).
Variables (mulA mulAT : list F -> res (list F)) (rows cols : nat).

(* the x-component of an output / of a step *)
Definition out_x_len (L : nat) (o : iout A) : Prop := length (snd (fst o)) = L.

Lemma vadd_len (u v w : list F) : vadd u v = Ok w -> length w = length u.
Proof. intros E. apply vadd_Ok in E as (Hl & ->). now apply zipw_length. Qed.

Ltac len_fin :=
  repeat match goal with
  | E : vadd ?u _ = Ok ?w |- _ => apply vadd_len in E
  | E : Ok _ = Ok _ |- _ => injection E; clear E; intros; subst
  end; cbn in *; try congruence; try lia.

Lemma loop_len {S} (body : nat -> S -> res (step_out S)) (final : S -> iout A) (xs : S -> list F) L fuel s0 o :
  (forall i s out, length (xs s) = L -> body i s = Ok out ->
     match out with Continue s' => length (xs s') = L | Return o => out_x_len L o end) ->
  (forall s, snd (fst (final s)) = xs s) ->
  length (xs s0) = L -> iloop body final fuel 1 s0 = Ok o -> out_x_len L o.
Proof.
  intros Hb Hf H0 E.
  destruct (iloop_char body final (fun _ s => length (xs s) = L)
              (fun i s s' HI Eb => Hb i s (Continue s') HI Eb) fuel 1 s0 o H0 E)
    as [(i & s & _ & HI & Eb)|(s & HI & ->)].
  - exact (Hb i s (Return o) HI Eb).
  - unfold out_x_len. now rewrite Hf.
Qed.

Lemma cg_body_len L tol normb i s out : length (cg_x s) = L -> cg_body mulA rows tol normb i s = Ok out ->
  match out with Continue s' => length (cg_x s') = L | Return o => out_x_len L o end.
Proof. intros HL. unfold cg_body. intros H. inv_res; unfold out_x_len; len_fin. Qed.

Lemma bicg_body_len L itol tol bnrm i s out : length (bi_x s) = L -> bicg_body mulA mulAT rows itol tol bnrm i s = Ok out ->
  match out with Continue s' => length (bi_x s') = L | Return o => out_x_len L o end.
Proof. intros HL. unfold bicg_body. intros H. inv_res; unfold out_x_len; len_fin. Qed.

Lemma stab_body_len L rtilde tol normb i s out : length (st_x s) = L -> stab_body mulA rows rtilde tol normb i s = Ok out ->
  match out with Continue s' => length (st_x s') = L | Return o => out_x_len L o end.
Proof. intros HL. unfold stab_body. intros H. inv_res; unfold out_x_len; len_fin. Qed.

Lemma qmr_body_len L tol normb i s out : length (q_x s) = L -> qmr_body mulA mulAT tol normb i s = Ok out ->
  match out with Continue s' => length (q_x s') = L | Return o => out_x_len L o end.
Proof. intros HL. unfold qmr_body, qmr_exit. intros H. inv_res; unfold out_x_len; len_fin. Qed.

(* whatever a solver returns, x has the length of the caller's x *)
Lemma run_length sv b x0 n tol o x g :
  run mulA mulAT rows cols sv b x0 n tol = Ok (o, x, g) -> length x = length x0.
Proof.
  intros H. change (out_x_len (length x0) (o, x, g)).
  destruct sv as [|itol| |]; cbn [run] in H.
  - unfold solve_cg in H. inv_res.
    + injection H as <- <- <-. reflexivity.
    + eapply (loop_len _ _ cg_x); [| | |exact H]; auto.
      intros i s out. apply cg_body_len.
  - unfold solve_bicg in H. inv_res.
    + injection H as <- <- <-. reflexivity.
    + eapply (loop_len _ _ bi_x); [| | |exact H]; auto.
      intros i s out. apply bicg_body_len.
  - unfold solve_bicgstab in H. inv_res.
    + injection H as <- <- <-. reflexivity.
    + eapply (loop_len _ _ st_x); [| | |exact H]; auto.
      intros i s out. apply stab_body_len.
  - unfold solve_qmr in H. inv_res.
    + injection H as <- <- <-. reflexivity.
    + eapply (loop_len _ _ q_x); [| | |exact H]; auto.
      intros i s out. apply qmr_body_len.
Qed.
End Lengths.
