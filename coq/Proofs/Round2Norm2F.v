(* Proofs/Round2Norm2F.v -- package round2, C15: the Euclidean norm of Model/Vector.v ([norm_2]) at the PRIMITIVE-FLOAT
   instance (SAF, IEEE binary64) through Flocq:

     norm_2_relative_error_float_lemma :  if the computed norm is FINITE and no square x_k * x_k underflows (each is 0 or at
       least 2^-1022 in size), then   FR (norm_2 v) = sqrt (Sum_k FR x_k ^2) * (1 + th),  |th| <= gam_{n+1},  u = 2^-53,
       for every length n with (n+1) u < 1.

   No hypothesis about rounding, overflow or the intermediate values remains: a finite square root forces a finite sum,
   a finite sum forces every square and every |x_k| to be finite, so no operation overflowed and each is the correctly
   rounded exact operation; the square root of a positive binary64 number is at least 2^-537 and cannot underflow.
   [fabs] (the inherent f64::abs of vec_f64.rs) is a parameter of the model; the theorem holds for every fabs that
   returns |x| exactly on finite results -- proved for PrimFloat.abs and for Signed::abs (f_abs, the one Model/Iter.v's
   norm2 uses). *)
From Coq Require Import ZArith Reals Lra Lia List Floats Bool Arith.
From Flocq Require Import Core BinarySingleNaN PrimFloat Relative.
From OV Require Import Base.Panic Base.Arith Base.RoundModel Model.Vector Model.Matrix Model.Iter Inst.FloatInst
  Proofs.Matrix Proofs.ComplexRound Proofs.RoundDot Proofs.RoundDotFloat Proofs.RoundSum Proofs.RoundNorm2.
Import ListNotations.
Local Open Scope R_scope.

Notation HP := Flocq.IEEE754.PrimFloat.Hprec.
Notation HM := Flocq.IEEE754.PrimFloat.Hmax.

(* the total standard-model square root on the reals *)
Definition Fsqrt (x : R) : R := if nounder (R_sqrt.sqrt x) then rnd64 (R_sqrt.sqrt x) else R_sqrt.sqrt x.

Lemma Fsqrt_ok x : 0 <= x -> exists d, Rabs d <= u64 /\ Fsqrt x = R_sqrt.sqrt x * (1 + d).
Proof.
  intros _. unfold Fsqrt. destruct (nounder (R_sqrt.sqrt x)) eqn:E; [|apply exact_ok].
  apply rnd64_rel_ex. now apply nounder_true.
Qed.

Definition S64r : SArith := SARm Fadd Fsub Fmul Fdiv Fsqrt.

(* a positive binary64 number is at least 2^-1074; its square root does not underflow *)
Lemma fmt_pos_ge (x : R) : generic_format radix2 (FLT_exp (-1074) 53) x -> 0 < x -> bpow radix2 (-1074) <= x.
Proof.
  intros F P. apply (generic_format_ge_bpow radix2 (FLT_exp (-1074) 53) (-1074)); auto.
  intros e. unfold FLT_exp. lia.
Qed.

Lemma sqrt_no_underflow (x : R) : generic_format radix2 (FLT_exp (-1074) 53) x -> 0 <= x -> no_underflow (R_sqrt.sqrt x).
Proof.
  intros F P. destruct (Req_dec x 0) as [->|NZ]; [left; apply sqrt_0|]. right.
  assert (L : bpow radix2 (-1074) <= x) by (apply fmt_pos_ge; [exact F|lra]).
  rewrite Rabs_pos_eq by apply sqrt_pos.
  apply Rle_trans with (R_sqrt.sqrt (bpow radix2 (-1074))); [|now apply sqrt_le_1_alt].
  replace (bpow radix2 (-1074)) with (bpow radix2 (-537) * bpow radix2 (-537)) by (rewrite <- bpow_plus; f_equal).
  rewrite sqrt_square by apply bpow_ge_0. apply bpow_le. lia.
Qed.

Lemma fsqrt_finite_inv (x : pfloat) : ffinite (PrimFloat.sqrt x) ->
  ffinite x /\ FR (PrimFloat.sqrt x) = rnd64 (R_sqrt.sqrt (FR x)).
Proof.
  unfold ffinite, FR. rewrite sqrt_equiv. intros H.
  destruct (Bsqrt_correct prec emax HP HM mode_NE (Prim2B x)) as (E1 & E2 & _).
  change (round radix2 (fexp prec emax) (round_mode mode_NE)) with rnd64 in E1.
  split; [|exact E1]. rewrite E2 in H.
  destruct (Prim2B x) as [s|s| |s m e B]; try discriminate; reflexivity.
Qed.

(* a finite square root: the argument is a zero or a positive number *)
Lemma fsqrt_finite_nonneg (x : pfloat) : ffinite (PrimFloat.sqrt x) -> 0 <= FR x.
Proof.
  unfold ffinite, FR. rewrite sqrt_equiv. intros H.
  destruct (Bsqrt_correct prec emax HP HM mode_NE (Prim2B x)) as (_ & E2 & _). rewrite E2 in H.
  destruct (Prim2B x) as [s|s| |s m e B]; try discriminate.
  - cbn. lra.
  - destruct s; [discriminate|]. cbn. apply Rlt_le, F2R_gt_0. reflexivity.
Qed.

(* a finite accumulated sum has finite terms *)
Lemma sum_n_finite_terms (n : nat) (f : nat -> pfloat) :
  ffinite (sum_n (A := AF) n f) -> forall k, (k < n)%nat -> ffinite (f k).
Proof.
  induction n as [|n IH]; intros Hf k Hk; [lia|].
  change (sum_n (A := AF) (S n) f) with (sum_n (A := AF) n f + f n)%float in Hf.
  destruct (fadd_finite_inv _ _ Hf) as (Fs & Fn & _).
  destruct (Nat.eq_dec k n) as [->|Hne]; [exact Fn|]. apply IH; [exact Fs|lia].
Qed.

Section Norm2Float.
Variable fabs : pfloat -> pfloat.
Hypothesis fabs_spec : forall x, ffinite (fabs x) -> ffinite x /\ FR (fabs x) = Rabs (FR x).

Lemma norm_2_float_sum (v : list pfloat) :
  norm_2 (F := SAF) fabs v
  = PrimFloat.sqrt (sum_n (A := AF) (length v) (fun k => (fabs (nth k v 0%float) * fabs (nth k v 0%float))%float)).
Proof.
  unfold norm_2. change (@Arith.sqrt SAF) with PrimFloat.sqrt. f_equal. change (@zero SAF) with 0%float.
  assert (G : forall (l : list pfloat) (a : pfloat),
            fold_left (fun acc x : pfloat => (acc + fabs x * fabs x)%float) l a
            = sum_acc (A := AF) a (length l) (fun k => (fabs (nth k l 0%float) * fabs (nth k l 0%float))%float)).
  { induction l as [|x l IH]; intros a; [reflexivity|].
    cbn [fold_left length]. rewrite (sum_acc_shift (A := AF)). cbn [nth]. apply IH. }
  etransitivity; [exact (G v 0%float)|]. apply (sum_acc_zero (A := AF)).
Qed.

Theorem norm_2_relative_error_float_gen (v : list pfloat) :
  ffinite (norm_2 (F := SAF) fabs v) ->
  (forall k, (k < length v)%nat -> no_underflow (FR (nth k v 0%float) * FR (nth k v 0%float))) ->
  INR (length v + 1) * u64 < 1 ->
  exists th, Rabs th <= g64 (length v + 1) /\
    FR (norm_2 (F := SAF) fabs v)
    = R_sqrt.sqrt (Rsum (length v) (fun k => FR (nth k v 0%float) * FR (nth k v 0%float))) * (1 + th).
Proof using fabs_spec.
  intros Fr Hu Hn. rewrite norm_2_float_sum in Fr |- *. set (n := length v) in *.
  set (a := fun k => fabs (nth k v 0%float)) in *.
  destruct (fsqrt_finite_inv _ Fr) as (Fs & Er).
  assert (Fa : forall k, (k < n)%nat -> ffinite (a k) /\ FR (a k) = Rabs (FR (nth k v 0%float))).
  { intros k Hk. pose proof (sum_n_finite_terms n (fun k => (a k * a k)%float) Fs k Hk) as Fp.
    destruct (fmul_finite_inv _ _ Fp) as (Fk & _ & _). split; [exact Fk|]. exact (proj2 (fabs_spec _ Fk)). }
  assert (Hu' : forall k, (k < n)%nat -> no_underflow (FR (a k) * FR (a k))).
  { intros k Hk. rewrite (proj2 (Fa k Hk)), <- Rabs_mult, Rabs_pos_eq by nra. now apply Hu. }
  pose proof (sum_n_float_transfer n a a Fs Hu') as Et.
  (* the real image of the computed norm is the norm of the real images in the standard-model arithmetic *)
  assert (Enorm : FR (PrimFloat.sqrt (sum_n (A := AF) n (fun k => (a k * a k)%float)))
                  = norm_2 (F := S64r) Rabs (map FR v)).
  { transitivity (Fsqrt (sum_n (A := A64r) (length (map FR v))
                           (fun k => Fmul (Rabs (nth k (map FR v) 0)) (Rabs (nth k (map FR v) 0)))));
      [|symmetry; exact (norm_2_sum Fadd Fsub Fmul Fdiv Fsqrt (map FR v))].
    rewrite map_length. fold n.
    assert (Er' : FR (PrimFloat.sqrt (sum_n (A := AF) n (fun k => (a k * a k)%float)))
                  = rnd64 (R_sqrt.sqrt (FR (sum_n (A := AF) n (fun k => (a k * a k)%float))))) by exact Er.
    set (S := sum_n (A := A64r) n (fun k => Fmul (Rabs (nth k (map FR v) 0)) (Rabs (nth k (map FR v) 0)))).
    assert (Es : FR (sum_n (A := AF) n (fun k => (a k * a k)%float)) = S).
    { etransitivity; [exact Et|]. apply (sum_n_ext (A := A64r)). intros k Hk.
      rewrite (proj2 (Fa k Hk)). rewrite <- (map_nth FR v 0%float k). reflexivity. }
    rewrite Er', Es. rewrite Es in Et.
    unfold Fsqrt.
    assert (FS : generic_format radix2 (FLT_exp (-1074) 53) S) by (rewrite <- Es; apply FR_fmt).
    assert (PS : 0 <= S).
    { rewrite <- Es. exact (fsqrt_finite_nonneg _ Fr). }
    pose proof (sqrt_no_underflow S FS PS) as NU. apply nounder_true in NU. rewrite NU. reflexivity. }
  destruct (norm_2_relative_error_lemma u64 u64_range Fadd Fsub Fmul Fdiv Fsqrt Fadd_ok Fmul_ok Fadd_0_mul Fsqrt_ok
              (map FR v)) as (th & Hth & E).
  { rewrite map_length. exact Hn. }
  rewrite map_length in Hth, E. exists th. split; [exact Hth|].
  etransitivity; [exact Enorm|]. etransitivity; [exact E|]. f_equal. f_equal. apply Rsum_ext. intros k Hk.
  now rewrite <- (map_nth FR v 0%float k).
Qed.

End Norm2Float.

(* the two absolute values of the code *)
Lemma prim_abs_spec (x : pfloat) : ffinite (PrimFloat.abs x) -> ffinite x /\ FR (PrimFloat.abs x) = Rabs (FR x).
Proof.
  unfold ffinite, FR. rewrite abs_equiv, is_finite_Babs, B2R_Babs. auto.
Qed.

Lemma f_abs_spec (x : pfloat) : ffinite (f_abs x) -> ffinite x /\ FR (f_abs x) = Rabs (FR x).
Proof.
  intros Fx.
  assert (F : ffinite x).
  { unfold f_abs in Fx. destruct (x <? 0)%float; [|exact Fx].
    unfold ffinite in *. rewrite opp_equiv, is_finite_Bopp in Fx. exact Fx. }
  split; [exact F|exact (proj2 (f_abs_FR x F))].
Qed.

Theorem norm_2_relative_error_float_lemma (v : list pfloat) :
  ffinite (norm_2 (F := SAF) PrimFloat.abs v) ->
  (forall k, (k < length v)%nat -> no_underflow (FR (nth k v 0%float) * FR (nth k v 0%float))) ->
  INR (length v + 1) * u64 < 1 ->
  exists th, Rabs th <= g64 (length v + 1) /\
    FR (norm_2 (F := SAF) PrimFloat.abs v)
    = R_sqrt.sqrt (Rsum (length v) (fun k => FR (nth k v 0%float) * FR (nth k v 0%float))) * (1 + th).
Proof. exact (norm_2_relative_error_float_gen PrimFloat.abs prim_abs_spec v). Qed.

(* the norm the Krylov solvers of Model/Iter.v compute (Signed::abs) *)
Theorem iter_norm2_relative_error_float_lemma (v : list pfloat) :
  ffinite (norm2 (A := SAF) v) ->
  (forall k, (k < length v)%nat -> no_underflow (FR (nth k v 0%float) * FR (nth k v 0%float))) ->
  INR (length v + 1) * u64 < 1 ->
  exists th, Rabs th <= g64 (length v + 1) /\
    FR (norm2 (A := SAF) v)
    = R_sqrt.sqrt (Rsum (length v) (fun k => FR (nth k v 0%float) * FR (nth k v 0%float))) * (1 + th).
Proof. exact (norm_2_relative_error_float_gen f_abs f_abs_spec v). Qed.

(* concrete data for the example: [3; -4] has norm exactly 5; [1; 1] has the inexact norm sqrt 2 *)
Definition ex_n2 : list pfloat := [1%float; 1%float].

Lemma ex_n2_conditions :
  ffinite (norm_2 (F := SAF) PrimFloat.abs ex_n2) /\
  (forall k, (k < length ex_n2)%nat -> no_underflow (FR (nth k ex_n2 0%float) * FR (nth k ex_n2 0%float))) /\
  INR (length ex_n2 + 1) * u64 < 1.
Proof.
  assert (E1 : FR 1%float = 1) by fr_eval.
  split; [apply ffinite_SF; vm_compute; reflexivity|]. split.
  - intros [|[|k]] Hk; cbn in Hk; try lia; cbn [nth ex_n2]; rewrite E1; apply no_underflow_ge1;
      rewrite Rabs_pos_eq; lra.
  - cbn [length ex_n2 Nat.add INR]. pose proof u64_small. lra.
Qed.
