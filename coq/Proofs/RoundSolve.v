(* Proofs/RoundSolve.v -- the triangular half of the backward-error claim of C01, stated about the solvers themselves
   (Model/Solve.v [solve_lu], [solve_basic] instantiated at the standard-model arithmetic [ARm]):

   solve_lu_triangular_backward_error_lemma:
       whenever solve_lu m b = Ok x in rounded arithmetic, with (LU, piv, P) the COMPUTED factors returned by
       lu_decomp m and pb the computed P*b:   (L + dL) y = pb  and  (U + dU) x = y   for some y, with
       |dL| <= gam n |L|, |dU| <= gam n |U| componentwise (L = unit lower triangle of LU, U = upper triangle of LU).
   solve_basic_triangular_backward_error_lemma:
       whenever solve_basic m b = Ok x, with (m', b') the COMPUTED result of gauss_with_pivot m b:
       (U + dU) x = b', |dU| <= gam n |U|, U = upper triangle of m'.

   The backward error of the factorisation / elimination itself -- how far L U is from P m -- is proved separately:
   Proofs/RoundLUError.v (Higham Thm 9.3) and, combined with the statements here, Proofs/RoundSolveLU.v and
   Proofs/RoundSolveBasic.v (Thm 9.4).  Not covered anywhere: the comparison of |L^||U^| with |A| (growth factor), and
   that IEEE binary64 obeys the standard model absent underflow/overflow beyond the functions of Proofs/Round*Float.v. *)
From Coq Require Import List Arith Lia Reals Lra Psatz Bool.
From OV Require Import Base.Panic Base.Arith Base.RoundModel Model.Vector Model.Matrix Model.Solve
  Proofs.Matrix Proofs.LUPrim Proofs.LUSolve Proofs.RoundDot Proofs.RoundMatvec Proofs.RoundBacksolve Proofs.RoundLUShape.
Import ListNotations.
Local Open Scope R_scope.

Section RoundSolve.
Variable u : R.
Hypothesis u_range : 0 <= u < 1.
Variables fadd fsub fmul fdiv : R -> R -> R.
Hypothesis fsub_ok : forall x y, exists d, Rabs d <= u /\ fsub x y = (x - y) * (1 + d).
Hypothesis fmul_ok : forall x y, exists d, Rabs d <= u /\ fmul x y = x * y * (1 + d).
Hypothesis fdiv_ok : forall x y, y <> 0 -> exists d, Rabs d <= u /\ fdiv x y = x / y * (1 + d).

Notation AR := (ARm fadd fsub fmul fdiv).
Notation gam := (gam u).
Notation rentry := (rentry fadd fsub fmul fdiv).
Notation triu := (triu fadd fsub fmul fdiv).
Notation tril1 := (tril1 fadd fsub fmul fdiv).

Theorem solve_lu_triangular_backward_error_lemma (m lu perm : matrix AR) (piv : nat) (b x : list R) :
  wf m -> INR (rows m) * u < 1 ->
  lu_decomp m = Ok (lu, piv, perm) ->
  (forall k, (k < rows m)%nat -> rentry lu k k <> 0) ->
  solve_lu m b = Ok x ->
  length x = rows m /\
  exists (pb y : list R) (dL dU : nat -> nat -> R),
    multiply perm b = Ok pb /\ length y = rows m /\
    (forall i j, (i < rows m)%nat -> (j < rows m)%nat -> Rabs (dL i j) <= gam (rows m) * Rabs (tril1 lu i j)) /\
    (forall i j, (i < rows m)%nat -> (j < rows m)%nat -> Rabs (dU i j) <= gam (rows m) * Rabs (triu lu i j)) /\
    (forall i, (i < rows m)%nat -> Rsum (rows m) (fun j => (tril1 lu i j + dL i j) * nth j y 0) = nth i pb 0) /\
    (forall i, (i < rows m)%nat -> Rsum (rows m) (fun j => (triu lu i j + dU i j) * nth j x 0) = nth i y 0).
Proof using u_range fsub_ok fmul_ok fdiv_ok.
  intros W Hn ELU Dg E. unfold solve_lu in E.
  match type of E with (if negb ?c then _ else _) = _ => destruct c eqn:Lb end; cbn [negb] in E; [|discriminate].
  apply Nat.eqb_eq in Lb.
  match type of E with (if negb ?c then _ else _) = _ => destruct c eqn:Sq end; cbn [negb] in E; [|discriminate].
  apply Nat.eqb_eq in Sq.
  rewrite ELU in E. cbn [bind] in E.
  destruct (lu_gen_shape (A := AR) true m lu perm piv W Sq ELU) as [(Wl & Rl & Cl) (Wp & Rp & Cp)].
  apply bind_ok in E as (pb & Epb & E). apply bind_ok in E as (y & Ey & E).
  destruct (multiply_Ok_rows fadd fsub fmul fdiv perm b pb Wp Epb) as (_ & Lpb & _).
  change (fwd_loop (A := AR) lu pb = Ok y) in Ey.
  assert (Sql : rows lu = cols lu) by congruence.
  destruct (fwdsolve_backward_error_lemma u u_range fadd fsub fmul fdiv fsub_ok fmul_ok lu pb y Wl Sql
              ltac:(congruence) ltac:(rewrite Rl; exact Hn) Ey) as (Ly & dL & HdL & RowsL).
  destruct (backsolve_backward_error_lemma u u_range fadd fsub fmul fdiv fsub_ok fmul_ok fdiv_ok lu y x Wl Sql
              Ly ltac:(rewrite Rl; exact Hn) ltac:(rewrite Rl; exact Dg) E) as (Lx & dU & HdU & RowsU).
  rewrite Rl in *. split; [exact Lx|].
  exists pb, y, dL, dU. repeat split; assumption.
Qed.

Theorem solve_basic_triangular_backward_error_lemma (m m' : matrix AR) (b b' x : list R) :
  wf m -> INR (rows m) * u < 1 ->
  gauss_with_pivot m b = Ok (m', b') ->
  (forall k, (k < rows m)%nat -> rentry m' k k <> 0) ->
  solve_basic m b = Ok x ->
  length x = rows m /\
  exists dU : nat -> nat -> R,
    (forall i j, (i < rows m)%nat -> (j < rows m)%nat -> Rabs (dU i j) <= gam (rows m) * Rabs (triu m' i j)) /\
    (forall i, (i < rows m)%nat -> Rsum (rows m) (fun j => (triu m' i j + dU i j) * nth j x 0) = nth i b' 0).
Proof using u_range fsub_ok fmul_ok fdiv_ok.
  intros W Hn EG Dg E. unfold solve_basic in E.
  match type of E with (if negb ?c then _ else _) = _ => destruct c eqn:Lb end; cbn [negb] in E; [|discriminate].
  apply Nat.eqb_eq in Lb.
  match type of E with (if negb ?c then _ else _) = _ => destruct c eqn:Sq end; cbn [negb] in E; [|discriminate].
  apply Nat.eqb_eq in Sq.
  rewrite EG in E. cbn [bind fst snd] in E.
  destruct (gauss_shape (A := AR) m m' b b' W Sq EG) as [(Wm & Rm & Cm) Lb'].
  assert (Sqm : rows m' = cols m') by congruence.
  destruct (backsolve_backward_error_lemma u u_range fadd fsub fmul fdiv fsub_ok fmul_ok fdiv_ok m' b' x Wm Sqm
              ltac:(rewrite Rm, Lb; exact Lb') ltac:(rewrite Rm; exact Hn) ltac:(rewrite Rm; exact Dg) E) as (Lx & dU & HdU & RowsU).
  rewrite Rm in *. split; [exact Lx|]. exists dU. split; assumption.
Qed.

End RoundSolve.
