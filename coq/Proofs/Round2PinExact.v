(* Proofs/Round2PinExact.v -- package round2, item 4: pin blocks (format of CONVENTIONS section 2) for the binary64
   exactness theorems of Proofs/Round2Lin.v (C15: linspace), Proofs/Round2Mesh.v (C19: Mesh1D::trapezium) and
   Proofs/Round2MeshB.v (C19: Mesh1D::get_interpolated_vars).  To be appended to Props/C15.v resp. Props/C19.v.
   FR x = real value of the primitive float x, ffinite x = x is finite (Proofs/ComplexRound.v); bpow radix2 e = 2^e. *)
From Coq Require Import ZArith Reals Floats Lia Lra List Bool Arith.
From Flocq Require Import Core.Core IEEE754.BinarySingleNaN IEEE754.PrimFloat.
From OV Require Import Base.Panic Base.Arith Model.Vector Model.Mesh Inst.FloatInst Proofs.MeshBase Proofs.MeshQuad
                       Proofs.ParDotFloat Proofs.ComplexRound Proofs.Round2Lin Proofs.Round2Mesh Proofs.Round2MeshB.
From OV Require gen.Params.
Import ListNotations.

(* ==== C15 ==== *)
(* linspace at binary64, first element: a + h*0 has the value of a whenever the step h = (b-a)/((n as f64) - 1) is
   finite, and is the float a itself unless a is a zero (a = -0, h >= 0 gives +0); the length is n.
   (For n = 1 the step is (b-a)/0 -- infinite or NaN -- and the only element is NaN: linspace_size1_nan.) *)
Theorem linspace_first_exact_float : forall (a b : PrimFloat.float) (n : nat) (v : list PrimFloat.float),
  linspace (F := SAF) a b n = Ok v -> (1 <= n)%nat -> ffinite a ->
  ffinite ((b - a) / (f_of_nat n - 1))%float ->
  length v = n /\ ffinite (nth 0 v 0%float) /\ FR (nth 0 v 0%float) = FR a /\
  (FR a <> 0%R -> nth 0 v 0%float = a).
Proof. intros a b n v E Hn Fa Fh. exact (linspace_first_exact_float_lemma a b n v E Hn Fa Fh). Qed.
Check linspace_first_exact_float : forall (a b : PrimFloat.float) (n : nat) (v : list PrimFloat.float),
  linspace (F := SAF) a b n = Ok v -> (1 <= n)%nat -> ffinite a ->
  ffinite ((b - a) / (f_of_nat n - 1))%float ->
  length v = n /\ ffinite (nth 0 v 0%float) /\ FR (nth 0 v 0%float) = FR a /\
  (FR a <> 0%R -> nth 0 v 0%float = a).
Print Assumptions linspace_first_exact_float.
Example linspace_first_exact_float_nonvacuous :
  linspace (F := SAF) 0.25%float 1.75%float 5 = Ok [0.25; 0.625; 1; 1.375; 1.75]%float /\ (1 <= 5)%nat /\
  ffinite 0.25%float /\ ffinite ((1.75 - 0.25) / (f_of_nat 5 - 1))%float /\ FR 0.25%float <> 0%R /\
  (* the sign caveat is real: for a = -0 the first element is +0 *)
  (exists v, linspace (F := SAF) (-0)%float 1%float 3 = Ok v /\
             PrimFloat.get_sign (nth 0 v 0%float) = false /\ PrimFloat.get_sign (-0)%float = true).
Proof.
  split; [vm_compute; reflexivity|]. split; [lia|]. split; [vm_compute; reflexivity|].
  split; [vm_compute; reflexivity|]. split; [|exact linspace_first_negzero].
  rewrite (Dy_FR _ _ _ ex_lin_a). simpl. lra.
Qed.

(* linspace at binary64 on dyadic endpoints a = ma 2^e, b = mb 2^e with size 2^k + 1: no operation rounds; element i
   is EXACTLY the real grid point a + (b - a) i / (size - 1), the last element is b itself.
   The bounds say: the numerators of b - a, a, b, scaled to the grid 2^(e-k) of the elements, fit in 53 bits, and
   the step (b-a)/2^k does not underflow. *)
Theorem linspace_exact_dyadic_float : forall (a b : PrimFloat.float) (ma mb e : Z) (k : nat) (v : list PrimFloat.float),
  ffinite a -> FR a = (IZR ma * bpow radix2 e)%R -> ffinite b -> FR b = (IZR mb * bpow radix2 e)%R ->
  (k <= 52)%nat -> (-1074 + Z.of_nat k <= e <= 971)%Z ->
  (Z.abs (mb - ma) * 2 ^ Z.of_nat k < 2 ^ 53)%Z ->
  (Z.abs ma * 2 ^ Z.of_nat k < 2 ^ 53)%Z -> (Z.abs mb * 2 ^ Z.of_nat k < 2 ^ 53)%Z ->
  linspace (F := SAF) a b (2 ^ k + 1) = Ok v ->
  length v = (2 ^ k + 1)%nat /\
  (forall i, (i <= 2 ^ k)%nat ->
     ffinite (nth i v 0%float) /\
     FR (nth i v 0%float) = (FR a + (FR b - FR a) * INR i / INR (2 ^ k))%R) /\
  FR (nth (2 ^ k) v 0%float) = FR b /\
  (FR b <> 0%R -> nth (2 ^ k) v 0%float = b).
Proof.
  intros a b ma mb e k v Fa Ra Fb Rb Hk He Hd Ha Hb E.
  exact (linspace_exact_dyadic_float_lemma a b ma mb e k v Fa Ra Fb Rb Hk He Hd Ha Hb E).
Qed.
Check linspace_exact_dyadic_float : forall (a b : PrimFloat.float) (ma mb e : Z) (k : nat) (v : list PrimFloat.float),
  ffinite a -> FR a = (IZR ma * bpow radix2 e)%R -> ffinite b -> FR b = (IZR mb * bpow radix2 e)%R ->
  (k <= 52)%nat -> (-1074 + Z.of_nat k <= e <= 971)%Z ->
  (Z.abs (mb - ma) * 2 ^ Z.of_nat k < 2 ^ 53)%Z ->
  (Z.abs ma * 2 ^ Z.of_nat k < 2 ^ 53)%Z -> (Z.abs mb * 2 ^ Z.of_nat k < 2 ^ 53)%Z ->
  linspace (F := SAF) a b (2 ^ k + 1) = Ok v ->
  length v = (2 ^ k + 1)%nat /\
  (forall i, (i <= 2 ^ k)%nat ->
     ffinite (nth i v 0%float) /\
     FR (nth i v 0%float) = (FR a + (FR b - FR a) * INR i / INR (2 ^ k))%R) /\
  FR (nth (2 ^ k) v 0%float) = FR b /\
  (FR b <> 0%R -> nth (2 ^ k) v 0%float = b).
Print Assumptions linspace_exact_dyadic_float.
(* a = 1/4, b = 7/4 on the grid 2^-2, size 2^2 + 1; and the hypotheses fail to hold for linspace(0,1,50), whose last
   element is 1 - 2^-53 *)
Example linspace_exact_dyadic_float_nonvacuous :
  ffinite 0.25%float /\ FR 0.25%float = (IZR 1 * bpow radix2 (-2))%R /\
  ffinite 1.75%float /\ FR 1.75%float = (IZR 7 * bpow radix2 (-2))%R /\
  (2 <= 52)%nat /\ (-1074 + Z.of_nat 2 <= -2 <= 971)%Z /\
  (Z.abs (7 - 1) * 2 ^ Z.of_nat 2 < 2 ^ 53)%Z /\ (Z.abs 1 * 2 ^ Z.of_nat 2 < 2 ^ 53)%Z /\
  (Z.abs 7 * 2 ^ Z.of_nat 2 < 2 ^ 53)%Z /\
  linspace (F := SAF) 0.25%float 1.75%float (2 ^ 2 + 1) = Ok [0.25; 0.625; 1; 1.375; 1.75]%float /\
  (exists v, linspace (F := SAF) 0%float 1%float 50 = Ok v /\ PrimFloat.eqb (nth 49 v 0%float) 1%float = false /\
             PrimFloat.ltb (nth 49 v 0%float) 1%float = true).
Proof.
  split; [exact (proj1 ex_lin_a)|]. split; [exact (proj2 ex_lin_a)|].
  split; [exact (proj1 ex_lin_b)|]. split; [exact (proj2 ex_lin_b)|].
  split; [lia|]. split; [simpl; lia|]. split; [simpl; lia|]. split; [simpl; lia|]. split; [simpl; lia|].
  split; [exact linspace_exact_dyadic_example|exact linspace_last_not_b].
Qed.

(* linspace at binary64 for ANY size n >= 2 when the step is exact: endpoints ma 2^e, mb 2^e on a common exponent with
   (n - 1) | (mb - ma) -- e.g. integer endpoints whose difference is a multiple of the number of intervals
   (linspace(0,10,11)); the dyadic case above is the instance n - 1 = 2^k on the grid 2^(e-k).  Every element is
   exactly (ma + d i) 2^e = a + (b - a) i / (n - 1), the last one is b itself. *)
Theorem linspace_exact_divisible_float : forall (a b : PrimFloat.float) (ma mb d e : Z) (n : nat) (v : list PrimFloat.float),
  ffinite a -> FR a = (IZR ma * bpow radix2 e)%R -> ffinite b -> FR b = (IZR mb * bpow radix2 e)%R ->
  (2 <= n)%nat -> (Z.of_nat n < 2 ^ 53)%Z -> (-1074 <= e <= 971)%Z ->
  (mb - ma = d * (Z.of_nat n - 1))%Z ->
  (Z.abs (mb - ma) < 2 ^ 53)%Z -> (Z.abs ma < 2 ^ 53)%Z -> (Z.abs mb < 2 ^ 53)%Z ->
  linspace (F := SAF) a b n = Ok v ->
  length v = n /\
  (forall i, (i < n)%nat ->
     ffinite (nth i v 0%float) /\
     FR (nth i v 0%float) = (FR a + (FR b - FR a) * INR i / INR (n - 1))%R /\
     FR (nth i v 0%float) = (IZR (ma + d * Z.of_nat i) * bpow radix2 e)%R) /\
  FR (nth (n - 1) v 0%float) = FR b /\
  (FR b <> 0%R -> nth (n - 1) v 0%float = b).
Proof.
  intros a b ma mb d e n v Fa Ra Fb Rb Hn Hn' He Hdiv Hd Ha Hb E.
  exact (linspace_exact_divisible_float_lemma a b ma mb d e n v Fa Ra Fb Rb Hn Hn' He Hdiv Hd Ha Hb E).
Qed.
Check linspace_exact_divisible_float : forall (a b : PrimFloat.float) (ma mb d e : Z) (n : nat) (v : list PrimFloat.float),
  ffinite a -> FR a = (IZR ma * bpow radix2 e)%R -> ffinite b -> FR b = (IZR mb * bpow radix2 e)%R ->
  (2 <= n)%nat -> (Z.of_nat n < 2 ^ 53)%Z -> (-1074 <= e <= 971)%Z ->
  (mb - ma = d * (Z.of_nat n - 1))%Z ->
  (Z.abs (mb - ma) < 2 ^ 53)%Z -> (Z.abs ma < 2 ^ 53)%Z -> (Z.abs mb < 2 ^ 53)%Z ->
  linspace (F := SAF) a b n = Ok v ->
  length v = n /\
  (forall i, (i < n)%nat ->
     ffinite (nth i v 0%float) /\
     FR (nth i v 0%float) = (FR a + (FR b - FR a) * INR i / INR (n - 1))%R /\
     FR (nth i v 0%float) = (IZR (ma + d * Z.of_nat i) * bpow radix2 e)%R) /\
  FR (nth (n - 1) v 0%float) = FR b /\
  (FR b <> 0%R -> nth (n - 1) v 0%float = b).
Print Assumptions linspace_exact_divisible_float.
(* a = -3, b = 12, n = 6: step 3 *)
Example linspace_exact_divisible_float_nonvacuous :
  ffinite (-3)%float /\ FR (-3)%float = (IZR (-3) * bpow radix2 0)%R /\
  ffinite 12%float /\ FR 12%float = (IZR 12 * bpow radix2 0)%R /\
  (2 <= 6)%nat /\ (Z.of_nat 6 < 2 ^ 53)%Z /\ (-1074 <= 0 <= 971)%Z /\
  (12 - -3 = 3 * (Z.of_nat 6 - 1))%Z /\
  (Z.abs (12 - -3) < 2 ^ 53)%Z /\ (Z.abs (-3) < 2 ^ 53)%Z /\ (Z.abs 12 < 2 ^ 53)%Z /\
  linspace (F := SAF) (-3)%float 12%float 6 = Ok [-3; 0; 3; 6; 9; 12]%float.
Proof.
  split; [exact (proj1 ex_lin_m3)|]. split; [exact (proj2 ex_lin_m3)|].
  split; [exact (proj1 ex_lin_12)|]. split; [exact (proj2 ex_lin_12)|].
  split; [lia|]. split; [simpl; lia|]. split; [lia|]. split; [simpl; lia|].
  split; [simpl; lia|]. split; [simpl; lia|]. split; [simpl; lia|]. exact linspace_exact_divisible_example.
Qed.

(* the step h = (b - a)/((n as f64) - 1) of linspace is finite whenever b - a is finite and 2 <= n < 2^53
   (discharges the hypothesis of linspace_first_exact_float; for n = 1 the step is a division by zero) *)
Theorem linspace_step_finite_float : forall (a b : PrimFloat.float) (n : nat),
  ffinite (b - a)%float -> (2 <= n)%nat -> (Z.of_nat n < 2 ^ 53)%Z ->
  ffinite ((b - a) / (f_of_nat n - 1))%float.
Proof. intros a b n Fd Hn Hn'. exact (lin_h_finite a b n Fd Hn Hn'). Qed.
Check linspace_step_finite_float : forall (a b : PrimFloat.float) (n : nat),
  ffinite (b - a)%float -> (2 <= n)%nat -> (Z.of_nat n < 2 ^ 53)%Z ->
  ffinite ((b - a) / (f_of_nat n - 1))%float.
Print Assumptions linspace_step_finite_float.
Example linspace_step_finite_float_nonvacuous :
  ffinite (1.75 - 0.25)%float /\ (2 <= 5)%nat /\ (Z.of_nat 5 < 2 ^ 53)%Z /\
  (* n = 1: the step is not finite *)
  PrimFloat.is_finite ((1.75 - 0.25) / (f_of_nat 1 - 1))%float = false.
Proof. split; [vm_compute; reflexivity|]. split; [lia|]. split; [simpl; lia|vm_compute; reflexivity]. Qed.

(* ==== C19 ==== *)
(* Mesh1D::trapezium at binary64 ("integer-valued, so f64 results are exact"): node coordinates X_k 2^e and nodal
   data F_k 2^g (integer-valued data: g = 0; integer nodes: e = 0) with cell widths, neighbour sums and the running
   sum of |numerators| below 2^53: the result is finite and EXACTLY the value of the rule over the reals. *)
Theorem trapezium_exact_float : forall (m : mesh1 AF PrimFloat.float) (var : nat) (X F : nat -> Z) (e g : Z),
  let n := length (m1_nodes m) in
  let x := fun k => nth k (m1_nodes m) 0%float in
  let f := fun k => nth var (nth k (m1_vars m) []) 0%float in
  let c := fun k => ((X (k + 1)%nat - X k) * (F k + F (k + 1)%nat))%Z in
  wf1 m -> (var < m1_nvars m)%nat -> (1 <= n)%nat ->
  (forall k, (k < n)%nat -> ffinite (x k) /\ FR (x k) = (IZR (X k) * bpow radix2 e)%R) ->
  (forall k, (k < n)%nat -> ffinite (f k) /\ FR (f k) = (IZR (F k) * bpow radix2 g)%R) ->
  (-1073 <= e <= 971)%Z -> (-1074 <= g <= 971)%Z -> (-1073 <= e + g <= 972)%Z ->
  (forall k, (k + 1 < n)%nat -> (Z.abs (X (k + 1)%nat - X k) < 2 ^ 53)%Z) ->
  (forall k, (k + 1 < n)%nat -> (Z.abs (F k + F (k + 1)%nat) < 2 ^ 53)%Z) ->
  (zsum_n (n - 1) (fun k => Z.abs (c k)) < 2 ^ 53)%Z ->
  exists r, trapezium1 (A := AF) 0.5%float m var = Ok r /\ ffinite r /\
            FR r = sumR (n - 1) (fun k => (/ 2 * (FR (x (k + 1)%nat) - FR (x k)) * (FR (f k) + FR (f (k + 1)%nat)))%R) /\
            FR r = (IZR (zsum_n (n - 1) c) * bpow radix2 (e + g - 1))%R.
Proof.
  intros m var X F e g n x f c Hwf Hv Hn HX HF He Hg Heg Hdx Hs Hb.
  exact (trapezium_exact_float_lemma m var X F e g Hwf Hv Hn HX HF He Hg Heg Hdx Hs Hb).
Qed.
Check trapezium_exact_float : forall (m : mesh1 AF PrimFloat.float) (var : nat) (X F : nat -> Z) (e g : Z),
  let n := length (m1_nodes m) in
  let x := fun k => nth k (m1_nodes m) 0%float in
  let f := fun k => nth var (nth k (m1_vars m) []) 0%float in
  let c := fun k => ((X (k + 1)%nat - X k) * (F k + F (k + 1)%nat))%Z in
  wf1 m -> (var < m1_nvars m)%nat -> (1 <= n)%nat ->
  (forall k, (k < n)%nat -> ffinite (x k) /\ FR (x k) = (IZR (X k) * bpow radix2 e)%R) ->
  (forall k, (k < n)%nat -> ffinite (f k) /\ FR (f k) = (IZR (F k) * bpow radix2 g)%R) ->
  (-1073 <= e <= 971)%Z -> (-1074 <= g <= 971)%Z -> (-1073 <= e + g <= 972)%Z ->
  (forall k, (k + 1 < n)%nat -> (Z.abs (X (k + 1)%nat - X k) < 2 ^ 53)%Z) ->
  (forall k, (k + 1 < n)%nat -> (Z.abs (F k + F (k + 1)%nat) < 2 ^ 53)%Z) ->
  (zsum_n (n - 1) (fun k => Z.abs (c k)) < 2 ^ 53)%Z ->
  exists r, trapezium1 (A := AF) 0.5%float m var = Ok r /\ ffinite r /\
            FR r = sumR (n - 1) (fun k => (/ 2 * (FR (x (k + 1)%nat) - FR (x k)) * (FR (f k) + FR (f (k + 1)%nat)))%R) /\
            FR r = (IZR (zsum_n (n - 1) c) * bpow radix2 (e + g - 1))%R.
Print Assumptions trapezium_exact_float.
(* nodes 0, 1/4, 3/4, 2 (grid 2^-2), integer data 3, -5, 7, 2: the rule gives 47/8 = 5.875 exactly *)
Example trapezium_exact_float_nonvacuous :
  let m := ex_tmesh in
  let n := length (m1_nodes m) in
  let x := fun k => nth k (m1_nodes m) 0%float in
  let f := fun k => nth 0 (nth k (m1_vars m) []) 0%float in
  let c := fun k => ((ex_tX (k + 1)%nat - ex_tX k) * (ex_tF k + ex_tF (k + 1)%nat))%Z in
  wf1 m /\ (0 < m1_nvars m)%nat /\ (1 <= n)%nat /\
  (forall k, (k < n)%nat -> ffinite (x k) /\ FR (x k) = (IZR (ex_tX k) * bpow radix2 (-2))%R) /\
  (forall k, (k < n)%nat -> ffinite (f k) /\ FR (f k) = (IZR (ex_tF k) * bpow radix2 0)%R) /\
  (-1073 <= -2 <= 971)%Z /\ (-1074 <= 0 <= 971)%Z /\ (-1073 <= -2 + 0 <= 972)%Z /\
  (forall k, (k + 1 < n)%nat -> (Z.abs (ex_tX (k + 1)%nat - ex_tX k) < 2 ^ 53)%Z) /\
  (forall k, (k + 1 < n)%nat -> (Z.abs (ex_tF k + ex_tF (k + 1)%nat) < 2 ^ 53)%Z) /\
  (zsum_n (n - 1) (fun k => Z.abs (c k)) < 2 ^ 53)%Z /\
  trapezium1 (A := AF) 0.5%float m 0 = Ok 5.875%float.
Proof.
  cbv zeta. split; [exact ex_tmesh_wf|]. split; [cbn; lia|]. split; [cbn; lia|].
  split; [exact ex_tmesh_nodes|]. split; [exact ex_tmesh_vals|].
  split; [lia|]. split; [lia|]. split; [lia|].
  split; [exact ex_tmesh_dx|]. split; [exact ex_tmesh_df|]. split; [vm_compute; reflexivity|exact ex_tmesh_value].
Qed.

(* Mesh2D::trapezium at binary64: coordinates X_i 2^ex, Y_j 2^ey, nodal data F_ij 2^g (integer-valued: g = 0); cell
   sizes, the partial sums of the four corner values and the running sum of |numerators| below 2^53: the single
   running sum over both loops is exact and equals the double sum of the rule over the reals. *)
Theorem trapezium2_exact_float : forall (m : mesh2 AF PrimFloat.float) (var : nat) (X Y : nat -> Z) (F : nat -> nat -> Z)
  (ex ey g : Z),
  let nx := m2_nx m in let ny := m2_ny m in
  let x := fun i => nth i (m2_x m) 0%float in
  let y := fun j => nth j (m2_y m) 0%float in
  let f := fun i j => nth var (nth (i * m2_ny m + j) (m2_vars m) []) 0%float in
  let c := fun i j => ((X (i + 1)%nat - X i) * (Y (j + 1)%nat - Y j)
                       * (F i j + F (i + 1)%nat j + F i (j + 1)%nat + F (i + 1)%nat (j + 1)%nat))%Z in
  wf2 m -> (var < m2_nvars m)%nat -> (1 <= nx)%nat -> (1 <= ny)%nat ->
  (forall i, (i < nx)%nat -> ffinite (x i) /\ FR (x i) = (IZR (X i) * bpow radix2 ex)%R) ->
  (forall j, (j < ny)%nat -> ffinite (y j) /\ FR (y j) = (IZR (Y j) * bpow radix2 ey)%R) ->
  (forall i j, (i < nx)%nat -> (j < ny)%nat -> ffinite (f i j) /\ FR (f i j) = (IZR (F i j) * bpow radix2 g)%R) ->
  (-1072 <= ex <= 971)%Z -> (-1074 <= ey <= 971)%Z -> (-1074 <= g <= 971)%Z ->
  (-1072 <= ex + ey <= 973)%Z -> (-1072 <= ex + ey + g <= 973)%Z ->
  (forall i, (i + 1 < nx)%nat -> (Z.abs (X (i + 1)%nat - X i) < 2 ^ 53)%Z) ->
  (forall j, (j + 1 < ny)%nat -> (Z.abs (Y (j + 1)%nat - Y j) < 2 ^ 53)%Z) ->
  (forall i j, (i + 1 < nx)%nat -> (j + 1 < ny)%nat ->
     (Z.abs ((X (i + 1)%nat - X i) * (Y (j + 1)%nat - Y j)) < 2 ^ 53)%Z) ->
  (forall i j, (i + 1 < nx)%nat -> (j + 1 < ny)%nat ->
     (Z.abs (F i j + F (i + 1)%nat j) < 2 ^ 53 /\ Z.abs (F i j + F (i + 1)%nat j + F i (j + 1)%nat) < 2 ^ 53 /\
      Z.abs (F i j + F (i + 1)%nat j + F i (j + 1)%nat + F (i + 1)%nat (j + 1)%nat) < 2 ^ 53)%Z) ->
  (zsum_n (nx - 1) (fun i => zsum_n (ny - 1) (fun j => Z.abs (c i j))) < 2 ^ 53)%Z ->
  exists r, trapezium2 (A := AF) 0.25%float m var = Ok r /\ ffinite r /\
    FR r = sumR (nx - 1) (fun i => sumR (ny - 1) (fun j =>
             (/ 4 * (FR (x (i + 1)%nat) - FR (x i)) * (FR (y (j + 1)%nat) - FR (y j))
             * (FR (f i j) + FR (f (i + 1)%nat j) + FR (f i (j + 1)%nat) + FR (f (i + 1)%nat (j + 1)%nat)))%R)) /\
    FR r = (IZR (zsum_n (nx - 1) (fun i => zsum_n (ny - 1) (c i))) * bpow radix2 (ex + ey + g - 2))%R.
Proof.
  intros m var X Y F ex ey g nx ny x y f c Hwf Hv Hnx Hny HX HY HF Hex Hey Hg Hxy Hxyg Hdx Hdy Hdxy HS Hb.
  exact (trapezium2_exact_float_lemma m var X Y F ex ey g Hwf Hv Hnx Hny HX HY HF Hex Hey Hg Hxy Hxyg Hdx Hdy Hdxy HS Hb).
Qed.
Check trapezium2_exact_float : forall (m : mesh2 AF PrimFloat.float) (var : nat) (X Y : nat -> Z) (F : nat -> nat -> Z)
  (ex ey g : Z),
  let nx := m2_nx m in let ny := m2_ny m in
  let x := fun i => nth i (m2_x m) 0%float in
  let y := fun j => nth j (m2_y m) 0%float in
  let f := fun i j => nth var (nth (i * m2_ny m + j) (m2_vars m) []) 0%float in
  let c := fun i j => ((X (i + 1)%nat - X i) * (Y (j + 1)%nat - Y j)
                       * (F i j + F (i + 1)%nat j + F i (j + 1)%nat + F (i + 1)%nat (j + 1)%nat))%Z in
  wf2 m -> (var < m2_nvars m)%nat -> (1 <= nx)%nat -> (1 <= ny)%nat ->
  (forall i, (i < nx)%nat -> ffinite (x i) /\ FR (x i) = (IZR (X i) * bpow radix2 ex)%R) ->
  (forall j, (j < ny)%nat -> ffinite (y j) /\ FR (y j) = (IZR (Y j) * bpow radix2 ey)%R) ->
  (forall i j, (i < nx)%nat -> (j < ny)%nat -> ffinite (f i j) /\ FR (f i j) = (IZR (F i j) * bpow radix2 g)%R) ->
  (-1072 <= ex <= 971)%Z -> (-1074 <= ey <= 971)%Z -> (-1074 <= g <= 971)%Z ->
  (-1072 <= ex + ey <= 973)%Z -> (-1072 <= ex + ey + g <= 973)%Z ->
  (forall i, (i + 1 < nx)%nat -> (Z.abs (X (i + 1)%nat - X i) < 2 ^ 53)%Z) ->
  (forall j, (j + 1 < ny)%nat -> (Z.abs (Y (j + 1)%nat - Y j) < 2 ^ 53)%Z) ->
  (forall i j, (i + 1 < nx)%nat -> (j + 1 < ny)%nat ->
     (Z.abs ((X (i + 1)%nat - X i) * (Y (j + 1)%nat - Y j)) < 2 ^ 53)%Z) ->
  (forall i j, (i + 1 < nx)%nat -> (j + 1 < ny)%nat ->
     (Z.abs (F i j + F (i + 1)%nat j) < 2 ^ 53 /\ Z.abs (F i j + F (i + 1)%nat j + F i (j + 1)%nat) < 2 ^ 53 /\
      Z.abs (F i j + F (i + 1)%nat j + F i (j + 1)%nat + F (i + 1)%nat (j + 1)%nat) < 2 ^ 53)%Z) ->
  (zsum_n (nx - 1) (fun i => zsum_n (ny - 1) (fun j => Z.abs (c i j))) < 2 ^ 53)%Z ->
  exists r, trapezium2 (A := AF) 0.25%float m var = Ok r /\ ffinite r /\
    FR r = sumR (nx - 1) (fun i => sumR (ny - 1) (fun j =>
             (/ 4 * (FR (x (i + 1)%nat) - FR (x i)) * (FR (y (j + 1)%nat) - FR (y j))
             * (FR (f i j) + FR (f (i + 1)%nat j) + FR (f i (j + 1)%nat) + FR (f (i + 1)%nat (j + 1)%nat)))%R)) /\
    FR r = (IZR (zsum_n (nx - 1) (fun i => zsum_n (ny - 1) (c i))) * bpow radix2 (ex + ey + g - 2))%R.
Print Assumptions trapezium2_exact_float.
(* x in {0, 1/2}, y in {0, 1, 3}, data 1 + 8x + 3y + 16xy at the nodes (integers): the rule gives 81/4 exactly *)
Example trapezium2_exact_float_nonvacuous :
  let m := ex_tmesh2 in
  let nx := m2_nx m in let ny := m2_ny m in
  let x := fun i => nth i (m2_x m) 0%float in
  let y := fun j => nth j (m2_y m) 0%float in
  let f := fun i j => nth 0 (nth (i * m2_ny m + j) (m2_vars m) []) 0%float in
  wf2 m /\ (0 < m2_nvars m)%nat /\ (1 <= nx)%nat /\ (1 <= ny)%nat /\
  (forall i, (i < nx)%nat -> ffinite (x i) /\ FR (x i) = (IZR (ex_t2X i) * bpow radix2 (-1))%R) /\
  (forall j, (j < ny)%nat -> ffinite (y j) /\ FR (y j) = (IZR (ex_t2Y j) * bpow radix2 0)%R) /\
  (forall i j, (i < nx)%nat -> (j < ny)%nat -> ffinite (f i j) /\ FR (f i j) = (IZR (ex_t2F i j) * bpow radix2 0)%R) /\
  (-1072 <= -1 <= 971)%Z /\ (-1074 <= 0 <= 971)%Z /\ (-1072 <= -1 + 0 <= 973)%Z /\ (-1072 <= -1 + 0 + 0 <= 973)%Z /\
  (forall i, (i + 1 < nx)%nat -> (Z.abs (ex_t2X (i + 1)%nat - ex_t2X i) < 2 ^ 53)%Z) /\
  (forall j, (j + 1 < ny)%nat -> (Z.abs (ex_t2Y (j + 1)%nat - ex_t2Y j) < 2 ^ 53)%Z) /\
  (forall i j, (i + 1 < nx)%nat -> (j + 1 < ny)%nat ->
     (Z.abs ((ex_t2X (i + 1)%nat - ex_t2X i) * (ex_t2Y (j + 1)%nat - ex_t2Y j)) < 2 ^ 53)%Z) /\
  (forall i j, (i + 1 < nx)%nat -> (j + 1 < ny)%nat ->
     (Z.abs (ex_t2F i j + ex_t2F (i + 1)%nat j) < 2 ^ 53 /\
      Z.abs (ex_t2F i j + ex_t2F (i + 1)%nat j + ex_t2F i (j + 1)%nat) < 2 ^ 53 /\
      Z.abs (ex_t2F i j + ex_t2F (i + 1)%nat j + ex_t2F i (j + 1)%nat + ex_t2F (i + 1)%nat (j + 1)%nat) < 2 ^ 53)%Z) /\
  (zsum_n (nx - 1) (fun i => zsum_n (ny - 1) (fun j => Z.abs
     ((ex_t2X (i + 1)%nat - ex_t2X i) * (ex_t2Y (j + 1)%nat - ex_t2Y j)
      * (ex_t2F i j + ex_t2F (i + 1)%nat j + ex_t2F i (j + 1)%nat + ex_t2F (i + 1)%nat (j + 1)%nat)))) < 2 ^ 53)%Z /\
  trapezium2 (A := AF) 0.25%float m 0 = Ok 20.25%float.
Proof.
  cbv zeta. split; [exact ex_tmesh2_wf|]. split; [cbn; lia|]. split; [cbn; lia|]. split; [cbn; lia|].
  split; [exact ex_tmesh2_x|]. split; [exact ex_tmesh2_y|]. split; [exact ex_tmesh2_f|].
  split; [lia|]. split; [lia|]. split; [lia|]. split; [lia|].
  split; [intros i Hi; destruct i as [|i]; [cbn; lia|cbn in Hi; lia]|].
  split; [intros j Hj; do 2 (destruct j as [|j]; [cbn; lia|]); cbn in Hj; lia|].
  split; [intros i j Hi Hj; destruct i as [|i]; [|cbn in Hi; lia]; do 2 (destruct j as [|j]; [cbn; lia|]); cbn in Hj; lia|].
  split; [intros i j Hi Hj; destruct i as [|i]; [|cbn in Hi; lia]; do 2 (destruct j as [|j]; [cbn; lia|]); cbn in Hj; lia|].
  split; [vm_compute; reflexivity|exact ex_tmesh2_value].
Qed.

(* Mesh1D::get_interpolated_vars at binary64 with the code's window (MESH_SNAP = 1e-7): node coordinates X_k 2^e on
   a grid no finer than the window (e >= -23), strictly increasing; x = Xx 2^e on the grid, j the LAST cell containing
   it; cell j of width 2^P 2^e with nodal data F 2^g (integer-valued: g = 0) whose numerators, scaled by 2^P, fit in
   53 bits.  Then the result is finite and EXACTLY the linear interpolant over the reals; at the left node of the
   cell it returns that node's values and at the last node of the mesh the last node's values.
   (Every cell is tested and a later matching cell overwrites: at an interior node both neighbouring cells match.) *)
Theorem interp_exact_float : forall (m : mesh1 AF PrimFloat.float) (x : PrimFloat.float) (X F0 F1 : nat -> Z)
  (Xx e g P : Z) (j : nat),
  let n := length (m1_nodes m) in
  let xs := fun k => nth k (m1_nodes m) 0%float in
  let L := fun v => nth v (nth j (m1_vars m) []) 0%float in
  let Rr := fun v => nth v (nth (j + 1) (m1_vars m) []) 0%float in
  wf1 m -> (j + 1 < n)%nat ->
  (forall k, (k < n)%nat -> ffinite (xs k) /\ FR (xs k) = (IZR (X k) * bpow radix2 e)%R) ->
  (forall k, (k + 1 < n)%nat -> (X k < X (k + 1)%nat)%Z) ->
  ffinite x -> FR x = (IZR Xx * bpow radix2 e)%R ->
  (forall k, (k < n)%nat -> (Z.abs (X k - Xx) < 2 ^ 53)%Z) ->
  (-23 <= e <= 971)%Z ->
  (X j <= Xx <= X (j + 1)%nat)%Z -> (Xx = X (j + 1)%nat -> (j + 2 = n)%nat) ->
  (X (j + 1)%nat - X j = 2 ^ P)%Z -> (0 <= P <= 52)%Z ->
  (forall v, (v < m1_nvars m)%nat -> ffinite (L v) /\ FR (L v) = (IZR (F0 v) * bpow radix2 g)%R) ->
  (forall v, (v < m1_nvars m)%nat -> ffinite (Rr v) /\ FR (Rr v) = (IZR (F1 v) * bpow radix2 g)%R) ->
  (forall v, (v < m1_nvars m)%nat ->
     (Z.abs (F1 v - F0 v) * 2 ^ P < 2 ^ 53 /\ Z.abs (F0 v) * 2 ^ P < 2 ^ 53 /\ Z.abs (F1 v) * 2 ^ P < 2 ^ 53)%Z) ->
  (-1074 <= g <= 971)%Z -> (-1074 <= g - P - e <= 971)%Z -> (-1074 <= g - P)%Z ->
  exists r, interp1 (A := AF) Params.MESH_SNAP m x = Ok r /\ length r = m1_nvars m /\
    forall v, (v < m1_nvars m)%nat ->
      ffinite (nth v r 0%float) /\
      FR (nth v r 0%float)
        = (FR (L v) + (FR (Rr v) - FR (L v)) / (FR (xs (j + 1)%nat) - FR (xs j)) * (FR x - FR (xs j)))%R /\
      (Xx = X j -> FR (nth v r 0%float) = FR (L v)) /\
      (Xx = X (j + 1)%nat -> FR (nth v r 0%float) = FR (Rr v)).
Proof.
  intros m x X F0 F1 Xx e g P j n xs L Rr Hwf Hj HX Hinc Fx Rx Hb He Hin Hlast HP HP' HF0 HF1 HFb Hg Hq Hgp.
  exact (interp_exact_float_lemma m x X F0 F1 Xx e g P j Hwf Hj HX Hinc Fx Rx Hb He Hin Hlast HP HP' HF0 HF1 HFb Hg Hq Hgp).
Qed.
Check interp_exact_float : forall (m : mesh1 AF PrimFloat.float) (x : PrimFloat.float) (X F0 F1 : nat -> Z)
  (Xx e g P : Z) (j : nat),
  let n := length (m1_nodes m) in
  let xs := fun k => nth k (m1_nodes m) 0%float in
  let L := fun v => nth v (nth j (m1_vars m) []) 0%float in
  let Rr := fun v => nth v (nth (j + 1) (m1_vars m) []) 0%float in
  wf1 m -> (j + 1 < n)%nat ->
  (forall k, (k < n)%nat -> ffinite (xs k) /\ FR (xs k) = (IZR (X k) * bpow radix2 e)%R) ->
  (forall k, (k + 1 < n)%nat -> (X k < X (k + 1)%nat)%Z) ->
  ffinite x -> FR x = (IZR Xx * bpow radix2 e)%R ->
  (forall k, (k < n)%nat -> (Z.abs (X k - Xx) < 2 ^ 53)%Z) ->
  (-23 <= e <= 971)%Z ->
  (X j <= Xx <= X (j + 1)%nat)%Z -> (Xx = X (j + 1)%nat -> (j + 2 = n)%nat) ->
  (X (j + 1)%nat - X j = 2 ^ P)%Z -> (0 <= P <= 52)%Z ->
  (forall v, (v < m1_nvars m)%nat -> ffinite (L v) /\ FR (L v) = (IZR (F0 v) * bpow radix2 g)%R) ->
  (forall v, (v < m1_nvars m)%nat -> ffinite (Rr v) /\ FR (Rr v) = (IZR (F1 v) * bpow radix2 g)%R) ->
  (forall v, (v < m1_nvars m)%nat ->
     (Z.abs (F1 v - F0 v) * 2 ^ P < 2 ^ 53 /\ Z.abs (F0 v) * 2 ^ P < 2 ^ 53 /\ Z.abs (F1 v) * 2 ^ P < 2 ^ 53)%Z) ->
  (-1074 <= g <= 971)%Z -> (-1074 <= g - P - e <= 971)%Z -> (-1074 <= g - P)%Z ->
  exists r, interp1 (A := AF) Params.MESH_SNAP m x = Ok r /\ length r = m1_nvars m /\
    forall v, (v < m1_nvars m)%nat ->
      ffinite (nth v r 0%float) /\
      FR (nth v r 0%float)
        = (FR (L v) + (FR (Rr v) - FR (L v)) / (FR (xs (j + 1)%nat) - FR (xs j)) * (FR x - FR (xs j)))%R /\
      (Xx = X j -> FR (nth v r 0%float) = FR (L v)) /\
      (Xx = X (j + 1)%nat -> FR (nth v r 0%float) = FR (Rr v)).
Print Assumptions interp_exact_float.
(* nodes 0, 1/4, 3/4, 7/4 (grid 2^-2, cell widths 1, 2, 4 grid units), integer data 3, -5, 7, 2; x = 1/2 in cell 1:
   -5 + (12 / 0.5) * 0.25 = 1; at the interior node 3/4 the value 7, at the last node the value 2 *)
Example interp_exact_float_nonvacuous :
  let m := ex_imeshF in
  let n := length (m1_nodes m) in
  let xs := fun k => nth k (m1_nodes m) 0%float in
  let L := fun v => nth v (nth 1 (m1_vars m) []) 0%float in
  let Rr := fun v => nth v (nth (1 + 1) (m1_vars m) []) 0%float in
  wf1 m /\ (1 + 1 < n)%nat /\
  (forall k, (k < n)%nat -> ffinite (xs k) /\ FR (xs k) = (IZR (ex_iX k) * bpow radix2 (-2))%R) /\
  (forall k, (k + 1 < n)%nat -> (ex_iX k < ex_iX (k + 1)%nat)%Z) /\
  ffinite 0.5%float /\ FR 0.5%float = (IZR 2 * bpow radix2 (-2))%R /\
  (forall k, (k < n)%nat -> (Z.abs (ex_iX k - 2) < 2 ^ 53)%Z) /\
  (-23 <= -2 <= 971)%Z /\
  (ex_iX 1 <= 2 <= ex_iX (1 + 1)%nat)%Z /\ (2%Z = ex_iX (1 + 1)%nat -> (1 + 2 = n)%nat) /\
  (ex_iX (1 + 1)%nat - ex_iX 1 = 2 ^ 1)%Z /\ (0 <= 1 <= 52)%Z /\
  (forall v, (v < m1_nvars m)%nat -> ffinite (L v) /\ FR (L v) = (IZR (-5) * bpow radix2 0)%R) /\
  (forall v, (v < m1_nvars m)%nat -> ffinite (Rr v) /\ FR (Rr v) = (IZR 7 * bpow radix2 0)%R) /\
  (forall v : nat, (v < m1_nvars m)%nat ->
     (Z.abs (7 - -5) * 2 ^ 1 < 2 ^ 53 /\ Z.abs (-5) * 2 ^ 1 < 2 ^ 53 /\ Z.abs 7 * 2 ^ 1 < 2 ^ 53)%Z) /\
  (-1074 <= 0 <= 971)%Z /\ (-1074 <= 0 - 1 - -2 <= 971)%Z /\ (-1074 <= 0 - 1)%Z /\
  interp1 (A := AF) Params.MESH_SNAP m 0.5%float = Ok [1%float] /\
  interp1 (A := AF) Params.MESH_SNAP m 0.75%float = Ok [7%float] /\
  interp1 (A := AF) Params.MESH_SNAP m 1.75%float = Ok [2%float].
Proof.
  cbv zeta. split; [exact ex_imeshF_wf|]. split; [cbn; lia|].
  split; [exact ex_imeshF_nodes|]. split; [exact ex_imeshF_incr|].
  split; [exact (proj1 ex_imeshF_x)|]. split; [exact (proj2 ex_imeshF_x)|].
  split; [exact ex_imeshF_bound|]. split; [lia|]. split; [cbn; lia|]. split; [cbn; lia|].
  split; [cbn; lia|]. split; [lia|]. split; [exact ex_imeshF_L|]. split; [exact ex_imeshF_R|].
  split; [intros; simpl; lia|]. split; [lia|]. split; [lia|]. split; [lia|]. exact ex_imeshF_values.
Qed.

(* Mesh1D::get_interpolated_vars at binary64 AT A NODE k other than the last: node coordinates on a grid 2^e no finer
   than the window, ANY finite nodal data, ANY cell widths: the nodal values of node k are returned exactly (the float
   itself unless it is a zero) as soon as the slopes of cell k are finite -- the winning cell is cell k with x - xl = 0.
   At the LAST node the result is left + ((right - left)/w) * w, equal to `right` only up to rounding unless w is a
   power of two (interp_exact_float): for nodes 0, 49 and data 0, 1 it is 1 - 2^-53 (interp_last_node_inexact). *)
Theorem interp_node_exact_float : forall (m : mesh1 AF PrimFloat.float) (x : PrimFloat.float) (X : nat -> Z) (e : Z) (k : nat),
  let n := length (m1_nodes m) in
  let xs := fun i => nth i (m1_nodes m) 0%float in
  let L := fun v => nth v (nth k (m1_vars m) []) 0%float in
  let Rr := fun v => nth v (nth (k + 1) (m1_vars m) []) 0%float in
  wf1 m -> (k + 1 < n)%nat ->
  (forall i, (i < n)%nat -> ffinite (xs i) /\ FR (xs i) = (IZR (X i) * bpow radix2 e)%R) ->
  (forall i, (i + 1 < n)%nat -> (X i < X (i + 1)%nat)%Z) ->
  ffinite x -> FR x = FR (xs k) ->
  (forall i, (i < n)%nat -> (Z.abs (X i - X k) < 2 ^ 53)%Z) ->
  (-23 <= e <= 971)%Z ->
  (forall v, (v < m1_nvars m)%nat -> ffinite (L v) /\ ffinite ((Rr v - L v) / (xs (k + 1)%nat - xs k))%float) ->
  exists r, interp1 (A := AF) Params.MESH_SNAP m x = Ok r /\ length r = m1_nvars m /\
    forall v, (v < m1_nvars m)%nat ->
      ffinite (nth v r 0%float) /\ FR (nth v r 0%float) = FR (L v) /\
      (FR (L v) <> 0%R -> nth v r 0%float = L v).
Proof.
  intros m x X e k n xs L Rr Hwf Hk HX Hinc Fx Rx Hb He Hq.
  exact (interp_node_exact_float_lemma m x X e k Hwf Hk HX Hinc Fx Rx Hb He Hq).
Qed.
Check interp_node_exact_float : forall (m : mesh1 AF PrimFloat.float) (x : PrimFloat.float) (X : nat -> Z) (e : Z) (k : nat),
  let n := length (m1_nodes m) in
  let xs := fun i => nth i (m1_nodes m) 0%float in
  let L := fun v => nth v (nth k (m1_vars m) []) 0%float in
  let Rr := fun v => nth v (nth (k + 1) (m1_vars m) []) 0%float in
  wf1 m -> (k + 1 < n)%nat ->
  (forall i, (i < n)%nat -> ffinite (xs i) /\ FR (xs i) = (IZR (X i) * bpow radix2 e)%R) ->
  (forall i, (i + 1 < n)%nat -> (X i < X (i + 1)%nat)%Z) ->
  ffinite x -> FR x = FR (xs k) ->
  (forall i, (i < n)%nat -> (Z.abs (X i - X k) < 2 ^ 53)%Z) ->
  (-23 <= e <= 971)%Z ->
  (forall v, (v < m1_nvars m)%nat -> ffinite (L v) /\ ffinite ((Rr v - L v) / (xs (k + 1)%nat - xs k))%float) ->
  exists r, interp1 (A := AF) Params.MESH_SNAP m x = Ok r /\ length r = m1_nvars m /\
    forall v, (v < m1_nvars m)%nat ->
      ffinite (nth v r 0%float) /\ FR (nth v r 0%float) = FR (L v) /\
      (FR (L v) <> 0%R -> nth v r 0%float = L v).
Print Assumptions interp_node_exact_float.
Example interp_node_exact_float_nonvacuous :
  let m := ex_imesh49 in
  let n := length (m1_nodes m) in
  let xs := fun i => nth i (m1_nodes m) 0%float in
  let L := fun v => nth v (nth 0 (m1_vars m) []) 0%float in
  let Rr := fun v => nth v (nth (0 + 1) (m1_vars m) []) 0%float in
  wf1 m /\ (0 + 1 < n)%nat /\
  (forall i, (i < n)%nat -> ffinite (xs i) /\ FR (xs i) = (IZR (ex_i49X i) * bpow radix2 0)%R) /\
  (forall i, (i + 1 < n)%nat -> (ex_i49X i < ex_i49X (i + 1)%nat)%Z) /\
  ffinite 0%float /\ FR 0%float = FR (xs 0%nat) /\
  (forall i, (i < n)%nat -> (Z.abs (ex_i49X i - ex_i49X 0) < 2 ^ 53)%Z) /\
  (-23 <= 0 <= 971)%Z /\
  (forall v, (v < m1_nvars m)%nat -> ffinite (L v) /\ ffinite ((Rr v - L v) / (xs (0 + 1)%nat - xs 0%nat))%float) /\
  interp1 (A := AF) Params.MESH_SNAP m 0%float = Ok [0%float] /\
  (* and the last node of the same mesh is NOT reproduced *)
  (exists r, interp1 (A := AF) Params.MESH_SNAP m 49%float = Ok [r] /\
             PrimFloat.eqb r 1%float = false /\ PrimFloat.ltb r 1%float = true).
Proof.
  cbv zeta. split; [exact ex_imesh49_wf|]. split; [cbn; lia|]. split; [exact ex_imesh49_nodes|].
  split; [intros i Hi; destruct i as [|i]; [cbn; lia|cbn in Hi; lia]|].
  split; [vm_compute; reflexivity|]. split; [reflexivity|].
  split; [intros i Hi; do 2 (destruct i as [|i]; [cbn; lia|]); cbn in Hi; lia|].
  split; [lia|]. split; [exact ex_imesh49_slopes|]. exact interp_last_node_inexact.
Qed.
