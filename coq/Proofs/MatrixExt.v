(* Proofs/MatrixExt.v -- consequences of the per-operation theorems:
   - extensionality: a well-formed matrix IS its shape and its entries (so the derived PartialEq, which
     compares the raw buffers, is equality of shape and entries: what the check observes with `m == rebuilt`);
   - the raw index operators: Ok exactly when the flat offset is inside the buffer (no range check of i, j
     separately: an out-of-range (i,j) with a small offset aliases another element -- outside the claim);
   - algebraic corollaries: transposing twice is the identity, transpose of the identity, ... *)
From Coq Require Import List Arith Lia Bool ZArith Ring.
From OV Require Import Base.Panic Base.Arith Model.Vector Model.Matrix Proofs.Matrix Proofs.MatrixArith.
Import ListNotations.

Section MatExt.
Context {A : Arith}.
Notation T := (T A).
Notation matrix := (matrix A).

Lemma wf_ext (a b : matrix) : wf a -> wf b -> rows a = rows b -> cols a = cols b ->
  (forall i j, i < rows a -> j < cols a -> entry a i j = entry b i j) -> a = b.
Proof.
  destruct a as [ba r c], b as [bb r' c']. unfold wf, entry; cbn. intros Ha Hb <- <- He.
  f_equal. apply (nth_ext _ _ zero zero); [congruence|].
  intros k Hk. rewrite Ha in Hk.
  assert (Hc : c <> 0) by (intros ->; lia).
  assert (Hi : k / c < r) by (apply Nat.div_lt_upper_bound; [auto|lia]).
  assert (Hj : k mod c < c) by (now apply Nat.mod_upper_bound).
  specialize (He (k / c) (k mod c) Hi Hj).
  replace (k / c * c + k mod c) with k in He; auto.
  rewrite (Nat.div_mod k c Hc) at 1. lia.
Qed.

Lemma msp_unique r c f (a b : matrix) : msp r c f a -> msp r c f b -> a = b.
Proof.
  intros (Ha & Hra & Hca & Hea) (Hb & Hrb & Hcb & Heb). apply wf_ext; auto; try congruence.
  intros i j Hi Hj. rewrite Hea, Heb by congruence. reflexivity.
Qed.

(* raw index operators: checked against the flat buffer only *)
Lemma mget_raw (m : matrix) i j :
  (i * cols m + j < length (buf m) -> mget m i j = Ok (nth (i * cols m + j) (buf m) zero)) /\
  (length (buf m) <= i * cols m + j -> mget m i j = Panic Index).
Proof. unfold mget. split; intros H; [now apply rd_ok | now apply rd_panic]. Qed.

Lemma mset_raw (m : matrix) i j x :
  (i * cols m + j < length (buf m) ->
     mset m i j x = Ok (mkM (upd_list (buf m) (i * cols m + j) x) (rows m) (cols m))) /\
  (length (buf m) <= i * cols m + j -> mset m i j x = Panic Index).
Proof.
  unfold mset, upd. split; intros H.
  - destruct (Nat.ltb_spec (i * cols m + j) (length (buf m))); [reflexivity|lia].
  - destruct (Nat.ltb_spec (i * cols m + j) (length (buf m))); [lia|reflexivity].
Qed.

(* transposing twice gives the matrix back, buffer and all; for every shape (both branches, in any combination) *)
Lemma transpose_involutive (m : matrix) : wf m ->
  exists t, transpose_in_place m = Ok t /\ transpose_in_place t = Ok m.
Proof.
  intros Hw.
  destruct (transpose_in_place_msp _ _ _ m (msp_self m Hw)) as (t & E & Ht).
  destruct (transpose_in_place_msp _ _ _ t Ht) as (u & E' & Hu).
  exists t; split; auto. rewrite E'. f_equal.
  apply (msp_unique (rows m) (cols m) (entry m)); [exact Hu | now apply msp_self].
Qed.

(* the identity is symmetric *)
Lemma eye_transpose n : exists e : matrix, eye n = Ok e /\ transpose_in_place e = Ok e.
Proof.
  destruct (eye_msp (A:=A) n) as (e & E & He).
  destruct (transpose_in_place_msp _ _ _ e He) as (t & E' & Ht).
  exists e; split; auto. rewrite E'. f_equal.
  apply (msp_unique n n (fun i j => if i =? j then one else zero)); auto.
  eapply msp_ext; [exact Ht|]. intros i j Hi Hj. cbn beta. rewrite (Nat.eqb_sym j i). reflexivity.
Qed.

(* resize to the current shape, delete_row after resize by one row, fill after anything: state is determined *)
Lemma resize_same (m : matrix) : wf m -> resize m (rows m) (cols m) = Ok m.
Proof.
  intros Hw. destruct (resize_msp _ _ _ m (rows m) (cols m) (msp_self m Hw)) as (m' & E & Hm').
  rewrite E. f_equal. apply (msp_unique (rows m) (cols m) (entry m)); [|now apply msp_self].
  eapply msp_ext; [exact Hm'|]. intros i j Hi Hj. bdestr.
Qed.

(* swapping the same two rows twice is the identity *)
Lemma swap_rows_involutive (m : matrix) r1 r2 : wf m -> r1 < rows m -> r2 < rows m ->
  exists s, swap_rows m r1 r2 = Ok s /\ swap_rows s r1 r2 = Ok m.
Proof.
  intros Hw H1 H2.
  destruct (swap_rows_msp _ _ _ m r1 r2 (msp_self m Hw) H1 H2) as (s & E & Hs).
  destruct (swap_rows_msp _ _ _ s r1 r2 Hs H1 H2) as (u & E' & Hu).
  exists s; split; auto. rewrite E'. f_equal.
  apply (msp_unique (rows m) (cols m) (entry m)); [|now apply msp_self].
  eapply msp_ext; [exact Hu|]. intros i j Hi Hj. bdestr.
Qed.

End MatExt.

(* laws that need the ring: (A + B)^T, A * I = A, (A B)^T = B^T A^T are consequences of the entry formulas;
   the two below are the ones the property's "textbook definition" reading uses most *)
Section MatRing.
Context {A : Arith}.
Hypothesis RL : RingLaws A.
Notation T := (T A).
Notation matrix := (matrix A).

Add Ring ARing : (rl_ring A RL).
Lemma Radd_0_l (x : T) : add zero x = x. Proof. ring. Qed.
Lemma Rmul_1_r (x : T) : mul x one = x. Proof. ring. Qed.
Lemma Rmul_0_r (x : T) : mul x zero = zero. Proof. ring. Qed.
Lemma Radd_0_r (x : T) : add x zero = x. Proof. ring. Qed.

(* Sum_{k<n} f k * [k = j]  =  f j   for j < n *)
Lemma sum_n_delta n j (f : nat -> T) : j < n ->
  sum_n n (fun k => mul (f k) (if k =? j then one else zero)) = f j.
Proof.
  induction n as [|n IH]; intros Hj; [lia|]. cbn [sum_n].
  destruct (Nat.eq_dec j n) as [->|Hne].
  - rewrite Nat.eqb_refl, Rmul_1_r.
    rewrite (sum_n_ext n _ (fun _ => zero)).
    + assert (Hz : forall q, sum_n (A:=A) q (fun _ => zero) = zero).
      { induction q as [|q IHq]; cbn; auto. rewrite IHq. apply Radd_0_l. }
      rewrite Hz. apply Radd_0_l.
    + intros k Hk. destruct (Nat.eqb_spec k n); [lia|]. apply Rmul_0_r.
  - destruct (Nat.eqb_spec n j); [lia|]. rewrite Rmul_0_r, Radd_0_r. apply IH. lia.
Qed.

(* M * I = M, as the code computes both (eye, then the column-by-column product) *)
Lemma mat_mul_eye_r (m : matrix) : wf m ->
  exists e, eye (cols m) = Ok e /\ mat_mul m e = Ok m.
Proof.
  intros Hw. destruct (eye_msp (A:=A) (cols m)) as (e & E & He).
  destruct (mat_mul_msp _ _ _ _ _ m e (msp_self m Hw) He) as (p & E' & Hp).
  exists e; split; auto. rewrite E'. f_equal.
  apply (msp_unique (rows m) (cols m) (entry m)); [|now apply msp_self].
  eapply msp_ext; [exact Hp|]. intros i j Hi Hj. cbn beta. now apply sum_n_delta.
Qed.


(* ---- sums over a commutative ring ---- *)
Lemma sum_n_zero n : sum_n (A:=A) n (fun _ => zero) = zero.
Proof. induction n as [|n IH]; cbn; auto. rewrite IH. ring. Qed.
Lemma sum_n_add n (f g : nat -> T) : sum_n n (fun k => add (f k) (g k)) = add (sum_n n f) (sum_n n g).
Proof. induction n as [|n IH]; cbn; [ring|]. rewrite IH. ring. Qed.
Lemma sum_n_mul_r n (f : nat -> T) x : sum_n n (fun k => mul (f k) x) = mul (sum_n n f) x.
Proof. induction n as [|n IH]; cbn; [ring|]. rewrite IH. ring. Qed.
Lemma sum_n_mul_l n (f : nat -> T) x : sum_n n (fun k => mul x (f k)) = mul x (sum_n n f).
Proof. induction n as [|n IH]; cbn; [ring|]. rewrite IH. ring. Qed.
Lemma sum_n_swap n q (f : nat -> nat -> T) :
  sum_n n (fun i => sum_n q (fun j => f i j)) = sum_n q (fun j => sum_n n (fun i => f i j)).
Proof.
  induction n as [|n IH]; cbn [sum_n].
  - now rewrite sum_n_zero.
  - rewrite IH. now rewrite <- sum_n_add.
Qed.

(* (A B) C = A (B C), as the code computes the four products; every conformable shape *)
Lemma mat_mul_assoc (a b c : matrix) : wf a -> wf b -> wf c -> cols a = rows b -> cols b = rows c ->
  exists ab bc p, mat_mul a b = Ok ab /\ mat_mul b c = Ok bc /\ mat_mul ab c = Ok p /\ mat_mul a bc = Ok p.
Proof.
  intros Ha Hb Hc Hab Hbc.
  assert (Hb' : msp (cols a) (cols b) (entry b) b) by (rewrite Hab; now apply msp_self).
  assert (Hc' : msp (cols b) (cols c) (entry c) c) by (rewrite Hbc; now apply msp_self).
  destruct (mat_mul_msp _ _ _ _ _ a b (msp_self a Ha) Hb') as (ab & E1 & Hab').
  destruct (mat_mul_msp _ _ _ _ _ b c Hb' Hc') as (bc & E2 & Hbc').
  destruct (mat_mul_msp _ _ _ _ _ ab c Hab' Hc') as (p & E3 & Hp).
  destruct (mat_mul_msp _ _ _ _ _ a bc (msp_self a Ha) Hbc') as (p' & E4 & Hp').
  exists ab, bc, p. repeat split; auto. rewrite E4. f_equal.
  apply (msp_unique _ _ _ p' p Hp'). eapply msp_ext; [exact Hp|].
  intros i j Hi Hj. cbn beta.
  rewrite (sum_n_ext (cols b) _ (fun l => sum_n (cols a) (fun k => mul (entry a i k) (mul (entry b k l) (entry c l j))))).
  - rewrite sum_n_swap. apply sum_n_ext. intros k Hk. now rewrite sum_n_mul_l.
  - intros l Hl. rewrite <- sum_n_mul_r. apply sum_n_ext. intros k Hk. ring.
Qed.

(* (A B)^T = B^T A^T *)
Lemma mat_mul_transpose (a b : matrix) : wf a -> wf b -> cols a = rows b ->
  exists p ta tb tp, mat_mul a b = Ok p /\ transpose a = Ok ta /\ transpose b = Ok tb /\
                     transpose p = Ok tp /\ mat_mul tb ta = Ok tp.
Proof.
  intros Ha Hb Hab. unfold transpose.
  assert (Hb' : msp (cols a) (cols b) (entry b) b) by (rewrite Hab; now apply msp_self).
  destruct (mat_mul_msp _ _ _ _ _ a b (msp_self a Ha) Hb') as (p & E1 & Hp).
  destruct (transpose_in_place_msp _ _ _ a (msp_self a Ha)) as (ta & E2 & Hta).
  destruct (transpose_in_place_msp _ _ _ b Hb') as (tb & E3 & Htb).
  destruct (transpose_in_place_msp _ _ _ p Hp) as (tp & E4 & Htp).
  destruct (mat_mul_msp _ _ _ _ _ tb ta Htb Hta) as (q & E5 & Hq).
  exists p, ta, tb, tp. repeat split; auto. rewrite E5. f_equal.
  apply (msp_unique _ _ _ q tp Hq). eapply msp_ext; [exact Htp|].
  intros i j Hi Hj. cbn beta. apply sum_n_ext. intros k Hk. ring.
Qed.

(* A (B + C) = A B + A C *)
Lemma mat_mul_add_distr_l (a b c : matrix) : wf a -> wf b -> wf c -> cols a = rows b ->
  rows b = rows c -> cols b = cols c ->
  exists s ab ac p, madd b c = Ok s /\ mat_mul a b = Ok ab /\ mat_mul a c = Ok ac /\
                    mat_mul a s = Ok p /\ madd ab ac = Ok p.
Proof.
  intros Ha Hb Hc Hab Hr Hcc.
  assert (Hb' : msp (cols a) (cols b) (entry b) b) by (rewrite Hab; now apply msp_self).
  assert (Hc' : msp (cols a) (cols b) (entry c) c) by (rewrite Hab, Hr, Hcc; now apply msp_self).
  destruct (madd_msp _ _ _ _ b c Hb' Hc') as (s & E1 & Hs).
  destruct (mat_mul_msp _ _ _ _ _ a b (msp_self a Ha) Hb') as (ab & E2 & Hab').
  destruct (mat_mul_msp _ _ _ _ _ a c (msp_self a Ha) Hc') as (ac & E3 & Hac').
  destruct (mat_mul_msp _ _ _ _ _ a s (msp_self a Ha) Hs) as (p & E4 & Hp).
  destruct (madd_msp _ _ _ _ ab ac Hab' Hac') as (q & E5 & Hq).
  exists s, ab, ac, p. repeat split; auto. rewrite E5. f_equal.
  apply (msp_unique _ _ _ q p Hq). eapply msp_ext; [exact Hp|].
  intros i j Hi Hj. cbn beta. rewrite <- sum_n_add. apply sum_n_ext. intros k Hk. ring.
Qed.

End MatRing.
