(* Proofs/Matrix.v -- stub, to be filled in *)
