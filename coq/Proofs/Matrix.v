(* Proofs/Matrix.v -- lemmas about Model/Matrix.v (dense matrices), part 1:
   index arithmetic, the representation predicate [msp], the generic loop lemmas, and the
   refinement lemma of every editing / reading operation of operations.rs.
   Part 2 (arithmetic.rs, transpose, product) is Proofs/MatrixArith.v; the history theorem is
   Proofs/MatrixRefine.v.

   Every lemma concludes [op ... = Ok ...]: the model reads and writes through checked accesses, so
   this proves that no index left the buffer.  No ring law is used anywhere in this file. *)
From Coq Require Import List Arith Lia Bool ZArith.
From OV Require Import Base.Panic Base.Arith Model.Vector Model.Matrix.
Import ListNotations.

(* case analysis on every boolean test of naturals in the goal *)
Ltac bdestr :=
  cbn beta;
  repeat match goal with
  | |- context [Nat.eqb ?a ?b] => destruct (Nat.eqb_spec a b)
  | |- context [Nat.ltb ?a ?b] => destruct (Nat.ltb_spec a b)
  | |- context [Nat.leb ?a ?b] => destruct (Nat.leb_spec a b)
  | |- context [Z.eqb ?a ?b] => destruct (Z.eqb_spec a b)
  | |- context [Z.leb ?a ?b] => destruct (Z.leb_spec a b)
  | |- context [Z.ltb ?a ?b] => destruct (Z.ltb_spec a b)
  end; cbn [andb orb negb]; try reflexivity; try (exfalso; lia); try congruence.

Lemma nth_repeat_lt {X} (x d : X) n k : k < n -> nth k (repeat x n) d = x.
Proof. revert k; induction n as [|n IH]; intros [|k] H; cbn; auto; try lia. apply IH; lia. Qed.

Section MatProofs.
Context {A : Arith}.
Notation T := (T A).
Notation matrix := (matrix A).

Definition wf (m : matrix) : Prop := length (buf m) = rows m * cols m.

Lemma mat_new_wf_lemma r c (x : A) : wf (mat_new r c x) /\ rows (mat_new r c x) = r /\ cols (mat_new r c x) = c.
Proof. unfold wf, mat_new; cbn. now rewrite repeat_length. Qed.

(* the textbook view of the flat buffer; used only under [wf] and with in-range indices *)
Definition entry (m : matrix) (i j : nat) : T := nth (i * cols m + j) (buf m) zero.

(* ---------- the index bijection ---------- *)
Lemma idx_lt r c i j : i < r -> j < c -> i * c + j < r * c.
Proof. nia. Qed.

Lemma idx_inj c i j i' j' : j < c -> j' < c -> i * c + j = i' * c + j' -> i = i' /\ j = j'.
Proof.
  intros Hj Hj' E.
  assert (Hi : i = i').
  { apply (f_equal (fun x => x / c)) in E.
    rewrite !Nat.div_add_l, !Nat.div_small in E by lia. lia. }
  subst; split; lia.
Qed.

(* ---------- representation predicate: m is a well-formed r x c matrix whose entries are f ---------- *)
Definition msp (r c : nat) (f : nat -> nat -> T) (m : matrix) : Prop :=
  wf m /\ rows m = r /\ cols m = c /\ forall i j, i < r -> j < c -> entry m i j = f i j.

Lemma msp_self m : wf m -> msp (rows m) (cols m) (entry m) m.
Proof. intros H; repeat split; auto. Qed.

Lemma msp_ext r c f g m :
  msp r c f m -> (forall i j, i < r -> j < c -> f i j = g i j) -> msp r c g m.
Proof.
  intros (Hw & Hr & Hc & He) H; repeat split; auto.
  intros i j Hi Hj. rewrite He by auto. auto.
Qed.

Lemma msp_new r c (x : T) : msp r c (fun _ _ => x) (mat_new r c x).
Proof.
  destruct (mat_new_wf_lemma r c x) as (Hw & Hr & Hc). repeat split; auto.
  intros i j Hi Hj. unfold entry, mat_new; cbn. apply nth_repeat_lt. apply idx_lt; auto.
Qed.

Lemma mget_msp r c f m i j : msp r c f m -> i < r -> j < c -> mget m i j = Ok (f i j).
Proof.
  intros (Hw & Hr & Hc & He) Hi Hj. unfold mget.
  rewrite (rd_ok _ _ zero).
  - f_equal. apply He; auto.
  - rewrite Hw, Hr, Hc. apply idx_lt; auto.
Qed.

Definition upd_fn (f : nat -> nat -> T) (i j : nat) (x : T) : nat -> nat -> T :=
  fun i' j' => if (i' =? i) && (j' =? j) then x else f i' j'.

Lemma mset_msp r c f m i j x : msp r c f m -> i < r -> j < c ->
  exists m', mset m i j x = Ok m' /\ msp r c (upd_fn f i j x) m'.
Proof.
  intros (Hw & Hr & Hc & He) Hi Hj. unfold mset.
  assert (Hlt : i * cols m + j < length (buf m)).
  { rewrite Hw, Hr, Hc. apply idx_lt; auto. }
  rewrite upd_ok by auto. cbn.
  eexists; split; [reflexivity|].
  unfold msp, wf, entry; cbn. rewrite upd_list_length. repeat split; auto.
  intros i' j' Hi' Hj'. rewrite nth_upd_list by auto. unfold upd_fn.
  destruct (Nat.eqb_spec (i' * cols m + j') (i * cols m + j)) as [E|E].
  - apply idx_inj in E as [-> ->]; try lia. now rewrite !Nat.eqb_refl.
  - destruct (Nat.eqb_spec i' i); destruct (Nat.eqb_spec j' j); cbn; subst; try congruence;
      apply He; auto.
Qed.

(* ---------- loops over a matrix state ---------- *)
Lemma for_msp r c (F : nat -> nat -> nat -> T) lo hi body (m : matrix) :
  lo <= hi -> msp r c (F lo) m ->
  (forall k s, lo <= k < hi -> msp r c (F k) s ->
     exists s', body k s = Ok s' /\ msp r c (F (S k)) s') ->
  exists m', for_ lo hi body m = Ok m' /\ msp r c (F hi) m'.
Proof. intros Hle H0 Hstep. apply (for_inv (fun k s => msp r c (F k) s)); auto. Qed.


(* ---------- vectors ---------- *)
Definition vsp (n : nat) (f : nat -> T) (v : list T) : Prop :=
  length v = n /\ forall k, k < n -> nth k v zero = f k.

Lemma vsp_ext n f g v : vsp n f v -> (forall k, k < n -> f k = g k) -> vsp n g v.
Proof. intros (Hl & He) H; split; auto. intros k Hk. rewrite He by auto. auto. Qed.

Lemma vsp_self v : vsp (length v) (fun k => nth k v zero) v.
Proof. split; auto. Qed.

Lemma vsp_repeat n (x : T) : vsp n (fun _ => x) (repeat x n).
Proof. split; [apply repeat_length|]. intros k Hk. now apply nth_repeat_lt. Qed.

Lemma vsp_eq n f v w : vsp n f v -> vsp n f w -> v = w.
Proof.
  intros (Hl & He) (Hl' & He'). apply (nth_ext _ _ zero zero); [congruence|].
  intros k Hk. rewrite He, He' by lia. reflexivity.
Qed.

Lemma rd_vsp n f v k : vsp n f v -> k < n -> rd v k = Ok (f k).
Proof. intros (Hl & He) Hk. rewrite (rd_ok _ _ zero) by lia. now rewrite He. Qed.

Lemma upd_vsp n f v k x : vsp n f v -> k < n ->
  exists v', upd v k x = Ok v' /\ vsp n (fun k' => if k' =? k then x else f k') v'.
Proof.
  intros (Hl & He) Hk. rewrite upd_ok by lia. eexists; split; [reflexivity|]. split.
  - now rewrite upd_list_length.
  - intros k' Hk'. rewrite nth_upd_list by lia. destruct (k' =? k); auto.
Qed.

Lemma for_vsp n (F : nat -> nat -> T) lo hi body (v : list T) :
  lo <= hi -> vsp n (F lo) v ->
  (forall k s, lo <= k < hi -> vsp n (F k) s -> exists s', body k s = Ok s' /\ vsp n (F (S k)) s') ->
  exists v', for_ lo hi body v = Ok v' /\ vsp n (F hi) v'.
Proof. intros Hle H0 Hstep. apply (for_inv (fun k s => vsp n (F k) s)); auto. Qed.

(* ---------- get_row / get_col ---------- *)
Lemma get_row_msp r c f m row : msp r c f m -> row < r ->
  exists v, get_row m row = Ok v /\ vsp c (fun j => f row j) v.
Proof.
  intros Hm Hrow. pose proof Hm as (Hw & Hr & Hc & He). unfold get_row.
  rewrite Hr. destruct (Nat.leb_spec r row) as [Hx|_]; [lia|]. rewrite Hc.
  destruct (for_vsp c (fun k j => if j <? k then f row j else zero) 0 c
     (fun j v => let* x := rd (buf m) (row * c + j) in upd v j x) (repeat zero c)) as (v & E & Hv).
  - lia.
  - eapply vsp_ext; [apply vsp_repeat|]. intros; bdestr.
  - intros k s Hk Hs.
    assert (E : rd (buf m) (row * c + k) = Ok (f row k)).
    { generalize (mget_msp r c f m row k Hm Hrow (proj2 Hk)). unfold mget. now rewrite Hc. }
    rewrite E. cbn. destruct (upd_vsp c _ s k (f row k) Hs (proj2 Hk)) as (s' & E' & Hs').
    exists s'; split; auto. eapply vsp_ext; [exact Hs'|]. intros j Hj. bdestr.
  - exists v; split; auto. eapply vsp_ext; [exact Hv|]. intros j Hj. bdestr.
Qed.

Lemma get_col_msp r c f m col : msp r c f m -> col < c ->
  exists v, get_col m col = Ok v /\ vsp r (fun i => f i col) v.
Proof.
  intros Hm Hcol. pose proof Hm as (Hw & Hr & Hc & He). unfold get_col.
  rewrite Hc. destruct (Nat.leb_spec c col) as [Hx|_]; [lia|]. rewrite Hr.
  destruct (for_vsp r (fun k i => if i <? k then f i col else zero) 0 r
     (fun i v => let* x := rd (buf m) (i * c + col) in upd v i x) (repeat zero r)) as (v & E & Hv).
  - lia.
  - eapply vsp_ext; [apply vsp_repeat|]. intros; bdestr.
  - intros k s Hk Hs.
    assert (E : rd (buf m) (k * c + col) = Ok (f k col)).
    { generalize (mget_msp r c f m k col Hm (proj2 Hk) Hcol). unfold mget. now rewrite Hc. }
    rewrite E. cbn. destruct (upd_vsp r _ s k (f k col) Hs (proj2 Hk)) as (s' & E' & Hs').
    exists s'; split; auto. eapply vsp_ext; [exact Hs'|]. intros j Hj. bdestr.
  - exists v; split; auto. eapply vsp_ext; [exact Hv|]. intros j Hj. bdestr.
Qed.

Lemma get_row_guard (m : matrix) row : rows m <= row -> get_row m row = Panic Guard.
Proof. intros H; unfold get_row. now destruct (Nat.leb_spec (rows m) row); [|lia]. Qed.
Lemma get_col_guard (m : matrix) col : cols m <= col -> get_col m col = Panic Guard.
Proof. intros H; unfold get_col. now destruct (Nat.leb_spec (cols m) col); [|lia]. Qed.


(* ---------- one loop of single-element writes ("independent writes") ----------
   iteration k computes a value (possibly from the current state) and stores it at (pi k, pj k);
   [F k] describes the matrix after the iterations before k. *)
Lemma for_mset r c (F : nat -> nat -> nat -> T) lo hi (pi pj : nat -> nat) (xv : nat -> T)
      (g : nat -> matrix -> res T) (m : matrix) :
  lo <= hi -> msp r c (F lo) m ->
  (forall k, lo <= k < hi -> pi k < r /\ pj k < c) ->
  (forall k s, lo <= k < hi -> msp r c (F k) s -> g k s = Ok (xv k)) ->
  (forall k i j, lo <= k < hi -> i < r -> j < c ->
     upd_fn (F k) (pi k) (pj k) (xv k) i j = F (S k) i j) ->
  exists m', for_ lo hi (fun k s => let* x := g k s in mset s (pi k) (pj k) x) m = Ok m' /\
             msp r c (F hi) m'.
Proof.
  intros Hle H0 Hp Hg HF. apply for_msp; auto.
  intros k s Hk Hs. rewrite (Hg k s Hk Hs). cbn.
  destruct (Hp k Hk) as (Hi & Hj).
  destruct (mset_msp r c (F k) s (pi k) (pj k) (xv k) Hs Hi Hj) as (s' & E & Hs').
  exists s'; split; auto. eapply msp_ext; [exact Hs'|]. intros; apply HF; auto.
Qed.

(* ---------- set_row / set_col / fill_row / fill_col ---------- *)
Lemma set_row_msp r c f m row v : msp r c f m -> length v = c -> row < r ->
  exists m', set_row m row v = Ok m' /\
             msp r c (fun i j => if i =? row then nth j v zero else f i j) m'.
Proof.
  intros Hm Hv Hrow. pose proof Hm as (Hw & Hr & Hc & He). unfold set_row.
  rewrite Hc, Hr, Hv, Nat.eqb_refl. cbn [negb]. destruct (Nat.leb_spec r row) as [Hx|_]; [lia|].
  destruct (for_mset r c (fun k i j => if (i =? row) && (j <? k) then nth j v zero else f i j)
              0 c (fun _ => row) (fun k => k) (fun k => nth k v zero) (fun k _ => rd v k) m)
    as (m' & E & Hm'); [lia | | intros; lia | | | ].
  - eapply msp_ext; [exact Hm|]. intros; bdestr.
  - intros k s Hk _. apply rd_ok; lia.
  - intros k i j Hk Hi Hj. unfold upd_fn. bdestr.
  - exists m'; split; [exact E|]. eapply msp_ext; [exact Hm'|]. intros; bdestr.
Qed.

Lemma set_row_guard (m : matrix) row v :
  length v <> cols m \/ rows m <= row -> set_row m row v = Panic Guard.
Proof.
  intros H; unfold set_row. destruct (Nat.eqb_spec (length v) (cols m)); cbn [negb]; auto.
  destruct (Nat.leb_spec (rows m) row); auto. lia.
Qed.

Lemma set_col_msp r c f m col v : msp r c f m -> length v = r -> col < c ->
  exists m', set_col m col v = Ok m' /\
             msp r c (fun i j => if j =? col then nth i v zero else f i j) m'.
Proof.
  intros Hm Hv Hcol. pose proof Hm as (Hw & Hr & Hc & He). unfold set_col.
  rewrite Hc, Hr, Hv, Nat.eqb_refl. cbn [negb]. destruct (Nat.leb_spec c col) as [Hx|_]; [lia|].
  destruct (for_mset r c (fun k i j => if (j =? col) && (i <? k) then nth i v zero else f i j)
              0 r (fun k => k) (fun _ => col) (fun k => nth k v zero) (fun k _ => rd v k) m)
    as (m' & E & Hm'); [lia | | intros; lia | | | ].
  - eapply msp_ext; [exact Hm|]. intros; bdestr.
  - intros k s Hk _. apply rd_ok; lia.
  - intros k i j Hk Hi Hj. unfold upd_fn. bdestr.
  - exists m'; split; [exact E|]. eapply msp_ext; [exact Hm'|]. intros; bdestr.
Qed.

Lemma set_col_guard (m : matrix) col v :
  length v <> rows m \/ cols m <= col -> set_col m col v = Panic Guard.
Proof.
  intros H; unfold set_col. destruct (Nat.eqb_spec (length v) (rows m)); cbn [negb]; auto.
  destruct (Nat.leb_spec (cols m) col); auto. lia.
Qed.

Lemma fill_row_msp r c f m row x : msp r c f m -> row < r ->
  exists m', fill_row m row x = Ok m' /\ msp r c (fun i j => if i =? row then x else f i j) m'.
Proof.
  intros Hm Hrow. pose proof Hm as (Hw & Hr & Hc & He). unfold fill_row.
  rewrite Hc, Hr. destruct (Nat.leb_spec r row) as [Hx|_]; [lia|].
  destruct (for_mset r c (fun k i j => if (i =? row) && (j <? k) then x else f i j)
              0 c (fun _ => row) (fun k => k) (fun _ => x) (fun _ _ => Ok x) m)
    as (m' & E & Hm'); [lia | | intros; lia | | | ].
  - eapply msp_ext; [exact Hm|]. intros; bdestr.
  - reflexivity.
  - intros k i j Hk Hi Hj. unfold upd_fn. bdestr.
  - exists m'; split; [exact E|]. eapply msp_ext; [exact Hm'|]. intros; bdestr.
Qed.

Lemma fill_row_guard (m : matrix) row x : rows m <= row -> fill_row m row x = Panic Guard.
Proof. intros H; unfold fill_row. now destruct (Nat.leb_spec (rows m) row); [|lia]. Qed.

Lemma fill_col_msp r c f m col x : msp r c f m -> col < c ->
  exists m', fill_col m col x = Ok m' /\ msp r c (fun i j => if j =? col then x else f i j) m'.
Proof.
  intros Hm Hcol. pose proof Hm as (Hw & Hr & Hc & He). unfold fill_col.
  rewrite Hc, Hr. destruct (Nat.leb_spec c col) as [Hx|_]; [lia|].
  destruct (for_mset r c (fun k i j => if (j =? col) && (i <? k) then x else f i j)
              0 r (fun k => k) (fun _ => col) (fun _ => x) (fun _ _ => Ok x) m)
    as (m' & E & Hm'); [lia | | intros; lia | | | ].
  - eapply msp_ext; [exact Hm|]. intros; bdestr.
  - reflexivity.
  - intros k i j Hk Hi Hj. unfold upd_fn. bdestr.
  - exists m'; split; [exact E|]. eapply msp_ext; [exact Hm'|]. intros; bdestr.
Qed.

Lemma fill_col_guard (m : matrix) col x : cols m <= col -> fill_col m col x = Panic Guard.
Proof. intros H; unfold fill_col. now destruct (Nat.leb_spec (cols m) col); [|lia]. Qed.


(* ---------- fill / fill_diag / eye / fill_band ---------- *)
Lemma fill_msp r c f m x : msp r c f m ->
  exists m', fill m x = Ok m' /\ msp r c (fun _ _ => x) m'.
Proof.
  intros Hm. pose proof Hm as (Hw & Hr & Hc & He). unfold fill. rewrite Hr.
  destruct (for_msp r c (fun k i j => if i <? k then x else f i j) 0 r
     (fun i s => for_ 0 (cols s) (fun j s => mset s i j x) s) m) as (m' & E & Hm'); [lia| | |].
  - eapply msp_ext; [exact Hm|]. intros; bdestr.
  - intros k s Hk Hs. pose proof Hs as (_ & _ & Hcs & _). rewrite Hcs.
    destruct (for_mset r c (fun q i j => if (i <? k) || ((i =? k) && (j <? q)) then x else f i j)
                0 c (fun _ => k) (fun q => q) (fun _ => x) (fun _ _ => Ok x) s)
      as (s' & E' & Hs'); [lia | | intros; lia | | | ].
    + eapply msp_ext; [exact Hs|]. intros; bdestr.
    + reflexivity.
    + intros q i j Hq Hi Hj. unfold upd_fn. bdestr.
    + exists s'; split; [exact E'|]. eapply msp_ext; [exact Hs'|]. intros; bdestr.
  - exists m'; split; [exact E|]. eapply msp_ext; [exact Hm'|]. intros; bdestr.
Qed.

Lemma fill_diag_msp r c f m x : msp r c f m ->
  exists m', fill_diag m x = Ok m' /\ msp r c (fun i j => if i =? j then x else f i j) m'.
Proof.
  intros Hm. pose proof Hm as (Hw & Hr & Hc & He). unfold fill_diag. rewrite Hr, Hc.
  set (n := if c <? r then c else r).
  assert (Hn : n <= r /\ n <= c /\ (r <= n \/ c <= n)).
  { unfold n. destruct (Nat.ltb_spec c r); lia. }
  destruct (for_mset r c (fun k i j => if (i =? j) && (i <? k) then x else f i j)
              0 n (fun k => k) (fun k => k) (fun _ => x) (fun _ _ => Ok x) m)
    as (m' & E & Hm'); [lia | | intros; lia | | | ].
  - eapply msp_ext; [exact Hm|]. intros; bdestr.
  - reflexivity.
  - intros k i j Hk Hi Hj. unfold upd_fn. bdestr.
  - exists m'; split; [exact E|]. eapply msp_ext; [exact Hm'|]. intros; bdestr.
Qed.

Lemma eye_msp n : exists m', eye n = Ok m' /\ msp n n (fun i j => if i =? j then @one A else zero) m'.
Proof.
  unfold eye.
  destruct (for_mset n n (fun k i j => if (i =? j) && (i <? k) then @one A else zero)
              0 n (fun k => k) (fun k => k) (fun _ => one) (fun _ _ => Ok one) (mat_new n n zero))
    as (m' & E & Hm'); [lia | | intros; lia | | | ].
  - eapply msp_ext; [apply msp_new|]. intros; bdestr.
  - reflexivity.
  - intros k i j Hk Hi Hj. unfold upd_fn. bdestr.
  - exists m'; split; [exact E|]. eapply msp_ext; [exact Hm'|]. intros; bdestr.
Qed.

Lemma fill_band_msp r c f m (o : Z) x : msp r c f m ->
  exists m', fill_band m o x = Ok m' /\
    msp r c (fun i j => if (Z.of_nat j =? Z.of_nat i + o)%Z then x else f i j) m'.
Proof.
  intros Hm. pose proof Hm as (Hw & Hr & Hc & He). unfold fill_band. rewrite Hr.
  destruct (for_msp r c (fun k i j => if (i <? k) && (Z.of_nat j =? Z.of_nat i + o)%Z then x else f i j) 0 r
     (fun row s => let i := (Z.of_nat row + o)%Z in
        if (0 <=? i)%Z && (Z.to_nat i <? cols s) then mset s row (Z.to_nat i) x else Ok s) m)
    as (m' & E & Hm'); [lia| | |].
  - eapply msp_ext; [exact Hm|]. intros; bdestr.
  - intros k s Hk Hs. pose proof Hs as (_ & _ & Hcs & _). rewrite Hcs. cbn zeta.
    destruct (Z.leb_spec 0 (Z.of_nat k + o)) as [H0|H0]; cbn [andb].
    + destruct (Nat.ltb_spec (Z.to_nat (Z.of_nat k + o)) c) as [H1|H1].
      * destruct (mset_msp r c _ s k (Z.to_nat (Z.of_nat k + o)) x Hs (proj2 Hk) H1) as (s' & E' & Hs').
        exists s'; split; auto. eapply msp_ext; [exact Hs'|]. intros i j Hi Hj. unfold upd_fn. bdestr.
      * exists s; split; auto. eapply msp_ext; [exact Hs|]. intros i j Hi Hj. bdestr.
    + exists s; split; auto. eapply msp_ext; [exact Hs|]. intros i j Hi Hj. bdestr.
  - exists m'; split; [exact E|]. eapply msp_ext; [exact Hm'|]. intros; bdestr.
Qed.

Lemma fill_tridiag_msp r c f m l d u : msp r c f m ->
  exists m', fill_tridiag m l d u = Ok m' /\
    msp r c (fun i j => if j =? i + 1 then u else if i =? j then d else if i =? j + 1 then l else f i j) m'.
Proof.
  intros Hm. unfold fill_tridiag.
  destruct (fill_band_msp r c f m (-1)%Z l Hm) as (m1 & E1 & H1). rewrite E1; cbn [bind].
  destruct (fill_diag_msp r c _ m1 d H1) as (m2 & E2 & H2). rewrite E2; cbn [bind].
  destruct (fill_band_msp r c _ m2 1%Z u H2) as (m3 & E3 & H3).
  exists m3; split; auto. eapply msp_ext; [exact H3|]. intros i j Hi Hj. bdestr.
Qed.


(* ---------- swap_elem / swap_rows ---------- *)
Lemma swap_elem_msp r c f m r1 c1 r2 c2 : msp r c f m -> r1 < r -> c1 < c -> r2 < r -> c2 < c ->
  exists m', swap_elem m r1 c1 r2 c2 = Ok m' /\
    msp r c (fun i j => if (i =? r1) && (j =? c1) then f r2 c2
                        else if (i =? r2) && (j =? c2) then f r1 c1 else f i j) m'.
Proof.
  intros Hm H1 H2 H3 H4. unfold swap_elem.
  rewrite (mget_msp r c f m r1 c1 Hm H1 H2), (mget_msp r c f m r2 c2 Hm H3 H4). cbn [bind].
  destruct (mset_msp r c f m r2 c2 (f r1 c1) Hm H3 H4) as (m1 & E1 & Hm1). rewrite E1; cbn [bind].
  destruct (mset_msp r c _ m1 r1 c1 (f r2 c2) Hm1 H1 H2) as (m2 & E2 & Hm2).
  exists m2; split; [exact E2|exact Hm2].
Qed.

Lemma swap_rows_msp r c f m r1 r2 : msp r c f m -> r1 < r -> r2 < r ->
  exists m', swap_rows m r1 r2 = Ok m' /\
    msp r c (fun i j => if i =? r1 then f r2 j else if i =? r2 then f r1 j else f i j) m'.
Proof.
  intros Hm H1 H2. pose proof Hm as (Hw & Hr & Hc & He). unfold swap_rows. rewrite Hr, Hc.
  destruct (Nat.leb_spec r r1) as [Hx|_]; [lia|]. destruct (Nat.leb_spec r r2) as [Hx|_]; [lia|]. cbn [orb].
  destruct (for_msp r c (fun k i j => if j <? k then (if i =? r1 then f r2 j else if i =? r2 then f r1 j else f i j) else f i j)
              0 c (fun j s => swap_elem s r1 j r2 j) m) as (m' & E & Hm'); [lia| | |].
  - eapply msp_ext; [exact Hm|]. intros; bdestr.
  - intros k s Hk Hs.
    destruct (swap_elem_msp r c _ s r1 k r2 k Hs H1 (proj2 Hk) H2 (proj2 Hk)) as (s' & E' & Hs').
    exists s'; split; auto. eapply msp_ext; [exact Hs'|]. intros i j Hi Hj. bdestr.
  - exists m'; split; [exact E|]. eapply msp_ext; [exact Hm'|]. intros; bdestr.
Qed.

Lemma swap_rows_guard (m : matrix) r1 r2 : rows m <= r1 \/ rows m <= r2 -> swap_rows m r1 r2 = Panic Guard.
Proof.
  intros H; unfold swap_rows.
  destruct (Nat.leb_spec (rows m) r1); destruct (Nat.leb_spec (rows m) r2); cbn [orb]; auto; lia.
Qed.

(* ---------- delete_row ---------- *)
Lemma nth_firstn_lt {X} (l : list X) a k d : k < a -> nth k (firstn a l) d = nth k l d.
Proof.
  revert a k; induction l as [|h t IH]; intros [|a] [|k] H; cbn; auto; try lia. apply IH; lia.
Qed.

Lemma nth_skipn_add {X} (l : list X) b k d : nth k (skipn b l) d = nth (b + k) l d.
Proof.
  revert l; induction b as [|b IH]; intros [|h t]; cbn; auto. now destruct k.
Qed.

Lemma nth_cut {X} (l : list X) a b k d : a <= b -> b <= length l ->
  nth k (firstn a l ++ skipn b l) d = if k <? a then nth k l d else nth (k + (b - a)) l d.
Proof.
  intros Hab Hb. assert (Hl : length (firstn a l) = a) by (apply firstn_length_le; lia).
  destruct (Nat.ltb_spec k a).
  - rewrite app_nth1 by lia. now apply nth_firstn_lt.
  - rewrite app_nth2 by lia. rewrite Hl, nth_skipn_add. f_equal; lia.
Qed.

Lemma delete_row_msp r c f m row : msp r c f m -> row < r ->
  exists m', delete_row m row = Ok m' /\
    msp (r - 1) c (fun i j => if i <? row then f i j else f (S i) j) m'.
Proof.
  intros Hm Hrow. pose proof Hm as (Hw & Hr & Hc & He). unfold delete_row. rewrite Hr, Hc.
  destruct (Nat.leb_spec r row) as [Hx|_]; [lia|].
  assert (Hlen : (row + 1) * c <= length (buf m)).
  { rewrite Hw, Hr, Hc. apply Nat.mul_le_mono_r. lia. }
  destruct (Nat.leb_spec ((row + 1) * c) (length (buf m))) as [_|Hx]; [|lia].
  eexists; split; [reflexivity|].
  unfold msp, wf, entry; cbn [buf rows cols]. repeat split; auto.
  - rewrite app_length, firstn_length_le, skipn_length by nia. rewrite Hw, Hr, Hc. nia.
  - intros i j Hi Hj. rewrite nth_cut by nia.
    assert (Hi' : i < r) by lia.
    destruct (Nat.ltb_spec i row); destruct (Nat.ltb_spec (i * c + j) (row * c)); try nia.
    + specialize (He i j Hi' Hj). unfold entry in He. now rewrite Hc in He.
    + assert (HS : S i < r) by lia. specialize (He (S i) j HS Hj). unfold entry in He.
      rewrite Hc in He. rewrite <- He. f_equal. nia.
Qed.

Lemma delete_row_guard (m : matrix) row : rows m <= row -> delete_row m row = Panic Guard.
Proof. intros H; unfold delete_row. now destruct (Nat.leb_spec (rows m) row); [|lia]. Qed.

(* ---------- resize ---------- *)
Lemma resize_msp r c f m nr nc : msp r c f m ->
  exists m', resize m nr nc = Ok m' /\
    msp nr nc (fun i j => if (i <? r) && (j <? c) then f i j else zero) m'.
Proof.
  intros Hm. pose proof Hm as (Hw & Hr & Hc & He). unfold resize. rewrite Hr, Hc.
  destruct (for_msp nr nc (fun k i j => if (i <? k) && ((i <? r) && (j <? c)) then f i j else zero) 0 nr
     (fun i s => for_ 0 nc (fun j s =>
        if (i <? r) && (j <? c) then let* x := mget m i j in mset s i j x else Ok s) s)
     (mat_new nr nc zero)) as (m' & E & Hm'); [lia| | |].
  - eapply msp_ext; [apply msp_new|]. intros; bdestr.
  - intros k s Hk Hs.
    destruct (for_msp nr nc
       (fun q i j => if ((i <? k) || ((i =? k) && (j <? q))) && ((i <? r) && (j <? c)) then f i j else zero) 0 nc
       (fun j s => if (k <? r) && (j <? c) then let* x := mget m k j in mset s k j x else Ok s) s)
      as (s' & E' & Hs'); [lia| | |].
    + eapply msp_ext; [exact Hs|]. intros; bdestr.
    + intros q t Hq Ht.
      destruct (Nat.ltb_spec k r) as [Hkr|Hkr]; cbn [andb].
      * destruct (Nat.ltb_spec q c) as [Hqc|Hqc].
        -- rewrite (mget_msp r c f m k q Hm Hkr Hqc). cbn [bind].
           destruct (mset_msp nr nc _ t k q (f k q) Ht (proj2 Hk) (proj2 Hq)) as (t' & Et & Ht').
           exists t'; split; auto. eapply msp_ext; [exact Ht'|]. intros i j Hi Hj. unfold upd_fn. bdestr.
        -- exists t; split; auto. eapply msp_ext; [exact Ht|]. intros i j Hi Hj. bdestr.
      * exists t; split; auto. eapply msp_ext; [exact Ht|]. intros i j Hi Hj. bdestr.
    + exists s'; split; [exact E'|]. eapply msp_ext; [exact Hs'|]. intros; bdestr.
  - exists m'; split; [exact E|]. eapply msp_ext; [exact Hm'|]. intros; bdestr.
Qed.


(* ---------- multiply: matrix * vector as row dot products ----------
   [dot_raw] and [sum_n] are the same left fold from zero in index order, so the dot product IS the
   textbook sum, definitionally: no ring law is needed (the statement also holds for floats). *)
Fixpoint sum_acc (a : T) (n : nat) (g : nat -> T) : T :=
  match n with 0 => a | S n' => add (sum_acc a n' g) (g n') end.

Lemma sum_acc_zero n g : sum_acc zero n g = sum_n n g.
Proof. induction n as [|n IH]; cbn; congruence. Qed.

Lemma sum_acc_shift a n g : sum_acc a (S n) g = sum_acc (add a (g 0)) n (fun k => g (S k)).
Proof.
  induction n as [|n IH]; [reflexivity|].
  change (sum_acc a (S (S n)) g) with (add (sum_acc a (S n) g) (g (S n))).
  rewrite IH. reflexivity.
Qed.

Lemma dot_fold_sum (u w : list T) a : length u = length w ->
  fold_left (fun acc p => add acc (mul (fst p) (snd p))) (combine u w) a =
  sum_acc a (length u) (fun k => mul (nth k u zero) (nth k w zero)).
Proof.
  revert w a; induction u as [|x u IH]; intros [|y w] a H; cbn in H; try discriminate; [reflexivity|].
  cbn [combine fold_left length fst snd]. rewrite sum_acc_shift. cbn [nth].
  apply IH. lia.
Qed.

Lemma dot_raw_sum (u w : list T) : length u = length w ->
  dot_raw u w = sum_n (length u) (fun k => mul (nth k u zero) (nth k w zero)).
Proof. intros H. unfold dot_raw. rewrite dot_fold_sum by auto. apply sum_acc_zero. Qed.

Lemma for_push n (g : nat -> T) body :
  (forall k acc, k < n -> body k acc = Ok (acc ++ [g k])) ->
  exists v, for_ 0 n body [] = Ok v /\ vsp n g v.
Proof.
  intros Hb.
  destruct (for_inv (fun k acc => vsp k g acc) 0 n body []) as (v & E & Hv); [lia| | |].
  - split; auto. intros; lia.
  - intros k acc Hk (Hl & He). rewrite Hb by lia. eexists; split; [reflexivity|]. split.
    + rewrite app_length; cbn; lia.
    + intros i Hi. destruct (Nat.eq_dec i k) as [->|Hne].
      * rewrite app_nth2 by lia. now rewrite Hl, Nat.sub_diag.
      * rewrite app_nth1 by lia. apply He; lia.
  - exists v; auto.
Qed.

Lemma multiply_msp r c f m v : msp r c f m -> length v = c ->
  exists w, multiply m v = Ok w /\
    vsp r (fun i => sum_n c (fun k => mul (f i k) (nth k v zero))) w.
Proof.
  intros Hm Hv. pose proof Hm as (Hw & Hr & Hc & He). unfold multiply.
  rewrite Hc, Hr, Hv, Nat.eqb_refl. cbn [negb].
  apply for_push. intros k acc Hk.
  destruct (get_row_msp r c f m k Hm Hk) as (rv & E & Hl & Hrv). rewrite E. cbn [bind].
  unfold dot. rewrite Hl, Hv, Nat.eqb_refl. cbn [bind]. do 2 f_equal. f_equal.
  rewrite dot_raw_sum by lia. rewrite Hl. apply sum_n_ext. intros q Hq. now rewrite Hrv.
Qed.

Lemma multiply_guard (m : matrix) v : length v <> cols m -> multiply m v = Panic Guard.
Proof. intros H; unfold multiply. now destruct (Nat.eqb_spec (length v) (cols m)). Qed.

End MatProofs.
