(* Proofs/Matrix.v -- lemmas about Model/Matrix.v (dense matrices). *)
From Coq Require Import List Arith Lia.
From OV Require Import Base.Panic Base.Arith Model.Vector Model.Matrix.
Import ListNotations.

Section MatProofs.
Context {A : Arith}.

Definition wf (m : matrix A) : Prop := length (buf m) = rows m * cols m.

Lemma mat_new_wf_lemma r c (x : A) : wf (mat_new r c x) /\ rows (mat_new r c x) = r /\ cols (mat_new r c x) = c.
Proof. unfold wf, mat_new; cbn. now rewrite repeat_length. Qed.

End MatProofs.
