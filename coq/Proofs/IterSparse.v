(* Proofs/IterSparse.v -- round two, package iter2: the bridge between the Krylov solvers of Model/Iter.v
   and the implementation's own matrix type, the compressed-sparse-column storage of Model/Sparse.v.

   Round one proved the C08/C09 theorems for a matrix given by an abstract product with the
   hypothesis [LinOp n mulA] (total, additive, homogeneous on vectors of length n) and discharged it
   for list-of-rows matrices.  Here the hypothesis is discharged for [sp_mul s] of EVERY well-formed
   CSC storage ([wfS s], duplicates allowed) from package sparse's theorem
   [sp_mul_spec_lemma : sp_mul s x = Ok (dmulv (sp_entry s) rows cols x)]  (C07), and the theorems are
   restated for [run_sparse] -- the very function the correspondence check runs against the executor --
   with the matrix named by its entries [sp_entry s i j] (and by [sp_to_dense s] when no position is
   stored twice).  Squareness is not a hypothesis: it follows from the solvers' own guards. *)
From Coq Require Import List Arith Lia Bool Ring Field.
From OV Require Import Base.Panic Base.Arith Model.Vector Model.Matrix Model.Sparse Model.Iter
  Proofs.SparseBase Proofs.SparseMul Proofs.SparseFinal Proofs.Iter Proofs.IterField.
Import ListNotations.

(* the product of the matrix a storage denotes with a vector, entry i = sum_j a_ij x_j  (C07's dmulv) *)
Definition sp_apply {A : Arith} (s : sparse A) (x : list A) : list A :=
  dmulv (sp_entry s) (sp_rows s) (sp_cols s) x.
Definition sp_tapply {A : Arith} (s : sparse A) (y : list A) : list A :=
  dtmulv (sp_entry s) (sp_rows s) (sp_cols s) y.
(* entry (i,j) of a dense matrix, read off its row-major buffer *)
Definition mentry {A : Arith} (D : matrix A) (i j : nat) : A := nth (i * cols D + j) (buf D) zero.

(* a pair of products that are adjoint to each other on vectors of length n:  <y, A x> = <A^T y, x> *)
Record AdjOp {A : Arith} (n : nat) (mulA mulAT : list A -> res (list A)) : Prop := {
  ao_ok : forall v, length v = n -> exists w, mulAT v = Ok w /\ length w = n;
  ao_adj : forall x y ax aty, length x = n -> length y = n -> mulA x = Ok ax -> mulAT y = Ok aty ->
           dot_raw y ax = dot_raw aty x }.

Section DenseLinear.
Context {A : Arith}.
Variable RL : RingLaws A.
Notation T := (T A).
Add Ring Aring2 : (rl_ring A RL).

Lemma nth_zipw_add (u v : list T) j : length u = length v ->
  nth j (zipw add u v) zero = add (nth j u zero) (nth j v zero).
Proof.
  revert v j; induction u as [|a u IH]; intros [|b v] j Hl; cbn in Hl; try discriminate.
  - destruct j; cbn; ring.
  - destruct j; cbn; [reflexivity|]. apply IH. lia.
Qed.

Lemma nth_vscale (v : list T) c j : nth j (vscale v c) zero = mul (nth j v zero) c.
Proof.
  revert j; induction v as [|a v IH]; intros j.
  - destruct j; cbn; ring.
  - destruct j; cbn; [reflexivity | apply IH].
Qed.

Lemma zipw_len (f : T -> T -> T) (u v : list T) : length u = length v -> length (zipw f u v) = length u.
Proof. intros H. unfold zipw. rewrite map_length, combine_length. lia. Qed.
Lemma vscale_len (u : list T) c : length (vscale u c) = length u.
Proof. apply map_length. Qed.

Lemma dmulv_length (E : nat -> nat -> T) r c x : length (dmulv E r c x) = r.
Proof. unfold dmulv. now rewrite map_length, seq_length. Qed.
Lemma dtmulv_length (E : nat -> nat -> T) r c y : length (dtmulv E r c y) = c.
Proof. unfold dtmulv. now rewrite map_length, seq_length. Qed.

Lemma map_zipw_add {X} (f g : X -> T) (l : list X) :
  map (fun i => add (f i) (g i)) l = zipw add (map f l) (map g l).
Proof. induction l as [|a l IH]; cbn; auto. unfold zipw in *. cbn. now rewrite IH. Qed.

Lemma dmulv_add (E : nat -> nat -> T) r c (u v : list T) : length u = length v ->
  dmulv E r c (zipw add u v) = zipw add (dmulv E r c u) (dmulv E r c v).
Proof.
  intros Hl. unfold dmulv. rewrite <- map_zipw_add. apply map_ext. intros i.
  rewrite <- (sum_n_add RL). apply sum_n_ext. intros j _. rewrite nth_zipw_add by auto. ring.
Qed.

Lemma dmulv_scale (E : nat -> nat -> T) r c (v : list T) a :
  dmulv E r c (vscale v a) = vscale (dmulv E r c v) a.
Proof.
  unfold dmulv, vscale. rewrite map_map. apply map_ext. intros i.
  rewrite <- (sum_n_scale_r RL). apply sum_n_ext. intros j _. fold (vscale v a). rewrite nth_vscale. ring.
Qed.

Lemma dtmulv_add (E : nat -> nat -> T) r c (u v : list T) : length u = length v ->
  dtmulv E r c (zipw add u v) = zipw add (dtmulv E r c u) (dtmulv E r c v).
Proof.
  intros Hl. unfold dtmulv. rewrite <- map_zipw_add. apply map_ext. intros j.
  rewrite <- (sum_n_add RL). apply sum_n_ext. intros i _. rewrite nth_zipw_add by auto. ring.
Qed.

Lemma dtmulv_scale (E : nat -> nat -> T) r c (v : list T) a :
  dtmulv E r c (vscale v a) = vscale (dtmulv E r c v) a.
Proof.
  unfold dtmulv, vscale. rewrite map_map. apply map_ext. intros j.
  rewrite <- (sum_n_scale_r RL). apply sum_n_ext. intros i _. fold (vscale v a). rewrite nth_vscale. ring.
Qed.

(* only the entries inside the r x c window matter *)
Lemma dmulv_ext (E E' : nat -> nat -> T) r c x :
  (forall i j, i < r -> j < c -> E i j = E' i j) -> dmulv E r c x = dmulv E' r c x.
Proof.
  intros H. unfold dmulv. apply map_ext_in. intros i Hi. apply in_seq in Hi.
  apply sum_n_ext. intros j Hj. rewrite H by lia. reflexivity.
Qed.
End DenseLinear.

Section SparseOp.
Context {A : Arith}.
Variable RL : RingLaws A.
Notation T := (T A).

(* EVERY well-formed square CSC storage is a linear operator in the sense of Proofs/IterField.v *)
Theorem sp_mul_LinOp (s : sparse A) n : wfS s -> sp_rows s = n -> sp_cols s = n -> LinOp n (sp_mul s).
Proof.
  intros Hwf Hr Hc. split.
  - intros v Hv. exists (sp_apply s v). split.
    + apply (sp_mul_spec_lemma RL); auto. lia.
    + unfold sp_apply. now rewrite dmulv_length.
  - intros u v a b Hu Hv Ea Eb.
    rewrite (sp_mul_spec_lemma RL) in Ea, Eb by (auto; lia). injection Ea as <-. injection Eb as <-.
    rewrite (sp_mul_spec_lemma RL); auto.
    + f_equal. apply (dmulv_add RL). lia.
    + rewrite zipw_len; lia.
  - intros c v a Hv Ea.
    rewrite (sp_mul_spec_lemma RL) in Ea by (auto; lia). injection Ea as <-.
    rewrite (sp_mul_spec_lemma RL); auto.
    + f_equal. apply (dmulv_scale RL).
    + rewrite vscale_len. lia.
Qed.

(* ... and transpose_multiply is its adjoint *)
Theorem sp_mul_AdjOp (s : sparse A) n : wfS s -> sp_rows s = n -> sp_cols s = n ->
  AdjOp n (sp_mul s) (sp_tmul s).
Proof.
  intros Hwf Hr Hc. split.
  - intros v Hv. exists (sp_tapply s v). split.
    + apply (sp_tmul_spec_lemma RL); auto. lia.
    + unfold sp_tapply. now rewrite dtmulv_length.
  - intros x y ax aty Hx Hy Ex Ey.
    rewrite (sp_mul_spec_lemma RL) in Ex by (auto; lia). injection Ex as <-.
    rewrite (sp_tmul_spec_lemma RL) in Ey by (auto; lia). injection Ey as <-.
    apply (dense_adjoint RL); lia.
Qed.

(* transpose_multiply of a well-formed square storage is a linear operator too *)
Theorem sp_tmul_LinOp (s : sparse A) n : wfS s -> sp_rows s = n -> sp_cols s = n -> LinOp n (sp_tmul s).
Proof.
  intros Hwf Hr Hc. split.
  - intros v Hv. exists (sp_tapply s v). split.
    + apply (sp_tmul_spec_lemma RL); auto. lia.
    + unfold sp_tapply. now rewrite dtmulv_length.
  - intros u v a b Hu Hv Ea Eb.
    rewrite (sp_tmul_spec_lemma RL) in Ea, Eb by (auto; lia). injection Ea as <-. injection Eb as <-.
    rewrite (sp_tmul_spec_lemma RL); auto.
    + f_equal. apply (dtmulv_add RL). lia.
    + rewrite zipw_len; lia.
  - intros c v a Hv Ea.
    rewrite (sp_tmul_spec_lemma RL) in Ea by (auto; lia). injection Ea as <-.
    rewrite (sp_tmul_spec_lemma RL); auto.
    + f_equal. apply (dtmulv_scale RL).
    + rewrite vscale_len. lia.
Qed.

Lemma sp_mul_Ok_inv (s : sparse A) x ax : wfS s -> length x = sp_cols s -> sp_mul s x = Ok ax -> ax = sp_apply s x.
Proof. intros Hwf Hx E. rewrite (sp_mul_spec_lemma RL) in E by auto. now injection E as <-. Qed.

(* the dense conversion names the same matrix when no position is stored twice *)
Lemma sp_apply_dense (s : sparse A) : wfS s -> NoDupKeys s ->
  exists D, sp_to_dense s = Ok D /\ rows D = sp_rows s /\ cols D = sp_cols s /\
    forall x, sp_apply s x = dmulv (mentry D) (rows D) (cols D) x.
Proof.
  intros Hwf Hnd. destruct (to_dense_entry_lemma RL s Hwf Hnd) as (D & ED & Hr & Hc & HD).
  exists D. repeat split; auto. intros x. unfold sp_apply. rewrite Hr, Hc.
  apply dmulv_ext. intros i j Hi Hj. specialize (HD i j Hi Hj). unfold mget in HD.
  apply (rd_Ok_inv _ _ _ zero) in HD as (_ & ->). reflexivity.
Qed.
End SparseOp.

(* every solver starts with the three guards: a run that returns anything was given a square matrix and
   vectors of its order *)
Section GuardsPassed.
Context {A : SArith}.
Notation F := (T (SA A)).
Variables (mulA mulAT : list F -> res (list F)) (rows cols : nat).

Lemma run_guards sv (b x0 : list F) n tol o :
  run mulA mulAT rows cols sv b x0 n tol = Ok o -> rows = length b /\ rows = cols /\ length b = length x0.
Proof.
  destruct sv as [|itol| |]; cbn [run]; intros H.
  - unfold solve_cg in H. apply bind_ok in H as (u & Hg & _). now apply guards_Ok in Hg.
  - unfold solve_bicg in H. apply bind_ok in H as (st & Hs & _). unfold bicg_start in Hs.
    apply bind_ok in Hs as (u & Hg & _). now apply guards_Ok in Hg.
  - unfold solve_bicgstab in H. apply bind_ok in H as (u & Hg & _). now apply guards_Ok in Hg.
  - unfold solve_qmr in H. apply bind_ok in H as (u & Hg & _). now apply guards_Ok in Hg.
Qed.
End GuardsPassed.

Definition FL_RingLaws {A : Arith} (FL : FieldLaws A) : RingLaws A :=
  {| rl_ring := F_R (fl_field A FL) |}.

Section SparseSolvers.
Context {A : SArith}.
Notation F := (T (SA A)).
Variable FL : FieldLaws (SA A).
Let RL : RingLaws (SA A) := FL_RingLaws FL.

Lemma run_sparse_square sv (s : sparse (SA A)) b x0 n tol o :
  run_sparse sv s b x0 n tol = Ok o ->
  sp_rows s = sp_cols s /\ length b = sp_rows s /\ length x0 = sp_rows s.
Proof. unfold run_sparse. intros H. apply run_guards in H. lia. Qed.

(* the recurrence residual is the true residual b - A x at every exit of every solver, Ok or Err *)
Theorem run_sparse_tracks sv (s : sparse (SA A)) b x0 max tol r x g : wfS s ->
  run_sparse sv s b x0 max tol = Ok (r, x, g) ->
  g_t g = zipw sub b (sp_apply s x) /\ length x = sp_cols s.
Proof.
  intros Hwf H. destruct (run_sparse_square _ _ _ _ _ _ _ H) as (Hsq & Hb & Hx0).
  pose proof (sp_mul_LinOp RL s (sp_rows s) Hwf eq_refl (eq_sym Hsq)) as LO.
  assert (Hx : length x = sp_cols s).
  { unfold run_sparse in H. apply run_length in H. lia. }
  unfold run_sparse in H. rewrite <- Hsq in H.
  destruct (run_tracks FL _ _ _ LO _ _ _ _ _ _ _ H) as (ax & Eax & Eg).
  apply (sp_mul_Ok_inv RL) in Eax as ->; auto.
Qed.

(* Ok k: the TRUE residual b - A x, A the matrix the storage denotes, passes the code's own test *)
Theorem run_sparse_ok_solved sv (s : sparse (SA A)) b x0 max tol k x g : wfS s ->
  run_sparse sv s b x0 max tol = Ok (IOk k, x, g) ->
  exists resid, div (norm2 (zipw sub b (sp_apply s x))) (nz (norm2 b)) = Ok resid /\
                (leb resid tol = true \/ ltb resid tol = true).
Proof.
  intros Hwf H. destruct (run_sparse_tracks _ _ _ _ _ _ _ _ _ Hwf H) as (Eg & _).
  unfold run_sparse in H. destruct (proj2 (run_ok_inv _ _ _ _ _ _ _ _ _ _ _ _ H)) as (resid & Er & Ht).
  exists resid. rewrite <- Eg. auto.
Qed.

(* the same against the dense conversion (storage without duplicate positions) *)
Theorem run_sparse_ok_solved_dense sv (s : sparse (SA A)) b x0 max tol k x g : wfS s -> NoDupKeys s ->
  run_sparse sv s b x0 max tol = Ok (IOk k, x, g) ->
  exists D resid, sp_to_dense s = Ok D /\
    div (norm2 (zipw sub b (dmulv (mentry D) (rows D) (cols D) x))) (nz (norm2 b)) = Ok resid /\
    (leb resid tol = true \/ ltb resid tol = true).
Proof.
  intros Hwf Hnd H. destruct (sp_apply_dense RL s Hwf Hnd) as (D & ED & _ & _ & HD).
  destruct (run_sparse_ok_solved _ _ _ _ _ _ _ _ _ Hwf H) as (resid & Er & Ht).
  exists D, resid. rewrite <- HD. auto.
Qed.

Variable SL : SqrtLaws A.

(* a guess with b - A x0 = 0 is accepted at once *)
Theorem run_sparse_exact_guess sv (s : sparse (SA A)) b x0 max tol : wfS s ->
  sp_rows s = sp_cols s -> length b = sp_rows s -> length x0 = sp_rows s ->
  (forall itol, sv = BiCG itol -> itol = 1 \/ itol = 2) ->
  zipw sub b (sp_apply s x0) = repeat zero (sp_rows s) ->
  leb zero tol = true ->
  exists g, run_sparse sv s b x0 max tol = Ok (IOk 0, x0, g).
Proof.
  intros Hwf Hsq Hb Hx Hit Er Htol.
  pose proof (sp_mul_LinOp RL s (sp_rows s) Hwf eq_refl (eq_sym Hsq)) as LO.
  unfold run_sparse. rewrite <- Hsq.
  apply (run_exact_guess FL SL (sp_rows s) (sp_mul s) (sp_tmul s) LO sv b x0 max tol (sp_apply s x0)); auto.
  apply (sp_mul_spec_lemma RL); auto. lia.
Qed.

Theorem run_sparse_zero_rhs_zero_guess sv (s : sparse (SA A)) max tol : wfS s ->
  sp_rows s = sp_cols s ->
  (forall itol, sv = BiCG itol -> itol = 1 \/ itol = 2) ->
  leb zero tol = true ->
  exists g, run_sparse sv s (repeat zero (sp_rows s)) (repeat zero (sp_rows s)) max tol
            = Ok (IOk 0, repeat zero (sp_rows s), g).
Proof.
  intros Hwf Hsq Hit Htol.
  pose proof (sp_mul_LinOp RL s (sp_rows s) Hwf eq_refl (eq_sym Hsq)) as LO.
  unfold run_sparse. rewrite <- Hsq.
  exact (run_zero_rhs_zero_guess FL SL (sp_rows s) (sp_mul s) (sp_tmul s) LO sv max tol Hit Htol).
Qed.

End SparseSolvers.
