(* Proofs/SparseWf.v -- C06, structural half: from_triplets on in-range triplets builds a well-formed
   compressed-column matrix whose triplet list is the stably sorted input; well-formedness is
   preserved by insert, scale and transpose, hence by every history. *)
From Coq Require Import List Arith Lia Bool Permutation.
From OV Require Import Base.Panic Base.Arith Model.Vector Model.Matrix Model.Sparse Proofs.SparseBase.
Import ListNotations.

(* ---------- key lists: sortedness, counts, prefix counts ---------- *)
Fixpoint sorted (ks : list nat) : Prop :=
  match ks with
  | [] => True
  | a :: t => (forall b, In b t -> a <= b) /\ sorted t
  end.

Definition cnt (ks : list nat) (j : nat) : nat := count_occ Nat.eq_dec ks j.
Definition below (ks : list nat) (j : nat) : nat := length (filter (fun x => x <? j) ks).

Lemma below_0 ks : below ks 0 = 0.
Proof. unfold below. induction ks; cbn; auto. Qed.

Lemma below_S ks j : below ks (j + 1) = below ks j + cnt ks j.
Proof.
  unfold below, cnt. induction ks as [|a t IH]; [reflexivity|]. cbn [filter count_occ].
  destruct (Nat.ltb_spec a (j + 1)), (Nat.ltb_spec a j), (Nat.eq_dec a j); cbn [length]; lia.
Qed.

Lemma below_all ks c : (forall x, In x ks -> x < c) -> below ks c = length ks.
Proof.
  unfold below. induction ks as [|a t IH]; intros H; [reflexivity|]. cbn [filter].
  destruct (Nat.ltb_spec a c).
  - cbn [length]. rewrite IH; auto. intros; apply H; right; auto.
  - specialize (H a (or_introl eq_refl)). lia.
Qed.

Lemma below_none ks j : (forall x, In x ks -> j <= x) -> below ks j = 0.
Proof.
  unfold below. induction ks as [|a t IH]; intros H; [reflexivity|]. cbn [filter].
  destruct (Nat.ltb_spec a j).
  - specialize (H a (or_introl eq_refl)). lia.
  - apply IH. intros; apply H; right; auto.
Qed.

Lemma below_cons a t j : below (a :: t) j = (if a <? j then 1 else 0) + below t j.
Proof. unfold below. cbn [filter]. destruct (a <? j); reflexivity. Qed.

Lemma sorted_below ks j k : sorted ks -> k < length ks -> (nth k ks 0 < j <-> k < below ks j).
Proof.
  revert k; induction ks as [|a t IH]; intros k Hs Hk; cbn [length] in Hk; [lia|].
  destruct Hs as [Ha Hs]. rewrite below_cons.
  destruct (Nat.ltb_spec a j) as [Haj|Haj].
  - destruct k as [|k]; cbn [nth]; [lia|].
    rewrite IH by (auto; lia). lia.
  - rewrite (below_none t j) by (intros x Hx; specialize (Ha x Hx); lia).
    destruct k as [|k]; cbn [nth]; [lia|].
    assert (a <= nth k t 0) by (apply Ha, nth_In; lia). lia.
Qed.

Lemma map_nth_seq {X} (l : list X) d : map (fun k => nth k l d) (seq 0 (length l)) = l.
Proof.
  apply (nth_ext _ _ d d).
  - now rewrite map_length, seq_length.
  - rewrite map_length, seq_length. intros k Hk.
    rewrite (nth_indep _ d (nth 0 l d)) by (now rewrite map_length, seq_length).
    rewrite (map_nth (fun k => nth k l d) (seq 0 (length l)) 0 k). now rewrite seq_nth.
Qed.

Lemma fold_left_snoc_map {X Y} (f : X -> Y) l a :
  fold_left (fun acc x => acc ++ [f x]) l a = a ++ map f l.
Proof.
  revert a; induction l as [|x t IH]; intros a; cbn.
  - now rewrite app_nil_r.
  - rewrite IH, <- app_assoc. reflexivity.
Qed.

(* reading a list by index 0..len-1 inside a fold is folding over the list *)
Lemma foldM_index {S X} (f : S -> X -> res S) (l : list X) s :
  foldM (fun s n => let* x := rd l n in f s x) (seq 0 (length l)) s = foldM f l s.
Proof.
  revert s. induction l as [|x l IH] using rev_ind; intros s; [reflexivity|].
  rewrite app_length. cbn [length]. rewrite seq_app, !foldM_app. cbn [Nat.add seq].
  rewrite (foldM_ext_in _ (fun s n => let* x0 := rd l n in f s x0)).
  2:{ intros s0 n Hn. apply in_seq in Hn. cbn beta. unfold rd. rewrite (nth_error_app1 l [x]) by lia. reflexivity. }
  rewrite IH. destruct (foldM f l s); cbn [bind]; auto.
  cbn [foldM]. unfold rd. rewrite (nth_error_app2 l [x]) by lia. rewrite Nat.sub_diag. reflexivity.
Qed.

(* the counting loop:  for x in ks { cs[x] += 1 } *)
Definition inc (cs : list nat) (x : nat) : res (list nat) := let* c := rd cs x in upd cs x (c + 1).

Lemma count_fold ks init : (forall x, In x ks -> x < length init) ->
  exists r, foldM inc ks init = Ok r /\ length r = length init /\
            forall j, nth j r 0 = nth j init 0 + cnt ks j.
Proof.
  revert init; induction ks as [|a t IH]; intros init H.
  - exists init. cbn. repeat split; auto.
  - assert (Ha : a < length init) by (apply H; left; auto).
    cbn [foldM]. unfold inc at 1. rewrite (rd_ok init a 0) by auto. cbn [bind]. rewrite upd_ok by auto. cbn [bind].
    destruct (IH (upd_list init a (nth a init 0 + 1))) as (r & E & Hl & Hn).
    { intros x Hx. rewrite upd_list_length. apply H; right; auto. }
    exists r. split; auto. rewrite upd_list_length in Hl. split; auto.
    intros j. rewrite Hn, nth_upd_list by auto. unfold cnt. cbn [count_occ].
    destruct (Nat.eq_dec a j) as [->|Hne].
    + rewrite Nat.eqb_refl. lia.
    + destruct (Nat.eqb_spec j a); [congruence|]. lia.
Qed.

(* the prefix-sum loop of col_start_from_index *)
Lemma prefix_loop ks c (cnts : list nat) :
  length cnts = c + 1 -> (forall j, nth j cnts 0 = cnt ks j) ->
  exists cs sum,
    for_ 0 c (fun k (st : list nat * nat) =>
                let* ck := rd (fst st) k in
                let* cs' := upd (fst st) k (snd st) in
                Ok (cs', snd st + ck)) (cnts, 0) = Ok (cs, sum) /\
    length cs = c + 1 /\ sum = below ks c /\ (forall j, j < c -> nth j cs 0 = below ks j).
Proof.
  intros Hl Hc.
  destruct (for_inv (fun k (st : list nat * nat) =>
              length (fst st) = c + 1 /\ snd st = below ks k /\
              (forall j, j < k -> nth j (fst st) 0 = below ks j) /\
              (forall j, k <= j -> nth j (fst st) 0 = cnt ks j))
            0 c (fun k (st : list nat * nat) =>
                let* ck := rd (fst st) k in
                let* cs' := upd (fst st) k (snd st) in
                Ok (cs', snd st + ck)) (cnts, 0)) as ([cs sum] & E & H1 & H2 & H3 & H4).
  - lia.
  - cbn [fst snd]. rewrite below_0. repeat split; auto. intros; lia.
  - intros k [cs sum] Hk (H1 & H2 & H3 & H4). cbn [fst snd] in *.
    rewrite (rd_ok cs k 0) by lia. cbn [bind]. rewrite upd_ok by lia. cbn [bind].
    eexists; split; [reflexivity|]. cbn [fst snd]. rewrite upd_list_length. split; auto.
    split. { rewrite H4 by lia. replace (S k) with (k + 1) by lia. rewrite below_S. lia. }
    split.
    + intros j Hj. rewrite nth_upd_list by lia. destruct (Nat.eqb_spec j k) as [->|Hne]; auto. apply H3; lia.
    + intros j Hj. rewrite nth_upd_list by lia. destruct (Nat.eqb_spec j k) as [->|Hne]; [lia|]. apply H4; lia.
  - exists cs, sum. cbn [fst snd] in *. auto.
Qed.

Section Wf.
Context {A : Arith}.
Notation T := (T A).
Notation sparse := (sparse A).
Notation triplet := (triplet A).

Definition tdef : triplet := (0, 0, zero).

(* ---------- the stable sort by column ---------- *)
Lemma ins_by_col_perm (t : triplet) l : Permutation (ins_by_col t l) (t :: l).
Proof.
  induction l as [|u r IH]; cbn; auto.
  destruct (tcol t <=? tcol u); auto.
  rewrite IH. apply perm_swap.
Qed.

Lemma sort_by_col_perm (l : list triplet) : Permutation (sort_by_col l) l.
Proof.
  induction l as [|t l IH]; cbn; auto.
  rewrite ins_by_col_perm. now constructor.
Qed.

Lemma ins_by_col_sorted (t : triplet) l : sorted (map (@tcol A) l) -> sorted (map (@tcol A) (ins_by_col t l)).
Proof.
  induction l as [|u r IH]; intros Hs; cbn.
  - split; auto. intros b [].
  - destruct Hs as [Hu Hs]. destruct (Nat.leb_spec (tcol t) (tcol u)) as [Hle|Hgt]; cbn [map sorted].
    + split; [|split; auto]. intros b [<-|Hb]; auto. specialize (Hu b Hb). lia.
    + split; [|apply IH; auto]. intros b Hb.
      assert (Hp : Permutation (map (@tcol A) (ins_by_col t r)) (map (@tcol A) (t :: r))) by (apply Permutation_map, ins_by_col_perm).
      apply (Permutation_in _ Hp) in Hb. destruct Hb as [<-|Hb]; [lia|auto].
Qed.

Lemma sort_by_col_sorted (l : list triplet) : sorted (map (@tcol A) (sort_by_col l)).
Proof. induction l as [|t l IH]; cbn; auto. now apply ins_by_col_sorted. Qed.

(* ---------- the drain loop ---------- *)
Lemma drain_ok r c (L : list triplet) d0 : (forall t, In t L -> trow t < r /\ tcol t < c) ->
  foldM (drain_step r c) L d0 =
  Ok (mkD (d_ri d0 ++ map (@trow A) L) (d_ci d0 ++ map (@tcol A) L) (d_val d0 ++ map (@tval A) L) (d_nz d0 + length L)).
Proof.
  revert d0; induction L as [|t L IH]; intros d0 H; cbn [foldM map length].
  - rewrite !app_nil_r, Nat.add_0_r. now destruct d0.
  - destruct (H t (or_introl eq_refl)) as [Hr Hc].
    unfold drain_step at 1.
    destruct (Nat.leb_spec r (trow t)); [lia|]. destruct (Nat.leb_spec c (tcol t)); [lia|]. cbn [bind].
    rewrite IH by (intros; apply H; right; auto). cbn [d_ri d_ci d_val d_nz].
    rewrite <- !app_assoc. cbn [app]. do 2 f_equal. lia.
Qed.

(* ---------- col_start_from_index ---------- *)
Lemma col_start_ok (s : sparse) ci : sp_nonzero s = length ci -> (forall x, In x ci -> x < sp_cols s) ->
  exists cs, sp_col_start_from_index s ci = Ok cs /\ length cs = sp_cols s + 1 /\
             forall j, j <= sp_cols s -> nth j cs 0 = below ci j.
Proof.
  intros Hnz Hci. unfold sp_col_start_from_index.
  rewrite for_foldM, Nat.sub_0_r, Hnz.
  rewrite (foldM_index (fun cs c => let* x := rd cs c in upd cs c (x + 1)) ci).
  destruct (count_fold ci (repeat 0 (sp_cols s + 1))) as (cnts & E & Hl & Hn).
  { intros x Hx. rewrite repeat_length. specialize (Hci x Hx). lia. }
  unfold inc in E. rewrite E. cbn [bind]. rewrite repeat_length in Hl.
  destruct (prefix_loop ci (sp_cols s) cnts) as (cs & sum & E2 & Hl2 & Hsum & Hcs); auto.
  { intros j. rewrite Hn, nth_repeat. reflexivity. }
  rewrite E2. cbn [bind fst snd]. rewrite upd_ok by lia.
  eexists; split; [reflexivity|]. rewrite upd_list_length. split; auto.
  intros j Hj. rewrite nth_upd_list by lia.
  destruct (Nat.eqb_spec j (sp_cols s)) as [->|Hne]; auto. apply Hcs; lia.
Qed.

(* ---------- to_triplets of a well-formed matrix is the column walk ---------- *)
Lemma sp_to_triplets_ok (s : sparse) : wfS s -> sp_to_triplets s = Ok (ents s).
Proof.
  intros Hwf. unfold sp_to_triplets.
  rewrite (for_cols_foldM _ _ _ (fun _ => tt)); auto using wf_length_cs.
  destruct (foldM_pure (fun _ => True)
     (fun acc jk => let* r := rd (sp_row_index s) (snd jk) in let* v := rd (sp_val s) (snd jk) in Ok (acc ++ [(r, fst jk, v)]))
     (fun acc jk => acc ++ [ent s jk]) (visits (sp_col_start s) (sp_cols s)) []) as [E _]; auto.
  - intros acc jk _ Hin. destruct (wf_visit_lt s jk Hwf Hin) as [_ Hk].
    destruct Hwf as (_ & _ & _ & _ & Hv & Hri & _).
    rewrite (rd_ok _ _ 0) by lia. cbn [bind]. rewrite (rd_ok _ _ zero) by lia. cbn [bind]. auto.
  - rewrite E. f_equal. now rewrite fold_left_snoc_map.
Qed.

Lemma ents_in_range (s : sparse) t : wfS s -> In t (ents s) -> trow t < sp_rows s /\ tcol t < sp_cols s.
Proof.
  intros Hwf Hin. unfold ents in Hin. apply in_map_iff in Hin as (jk & <- & Hin).
  unfold ent, trow, tcol. cbn [fst snd]. split.
  - now apply wf_row_lt.
  - now apply (wf_visit_lt s jk Hwf).
Qed.

(* ---------- from_triplets ---------- *)
Theorem from_triplets_wf_lemma r c (ts : list triplet) :
  (forall t, In t ts -> trow t < r /\ tcol t < c) ->
  exists s, sp_from_triplets r c ts = Ok s /\ wfS s /\ sp_rows s = r /\ sp_cols s = c /\
            sp_to_triplets s = Ok (sort_by_col ts) /\ Permutation (sort_by_col ts) ts.
Proof.
  intros Hin. set (L := sort_by_col ts).
  assert (HP : Permutation L ts) by apply sort_by_col_perm.
  assert (HL : forall t, In t L -> trow t < r /\ tcol t < c).
  { intros t Ht. apply Hin. eapply Permutation_in; eauto. }
  unfold sp_from_triplets. fold L. rewrite drain_ok by auto. cbn [bind d_ri d_ci d_val d_nz app Nat.add].
  set (s0 := mkS r c (length L) (map (@tval A) L) (map (@trow A) L) (repeat 0 (c + 1))).
  destruct (col_start_ok s0 (map (@tcol A) L)) as (cs & E & Hl & Hcs).
  { cbn. now rewrite map_length. }
  { intros x Hx. apply in_map_iff in Hx as (t & <- & Ht). cbn. apply HL; auto. }
  rewrite E. cbn [bind]. cbn [sp_cols s0] in Hl, Hcs.
  set (s := mkS r c (length L) (map (@tval A) L) (map (@trow A) L) cs).
  assert (Hwf : wfS s).
  { unfold wfS, s. cbn [sp_rows sp_cols sp_nonzero sp_val sp_row_index sp_col_start].
    rewrite !map_length. repeat split; auto.
    - rewrite Hcs by lia. apply below_0.
    - intros j Hj. rewrite !Hcs by lia. rewrite below_S. lia.
    - rewrite Hcs by lia. rewrite below_all, map_length; auto.
      intros x Hx. apply in_map_iff in Hx as (t & <- & Ht). apply HL; auto.
    - intros k Hk. rewrite (nth_indep _ 0 (trow tdef)) by (now rewrite map_length).
      rewrite (map_nth (@trow A)). apply HL, nth_In; auto. }
  exists s. split; auto. split; auto. split; auto. split; auto. split; auto.
  rewrite sp_to_triplets_ok by auto. f_equal.
  (* the column walk lists L itself *)
  rewrite <- (map_nth_seq L tdef) at 1.
  assert (Hsnd := wf_visits_snd s Hwf). cbn [sp_col_start sp_cols sp_nonzero s] in Hsnd.
  unfold ents. cbn [sp_col_start sp_cols s]. rewrite <- Hsnd, map_map.
  apply map_ext_in. intros [j k] Hjk.
  assert (Hk : k < length L).
  { apply (wf_visit_lt s (j, k) Hwf) in Hjk. cbn in Hjk. lia. }
  apply visits_in in Hjk as (Hj & Hlo & Hhi). rewrite !Hcs in * by lia.
  assert (Hcol : tcol (nth k L tdef) = j).
  { assert (Hs := sort_by_col_sorted ts). fold L in Hs.
    assert (Hk' : k < length (map (@tcol A) L)) by (now rewrite map_length).
    assert (Hn : nth k (map (@tcol A) L) 0 = tcol (nth k L tdef)).
    { rewrite (nth_indep _ 0 (tcol tdef)) by auto. apply (map_nth (@tcol A)). }
    pose proof (sorted_below _ j k Hs Hk') as B1. pose proof (sorted_below _ (j + 1) k Hs Hk') as B2.
    rewrite Hn in *. lia. }
  unfold ent. cbn [fst snd sp_row_index sp_val s].
  rewrite (nth_indep _ 0 (trow tdef)) by (now rewrite map_length).
  rewrite (map_nth (@trow A)).
  rewrite (nth_indep (map _ _) zero (tval tdef)) by (now rewrite map_length).
  rewrite (map_nth (@tval A)). rewrite <- Hcol.
  destruct (nth k L tdef) as [[a b] v]. reflexivity.
Qed.

End Wf.
