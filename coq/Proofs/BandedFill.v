(* Proofs/BandedFill.v -- Banded::fill on the dense twin: every in-band entry becomes x. *)
From Coq Require Import List Arith Lia ZArith Bool.
From OV Require Import Base.Panic Base.Arith Model.Vector Model.Matrix Model.Banded
                       Proofs.Banded Proofs.BandedLU Proofs.BandedTotal Proofs.BandedHist Proofs.BandedEdit.
Import ListNotations.
Local Open Scope nat_scope.

Section Fill.
Context {A : Arith}.
Notation T := (T A).
Notation matrix := (matrix A).
Notation banded := (banded A).

Lemma fill_spec n mm (m : matrix) (x : T) :
  okM n mm m -> rows m = n ->
  exists m', fill m x = Ok m' /\ same_shape m m' /\
    forall i s, i < n -> s < mm -> mat_at m' mm i s = x.
Proof.
  intros Hm Hr. unfold fill. rewrite Hr.
  match goal with |- context [for_ 0 n ?body m] =>
    destruct (for_inv (fun i (a : matrix) => okM n mm a /\ same_shape m a /\
                forall i' s', s' < mm -> i' < i -> mat_at a mm i' s' = x) 0 n body m) as (m' & E & _ & Hsh & Hel) end.
  - lia.
  - split; auto. split; [apply same_shape_refl|]. intros; lia.
  - intros i a Hi (Ha & Hsh & Hel). rewrite (proj1 Ha).
    match goal with |- context [for_ 0 mm ?body a] =>
      destruct (for_inv (fun j (b : matrix) => okM n mm b /\ same_shape m b /\
                  forall i' s', s' < mm -> i' < i \/ (i' = i /\ s' < j) -> mat_at b mm i' s' = x) 0 mm body a)
        as (a' & E & Ha' & Hsh' & Hel') end.
    + lia.
    + split; auto. split; auto. intros i' s' Hs' [H|(_ & H)]; [now apply Hel|lia].
    + intros j b Hj (Hb & Hshb & Helb).
      destruct (mset_total n mm b i j x) as (b' & Eb & Hb'); auto; try lia.
      exists b'. split; auto. split; auto. split.
      * eapply same_shape_trans; eauto. eapply mset_shape; eauto.
      * apply (mset_Ok_inv _ _ mm) in Eb as (_ & _ & Helb'); [|apply Hb|lia].
        intros i' s' Hs' H. rewrite Helb' by auto.
        destruct (Nat.eqb_spec i' i) as [->|Hne]; cbn [andb].
        -- destruct (Nat.eqb_spec s' j) as [->|]; auto. apply Helb; auto. right. split; auto. lia.
        -- apply Helb; auto. left. lia.
    + exists a'. split; auto. split; auto. split; auto.
      intros i' s' Hs' Hi'. apply Hel'; auto.
      destruct (Nat.eq_dec i' i) as [->|]; [right; auto|left; lia].
  - exists m'. split; auto.
Qed.

Lemma band_fill_dense (B : banded) (x : T) :
  wfB B ->
  exists B', band_fill B x = Ok B' /\ wfB B' /\ bn B' = bn B /\ bm1 B' = bm1 B /\ bm2 B' = bm2 B /\
    forall i j, i < bn B -> j < bn B ->
      dense_entry B' i j = if in_band (bm1 B) (bm2 B) i j then x else zero.
Proof.
  intros Hwf. unfold band_fill. pose proof Hwf as (_ & Hrows & _).
  destruct (fill_spec (bn B) (bm1 B + bm2 B + 1) (compact B) x (wfB_okM B Hwf) Hrows) as (m' & -> & Hsh & Hel).
  cbn [bind]. eexists; split; [reflexivity|]. split; [now apply wfB_with_compact|].
  cbn [with_compact bn bm1 bm2]. repeat split; auto.
  intros i j Hi Hj. unfold dense_entry; cbn [with_compact bm1 bm2].
  destruct (in_band (bm1 B) (bm2 B) i j) eqn:E; auto.
  rewrite cslot_mat_at; cbn [with_compact bm1 bm2 compact]. apply Hel; auto.
  now apply (band_slot_range (bm1 B) (bm2 B)).
Qed.

End Fill.
