(* Proofs/MeshHist.v -- the step function that the correspondence check runs against the
   implementation (Model/MeshOps.v, kinds mesh.hist1 / mesh.hist2) is, on writes, the step function
   of the history theorems (Proofs/MeshStore.v); hence the refinement theorem holds for the very
   operation sequences that are executed on both sides. *)
From Coq Require Import List Arith Lia Bool.
From OV Require Import Base.Panic.
From OV Require Import Base.Arith.
From OV Require Import Model.Vector.
From OV Require Import Model.Matrix.
From OV Require Import Model.Mesh.
From OV Require Import Model.MeshOps.
From OV Require Import Proofs.MeshBase.
From OV Require Import Proofs.MeshStore.
Import ListNotations.

Section Link.
Context {A : Arith}.
Variable K : @mconst A.
Notation mesh1 := (mesh1 A (T A)).
Notation mesh2 := (mesh2 A (T A)).

Definition op2_of_write (w : @wop2 A) : op2 A :=
  match w with
  | WSet i j v => O2Set i j v
  | WSetIdx i j v => O2IdxSet i j v
  | WSetElem i j var x => O2IdxElem i j var x
  | WAssign x => O2Assign x
  end.
Definition op1_of_write (w : @wop1 A) : op1 A :=
  match w with
  | W1Set k v => O1Set k v
  | W1SetIdx k v => O1IdxSet k v
  | W1SetElem k var x => O1IdxElem k var x
  end.

(* the state component of a run of the tied step function *)
Definition state2 (m : mesh2) (ops : list (op2 A)) : res mesh2 :=
  fold_left (fun r o => let* m := r in let* p := step2 K m o in Ok (fst p)) ops (Ok m).
Definition state1 (m : mesh1) (ops : list (op1 A)) : res mesh1 :=
  fold_left (fun r o => let* m := r in let* p := step1 K m o in Ok (fst p)) ops (Ok m).

Lemma step2_write (m : mesh2) w :
  step2 K m (op2_of_write w) = (let* m' := wstep2 m w in Ok (m', VNone)).
Proof. destruct w; reflexivity. Qed.
Lemma step1_write (m : mesh1) w :
  step1 K m (op1_of_write w) = (let* m' := wstep1 m w in Ok (m', VNone)).
Proof. destruct w; reflexivity. Qed.

(* reads of the tied step function are the model's accessors, state untouched *)
Lemma step2_get (m : mesh2) i j :
  step2 K m (O2Get i j) = (let* v := get_nodes_vars2 m i j in Ok (m, VV v)).
Proof. reflexivity. Qed.
Lemma step2_idx (m : mesh2) i j :
  step2 K m (O2Idx i j) = (let* v := index2 m i j in Ok (m, VV v)).
Proof. reflexivity. Qed.

Lemma fold_panic2 (ops : list (op2 A)) k :
  fold_left (fun r o => let* m := r in let* p := step2 K m o in Ok (fst p)) ops (Panic k) = Panic k.
Proof. induction ops as [|o t IH]; cbn; auto. Qed.
Lemma fold_wpanic2 (ws : list (@wop2 A)) k :
  fold_left (fun (r : res mesh2) o => let* m := r in wstep2 m o) ws (Panic k) = Panic k.
Proof. induction ws as [|o t IH]; cbn; auto. Qed.

Lemma state2_writes (m : mesh2) ws : state2 m (map op2_of_write ws) = wrun2 m ws.
Proof.
  unfold state2, wrun2. revert m. induction ws as [|w t IH]; intros m; [reflexivity|].
  cbn [map fold_left]. cbn [bind]. rewrite step2_write.
  destruct (wstep2 m w) as [m'|k] eqn:E; cbn [bind fst].
  - apply IH.
  - rewrite fold_panic2, fold_wpanic2. reflexivity.
Qed.

Lemma fold_panic1 (ops : list (op1 A)) k :
  fold_left (fun r o => let* m := r in let* p := step1 K m o in Ok (fst p)) ops (Panic k) = Panic k.
Proof. induction ops as [|o t IH]; cbn; auto. Qed.
Lemma fold_wpanic1 (ws : list (@wop1 A)) k :
  fold_left (fun (r : res mesh1) o => let* m := r in wstep1 m o) ws (Panic k) = Panic k.
Proof. induction ws as [|o t IH]; cbn; auto. Qed.

Lemma state1_writes (m : mesh1) ws : state1 m (map op1_of_write ws) = wrun1 m ws.
Proof.
  unfold state1, wrun1. revert m. induction ws as [|w t IH]; intros m; [reflexivity|].
  cbn [map fold_left]. cbn [bind]. rewrite step1_write.
  destruct (wstep1 m w) as [m'|k] eqn:E; cbn [bind fst].
  - apply IH.
  - rewrite fold_panic1, fold_wpanic1. reflexivity.
Qed.

(* the refinement theorem, for the step function of the correspondence check *)
Lemma tied_writes_refine2 (m : mesh2) ws g :
  wf2 m -> Forall (wvalid2 m) ws ->
  (forall i j, i < m2_nx m -> j < m2_ny m -> get_nodes_vars2 m i j = Ok (g i j)) ->
  exists m', state2 m (map op2_of_write ws) = Ok m' /\ wf2 m' /\ shape2_eq m' m /\
    forall i j, i < m2_nx m -> j < m2_ny m ->
      step2 K m' (O2Get i j) = Ok (m', VV (fold_left (sstep2 (m2_nvars m)) ws g i j)).
Proof.
  intros Hwf Hv Hg.
  destruct (mesh2_writes_refine m ws g Hwf Hv Hg) as (m' & E & Hwf' & Hsh & Hget).
  exists m'. rewrite state2_writes. split; [exact E|]. split; [exact Hwf'|]. split; [exact Hsh|].
  intros i j Hi Hj. rewrite step2_get, (Hget i j Hi Hj). reflexivity.
Qed.

Lemma tied_writes_refine1 (m : mesh1) ws g :
  wf1 m -> Forall (wvalid1 m) ws ->
  (forall node, node < nnodes1 m -> get_nodes_vars1 m node = Ok (g node)) ->
  exists m', state1 m (map op1_of_write ws) = Ok m' /\ wf1 m' /\
    m1_nodes m' = m1_nodes m /\ m1_nvars m' = m1_nvars m /\
    forall node, node < nnodes1 m ->
      step1 K m' (O1Get node) = Ok (m', VV (fold_left sstep1 ws g node)).
Proof.
  intros Hwf Hv Hg.
  destruct (mesh1_writes_refine m ws g Hwf Hv Hg) as (m' & E & Hwf' & Hn & Hnv & Hget).
  exists m'. rewrite state1_writes. split; [exact E|]. split; [exact Hwf'|]. split; [exact Hn|]. split; [exact Hnv|].
  intros node Hnode. cbn [step1]. rewrite (Hget node Hnode). reflexivity.
Qed.

End Link.
