(* Proofs/CFunReal.v -- reduction to the real functions on the real axis, reciprocal functions,
   principal ranges of asin / acos. *)
From Coq Require Import Reals Lra Field.
From OV Require Import Model.CFun Proofs.CFunArg Proofs.CFun Proofs.CFunAlg Proofs.CFunInv.
Local Open Scope R_scope.

(* ---------- real axis ---------- *)
Lemma cexp_real x : cexp (x, 0) = (exp x, 0).
Proof. unfold cexp. cbn [re im fst snd]. rewrite cos_0, sin_0. f_equal; ring. Qed.

Lemma csin_real x : csin (x, 0) = (sin x, 0).
Proof. unfold csin. cbn [re im fst snd]. rewrite cosh_0, sinh_0. f_equal; ring. Qed.

Lemma ccos_real x : ccos (x, 0) = (cos x, 0).
Proof. unfold ccos. cbn [re im fst snd]. rewrite cosh_0, sinh_0. f_equal; ring. Qed.

Lemma csinh_real x : csinh (x, 0) = (sinh x, 0).
Proof. unfold csinh. cbn [re im fst snd]. rewrite cos_0, sin_0. f_equal; ring. Qed.

Lemma ccosh_real x : ccosh (x, 0) = (cosh x, 0).
Proof. unfold ccosh. cbn [re im fst snd]. rewrite cos_0, sin_0. f_equal; ring. Qed.

Lemma cdiv_real a b : b <> 0 -> cdiv (a, 0) (b, 0) = (a / b, 0).
Proof. intros Hb. unfold cdiv. cbn [re im fst snd]. f_equal; field; exact Hb. Qed.

Lemma ctan_real x : cos x <> 0 -> ctan (x, 0) = (tan x, 0).
Proof. intros Hc. unfold ctan. rewrite csin_real, ccos_real, cdiv_real by exact Hc. reflexivity. Qed.

Lemma cosh_pos x : 0 < cosh x.
Proof. unfold cosh. pose proof (exp_pos x). pose proof (exp_pos (- x)). lra. Qed.

Lemma ctanh_real x : ctanh (x, 0) = (tanh x, 0).
Proof.
  unfold ctanh. rewrite csinh_real, ccosh_real, cdiv_real by (pose proof (cosh_pos x); lra). reflexivity.
Qed.

Lemma cabs_real x : 0 <= x -> cabs (x, 0) = x.
Proof.
  intros Hx. unfold cabs, abs_sqr. cbn [re im fst snd].
  replace (x * x + 0 * 0) with (x * x) by ring. apply sqrt_square, Hx.
Qed.

Lemma arg_real_nonneg x : 0 <= x -> arg (x, 0) = 0.
Proof.
  intros [Hx|Hx]; unfold arg; cbn [re im fst snd].
  - rewrite atan2_xpos by exact Hx. replace (0 / x) with 0 by (field; lra). apply atan_0.
  - subst x. apply atan2_0_0.
Qed.

Lemma arg_real_neg x : x < 0 -> arg (x, 0) = PI.
Proof.
  intros Hx. unfold arg; cbn [re im fst snd].
  rewrite atan2_xneg_ynonneg by lra. replace (0 / x) with 0 by (field; lra). rewrite atan_0. ring.
Qed.

Lemma cln_real x : 0 < x -> cln (x, 0) = (ln x, 0).
Proof. intros Hx. unfold cln. rewrite cabs_real, arg_real_nonneg by lra. reflexivity. Qed.

Lemma cln_real_neg x : x < 0 -> cln (x, 0) = (ln (- x), PI).
Proof.
  intros Hx. unfold cln. rewrite arg_real_neg by exact Hx. f_equal.
  unfold cabs, abs_sqr. cbn [re im fst snd].
  replace (x * x + 0 * 0) with (- x * - x) by ring. rewrite sqrt_square by lra. reflexivity.
Qed.

Lemma csqrt_real x : 0 <= x -> csqrt (x, 0) = (sqrt x, 0).
Proof.
  intros Hx. unfold csqrt. rewrite cabs_real, arg_real_nonneg by exact Hx.
  replace (1 / 2 * 0) with 0 by field. rewrite cos_0, sin_0. f_equal; ring.
Qed.

Lemma csqrt_real_neg x : x < 0 -> csqrt (x, 0) = (0, sqrt (- x)).
Proof.
  intros Hx. unfold csqrt. rewrite arg_real_neg by exact Hx.
  replace (1 / 2 * PI) with (PI / 2) by field. rewrite cos_PI2, sin_PI2.
  unfold cabs, abs_sqr. cbn [re im fst snd].
  replace (x * x + 0 * 0) with (- x * - x) by ring. rewrite sqrt_square by lra. f_equal; ring.
Qed.

Lemma cpowf_real x a : 0 < x -> cpowf (x, 0) a = (Rpower x a, 0).
Proof.
  intros Hx. unfold cpowf. rewrite arg_real_nonneg by lra.
  replace (a * 0) with 0 by ring. rewrite cos_0, sin_0.
  unfold abs_sqr. cbn [re im fst snd]. replace (x * x + 0 * 0) with (x * x) by ring.
  unfold Rpower. rewrite ln_mult by assumption.
  replace (1 / 2 * a * (ln x + ln x)) with (a * ln x) by field. f_equal; ring.
Qed.

(* ---------- reciprocals ---------- *)
Lemma crecip_mul w : w <> czero -> cmul (cdiv cone w) w = cone.
Proof. intros Hw. field. exact Hw. Qed.

Lemma ctan_is_quotient z : ccos z <> czero -> cmul (ctan z) (ccos z) = csin z.
Proof. intros H. unfold ctan. field. exact H. Qed.

Lemma ctanh_is_quotient z : ccosh z <> czero -> cmul (ctanh z) (ccosh z) = csinh z.
Proof. intros H. unfold ctanh. field. exact H. Qed.

(* ---------- principal ranges of asin / acos ---------- *)
Lemma arg_re_nonneg u : u <> czero -> 0 <= re u -> - (PI / 2) <= arg u <= PI / 2.
Proof.
  intros Hu Hre. apply C_neq0 in Hu. destruct u as [x y]. unfold arg. cbn [re im fst snd] in *.
  pose proof PI_RGT_0 as Hpi.
  destruct Hre as [Hx|Hx].
  - rewrite atan2_xpos by exact Hx. pose proof (atan_bound (y / x)). lra.
  - subst x. destruct Hu as [Hu|Hu]; [lra|].
    destruct (Rtotal_order y 0) as [Hy|[Hy|Hy]]; [ | lra | ].
    + rewrite atan2_x0_yneg by lra. lra.
    + rewrite atan2_x0_ypos by lra. lra.
Qed.

(* s^2 = 1 - z^2 and Re s >= 0 imply Re s >= Im z *)
Lemma sqrt_1mz2_dominates a b x y :
  0 <= a -> a * a - b * b = 1 - (x * x - y * y) -> a * b + b * a = 0 - (x * y + y * x) -> y <= a.
Proof.
  intros Ha H1 H2.
  destruct (Rle_dec y a) as [Hya|Hya]; [exact Hya | exfalso].
  assert (Hlt : a < y) by lra.
  assert (Hab : a * b = - (x * y)) by lra.
  assert (Hbb : b * b = a * a - 1 + x * x - y * y) by lra.
  assert (K : (a * a + x * x) * (a * a - y * y) = a * a).
  { assert (E : (a * b) * (a * b) = (x * y) * (x * y)) by (rewrite Hab; ring).
    replace ((a * b) * (a * b)) with (a * a * (b * b)) in E by ring.
    rewrite Hbb in E. lra. }
  assert (Hneg : a * a - y * y < 0) by nra.
  assert (Hpos : 0 <= a * a + x * x) by nra.
  assert (Ha0 : a * a <= 0) by nra.
  assert (a = 0) by nra. subst a.
  assert (Hx0 : x * x * (y * y) = 0) by lra.
  assert (Hy : 0 < y * y) by nra.
  assert (x * x = 0) by nra.
  nra.
Qed.

Lemma asin_u_re_nonneg z :
  let u := cadd (csqrt (csub cone (cmul z z))) (cmul ci z) in u <> czero /\ 0 <= re u.
Proof.
  intros u.
  set (s := csqrt (csub cone (cmul z z))) in *.
  assert (Hs : cmul s s = csub cone (cmul z z)) by apply sqrt_sqr_lemma.
  split.
  - apply (cmul_eq_1_neq0 _ _ (asin_core s z Hs)).
  - pose proof (re_sqrt_nonneg_lemma (csub cone (cmul z z))) as Ha. fold s in Ha.
    destruct s as [a b]. destruct z as [x y].
    unfold cmul, csub, cone in Hs. cbn [re im fst snd] in Hs. inversion Hs as [[H1 H2]].
    unfold u, cadd, cmul, ci. cbn [re im fst snd] in *.
    pose proof (sqrt_1mz2_dominates a b x y Ha H1 H2). lra.
Qed.

Lemma re_asin_range_lemma z : - (PI / 2) <= re (casin z) <= PI / 2.
Proof.
  destruct (asin_u_re_nonneg z) as [Hu Hre].
  unfold casin.
  set (u := cadd (csqrt (csub cone (cmul z z))) (cmul ci z)) in *.
  replace (re (cmul (cneg ci) (cln u))) with (arg u).
  - apply arg_re_nonneg; assumption.
  - unfold cmul, cneg, ci, cln. cbn [re im fst snd]. ring.
Qed.

Lemma re_acos_range_lemma z : 0 <= re (cacos z) <= PI.
Proof.
  destruct (asin_u_re_nonneg z) as [Hu Hre].
  unfold cacos.
  set (u := cadd (csqrt (csub cone (cmul z z))) (cmul ci z)) in *.
  replace (re (cadd_r (cmul ci (cln u)) (PI / 2))) with (- arg u + PI / 2).
  - pose proof (arg_re_nonneg u Hu Hre). lra.
  - unfold cadd_r, cmul, ci, cln. cbn [re im fst snd]. ring.
Qed.

(* asin and acos are complementary: asin z + acos z = PI/2 *)
Lemma asin_acos_sum z : cadd (casin z) (cacos z) = (PI / 2, 0).
Proof.
  unfold casin, cacos.
  set (L := cln (cadd (csqrt (csub cone (cmul z z))) (cmul ci z))).
  destruct L as [a b]. unfold cadd, cadd_r, cmul, cneg, ci. cbn [re im fst snd]. f_equal; ring.
Qed.
(* ---------- inverse functions on the real axis ---------- *)
Lemma catan_real x : catan (x, 0) = (atan x, 0).
Proof.
  unfold catan.
  replace (cmul ci (x, 0)) with ((0, x) : C) by (csimpl; f_equal; ring).
  replace (csub cone (0, x)) with ((1, - x) : C) by (csimpl; f_equal; ring).
  replace (cadd cone (0, x)) with ((1, x) : C) by (csimpl; f_equal; ring).
  unfold cln, arg, cabs, abs_sqr. cbn [re im fst snd].
  rewrite !atan2_xpos by lra.
  replace (- x / 1) with (- x) by field. replace (x / 1) with x by field.
  rewrite atan_opp.
  replace (1 * 1 + - x * - x) with (1 * 1 + x * x) by ring.
  csimpl. f_equal; field.
Qed.

Lemma casinh_real x : casinh (x, 0) = (arcsinh x, 0).
Proof.
  unfold casinh.
  replace (cadd_r (cmul (x, 0) (x, 0)) 1) with ((x * x + 1, 0) : C) by (csimpl; f_equal; ring).
  assert (H1 : 0 < x * x + 1) by nra.
  rewrite csqrt_real by lra.
  replace (cadd (sqrt (x * x + 1), 0) (x, 0)) with ((x + sqrt (x * x + 1), 0) : C) by (csimpl; f_equal; ring).
  assert (H2 : 0 < x + sqrt (x * x + 1)).
  { pose proof (sqrt_pos (x * x + 1)) as Hp. pose proof (sqrt_sqrt (x * x + 1) (Rlt_le _ _ H1)) as Hq.
    destruct (Rlt_dec 0 (x + sqrt (x * x + 1))) as [H|H]; [exact H | exfalso; nra]. }
  rewrite cln_real by exact H2. unfold arcsinh. replace (x ^ 2) with (x * x) by ring. reflexivity.
Qed.

Lemma casin_real x : -1 < x < 1 -> casin (x, 0) = (asin x, 0).
Proof.
  intros Hx. unfold casin.
  assert (H1 : 0 < 1 - x * x) by nra.
  replace (csub cone (cmul (x, 0) (x, 0))) with ((1 - x * x, 0) : C) by (csimpl; f_equal; ring).
  rewrite csqrt_real by lra.
  replace (cadd (sqrt (1 - x * x), 0) (cmul ci (x, 0))) with ((sqrt (1 - x * x), x) : C) by (csimpl; f_equal; ring).
  assert (Hs : 0 < sqrt (1 - x * x)) by (apply sqrt_lt_R0; exact H1).
  unfold cln, arg, cabs, abs_sqr. cbn [re im fst snd].
  rewrite atan2_xpos by exact Hs.
  rewrite sqrt_sqrt by lra.
  replace (1 - x * x + x * x) with 1 by ring. rewrite sqrt_1, ln_1.
  rewrite asin_atan by exact Hx. unfold Rsqr.
  csimpl. f_equal; ring.
Qed.

Lemma cacos_real x : -1 < x < 1 -> cacos (x, 0) = (acos x, 0).
Proof.
  intros Hx.
  pose proof (asin_acos_sum (x, 0)) as H. rewrite casin_real in H by exact Hx.
  rewrite acos_asin by lra.
  destruct (cacos (x, 0)) as [a b]. unfold cadd in H. cbn [re im fst snd] in H.
  inversion H. f_equal; lra.
Qed.

Lemma catanh_real x : -1 < x < 1 -> catanh (x, 0) = ((ln (1 + x) - ln (1 - x)) / 2, 0).
Proof.
  intros Hx. unfold catanh.
  replace (cadd_r (x, 0) 1) with ((1 + x, 0) : C) by (csimpl; f_equal; ring).
  replace (csub cone (x, 0)) with ((1 - x, 0) : C) by (csimpl; f_equal; ring).
  rewrite !cln_real by lra. csimpl. f_equal; field.
Qed.

Lemma cacosh_real x : 1 <= x -> cacosh (x, 0) = (ln (x + sqrt (x - 1) * sqrt (x + 1)), 0).
Proof.
  intros Hx. unfold cacosh.
  replace (csub_r (x, 0) 1) with ((x - 1, 0) : C) by (csimpl; f_equal; ring).
  replace (cadd_r (x, 0) 1) with ((x + 1, 0) : C) by (csimpl; f_equal; ring).
  rewrite !csqrt_real by lra.
  replace (cadd (cmul (sqrt (x - 1), 0) (sqrt (x + 1), 0)) (x, 0))
    with ((x + sqrt (x - 1) * sqrt (x + 1), 0) : C) by (csimpl; f_equal; ring).
  rewrite cln_real; [reflexivity|].
  pose proof (sqrt_pos (x - 1)). pose proof (sqrt_pos (x + 1)). nra.
Qed.
(* ---------- logarithm to a base; ln as a left inverse on the principal strip ---------- *)
Lemma pow_log_lemma z b : z <> czero -> b <> czero -> cln b <> czero -> cpow b (clog z b) = z.
Proof.
  intros Hz Hb Hl. rewrite pow_is_exp_ln_lemma by exact Hb. unfold clog.
  replace (cmul (cdiv (cln z) (cln b)) (cln b)) with (cln z) by (field; exact Hl).
  apply exp_ln_lemma, Hz.
Qed.

Lemma ln_exp_lemma z : - PI < im z <= PI -> cln (cexp z) = z.
Proof.
  intros Hy. destruct z as [x y]. cbn [im snd] in Hy.
  change (cexp (x, y)) with (cpolar (exp x) y).
  unfold cln. rewrite cabs_polar by (left; apply exp_pos).
  rewrite arg_polar by (try apply exp_pos; exact Hy). rewrite ln_exp. reflexivity.
Qed.

Lemma sqrt_of_sqr_lemma z : 0 < re z -> csqrt (cmul z z) = z.
Proof.
  intros Hx.
  assert (Hz : z <> czero) by (apply C_neq0; left; lra).
  pose proof (polar_roundtrip_lemma z Hz) as Hp.
  pose proof (cabs_pos z Hz) as Hr.
  destruct (polar_decomp_lemma z Hz) as (Hc & Hs & Hrg).
  set (r := cabs z) in *. set (t := arg z) in *.
  (* t in (-PI/2, PI/2) because r cos t = re z > 0 *)
  assert (Hcos : 0 < cos t) by (apply (Rmult_lt_reg_l r); [exact Hr | lra]).
  pose proof PI_RGT_0 as Hpi.
  assert (Ht : - (PI / 2) < t < PI / 2).
  { split.
    - destruct (Rlt_dec (- (PI / 2)) t) as [H|H]; [exact H | exfalso].
      assert (cos t <= 0); [|lra].
      rewrite <- cos_neg. apply cos_le_0; lra.
    - destruct (Rlt_dec t (PI / 2)) as [H|H]; [exact H | exfalso].
      assert (cos t <= 0); [|lra]. apply cos_le_0; lra. }
  assert (Hzz : cmul z z = cpolar (r * r) (2 * t)).
  { rewrite <- Hp at 1 2. unfold cpolar, cmul. cbn [re im fst snd].
    rewrite cos_2a, sin_2a. f_equal; ring. }
  rewrite Hzz. unfold csqrt.
  rewrite cabs_polar by nra. rewrite arg_polar by (try nra; lra).
  rewrite sqrt_square by lra.
  replace (1 / 2 * (2 * t)) with t by field.
  rewrite <- Hp. reflexivity.
Qed.
