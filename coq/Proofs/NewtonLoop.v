(* Proofs/NewtonLoop.v -- the loop shared by the six Newton solve methods (Model/Newton.v nloop),
   for an ARBITRARY pass [step]: no hypothesis on the user function or on the arithmetic. *)
From Coq Require Import List Arith Lia Bool.
From OV Require Import Base.Panic Base.Arith Model.Newton.
Import ListNotations.

Section LoopProofs.
Context {X E : Type}.
Context (step : X -> res (X * bool * list E)).

(* one pass from x: new current x', stopping test b, calls e *)
Definition pass (x x' : X) (b : bool) (e : list E) : Prop := step x = Ok (x', b, e).

(* [run k x0 xk es]: k passes from x0, all with a failed test, reach xk; es = their call lists *)
Inductive run : nat -> X -> X -> list (list E) -> Prop :=
| run0 x : run 0 x x []
| runS k x x1 xk e es : pass x x1 false e -> run k x1 xk es -> run (S k) x xk (e :: es).

Lemma run_length k x xk es : run k x xk es -> length es = k.
Proof. induction 1; cbn; auto. Qed.

Lemma run_snoc k x xk es xl e :
  run k x xk es -> pass xk xl false e -> run (S k) x xl (es ++ [e]).
Proof.
  induction 1 as [x|k x x1 xk e1 es H1 H2 IH]; intros Hp; cbn.
  - econstructor; [exact Hp|constructor].
  - econstructor; [exact H1|]. apply IH; exact Hp.
Qed.

Lemma run_niter k x xk es : run k x xk es -> niter step k x = Ok xk.
Proof.
  induction 1 as [x|k x x1 xk e es H1 H2 IH]; cbn; auto.
  unfold pass in H1. rewrite H1; cbn. exact IH.
Qed.

(* prefix: the first j passes of a run *)
Lemma run_prefix k x xk es j :
  run k x xk es -> j < k ->
  exists xj x' e, run j x xj (firstn j es) /\ pass xj x' false e.
Proof.
  intros H; revert j; induction H as [x|k x x1 xk e es H1 H2 IH]; intros j Hj; [lia|].
  destruct j as [|j].
  - exists x, x1, e. split; [constructor|exact H1].
  - destruct (IH j) as (xj & x' & e' & R & P); [lia|].
    exists xj, x', e'. split; auto. cbn. econstructor; eauto.
Qed.

(* ---- complete characterisation of the loop ---- *)
Lemma nloop_spec n : forall x0 evs0 r evs,
  nloop step n x0 evs0 = Ok (r, evs) ->
  (exists es x, r = NErr x /\ run n x0 x es /\ evs = evs0 ++ concat es) \/
  (exists k es xk x e, r = NOk x /\ k < n /\ run k x0 xk es /\ pass xk x true e /\
                       evs = evs0 ++ concat es ++ e).
Proof.
  induction n as [|n IH]; intros x0 evs0 r evs H; cbn in H.
  - injection H as <- <-. left. exists [], x0. repeat split; [constructor|]. cbn. now rewrite app_nil_r.
  - apply bind_ok in H as ([[x1 b] e] & Hs & H).
    destruct b.
    + injection H as <- <-. right. exists 0, [], x0, x1, e. repeat split; auto; [lia|constructor].
    + apply IH in H as [(es & x & -> & R & ->)|(k & es & xk & x & e' & -> & Hk & R & P & ->)].
      * left. exists (e :: es), x. repeat split.
        -- econstructor; eauto.
        -- cbn. now rewrite app_assoc.
      * right. exists (S k), (e :: es), xk, x, e'. repeat split; auto; [lia| |].
        -- econstructor; eauto.
        -- cbn. now rewrite <- !app_assoc.
Qed.

(* ---- max_iter = 0 ---- *)
Lemma nloop_zero x0 : nloop step 0 x0 [] = Ok (NErr x0, []).
Proof. reflexivity. Qed.

(* ---- Err carries the n-th iterate; the stopping test failed at every pass ---- *)
Lemma nloop_err n x0 evs0 x evs :
  nloop step n x0 evs0 = Ok (NErr x, evs) ->
  niter step n x0 = Ok x /\
  forall k, k < n -> exists xk x' e, niter step k x0 = Ok xk /\ step xk = Ok (x', false, e).
Proof.
  intros H. apply nloop_spec in H as [(es & x' & Hx & R & _)|(k & es & xk & x' & e & Hx & _)]; [|discriminate].
  injection Hx as <-. split.
  - eapply run_niter; eauto.
  - intros k Hk. destruct (run_prefix _ _ _ _ k R Hk) as (xj & x' & e & Rj & P).
    exists xj, x', e. split; [eapply run_niter; eauto|exact P].
Qed.

(* ---- Ok x: x was produced by a pass at which the test held, no later than pass n; the test
        failed at every earlier pass ---- *)
Lemma nloop_ok n x0 evs0 x evs :
  nloop step n x0 evs0 = Ok (NOk x, evs) ->
  exists k xk e, k < n /\ niter step k x0 = Ok xk /\ step xk = Ok (x, true, e) /\
    forall j, j < k -> exists xj x' e', niter step j x0 = Ok xj /\ step xj = Ok (x', false, e').
Proof.
  intros H. apply nloop_spec in H as [(es & x' & Hx & _)|(k & es & xk & x' & e & Hx & Hk & R & P & _)]; [discriminate|].
  injection Hx as <-. exists k, xk, e. repeat split; auto.
  - eapply run_niter; eauto.
  - intros j Hj. destruct (run_prefix _ _ _ _ j R Hj) as (xj & x' & e' & Rj & P').
    exists xj, x', e'. split; [eapply run_niter; eauto|exact P'].
Qed.

(* ---- invariants of the iterates ---- *)
Lemma niter_inv (P : X -> Prop) :
  (forall x x' b e, P x -> step x = Ok (x', b, e) -> P x') ->
  forall k x xk, P x -> niter step k x = Ok xk -> P xk.
Proof.
  intros HP. induction k as [|k IH]; intros x xk H0 H; cbn in H.
  - now injection H as <-.
  - apply bind_ok in H as ([[x1 b] e] & Hs & H). cbn in H. eapply IH; [|exact H]. eapply HP; eauto.
Qed.

Lemma run_inv (P : X -> Prop) k x xk es :
  (forall x x' b e, P x -> step x = Ok (x', b, e) -> P x') ->
  run k x xk es -> P x -> P xk.
Proof.
  intros HP; induction 1 as [x|k x x1 xk e es H1 H2 IH]; intros H0; auto.
  apply IH. eapply HP; eauto.
Qed.

Lemma run_Forall (P : X -> Prop) (Q : list E -> Prop) k x xk es :
  (forall x x' b e, P x -> step x = Ok (x', b, e) -> P x' /\ Q e) ->
  run k x xk es -> P x -> Forall Q es /\ P xk.
Proof.
  intros HP; induction 1 as [x|k x x1 xk e es H1 H2 IH]; intros H0; auto.
  destruct (HP _ _ _ _ H0 H1) as [P1 Qe]. destruct (IH P1) as [F Pk]. split; auto.
Qed.

(* ---- bounded work: every pass makes at most c calls (while an invariant P of the iterates
        holds) => at most c * n calls in total ---- *)
Lemma concat_length_le {Y} (c : nat) (es : list (list Y)) :
  Forall (fun e => length e <= c) es -> length (concat es) <= c * length es.
Proof.
  induction 1 as [|e es He _ IH]; cbn; [lia|]. rewrite app_length. lia.
Qed.

Lemma nloop_calls_le (P : X -> Prop) (c : nat) n x0 r evs :
  (forall x x' b e, P x -> step x = Ok (x', b, e) -> P x' /\ length e <= c) ->
  P x0 ->
  nloop step n x0 [] = Ok (r, evs) -> length evs <= c * n.
Proof.
  intros HP H0 H.
  apply nloop_spec in H as [(es & x & _ & R & ->)|(k & es & xk & x & e & _ & Hk & R & Pk & ->)]; cbn.
  - destruct (run_Forall P (fun e => length e <= c) _ _ _ _ HP R H0) as [F _].
    apply concat_length_le in F. rewrite (run_length _ _ _ _ R) in F. exact F.
  - destruct (run_Forall P (fun e => length e <= c) _ _ _ _ HP R H0) as [F Pxk].
    apply concat_length_le in F. rewrite (run_length _ _ _ _ R) in F.
    destruct (HP _ _ _ _ Pxk Pk) as [_ Le].
    rewrite app_length. nia.
Qed.

(* failure means every one of the n passes ran: exactly c * n calls when every pass makes c *)
Lemma concat_length_eq {Y} (c : nat) (es : list (list Y)) :
  Forall (fun e => length e = c) es -> length (concat es) = c * length es.
Proof.
  induction 1 as [|e es He _ IH]; cbn; [lia|]. rewrite app_length. lia.
Qed.

Lemma nloop_err_calls (P : X -> Prop) (c : nat) n x0 x evs :
  (forall x x' b e, P x -> step x = Ok (x', b, e) -> P x' /\ length e = c) ->
  P x0 ->
  nloop step n x0 [] = Ok (NErr x, evs) -> length evs = c * n.
Proof.
  intros HP H0 H.
  apply nloop_spec in H as [(es & x' & _ & R & ->)|(k & es & xk & x' & e & Hx & _)]; [|discriminate]. cbn.
  destruct (run_Forall P (fun e => length e = c) _ _ _ _ HP R H0) as [F _].
  apply concat_length_eq in F. now rewrite (run_length _ _ _ _ R) in F.
Qed.

(* a measure on calls (e.g. "is a call of func"): at most c per pass => at most c * n in total *)
Lemma count_concat_le {Y} (p : Y -> bool) (c : nat) (es : list (list Y)) :
  Forall (fun e => length (filter p e) <= c) es -> length (filter p (concat es)) <= c * length es.
Proof.
  induction 1 as [|e es He _ IH]; cbn; [lia|]. rewrite filter_app, app_length. lia.
Qed.

Lemma nloop_count_le (p : E -> bool) (c : nat) n x0 r evs :
  (forall x x' b e, step x = Ok (x', b, e) -> length (filter p e) <= c) ->
  nloop step n x0 [] = Ok (r, evs) -> length (filter p evs) <= c * n.
Proof.
  intros HP H.
  assert (HP' : forall x x' b e, True -> step x = Ok (x', b, e) -> True /\ length (filter p e) <= c)
    by (intros; split; eauto).
  apply nloop_spec in H as [(es & x & _ & R & ->)|(k & es & xk & x & e & _ & Hk & R & Pk & ->)]; cbn.
  - destruct (run_Forall (fun _ => True) (fun e => length (filter p e) <= c) _ _ _ _ HP' R I) as [F _].
    apply count_concat_le in F. rewrite (run_length _ _ _ _ R) in F. exact F.
  - destruct (run_Forall (fun _ => True) (fun e => length (filter p e) <= c) _ _ _ _ HP' R I) as [F _].
    apply count_concat_le in F. rewrite (run_length _ _ _ _ R) in F.
    specialize (HP _ _ _ _ Pk). rewrite filter_app, app_length. nia.
Qed.

End LoopProofs.

(* ---- the result depends on the pass only through the passes actually made: two pass
        functions that agree wherever the first one, called on the iterates, made calls
        satisfying [Agree], give the same answer ---- *)
Section LoopCongruence.
Context {X E : Type}.
Context (step step' : X -> res (X * bool * list E)).
Context (Agree : E -> Prop).
Hypothesis Hloc : forall x r, step x = Ok r -> Forall Agree (snd r) -> step' x = Ok r.

Lemma nloop_congr n : forall x0 evs0 r evs e,
  nloop step n x0 evs0 = Ok (r, evs) -> evs = evs0 ++ e -> Forall Agree e ->
  nloop step' n x0 evs0 = Ok (r, evs).
Proof.
  induction n as [|n IH]; intros x0 evs0 r evs e H He Ha; cbn in *; auto.
  apply bind_ok in H as ([[x1 b] e1] & Hs & H).
  assert (Hpre : exists e2, evs = (evs0 ++ e1) ++ e2).
  { destruct b.
    - injection H as _ <-. exists []. now rewrite app_nil_r.
    - apply nloop_spec in H as [(es & x & _ & _ & ->)|(k & es & xk & x & e' & _ & _ & _ & _ & ->)]; eauto. }
  destruct Hpre as (e2 & He2).
  assert (He' : e = e1 ++ e2).
  { rewrite He2, <- app_assoc in He. now apply app_inv_head in He. }
  subst e. apply Forall_app in Ha as [Ha1 Ha2].
  rewrite (Hloc x0 (x1, b, e1) Hs Ha1); cbn.
  destruct b; auto.
  eapply IH; eauto.
Qed.

End LoopCongruence.
