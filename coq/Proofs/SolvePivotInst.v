(* Proofs/SolvePivotInst.v -- OrdLaws at Qc and R; the pivot rule there picks a maximal |a_ik|.  Package c01. *)
From Coq Require Import List Arith Lia QArith Qcanon Reals Lra.
From OV Require Import Base.Panic Base.Arith Model.Vector Model.Matrix Model.Solve Inst.QcInst
  Proofs.Matrix Proofs.SolveBase Proofs.SolveQc Proofs.SolveR Proofs.SolvePivot.

Lemma Qc_ltb_false (x y : Qc) : Qc_ltb x y = false <-> ~ (x < y)%Qc.
Proof.
  destruct (Qc_ltb x y) eqn:E.
  - apply Qc_ltb_lt in E. split; [discriminate|contradiction].
  - split; auto. intros _ H. apply Qc_ltb_lt in H. congruence.
Qed.

Lemma AQ_OrdLaws : OrdLaws AQ.
Proof.
  split; cbn.
  - intros x. apply Qc_ltb_false. intros H. exact (Qclt_not_eq _ _ H eq_refl).
  - intros x y z H1 H2. apply Qc_ltb_lt in H1. apply Qc_ltb_false in H2. apply Qc_ltb_false.
    intros H3. apply H2. exact (Qclt_trans _ _ _ H1 H3).
Qed.

Lemma AR_OrdLaws : OrdLaws AR.
Proof.
  split; cbn; unfold R_ltb.
  - intros x. destruct (Rlt_dec x x); auto. lra.
  - intros x y z. destruct (Rlt_dec x y); [|discriminate]. destruct (Rlt_dec x z); [discriminate|].
    destruct (Rlt_dec y z); auto. lra.
Qed.
