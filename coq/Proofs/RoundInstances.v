(* Proofs/RoundInstances.v -- the headline theorems of the Round*.v files with the arithmetic hypotheses DISCHARGED, for the
   two concrete standard-model arithmetics of this development:
     AFlx  (Proofs/RoundFlx.v)      : every operation followed by round-to-nearest-even to 53 bits, unbounded exponent;
     A64r  (Proofs/RoundDotFloat.v) : IEEE binary64 rounding (FLT, emin -1074) wherever the standard model is valid --
                                      sums/differences of representable numbers, products and quotients that do not
                                      underflow -- and the exact operation elsewhere; it agrees with the primitive
                                      floats on every finite, underflow-free computation (the transfer lemmas).
   These are closed statements: no hypothesis about rounding is left.  They show in the strongest way that the Section
   hypotheses of the Round*.v files are satisfiable, and they are the form in which the results apply to binary64. *)
From Coq Require Import List Arith Lia Reals Lra.
From OV Require Import Base.Panic Base.Arith Base.RoundModel Model.Vector Model.Matrix Model.Solve
  Proofs.Matrix Proofs.RoundDot Proofs.RoundMatvec Proofs.RoundBacksolve Proofs.RoundFlx Proofs.ComplexRound
  Proofs.RoundDotFloat Proofs.RoundLUTrace Proofs.RoundLUError Proofs.RoundSolveLU Proofs.RoundInverseLU.
Import ListNotations.
Local Open Scope R_scope.

Lemma AFlx_standard_model :
  0 <= ux < 1 /\
  (forall x y, exists d, Rabs d <= ux /\ xadd x y = (x + y) * (1 + d)) /\
  (forall x y, exists d, Rabs d <= ux /\ xsub x y = (x - y) * (1 + d)) /\
  (forall x y, exists d, Rabs d <= ux /\ xmul x y = x * y * (1 + d)) /\
  (forall x y, y <> 0 -> exists d, Rabs d <= ux /\ xdiv x y = x / y * (1 + d)) /\
  (forall a b, xadd 0 (xmul a b) = xmul a b).
Proof. repeat split; auto using xadd_ok, xsub_ok, xmul_ok, xdiv_ok, xadd_0_mul; apply ux_range. Qed.

Lemma A64r_standard_model :
  0 <= u64 < 1 /\
  (forall x y, exists d, Rabs d <= u64 /\ Fadd x y = (x + y) * (1 + d)) /\
  (forall x y, exists d, Rabs d <= u64 /\ Fsub x y = (x - y) * (1 + d)) /\
  (forall x y, exists d, Rabs d <= u64 /\ Fmul x y = x * y * (1 + d)) /\
  (forall x y, y <> 0 -> exists d, Rabs d <= u64 /\ Fdiv x y = x / y * (1 + d)) /\
  (forall a b, Fadd 0 (Fmul a b) = Fmul a b).
Proof. repeat split; auto using Fadd_ok, Fsub_ok, Fmul_ok, Fdiv_ok, Fadd_0_mul; apply u64_range. Qed.

Notation rentry64 := (rentry Fadd Fsub Fmul Fdiv).
Notation triu64 := (triu Fadd Fsub Fmul Fdiv).
Notation tril64 := (tril1 Fadd Fsub Fmul Fdiv).

(* Higham (3.4) for binary64 rounding on the reals *)
Theorem dot_backward_error_A64r (x y : list R) (r : R) :
  INR (length x) * u64 < 1 -> dot (A := A64r) x y = Ok r ->
  exists th : nat -> R,
    (forall k, (k < length x)%nat -> Rabs (th k) <= g64 (length x)) /\
    r = Rsum (length x) (fun k => nth k x 0 * nth k y 0 * (1 + th k)).
Proof. exact (dot_backward_error_lemma u64 u64_range Fadd Fsub Fmul Fdiv Fadd_ok Fmul_ok Fadd_0_mul x y r). Qed.

(* Higham Theorem 9.4 for binary64 rounding on the reals *)
Theorem solve_lu_backward_error_A64r (m lu perm : matrix A64r) (piv : nat) (b x : list R) :
  wf m -> INR (3 * rows m) * u64 < 1 ->
  lu_decomp m = Ok (lu, piv, perm) ->
  (forall k, (k < rows m)%nat -> rentry64 lu k k <> 0) ->
  solve_lu m b = Ok x ->
  length x = rows m /\
  exists tau : nat -> nat,
    (forall r, (r < rows m)%nat -> (tau r < rows m)%nat) /\
    (forall r r', (r < rows m)%nat -> (r' < rows m)%nat -> tau r = tau r' -> r = r') /\
    exists (dA : nat -> nat -> R) (db : nat -> R),
      (forall i c, (i < rows m)%nat -> (c < rows m)%nat ->
         Rabs (dA i c) <= g64 (3 * rows m) * Rsum (rows m) (fun k => Rabs (tril64 lu i k) * Rabs (triu64 lu k c))) /\
      (forall i, (i < rows m)%nat -> Rabs (db i) <= g64 (rows m) * Rabs (nth (tau i) b 0)) /\
      (forall i, (i < rows m)%nat ->
         Rsum (rows m) (fun c => (rentry64 m (tau i) c + dA i c) * nth c x 0) = nth (tau i) b 0 + db i).
Proof.
  exact (solve_lu_backward_error_gam3n_lemma u64 u64_range Fadd Fsub Fmul Fdiv Fadd_ok Fsub_ok Fmul_ok Fdiv_ok
           Fadd_0_mul m lu perm piv b x).
Qed.

(* the inverse, column by column, for binary64 rounding on the reals *)
Theorem inverse_backward_error_A64r (m lu perm inv : matrix A64r) (piv : nat) :
  wf m -> INR (rows m) * u64 < 1 ->
  lu_decomp m = Ok (lu, piv, perm) ->
  (forall k, (k < rows m)%nat -> rentry64 lu k k <> 0) ->
  inverse m = Ok inv ->
  wf inv /\ rows inv = rows m /\ cols inv = rows m /\
  exists tau : nat -> nat,
    (forall r, (r < rows m)%nat -> (tau r < rows m)%nat) /\
    (forall r r', (r < rows m)%nat -> (r' < rows m)%nat -> tau r = tau r' -> r = r') /\
    forall j, (j < rows m)%nat ->
      exists dA : nat -> nat -> R,
        (forall i c, (i < rows m)%nat -> (c < rows m)%nat ->
           Rabs (dA i c) <= (3 * g64 (rows m) + g64 (rows m) * g64 (rows m))
                            * Rsum (rows m) (fun k => Rabs (tril64 lu i k) * Rabs (triu64 lu k c))) /\
        forall i, (i < rows m)%nat ->
          Rsum (rows m) (fun c => (rentry64 m (tau i) c + dA i c) * rentry64 inv c j)
          = if (j =? tau i)%nat then 1 else 0.
Proof.
  exact (inverse_backward_error_lemma u64 u64_range Fadd Fsub Fmul Fdiv Fsub_ok Fmul_ok Fdiv_ok m lu perm inv piv).
Qed.
