(* Proofs/PinTest_dups.v -- compiled copy of the pin blocks Props/pending/C06_dups.v.txt and C07_dups.v.txt (package dups).
   Each block is compiled inside its own module, after exactly the Require / Import / Open Scope sentences of the Props file
   it will be appended to (Props/C07.v imports Floats and Reals further down, which shadow [zero], [add], ...; it does not
   import Permutation): what compiles here compiles at the end of Props/C06.v / Props/C07.v.  Everything between the
   BEGIN / END markers is the exact text of the pending file. *)
Module PinC06.
From Coq Require Import List Arith ZArith QArith Qcanon Lia Permutation.
From OV Require Import Base.Panic Base.Arith Base.Flat Model.Vector Model.Matrix Model.Sparse Inst.QcInst Proofs.SparseBase Proofs.SparseMul Proofs.SparseWf Proofs.SparseHist Proofs.SparseViews Proofs.SparseRefine Proofs.SparseTranspose Proofs.SparseFinal Proofs.SparseVecs.
Import ListNotations.
Local Open Scope nat_scope.
From OV Require Proofs.SrcEqSparse.
(* ---------------- BEGIN Props/pending/C06_dups.v.txt ---------------- *)
(* ======================================================================================================
   C06 (sparse views), duplicate positions -- package dups.  Append to Props/C06.v.
   The behaviour of src/sparse.rs on storage that holds one position several times, SPECIFIED (until now: tied,
   model = implementation, but outside every theorem).  For every well-formed storage, duplicates allowed:
   [dvals s i j] = the values stored for position (i,j), in storage order (= their order in to_triplets).
     get          returns the FIRST of them  (None when there is none)        get_first_duplicate
     to_dense     keeps the LAST of them     (zero when there is none)        to_dense_last_duplicate
     multiply / transpose_multiply work with their SUM (sp_entry)             Props/C07.v sp_entry_is_sum
   so the views agree at a position iff first = last (= sum) there (views_agree_iff); with no position stored twice
   the list has at most one element and views_agree follows (views_agree_from_duplicates: the same statement, re-derived).
     from_triplets  stores the duplicates of a position in the order of the INPUT list (stable sort)    from_triplets_duplicates
     insert         overwrites the first stored duplicate, leaves the others; an absent position is appended   insert_with_duplicates
     transpose      keeps the duplicates of every position in their order (stable counting sort)        transpose_duplicates
                    -- it IS from_triplets of the swapped triplet listing, field by field               transpose_is_stable_sort
     order_independent with duplicates: construction depends on the input order only through the relative order of the
                    triplets of one position                                                            from_triplets_same_duplicate_order
   and every in-range history refines the same history of list operations on the abstract matrix
   (i,j) |-> list of stored values: sp_refines_map without the NoDupKeys hypothesis                    history_with_duplicates
   Well-formedness is preserved in all cases (wfS_step, history_total above -- proved with duplicates allowed).
   Executable instances (a 2x2 storage holding (1,1) three times) and the answers of the Rust executor on the same
   input: Proofs/SparseDupExamples.v.
   ====================================================================================================== *)
From OV Require Import Proofs.SparseDup Proofs.SparseDupOps Proofs.SparseDupHist Proofs.SparseDupTranspose Proofs.SparseDupOrder Proofs.SparseDupExamples.

(* the list of the values stored for (i,j), read off to_triplets: the values of the triplets (i, j, _) in the order of the listing *)
Theorem dvals_listing : forall (A : Arith) (s : sparse A) i j, j < sp_cols s ->
  dvals s i j = map (@tval A) (filter (tmatch i j) (ents s)).
Proof. intros A s i j. exact (dvals_ents s i j). Qed.
Check dvals_listing : forall (A : Arith) (s : sparse A) i j, j < sp_cols s ->
  dvals s i j = map (@tval A) (filter (tmatch i j) (ents s)).
Print Assumptions dvals_listing.
Example dvals_listing_nonvacuous :   (* position (1,1) of dup_s is stored three times *)
  1 < sp_cols dup_s /\ length (dvals dup_s 1 1) = 3.
Proof. split; [cbn; lia|reflexivity]. Qed.

(* get returns the FIRST stored duplicate *)
Theorem get_first_duplicate : forall (A : Arith) (s : sparse A) i j, wfS s -> i < sp_rows s -> j < sp_cols s ->
  sp_get s i j = Ok (hd_error (dvals s i j)).
Proof. intros A s i j. exact (get_first_duplicate_lemma s i j). Qed.
Check get_first_duplicate : forall (A : Arith) (s : sparse A) i j, wfS s -> i < sp_rows s -> j < sp_cols s ->
  sp_get s i j = Ok (hd_error (dvals s i j)).
Print Assumptions get_first_duplicate.
Example get_first_duplicate_nonvacuous :
  wfS dup_s /\ 1 < sp_rows dup_s /\ 1 < sp_cols dup_s /\ length (dvals dup_s 1 1) = 3 /\ ~ NoDupKeys dup_s.
Proof. split; [exact dup_s_wf|]. split; [cbn; lia|]. split; [cbn; lia|]. split; [reflexivity|exact dup_s_has_duplicates]. Qed.

(* to_dense keeps the LAST stored duplicate *)
Theorem to_dense_last_duplicate : forall (A : Arith) (s : sparse A), wfS s ->
  exists D, sp_to_dense s = Ok D /\ rows D = sp_rows s /\ cols D = sp_cols s /\
    forall i j, i < sp_rows s -> j < sp_cols s -> mget D i j = Ok (last (dvals s i j) (@Arith.zero A)).
Proof. intros A s. exact (to_dense_last_duplicate_lemma s). Qed.
Check to_dense_last_duplicate : forall (A : Arith) (s : sparse A), wfS s ->
  exists D, sp_to_dense s = Ok D /\ rows D = sp_rows s /\ cols D = sp_cols s /\
    forall i j, i < sp_rows s -> j < sp_cols s -> mget D i j = Ok (last (dvals s i j) (@Arith.zero A)).
Print Assumptions to_dense_last_duplicate.
Example to_dense_last_duplicate_nonvacuous :
  wfS dup_s /\ 1 < sp_rows dup_s /\ 1 < sp_cols dup_s /\ length (dvals dup_s 1 1) = 3 /\ ~ NoDupKeys dup_s.
Proof. split; [exact dup_s_wf|]. split; [cbn; lia|]. split; [cbn; lia|]. split; [reflexivity|exact dup_s_has_duplicates]. Qed.

(* the four views of a well-formed storage, duplicates allowed *)
Theorem views_with_duplicates : forall (A : Arith) (s : sparse A), wfS s ->
  sp_to_triplets s = Ok (ents s) /\
  sp_col_index s = Ok (map (@tcol A) (ents s)) /\
  exists D, sp_to_dense s = Ok D /\ rows D = sp_rows s /\ cols D = sp_cols s /\
  forall i j, i < sp_rows s -> j < sp_cols s ->
    dvals s i j = map (@tval A) (filter (tmatch i j) (ents s)) /\
    sp_get s i j = Ok (hd_error (dvals s i j)) /\
    mget D i j = Ok (last (dvals s i j) (@Arith.zero A)) /\
    sp_entry s i j = suml (dvals s i j).
Proof. intros A s. exact (views_with_duplicates_lemma s). Qed.
Check views_with_duplicates : forall (A : Arith) (s : sparse A), wfS s ->
  sp_to_triplets s = Ok (ents s) /\
  sp_col_index s = Ok (map (@tcol A) (ents s)) /\
  exists D, sp_to_dense s = Ok D /\ rows D = sp_rows s /\ cols D = sp_cols s /\
  forall i j, i < sp_rows s -> j < sp_cols s ->
    dvals s i j = map (@tval A) (filter (tmatch i j) (ents s)) /\
    sp_get s i j = Ok (hd_error (dvals s i j)) /\
    mget D i j = Ok (last (dvals s i j) (@Arith.zero A)) /\
    sp_entry s i j = suml (dvals s i j).
Print Assumptions views_with_duplicates.
Example views_with_duplicates_nonvacuous :
  wfS dup_s /\ 1 < sp_rows dup_s /\ 1 < sp_cols dup_s /\ length (dvals dup_s 1 1) = 3 /\ ~ NoDupKeys dup_s.
Proof. split; [exact dup_s_wf|]. split; [cbn; lia|]. split; [cbn; lia|]. split; [reflexivity|exact dup_s_has_duplicates]. Qed.

(* the views agree at a position exactly when first = last (get vs to_dense) and last = sum (to_dense vs the products) *)
Theorem views_agree_iff : forall (A : Arith) (s : sparse A) (D : matrix A), wfS s -> sp_to_dense s = Ok D ->
  forall i j, i < sp_rows s -> j < sp_cols s ->
    ((exists o, sp_get s i j = Ok o /\ mget D i j = Ok (oval o)) <-> hd (@Arith.zero A) (dvals s i j) = last (dvals s i j) (@Arith.zero A)) /\
    (mget D i j = Ok (sp_entry s i j) <-> last (dvals s i j) (@Arith.zero A) = suml (dvals s i j)).
Proof. intros A s D. exact (views_agree_iff_lemma s D). Qed.
Check views_agree_iff : forall (A : Arith) (s : sparse A) (D : matrix A), wfS s -> sp_to_dense s = Ok D ->
  forall i j, i < sp_rows s -> j < sp_cols s ->
    ((exists o, sp_get s i j = Ok o /\ mget D i j = Ok (oval o)) <-> hd (@Arith.zero A) (dvals s i j) = last (dvals s i j) (@Arith.zero A)) /\
    (mget D i j = Ok (sp_entry s i j) <-> last (dvals s i j) (@Arith.zero A) = suml (dvals s i j)).
Print Assumptions views_agree_iff.
Example views_agree_iff_nonvacuous :   (* at (1,1) of dup_s first = 2, last = 500, sum = 532: the views disagree there *)
  wfS dup_s /\ (exists D, sp_to_dense dup_s = Ok D) /\ 1 < sp_rows dup_s /\ 1 < sp_cols dup_s /\
  flat_q (hd (@Arith.zero AQ) (dvals dup_s 1 1)) <> flat_q (last (dvals dup_s 1 1) (@Arith.zero AQ)) /\
  flat_q (last (dvals dup_s 1 1) (@Arith.zero AQ)) <> flat_q (suml (dvals dup_s 1 1)).
Proof. split; [exact dup_s_wf|]. split; [eexists; reflexivity|]. split; [cbn; lia|]. split; [cbn; lia|]. split; vm_compute; discriminate. Qed.

(* views_agree (above), re-derived from the statements with duplicates: under NoDupKeys every list has at most one element *)
Theorem views_agree_from_duplicates : forall (A : Arith) (s : sparse A), wfS s -> NoDupKeys s ->
  sp_to_triplets s = Ok (ents s) /\
  sp_col_index s = Ok (map (@tcol A) (ents s)) /\
  exists D, sp_to_dense s = Ok D /\ rows D = sp_rows s /\ cols D = sp_cols s /\
  forall i j, i < sp_rows s -> j < sp_cols s ->
    (forall v, sp_get s i j = Ok (Some v) <-> In (i, j, v) (ents s)) /\
    (exists o, sp_get s i j = Ok o /\ mget D i j = Ok (match o with Some v => v | None => @Arith.zero A end)).
Proof. intros A s. exact (views_agree_rederived_lemma s). Qed.
Check views_agree_from_duplicates : forall (A : Arith) (s : sparse A), wfS s -> NoDupKeys s ->
  sp_to_triplets s = Ok (ents s) /\
  sp_col_index s = Ok (map (@tcol A) (ents s)) /\
  exists D, sp_to_dense s = Ok D /\ rows D = sp_rows s /\ cols D = sp_cols s /\
  forall i j, i < sp_rows s -> j < sp_cols s ->
    (forall v, sp_get s i j = Ok (Some v) <-> In (i, j, v) (ents s)) /\
    (exists o, sp_get s i j = Ok o /\ mget D i j = Ok (match o with Some v => v | None => @Arith.zero A end)).
Print Assumptions views_agree_from_duplicates.
Example views_agree_from_duplicates_nonvacuous :
  wfS nd_s /\ NoDupKeys nd_s.
Proof. split; [exact nd_s_wf|exact nd_s_nodup]. Qed.

(* from_triplets: the duplicates of a position are stored in the order of the input list; get picks the first input triplet with that (row, col), to_dense the last, the products their sum *)
Theorem from_triplets_duplicates : forall (A : Arith) r c (ts : list (triplet A)),
  (forall t, In t ts -> trow t < r /\ tcol t < c) ->
  exists s D, sp_from_triplets r c ts = Ok s /\ wfS s /\ sp_rows s = r /\ sp_cols s = c /\
    sp_to_dense s = Ok D /\
    forall i j, i < r -> j < c ->
      dvals s i j = map (@tval A) (filter (tmatch i j) ts) /\
      sp_get s i j = Ok (hd_error (map (@tval A) (filter (tmatch i j) ts))) /\
      mget D i j = Ok (last (map (@tval A) (filter (tmatch i j) ts)) (@Arith.zero A)) /\
      sp_entry s i j = suml (map (@tval A) (filter (tmatch i j) ts)).
Proof. intros A r c ts. exact (from_triplets_duplicates_lemma r c ts). Qed.
Check from_triplets_duplicates : forall (A : Arith) r c (ts : list (triplet A)),
  (forall t, In t ts -> trow t < r /\ tcol t < c) ->
  exists s D, sp_from_triplets r c ts = Ok s /\ wfS s /\ sp_rows s = r /\ sp_cols s = c /\
    sp_to_dense s = Ok D /\
    forall i j, i < r -> j < c ->
      dvals s i j = map (@tval A) (filter (tmatch i j) ts) /\
      sp_get s i j = Ok (hd_error (map (@tval A) (filter (tmatch i j) ts))) /\
      mget D i j = Ok (last (map (@tval A) (filter (tmatch i j) ts)) (@Arith.zero A)) /\
      sp_entry s i j = suml (map (@tval A) (filter (tmatch i j) ts)).
Print Assumptions from_triplets_duplicates.
Example from_triplets_duplicates_nonvacuous :   (* dup_ts lists (1,1) three times, not adjacent *)
  (forall t, In t dup_ts -> trow t < 2 /\ tcol t < 2) /\ length (filter (tmatch 1 1) dup_ts) = 3.
Proof. split; [exact dup_ts_in_range|reflexivity]. Qed.

(* insert: the first stored duplicate of the target is overwritten, the others stay; an absent target is appended; every other position keeps its list.  (wfS of the result: also wfS_step above) *)
Theorem insert_with_duplicates : forall (A : Arith) (s : sparse A) i j (v : A), wfS s -> i < sp_rows s -> j < sp_cols s ->
  exists s', sp_insert s i j v = Ok s' /\ wfS s' /\ sp_rows s' = sp_rows s /\ sp_cols s' = sp_cols s /\
    forall i' j', i' < sp_rows s -> j' < sp_cols s ->
      dvals s' i' j' = if (i' =? i) && (j' =? j) then v :: tl (dvals s i j) else dvals s i' j'.
Proof. intros A s i j v. exact (insert_with_duplicates_lemma s i j v). Qed.
Check insert_with_duplicates : forall (A : Arith) (s : sparse A) i j (v : A), wfS s -> i < sp_rows s -> j < sp_cols s ->
  exists s', sp_insert s i j v = Ok s' /\ wfS s' /\ sp_rows s' = sp_rows s /\ sp_cols s' = sp_cols s /\
    forall i' j', i' < sp_rows s -> j' < sp_cols s ->
      dvals s' i' j' = if (i' =? i) && (j' =? j) then v :: tl (dvals s i j) else dvals s i' j'.
Print Assumptions insert_with_duplicates.
Example insert_with_duplicates_nonvacuous :
  wfS dup_s /\ 1 < sp_rows dup_s /\ 1 < sp_cols dup_s /\ length (dvals dup_s 1 1) = 3 /\ ~ NoDupKeys dup_s.
Proof. split; [exact dup_s_wf|]. split; [cbn; lia|]. split; [cbn; lia|]. split; [reflexivity|exact dup_s_has_duplicates]. Qed.

(* transpose: nothing lost or invented (transpose_entries above), and the values stored for (j,i) in the result are those stored for (i,j) in the argument, in the same order *)
Theorem transpose_duplicates : forall (A : Arith) (s : sparse A), wfS s ->
  exists s', sp_transpose s = Ok s' /\ wfS s' /\ sp_rows s' = sp_cols s /\ sp_cols s' = sp_rows s /\
    Permutation (ents s') (map tswap (ents s)) /\
    forall i j, i < sp_rows s -> j < sp_cols s -> dvals s' j i = dvals s i j.
Proof. intros A s. exact (transpose_duplicates_lemma s). Qed.
Check transpose_duplicates : forall (A : Arith) (s : sparse A), wfS s ->
  exists s', sp_transpose s = Ok s' /\ wfS s' /\ sp_rows s' = sp_cols s /\ sp_cols s' = sp_rows s /\
    Permutation (ents s') (map tswap (ents s)) /\
    forall i j, i < sp_rows s -> j < sp_cols s -> dvals s' j i = dvals s i j.
Print Assumptions transpose_duplicates.
Example transpose_duplicates_nonvacuous :
  wfS dup_s /\ 1 < sp_rows dup_s /\ 1 < sp_cols dup_s /\ length (dvals dup_s 1 1) = 3 /\ ~ NoDupKeys dup_s.
Proof. split; [exact dup_s_wf|]. split; [cbn; lia|]. split; [cbn; lia|]. split; [reflexivity|exact dup_s_has_duplicates]. Qed.

(* transpose is the STABLE sort by row of the swapped listing: the triplet listing of the result, and the result itself (all six fields), are those of from_triplets on the swapped listing *)
Theorem transpose_is_stable_sort : forall (A : Arith) (s : sparse A), wfS s ->
  exists s', sp_transpose s = Ok s' /\ wfS s' /\ sp_rows s' = sp_cols s /\ sp_cols s' = sp_rows s /\
    ents s' = sort_by_col (map tswap (ents s)) /\
    sp_from_triplets (sp_cols s) (sp_rows s) (map tswap (ents s)) = Ok s'.
Proof. intros A s. exact (transpose_is_stable_sort_lemma s). Qed.
Check transpose_is_stable_sort : forall (A : Arith) (s : sparse A), wfS s ->
  exists s', sp_transpose s = Ok s' /\ wfS s' /\ sp_rows s' = sp_cols s /\ sp_cols s' = sp_rows s /\
    ents s' = sort_by_col (map tswap (ents s)) /\
    sp_from_triplets (sp_cols s) (sp_rows s) (map tswap (ents s)) = Ok s'.
Print Assumptions transpose_is_stable_sort.
Example transpose_is_stable_sort_nonvacuous :
  wfS dup_s /\ 1 < sp_rows dup_s /\ 1 < sp_cols dup_s /\ length (dvals dup_s 1 1) = 3 /\ ~ NoDupKeys dup_s.
Proof. split; [exact dup_s_wf|]. split; [cbn; lia|]. split; [cbn; lia|]. split; [reflexivity|exact dup_s_has_duplicates]. Qed.

(* P2 without duplicate-freeness: every in-range history on ANY well-formed storage returns and refines the same history of list operations (insert: replace the head; scale: map; transpose: swap) on the abstract matrix (i,j) |-> list of stored values; lookup = head, dense entry = last, product entry = sum of the final list *)
Theorem history_with_duplicates : forall (A : Arith) (ops : list (sop A)) (s : sparse A), wfS s ->
  ops_ok (sp_rows s) (sp_cols s) ops ->
  exists s' D, sp_run ops s = Ok s' /\ wfS s' /\
    (sp_rows s', sp_cols s') = dims_after (sp_rows s) (sp_cols s) ops /\
    sp_to_dense s' = Ok D /\
    forall i j, i < sp_rows s' -> j < sp_cols s' ->
      dvals s' i j = dspec_run ops (dabs s) i j /\
      sp_get s' i j = Ok (hd_error (dspec_run ops (dabs s) i j)) /\
      mget D i j = Ok (last (dspec_run ops (dabs s) i j) (@Arith.zero A)) /\
      sp_entry s' i j = suml (dspec_run ops (dabs s) i j).
Proof. intros A ops s. exact (history_with_duplicates_lemma ops s). Qed.
Check history_with_duplicates : forall (A : Arith) (ops : list (sop A)) (s : sparse A), wfS s ->
  ops_ok (sp_rows s) (sp_cols s) ops ->
  exists s' D, sp_run ops s = Ok s' /\ wfS s' /\
    (sp_rows s', sp_cols s') = dims_after (sp_rows s) (sp_cols s) ops /\
    sp_to_dense s' = Ok D /\
    forall i j, i < sp_rows s' -> j < sp_cols s' ->
      dvals s' i j = dspec_run ops (dabs s) i j /\
      sp_get s' i j = Ok (hd_error (dspec_run ops (dabs s) i j)) /\
      mget D i j = Ok (last (dspec_run ops (dabs s) i j) (@Arith.zero A)) /\
      sp_entry s' i j = suml (dspec_run ops (dabs s) i j).
Print Assumptions history_with_duplicates.
Example history_with_duplicates_nonvacuous :   (* six steps on dup_s: two overwrites of the tripled position, a transposition, a scaling, an overwrite and a fresh insertion *)
  wfS dup_s /\ ops_ok (sp_rows dup_s) (sp_cols dup_s) dup_ops /\ ~ NoDupKeys dup_s /\ length dup_ops = 6.
Proof. split; [exact dup_s_wf|]. split; [exact dup_ops_ok|]. split; [exact dup_s_has_duplicates|reflexivity]. Qed.

(* order_independent (above) with duplicates: two in-range triplet lists in which every position has the same sub-list of triplets (the same duplicates in the same relative order) give storages with the same value lists, lookups, dense entries and product entries everywhere *)
Theorem from_triplets_same_duplicate_order : forall (A : Arith) r c (ts ts' : list (triplet A)),
  (forall t, In t ts -> trow t < r /\ tcol t < c) -> (forall t, In t ts' -> trow t < r /\ tcol t < c) ->
  (forall i j, i < r -> j < c -> filter (tmatch i j) ts = filter (tmatch i j) ts') ->
  exists s s' D D', sp_from_triplets r c ts = Ok s /\ sp_from_triplets r c ts' = Ok s' /\
    sp_to_dense s = Ok D /\ sp_to_dense s' = Ok D' /\
    forall i j, i < r -> j < c ->
      dvals s i j = dvals s' i j /\ sp_get s i j = sp_get s' i j /\ mget D i j = mget D' i j /\
      sp_entry s i j = sp_entry s' i j.
Proof. intros A r c ts ts'. exact (from_triplets_same_duplicate_order_lemma r c ts ts'). Qed.
Check from_triplets_same_duplicate_order : forall (A : Arith) r c (ts ts' : list (triplet A)),
  (forall t, In t ts -> trow t < r /\ tcol t < c) -> (forall t, In t ts' -> trow t < r /\ tcol t < c) ->
  (forall i j, i < r -> j < c -> filter (tmatch i j) ts = filter (tmatch i j) ts') ->
  exists s s' D D', sp_from_triplets r c ts = Ok s /\ sp_from_triplets r c ts' = Ok s' /\
    sp_to_dense s = Ok D /\ sp_to_dense s' = Ok D' /\
    forall i j, i < r -> j < c ->
      dvals s i j = dvals s' i j /\ sp_get s i j = sp_get s' i j /\ mget D i j = mget D' i j /\
      sp_entry s i j = sp_entry s' i j.
Print Assumptions from_triplets_same_duplicate_order.
Example from_triplets_same_duplicate_order_nonvacuous :   (* dup_ts and dup_ts' differ as lists and list the three (1,1) triplets in the same relative order *)
  (forall t, In t dup_ts -> trow t < 2 /\ tcol t < 2) /\ (forall t, In t dup_ts' -> trow t < 2 /\ tcol t < 2) /\
  (forall i j, i < 2 -> j < 2 -> filter (tmatch i j) dup_ts = filter (tmatch i j) dup_ts') /\ map (@tcol AQ) dup_ts <> map (@tcol AQ) dup_ts'.
Proof. split; [exact dup_ts_in_range|]. split; [exact dup_ts'_in_range|]. split; [exact dup_ts_same_duplicate_order|]. vm_compute. discriminate. Qed.
(* ---------------- END Props/pending/C06_dups.v.txt ---------------- *)
End PinC06.

Module PinC07.
From Coq Require Import List Arith ZArith QArith Qcanon Lia.
From OV Require Import Base.Panic Base.Arith Base.Flat Model.Vector Model.Matrix Model.Sparse Inst.QcInst Proofs.SparseBase Proofs.SparseMul Proofs.SparseWf Proofs.SparseHist Proofs.SparseViews Proofs.SparseRefine Proofs.SparseTranspose Proofs.SparseFinal.
Import ListNotations.
Local Open Scope nat_scope.
From OV Require Proofs.SrcEqSparse.
From Coq Require Import Reals Lra Lia.
From OV Require Import Base.RoundModel Proofs.SparseBase Proofs.RoundDot Proofs.RoundSparse Proofs.RoundFlx Proofs.RoundExamples.
From Coq Require Import Floats.
From OV Require Import Inst.FloatInst Proofs.ComplexRound Proofs.RoundDotFloat.
From OV Require Import Proofs.RoundSparseDense.
From OV Require Import Proofs.RoundSparseT.
(* ---------------- BEGIN Props/pending/C07_dups.v.txt ---------------- *)
(* ======================================================================================================
   C07 (sparse products), duplicate positions -- package dups.  Append to Props/C07.v.
   sp_mul_spec / sp_tmul_spec / sp_adjoint / sp_transpose_mul above hold for EVERY well-formed storage: the products are
   the dense products of the matrix [sp_entry s], whose (i,j) entry is the SUM of the values stored for (i,j)
   (sp_entry_is_sum; [dvals s i j] = those values in storage order, Proofs/SparseDup.v).  to_dense keeps the LAST stored
   value (Props/C06.v to_dense_last_duplicate).  Hence: the sparse product equals the product with the dense conversion
   (the model's own Matrix::multiply applied to to_dense s) for all vectors IFF at every position the duplicates sum to the
   last one (sp_mul_to_dense_iff, sp_tmul_to_dense_iff); with no position stored twice they do (nodup_first_last_sum,
   sp_mul_to_dense_nodup; to_dense_entry re-derived); adjointness and the product with the explicit transpose need no
   condition, and transposition preserves every entry sum (adjoint_with_duplicates).
   ====================================================================================================== *)
From Coq Require Import Permutation.
From OV Require Proofs.Matrix.
From OV Require Import Proofs.SparseDup Proofs.SparseDupOps Proofs.SparseDupMul Proofs.SparseDupOrder Proofs.SparseDupExamples.

(* the entry the products work with is the SUM of the values stored for the position (the definition of sp_entry, restated through dvals) *)
Theorem sp_entry_is_sum : forall (A : Arith) (s : sparse A) i j, sp_entry s i j = suml (dvals s i j).
Proof. intros A s i j. exact (sp_entry_is_sum_lemma s i j). Qed.
Check sp_entry_is_sum : forall (A : Arith) (s : sparse A) i j, sp_entry s i j = suml (dvals s i j).
Print Assumptions sp_entry_is_sum.
Example sp_entry_is_sum_nonvacuous :   (* 2 + 30 + 500 at position (1,1) of dup_s *)
  length (dvals dup_s 1 1) = 3 /\ flat_q (sp_entry dup_s 1 1) = [2; 532; 1]%Z.
Proof. split; [reflexivity|vm_compute; reflexivity]. Qed.

(* no position stored twice: at most one value per position, so first = last = sum *)
Theorem nodup_first_last_sum : forall (A : Arith), RingLaws A -> forall (s : sparse A) i j, wfS s -> NoDupKeys s -> j < sp_cols s ->
  length (dvals s i j) <= 1 /\ hd (@Arith.zero A) (dvals s i j) = last (dvals s i j) (@Arith.zero A) /\
  last (dvals s i j) (@Arith.zero A) = sp_entry s i j.
Proof. intros A RL s i j. exact (nodup_first_last_sum_lemma RL s i j). Qed.
Check nodup_first_last_sum : forall (A : Arith), RingLaws A -> forall (s : sparse A) i j, wfS s -> NoDupKeys s -> j < sp_cols s ->
  length (dvals s i j) <= 1 /\ hd (@Arith.zero A) (dvals s i j) = last (dvals s i j) (@Arith.zero A) /\
  last (dvals s i j) (@Arith.zero A) = sp_entry s i j.
Print Assumptions nodup_first_last_sum.
Example nodup_first_last_sum_nonvacuous :
  RingLaws AQ /\ wfS nd_s /\ NoDupKeys nd_s /\ 1 < sp_cols nd_s /\ length (dvals nd_s 2 1) = 1.
Proof. split; [exact dup_RingLaws|]. split; [exact nd_s_wf|]. split; [exact nd_s_nodup|]. split; [cbn; lia|reflexivity]. Qed.

(* to_dense_entry (above), re-derived from to_dense_last_duplicate *)
Theorem to_dense_entry_from_duplicates : forall (A : Arith), RingLaws A -> forall (s : sparse A), wfS s -> NoDupKeys s ->
  exists D, sp_to_dense s = Ok D /\ rows D = sp_rows s /\ cols D = sp_cols s /\
    forall i j, i < sp_rows s -> j < sp_cols s -> mget D i j = Ok (sp_entry s i j).
Proof. intros A RL s. exact (to_dense_entry_rederived_lemma RL s). Qed.
Check to_dense_entry_from_duplicates : forall (A : Arith), RingLaws A -> forall (s : sparse A), wfS s -> NoDupKeys s ->
  exists D, sp_to_dense s = Ok D /\ rows D = sp_rows s /\ cols D = sp_cols s /\
    forall i j, i < sp_rows s -> j < sp_cols s -> mget D i j = Ok (sp_entry s i j).
Print Assumptions to_dense_entry_from_duplicates.
Example to_dense_entry_from_duplicates_nonvacuous :
  RingLaws AQ /\ wfS nd_s /\ NoDupKeys nd_s.
Proof. split; [exact dup_RingLaws|]. split; [exact nd_s_wf|exact nd_s_nodup]. Qed.

(* multiply = Matrix::multiply of the dense conversion, for all vectors, IFF at every position the stored duplicates sum to the last one *)
Theorem sp_mul_to_dense_iff : forall (A : Arith), RingLaws A -> forall (s : sparse A), wfS s ->
  exists D, sp_to_dense s = Ok D /\ rows D = sp_rows s /\ cols D = sp_cols s /\
    (forall i j, i < sp_rows s -> j < sp_cols s -> mget D i j = Ok (last (dvals s i j) (@Arith.zero A))) /\
    ((forall x, length x = sp_cols s -> sp_mul s x = multiply D x) <->
     (forall i j, i < sp_rows s -> j < sp_cols s -> suml (dvals s i j) = last (dvals s i j) (@Arith.zero A))).
Proof. intros A RL s. exact (sp_mul_to_dense_iff_lemma RL s). Qed.
Check sp_mul_to_dense_iff : forall (A : Arith), RingLaws A -> forall (s : sparse A), wfS s ->
  exists D, sp_to_dense s = Ok D /\ rows D = sp_rows s /\ cols D = sp_cols s /\
    (forall i j, i < sp_rows s -> j < sp_cols s -> mget D i j = Ok (last (dvals s i j) (@Arith.zero A))) /\
    ((forall x, length x = sp_cols s -> sp_mul s x = multiply D x) <->
     (forall i j, i < sp_rows s -> j < sp_cols s -> suml (dvals s i j) = last (dvals s i j) (@Arith.zero A))).
Print Assumptions sp_mul_to_dense_iff.
Example sp_mul_to_dense_iff_nonvacuous :   (* on dup_s the two products differ: [-11; -1064] against [-11; -1000] *)
  RingLaws AQ /\ wfS dup_s /\ length dup_x = sp_cols dup_s /\
  fl_res (fl_list flat_q) (sp_mul dup_s dup_x) <> fl_res (fl_list flat_q) (let* D := sp_to_dense dup_s in multiply D dup_x).
Proof. split; [exact dup_RingLaws|]. split; [exact dup_s_wf|]. split; [reflexivity|]. vm_compute. discriminate. Qed.

(* transpose_multiply = the transposed dense product of the dense conversion, for all vectors, IFF the same condition holds ([dlast s i j] = last (dvals s i j) (@Arith.zero A); [Matrix.msp r c f D]: D is a well-formed r x c dense matrix with entries f) *)
Theorem sp_tmul_to_dense_iff : forall (A : Arith), RingLaws A -> forall (s : sparse A), wfS s ->
  exists D, sp_to_dense s = Ok D /\ Proofs.Matrix.msp (sp_rows s) (sp_cols s) (dlast s) D /\
    ((forall y, length y = sp_rows s -> sp_tmul s y = Ok (dtmulv (Proofs.Matrix.entry D) (sp_rows s) (sp_cols s) y)) <->
     (forall i j, i < sp_rows s -> j < sp_cols s -> suml (dvals s i j) = last (dvals s i j) (@Arith.zero A))).
Proof. intros A RL s. exact (sp_tmul_to_dense_iff_lemma RL s). Qed.
Check sp_tmul_to_dense_iff : forall (A : Arith), RingLaws A -> forall (s : sparse A), wfS s ->
  exists D, sp_to_dense s = Ok D /\ Proofs.Matrix.msp (sp_rows s) (sp_cols s) (dlast s) D /\
    ((forall y, length y = sp_rows s -> sp_tmul s y = Ok (dtmulv (Proofs.Matrix.entry D) (sp_rows s) (sp_cols s) y)) <->
     (forall i j, i < sp_rows s -> j < sp_cols s -> suml (dvals s i j) = last (dvals s i j) (@Arith.zero A))).
Print Assumptions sp_tmul_to_dense_iff.
Example sp_tmul_to_dense_iff_nonvacuous :
  RingLaws AQ /\ wfS dup_s /\ length dup_y = sp_rows dup_s /\ flat_q (suml (dvals dup_s 1 1)) <> flat_q (last (dvals dup_s 1 1) (@Arith.zero AQ)).
Proof. split; [exact dup_RingLaws|]. split; [exact dup_s_wf|]. split; [reflexivity|]. vm_compute. discriminate. Qed.

(* DESIGN Appendix E in its original form: with no position stored twice the sparse product IS the dense product of to_dense *)
Theorem sp_mul_to_dense_nodup : forall (A : Arith), RingLaws A -> forall (s : sparse A) (x : list A), wfS s -> NoDupKeys s -> length x = sp_cols s ->
  exists D, sp_to_dense s = Ok D /\ sp_mul s x = multiply D x.
Proof. intros A RL s x. exact (sp_mul_to_dense_nodup_lemma RL s x). Qed.
Check sp_mul_to_dense_nodup : forall (A : Arith), RingLaws A -> forall (s : sparse A) (x : list A), wfS s -> NoDupKeys s -> length x = sp_cols s ->
  exists D, sp_to_dense s = Ok D /\ sp_mul s x = multiply D x.
Print Assumptions sp_mul_to_dense_nodup.
Example sp_mul_to_dense_nodup_nonvacuous :
  RingLaws AQ /\ wfS nd_s /\ NoDupKeys nd_s /\ length [q 1 1; q 2 1; q (-3) 1; q 1 2] = sp_cols nd_s.
Proof. split; [exact dup_RingLaws|]. split; [exact nd_s_wf|]. split; [exact nd_s_nodup|reflexivity]. Qed.

(* adjointness and the explicit transpose with duplicates: no condition; transposition keeps the stored values of every position in order, hence every entry sum *)
Theorem adjoint_with_duplicates : forall (A : Arith), RingLaws A -> forall (s : sparse A) (x y : list A),
  wfS s -> length x = sp_cols s -> length y = sp_rows s ->
  (exists u w d, sp_mul s x = Ok u /\ sp_tmul s y = Ok w /\ dot y u = Ok d /\ dot w x = Ok d) /\
  (exists s' w, sp_transpose s = Ok s' /\ wfS s' /\ sp_mul s' y = Ok w /\ sp_tmul s y = Ok w /\
     forall i j, i < sp_rows s -> j < sp_cols s -> dvals s' j i = dvals s i j /\ sp_entry s' j i = sp_entry s i j).
Proof. intros A RL s x y. exact (adjoint_with_duplicates_lemma RL s x y). Qed.
Check adjoint_with_duplicates : forall (A : Arith), RingLaws A -> forall (s : sparse A) (x y : list A),
  wfS s -> length x = sp_cols s -> length y = sp_rows s ->
  (exists u w d, sp_mul s x = Ok u /\ sp_tmul s y = Ok w /\ dot y u = Ok d /\ dot w x = Ok d) /\
  (exists s' w, sp_transpose s = Ok s' /\ wfS s' /\ sp_mul s' y = Ok w /\ sp_tmul s y = Ok w /\
     forall i j, i < sp_rows s -> j < sp_cols s -> dvals s' j i = dvals s i j /\ sp_entry s' j i = sp_entry s i j).
Print Assumptions adjoint_with_duplicates.
Example adjoint_with_duplicates_nonvacuous :   (* <y, A x> = <A^T y, x> = -7503 on dup_s *)
  RingLaws AQ /\ wfS dup_s /\ length dup_x = sp_cols dup_s /\ length dup_y = sp_rows dup_s /\ ~ NoDupKeys dup_s /\
  fl_res flat_q (let* u := sp_mul dup_s dup_x in dot dup_y u) = [2; -7503; 1]%Z.
Proof. split; [exact dup_RingLaws|]. split; [exact dup_s_wf|]. split; [reflexivity|]. split; [reflexivity|]. split; [exact dup_s_has_duplicates|]. vm_compute. reflexivity. Qed.

(* the products do not depend on the order of the triplets at all, duplicates or not (lookups and to_dense do: Props/C06.v from_triplets_duplicates) *)
Theorem from_triplets_products_order_independent : forall (A : Arith), RingLaws A -> forall r c (ts ts' : list (triplet A)),
  Permutation ts ts' -> (forall t, In t ts -> trow t < r /\ tcol t < c) ->
  exists s s', sp_from_triplets r c ts = Ok s /\ sp_from_triplets r c ts' = Ok s' /\
    (forall i j, i < r -> j < c -> sp_entry s i j = sp_entry s' i j) /\
    (forall x, length x = c -> sp_mul s x = sp_mul s' x) /\
    (forall y, length y = r -> sp_tmul s y = sp_tmul s' y).
Proof. intros A RL r c ts ts'. exact (from_triplets_products_order_independent_lemma RL r c ts ts'). Qed.
Check from_triplets_products_order_independent : forall (A : Arith), RingLaws A -> forall r c (ts ts' : list (triplet A)),
  Permutation ts ts' -> (forall t, In t ts -> trow t < r /\ tcol t < c) ->
  exists s s', sp_from_triplets r c ts = Ok s /\ sp_from_triplets r c ts' = Ok s' /\
    (forall i j, i < r -> j < c -> sp_entry s i j = sp_entry s' i j) /\
    (forall x, length x = c -> sp_mul s x = sp_mul s' x) /\
    (forall y, length y = r -> sp_tmul s y = sp_tmul s' y).
Print Assumptions from_triplets_products_order_independent.
Example from_triplets_products_order_independent_nonvacuous :   (* the reversed list: get(1,1) changes from 2 to 500, the products do not change *)
  RingLaws AQ /\ Permutation dup_ts (rev dup_ts) /\ (forall t, In t dup_ts -> trow t < 2 /\ tcol t < 2) /\
  fl_res (fun o : option AQ => flat_q (oval o)) (let* s := sp_from_triplets 2 2 dup_ts in sp_get s 1 1)
  <> fl_res (fun o : option AQ => flat_q (oval o)) (let* s := sp_from_triplets 2 2 (rev dup_ts) in sp_get s 1 1).
Proof. split; [exact dup_RingLaws|]. split; [apply Permutation_rev|]. split; [exact dup_ts_in_range|]. vm_compute. discriminate. Qed.
(* ---------------- END Props/pending/C07_dups.v.txt ---------------- *)
End PinC07.
