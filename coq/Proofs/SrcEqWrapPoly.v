(* Proofs/SrcEqWrapPoly.v -- src/polynomial/{arithmetic,mod}.rs: the consuming operator forms, Index, empty, new, quadratic, cubic, size, degree, Clone
   regenerated from the source of this run as gen/SrcWrapPoly.v and each proved equal to its hand-written model (package C11).
   Every consuming operator form computes exactly what the by-reference form computes; every Clone impl is the identity that
   the translation of `x.clone()` assumes. *)
From Coq Require Import List Arith ZArith Lia Bool.
From OV Require Import Base.Panic Base.Arith Model.Vector Model.Matrix Model.Tridiag Model.Banded Model.Poly Model.Newton gen.SrcPrelude gen.SrcWrapPoly Proofs.SrcEqBase.
Import ListNotations.

Section SrcEqWrapPoly.
Context {A : Arith}.

Lemma src_padd_val (p q : list (T A)) : s_padd_val p q = Ok (padd p q).
Proof. reflexivity. Qed.
Lemma src_pneg_val (p : list (T A)) : s_pneg_val p = Ok (pneg p).
Proof. reflexivity. Qed.
Lemma src_psub_val (p q : list (T A)) : s_psub_val p q = Ok (psub p q).
Proof. reflexivity. Qed.
Lemma src_pmul_val (p q : list (T A)) : s_pmul_val p q = Ok (pmul p q).
Proof. reflexivity. Qed.
Lemma src_pscale_val (p : list (T A)) (x : T A) : s_pscale_val p x = Ok (pscale p x).
Proof. reflexivity. Qed.
Lemma src_pindex (p : list (T A)) (i : nat) : s_pindex p i = pindex p i.
Proof. reflexivity. Qed.
Lemma src_pempty  : @s_pempty A = Ok pempty.
Proof. reflexivity. Qed.
Lemma src_pnew (c : list (T A)) : s_pnew c = Ok (pnew c).
Proof. reflexivity. Qed.
Lemma src_pquadratic (a b c : T A) : s_pquadratic a b c = Ok (pquadratic a b c).
Proof. reflexivity. Qed.
Lemma src_pcubic (a b c d : T A) : s_pcubic a b c d = Ok (pcubic a b c d).
Proof. reflexivity. Qed.
Lemma src_psize (p : list (T A)) : s_psize p = Ok (psize p).
Proof. reflexivity. Qed.
Lemma src_pdegree (p : list (T A)) : s_pdegree p = Ok (pdegree p).
Proof. destruct p as [|a p]; [reflexivity|]. unfold s_pdegree. cbn [length Nat.eqb]. rewrite usub_ok by lia. reflexivity. Qed.
Lemma src_pclone (p : list (T A)) : s_pclone p = Ok p.
Proof. reflexivity. Qed.

Definition model_is_source_WrapPoly : Prop :=
  (forall (p q : list (T A)), s_padd_val p q = Ok (padd p q)) /\
  (forall (p : list (T A)), s_pneg_val p = Ok (pneg p)) /\
  (forall (p q : list (T A)), s_psub_val p q = Ok (psub p q)) /\
  (forall (p q : list (T A)), s_pmul_val p q = Ok (pmul p q)) /\
  (forall (p : list (T A)) (x : T A), s_pscale_val p x = Ok (pscale p x)) /\
  (forall (p : list (T A)) (i : nat), s_pindex p i = pindex p i) /\
  (@s_pempty A = Ok pempty) /\
  (forall (c : list (T A)), s_pnew c = Ok (pnew c)) /\
  (forall (a b c : T A), s_pquadratic a b c = Ok (pquadratic a b c)) /\
  (forall (a b c d : T A), s_pcubic a b c d = Ok (pcubic a b c d)) /\
  (forall (p : list (T A)), s_psize p = Ok (psize p)) /\
  (forall (p : list (T A)), s_pdegree p = Ok (pdegree p)) /\
  (forall (p : list (T A)), s_pclone p = Ok p).
Lemma model_is_source_WrapPoly_lemma : model_is_source_WrapPoly.
Proof. exact (conj src_padd_val (conj src_pneg_val (conj src_psub_val (conj src_pmul_val (conj src_pscale_val (conj src_pindex (conj src_pempty (conj src_pnew (conj src_pquadratic (conj src_pcubic (conj src_psize (conj src_pdegree src_pclone)))))))))))). Qed.

End SrcEqWrapPoly.
