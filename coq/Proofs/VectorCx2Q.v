(* Proofs/VectorCx2Q.v -- C15, package cnorm: the laws of the generic norm_1 for RATIONAL vectors (review item A5).
   norm_1 of Model/Vector.v at AQ (canonical rationals, Signed::abs of the impl_signed! shape `if x < 0 {-x} else {x}`):
   the value is the sum of the absolute values; non-negative, definite, absolutely homogeneous for the model's
   vector * scalar, triangle inequality for the model's vector addition, and  max|x_i| <= norm_1 <= n * max|x_i|
   (Vector<Rat> has no norm_inf in the code -- norm_inf exists for f64 and Complex<f64> only -- so the maximum is stated
   as an attained upper bound of the absolute values). *)
From Coq Require Import List Arith Lia ZArith QArith Qcanon Qcabs.
From OV Require Import Base.Panic Base.Arith Model.Vector Proofs.Vector Inst.QcInst.
Import ListNotations.
Local Open Scope Qc_scope.

(* ring on goals whose equality is typed at the carrier projection T AQ instead of Qc *)
Ltac qring := match goal with |- @eq _ ?a ?b => change (@eq Qc a b); ring end.

(* the model's Signed::abs on Qc is the rational absolute value *)
Lemma Qc_ltb_iff (x y : Qc) : Qc_ltb x y = true <-> x < y.
Proof.
  unfold Qc_ltb. rewrite Qclt_alt. destruct (x ?= y); split; congruence.
Qed.

Lemma Qc_abs_Qcabs (x : Qc) : Qc_abs x = Qcabs x.
Proof.
  unfold Qc_abs. destruct (Qc_ltb x 0) eqn:E.
  - apply Qc_ltb_iff in E. symmetry. apply Qcabs_neg. now apply Qclt_le_weak.
  - symmetry. apply Qcabs_pos. destruct (Qclt_le_dec x 0) as [H|H]; [|exact H].
    apply Qc_ltb_iff in H. congruence.
Qed.

Fixpoint Qcsum (l : list Qc) : Qc := match l with [] => 0 | x :: t => x + Qcsum t end.

Lemma fold_add_shift_Q (f : Qc -> Qc) (l : list Qc) z :
  fold_left (fun acc x => acc + f x) l z = z + Qcsum (map f l).
Proof.
  revert z; induction l as [|x t IH]; intros z; cbn [fold_left map Qcsum]; [ring|]. rewrite IH. ring.
Qed.

Definition qsumabs (v : list Qc) : Qc := Qcsum (map Qcabs v).

(* the value *)
Lemma qnorm1_value_lemma (v : list Qc) : norm_1 (A := AQ) v = qsumabs v.
Proof.
  unfold norm_1, qsumabs. change (fold_left (fun acc x => acc + Qc_abs x) v 0 = Qcsum (map Qcabs v)).
  rewrite (fold_add_shift_Q Qc_abs). rewrite (map_ext Qc_abs Qcabs Qc_abs_Qcabs). ring.
Qed.

Lemma Qcsum_nonneg (l : list Qc) : (forall x, In x l -> 0 <= x) -> 0 <= Qcsum l.
Proof.
  induction l as [|x t IH]; intros H; cbn [Qcsum]; [apply Qcle_refl|].
  replace 0 with (0 + 0) by ring. apply Qcplus_le_compat; [apply H; now left|apply IH; intros; apply H; now right].
Qed.

Lemma qsumabs_nonneg v : 0 <= qsumabs v.
Proof. apply Qcsum_nonneg. intros x Hx. apply in_map_iff in Hx as (y & <- & _). apply Qcabs_nonneg. Qed.

Lemma qnorm1_nonneg_lemma (v : list Qc) : 0 <= norm_1 (A := AQ) v.
Proof. rewrite qnorm1_value_lemma. apply qsumabs_nonneg. Qed.

Lemma Qc_sum0_l (a b : Qc) : 0 <= a -> 0 <= b -> a + b = 0 -> a = 0.
Proof.
  intros Ha Hb E. apply Qcle_antisym; [|exact Ha]. rewrite <- E.
  replace a with (a + 0) at 1 by ring. apply Qcplus_le_compat; [apply Qcle_refl|exact Hb].
Qed.

Lemma Qcabs_zero_iff (x : Qc) : Qcabs x = 0 <-> x = 0.
Proof. split; [apply Qcabs_null|]. intros ->. apply Qcabs_pos, Qcle_refl. Qed.

(* definiteness *)
Lemma qnorm1_definite_lemma (v : list Qc) : norm_1 (A := AQ) v = 0 <-> forall x, In x v -> x = 0.
Proof.
  rewrite qnorm1_value_lemma. unfold qsumabs. induction v as [|x t IH]; cbn [map Qcsum].
  - split; [intros _ z []|reflexivity].
  - pose proof (Qcabs_nonneg x) as Hx. pose proof (qsumabs_nonneg t) as Ht. unfold qsumabs in Ht. split.
    + intros E z [<-|Hz].
      * apply Qcabs_zero_iff. exact (Qc_sum0_l _ _ Hx Ht E).
      * apply IH; [|exact Hz]. rewrite Qcplus_comm in E. exact (Qc_sum0_l _ _ Ht Hx E).
    + intros H. assert (E1 : Qcabs x = 0) by (apply Qcabs_zero_iff, H; now left).
      assert (E2 : Qcsum (map Qcabs t) = 0) by (apply IH; intros z Hz; apply H; now right).
      rewrite E1, E2. apply Qcplus_0_l.
Qed.

(* homogeneity for the model's vector * scalar *)
Lemma qnorm1_homog_lemma (v : list Qc) (c : Qc) :
  norm_1 (A := AQ) (vscale (A := AQ) v c) = Qcabs c * norm_1 (A := AQ) v.
Proof.
  rewrite !qnorm1_value_lemma. unfold qsumabs, vscale. induction v as [|x t IH]; cbn [map Qcsum]; [qring|].
  rewrite IH. change (@mul AQ x c) with (x * c). rewrite Qcabs_Qcmult. qring.
Qed.

Lemma zipw_cons_Q (f : Qc -> Qc -> Qc) x u y v : zipw (A := AQ) f (x :: u) (y :: v) = f x y :: zipw (A := AQ) f u v.
Proof. reflexivity. Qed.

(* triangle inequality for the model's vector addition *)
Lemma qnorm1_triangle_lemma (u v s : list Qc) : vadd (A := AQ) u v = Ok s ->
  norm_1 (A := AQ) s <= norm_1 (A := AQ) u + norm_1 (A := AQ) v.
Proof.
  intros E. apply (vadd_inv (A := AQ)) in E as [L ->]. rewrite !qnorm1_value_lemma. unfold qsumabs.
  revert v L; induction u as [|x u IH]; intros [|y v] L; cbn in L; try (exfalso; discriminate L).
  - cbn. replace (0 + 0) with 0 by qring. apply Qcle_refl.
  - rewrite zipw_cons_Q. cbn [map Qcsum]. injection L as L. specialize (IH v L).
    change (@add AQ x y) with (x + y).
    replace (Qcabs x + Qcsum (map Qcabs u) + (Qcabs y + Qcsum (map Qcabs v)))
      with ((Qcabs x + Qcabs y) + (Qcsum (map Qcabs u) + Qcsum (map Qcabs v))) by qring.
    apply Qcplus_le_compat; [apply Qcabs_triangle|exact IH].
Qed.

(* n as a rational *)
Definition Qc_of_nat (n : nat) : Qc := Q2Qc (inject_Z (Z.of_nat n)).

Lemma Qc_of_nat_S n : Qc_of_nat (S n) = Qc_of_nat n + 1.
Proof.
  unfold Qc_of_nat. apply Qc_is_canon. cbn [this Qcplus Q2Qc]. rewrite !Qred_correct.
  rewrite Nat2Z.inj_succ. unfold Z.succ. rewrite inject_Z_plus. reflexivity.
Qed.

Lemma Qcsum_in_le (l : list Qc) y : (forall x, In x l -> 0 <= x) -> In y l -> y <= Qcsum l.
Proof.
  induction l as [|x t IH]; intros H Hy; [contradiction|]. cbn [Qcsum].
  assert (Hx : 0 <= x) by (apply H; now left).
  assert (Ht : 0 <= Qcsum t) by (apply Qcsum_nonneg; intros; apply H; now right).
  destruct Hy as [->|Hy].
  - replace y with (y + 0) at 1 by qring. apply Qcplus_le_compat; [apply Qcle_refl|exact Ht].
  - replace y with (0 + y) by qring. apply Qcplus_le_compat; [exact Hx|]. apply IH; auto. intros; apply H; now right.
Qed.

Lemma Qcsum_le_length (l : list Qc) B : (forall y, In y l -> y <= B) -> Qcsum l <= Qc_of_nat (length l) * B.
Proof.
  induction l as [|x t IH]; intros H.
  - cbn [Qcsum length]. change (Qc_of_nat 0) with 0. replace (0 * B) with 0 by qring. apply Qcle_refl.
  - cbn [Qcsum length]. rewrite Qc_of_nat_S.
    replace ((Qc_of_nat (length t) + 1) * B) with (B + Qc_of_nat (length t) * B) by qring.
    apply Qcplus_le_compat; [apply H; now left|apply IH; intros; apply H; now right].
Qed.

(* every |x_i| <= norm_1 v, and norm_1 v <= n * (any bound of the |x_i|) *)
Lemma qnorm1_bounds_lemma (v : list Qc) :
  (forall x, In x v -> Qcabs x <= norm_1 (A := AQ) v) /\ (forall m, (forall x, In x v -> Qcabs x <= m) -> norm_1 (A := AQ) v <= Qc_of_nat (length v) * m).
Proof.
  rewrite qnorm1_value_lemma. unfold qsumabs. split.
  - intros x Hx. apply Qcsum_in_le; [|now apply in_map].
    intros y Hy. apply in_map_iff in Hy as (w & <- & _). apply Qcabs_nonneg.
  - intros m Hm. rewrite <- (map_length Qcabs v). apply Qcsum_le_length.
    intros y Hy. apply in_map_iff in Hy as (w & <- & Hw). now apply Hm.
Qed.

(* a non-empty rational vector has an entry of largest absolute value (the value norm_inf would return) *)
Lemma qmax_exists (v : list Qc) : v <> [] -> exists x, In x v /\ forall y, In y v -> Qcabs y <= Qcabs x.
Proof.
  induction v as [|a t IH]; [congruence|]. intros _. destruct t as [|b t'].
  - exists a. split; [now left|]. intros y [<-|[]]. apply Qcle_refl.
  - destruct IH as (x & Hx & Hmax); [discriminate|].
    destruct (Qclt_le_dec (Qcabs x) (Qcabs a)) as [H|H].
    + exists a. split; [now left|]. intros y [<-|Hy]; [apply Qcle_refl|].
      apply Qcle_trans with (Qcabs x); [now apply Hmax|now apply Qclt_le_weak].
    + exists x. split; [now right|]. intros y [<-|Hy]; [exact H|now apply Hmax].
Qed.

(* norm_inf <= norm_1 <= n * norm_inf, with norm_inf = the largest absolute value *)
Lemma qnorm_chain_lemma (v : list Qc) : v <> [] ->
  exists x, In x v /\ (forall y, In y v -> Qcabs y <= Qcabs x) /\ Qcabs x <= norm_1 (A := AQ) v /\ norm_1 (A := AQ) v <= Qc_of_nat (length v) * Qcabs x.
Proof.
  intros H. destruct (qmax_exists v H) as (x & Hx & Hmax). exists x. split; [exact Hx|]. split; [exact Hmax|].
  destruct (qnorm1_bounds_lemma v) as [B1 B2]. split; [now apply B1|now apply B2].
Qed.
