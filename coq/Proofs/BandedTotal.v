(* Proofs/BandedTotal.v -- the compact LU of Model/Banded.v never leaves its buffers: on a well-formed
   banded matrix with m1 <= n the only way band_solve can fail is the division by a zero pivot in the
   back substitution. *)
From Coq Require Import List Arith Lia ZArith Bool Ring_theory Field_theory.
From OV Require Import Base.Panic Base.Arith Model.Vector Model.Matrix Model.Banded Proofs.Banded Proofs.BandedLU.
Import ListNotations.
Local Open Scope nat_scope.

Section Total.
Context {A : Arith}.
Notation T := (T A).
Notation matrix := (matrix A).
Notation banded := (banded A).
Variable FL : FieldLaws A.

(* a work matrix with c columns that holds n rows *)
Definition okM (n c : nat) (m : matrix) : Prop := cols m = c /\ length (buf m) = n * c.

Lemma mget_total n c (m : matrix) i s : okM n c m -> i < n -> s < c -> exists a, mget m i s = Ok a.
Proof.
  intros (Hc & Hl) Hi Hs. unfold mget. rewrite Hc. eexists. apply (rd_ok _ _ zero). rewrite Hl. now apply flat_lt.
Qed.

Lemma mset_total n c (m : matrix) i s v : okM n c m -> i < n -> s < c -> exists m', mset m i s v = Ok m' /\ okM n c m'.
Proof.
  intros (Hc & Hl) Hi Hs. unfold mset. rewrite Hc. rewrite upd_ok by (rewrite Hl; now apply flat_lt).
  cbn [bind]. eexists; split; [reflexivity|]. split; cbn [cols buf]; auto. now rewrite upd_list_length.
Qed.

Lemma swap_elem_total n c (m : matrix) k p j :
  okM n c m -> k < n -> p < n -> j < c -> exists m', swap_elem m k j p j = Ok m' /\ okM n c m'.
Proof.
  intros Hm Hk Hp Hj. unfold swap_elem.
  destruct (mget_total n c m k j) as (a & ->); auto. cbn [bind].
  destruct (mget_total n c m p j) as (b & ->); auto. cbn [bind].
  destruct (mset_total n c m p j a) as (m1 & -> & Hm1); auto. cbn [bind].
  now apply (mset_total n c).
Qed.

Lemma swap_band_rows_total n mm (au : matrix) k p :
  okM n mm au -> k < n -> p < n -> exists au', swap_band_rows mm au k p = Ok au' /\ okM n mm au'.
Proof.
  intros Hau Hk Hp. unfold swap_band_rows.
  apply (for_inv (fun _ a => okM n mm a) 0 mm); auto; try lia.
  intros j a Hj Ha. now apply (swap_elem_total n mm).
Qed.

Lemma multiplier_total n mm (au : matrix) k i :
  okM n mm au -> 1 <= mm -> k < n -> i < n -> exists m, multiplier false au k i = Ok m.
Proof.
  intros Hau Hmm Hk Hi. unfold multiplier.
  destruct (mget_total n mm au k 0) as (akk & Ek); auto; try lia. rewrite Ek. cbn [bind].
  destruct (eqb akk zero) eqn:Ez; [eauto|].
  destruct (mget_total n mm au i 0) as (aik & ->); auto; try lia. cbn [bind].
  rewrite (fl_div A FL), Ez. eauto.
Qed.

Lemma elim_row_total n mm m1 k i (au al : matrix) :
  okM n mm au -> okM n m1 al -> 1 <= mm -> k < i -> i < n -> i - k - 1 < m1 ->
  exists au' al', elim_row false mm k i (au, al) = Ok (au', al') /\ okM n mm au' /\ okM n m1 al'.
Proof.
  intros Hau Hal Hmm Hki Hi Ht. unfold elim_row.
  destruct (multiplier_total n mm au k i) as (m & ->); auto; try lia. cbn [bind].
  destruct (mset_total n m1 al k (i - k - 1) m) as (al' & -> & Hal'); auto; try lia. cbn [bind].
  destruct (for_inv (fun _ a => okM n mm a) 1 mm
              (fun j au0 => let* aij := mget au0 i j in let* akj := mget au0 k j in
                            mset au0 i (j - 1) (sub aij (mul m akj))) au) as (au1 & -> & Hau1); auto.
  { intros j a Hj Ha.
    destruct (mget_total n mm a i j) as (x & ->); auto; try lia. cbn [bind].
    destruct (mget_total n mm a k j) as (y & ->); auto; try lia. cbn [bind].
    apply (mset_total n mm); auto; lia. }
  cbn [bind].
  destruct (mset_total n mm au1 i (mm - 1) zero) as (au2 & -> & Hau2); auto; try lia. cbn [bind].
  eauto.
Qed.

Lemma elim_loop_total n mm m1 k l (au al : matrix) :
  okM n mm au -> okM n m1 al -> 1 <= mm -> l <= n -> l <= k + 1 + m1 ->
  exists au' al', for_ (k + 1) l (elim_row false mm k) (au, al) = Ok (au', al') /\ okM n mm au' /\ okM n m1 al'.
Proof.
  intros Hau Hal Hmm Hln Hl.
  destruct (Nat.le_gt_cases (k + 1) l) as [Hkl|Hkl].
  2:{ rewrite for_empty by lia. eauto. }
  destruct (for_inv (fun _ (st : matrix * matrix) => okM n mm (fst st) /\ okM n m1 (snd st)) (k + 1) l
              (elim_row false mm k) (au, al)) as ([au' al'] & E & Ha & Hb); auto.
  - intros i [a b] Hi (Ha & Hb). cbn [fst snd] in *.
    destruct (elim_row_total n mm m1 k i a b) as (a' & b' & E & Ha' & Hb'); auto; try lia.
    exists (a', b'). auto.
  - eauto.
Qed.

Lemma find_pivot_total n mm (au : matrix) k l :
  okM n mm au -> 1 <= mm -> k < n -> l <= n ->
  exists dum p, find_pivot false au k l = Ok (dum, p) /\ p < n.
Proof.
  intros Hau Hmm Hk Hl. unfold find_pivot.
  destruct (mget_total n mm au k 0) as (d0 & ->); auto; try lia. cbn [bind].
  destruct (Nat.le_gt_cases (k + 1) l) as [Hkl|Hkl].
  2:{ rewrite for_empty by lia. eauto. }
  destruct (for_inv (fun _ (st : T * nat) => snd st < n) (k + 1) l
     (fun j (p : T * nat) => let '(dum, i) := p in let* a := mget au j 0 in
                             if pivot_better false a dum then Ok (a, j) else Ok (dum, i)) (d0, k))
    as ([dum p] & E & Hp); auto.
  - intros j [d i] Hj Hi. cbn [snd] in *.
    destruct (mget_total n mm au j 0) as (a & ->); auto; try lia. cbn [bind].
    destruct (pivot_better false a d); eexists; split; try reflexivity; cbn [snd]; lia.
  - eauto.
Qed.

Lemma shift_rows_total n mm m1 (au : matrix) :
  okM n mm au -> m1 <= n -> m1 < mm -> exists au0, shift_rows m1 mm au = Ok au0 /\ okM n mm au0.
Proof.
  intros Hau Hm1 Hmm. unfold shift_rows.
  match goal with |- context [for_ 0 m1 ?body ?s0] =>
    destruct (for_inv (fun i (st : matrix * nat) => okM n mm (fst st) /\ snd st = m1 - i) 0 m1 body s0)
      as ([a l] & E & Ha & _) end.
  - lia.
  - cbn [fst snd]. split; [auto|lia].
  - intros i [a l] Hi (Ha & Hl). cbn [fst snd] in *. subst l.
    match goal with |- context [for_ (m1 - i) mm ?body ?s0] =>
      destruct (for_inv (fun _ m => okM n mm m) (m1 - i) mm body s0) as (a1 & E1 & Ha1) end; auto; try lia.
    { intros j m Hj Hm. destruct (mget_total n mm m i j) as (x & ->); auto; try lia. cbn [bind].
      apply (mset_total n mm); auto; lia. }
    rewrite E1. cbn [bind].
    match goal with |- context [for_ ?lo mm ?body a1] =>
      destruct (for_inv (fun _ m => okM n mm m) lo mm body a1) as (a2 & E2 & Ha2) end; auto; try lia.
    { intros j m Hj Hm. apply (mset_total n mm); auto; lia. }
    rewrite E2. cbn [bind]. eexists; split; [reflexivity|]. cbn [fst snd]. split; [auto|lia].
  - rewrite E. cbn [bind fst]. eauto.
Qed.

(* the state of the main loop at the start of stage k *)
Definition okS (n mm m1 k : nat) (s : dec_state) : Prop :=
  let '(au, al, index, _, l) := s in
  okM n mm au /\ okM n m1 al /\ length index = n /\ l = Nat.min (k + m1) n /\
  forall i, i < k -> 1 <= nth i index 0 <= n.

Lemma dec_step_total n mm m1 k (s : dec_state) :
  1 <= mm -> m1 <= n -> k < n -> okS n mm m1 k s ->
  exists s', dec_step false n mm k s = Ok s' /\ okS n mm m1 (S k) s'.
Proof.
  intros Hmm Hm1 Hk. destruct s as [[[[au al] index] d] l]. intros (Hau & Hal & Hix & Hl & Hidx).
  unfold dec_step. fold (lnext n l). rewrite Hl, lnext_min by auto.
  set (l' := Nat.min (k + 1 + m1) n).
  destruct (find_pivot_total n mm au k l') as (dum & p & -> & Hp); auto; [unfold l'; lia|]. cbn [bind].
  rewrite upd_ok by lia. cbn [bind].
  assert (H1 : exists au1, (if eqb dum zero then mset au k 0 zero else Ok au) = Ok au1 /\ okM n mm au1).
  { destruct (eqb dum zero); [|eauto]. apply (mset_total n mm); auto; lia. }
  destruct H1 as (au1 & -> & Hau1). cbn [bind].
  assert (H2 : exists au2 d2, (if negb (p =? k) then let* au := swap_band_rows mm au1 k p in Ok (au, neg d)
                               else Ok (au1, d)) = Ok (au2, d2) /\ okM n mm au2).
  { destruct (negb (p =? k)); [|eauto].
    destruct (swap_band_rows_total n mm au1 k p) as (au2 & -> & Hau2); auto. cbn [bind]. eauto. }
  destruct H2 as (au2 & d2 & -> & Hau2). cbn [bind].
  destruct (elim_loop_total n mm m1 k l' au2 al) as (au3 & al3 & -> & Hau3 & Hal3); auto; try (unfold l'; lia).
  cbn [bind]. eexists; split; [reflexivity|].
  unfold okS. split; [auto|]. split; [auto|]. split; [now rewrite upd_list_length|].
  split; [unfold l'; lia|].
  intros i Hi. rewrite nth_upd_list by lia.
  destruct (Nat.eqb_spec i k); [lia|]. apply Hidx. lia.
Qed.

Lemma dec_loop_total n mm m1 (s0 : dec_state) :
  1 <= mm -> m1 <= n -> okS n mm m1 0 s0 ->
  exists sN, for_ 0 n (dec_step false n mm) s0 = Ok sN /\ okS n mm m1 n sN.
Proof.
  intros Hmm Hm1 H0.
  apply (for_inv (fun k s => okS n mm m1 k s) 0 n); auto; [lia|].
  intros k s Hk Hs. apply dec_step_total; auto; lia.
Qed.

(* ---- forward substitution never leaves its buffers ---- *)
Lemma fwd_step_total n m1 k (al : matrix) (index : list nat) (y : list T) l :
  okM n m1 al -> length index = n -> (forall i, i < n -> 1 <= nth i index 0 <= n) ->
  m1 <= n -> k < n -> length y = n -> l = Nat.min (k + m1) n ->
  exists y', fwd_step n al index k (y, l) = Ok (y', Nat.min (k + 1 + m1) n) /\ length y' = n.
Proof.
  intros Hal Hix Hidx Hm1 Hk Hy Hl. unfold fwd_step. fold (lnext n l). rewrite Hl, lnext_min by auto.
  rewrite (rd_ok index k 0) by lia. cbn [bind].
  specialize (Hidx k Hk). unfold usub. replace (1 <=? nth k index 0) with true by (symmetry; apply Nat.leb_le; lia).
  cbn [bind]. set (j := nth k index 0 - 1).
  assert (Hz : exists z, (if negb (j =? k) then vswap y k j else Ok y) = Ok z /\ length z = n).
  { destruct (negb (j =? k)); [|eauto]. unfold vswap.
    rewrite (rd_ok y k zero) by lia. cbn [bind]. rewrite (rd_ok y j zero) by (unfold j; lia). cbn [bind].
    rewrite upd_ok by lia. cbn [bind]. rewrite upd_ok by (rewrite upd_list_length; unfold j; lia).
    eexists; split; [reflexivity|]. now rewrite !upd_list_length. }
  destruct Hz as (z & -> & Hz). cbn [bind].
  set (l' := Nat.min (k + 1 + m1) n).
  assert (Hloop : exists y', for_ (k + 1) l' (fun j x => let* xk := rd x k in let* a := mget al k (j - k - 1) in
                               let* xj := rd x j in upd x j (sub xj (mul a xk))) z = Ok y' /\ length y' = n).
  { destruct (Nat.le_gt_cases (k + 1) l') as [Hkl|Hkl].
    2:{ rewrite for_empty by lia. eauto. }
    apply (for_inv (fun _ (x : list T) => length x = n) (k + 1) l'); auto.
    intros i x Hi Hx. rewrite (rd_ok x k zero) by lia. cbn [bind].
    destruct (mget_total n m1 al k (i - k - 1)) as (a & ->); auto; try (unfold l' in Hi; lia). cbn [bind].
    rewrite (rd_ok x i zero) by (unfold l' in Hi; lia). cbn [bind].
    rewrite upd_ok by (unfold l' in Hi; lia). eexists; split; [reflexivity|]. now rewrite upd_list_length. }
  destruct Hloop as (y' & -> & Hy'). cbn [bind]. eauto.
Qed.

Lemma fwd_loop_total n m1 (al : matrix) (index : list nat) (b : list T) :
  okM n m1 al -> length index = n -> (forall i, i < n -> 1 <= nth i index 0 <= n) ->
  m1 <= n -> length b = n ->
  exists y l, for_ 0 n (fwd_step n al index) (b, m1) = Ok (y, l) /\ length y = n.
Proof.
  intros Hal Hix Hidx Hm1 Hb.
  destruct (for_inv (fun k (s : list T * nat) => length (fst s) = n /\ snd s = Nat.min (k + m1) n) 0 n
              (fwd_step n al index) (b, m1)) as ([y l] & E & Hy & _); [lia|cbn [fst snd]; split; [auto|lia]| |].
  - intros k [y l] Hk (Hy & Hl). cbn [fst snd] in *.
    destruct (fwd_step_total n m1 k al index y l) as (y' & -> & Hy'); auto; try lia.
    eexists; split; [reflexivity|]. cbn [fst snd]. split; [auto|lia].
  - eauto.
Qed.

(* ---- back substitution: a solution, or the division by a zero pivot ---- *)
Lemma for_rev_from_or {S} (I : nat -> S -> Prop) (Q : Prop) n lo (body : nat -> S -> res S) (s : S) :
  I n s ->
  (forall k s, k < n -> I (Datatypes.S k) s ->
     (exists s', body (lo + k) s = Ok s' /\ I k s') \/ (body (lo + k) s = Panic DivZero /\ Q)) ->
  (exists s', for_rev_from n lo body s = Ok s' /\ I 0 s') \/ (for_rev_from n lo body s = Panic DivZero /\ Q).
Proof.
  revert s; induction n as [|n IH]; intros s H0 Hstep; cbn.
  - left; eauto.
  - destruct (Hstep n s) as [(s1 & E1 & H1)|(E1 & HQ)]; [lia|auto| |].
    + rewrite E1; cbn [bind]. apply IH; auto.
    + rewrite E1; cbn [bind]. now right.
Qed.

Lemma back_loop_total n mm (au : matrix) (y : list T) :
  okM n mm au -> 1 <= mm -> length y = n ->
  (exists x l, for_rev 0 n (back_step mm au) (y, 1) = Ok (x, l)) \/
  (for_rev 0 n (back_step mm au) (y, 1) = Panic DivZero /\ exists i, i < n /\ mat_at au mm i 0 = zero).
Proof.
  intros Hau Hmm Hy. unfold for_rev. rewrite Nat.sub_0_r.
  destruct (for_rev_from_or (fun t (s : list T * nat) => length (fst s) = n /\ snd s = Nat.min (n - t + 1) mm)
              (exists i, i < n /\ mat_at au mm i 0 = zero)
              n 0 (back_step mm au) (y, 1)) as [((x & l) & E & _)|E]; auto.
  - cbn [fst snd]. split; auto. lia.
  - intros k [x l] Hk (Hx & Hl). cbn [fst snd Nat.add] in *. unfold back_step.
    rewrite (rd_ok x k zero) by lia. cbn [bind].
    match goal with |- context [for_ 1 l ?body ?d0] =>
      destruct (for_inv (fun _ (_ : T) => True) 1 l body d0) as (dum & -> & _) end; auto; try lia.
    { intros kk d Hkk _. destruct (mget_total n mm au k kk) as (a & ->); auto; try lia. cbn [bind].
      rewrite (rd_ok x (kk + k) zero) by lia. cbn [bind]. eauto. }
    cbn [bind]. destruct (mget_total n mm au k 0) as (d0 & Ed0); auto; try lia. rewrite Ed0. cbn [bind].
    apply (mget_Ok_inv _ mm) in Ed0 as (-> & _); [|apply Hau].
    rewrite (fl_div A FL). destruct (eqb (mat_at au mm k 0) zero) eqn:Ez.
    + right. split; auto. exists k. split; auto. now apply (fl_eqb A FL).
    + cbn [bind]. rewrite upd_ok by lia. cbn [bind]. left. eexists; split; [reflexivity|]. cbn [fst snd].
      rewrite upd_list_length. split; auto. destruct (Nat.ltb_spec l mm); lia.
  - left; eauto.
Qed.

(* ---- band_solve answers, or refuses at a zero pivot of its own factorisation: it never leaves its buffers ---- *)
Lemma band_solve_total_lemma (B : banded) (b : list T) :
  wfB B -> length b = bn B -> bm1 B <= bn B ->
  (exists x, band_solve B b = Ok x) \/
  (band_solve B b = Panic DivZero /\
   exists auN alN indexN dN,
     decompose_gen false B (compact B) (mat_new (bn B) (bm1 B) zero) (repeat 0 (bn B)) = Ok (auN, alN, indexN, dN) /\
     exists i, i < bn B /\ mat_at auN (bm1 B + bm2 B + 1) i 0 = zero).
Proof.
  intros (HwfM & Hrows & Hcols) Hb Hm1. unfold band_solve, band_solve_gen.
  rewrite <- Hb, Nat.eqb_refl. cbn [negb]. rewrite Hb.
  set (n := bn B) in *. set (m1 := bm1 B) in *. set (mm := m1 + bm2 B + 1) in *.
  assert (Hmm : 1 <= mm) by (unfold mm; lia).
  assert (Hau : okM n mm (compact B)).
  { split; auto. unfold wfM in HwfM. now rewrite HwfM, Hrows, Hcols. }
  unfold decompose_gen. fold m1 mm n.
  destruct (shift_rows_total n mm m1 (compact B)) as (au0 & -> & Hau0); auto; [unfold mm; lia|]. cbn [bind].
  destruct (dec_loop_total n mm m1 (au0, mat_new n m1 zero, repeat 0 n, one, m1)) as (sN & -> & HN); auto.
  { unfold okS. split; [auto|]. split; [split; cbn; [auto|now rewrite repeat_length]|].
    split; [now rewrite repeat_length|]. split; [lia|]. intros i Hi; lia. }
  cbn [bind]. destruct sN as [[[[auN alN] indexN] dN] lN]. destruct HN as (HauN & HalN & HixN & _ & HidxN).
  cbn [bind].
  destruct (fwd_loop_total n m1 alN indexN b) as (y & l & -> & Hy); auto. cbn [bind fst].
  destruct (back_loop_total n mm auN y) as [(x & lx & E)|(E & Hz)]; auto; rewrite E; cbn [bind fst].
  - left; eauto.
  - right. split; auto. exists auN, alN, indexN, dN. split; auto.
Qed.

End Total.
