(* Proofs/SolveComplete.v -- completeness of solve_basic (Model/Solve.v): with the magnitude laws
   PivLaws and a left inverse of the matrix, every pivot is non-zero and solve_basic returns Ok.
   Package c01. *)
From Coq Require Import List Arith Lia Bool Ring Field.
From OV Require Import Base.Panic Base.Arith Model.Vector Model.Matrix Model.Solve
  Proofs.Matrix Proofs.SolveBase Proofs.SolveBack Proofs.SolveGauss Proofs.Solve.
Import ListNotations.
Local Open Scope arith_scope.

Section Complete.
Context {A : Arith}.
Variable FL : FieldLaws A.
Variable PL : PivLaws A.
Notation inv := (fl_inv A FL).
Add Field AFieldC : (A_field FL).

(* an upper-triangular k x k system with non-zero diagonal has a solution (back substitution) *)
Lemma tri_solve k (E : nat -> nat -> A) (c : nat -> A) :
  (forall i j, (j < i)%nat -> (i < k)%nat -> E i j = zero) ->
  (forall j, (j < k)%nat -> E j j <> zero) ->
  exists z : nat -> A, forall i, (i < k)%nat -> sum_n k (fun j => E i j * z j) = c i.
Proof.
  revert c. induction k as [|k IH]; intros c U D.
  - exists (fun _ => zero). intros i Hi. lia.
  - set (zk := c k * inv (E k k)).
    destruct (IH (fun i => c i - E i k * zk)) as (z' & Hz').
    { intros i j Hj Hi. apply U; lia. }
    { intros j Hj. apply D; lia. }
    exists (fun j => if (j =? k)%nat then zk else z' j).
    intros i Hi. cbn [sum_n]. rewrite Nat.eqb_refl.
    assert (E1 : sum_n k (fun j => E i j * (if (j =? k)%nat then zk else z' j)) = sum_n k (fun j => E i j * z' j)).
    { apply sum_n_ext. intros j Hj. destruct (Nat.eqb_spec j k); [lia|reflexivity]. }
    rewrite E1. destruct (Nat.eq_dec i k) as [->|Hik].
    + rewrite (sum_n_zero FL) by (intros j Hj; rewrite U by lia; ring).
      unfold zk. field. apply D; lia.
    + rewrite Hz' by lia. ring.
Qed.

Definition injf (n : nat) (E : nat -> nat -> A) : Prop :=
  forall y, solf n E (fun _ => zero) y -> forall i, (i < n)%nat -> y i = zero.

(* if the first k columns are in echelon form with non-zero diagonal and column k vanishes from row k
   down, the homogeneous system has a solution with y k = -1 *)
Lemma zero_subcolumn_kernel n k (E : nat -> nat -> A) :
  (k < n)%nat ->
  (forall i j, (j < k)%nat -> (j < i)%nat -> (i < n)%nat -> E i j = zero) ->
  (forall j, (j < k)%nat -> E j j <> zero) ->
  (forall i, (k <= i)%nat -> (i < n)%nat -> E i k = zero) ->
  ~ injf n E.
Proof.
  intros Hk LZ D Z Inj.
  destruct (tri_solve k E (fun i => E i k)) as (z & Hz).
  { intros i j Hj Hi. apply LZ; lia. }
  { exact D. }
  set (y := fun j => if (j <? k)%nat then z j else if (j =? k)%nat then neg one else zero).
  assert (S : solf n E (fun _ => zero) y).
  { intros i Hi. unfold mvprod.
    replace n with (k + (1 + (n - k - 1)))%nat at 1 by lia.
    rewrite (sum_n_split FL), (sum_n_split FL 1). cbn [sum_n]. rewrite Nat.add_0_r.
    assert (P1 : sum_n k (fun j => E i j * y j) = sum_n k (fun j => E i j * z j)).
    { apply sum_n_ext. intros j Hj. unfold y. destruct (Nat.ltb_spec j k); [reflexivity|lia]. }
    assert (P2 : y k = neg one).
    { unfold y. destruct (Nat.ltb_spec k k); [lia|]. now rewrite Nat.eqb_refl. }
    assert (P3 : sum_n (n - k - 1) (fun t => E i (k + (1 + t))%nat * y (k + (1 + t))%nat) = zero).
    { apply (sum_n_zero FL). intros t Ht. unfold y.
      destruct (Nat.ltb_spec (k + (1 + t)) k); [lia|].
      destruct (Nat.eqb_spec (k + (1 + t)) k); [lia|]. ring. }
    rewrite P1, P2, P3.
    destruct (Nat.lt_ge_cases i k) as [Hlt|Hge].
    - rewrite (Hz i Hlt). ring.
    - rewrite (sum_n_zero FL) by (intros j Hj; rewrite LZ by lia; ring).
      rewrite (Z i) by lia. ring. }
  specialize (Inj y S k Hk). unfold y in Inj.
  destruct (Nat.ltb_spec k k); [lia|]. rewrite Nat.eqb_refl in Inj.
  apply (F_1_neq_0 (A_field FL)).
  transitivity (@neg A (neg one)); [ring|]. rewrite Inj. ring.
Qed.

Lemma left_inverse_injf n (N E : nat -> nat -> A) : left_inverse n N E -> injf n E.
Proof.
  intros LI y S i Hi. rewrite (left_inverse_apply FL n N E (fun _ => zero) y LI S i Hi).
  apply (sum_n_zero FL). intros k Hk. ring.
Qed.

(* ---------- the invariant of the outer loop (completeness) ---------- *)
Section Inv.
Variable n : nat.

Definition cinv (k : nat) (s : matrix A * list A) : Prop :=
  let '(m, x) := s in
  wf m /\ rows m = n /\ cols m = n /\ length x = n /\ lowz n k m /\
  (forall j, (j < k)%nat -> ent m j j <> zero) /\ injf n (ent m).

Lemma cinv_step k s : (k + 1 < n)%nat -> cinv k s -> exists s', gauss_body k s = Ok s' /\ cinv (S k) s'.
Proof.
  intros Hk. destruct s as [m x]. intros (W & Hr & Hc & Lx & LZ & D & Inj).
  destruct (pivot_step m x n k W Hr Hc Lx) as (p & m1 & x1 & Ep & _ & W1 & R1 & C1 & L1 & S1 & X1 & B); [lia|].
  destruct (max_abs_finds FL PL m k k W) as (p' & Ep' & Fp); try lia.
  assert (p' = p) as -> by congruence. rewrite Hr in Fp.
  destruct Fp as [Zc|(Rp & Nz)].
  { exfalso. apply (zero_subcolumn_kernel n k (ent m)); auto; try lia.
    all: intros i Hi1 Hi2; apply Zc; lia. }
  assert (Pk : ent m1 k k = ent m p k).
  { rewrite S1 by lia. unfold swp. destruct (Nat.eqb_spec k p) as [->|]; auto. now rewrite Nat.eqb_refl. }
  assert (Ez : ent m1 k k <> zero) by (now rewrite Pk).
  destruct (elim_rows_ok FL m1 x1 n k W1 R1 C1 L1) as (m2 & x2 & E2 & W2 & R2 & C2 & L2 & S2 & X2); [lia|auto|].
  exists (m2, x2). split; [now rewrite B|].
  assert (Zk : forall i, (k < i)%nat -> (i < n)%nat -> ent m2 i k = zero).
  { intros i Hi1 Hi2. rewrite S2 by lia. unfold elim_ent.
    destruct (Nat.ltb_spec k i); [|lia]. destruct (Nat.leb_spec k k); [|lia]. cbn [andb].
    field. exact Ez. }
  assert (Old : forall i j, (i < n)%nat -> (j < k)%nat -> ent m2 i j = ent m (swp p k i) j).
  { intros i j Hi Hj. rewrite S2 by lia. unfold elim_ent.
    destruct (Nat.leb_spec k j); [lia|]. rewrite andb_false_r. apply S1; lia. }
  assert (Rowk : forall j, (j < k)%nat -> ent m1 k j = zero).
  { intros j Hj. rewrite S1 by lia. unfold swp. destruct (Nat.eqb_spec k p); [apply LZ; lia|].
    rewrite Nat.eqb_refl. apply LZ; lia. }
  cbn [cinv]. repeat split; auto.
  - intros i j Hj Hji Hi. destruct (Nat.eq_dec j k) as [->|Hjk]; [apply Zk; lia|].
    rewrite Old by lia. unfold swp.
    destruct (Nat.eqb_spec i p); [apply LZ; lia|].
    destruct (Nat.eqb_spec i k); [apply LZ; lia|]. apply LZ; lia.
  - intros j Hj. rewrite S2 by lia. unfold elim_ent.
    destruct (Nat.ltb_spec k j); [lia|]. cbn [andb].
    destruct (Nat.eq_dec j k) as [->|Hjk]; auto.
    rewrite S1 by lia. unfold swp.
    destruct (Nat.eqb_spec j p); [lia|]. destruct (Nat.eqb_spec j k); [lia|]. apply D; lia.
  - intros y Sy. apply Inj.
    apply (swap_sol n (ent m) (ent m1) (fun _ => zero) (fun _ => zero) y p k); auto; try lia.
    apply (elim_sol FL n (ent m1) (ent m2) (fun _ => zero) (fun _ => zero) y
             (fun i => ent m1 i k * inv (ent m1 k k)) k); auto; try lia.
    + intros i j Hi Hj. rewrite S2 by auto. unfold elim_ent.
      destruct (Nat.ltb_spec k i); cbn [andb]; auto.
      destruct (Nat.leb_spec k j); auto. rewrite (Rowk j) by lia. ring.
    + intros i Hi. destruct (k <? i)%nat; ring.
Qed.

End Inv.

Lemma solve_basic_complete_lemma (M : matrix A) (b : list A) :
  wf M -> rows M = cols M -> length b = rows M -> (1 <= rows M)%nat ->
  (exists N : nat -> nat -> A, left_inverse (rows M) N (ent M)) ->
  exists x, solve_basic M b = Ok x.
Proof.
  intros W Hsq Lb Hn (N & LI). rewrite solve_guards by auto. rewrite gauss_unfold.
  unfold usub. destruct (Nat.leb_spec 1 (rows M)); [|lia]. cbn [bind].
  set (n := rows M) in *.
  destruct (for_inv (fun k s => cinv n k s) 0 (n - 1) gauss_body (M, b)) as ([m' x'] & E & I).
  - lia.
  - cbn [cinv]. repeat split; auto.
    + intros i j Hj. lia.
    + intros j Hj. lia.
    + apply (left_inverse_injf n N). exact LI.
  - intros k s Hk I. apply cinv_step; auto. lia.
  - rewrite E. cbn [bind fst snd].
    destruct I as (W' & R' & C' & L' & LZ & D & Inj).
    apply (backsolve_total FL m' n W' R' C' x'); auto.
    intros i Hi. destruct (Nat.eq_dec i (n - 1)) as [->|Hne]; [|apply D; lia].
    intros Z. apply (zero_subcolumn_kernel n (n - 1) (ent m')); auto; try lia.
    intros i' H1 H2. assert (i' = (n - 1)%nat) as -> by lia. exact Z.
Qed.

End Complete.
