(* Proofs/SrcEqBase.v -- extensionality lemmas for the res monad and the loop combinators, the list-loop
   characterisations (push loops = map, update loops = map, accumulator loops = fold_left) and the tactics used
   by Proofs/SrcEq*.v to prove  s_<f> = <hand-written model of f>  where the two are not convertible. *)
From Coq Require Import List Arith ZArith Lia Bool.
From OV Require Import Base.Panic Base.Arith gen.SrcPrelude.
Import ListNotations.

(* ------------------------------------------------------------------ monad / loop extensionality *)
Lemma bind_ext {X Y} (e : res X) (f g : X -> res Y) :
  (forall x, f x = g x) -> bind e f = bind e g.
Proof. intros H; destruct e; cbn; auto. Qed.

Lemma bind_ext_ok {X Y} (e : res X) (f g : X -> res Y) :
  (forall x, e = Ok x -> f x = g x) -> bind e f = bind e g.
Proof. intros H; destruct e; cbn; auto. Qed.

Lemma bind_ext2 {X Y} (e1 e2 : res X) (f g : X -> res Y) :
  e1 = e2 -> (forall x, e2 = Ok x -> f x = g x) -> bind e1 f = bind e2 g.
Proof. intros -> H; now apply bind_ext_ok. Qed.

Lemma bind_ret {X} (e : res X) : bind e Ok = e.
Proof. destruct e; reflexivity. Qed.

Lemma bind_ret' {X} (e : res X) (f : X -> res X) : (forall x, f x = Ok x) -> bind e f = e.
Proof. intros H; destruct e; cbn; auto. Qed.

Lemma for_from_ext {S} n lo (b1 b2 : nat -> S -> res S) s :
  (forall i s, lo <= i < lo + n -> b1 i s = b2 i s) -> for_from n lo b1 s = for_from n lo b2 s.
Proof.
  revert lo s; induction n as [|n IH]; intros lo s H; cbn; auto.
  rewrite H by lia. apply bind_ext; intros s'. apply IH. intros; apply H; lia.
Qed.

Lemma for_ext {S} lo hi (b1 b2 : nat -> S -> res S) s :
  (forall i s, lo <= i < hi -> b1 i s = b2 i s) -> for_ lo hi b1 s = for_ lo hi b2 s.
Proof. intros H; apply for_from_ext; intros; apply H; lia. Qed.

Lemma for_rev_from_ext {S} n lo (b1 b2 : nat -> S -> res S) s :
  (forall i s, lo <= i < lo + n -> b1 i s = b2 i s) -> for_rev_from n lo b1 s = for_rev_from n lo b2 s.
Proof.
  revert s; induction n as [|n IH]; intros s H; cbn; auto.
  rewrite H by lia. apply bind_ext; intros s'. apply IH. intros; apply H; lia.
Qed.

Lemma for_rev_ext {S} lo hi (b1 b2 : nat -> S -> res S) s :
  (forall i s, lo <= i < hi -> b1 i s = b2 i s) -> for_rev lo hi b1 s = for_rev lo hi b2 s.
Proof. intros H; apply for_rev_from_ext; intros; apply H; lia. Qed.

(* extensionality under an invariant of the state (e.g. "the shape of the matrix is unchanged") *)
Lemma for_from_ext_inv {S} (I : S -> Prop) n lo (b1 b2 : nat -> S -> res S) s :
  I s ->
  (forall i s, lo <= i < lo + n -> I s -> b1 i s = b2 i s) ->
  (forall i s s', lo <= i < lo + n -> I s -> b2 i s = Ok s' -> I s') ->
  for_from n lo b1 s = for_from n lo b2 s.
Proof.
  revert lo s; induction n as [|n IH]; intros lo s Hs H HI; cbn; auto.
  rewrite (H lo s) by first [lia | assumption]. apply bind_ext_ok; intros s' E. apply IH.
  - eapply HI; eauto; lia.
  - intros; apply H; auto; lia.
  - intros; eapply HI; eauto; lia.
Qed.

Lemma for_ext_inv {S} (I : S -> Prop) lo hi (b1 b2 : nat -> S -> res S) s :
  I s ->
  (forall i s, lo <= i < hi -> I s -> b1 i s = b2 i s) ->
  (forall i s s', lo <= i < hi -> I s -> b2 i s = Ok s' -> I s') ->
  for_ lo hi b1 s = for_ lo hi b2 s.
Proof.
  intros Hs H HI. apply (for_from_ext_inv I); auto.
  - intros; apply H; auto; lia.
  - intros; eapply HI; eauto; lia.
Qed.

(* the invariant is established by the loop as well *)
Lemma for_from_inv_keep {S} (I : S -> Prop) n lo (b : nat -> S -> res S) s s' :
  I s -> (forall i s s', lo <= i < lo + n -> I s -> b i s = Ok s' -> I s') ->
  for_from n lo b s = Ok s' -> I s'.
Proof.
  intros Hs HI E. apply (for_from_inv_partial (fun _ => I) n lo b s s'); auto.
Qed.
Lemma for_inv_keep {S} (I : S -> Prop) lo hi (b : nat -> S -> res S) s s' :
  I s -> (forall i s s', lo <= i < hi -> I s -> b i s = Ok s' -> I s') ->
  for_ lo hi b s = Ok s' -> I s'.
Proof. intros Hs HI E. eapply for_from_inv_keep; eauto. intros; eapply HI; eauto; lia. Qed.

(* ------------------------------------------------------------------ usize subtraction *)
Lemma usub_Ok a b c : usub a b = Ok c -> b <= a /\ c = a - b.
Proof. unfold usub; destruct (Nat.leb_spec b a); [|discriminate]. intros E; injection E as <-; auto. Qed.
Lemma usub_ok a b : b <= a -> usub a b = Ok (a - b).
Proof. intros H; unfold usub. now apply Nat.leb_le in H as ->. Qed.

Lemma even_mod2 n : (n mod 2 =? 0) = Nat.even n.
Proof.
  destruct (Nat.even n) eqn:E.
  - apply Nat.even_spec in E. destruct E as [k ->]. apply Nat.eqb_eq.
    rewrite Nat.mul_comm. apply Nat.mod_mul; lia.
  - apply Nat.eqb_neq. intros H. apply Nat.mod_divides in H; [|lia].
    destruct H as [k ->]. rewrite Nat.even_mul in E. cbn in E. discriminate.
Qed.

(* ------------------------------------------------------------------ tactics *)
(* use what is known about already executed steps: a step that returned Ok x is replaced by its value *)
Ltac src_rew :=
  match goal with
  | H : usub ?a ?b = Ok ?c |- _ => apply usub_Ok in H; let H1 := fresh in destruct H as [H1 ->]
  | H : ?b <= ?a |- context [usub ?a ?b] => rewrite (usub_ok a b H); cbn [bind]
  | H : ?e = Ok ?x |- context [bind ?e _] => rewrite H; cbn [bind]
  end.

(* one structural step of an equality between two monadic terms of the same shape *)
Ltac src_step :=
  match goal with
  | |- _ = _ => reflexivity
  | |- bind ?e _ = bind ?e _ => apply bind_ext_ok; intros ? ?
  | |- bind _ _ = bind _ _ => apply bind_ext2; [| intros ? ?]
  | |- for_ ?lo ?hi _ ?s = for_ ?lo ?hi _ ?s => apply for_ext; intros ? ? ?
  | |- for_rev ?lo ?hi _ ?s = for_rev ?lo ?hi _ ?s => apply for_rev_ext; intros ? ? ?
  | |- (if ?c then _ else _) = (if ?c then _ else _) => destruct c eqn:?
  | |- context [match ?p with pair _ _ => _ end] => is_var p; destruct p
  | |- context [fst ?p] => is_var p; destruct p; cbn [fst snd]
  | |- context [snd ?p] => is_var p; destruct p; cbn [fst snd]
  | |- Ok _ = Ok _ => f_equal
  end.
Ltac src_eq := repeat first [ progress src_rew | src_step ].
