(* Proofs/SrcEqBase.v -- extensionality lemmas for the res monad and the loop combinators, the list-loop
   characterisations (push loops = map, update loops = map, accumulator loops = fold_left) and the tactics used
   by Proofs/SrcEq*.v to prove  s_<f> = <hand-written model of f>  where the two are not convertible. *)
From Coq Require Import List Arith ZArith Lia Bool.
From OV Require Import Base.Panic Base.Arith Model.Vector gen.SrcPrelude.
Import ListNotations.

(* ------------------------------------------------------------------ monad / loop extensionality *)
Lemma bind_ext {X Y} (e : res X) (f g : X -> res Y) :
  (forall x, f x = g x) -> bind e f = bind e g.
Proof. intros H; destruct e; cbn; auto. Qed.

Lemma bind_ext_ok {X Y} (e : res X) (f g : X -> res Y) :
  (forall x, e = Ok x -> f x = g x) -> bind e f = bind e g.
Proof. intros H; destruct e; cbn; auto. Qed.

Lemma bind_ext2 {X Y} (e1 e2 : res X) (f g : X -> res Y) :
  e1 = e2 -> (forall x, e2 = Ok x -> f x = g x) -> bind e1 f = bind e2 g.
Proof. intros -> H; now apply bind_ext_ok. Qed.

Lemma bind_ret {X} (e : res X) : bind e Ok = e.
Proof. destruct e; reflexivity. Qed.

Lemma bind_ret' {X} (e : res X) (f : X -> res X) : (forall x, f x = Ok x) -> bind e f = e.
Proof. intros H; destruct e; cbn; auto. Qed.

Lemma for_from_ext {S} n lo (b1 b2 : nat -> S -> res S) s :
  (forall i s, lo <= i < lo + n -> b1 i s = b2 i s) -> for_from n lo b1 s = for_from n lo b2 s.
Proof.
  revert lo s; induction n as [|n IH]; intros lo s H; cbn; auto.
  rewrite H by lia. apply bind_ext; intros s'. apply IH. intros; apply H; lia.
Qed.

Lemma for_ext {S} lo hi (b1 b2 : nat -> S -> res S) s :
  (forall i s, lo <= i < hi -> b1 i s = b2 i s) -> for_ lo hi b1 s = for_ lo hi b2 s.
Proof. intros H; apply for_from_ext; intros; apply H; lia. Qed.

Lemma for_rev_from_ext {S} n lo (b1 b2 : nat -> S -> res S) s :
  (forall i s, lo <= i < lo + n -> b1 i s = b2 i s) -> for_rev_from n lo b1 s = for_rev_from n lo b2 s.
Proof.
  revert s; induction n as [|n IH]; intros s H; cbn; auto.
  rewrite H by lia. apply bind_ext; intros s'. apply IH. intros; apply H; lia.
Qed.

Lemma for_rev_ext {S} lo hi (b1 b2 : nat -> S -> res S) s :
  (forall i s, lo <= i < hi -> b1 i s = b2 i s) -> for_rev lo hi b1 s = for_rev lo hi b2 s.
Proof. intros H; apply for_rev_from_ext; intros; apply H; lia. Qed.

(* extensionality under an invariant of the state (e.g. "the shape of the matrix is unchanged") *)
Lemma for_from_ext_inv {S} (I : S -> Prop) n lo (b1 b2 : nat -> S -> res S) s :
  I s ->
  (forall i s, lo <= i < lo + n -> I s -> b1 i s = b2 i s) ->
  (forall i s s', lo <= i < lo + n -> I s -> b2 i s = Ok s' -> I s') ->
  for_from n lo b1 s = for_from n lo b2 s.
Proof.
  revert lo s; induction n as [|n IH]; intros lo s Hs H HI; cbn; auto.
  rewrite (H lo s) by first [lia | assumption]. apply bind_ext_ok; intros s' E. apply IH.
  - eapply HI; eauto; lia.
  - intros; apply H; auto; lia.
  - intros; eapply HI; eauto; lia.
Qed.

Lemma for_ext_inv {S} (I : S -> Prop) lo hi (b1 b2 : nat -> S -> res S) s :
  I s ->
  (forall i s, lo <= i < hi -> I s -> b1 i s = b2 i s) ->
  (forall i s s', lo <= i < hi -> I s -> b2 i s = Ok s' -> I s') ->
  for_ lo hi b1 s = for_ lo hi b2 s.
Proof.
  intros Hs H HI. apply (for_from_ext_inv I); auto.
  - intros; apply H; auto; lia.
  - intros; eapply HI; eauto; lia.
Qed.

(* the same with an invariant that depends on the loop index (e.g. "l = m1 - i") *)
Lemma for_from_ext_inv_idx {S} (I : nat -> S -> Prop) n lo (b1 b2 : nat -> S -> res S) s :
  I lo s ->
  (forall i s, lo <= i < lo + n -> I i s -> b1 i s = b2 i s) ->
  (forall i s s', lo <= i < lo + n -> I i s -> b2 i s = Ok s' -> I (Datatypes.S i) s') ->
  for_from n lo b1 s = for_from n lo b2 s.
Proof.
  revert lo s; induction n as [|n IH]; intros lo s Hs H HI; cbn; auto.
  rewrite (H lo s) by first [lia | assumption]. apply bind_ext_ok; intros s' E. apply IH.
  - eapply HI; eauto; lia.
  - intros; apply H; auto; lia.
  - intros; eapply HI; eauto; lia.
Qed.
Lemma for_ext_inv_idx {S} (I : nat -> S -> Prop) lo hi (b1 b2 : nat -> S -> res S) s :
  I lo s ->
  (forall i s, lo <= i < hi -> I i s -> b1 i s = b2 i s) ->
  (forall i s s', lo <= i < hi -> I i s -> b2 i s = Ok s' -> I (Datatypes.S i) s') ->
  for_ lo hi b1 s = for_ lo hi b2 s.
Proof.
  intros Hs H HI. apply (for_from_ext_inv_idx I); auto.
  - intros; apply H; auto; lia.
  - intros; eapply HI; eauto; lia.
Qed.

(* a loop that threads an extra component nothing reads afterwards (a local re-assigned in every iteration) *)
Lemma for_from_drop {S D} n lo (b1 : nat -> S * D -> res (S * D)) (b2 : nat -> S -> res S) s d :
  (forall i s d, lo <= i < lo + n -> (let* r := b1 i (s, d) in Ok (fst r)) = b2 i s) ->
  (let* r := for_from n lo b1 (s, d) in Ok (fst r)) = for_from n lo b2 s.
Proof.
  revert lo s d; induction n as [|n IH]; intros lo s d H; cbn [for_from]; [reflexivity|].
  rewrite <- (H lo s d) by lia. destruct (b1 lo (s, d)) as [[s' d']|k]; cbn [bind fst]; [|reflexivity].
  apply IH. intros; apply H; lia.
Qed.
Lemma for_drop_bind {S D Y} lo hi (b1 : nat -> S * D -> res (S * D)) (b2 : nat -> S -> res S) s d (K : S -> res Y) :
  (forall i s d, lo <= i < hi -> (let* r := b1 i (s, d) in Ok (fst r)) = b2 i s) ->
  (let* r := for_ lo hi b1 (s, d) in K (fst r)) = (let* s' := for_ lo hi b2 s in K s').
Proof.
  intros H. unfold for_. rewrite <- (for_from_drop (hi - lo) lo b1 b2 s d) by (intros; apply H; lia).
  destruct (for_from (hi - lo) lo b1 (s, d)); reflexivity.
Qed.

(* the invariant is established by the loop as well *)
Lemma for_from_inv_keep {S} (I : S -> Prop) n lo (b : nat -> S -> res S) s s' :
  I s -> (forall i s s', lo <= i < lo + n -> I s -> b i s = Ok s' -> I s') ->
  for_from n lo b s = Ok s' -> I s'.
Proof.
  intros Hs HI E. apply (for_from_inv_partial (fun _ => I) n lo b s s'); auto.
Qed.
Lemma for_inv_keep {S} (I : S -> Prop) lo hi (b : nat -> S -> res S) s s' :
  I s -> (forall i s s', lo <= i < hi -> I s -> b i s = Ok s' -> I s') ->
  for_ lo hi b s = Ok s' -> I s'.
Proof. intros Hs HI E. eapply for_from_inv_keep; eauto. intros; eapply HI; eauto; lia. Qed.

(* ------------------------------------------------------------------ usize subtraction *)
Lemma usub_Ok a b c : usub a b = Ok c -> b <= a /\ c = a - b.
Proof. unfold usub; destruct (Nat.leb_spec b a); [|discriminate]. intros E; injection E as <-; auto. Qed.
Lemma usub_ok a b : b <= a -> usub a b = Ok (a - b).
Proof. intros H; unfold usub. now apply Nat.leb_le in H as ->. Qed.

Lemma isize_as_usize_nonneg z : (0 <= z)%Z -> isize_as_usize z = Z.to_nat z.
Proof. intros H. unfold isize_as_usize. destruct (Z.ltb_spec z 0); [lia|reflexivity]. Qed.

Lemma even_mod2 n : (n mod 2 =? 0) = Nat.even n.
Proof.
  destruct (Nat.even n) eqn:E.
  - apply Nat.even_spec in E. destruct E as [k ->]. apply Nat.eqb_eq.
    rewrite Nat.mul_comm. apply Nat.mod_mul; lia.
  - apply Nat.eqb_neq. intros H. apply Nat.mod_divides in H; [|lia].
    destruct H as [k ->]. rewrite Nat.even_mul in E. cbn in E. discriminate.
Qed.

(* ------------------------------------------------------------------ conditionals in canonical orientation
   rust2coq translates an `if` WITH an else arm whose condition is `!c`, or `!=` / `>=` / `>` on usize / isize / bool, as the
   `if` on `c` resp. `==` / `<` / `<=` with the arms exchanged (so that negating the condition and swapping the arms in the
   source gives the same Gallina); where the hand-written model has the other orientation these lemmas bridge it. *)
Lemma if_leb_flip {Y} (a b : nat) (x y : Y) : (if a <=? b then x else y) = (if b <? a then y else x).
Proof. rewrite Nat.leb_antisym. destruct (b <? a); reflexivity. Qed.
Lemma if_ltb_flip {Y} (a b : nat) (x y : Y) : (if a <? b then x else y) = (if b <=? a then y else x).
Proof. rewrite Nat.ltb_antisym. destruct (b <=? a); reflexivity. Qed.
Lemma if_negb_flip {Y} (c : bool) (x y : Y) : (if negb c then x else y) = (if c then y else x).
Proof. destruct c; reflexivity. Qed.

(* ------------------------------------------------------------------ simulation between loops over different state types *)
Definition res_rel {X Y} (R : X -> Y -> Prop) (a : res X) (b : res Y) : Prop :=
  match a, b with Ok x, Ok y => R x y | Panic k, Panic k' => k = k' | _, _ => False end.

Lemma res_rel_bind {X Y Z} (R : X -> Y -> Prop) (a : res X) (b : res Y) (f : X -> res Z) (g : Y -> res Z) :
  res_rel R a b -> (forall x y, R x y -> f x = g y) -> bind a f = bind b g.
Proof. destruct a, b; cbn; intros H Hf; try contradiction; [auto | now subst]. Qed.

Lemma res_rel_bind2 {X Y X' Y'} (R : X -> Y -> Prop) (R' : X' -> Y' -> Prop) (a : res X) (b : res Y) f g :
  res_rel R a b -> (forall x y, R x y -> res_rel R' (f x) (g y)) -> res_rel R' (bind a f) (bind b g).
Proof. destruct a, b; cbn; intros H Hf; try contradiction; [auto | now subst]. Qed.

Lemma for_from_sim {S1 S2} (R : S1 -> S2 -> Prop) n lo (b1 : nat -> S1 -> res S1) (b2 : nat -> S2 -> res S2) s1 s2 :
  R s1 s2 ->
  (forall i s1 s2, lo <= i < lo + n -> R s1 s2 -> res_rel R (b1 i s1) (b2 i s2)) ->
  res_rel R (for_from n lo b1 s1) (for_from n lo b2 s2).
Proof.
  revert lo s1 s2; induction n as [|n IH]; intros lo s1 s2 H0 H; cbn [for_from]; [exact H0|].
  apply (res_rel_bind2 R R); [apply H; [lia|exact H0]|].
  intros x y Hxy. apply IH; [exact Hxy|]. intros; apply H; [lia|assumption].
Qed.
Lemma for_sim {S1 S2} (R : S1 -> S2 -> Prop) lo hi (b1 : nat -> S1 -> res S1) (b2 : nat -> S2 -> res S2) s1 s2 :
  R s1 s2 ->
  (forall i s1 s2, lo <= i < hi -> R s1 s2 -> res_rel R (b1 i s1) (b2 i s2)) ->
  res_rel R (for_ lo hi b1 s1) (for_ lo hi b2 s2).
Proof. intros H0 H. apply for_from_sim; [exact H0|]. intros; apply H; [lia|assumption]. Qed.

Lemma res_rel_eq {X} (a b : res X) : a = b -> res_rel eq a b.
Proof. intros ->. destruct b; cbn; reflexivity. Qed.
Lemma res_rel_eq_inv {X} (a b : res X) : res_rel eq a b -> a = b.
Proof. destruct a, b; cbn; intros H; try contradiction; now subst. Qed.

(* ------------------------------------------------------------------ reads commute *)
(* two steps that can only fail with an index panic may be performed in either order *)
Definition idx_only {X} (e : res X) : Prop := (exists x, e = Ok x) \/ e = Panic Index.
Lemma rd_idx_only {X} (l : list X) i : idx_only (rd l i).
Proof. unfold idx_only, rd. destruct (nth_error l i); eauto. Qed.
Lemma upd_idx_only {X} (l : list X) i x : idx_only (upd l i x).
Proof. unfold idx_only, upd. destruct (i <? length l); eauto. Qed.
Lemma bind_swap {X Y Z} (e1 : res X) (e2 : res Y) (k : X -> Y -> res Z) :
  idx_only e1 -> idx_only e2 ->
  (let* a := e1 in let* b := e2 in k a b) = (let* b := e2 in let* a := e1 in k a b).
Proof. intros [[x ->]| ->] [[y ->]| ->]; reflexivity. Qed.

(* ------------------------------------------------------------------ tactics *)
(* use what is known about already executed steps: a step that returned Ok x is replaced by its value *)
Ltac src_rew :=
  match goal with
  | H : usub ?a ?b = Ok ?c |- _ => apply usub_Ok in H; let H1 := fresh in destruct H as [H1 ->]
  | H : negb _ = false |- _ => apply negb_false_iff in H
  | H : negb _ = true |- _ => apply negb_true_iff in H
  | H : (_ || _) = false |- _ => apply orb_false_iff in H; let H1 := fresh in let H2 := fresh in destruct H as [H1 H2]
  | H : (_ =? _) = false |- _ => apply Nat.eqb_neq in H
  | H : (_ =? _) = true |- _ => apply Nat.eqb_eq in H
  | H : (_ <=? _) = false |- _ => apply Nat.leb_gt in H
  | H : (_ <=? _) = true |- _ => apply Nat.leb_le in H
  | H : (_ <? _) = false |- _ => apply Nat.ltb_ge in H
  | H : (_ <? _) = true |- _ => apply Nat.ltb_lt in H
  | H : ?b <= ?a |- context [usub ?a ?b] => rewrite (usub_ok a b H); cbn [bind]
  | |- context [usub ?a ?b] => rewrite (usub_ok a b) by lia; cbn [bind]
  | H : ?e = Ok ?x |- context [bind ?e _] => rewrite H; cbn [bind]
  | |- context [bind (bind _ _) _] => rewrite bind_assoc
  | |- context [bind (Ok _) _] => progress cbn [bind]
  end.

(* one structural step of an equality between two monadic terms of the same shape *)
Ltac src_step :=
  match goal with
  | |- _ = _ => reflexivity
  | |- bind ?e _ = bind ?e _ => apply bind_ext_ok; intros ? ?
  | |- bind ?e1 _ = bind ?e2 _ => unify e1 e2; apply bind_ext_ok; intros ? ?
  | |- bind (for_ _ _ _ _) _ = bind (for_ _ _ _ _) _ => apply bind_ext2; [| intros ? ?]
  | |- bind (for_rev _ _ _ _) _ = bind (for_rev _ _ _ _) _ => apply bind_ext2; [| intros ? ?]
  | |- bind (if _ then _ else _) _ = bind (if _ then _ else _) _ => apply bind_ext2; [| intros ? ?]
  | |- bind (bind _ _) _ = bind (bind _ _) _ => apply bind_ext2; [| intros ? ?]
  | |- for_ ?lo ?hi _ ?s = for_ ?lo ?hi _ ?s => apply for_ext; intros ? ? ?
  | |- for_rev ?lo ?hi _ ?s = for_rev ?lo ?hi _ ?s => apply for_rev_ext; intros ? ? ?
  | |- (if ?c then _ else _) = (if ?c then _ else _) => destruct c eqn:?
  | |- context [bind (if ?c then _ else _) _] => destruct c eqn:?; cbn [bind]
  | |- context [match ?p with pair _ _ => _ end] => is_var p; destruct p
  | |- context [fst ?p] => is_var p; destruct p; cbn [fst snd]
  | |- context [snd ?p] => is_var p; destruct p; cbn [fst snd]
  | |- Ok _ = Ok _ => f_equal
  end.
(* the model performs two index-checked reads in the other order *)
Ltac src_swap :=
  match goal with
  | |- bind ?e1 _ = bind ?e2 _ =>
      etransitivity; [ apply (bind_swap e1 e2); apply rd_idx_only | ]
  end.
(* structural equality of two monadic terms; where the two sides perform two index-checked reads in a different order (the
   source was rewritten `let t = a[i] * b[j]; x[k] -= t` <-> `x[k] = x[k] - a[i] * b[j]`, or the model reads in another order)
   the reads are commuted (bind_swap: both can only fail with Panic Index).  src_swap fires only when nothing else applies and
   only when the second step of the left side IS the first step of the right side, so every swap is followed by progress. *)
Ltac src_eq := repeat first [ progress src_rew | progress cbn [fst snd] | src_step | src_swap ].
Ltac src_eq_swap := src_eq.

(* ------------------------------------------------------------------ loops over lists: push / fold / tabulate / update in place *)
Section ListLoops.
Context {X Y : Type}.

Lemma mapM_pure (f : X -> Y) l : mapM (fun a => Ok (f a)) l = Ok (map f l).
Proof. induction l as [|a t IH]; cbn; [reflexivity|]. now rewrite IH. Qed.

Lemma mapM_ext (F G : X -> res Y) l : (forall a, In a l -> F a = G a) -> mapM F l = mapM G l.
Proof.
  induction l as [|a t IH]; cbn; intros H; [reflexivity|].
  rewrite H by auto. apply bind_ext; intros y. rewrite IH by auto. reflexivity.
Qed.

Lemma mapM_app (F : X -> res Y) l1 l2 :
  mapM F (l1 ++ l2) = let* a := mapM F l1 in let* b := mapM F l2 in Ok (a ++ b).
Proof.
  induction l1 as [|x t IH]; cbn.
  - destruct (mapM F l2); reflexivity.
  - destruct (F x); cbn; [|reflexivity]. rewrite IH. destruct (mapM F t); cbn; [|reflexivity].
    destruct (mapM F l2); reflexivity.
Qed.

Lemma mapM_length (F : X -> res Y) l l' : mapM F l = Ok l' -> length l' = length l.
Proof.
  revert l'; induction l as [|a t IH]; cbn; intros l' E.
  - injection E as <-; reflexivity.
  - destruct (F a); cbn in E; [|discriminate]. destruct (mapM F t); cbn in E; [|discriminate].
    injection E as <-. cbn. f_equal. now apply IH.
Qed.
End ListLoops.

Section ListLoops2.
Context {X : Type}.

Lemma skipn_cons_S (v : list X) lo a t : skipn lo v = a :: t -> skipn (S lo) v = t.
Proof.
  revert v; induction lo as [|lo IH]; intros v E.
  - cbn in E. subst v. reflexivity.
  - destruct v as [|b v]; [discriminate|]. cbn in E. apply IH in E. exact E.
Qed.

(* reading the positions lo, lo+1, .., lo+n-1 of a list *)
Lemma mapM_rd_seq (v : list X) lo n :
  lo + n <= length v -> mapM (rd v) (seq lo n) = Ok (firstn n (skipn lo v)).
Proof.
  revert lo; induction n as [|n IH]; intros lo H; cbn; [reflexivity|].
  destruct (skipn lo v) as [|a t] eqn:E.
  - assert (length (skipn lo v) = 0) by now rewrite E. rewrite skipn_length in *. lia.
  - assert (R : rd v lo = Ok a).
    { unfold rd. rewrite <- (firstn_skipn lo v) at 1. rewrite nth_error_app2; rewrite firstn_length_le by lia; [|lia].
      rewrite Nat.sub_diag, E. reflexivity. }
    rewrite R; cbn. rewrite IH by lia.
    rewrite (skipn_cons_S v lo a t E). reflexivity.
Qed.

Lemma mapM_rd_all (v : list X) : mapM (rd v) (seq 0 (length v)) = Ok v.
Proof. rewrite mapM_rd_seq by lia. cbn. now rewrite firstn_all. Qed.

(* accumulator loops *)
Lemma for_from_fold {St} (F : nat -> res X) (g : St -> X -> St) n lo acc :
  for_from n lo (fun i acc => let* x := F i in Ok (g acc x)) acc
  = let* l := mapM F (seq lo n) in Ok (fold_left g l acc).
Proof.
  revert lo acc; induction n as [|n IH]; intros lo acc; cbn; [reflexivity|].
  destruct (F lo); cbn; [|reflexivity]. rewrite IH. destruct (mapM F (seq (S lo) n)); reflexivity.
Qed.

Lemma fold_left_push (l acc : list X) : fold_left (fun a x => a ++ [x]) l acc = acc ++ l.
Proof. revert acc; induction l as [|x t IH]; intros acc; cbn; [now rewrite app_nil_r|]. rewrite IH, <- app_assoc. reflexivity. Qed.

(* push loops *)
Lemma for_from_push (F : nat -> res X) n lo acc :
  for_from n lo (fun i acc => let* x := F i in Ok (acc ++ [x])) acc
  = let* l := mapM F (seq lo n) in Ok (acc ++ l).
Proof. rewrite (for_from_fold F (fun a x => a ++ [x])). apply bind_ext; intros l. now rewrite fold_left_push. Qed.

(* tabulating loops: v[i] = F i for i in lo..lo+n *)
Lemma for_from_tab (F : nat -> res X) suf pre :
  for_from (length suf) (length pre) (fun i v => let* y := F i in upd v i y) (pre ++ suf)
  = let* l := mapM F (seq (length pre) (length suf)) in Ok (pre ++ l).
Proof.
  revert pre; induction suf as [|a t IH]; intros pre; cbn [length for_from seq mapM].
  - cbn. reflexivity.
  - destruct (F (length pre)) as [y|k]; cbn [bind]; [|reflexivity].
    assert (U : upd (pre ++ a :: t) (length pre) y = Ok ((pre ++ [y]) ++ t)).
    { unfold upd. rewrite app_length; cbn [length].
      replace (length pre <? length pre + S (length t)) with true by (symmetry; apply Nat.ltb_lt; lia).
      f_equal. rewrite <- app_assoc. cbn. clear. induction pre; cbn; [reflexivity|]. now rewrite IHpre. }
    rewrite U; cbn [bind].
    replace (S (length pre)) with (length (pre ++ [y])) at 1 by (rewrite app_length; cbn; lia).
    rewrite IH. rewrite app_length; cbn [length]. replace (length pre + 1) with (S (length pre)) by lia.
    destruct (mapM F (seq (S (length pre)) (length t))); cbn [bind]; [|reflexivity].
    rewrite <- app_assoc. reflexivity.
Qed.
End ListLoops2.

Lemma mapM_map {X Y Z} (h : Z -> X) (F : X -> res Y) l : mapM F (map h l) = mapM (fun z => F (h z)) l.
Proof. induction l as [|a t IH]; cbn; [reflexivity|]. now rewrite IH. Qed.

Section ListLoops3.
Context {X Y : Type}.

Lemma mapM_seq_S (F : nat -> res Y) lo n : mapM F (seq (S lo) n) = mapM (fun i => F (S i)) (seq lo n).
Proof. rewrite <- seq_shift. apply mapM_map. Qed.

(* a loop body that reads u[i] and continues with G *)
Lemma mapM_rd1 (u : list X) (G : X -> res Y) :
  mapM (fun i => let* a := rd u i in G a) (seq 0 (length u)) = mapM G u.
Proof.
  induction u as [|a t IH]; cbn [length seq mapM]; [reflexivity|].
  cbn [rd nth_error bind]. apply bind_ext; intros y.
  rewrite mapM_seq_S, <- IH. reflexivity.
Qed.

Lemma mapM_rd2 {W} (u : list X) (w : list W) (G : X -> W -> res Y) :
  length u <= length w ->
  mapM (fun i => let* a := rd u i in let* b := rd w i in G a b) (seq 0 (length u))
  = mapM (fun p => G (fst p) (snd p)) (combine u w).
Proof.
  revert w; induction u as [|a t IH]; intros w H; cbn [length seq mapM combine]; [reflexivity|].
  destruct w as [|b w]; [cbn in H; lia|]. cbn [rd nth_error bind combine mapM fst snd].
  apply bind_ext; intros y.
  rewrite mapM_seq_S, <- IH by (cbn in H; lia). reflexivity.
Qed.

Lemma fold_left_map {S} (g : S -> Y -> S) (h : X -> Y) l a :
  fold_left g (map h l) a = fold_left (fun a x => g a (h x)) l a.
Proof. revert a; induction l as [|x t IH]; intros a; cbn; [reflexivity|]. apply IH. Qed.
End ListLoops3.

Section ListLoops4.
Context {X : Type}.
(* in-place loops: v[i] = G i v[i] *)
Fixpoint mapMi (G : nat -> X -> res X) (k : nat) (l : list X) : res (list X) :=
  match l with
  | [] => Ok []
  | a :: t => let* y := G k a in let* t' := mapMi G (S k) t in Ok (y :: t')
  end.

Lemma rd_app_mid (pre : list X) a t : rd (pre ++ a :: t) (length pre) = Ok a.
Proof. unfold rd. rewrite nth_error_app2 by lia. now rewrite Nat.sub_diag. Qed.

Lemma upd_app_mid (pre : list X) a t y : upd (pre ++ a :: t) (length pre) y = Ok ((pre ++ [y]) ++ t).
Proof.
  unfold upd. rewrite app_length; cbn [length].
  replace (length pre <? length pre + S (length t)) with true by (symmetry; apply Nat.ltb_lt; lia).
  f_equal. rewrite <- app_assoc. cbn. induction pre as [|p pre IH]; cbn; [reflexivity|]. now rewrite IH.
Qed.

Lemma for_from_upd (G : nat -> X -> res X) suf pre :
  for_from (length suf) (length pre) (fun i v => let* a := rd v i in let* y := G i a in upd v i y) (pre ++ suf)
  = let* l := mapMi G (length pre) suf in Ok (pre ++ l).
Proof.
  revert pre; induction suf as [|a t IH]; intros pre; cbn [length for_from mapMi].
  - reflexivity.
  - rewrite rd_app_mid; cbn [bind]. destruct (G (length pre) a) as [y|k]; cbn [bind]; [|reflexivity].
    rewrite upd_app_mid; cbn [bind].
    replace (S (length pre)) with (length (pre ++ [y])) at 1 by (rewrite app_length; cbn; lia).
    rewrite IH. rewrite app_length; cbn [length]. replace (length pre + 1) with (S (length pre)) by lia.
    destruct (mapMi G (S (length pre)) t); cbn [bind]; [|reflexivity].
    rewrite <- app_assoc. reflexivity.
Qed.

Lemma mapMi_const (G : nat -> X -> res X) (H : X -> res X) k l :
  (forall i a, G i a = H a) -> mapMi G k l = mapM H l.
Proof.
  intros E; revert k; induction l as [|a t IH]; intros k; cbn; [reflexivity|].
  rewrite E. apply bind_ext; intros y. now rewrite IH.
Qed.

Lemma mapMi_rd {W} (w : list W) (K : X -> W -> res X) l :
  length l <= length w ->
  mapMi (fun i a => let* b := rd w i in K a b) 0 l = mapM (fun p => K (fst p) (snd p)) (combine l w).
Proof.
  enough (G : forall wpre wsuf l, length l <= length wsuf ->
             mapMi (fun i a => let* b := rd (wpre ++ wsuf) i in K a b) (length wpre) l
             = mapM (fun p => K (fst p) (snd p)) (combine l wsuf)).
  { intros H. apply (G [] w l H). }
  clear; intros wpre wsuf l; revert wpre wsuf; induction l as [|a t IH]; intros wpre wsuf H; cbn [mapMi combine mapM]; [reflexivity|].
  destruct wsuf as [|b wsuf]; [cbn in H; lia|].
  unfold rd at 1. rewrite nth_error_app2 by lia. rewrite Nat.sub_diag. cbn [nth_error bind combine mapM fst snd].
  apply bind_ext; intros y.
  replace (wpre ++ b :: wsuf) with ((wpre ++ [b]) ++ wsuf) by (rewrite <- app_assoc; reflexivity).
  replace (S (length wpre)) with (length (wpre ++ [b])) by (rewrite app_length; cbn; lia).
  rewrite IH by (cbn in H; lia). reflexivity.
Qed.
End ListLoops4.
