(* Proofs/SrcEqWrapMatrix.v -- src/matrix/{arithmetic,mod}.rs: the consuming operator forms (each delegates to the by-reference form), empty, rows, cols, Clone
   regenerated from the source of this run as gen/SrcWrapMatrix.v and each proved equal to its hand-written model (package C03).
   Every consuming operator form computes exactly what the by-reference form computes; every Clone impl is the identity that
   the translation of `x.clone()` assumes. *)
From Coq Require Import List Arith ZArith Lia Bool.
From OV Require Import Base.Panic Base.Arith Model.Vector Model.Matrix Model.Tridiag Model.Banded Model.Poly Model.Newton gen.SrcPrelude gen.SrcWrapMatrix Proofs.SrcEqBase.
Import ListNotations.

Section SrcEqWrapMatrix.
Context {A : Arith}.

Lemma src_mneg_val (m : matrix A) : s_mneg_val m = mneg m.
Proof. reflexivity. Qed.
Lemma src_madd_val (m k : matrix A) : s_madd_val m k = madd m k.
Proof. reflexivity. Qed.
Lemma src_msub_val (m k : matrix A) : s_msub_val m k = msub m k.
Proof. reflexivity. Qed.
Lemma src_mscale_val (m : matrix A) (x : T A) : s_mscale_val m x = mscale m x.
Proof. reflexivity. Qed.
Lemma src_mdiv_val (m : matrix A) (x : T A) : s_mdiv_val m x = mdiv m x.
Proof. reflexivity. Qed.
Lemma src_madd_assign_val (m k : matrix A) : s_madd_assign_val m k = madd_assign m k.
Proof. reflexivity. Qed.
Lemma src_msub_assign_val (m k : matrix A) : s_msub_assign_val m k = msub_assign m k.
Proof. reflexivity. Qed.
Lemma src_mat_mul_val (m k : matrix A) : s_mat_mul_val m k = mat_mul m k.
Proof. reflexivity. Qed.
Lemma src_mat_vec_mul_val (m : matrix A) (v : list (T A)) : s_mat_vec_mul_val m v = multiply m v.
Proof. reflexivity. Qed.
Lemma src_mat_empty  : @s_mat_empty A = Ok mat_empty.
Proof. reflexivity. Qed.
Lemma src_mrows (m : matrix A) : s_mrows m = Ok (rows m).
Proof. reflexivity. Qed.
Lemma src_mcols (m : matrix A) : s_mcols m = Ok (cols m).
Proof. reflexivity. Qed.
Lemma src_mclone (m : matrix A) : s_mclone m = Ok m.
Proof. destruct m; reflexivity. Qed.

Definition model_is_source_WrapMatrix : Prop :=
  (forall (m : matrix A), s_mneg_val m = mneg m) /\
  (forall (m k : matrix A), s_madd_val m k = madd m k) /\
  (forall (m k : matrix A), s_msub_val m k = msub m k) /\
  (forall (m : matrix A) (x : T A), s_mscale_val m x = mscale m x) /\
  (forall (m : matrix A) (x : T A), s_mdiv_val m x = mdiv m x) /\
  (forall (m k : matrix A), s_madd_assign_val m k = madd_assign m k) /\
  (forall (m k : matrix A), s_msub_assign_val m k = msub_assign m k) /\
  (forall (m k : matrix A), s_mat_mul_val m k = mat_mul m k) /\
  (forall (m : matrix A) (v : list (T A)), s_mat_vec_mul_val m v = multiply m v) /\
  (@s_mat_empty A = Ok mat_empty) /\
  (forall (m : matrix A), s_mrows m = Ok (rows m)) /\
  (forall (m : matrix A), s_mcols m = Ok (cols m)) /\
  (forall (m : matrix A), s_mclone m = Ok m).
Lemma model_is_source_WrapMatrix_lemma : model_is_source_WrapMatrix.
Proof. exact (conj src_mneg_val (conj src_madd_val (conj src_msub_val (conj src_mscale_val (conj src_mdiv_val (conj src_madd_assign_val (conj src_msub_assign_val (conj src_mat_mul_val (conj src_mat_vec_mul_val (conj src_mat_empty (conj src_mrows (conj src_mcols src_mclone)))))))))))). Qed.

End SrcEqWrapMatrix.
