(* Proofs/IterCGR.v -- round two, package iter2: the convergence half of C09 for conjugate gradients, as far
   as exact arithmetic allows: the MODEL's solve_cg (Model/Iter.v) over the real numbers with the standard
   square root (SAR, Proofs/IterR.v), the matrix a total linear product that is symmetric ([SymOp]) and
   positive (semi-)definite with respect to the code's dot product.

   (a) [cg_step_minimises_R]: every step lands on the minimiser of the error's A-norm along its search line
       (alpha is the exact line minimiser), hence does not increase it; [cg_error_monotone_R]: whatever
       solve_cg returns (Ok or Err, any budget, any tol), |xs - x|_A <= |xs - x0|_A for the solution xs.
   (c) [cg_terminates_spd_R]: for an SPD matrix of order n, every right-hand side and guess, every tol >= 0
       and every budget >= n: solve_cg returns Ok k with k <= n -- no breakdown division can occur, and the
       n+1 residuals r_0..r_n cannot all be nonzero because they are mutually orthogonal
       (Proofs/IterCG.v: cg_hist_conjugacy, Proofs/IterCGDim.v: orth_family_bound).
   Uses the four standard-library axioms of the real numbers. *)
From Coq Require Import List Arith Lia Bool Reals Lra.
From OV Require Import Base.Panic Base.Arith Model.Vector Model.Iter Proofs.Iter Proofs.IterField Proofs.IterR
  Proofs.IterCGVec Proofs.IterCGDim Proofs.IterSparseBreakdown Proofs.IterCG.
Import ListNotations.
Local Open Scope R_scope.

Definition PosSemi (n : nat) (mulA : list R -> res (list R)) : Prop :=
  forall v av, length v = n -> mulA v = Ok av -> 0 <= @dot_raw AR v av.
Definition PosDef (n : nat) (mulA : list R -> res (list R)) : Prop :=
  forall v av, length v = n -> mulA v = Ok av -> v <> repeat 0 n -> 0 < @dot_raw AR v av.

Lemma PosDef_PosSemi n mulA : @LinOp AR n mulA -> PosDef n mulA -> PosSemi n mulA.
Proof.
  intros LO PD v av Hv Ev. destruct (list_eq_dec Req_EM_T v (repeat 0 n)) as [->|Hne].
  - rewrite (@dot_raw_zeros_l SAR AR_FieldLaws). cbn. lra.
  - apply Rlt_le. eapply PD; eauto.
Qed.

(* ---- the 2-norm of the code and its inner product ---- *)
Lemma norm2_fold (v : list R) a :
  fold_left (fun acc x => acc + Rabs x * Rabs x) v a = a + @dot_raw AR v v.
Proof.
  revert a; induction v as [|x v IH]; intros a.
  - cbn. lra.
  - cbn [fold_left]. rewrite IH. rewrite (@dot_raw_cons SAR AR_FieldLaws). cbn.
    replace (Rabs x * Rabs x) with (x * x); [lra|].
    rewrite <- Rabs_mult. symmetry. apply Rabs_pos_eq. nra.
Qed.

Lemma norm2_dot (v : list R) : @norm2 SAR v = R_sqrt.sqrt (@dot_raw AR v v).
Proof. unfold norm2. cbn. rewrite norm2_fold. f_equal. lra. Qed.

Lemma dot_self_nonneg (v : list R) : 0 <= @dot_raw AR v v.
Proof.
  induction v as [|x v IH].
  - cbn. lra.
  - rewrite (@dot_raw_cons SAR AR_FieldLaws). cbn. nra.
Qed.

Lemma norm2_zero_dot (v : list R) : @dot_raw AR v v = 0 -> @norm2 SAR v = 0.
Proof. intros H. rewrite norm2_dot, H. apply sqrt_0. Qed.

Lemma R_leb_false (x y : R) : R_leb x y = false -> y < x.
Proof. unfold R_leb. destruct (Rle_dec x y); [discriminate | lra]. Qed.

Section CGReal.
Variables (n : nat) (mulA : list R -> res (list R)).
Hypothesis LO : @LinOp AR n mulA.
Hypothesis SYM : @SymOp AR n mulA.

Notation FLR := AR_FieldLaws.
Notation body tol normb := (@cg_body SAR mulA n tol normb).
Notation err xs x := (@anorm2 SAR mulA (@zipw AR Rminus xs x)).

(* the x after one iteration, whichever way the iteration leaves the body *)
Definition step_x (out : @step_out SAR (@cg_st SAR)) : list R :=
  match out with Continue s' => cg_x s' | Return (_, x, _) => x end.

Lemma R_div_inv (x y z : R) : @div AR x y = Ok z -> y <> 0 /\ z = x * / y.
Proof. exact (R_div_Ok x y z). Qed.

(* (a) one step: the new iterate minimises the A-norm of the error along the search line x + t p *)
Theorem cg_step_minimises_R tol normb s0 i s Rs Ps out (b xs : list R) :
  PosSemi n mulA -> length xs = n -> length b = n -> mulA xs = Ok b ->
  @cg_state_inv SAR n mulA s0 i s Rs Ps -> @tracks SAR mulA b (cg_x s) (cg_r s) ->
  body tol normb i s = Ok out ->
  exists p alpha, length p = n /\ step_x out = @zipw AR Rplus (cg_x s) (@vscale AR p alpha) /\
    (forall t, err xs (step_x out) <= err xs (@zipw AR Rplus (cg_x s) (@vscale AR p t))) /\
    err xs (step_x out) <= err xs (cg_x s).
Proof.
  intros PSD Hxs Hb Exs HI (ax & Eax & Er) Eb.
  destruct (@cg_body_post SAR FLR n mulA LO SYM tol normb s0 i s Rs Ps out HI Eb)
    as (x' & r' & p & rho & resid & X & Hs & HI' & Eres & Eo).
  pose proof (@cg_step_rp SAR FLR n mulA s0 i s Rs Ps x' r' p rho HI Hs) as Hrp.
  destruct HI as ((Hx & Hr & Hp & Hz) & _).
  destruct Hs as (Hrho & Hdir & q & alpha & Eq & Ea & Ex' & Er').
  assert (Hpl : length p = n).
  { apply (@cgI_lens SAR n mulA) in HI'. tauto. }
  assert (Hsx : step_x out = x').
  { rewrite Eo. match goal with |- context [if ?c then _ else _] => destruct c end; reflexivity. }
  apply R_div_inv in Ea as (Hpq & Halpha). cbn [SA SAR] in *.
  assert (Hpqpos : 0 < @dot_raw AR p q).
  { pose proof (PSD p q Hpl Eq). lra. }
  assert (Hline : forall t, err xs (@zipw AR Rplus (cg_x s) (@vscale AR p t)) =
            err xs (cg_x s) - (t + t) * rho + t * t * @dot_raw AR p q).
  { intros t.
    pose proof (@anorm2_line SAR FLR n mulA LO SYM b xs (cg_x s) ax p q t Hxs Hx Hpl Hb Exs Eax Eq) as E.
    etransitivity; [exact E|]. cbn [SA SAR]. rewrite <- Er, Hrp. reflexivity. }
  exists p, alpha. split; auto. rewrite Hsx, Ex'. split; [reflexivity|].
  assert (Hmin : forall t, err xs (@zipw AR Rplus (cg_x s) (@vscale AR p alpha)) <=
                           err xs (@zipw AR Rplus (cg_x s) (@vscale AR p t))).
  { intros t. rewrite !Hline. rewrite Halpha.
    set (pq := @dot_raw AR p q) in *.
    assert (E : (t + t) * rho - t * t * pq - ((rho * / pq + rho * / pq) * rho - rho * / pq * (rho * / pq) * pq)
                = - pq * (t - rho * / pq) * (t - rho * / pq)) by (field; lra).
    assert (0 <= pq * ((t - rho * / pq) * (t - rho * / pq))) by (apply Rmult_le_pos; [lra | exact (Rle_0_sqr _)]).
    lra. }
  split; auto.
  specialize (Hmin 0). rewrite (Hline 0) in Hmin. eapply Rle_trans; [exact Hmin | lra].
Qed.

(* ---- the loop of solve_cg ---- *)
Definition cg_init (x r : list R) (resid tol : R) : @cg_st SAR :=
  @mkCG SAR x r (@zeros SAR n) (@zeros SAR n) 1 resid (@trace0 SAR x resid tol).

Lemma solve_cg_cases cols (b x0 : list R) max tol o :
  @solve_cg SAR mulA n cols b x0 max tol = Ok o ->
  exists ax r0 resid, length b = n /\ length x0 = n /\ mulA x0 = Ok ax /\ r0 = @zipw AR Rminus b ax /\
    length r0 = n /\ 0 < @nz SAR (@norm2 SAR b) /\
    resid = @norm2 SAR r0 * / @nz SAR (@norm2 SAR b) /\
    ((R_leb resid tol = true /\ exists X, o = (@IOk SAR 0, x0, @mkG SAR r0 X 0)) \/
     (R_leb resid tol = false /\
      iloop (body tol (@nz SAR (@norm2 SAR b))) (@cg_final SAR) max 1 (cg_init x0 r0 resid tol) = Ok o)).
Proof.
  unfold solve_cg. intros H.
  apply bind_ok in H as (u & Hg & H). apply guards_Ok in Hg as (Hb & Hc & Hx).
  apply bind_ok in H as (ax & Eax & H). apply bind_ok in H as (r0 & Er & H).
  apply bind_ok in H as (resid & Ed & H). cbv zeta in H.
  apply vsub_Ok in Er as (Hl & ->).
  apply R_div_Ok in Ed as (Hnz & ->).
  pose proof (nz_R_pos _ (norm2_R_nonneg b)) as Hpos.
  exists ax, (@zipw AR Rminus b ax), (@norm2 SAR (@zipw AR Rminus b ax) * / @nz SAR (@norm2 SAR b)).
  split; [symmetry; exact Hb|]. split; [transitivity (length b); [symmetry; exact Hx | symmetry; exact Hb]|].
  split; [exact Eax|]. split; [reflexivity|].
  split; [unfold zipw; rewrite map_length, combine_length; cbn [T AR SA SAR] in *; lia|].
  split; [exact Hpos|]. split; [reflexivity|].
  match type of H with (if ?c then _ else _) = _ => destruct c eqn:Et end.
  - left. split; [exact Et|]. injection H as <-. eexists. reflexivity.
  - right. split; [exact Et | exact H].
Qed.

(* (a) along the whole run: whatever solve_cg returns, the error did not grow in the A-norm *)
Theorem cg_error_monotone_R cols (b x0 xs : list R) max tol res x g :
  PosSemi n mulA -> length xs = n -> mulA xs = Ok b ->
  @solve_cg SAR mulA n cols b x0 max tol = Ok (res, x, g) ->
  err xs x <= err xs x0.
Proof.
  intros PSD Hxs Exs H.
  destruct (solve_cg_cases _ _ _ _ _ _ H) as (ax & r0 & resid & Hb & Hx0 & Eax & Er0 & Hr0 & Hpos & Eres & Hcase).
  destruct Hcase as [(_ & X & E)|(_ & Hloop)].
  - injection E as _ -> _. apply Rle_refl.
  - set (s0 := cg_init x0 r0 resid tol) in *.
    set (nb := @nz SAR (@norm2 SAR b)) in *.
    assert (Hl0 : @cg_lens SAR n s0).
    { unfold cg_lens, s0, cg_init; cbn. repeat split; auto; apply (@zeros_length SAR). }
    set (Inv := fun (i : nat) (s : @cg_st SAR) =>
           (exists Rs Ps, @cg_hist SAR (body tol nb) s0 i s Rs Ps) /\ @cg_inv SAR n mulA b s /\
           err xs (cg_x s) <= err xs x0).
    assert (Hstep : forall i s out, Inv i s -> body tol nb i s = Ok out ->
              err xs (step_x out) <= err xs x0 /\
              match out with Continue s' => Inv (S i) s' | Return _ => True end).
    { intros i s out ((Rs & Ps & Hh) & Hci & Hle) Eb.
      pose proof (@cg_hist_inv SAR FLR n mulA LO SYM tol nb s0 i s Rs Ps Hl0 Hh) as HI.
      destruct Hci as (Hx & Hr & Hz & Htr).
      destruct (cg_step_minimises_R tol nb s0 i s Rs Ps out b xs PSD Hxs Hb Exs HI Htr Eb) as (p & alpha & _ & _ & _ & Hdec).
      split; [lra|]. destruct out as [s'|o]; auto. split; [|split].
      - exists (cg_r s :: Rs), (cg_p s' :: Ps). econstructor; eauto.
      - exact (@cg_body_inv SAR FLR n mulA LO b tol nb i s (Continue s') (conj Hx (conj Hr (conj Hz Htr))) Eb).
      - cbn [step_x] in Hdec. lra. }
    assert (H0 : Inv 1%nat s0).
    { split; [exists [], []; constructor|]. split.
      - unfold cg_inv, s0, cg_init; cbn. repeat split; auto; try apply (@zeros_length SAR).
        exists ax. split; auto.
      - apply Rle_refl. }
    destruct (@iloop_char SAR _ (body tol nb) (@cg_final SAR) Inv
                (fun i s s' HI Eb => proj2 (Hstep i s (Continue s') HI Eb)) max 1%nat s0 _ H0 Hloop)
      as [(i & s & _ & HI & Eb)|(s & (_ & _ & Hle) & E)].
    + destruct (Hstep i s _ HI Eb) as (Hle & _). exact Hle.
    + unfold cg_final in E. injection E as _ -> _. exact Hle.
Qed.

(* ---- (c) finite termination ---- *)
Lemma state_vectors s0 i s Rs Ps : @cg_state_inv SAR n mulA s0 i s Rs Ps ->
  Forall (@lenis SAR n) (cg_r s :: Rs) /\ length (cg_r s :: Rs) = i /\ (1 <= i)%nat.
Proof.
  intros ((Hx & Hr & Hp & Hz) & HlR & HlP & Hc).
  destruct Hc as [(-> & -> & -> & ->)|(Hi & HI)].
  - split; [repeat constructor; exact Hr|]. split; [reflexivity | lia].
  - destruct HI as (_ & _ & HR & _). split; [constructor; auto|]. split; cbn [length]; lia.
Qed.

Lemma cg_loop_terminates_R tol nb s0 : PosDef n mulA -> 0 <= tol -> 0 < nb -> @cg_lens SAR n s0 ->
  forall fuel i s Rs Ps, @cg_hist SAR (body tol nb) s0 i s Rs Ps ->
    Forall (fun u => @dot_raw AR u u <> 0) (cg_r s :: Rs) -> (n + 1 <= i + fuel)%nat ->
    exists k x g, iloop (body tol nb) (@cg_final SAR) fuel i s = Ok (IOk k, x, g) /\ (k <= n)%nat.
Proof.
  intros PD Htol Hnb Hl0. induction fuel as [|fuel IH]; intros i s Rs Ps Hh Han Hfuel.
  all: pose proof (@cg_hist_inv SAR FLR n mulA LO SYM tol nb s0 i s Rs Ps Hl0 Hh) as HI.
  all: destruct (state_vectors _ _ _ _ _ HI) as (Hlens & Hcount & Hi1).
  all: destruct (@cg_hist_conjugacy SAR FLR n mulA LO SYM tol nb s0 i s Rs Ps Hl0 Hh) as (Horth & _ & _ & _ & _).
  all: pose proof (@orth_family_bound SAR FLR n (cg_r s :: Rs) Hlens Horth Han) as Hbound.
  - exfalso. lia.
  - (* the body does not panic *)
    destruct HI as ((Hx & Hr & Hp & Hz) & HlR & HlP & Hc).
    pose proof (Forall_inv Han) as Hrr.
    assert (Edir : exists p, @cg_dir SAR i s = Ok p).
    { unfold cg_dir. destruct (i =? 1)%nat eqn:Ei; [eauto|].
      assert (Hrho1 : cg_rho1 s <> 0).
      { destruct Hc as [(-> & _)|(_ & HI)]; [discriminate Ei|].
        destruct HI as (_ & _ & _ & _ & (R' & P' & -> & _ & -> & _) & _).
        exact (Forall_inv (Forall_inv_tail Han)). }
      rewrite (@div_ok SAR FLR) by exact Hrho1. cbn [bind]. eauto. }
    destruct Edir as (p & Edir).
    assert (Hpl : length p = n) by (eapply (@cg_dir_len SAR n); eauto).
    assert (Hrp : @dot_raw AR (cg_r s) p = @dot_raw AR (cg_r s) (cg_r s)).
    { apply (@cg_dir_rp SAR FLR n mulA s0 i s Rs Ps p); auto. repeat split; auto. }
    destruct (@lo_ok AR n mulA LO p Hpl) as (q & Eq & Hq).
    assert (Hpq : 0 < @dot_raw AR p q).
    { apply (PD p q Hpl Eq). intros ->. rewrite (@dot_raw_zeros_r SAR FLR) in Hrp. cbn in Hrp. congruence. }
    assert (Eb : exists out, body tol nb i s = Ok out /\
              ((exists x g, out = Return (IOk i, x, g)) \/
               (exists s', out = Continue s' /\ @dot_raw AR (cg_r s') (cg_r s') <> 0))).
    { rewrite (@cg_body_eq SAR n mulA LO) by auto. rewrite Edir. cbn [bind]. unfold cg_tail. rewrite Eq. cbn [bind].
      rewrite (@div_ok SAR FLR) by (cbn; lra). cbn [bind].
      rewrite (@div_ok SAR FLR) by (cbn; lra). cbn [bind].
      match goal with |- context [if ?c then _ else _] => destruct c eqn:Et end.
      - eexists. split; [reflexivity|]. left. eauto.
      - eexists. split; [reflexivity|]. right. eexists. split; [reflexivity|]. cbn [cg_r].
        intros Hz0. apply norm2_zero_dot in Hz0.
        change (@leb SAR) with R_leb in Et. apply R_leb_false in Et.
        cbn [SA SAR] in *. rewrite Hz0 in Et. cbn in Et. lra. }
    destruct Eb as (out & Eb & [(x & g & ->)|(s' & -> & Hnz)]).
    + exists i, x, g. cbn [iloop]. rewrite Eb. cbn [bind]. split; [reflexivity | lia].
    + cbn [iloop]. rewrite Eb. cbn [bind].
      apply (IH (S i) s' (cg_r s :: Rs) (cg_p s' :: Ps)).
      * econstructor; eauto.
      * constructor; auto.
      * lia.
Qed.

(* for an SPD matrix of order n, every b, every guess, every tol >= 0, every budget >= n:
   solve_cg answers Ok k with k <= n *)
Theorem cg_terminates_spd_R (b x0 : list R) max tol :
  PosDef n mulA -> length b = n -> length x0 = n -> 0 <= tol -> (n <= max)%nat ->
  exists k x g, @solve_cg SAR mulA n n b x0 max tol = Ok (IOk k, x, g) /\ (k <= n)%nat.
Proof.
  intros PD Hb Hx Htol Hmax.
  destruct (@lo_ok AR n mulA LO x0 Hx) as (ax & Eax & Hax).
  pose proof (nz_R_pos _ (norm2_R_nonneg b)) as Hpos.
  unfold solve_cg. rewrite (@guards_pass SAR n b x0 Hb Hx), Eax. cbn [bind].
  assert (Ev : @vsub SAR b ax = Ok (@zipw SAR sub b ax)).
  { unfold vsub. cbn [T AR SA SAR] in *. rewrite Hb, Hax, Nat.eqb_refl. reflexivity. }
  rewrite Ev. cbn [bind].
  rewrite (@div_ok SAR FLR) by (apply Rgt_not_eq; exact Hpos). cbn [bind]. cbv zeta.
  match goal with |- context [if ?c then _ else _] => destruct c eqn:Et end.
  - exists 0%nat, x0. eexists. split; [reflexivity | lia].
  - set (r0 := @zipw SAR sub b ax).
    assert (Hr0 : length r0 = n) by (unfold r0; rewrite zipw_length; cbn [T AR SA SAR] in *; lia).
    assert (Hnz : @dot_raw AR r0 r0 <> 0).
    { intros Hz0. apply norm2_zero_dot in Hz0.
      change (@leb SAR) with R_leb in Et. apply R_leb_false in Et.
      fold r0 in Et. cbn [SA SAR] in *. rewrite Hz0 in Et. cbn in Et. lra. }
    eapply (cg_loop_terminates_R tol _ _ PD Htol Hpos); [| constructor | repeat constructor; exact Hnz | lia].
    unfold cg_lens; cbn. repeat split; auto; apply (@zeros_length SAR).
Qed.

(* ---- optimality over the span of the search directions ---- *)
(* linear combinations of a list of vectors of F^n *)
Inductive in_span (P : list (list R)) : list R -> Prop :=
| span_zero : in_span P (repeat 0 n)
| span_add w p c : in_span P w -> In p P -> in_span P (@zipw AR Rplus w (@vscale AR p c)).

Lemma span_orth (P : list (list R)) (r w : list R) :
  Forall (fun p => length p = n) P -> Forall (fun p => @dot_raw AR r p = 0) P -> in_span P w ->
  length w = n /\ @dot_raw AR r w = 0.
Proof.
  intros Hl Ho. induction 1 as [|w p c Hw (Hwl & Hwo) Hp].
  - split; [apply repeat_length | exact (@dot_raw_zeros_r SAR FLR r n)].
  - rewrite Forall_forall in Hl, Ho. specialize (Hl p Hp). specialize (Ho p Hp). split.
    + apply eq_trans with (length w); [|exact Hwl]. apply (@zipw_length SAR).
      unfold vscale. rewrite map_length. exact (eq_trans Hwl (eq_sym Hl)).
    + assert (E : @dot_raw AR r (@zipw AR Rplus w (@vscale AR p c)) = @dot_raw AR r w + @dot_raw AR r p * c).
      { assert (Hlen : length w = length (@vscale AR p c)).
        { unfold vscale. rewrite map_length. exact (eq_trans Hwl (eq_sym Hl)). }
        etransitivity; [exact (@dot_raw_add_r SAR FLR r w (@vscale AR p c) Hlen)|].
        apply (f_equal (Rplus (@dot_raw AR r w))). exact (@dot_raw_scale_r SAR FLR r p c). }
      rewrite E, Hwo, Ho. lra.
Qed.

Lemma vscale_one_R (w : list R) : @vscale AR w 1 = w.
Proof. unfold vscale. induction w as [|a w IH]; [reflexivity|]. cbn [map]. rewrite IH. f_equal. cbn. lra. Qed.

(* at every state of a run the iterate is A-norm optimal over x + span(p_0 .. p_{k-1}) -- i.e. over
   x0 + span of all search directions used so far: no combination of them improves the error *)
Theorem cg_krylov_optimal_R s0 i s Rs Ps (b xs w : list R) :
  PosSemi n mulA -> length xs = n -> length b = n -> mulA xs = Ok b ->
  @cg_state_inv SAR n mulA s0 i s Rs Ps -> @tracks SAR mulA b (cg_x s) (cg_r s) ->
  in_span Ps w ->
  err xs (cg_x s) <= err xs (@zipw AR Rplus (cg_x s) w).
Proof.
  intros PSD Hxs Hb Exs HI (ax & Eax & Er) Hw.
  destruct HI as ((Hx & Hr & Hp & Hz) & _ & _ & Hc).
  assert (Hfacts : Forall (fun p => length p = n) Ps /\ Forall (fun p => @dot_raw AR (cg_r s) p = 0) Ps).
  { destruct Hc as [(_ & _ & _ & ->)|(_ & HI)]; [split; constructor|].
    destruct HI as (_ & _ & _ & HlP & _ & I1 & _). split; [exact HlP | exact I1]. }
  destruct Hfacts as (HlP & Ho).
  destruct (span_orth Ps (cg_r s) w HlP Ho Hw) as (Hwl & Hwo).
  destruct (@lo_ok AR n mulA LO w Hwl) as (aw & Eaw & Hawl).
  pose proof (@anorm2_line SAR FLR n mulA LO SYM b xs (cg_x s) ax w aw 1 Hxs Hx Hwl Hb Exs Eax Eaw) as E.
  assert (E' : err xs (@zipw AR Rplus (cg_x s) w) =
               err xs (cg_x s) - (1 + 1) * @dot_raw AR (cg_r s) w + 1 * 1 * @dot_raw AR w aw).
  { rewrite <- (vscale_one_R w) at 1. etransitivity; [exact E|]. cbn [SA SAR] in Er |- *. rewrite <- Er.
    reflexivity. }
  rewrite E', Hwo. pose proof (PSD w aw Hwl Eaw). lra.
Qed.


(* ---- symmetric, not necessarily definite: breakdown or termination, nothing else ---- *)
(* A symmetric (possibly indefinite or singular), tol >= 0, budget >= n: if solve_cg returns at all (in exact
   arithmetic a breakdown division is a panic), it returns Ok k with k <= n -- it can neither exhaust its
   budget nor need more than n iterations *)
Theorem cg_no_breakdown_terminates_R cols (b x0 : list R) max tol res x g :
  0 <= tol -> (n <= max)%nat ->
  @solve_cg SAR mulA n cols b x0 max tol = Ok (res, x, g) ->
  exists k, res = IOk k /\ (k <= n)%nat.
Proof.
  intros Htol Hmax H.
  destruct (solve_cg_cases _ _ _ _ _ _ H) as (ax & r0 & resid & Hb & Hx0 & Eax & Er0 & Hr0 & Hpos & Eres & Hcase).
  destruct Hcase as [(_ & X & E)|(Ht0 & Hloop)].
  { injection E as -> _ _. exists 0%nat. split; [reflexivity | lia]. }
  set (s0 := cg_init x0 r0 resid tol) in *.
  set (nb := @nz SAR (@norm2 SAR b)) in *.
  assert (Hl0 : @cg_lens SAR n s0).
  { unfold cg_lens, s0, cg_init; cbn. repeat split; auto; apply (@zeros_length SAR). }
  assert (Hnz0 : @dot_raw AR r0 r0 <> 0).
  { intros Hz0. apply norm2_zero_dot in Hz0. apply R_leb_false in Ht0.
    rewrite Eres, Hz0 in Ht0. lra. }
  set (Inv := fun (i : nat) (s : @cg_st SAR) =>
         exists Rs Ps, @cg_hist SAR (body tol nb) s0 i s Rs Ps /\
                       Forall (fun u => @dot_raw AR u u <> 0) (cg_r s :: Rs)).
  assert (Hbound : forall i s, Inv i s -> (i <= n)%nat).
  { intros i s (Rs & Ps & Hh & Han).
    pose proof (@cg_hist_inv SAR FLR n mulA LO SYM tol nb s0 i s Rs Ps Hl0 Hh) as HI.
    destruct (state_vectors _ _ _ _ _ HI) as (Hlens & Hcount & Hi1).
    destruct (@cg_hist_conjugacy SAR FLR n mulA LO SYM tol nb s0 i s Rs Ps Hl0 Hh) as (Horth & _).
    pose proof (@orth_family_bound SAR FLR n (cg_r s :: Rs) Hlens Horth Han). lia. }
  assert (Hstep : forall i s s', Inv i s -> body tol nb i s = Ok (Continue s') -> Inv (S i) s').
  { intros i s s' (Rs & Ps & Hh & Han) Eb.
    exists (cg_r s :: Rs), (cg_p s' :: Ps). split; [econstructor; eauto|]. constructor; auto.
    pose proof (@cg_hist_inv SAR FLR n mulA LO SYM tol nb s0 i s Rs Ps Hl0 Hh) as HI.
    destruct (@cg_body_post SAR FLR n mulA LO SYM tol nb s0 i s Rs Ps _ HI Eb)
      as (x' & r' & p & rho & rs & X & _ & _ & Ers & Eo).
    change (@leb SAR) with R_leb in Eo. destruct (R_leb rs tol) eqn:Et; [discriminate Eo|].
    injection Eo as ->. cbn [cg_r]. intros Hz0. apply norm2_zero_dot in Hz0.
    apply R_leb_false in Et. apply R_div_Ok in Ers as (_ & ->). rewrite Hz0 in Et.
    assert (0 < nb) by exact Hpos. nra. }
  assert (H0 : Inv 1%nat s0).
  { exists [], []. split; [constructor|]. repeat constructor. exact Hnz0. }
  destruct (@iloop_char SAR _ (body tol nb) (@cg_final SAR) Inv Hstep max 1%nat s0 _ H0 Hloop)
    as [(i & s & Hi & HI & Eb)|(s & HI & E)].
  - pose proof (Hbound i s HI) as Hin. destruct HI as (Rs & Ps & Hh & Han).
    pose proof (@cg_hist_inv SAR FLR n mulA LO SYM tol nb s0 i s Rs Ps Hl0 Hh) as HI.
    destruct (@cg_body_post SAR FLR n mulA LO SYM tol nb s0 i s Rs Ps _ HI Eb)
      as (x' & r' & p & rho & rs & X & _ & _ & _ & Eo).
    match type of Eo with _ = (if ?c then _ else _) => destruct c end; [|discriminate Eo].
    injection Eo as -> _ _. exists i. split; [reflexivity | exact Hin].
  - exfalso. pose proof (Hbound _ s HI). lia.
Qed.


(* ---- tol = 0: conjugate gradients as a direct solver ---- *)
Lemma dot_self_zero (v : list R) : @dot_raw AR v v = 0 -> v = repeat 0 (length v).
Proof.
  induction v as [|x v IH]; intros H; [reflexivity|].
  rewrite (@dot_raw_cons SAR AR_FieldLaws) in H. cbn in H.
  pose proof (dot_self_nonneg v) as Hv. cbn [length repeat].
  assert (Hx : x = 0) by nra. assert (Hd : @dot_raw AR v v = 0) by nra.
  rewrite Hx. f_equal. now apply IH.
Qed.

Lemma norm2_zero_vec (v : list R) : @norm2 SAR v = 0 -> v = repeat 0 (length v).
Proof.
  intros H. rewrite norm2_dot in H. apply dot_self_zero.
  apply sqrt_eq_0; auto. apply dot_self_nonneg.
Qed.

Lemma zipw_sub_zero_eq (u v : list R) : length u = length v ->
  @zipw AR Rminus u v = repeat 0 (length u) -> u = v.
Proof.
  revert v; induction u as [|a u IH]; intros [|b v] Hl H; cbn in Hl; try discriminate; auto.
  change (@zipw AR Rminus (a :: u) (b :: v)) with ((a - b) :: @zipw AR Rminus u v) in H.
  cbn [length repeat] in H.
  assert (Hab : a - b = 0) by (now injection H).
  assert (Ht : @zipw AR Rminus u v = repeat 0 (length u)) by (now injection H).
  f_equal; [exact (Rminus_diag_uniq a b Hab)|]. apply IH; auto.
Qed.

Lemma zipw_sub_as_add (u v : list R) : @zipw AR Rminus u v = @zipw AR Rplus u (@vscale AR v (-1)).
Proof.
  revert v; induction u as [|a u IH]; intros [|b v]; try reflexivity.
  cbn. f_equal; [lra|]. apply IH.
Qed.

(* a positive definite operator is injective: the solution is unique *)
Lemma posdef_unique (x xs b : list R) : PosDef n mulA -> length x = n -> length xs = n ->
  mulA x = Ok b -> mulA xs = Ok b -> x = xs.
Proof.
  intros PD Hx Hxs Ex Exs.
  assert (Hb : length b = n) by (eapply (@mulA_len' SAR); eauto).
  set (e := @zipw AR Rminus x xs).
  assert (He : length e = n).
  { apply eq_trans with (length x); [|exact Hx]. apply (@zipw_length SAR). exact (eq_trans Hx (eq_sym Hxs)). }
  assert (Eae : mulA e = Ok (@zipw AR Rminus b b)).
  { unfold e. rewrite !zipw_sub_as_add.
    apply (@lo_add AR n mulA LO); auto.
    - unfold vscale. rewrite map_length. exact Hxs.
    - now apply (@lo_scale AR n mulA LO). }
  apply zipw_sub_zero_eq; [lia|]. fold e. rewrite Hx, <- He.
  destruct (list_eq_dec Req_EM_T e (repeat 0 (length e))) as [E|Hne]; auto.
  exfalso. rewrite He in Hne. pose proof (PD e _ He Eae Hne) as Hpos.
  assert (Ezero : @zipw AR Rminus b b = repeat 0 (length b)) by exact (@zipw_sub_self SAR AR_FieldLaws b).
  rewrite Ezero in Hpos.
  assert (Ed0 : @dot_raw AR e (repeat 0 (length b)) = 0) by exact (@dot_raw_zeros_r SAR AR_FieldLaws e (length b)).
  rewrite Ed0 in Hpos. lra.
Qed.

(* SPD, tol = 0, budget >= n: solve_cg returns the exact solution of A x = b within n iterations -- and it is
   the solution (any xs with A xs = b equals it): agreement with the direct solver, in exact arithmetic *)
Theorem cg_direct_solver_R (b x0 : list R) max :
  PosDef n mulA -> length b = n -> length x0 = n -> (n <= max)%nat ->
  exists k x g, @solve_cg SAR mulA n n b x0 max 0 = Ok (IOk k, x, g) /\ (k <= n)%nat /\ mulA x = Ok b /\
    forall xs, length xs = n -> mulA xs = Ok b -> xs = x.
Proof.
  intros PD Hb Hx Hmax.
  destruct (cg_terminates_spd_R b x0 max 0 PD Hb Hx (Rle_refl 0) Hmax) as (k & x & g & H & Hk).
  exists k, x, g. split; auto. split; auto.
  assert (Hxl : length x = n).
  { change (@solve_cg SAR mulA n n b x0 max 0) with (@run SAR mulA mulA n n CG b x0 max 0) in H.
    apply run_length in H. exact (eq_trans H Hx). }
  assert (Eax : mulA x = Ok b).
  { change (@solve_cg SAR mulA n n b x0 max 0) with (@run SAR mulA mulA n n CG b x0 max 0) in H.
    destruct (run_ok_solved_R n mulA mulA LO n CG b x0 max 0 k x g H) as (ax & Eax & Hle).
    assert (Hax : length ax = n) by (eapply (@mulA_len' SAR); eauto).
    rewrite Rmult_0_l in Hle.
    assert (Hz : @norm2 SAR (@zipw AR Rminus b ax) = 0) by (pose proof (norm2_R_nonneg (@zipw AR Rminus b ax)); lra).
    apply norm2_zero_vec in Hz.
    assert (Hl : length (@zipw AR Rminus b ax) = length b)
      by (apply (@zipw_length SAR); exact (eq_trans Hb (eq_sym Hax))).
    assert (Hz' : @zipw AR Rminus b ax = repeat 0 (length b)).
    { etransitivity; [exact Hz|]. f_equal. exact Hl. }
    apply zipw_sub_zero_eq in Hz'; [|exact (eq_trans Hb (eq_sym Hax))]. now rewrite Hz'. }
  split; auto. intros xs Hxs Exs. symmetry. eapply posdef_unique; eauto.
Qed.

End CGReal.
