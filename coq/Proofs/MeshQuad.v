(* Proofs/MeshQuad.v -- the quadrature methods of Mesh1D<f64,f64> / Mesh2D<f64> over R:
   Mesh1D::trapezium and Mesh2D::trapezium (Model/Mesh.v: trapezium1, trapezium2) return the sum
   of the cell contributions without any out-of-range access, and are exact for nodal data
   sampled from an affine (1-D) resp. bilinear (2-D) function -- on ANY node list (no ordering or
   uniformity of the nodes is needed: the identities are purely algebraic). *)
From Coq Require Import List Arith Lia Bool Reals Lra.
From OV Require Import Base.Panic.
From OV Require Import Base.Arith.
From OV Require Import Model.Vector.
From OV Require Import Model.Mesh.
From OV Require Import Proofs.MeshBase.
Import ListNotations.
Local Open Scope R_scope.

Notation sumR := (@sum_n AR).

(* ------------------------------------------------------------------ sums over R *)

Lemma sumR_0 f : sumR 0 f = 0.
Proof. reflexivity. Qed.

Lemma sumR_S n f : sumR (S n) f = sumR n f + f n.
Proof. reflexivity. Qed.

Lemma sumR_ext n (f g : nat -> R) :
  (forall k, (k < n)%nat -> f k = g k) -> sumR n f = sumR n g.
Proof. exact (@sum_n_ext AR n f g). Qed.

(* telescoping *)
Lemma sumR_telescope (g : nat -> R) n :
  sumR n (fun k => g (k + 1)%nat - g k) = g n - g 0%nat.
Proof.
  induction n as [|n IH].
  - rewrite sumR_0. lra.
  - rewrite sumR_S, IH. replace (n + 1)%nat with (S n) by lia. lra.
Qed.

(* linearity *)
Lemma sumR_lin2 (al be : R) (f g : nat -> R) n :
  sumR n (fun k => al * f k + be * g k) = al * sumR n f + be * sumR n g.
Proof.
  induction n as [|n IH].
  - rewrite !sumR_0. lra.
  - rewrite !sumR_S, IH. lra.
Qed.

Lemma sumR_scal (al : R) (f : nat -> R) n :
  sumR n (fun k => al * f k) = al * sumR n f.
Proof.
  induction n as [|n IH].
  - rewrite !sumR_0. lra.
  - rewrite !sumR_S, IH. lra.
Qed.

Lemma sumR_plus (f g : nat -> R) n :
  sumR n (fun k => f k + g k) = sumR n f + sumR n g.
Proof.
  induction n as [|n IH].
  - rewrite !sumR_0. lra.
  - rewrite !sumR_S, IH. lra.
Qed.

(* a loop whose every iteration adds f k to the running sum computes s0 + sum f *)
Lemma for_sum (body : nat -> R -> res R) (f : nat -> R) n s0 :
  (forall k s, (k < n)%nat -> body k s = Ok (s + f k)) ->
  for_ 0 n body s0 = Ok (s0 + sumR n f).
Proof.
  intros H.
  destruct (for_inv (fun i s => s = s0 + sumR i f) 0 n body s0) as (s' & E & Hs).
  - lia.
  - rewrite sumR_0. lra.
  - intros i s Hi ->. eexists; split; [apply H; lia|]. rewrite sumR_S. lra.
  - now rewrite E, Hs.
Qed.

(* ------------------------------------------------------------------ checked accesses under wf *)

Lemma var_at_ok (vs : list (list R)) nv k var :
  Forall (fun r => length r = nv) vs -> (k < length vs)%nat -> (var < nv)%nat ->
  @var_at AR vs k var = Ok (nth var (nth k vs []) 0).
Proof.
  intros HF Hk Hv. unfold var_at. change (T AR) with R. rewrite (rd_ok vs k []) by exact Hk. cbn [bind].
  apply rd_ok. rewrite Forall_forall in HF. rewrite (HF (nth k vs [])); auto.
  apply nth_In; exact Hk.
Qed.

(* ------------------------------------------------------------------ Mesh1D::trapezium *)
(* node k and the value of variable var at node k (0 outside the range) *)
Definition node1 (m : mesh1 AR R) (k : nat) : R := nth k (m1_nodes m) 0.
Definition val1 (m : mesh1 AR R) (var k : nat) : R := nth var (nth k (m1_vars m) []) 0.

Section Trap1.
Variable m : mesh1 AR R.
Variable var : nat.
Notation xs := (node1 m).
Notation v := (val1 m var).

Lemma trap1_cell_ok half k :
  wf1 m -> (var < m1_nvars m)%nat -> (k + 1 < length (m1_nodes m))%nat ->
  trap1_cell half m var k = Ok (half * (xs (k + 1) - xs k) * (v k + v (k + 1))).
Proof.
  intros [Hlen HF] Hv Hk. unfold trap1_cell. change (T AR) with R in *.
  rewrite (rd_ok (m1_nodes m) (k + 1) 0) by exact Hk. cbn [bind].
  rewrite (rd_ok (m1_nodes m) k 0) by lia. cbn [bind].
  rewrite (var_at_ok _ (m1_nvars m)); [|exact HF|lia|exact Hv]. cbn [bind].
  rewrite (var_at_ok _ (m1_nvars m)); [|exact HF|lia|exact Hv]. cbn [bind].
  reflexivity.
Qed.

(* Q1: the trapezium rule is the sum of the cell contributions; no access out of range *)
Lemma trapezium1_cells half :
  wf1 m -> (var < m1_nvars m)%nat -> (1 <= length (m1_nodes m))%nat ->
  trapezium1 half m var =
    Ok (sumR (length (m1_nodes m) - 1)
          (fun k => half * (xs (k + 1) - xs k) * (v k + v (k + 1)))).
Proof.
  intros Hwf Hv Hn. unfold trapezium1, usub. change (T AR) with R in *.
  destruct (Nat.leb_spec 1 (length (m1_nodes m))) as [_|]; [|lia]. cbn [bind].
  rewrite (for_sum _ (fun k => half * (xs (k + 1) - xs k) * (v k + v (k + 1)))).
  - f_equal. change (@zero AR) with 0. lra.
  - intros k s Hk. rewrite trap1_cell_ok by (auto; lia). reflexivity.
Qed.

(* the empty mesh: `self.nodes.size() - 1` underflows (debug profile) *)
Lemma trapezium1_empty half :
  length (m1_nodes m) = 0%nat -> trapezium1 half m var = Panic Underflow.
Proof. intros H. unfold trapezium1, usub. change (T AR) with R in *. rewrite H. reflexivity. Qed.

(* Q2: exact on affine data, on any node list *)
Lemma trapezium1_linear_exact a b :
  wf1 m -> (var < m1_nvars m)%nat -> (1 <= length (m1_nodes m))%nat ->
  (forall k, (k < length (m1_nodes m))%nat -> v k = a * xs k + b) ->
  @trapezium1 AR halfR m var =
    Ok (a * (xs (length (m1_nodes m) - 1) * xs (length (m1_nodes m) - 1) - xs 0%nat * xs 0%nat) / 2
        + b * (xs (length (m1_nodes m) - 1) - xs 0%nat)).
Proof.
  intros Hwf Hv Hn Hlin. rewrite trapezium1_cells by assumption. f_equal.
  set (G := fun k => a * (xs k * xs k) / 2 + b * xs k).
  rewrite (sumR_ext _ _ (fun k => G (k + 1)%nat - G k)).
  - rewrite sumR_telescope. unfold G. lra.
  - intros k Hk. rewrite !Hlin by lia. unfold G, halfR. lra.
Qed.

End Trap1.

(* ------------------------------------------------------------------ Mesh2D::trapezium *)
(* node coordinates and the value of variable var at node (i,j) (0 outside the range) *)
Definition nodex2 (m : mesh2 AR R) (i : nat) : R := nth i (m2_x m) 0.
Definition nodey2 (m : mesh2 AR R) (j : nat) : R := nth j (m2_y m) 0.
Definition val2 (m : mesh2 AR R) (var i j : nat) : R :=
  nth var (nth (i * m2_ny m + j) (m2_vars m) []) 0.
(* the contribution of cell (i,j) *)
Definition cell2 (quarter : R) (m : mesh2 AR R) (var i j : nat) : R :=
  quarter * (nodex2 m (i + 1) - nodex2 m i) * (nodey2 m (j + 1) - nodey2 m j)
  * (val2 m var i j + val2 m var (i + 1) j + val2 m var i (j + 1) + val2 m var (i + 1) (j + 1)).

Section Trap2.
Variable m : mesh2 AR R.
Variable var : nat.

Lemma trap2_cell_ok quarter i j :
  wf2 m -> (var < m2_nvars m)%nat -> (i + 1 < m2_nx m)%nat -> (j + 1 < m2_ny m)%nat ->
  @trap2_cell AR quarter (fun v => v) m var i j (nodex2 m (i + 1) - nodex2 m i) =
    Ok (cell2 quarter m var i j).
Proof.
  intros (Hx & Hy & Hlen & HF) Hv Hi Hj. unfold trap2_cell. change (T AR) with R in *.
  rewrite (rd_ok (m2_y m) (j + 1) 0) by lia. cbn [bind].
  rewrite (rd_ok (m2_y m) j 0) by lia. cbn [bind].
  assert (Hb : ((i + 1) * m2_ny m + j + 1 < length (m2_vars m))%nat) by (change (T AR) with R; rewrite Hlen; nia).
  change (T AR) with R in Hb.
  rewrite (var_at_ok _ (m2_nvars m)); [|exact HF|nia|exact Hv]. cbn [bind].
  rewrite (var_at_ok _ (m2_nvars m)); [|exact HF|nia|exact Hv]. cbn [bind].
  rewrite (var_at_ok _ (m2_nvars m)); [|exact HF|nia|exact Hv]. cbn [bind].
  rewrite (var_at_ok _ (m2_nvars m)); [|exact HF|nia|exact Hv]. cbn [bind].
  unfold cell2, val2, nodey2.
  replace (i * m2_ny m + (j + 1))%nat with (i * m2_ny m + j + 1)%nat by lia.
  replace ((i + 1) * m2_ny m + (j + 1))%nat with ((i + 1) * m2_ny m + j + 1)%nat by lia.
  reflexivity.
Qed.

(* Q3: the 2-D trapezium rule is the double sum of the cell contributions (the code keeps ONE
   running sum across both loops; over R it equals the nested sum); no access out of range *)
Lemma trapezium2_cells quarter :
  wf2 m -> (var < m2_nvars m)%nat -> (1 <= m2_nx m)%nat -> (1 <= m2_ny m)%nat ->
  trapezium2 quarter m var =
    Ok (sumR (m2_nx m - 1) (fun i => sumR (m2_ny m - 1) (fun j => cell2 quarter m var i j))).
Proof.
  intros Hwf Hv Hnx Hny. pose proof Hwf as (Hx & Hy & Hlen & HF).
  unfold trapezium2, trap2_gen, usub. change (T AR) with R in *.
  destruct (Nat.leb_spec 1 (m2_nx m)) as [_|]; [|lia]. cbn [bind].
  rewrite (for_sum _ (fun i => sumR (m2_ny m - 1) (fun j => cell2 quarter m var i j))).
  - f_equal. change (@zero AR) with 0. lra.
  - intros i s Hi.
    rewrite (rd_ok (m2_x m) (i + 1) 0) by lia. cbn [bind].
    rewrite (rd_ok (m2_x m) i 0) by lia. cbn [bind].
    destruct (Nat.leb_spec 1 (m2_ny m)) as [_|]; [|lia]. cbn [bind].
    apply for_sum. intros j t Hj.
    change (@sub AR) with Rminus.
    pose proof (trap2_cell_ok quarter i j Hwf Hv ltac:(lia) ltac:(lia)) as E.
    unfold nodex2 in E at 1 2. change (T AR) with R in E. rewrite E. reflexivity.
Qed.

Lemma trapezium2_empty_x quarter :
  m2_nx m = 0%nat -> trapezium2 quarter m var = Panic Underflow.
Proof.
  intros H. unfold trapezium2, trap2_gen, usub. change (T AR) with R in *. rewrite H. reflexivity. Qed.

(* Q4: exact on bilinear data, on any pair of node lists *)
Lemma trapezium2_bilinear_exact a b c d :
  wf2 m -> (var < m2_nvars m)%nat -> (1 <= m2_nx m)%nat -> (1 <= m2_ny m)%nat ->
  (forall i j, (i < m2_nx m)%nat -> (j < m2_ny m)%nat ->
     val2 m var i j = a + b * nodex2 m i + c * nodey2 m j + d * nodex2 m i * nodey2 m j) ->
  let x0 := nodex2 m 0 in let xl := nodex2 m (m2_nx m - 1) in
  let y0 := nodey2 m 0 in let yl := nodey2 m (m2_ny m - 1) in
  let DX := xl - x0 in let SX := (xl * xl - x0 * x0) / 2 in
  let DY := yl - y0 in let SY := (yl * yl - y0 * y0) / 2 in
  @trapezium2 AR quarterR m var = Ok (a * DX * DY + b * SX * DY + c * DX * SY + d * SX * SY).
Proof.
  intros Hwf Hv Hnx Hny Hbil x0 xl y0 yl DX SX DY SY.
  rewrite trapezium2_cells by assumption. f_equal.
  set (dx := fun i => nodex2 m (i + 1) - nodex2 m i).
  set (sx := fun i => nodex2 m (i + 1) * nodex2 m (i + 1) / 2 - nodex2 m i * nodex2 m i / 2).
  set (dy := fun j => nodey2 m (j + 1) - nodey2 m j).
  set (sy := fun j => nodey2 m (j + 1) * nodey2 m (j + 1) / 2 - nodey2 m j * nodey2 m j / 2).
  assert (EDX : sumR (m2_nx m - 1) dx = DX).
  { unfold dx. rewrite (sumR_telescope (nodex2 m)). reflexivity. }
  assert (ESX : sumR (m2_nx m - 1) sx = SX).
  { unfold sx. rewrite (sumR_telescope (fun i => nodex2 m i * nodex2 m i / 2)).
    unfold SX, xl, x0. lra. }
  assert (EDY : sumR (m2_ny m - 1) dy = DY).
  { unfold dy. rewrite (sumR_telescope (nodey2 m)). reflexivity. }
  assert (ESY : sumR (m2_ny m - 1) sy = SY).
  { unfold sy. rewrite (sumR_telescope (fun j => nodey2 m j * nodey2 m j / 2)).
    unfold SY, yl, y0. lra. }
  rewrite (sumR_ext _ _ (fun i => (a * DY + c * SY) * dx i + (b * DY + d * SY) * sx i)).
  - rewrite sumR_lin2, EDX, ESX. lra.
  - intros i Hi.
    rewrite (sumR_ext _ _ (fun j => (a * dx i + b * sx i) * dy j + (c * dx i + d * sx i) * sy j)).
    + rewrite sumR_lin2, EDY, ESY. lra.
    + intros j Hj. unfold cell2. rewrite !Hbil by lia.
      unfold dx, sx, dy, sy, quarterR. field.
Qed.

End Trap2.

(* ------------------------------------------------------------------ non-vacuity *)
(* a non-uniform 3-node mesh carrying 2x+1: the hypotheses of trapezium1_linear_exact hold and the
   result is the integral over [0,3] *)
Definition ex_mesh1 : mesh1 AR R := mkM1 (A:=AR) 1 [0; 1; 3] [[1]; [3]; [7]].

Example trapezium1_linear_exact_nonvacuous :
  wf1 ex_mesh1 /\ (0 < m1_nvars ex_mesh1)%nat /\ (1 <= length (m1_nodes ex_mesh1))%nat /\
  (forall k, (k < length (m1_nodes ex_mesh1))%nat -> val1 ex_mesh1 0 k = 2 * node1 ex_mesh1 k + 1) /\
  @trapezium1 AR halfR ex_mesh1 0 = Ok 12.
Proof.
  assert (Hwf : wf1 ex_mesh1) by (split; [reflexivity | repeat constructor]).
  assert (Hlin : forall k, (k < length (m1_nodes ex_mesh1))%nat ->
                           val1 ex_mesh1 0 k = 2 * node1 ex_mesh1 k + 1).
  { intros [|[|[|k]]] Hk; unfold val1, node1; cbn in *; try lra; lia. }
  repeat split; try exact Hlin; try (cbn; lia); try apply Hwf.
  rewrite (trapezium1_linear_exact ex_mesh1 0 2 1); [|exact Hwf|cbn; lia|cbn; lia|exact Hlin].
  f_equal. unfold node1. cbn. lra.
Qed.

(* a 2 x 3 non-uniform grid carrying 1 + 2x + 3y + 4xy *)
Definition ex_mesh2 : mesh2 AR R :=
  mkM2 (A:=AR) 1 2 3 [0; 2] [0; 1; 3] [[1]; [4]; [10]; [5]; [16]; [38]].

Example trapezium2_bilinear_exact_nonvacuous :
  wf2 ex_mesh2 /\ (0 < m2_nvars ex_mesh2)%nat /\ (1 <= m2_nx ex_mesh2)%nat /\
  (1 <= m2_ny ex_mesh2)%nat /\
  (forall i j, (i < m2_nx ex_mesh2)%nat -> (j < m2_ny ex_mesh2)%nat ->
     val2 ex_mesh2 0 i j = 1 + 2 * nodex2 ex_mesh2 i + 3 * nodey2 ex_mesh2 j
                         + 4 * nodex2 ex_mesh2 i * nodey2 ex_mesh2 j) /\
  @trapezium2 AR quarterR ex_mesh2 0 = Ok 81.
Proof.
  assert (Hwf : wf2 ex_mesh2) by (repeat split; repeat constructor).
  assert (Hbil : forall i j, (i < m2_nx ex_mesh2)%nat -> (j < m2_ny ex_mesh2)%nat ->
     val2 ex_mesh2 0 i j = 1 + 2 * nodex2 ex_mesh2 i + 3 * nodey2 ex_mesh2 j
                         + 4 * nodex2 ex_mesh2 i * nodey2 ex_mesh2 j).
  { intros [|[|i]] [|[|[|j]]] Hi Hj; unfold val2, nodex2, nodey2; cbn in *; try lra; lia. }
  repeat split; try exact Hbil; try (cbn; lia); try apply Hwf.
  rewrite (trapezium2_bilinear_exact ex_mesh2 0 1 2 3 4);
    [|exact Hwf|cbn; lia|cbn; lia|cbn; lia|exact Hbil].
  f_equal. unfold nodex2, nodey2. cbn. lra.
Qed.
