(* Proofs/GuardsModelMesh.v -- C20 entry contracts of the mesh family (5 guarded entries of src/mesh1d.rs, src/mesh2d.rs)
   on the model functions of Model/Mesh.v.  Any arithmetic, any coordinate type.
   Mesh2D peculiarity (stated, not hidden): the range test is written `nodex > self.nx - 1 || nodey > self.ny - 1`
   with usize subtraction.  On a mesh with no node in the direction tested (nx = 0, or nx > 0, nodex in range and
   ny = 0) the subtraction itself panics (debug profile: Panic Underflow) before the comparison; on every mesh with
   nodes in both directions the rejection is the explicit guard.  Either way the call returns nothing. *)
From Coq Require Import ZArith Bool Lia ZifyBool List Arith.
From OV Require Import Base.Panic Base.Arith Model.Vector Model.Matrix Model.Mesh gen.GuardTable Model.Guards
  Proofs.Guards Proofs.GuardsModelBase Proofs.MeshBase Proofs.MeshStore.
Import ListNotations.

Section MeshContracts.
Context {A : Arith} {X : Type}.
Notation T := (T A).
Notation mesh1 := (mesh1 A X).
Notation mesh2 := (mesh2 A X).

Notation Zn n := (Z.of_nat n).
Notation Zl l := (Z.of_nat (length l)).

(* ---------------- Mesh1D ---------------- *)
Lemma rejects_mesh1_set_nodes_vars (m : mesh1) node (v : list T) :
  g_mesh1_set_nodes_vars (Zl (m1_nodes m)) (Zn (m1_nvars m)) (Zn node) (Zl v) = true ->
  set_nodes_vars1 m node v = Panic Guard.
Proof.
  intros H. g_true H guard_mesh1_set_nodes_vars_lemma ok_mesh1_set_nodes_vars.
  apply set_nodes_vars1_guard. unfold nnodes1. lia.
Qed.
Lemma accepts_mesh1_set_nodes_vars (m : mesh1) node (v : list T) : wf1 m ->
  g_mesh1_set_nodes_vars (Zl (m1_nodes m)) (Zn (m1_nvars m)) (Zn node) (Zl v) = false ->
  exists m', set_nodes_vars1 m node v = Ok m'.
Proof.
  intros W H. g_false H guard_mesh1_set_nodes_vars_lemma ok_mesh1_set_nodes_vars.
  destruct (mesh1_get_set m node v W) as (m' & E & _); [unfold nnodes1; lia | lia |]. eauto.
Qed.
Lemma frame_mesh1_set_nodes_vars (m : mesh1) node (v : list T) m' : wf1 m -> set_nodes_vars1 m node v = Ok m' ->
  wf1 m' /\ m1_nodes m' = m1_nodes m /\ m1_nvars m' = m1_nvars m /\
  get_nodes_vars1 m' node = Ok v /\
  forall node', node' < length (m1_nodes m) -> node' <> node -> get_nodes_vars1 m' node' = get_nodes_vars1 m node'.
Proof.
  intros W E.
  destruct (Nat.lt_ge_cases node (nnodes1 m)) as [Hn|Hn];
    [|rewrite set_nodes_vars1_guard in E by auto; discriminate].
  destruct (Nat.eq_dec (length v) (m1_nvars m)) as [Hl|Hl];
    [|rewrite set_nodes_vars1_guard in E by auto; discriminate].
  destruct (mesh1_get_set m node v W Hn Hl) as (m1 & E1 & W1 & N1 & V1 & G1 & _).
  rewrite E1 in E. injection E as <-.
  split; [exact W1|]. split; [exact N1|]. split; [exact V1|]. split.
  - rewrite G1 by exact Hn. now rewrite Nat.eqb_refl.
  - intros node' Hn' Hne. rewrite G1 by exact Hn'. destruct (Nat.eqb_spec node node'); [lia|reflexivity].
Qed.

Lemma rejects_mesh1_get_nodes_vars (m : mesh1) node :
  g_mesh1_get_nodes_vars (Zl (m1_nodes m)) (Zn (m1_nvars m)) (Zn node) = true -> get_nodes_vars1 m node = Panic Guard.
Proof.
  intros H. g_true H guard_mesh1_get_nodes_vars_lemma ok_mesh1_get_nodes_vars.
  apply get_nodes_vars1_guard. unfold nnodes1. lia.
Qed.
Lemma accepts_mesh1_get_nodes_vars (m : mesh1) node : wf1 m ->
  g_mesh1_get_nodes_vars (Zl (m1_nodes m)) (Zn (m1_nvars m)) (Zn node) = false ->
  exists v, get_nodes_vars1 m node = Ok v /\ length v = m1_nvars m.
Proof.
  intros W H. g_false H guard_mesh1_get_nodes_vars_lemma ok_mesh1_get_nodes_vars.
  assert (Hn : node < nnodes1 m) by (unfold nnodes1; lia).
  rewrite get_nodes_vars1_index1 by exact Hn. destruct (index1_ok m node W Hn) as (E & L). eauto.
Qed.

(* ---------------- Mesh2D ---------------- *)
(* how a Mesh2D range rejection can look: the explicit guard, or -- only on a mesh with an empty direction -- the
   checked `nx - 1` / `ny - 1` *)
Definition guard_or_empty_underflow (m : mesh2) (k : pkind) : Prop :=
  k = Guard \/ (k = Underflow /\ (m2_nx m = 0 \/ m2_ny m = 0)).

Lemma range_guard2_rejects (m : mesh2) i j : m2_nx m <= i \/ m2_ny m <= j ->
  exists k, range_guard2 m i j = Panic k /\ guard_or_empty_underflow m k.
Proof.
  intros H. unfold range_guard2, usub, guard_or_empty_underflow.
  destruct (Nat.leb_spec 1 (m2_nx m)) as [Hx|Hx]; cbn [bind]; [|eexists; split; [reflexivity|right; split; [reflexivity|lia]]].
  destruct (Nat.ltb_spec (m2_nx m - 1) i) as [Hi|Hi]; [eauto|].
  destruct (Nat.leb_spec 1 (m2_ny m)) as [Hy|Hy]; cbn [bind]; [|eexists; split; [reflexivity|right; split; [reflexivity|lia]]].
  destruct (Nat.ltb_spec (m2_ny m - 1) j) as [Hj|Hj]; [eauto|]. lia.
Qed.

Lemma rejects_mesh2_set_nodes_vars (m : mesh2) i j (v : list T) :
  g_mesh2_set_nodes_vars (Zn (m2_nx m)) (Zn (m2_ny m)) (Zn (m2_nvars m)) (Zn i) (Zn j) (Zl v) = true ->
  exists k, set_nodes_vars2 m i j v = Panic k /\ guard_or_empty_underflow m k.
Proof.
  intros H. g_true H guard_mesh2_set_nodes_vars_lemma ok_mesh2_set_nodes_vars.
  destruct (Nat.lt_ge_cases i (m2_nx m)) as [Hi|Hi]; [destruct (Nat.lt_ge_cases j (m2_ny m)) as [Hj|Hj]|].
  - exists Guard. split; [|left; reflexivity]. apply set_nodes_vars2_guard_len; auto. lia.
  - destruct (range_guard2_rejects m i j) as (k & E & Hk); [auto|].
    exists k. unfold set_nodes_vars2. rewrite E. auto.
  - destruct (range_guard2_rejects m i j) as (k & E & Hk); [auto|].
    exists k. unfold set_nodes_vars2. rewrite E. auto.
Qed.
Lemma accepts_mesh2_set_nodes_vars (m : mesh2) i j (v : list T) : wf2 m ->
  g_mesh2_set_nodes_vars (Zn (m2_nx m)) (Zn (m2_ny m)) (Zn (m2_nvars m)) (Zn i) (Zn j) (Zl v) = false ->
  exists m', set_nodes_vars2 m i j v = Ok m'.
Proof.
  intros W H. g_false H guard_mesh2_set_nodes_vars_lemma ok_mesh2_set_nodes_vars.
  destruct (mesh2_get_set m i j v W) as (m' & E & _); [lia..|]. eauto.
Qed.
Lemma frame_mesh2_set_nodes_vars (m : mesh2) i j (v : list T) m' : wf2 m -> set_nodes_vars2 m i j v = Ok m' ->
  wf2 m' /\ shape2_eq m' m /\
  get_nodes_vars2 m' i j = Ok v /\
  forall i' j', i' < m2_nx m -> j' < m2_ny m -> (i', j') <> (i, j) -> get_nodes_vars2 m' i' j' = get_nodes_vars2 m i' j'.
Proof.
  intros W E.
  assert (Hr : i < m2_nx m /\ j < m2_ny m).
  { destruct (Nat.lt_ge_cases i (m2_nx m)) as [Hi|Hi]; [destruct (Nat.lt_ge_cases j (m2_ny m)) as [Hj|Hj]; [auto|]|].
    - destruct (range_guard2_rejects m i j) as (k & Ek & _); [auto|].
      unfold set_nodes_vars2 in E. rewrite Ek in E. discriminate.
    - destruct (range_guard2_rejects m i j) as (k & Ek & _); [auto|].
      unfold set_nodes_vars2 in E. rewrite Ek in E. discriminate. }
  destruct Hr as [Hi Hj].
  destruct (Nat.eq_dec (length v) (m2_nvars m)) as [Hl|Hl];
    [|rewrite set_nodes_vars2_guard_len in E by auto; discriminate].
  destruct (mesh2_get_set m i j v W Hi Hj Hl) as (m1 & E1 & W1 & S1 & G1 & _).
  rewrite E1 in E. injection E as <-.
  split; [exact W1|]. split; [exact S1|]. split.
  - rewrite G1 by auto. now rewrite !Nat.eqb_refl.
  - intros i' j' Hi' Hj' Hne. rewrite G1 by auto.
    destruct (Nat.eqb_spec i i'); destruct (Nat.eqb_spec j j'); cbn [andb]; try reflexivity. subst; contradiction.
Qed.

Lemma rejects_mesh2_get_nodes_vars (m : mesh2) i j :
  g_mesh2_get_nodes_vars (Zn (m2_nx m)) (Zn (m2_ny m)) (Zn i) (Zn j) = true ->
  exists k, get_nodes_vars2 m i j = Panic k /\ guard_or_empty_underflow m k.
Proof.
  intros H. g_true H guard_mesh2_get_nodes_vars_lemma ok_mesh2_get_nodes_vars.
  destruct (range_guard2_rejects m i j) as (k & E & Hk); [lia|].
  exists k. unfold get_nodes_vars2. rewrite E. auto.
Qed.
Lemma accepts_mesh2_get_nodes_vars (m : mesh2) i j : wf2 m ->
  g_mesh2_get_nodes_vars (Zn (m2_nx m)) (Zn (m2_ny m)) (Zn i) (Zn j) = false ->
  exists v, get_nodes_vars2 m i j = Ok v /\ length v = m2_nvars m.
Proof.
  intros W H. g_false H guard_mesh2_get_nodes_vars_lemma ok_mesh2_get_nodes_vars.
  destruct (get_nodes_vars2_ok m i j W) as (E & L); [lia..|]. eauto.
Qed.

Lemma rejects_mesh2_var_as_matrix (m : mesh2) var :
  g_mesh2_var_as_matrix (Zn (m2_nx m)) (Zn (m2_ny m)) (Zn (m2_nvars m)) (Zn var) = true ->
  var_as_matrix m var = Panic Guard.
Proof.
  intros H. g_true H guard_mesh2_var_as_matrix_lemma ok_mesh2_var_as_matrix.
  apply var_as_matrix_guard. lia.
Qed.
Lemma accepts_mesh2_var_as_matrix (m : mesh2) var : wf2 m ->
  g_mesh2_var_as_matrix (Zn (m2_nx m)) (Zn (m2_ny m)) (Zn (m2_nvars m)) (Zn var) = false ->
  exists M, var_as_matrix m var = Ok M /\ rows M = m2_nx m /\ cols M = m2_ny m /\ length (buf M) = m2_nx m * m2_ny m.
Proof.
  intros W H. g_false H guard_mesh2_var_as_matrix_lemma ok_mesh2_var_as_matrix.
  destruct (var_as_matrix_spec m var W) as (M & E & R & C & L & _); [lia|]. eauto 6.
Qed.

End MeshContracts.
