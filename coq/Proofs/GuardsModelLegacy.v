(* Proofs/GuardsModelLegacy.v -- the entry contracts of C20 distinguish the repaired code from the two pre-repair
   functions that had a guard / range defect (kept in the models as set_col_legacy and tmul_legacy):
     set_col (guard compared the column with the number of ROWS): on a 2x3 matrix column 2 is in range -- the
       regenerated guard does not fire -- yet the legacy function rejects it (accepts_mat_set_col is false of it); on a
       3x2 matrix column 2 is out of range -- the guard fires -- yet the legacy function does not raise the guard panic:
       it runs into the buffer end (Panic Index) after having written two neighbouring entries
       (rejects_mat_set_col is false of it; Legacy/C03Refuted.v shows the writes);
     Tridiagonal * vector at n = 1: conformable -- the guard does not fire -- yet the legacy function reads sup[0]
       (accepts_tri_mul_vec is false of it). *)
From Coq Require Import ZArith List Arith.
From OV Require Import Base.Panic Base.Arith Inst.QcInst Model.Vector Model.Matrix Model.Tridiag gen.GuardTable
  Proofs.Matrix Proofs.Tridiag.
Import ListNotations.

Lemma entry_contract_refutes_legacy_lemma :
  (exists (m : matrix AQ) (col : nat) (v : list AQ), wf m /\
     g_mat_set_col (Z.of_nat (rows m)) (Z.of_nat (cols m)) (Z.of_nat col) (Z.of_nat (length v)) = false /\
     set_col_legacy m col v = Panic Guard /\ is_ok (set_col m col v) = true) /\
  (exists (m : matrix AQ) (col : nat) (v : list AQ), wf m /\
     g_mat_set_col (Z.of_nat (rows m)) (Z.of_nat (cols m)) (Z.of_nat col) (Z.of_nat (length v)) = true /\
     set_col_legacy m col v = Panic Index /\ set_col m col v = Panic Guard) /\
  (exists (t : tridiag AQ) (v : list AQ), wfT t /\ 1 <= tn t /\
     g_tri_mul_vec (Z.of_nat (tn t)) (Z.of_nat (length v)) = false /\
     tmul_legacy t v = Panic Index /\ is_ok (tmul t v) = true).
Proof.
  split; [|split].
  - exists (@mkM AQ [q 1 1; q 2 1; q 3 1; q 4 1; q 5 1; q 6 1] 2 3), 2, [q 9 1; q 8 1].
    split; [reflexivity|]. split; [reflexivity|]. split; [reflexivity|]. vm_compute. reflexivity.
  - exists (@mkM AQ [q 1 1; q 2 1; q 3 1; q 4 1; q 5 1; q 6 1] 3 2), 2, [q 9 1; q 8 1; q 7 1].
    split; [reflexivity|]. split; [reflexivity|]. split; reflexivity.
  - exists (@mkT AQ [] [q 3 2] [] 1), [q (-4) 1].
    split; [unfold wfT; cbn; auto|]. split; [cbn; auto|]. split; [reflexivity|]. split; [reflexivity|].
    vm_compute. reflexivity.
Qed.
