(* Proofs/SrcEqNewton.v -- src/newton.rs (Newton<f64>::solve, Newton<Vec64>::solve, Newton<Vec64>::solve_jacobian) and
   Mat64::jacobian (src/matrix/functions.rs), regenerated from the source of this run as gen/SrcNewton.v, against the
   hand-written instrumented model Model/Newton.v at NReal A (packages C17/C18).

   The model also returns the list of points at which the closures were called (read by nothing in the algorithm).
   ERASURE: for every arithmetic A, every configuration (tol, delta, max_iter, guess) and every closure (any function
   X -> res X: it may panic),
       s_<method> cfg func  =  let* r := <model method> (NReal A) cfg func in Ok (fst r)
   i.e. the regenerated function is the model with the recorded call points projected away, panics included. *)
From Coq Require Import List Arith ZArith Lia Bool.
From OV Require Import Base.Panic Base.Arith Model.Vector Model.Matrix Model.Solve Model.Newton gen.SrcPrelude gen.SrcNewton Proofs.SrcEqBase.
Import ListNotations.

Section SrcEqNewton.
Context {A : Arith}.
Local Notation TA := (T A).

(* `for _ in 0..max_iter { body; if test { return Ok(current) } }  Err(current)` against the model's nloop *)
Lemma for_ret_nloop {X E} (step : X -> res (X * bool * list E)) (b1 : nat -> X -> res (X + nres X)) n lo cur evs :
  (forall i c, b1 i c = let* r := step c in
                        Ok (if snd (fst r) then inr (NOk (fst (fst r))) else inl (fst (fst r)))) ->
  (let* o := for_ret_from n lo b1 cur in match o with inl c => Ok (NErr c) | inr r => Ok r end)
  = (let* r := nloop step n cur evs in Ok (fst r)).
Proof.
  intros Hb. revert lo cur evs; induction n as [|n IH]; intros lo cur evs; cbn [for_ret_from nloop bind]; [reflexivity|].
  rewrite Hb, !bind_assoc. destruct (step cur) as [[[c' stop] e]|k]; cbn [bind fst snd]; [|reflexivity].
  destruct stop; [reflexivity|]. apply IH.
Qed.

Ltac nw_step :=
  match goal with
  | |- ?a = ?b => reflexivity
  | |- context [bind (bind _ _) _] => rewrite !bind_assoc
  | |- context [bind (Ok _) _] => rewrite !bind_Ok_l
  | |- bind ?e _ = bind ?e' _ => unify e e'; apply bind_ext; intros ?
  | |- context [bind (if ?c then _ else _) _] => destruct c eqn:?
  | |- (if ?c then _ else _) = _ => destruct c eqn:?
  | |- _ = (if ?c then _ else _) => destruct c eqn:?
  | |- context [match ?p with pair _ _ => _ end] => is_var p; destruct p
  end.
Ltac nw_eq := repeat nw_step.

Lemma src_newton_solve_f64 (c : ncfg TA TA) (f : TA -> res TA) :
  s_newton_solve_f64 c f = let* r := newton_scalar (NReal A) c f in Ok (fst r).
Proof.
  unfold s_newton_solve_f64, newton_scalar, for_ret. rewrite Nat.sub_0_r.
  apply for_ret_nloop. intros i cur. unfold scalar_step, two. cbn [NReal NA NR emb mag divr]. cbv zeta. nw_eq.
Qed.

(* Mat64::jacobian: the model threads the call points through the loop as a third component *)
Lemma src_jacobian_f64 (point : list TA) (f : list TA -> res (list TA)) (d : TA) :
  s_jacobian_f64 point f d = let* r := jacobian (NReal A) f point d in Ok (fst r).
Proof.
  unfold s_jacobian_f64, jacobian, jacobian_tr. cbv zeta. rewrite !bind_assoc. apply bind_ext; intros f0.
  apply (res_rel_bind (fun (p : list TA * matrix A) (q : list TA * matrix A * list (list TA)) => p = fst q)).
  - apply for_sim; [reflexivity|]. intros i [st jc] [[st' jc'] evs] Hi E. cbn [fst] in E. injection E as <- <-.
    unfold jac_body. cbn [NReal NA].
    repeat match goal with
    | |- res_rel _ (bind ?e _) (bind ?e' _) => unify e e'; destruct e; cbn [bind res_rel]; [|reflexivity]
    end. reflexivity.
  - intros [st jc] [[st' jc'] evs] E. cbn [fst] in E. injection E as <- <-. reflexivity.
Qed.

Lemma src_newton_solve_vec64 (c : ncfg TA (list TA)) (f : list TA -> res (list TA)) :
  s_newton_solve_vec64 c f = let* r := newton_sys (NReal A) c f in Ok (fst r).
Proof.
  unfold s_newton_solve_vec64, newton_sys, for_ret. rewrite Nat.sub_0_r.
  apply for_ret_nloop. intros i cur. unfold sys_step. cbn [NReal NA NR emb mag divr]. cbv zeta. nw_eq.
Qed.

Lemma src_newton_solve_jacobian_vec64 (c : ncfg TA (list TA)) (f : list TA -> res (list TA)) (jac : list TA -> res (matrix A)) :
  s_newton_solve_jacobian_vec64 c f jac = let* r := newton_sysjac (NReal A) c f jac in Ok (fst r).
Proof.
  unfold s_newton_solve_jacobian_vec64, newton_sysjac, for_ret. rewrite Nat.sub_0_r.
  apply for_ret_nloop. intros i cur. unfold sysjac_step. cbn [NReal NA NR emb mag divr]. cbv zeta. nw_eq.
Qed.

Definition model_is_source_Newton : Prop :=
  (forall (c : ncfg TA TA) (f : TA -> res TA),
     s_newton_solve_f64 c f = let* r := newton_scalar (NReal A) c f in Ok (fst r)) /\
  (forall (c : ncfg TA (list TA)) (f : list TA -> res (list TA)),
     s_newton_solve_vec64 c f = let* r := newton_sys (NReal A) c f in Ok (fst r)) /\
  (forall (c : ncfg TA (list TA)) (f : list TA -> res (list TA)) (jac : list TA -> res (matrix A)),
     s_newton_solve_jacobian_vec64 c f jac = let* r := newton_sysjac (NReal A) c f jac in Ok (fst r)) /\
  (forall (point : list TA) (f : list TA -> res (list TA)) (d : TA),
     s_jacobian_f64 point f d = let* r := jacobian (NReal A) f point d in Ok (fst r)).
Lemma model_is_source_Newton_lemma : model_is_source_Newton.
Proof. exact (conj src_newton_solve_f64 (conj src_newton_solve_vec64 (conj src_newton_solve_jacobian_vec64 src_jacobian_f64))). Qed.

End SrcEqNewton.

(* ------------------------------------------------------------------ the callees the call table names
   Matrix::solve_basic is tied to its source in Proofs/SrcEqSolve.v (src_solve_basic), Mat64::jacobian above.  The remaining
   one, Vec64::norm_inf (src/vector/vec_f64.rs; regenerated in gen/SrcVec64.v, with f64::abs instantiated by the arithmetic's
   abs): the source reads self.vec[i] a second time inside the `if`, the loop formulation of Model/Newton.v reads it once. *)
From OV Require gen.SrcVec64.
Lemma callee_norm_inf {F : SArith} (v : list (T (SA F))) :
  SrcVec64.s_norm_inf abs v = Newton.norm_inf (NReal (SA F)) v.
Proof.
  unfold SrcVec64.s_norm_inf, Newton.norm_inf. cbn [NReal NA NR mag]. apply bind_ext; intros x0.
  apply for_ext; intros i r Hi. destruct (rd v i) as [x|k]; cbn [bind]; [|reflexivity].
  destruct (ltb r (abs x)); reflexivity.
Qed.
