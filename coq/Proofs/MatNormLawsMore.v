(* Proofs/MatNormLawsMore.v -- further laws of the norms of Model/MatNorms.v over R (package matnorm, second wave):
     - under the model's negation [mneg] and subtraction [msub]:  ||-A|| = ||A||,  ||A - B|| <= ||A|| + ||B||,  and the
       reverse triangle inequality  | ||A|| - ||B|| | <= ||A - B||  (the norms are Lipschitz continuous), for norm_1,
       norm_inf, norm_max, norm_frob and norm_p (p >= 1);
     - the comparison inequalities between the norms (norm equivalence with explicit constants);
     - norm_p is non-increasing in p;
     - the norms of the model's identity matrix [eye n].
   One generic argument ([NormSpec]: a norm given as a relation on entry functions that depends on |entries| only and
   satisfies the triangle inequality) covers the five norms. *)
From Coq Require Import List Arith Lia Reals Lra Bool.
From OV Require Import Base.Panic Base.Arith Model.Vector Model.Matrix Model.MatNorms.
From OV Require Import Proofs.Matrix Proofs.MatrixArith Proofs.MatNorms Proofs.MatNormsR.
From OV Require Import Proofs.MatNormLawsBase Proofs.MatNormLawsP Proofs.MatNormLawsAx Proofs.MatNormLawsMink.
Import ListNotations.
Local Open Scope R_scope.

(* ------------------------------------------------------------------ the generic argument *)
Record NormSpec (NS : nat -> nat -> (nat -> nat -> R) -> R -> Prop) : Prop := {
  ns_abs : forall r c f f' N, (forall i j, (i < r)%nat -> (j < c)%nat -> Rabs (f i j) = Rabs (f' i j)) ->
           NS r c f N -> NS r c f' N;
  ns_tri : forall r c f g a b s, NS r c f a -> NS r c g b -> NS r c (fun i j => f i j + g i j) s -> s <= a + b;
}.

Section Generic.
Variable NS : nat -> nat -> (nat -> nat -> R) -> R -> Prop.
Hypothesis HNS : NormSpec NS.

Lemma ns_neg r c f N : NS r c f N -> NS r c (fun i j => - f i j) N.
Proof. apply (ns_abs NS HNS). intros i j _ _. now rewrite Rabs_Ropp. Qed.

Lemma ns_sub_tri r c f g a b d : NS r c f a -> NS r c g b -> NS r c (fun i j => f i j - g i j) d -> d <= a + b.
Proof.
  intros Ha Hb Hd. apply (ns_tri NS HNS r c f (fun i j => - g i j) a b d Ha (ns_neg r c g b Hb)).
  revert Hd. apply (ns_abs NS HNS). intros i j _ _. f_equal.
Qed.

Lemma ns_reverse r c f g a b d : NS r c f a -> NS r c g b -> NS r c (fun i j => f i j - g i j) d -> Rabs (a - b) <= d.
Proof.
  intros Ha Hb Hd.
  assert (H1 : a <= d + b).
  { apply (ns_tri NS HNS r c (fun i j => f i j - g i j) g d b a Hd Hb).
    revert Ha. apply (ns_abs NS HNS). intros i j _ _. f_equal. ring. }
  assert (H2 : b <= d + a).
  { assert (Hd' : NS r c (fun i j => g i j - f i j) d).
    { revert Hd. apply (ns_abs NS HNS). intros i j _ _. rewrite <- Rabs_Ropp. f_equal. ring. }
    apply (ns_tri NS HNS r c (fun i j => g i j - f i j) f d a b Hd' Ha).
    revert Hb. apply (ns_abs NS HNS). intros i j _ _. f_equal. ring. }
  apply Rabs_le. lra.
Qed.
End Generic.

(* the five instances *)
Lemma csum_abs_ext r f f' j : (forall i, (i < r)%nat -> Rabs (f i j) = Rabs (f' i j)) -> csum r f j = csum r f' j.
Proof. intros H. apply Rs_ext. exact H. Qed.
Lemma rsum_abs_ext c f f' i : (forall j, (j < c)%nat -> Rabs (f i j) = Rabs (f' i j)) -> rsum c f i = rsum c f' i.
Proof. intros H. apply Rs_ext. exact H. Qed.

Lemma NS_1 : NormSpec (fun r c f N => ismax (P1 r c f) N).
Proof.
  split.
  - intros r c f f' N H HN. eapply ismax_iff; [exact HN|]. intros x; split; intros (j & Hj & ->); exists j; split; auto.
    + apply csum_abs_ext. intros i Hi. now apply H.
    + apply csum_abs_ext. intros i Hi. symmetry. now apply H.
  - intros r c f g a b s Ha Hb Hs. exact (n1_add r c f g a b s Ha Hb Hs).
Qed.

Lemma NS_inf : NormSpec (fun r c f N => ismax (Pinf r c f) N).
Proof.
  split.
  - intros r c f f' N H HN. eapply ismax_iff; [exact HN|]. intros x; split; intros (i & Hi & ->); exists i; split; auto.
    + apply rsum_abs_ext. intros j Hj. now apply H.
    + apply rsum_abs_ext. intros j Hj. symmetry. now apply H.
  - intros r c f g a b s Ha Hb Hs. exact (ninf_add r c f g a b s Ha Hb Hs).
Qed.

Lemma NS_max : NormSpec (fun r c f N => ismax (Pmax r c f) N).
Proof.
  split.
  - intros r c f f' N H HN. eapply ismax_iff; [exact HN|].
    intros x; split; intros (i & j & Hi & Hj & ->); exists i, j; repeat split; auto. symmetry. now apply H.
  - intros r c f g a b s Ha Hb Hs. exact (nmax_add r c f g a b s Ha Hb Hs).
Qed.

Lemma sq_abs x y : Rabs x = Rabs y -> x * x = y * y.
Proof. intros H. rewrite <- (Rabs_pos_eq (x * x)), <- (Rabs_pos_eq (y * y)), !Rabs_mult, H by apply Rle_0_sqr. reflexivity. Qed.

Lemma NS_frob : NormSpec (fun r c f N => N = R_sqrt.sqrt (sum2 r c (fun i j => f i j * f i j))).
Proof.
  split.
  - intros r c f f' N H ->. f_equal. apply sum2_ext. intros i j Hi Hj. apply sq_abs. now apply H.
  - intros r c f g a b s -> -> ->. apply frob_add.
Qed.

Lemma NS_p p : 1 <= p -> NormSpec (fun r c f N => N = pw (sum2 r c (fun i j => pw (Rabs (f i j)) p)) (1 / p)).
Proof.
  intros Hp. split.
  - intros r c f f' N H ->. f_equal. apply sum2_ext. intros i j Hi Hj. f_equal. now apply H.
  - intros r c f g a b s -> -> ->. now apply np_add.
Qed.

(* ------------------------------------------------------------------ negation and subtraction of the model *)
Local Notation np p := (mnorm_p (S:=SAR) (fun x => pw x p) (fun s => pw s (1 / p))).

Lemma matnorm_neg_lemma (m : matrix AR) (p : R) : wf m ->
  exists m' n1 ni nx nf n, mneg (A:=AR) m = Ok m' /\
    mnorm_1 (S:=SAR) m = Ok n1 /\ mnorm_inf (S:=SAR) m = Ok ni /\ mnorm_max (S:=SAR) m = Ok nx /\
    mnorm_frob (S:=SAR) m = Ok nf /\ np p m = Ok n /\
    mnorm_1 (S:=SAR) m' = Ok n1 /\ mnorm_inf (S:=SAR) m' = Ok ni /\ mnorm_max (S:=SAR) m' = Ok nx /\
    mnorm_frob (S:=SAR) m' = Ok nf /\ np p m' = Ok n.
Proof.
  intros Hw. pose proof (msp_self m Hw) as Hm.
  destruct (mneg_msp _ _ _ m Hm) as (m' & En & Hm'). cbn [neg AR] in Hm'.
  destruct (n1_msp _ _ _ m Hm) as (n1 & E1 & H1). destruct (ninf_msp _ _ _ m Hm) as (ni & Ei & Hi).
  destruct (nmax_msp _ _ _ m Hm) as (nx & Ex & Hx).
  destruct (n1_msp _ _ _ m' Hm') as (n1' & E1' & H1'). destruct (ninf_msp _ _ _ m' Hm') as (ni' & Ei' & Hi').
  destruct (nmax_msp _ _ _ m' Hm') as (nx' & Ex' & Hx').
  exists m', n1, ni, nx. do 2 eexists. split; [exact En|].
  split; [exact E1|]. split; [exact Ei|]. split; [exact Ex|]. split; [apply (nfrob_msp _ _ _ m Hm)|].
  split; [apply (np_msp _ _ _ m Hm)|].
  split; [|split; [|split; [|split]]].
  - rewrite E1'. apply f_equal. symmetry.
    apply (ismax_eq _ _ _ _ (ns_neg _ NS_1 _ _ _ _ H1) H1' (P1_nonneg _ _ _)). tauto.
  - rewrite Ei'. apply f_equal. symmetry.
    apply (ismax_eq _ _ _ _ (ns_neg _ NS_inf _ _ _ _ Hi) Hi' (Pinf_nonneg _ _ _)). tauto.
  - rewrite Ex'. apply f_equal. symmetry.
    apply (ismax_eq _ _ _ _ (ns_neg _ NS_max _ _ _ _ Hx) Hx' (Pmax_nonneg _ _ _)). tauto.
  - rewrite (nfrob_msp _ _ _ m' Hm'). apply f_equal. symmetry.
    apply (ns_neg _ NS_frob (rows m) (cols m) (entry m) _ eq_refl).
  - rewrite (np_msp _ _ _ m' Hm'). apply f_equal. f_equal. apply sum2_ext. intros i j _ _. now rewrite Rabs_Ropp.
Qed.

Lemma matnorm_sub_lemma (a b : matrix AR) : wf a -> wf b -> rows a = rows b -> cols a = cols b ->
  exists d a1 ai ax af b1 bi bx bf d1 di dx df, msub (A:=AR) a b = Ok d /\
    mnorm_1 (S:=SAR) a = Ok a1 /\ mnorm_inf (S:=SAR) a = Ok ai /\ mnorm_max (S:=SAR) a = Ok ax /\ mnorm_frob (S:=SAR) a = Ok af /\
    mnorm_1 (S:=SAR) b = Ok b1 /\ mnorm_inf (S:=SAR) b = Ok bi /\ mnorm_max (S:=SAR) b = Ok bx /\ mnorm_frob (S:=SAR) b = Ok bf /\
    mnorm_1 (S:=SAR) d = Ok d1 /\ mnorm_inf (S:=SAR) d = Ok di /\ mnorm_max (S:=SAR) d = Ok dx /\ mnorm_frob (S:=SAR) d = Ok df /\
    (d1 <= a1 + b1 /\ di <= ai + bi /\ dx <= ax + bx /\ df <= af + bf) /\
    (Rabs (a1 - b1) <= d1 /\ Rabs (ai - bi) <= di /\ Rabs (ax - bx) <= dx /\ Rabs (af - bf) <= df).
Proof.
  intros Hwa Hwb Hr Hc. pose proof (msp_self a Hwa) as Ha. pose proof (msp_self b Hwb) as Hb.
  rewrite Hr, Hc in Ha.
  destruct (msub_msp _ _ _ _ a b Ha Hb) as (d & Ed & Hd). cbn [sub AR] in Hd.
  destruct (n1_msp _ _ _ a Ha) as (a1 & Ea1 & Ha1). destruct (ninf_msp _ _ _ a Ha) as (ai & Eai & Hai).
  destruct (nmax_msp _ _ _ a Ha) as (ax & Eax & Hax).
  destruct (n1_msp _ _ _ b Hb) as (b1 & Eb1 & Hb1). destruct (ninf_msp _ _ _ b Hb) as (bi & Ebi & Hbi).
  destruct (nmax_msp _ _ _ b Hb) as (bx & Ebx & Hbx).
  destruct (n1_msp _ _ _ d Hd) as (d1 & Ed1 & Hd1). destruct (ninf_msp _ _ _ d Hd) as (di & Edi & Hdi).
  destruct (nmax_msp _ _ _ d Hd) as (dx & Edx & Hdx).
  exists d, a1, ai, ax. eexists. exists b1, bi, bx. eexists. exists d1, di, dx. eexists.
  split; [exact Ed|]. split; [exact Ea1|]. split; [exact Eai|]. split; [exact Eax|].
  split; [apply (nfrob_msp _ _ _ a Ha)|].
  split; [exact Eb1|]. split; [exact Ebi|]. split; [exact Ebx|]. split; [apply (nfrob_msp _ _ _ b Hb)|].
  split; [exact Ed1|]. split; [exact Edi|]. split; [exact Edx|]. split; [apply (nfrob_msp _ _ _ d Hd)|].
  split; (split; [|split; [|split]]).
  - exact (ns_sub_tri _ NS_1 _ _ _ _ _ _ _ Ha1 Hb1 Hd1).
  - exact (ns_sub_tri _ NS_inf _ _ _ _ _ _ _ Hai Hbi Hdi).
  - exact (ns_sub_tri _ NS_max _ _ _ _ _ _ _ Hax Hbx Hdx).
  - exact (ns_sub_tri _ NS_frob (rows b) (cols b) (entry a) (entry b) _ _ _ eq_refl eq_refl eq_refl).
  - exact (ns_reverse _ NS_1 _ _ _ _ _ _ _ Ha1 Hb1 Hd1).
  - exact (ns_reverse _ NS_inf _ _ _ _ _ _ _ Hai Hbi Hdi).
  - exact (ns_reverse _ NS_max _ _ _ _ _ _ _ Hax Hbx Hdx).
  - exact (ns_reverse _ NS_frob (rows b) (cols b) (entry a) (entry b) _ _ _ eq_refl eq_refl eq_refl).
Qed.

Lemma norm_p_sub_lemma (a b : matrix AR) (p : R) : wf a -> wf b -> rows a = rows b -> cols a = cols b -> 1 <= p ->
  exists d na nb nd, msub (A:=AR) a b = Ok d /\ np p a = Ok na /\ np p b = Ok nb /\ np p d = Ok nd /\
    nd <= na + nb /\ Rabs (na - nb) <= nd.
Proof.
  intros Hwa Hwb Hr Hc Hp. pose proof (msp_self a Hwa) as Ha. pose proof (msp_self b Hwb) as Hb.
  rewrite Hr, Hc in Ha.
  destruct (msub_msp _ _ _ _ a b Ha Hb) as (d & Ed & Hd). cbn [sub AR] in Hd.
  exists d. do 3 eexists. split; [exact Ed|].
  split; [apply (np_msp _ _ _ a Ha)|]. split; [apply (np_msp _ _ _ b Hb)|]. split; [apply (np_msp _ _ _ d Hd)|].
  split.
  - exact (ns_sub_tri _ (NS_p p Hp) (rows b) (cols b) (entry a) (entry b) _ _ _ eq_refl eq_refl eq_refl).
  - exact (ns_reverse _ (NS_p p Hp) (rows b) (cols b) (entry a) (entry b) _ _ _ eq_refl eq_refl eq_refl).
Qed.

(* ------------------------------------------------------------------ comparison of the norms *)
Lemma Rs_sq_le_sq n a : (forall k, (k < n)%nat -> 0 <= a k) -> Rs n (fun k => a k * a k) <= Rs n a * Rs n a.
Proof.
  intros Ha. induction n as [|n IH]; [rewrite !Rs_0; lra|]. rewrite !Rs_S.
  assert (H1 : Rs n (fun k => a k * a k) <= Rs n a * Rs n a) by (apply IH; intros; apply Ha; lia).
  assert (H2 : 0 <= Rs n a) by (apply Rs_nonneg; intros; apply Ha; lia).
  assert (H3 : 0 <= a n) by (apply Ha; lia). nra.
Qed.

(* (Sum_k a_k)^2 <= n Sum_k a_k^2 *)
Lemma Rs_sq_le_n n a : Rs n a * Rs n a <= INR n * Rs n (fun k => a k * a k).
Proof.
  pose proof (Rs_cs n a (fun _ => 1)) as H. cbv beta in H.
  rewrite (Rs_ext n (fun k => a k * 1) a) in H by (intros; ring).
  rewrite (Rs_ext n (fun k => 1 * 1) (fun _ => 1)) in H by (intros; ring).
  rewrite Rs_const in H. lra.
Qed.

Lemma le_sqrt_of_sq x y : 0 <= y -> x * x <= y -> x <= R_sqrt.sqrt y.
Proof.
  intros Hy H. destruct (Rle_lt_dec x 0) as [Hx|Hx]; [pose proof (sqrt_pos y); lra|].
  rewrite <- (sqrt_square x) by lra. now apply sqrt_le_1_alt.
Qed.

Lemma Rs2_flat_sum2 r c F : sum2 r c F = Rs (r * c) (fun k => F (k / c)%nat (k mod c)%nat).
Proof. apply Rs2_flat. Qed.

Section Compare.
Variables (r c : nat) (f : nat -> nat -> R) (n1 ni nx : R).
Hypothesis H1 : ismax (P1 r c f) n1.
Hypothesis Hi : ismax (Pinf r c f) ni.
Hypothesis Hx : ismax (Pmax r c f) nx.
Let S2 := sum2 r c (fun i j => f i j * f i j).
Let nf := R_sqrt.sqrt S2.
Let s1 := sum2 r c (fun i j => Rabs (f i j)).

Lemma S2_nonneg : 0 <= S2.
Proof. apply sum2_nonneg. intros i j _ _. pose proof (Rle_0_sqr (f i j)) as H. exact H. Qed.
Lemma n1_pos : 0 <= n1. Proof. apply (ismax_nonneg _ _ H1), P1_nonneg. Qed.
Lemma ni_pos : 0 <= ni. Proof. apply (ismax_nonneg _ _ Hi), Pinf_nonneg. Qed.
Lemma nx_pos : 0 <= nx. Proof. apply (ismax_nonneg _ _ Hx), Pmax_nonneg. Qed.

Lemma cmp_max_1 : nx <= n1.
Proof.
  apply (ismax_le _ _ _ Hx n1_pos). intros x (i & j & Hi' & Hj & ->).
  apply Rle_trans with (csum r f j); [|apply (proj1 H1); exists j; auto].
  apply (Rs_term_le r (fun i => Rabs (f i j)) i); auto. intros; apply Rabs_pos.
Qed.
Lemma cmp_max_inf : nx <= ni.
Proof.
  apply (ismax_le _ _ _ Hx ni_pos). intros x (i & j & Hi' & Hj & ->).
  apply Rle_trans with (rsum c f i); [|apply (proj1 Hi); exists i; auto].
  apply (Rs_term_le c (fun j => Rabs (f i j)) j); auto. intros; apply Rabs_pos.
Qed.
Lemma cmp_max_frob : nx <= nf.
Proof.
  apply (ismax_le _ _ _ Hx (sqrt_pos _)). intros x (i & j & Hi' & Hj & ->).
  apply le_sqrt_of_sq; [apply S2_nonneg|]. rewrite <- Rabs_mult, Rabs_pos_eq by apply Rle_0_sqr.
  apply (sum2_term_le r c (fun i j => f i j * f i j) i j); auto.
  intros i' j' _ _. pose proof (Rle_0_sqr (f i' j')) as H. exact H.
Qed.
Lemma cmp_1_max : n1 <= INR r * nx.
Proof.
  apply (ismax_le _ _ _ H1); [apply Rmult_le_pos; [apply pos_INR|apply nx_pos]|].
  intros x (j & Hj & ->). unfold csum. rewrite <- Rs_const. apply Rs_le. intros i Hi'.
  apply (proj1 Hx). exists i, j; auto.
Qed.
Lemma cmp_inf_max : ni <= INR c * nx.
Proof.
  apply (ismax_le _ _ _ Hi); [apply Rmult_le_pos; [apply pos_INR|apply nx_pos]|].
  intros x (i & Hi' & ->). unfold rsum. rewrite <- Rs_const. apply Rs_le. intros j Hj.
  apply (proj1 Hx). exists i, j; auto.
Qed.
Lemma cmp_frob_max : nf <= R_sqrt.sqrt (INR (r * c)) * nx.
Proof.
  rewrite <- (sqrt_square nx) at 1 by apply nx_pos. rewrite <- sqrt_mult_alt by apply pos_INR.
  apply sqrt_le_1_alt. unfold S2.
  apply Rle_trans with (sum2 r c (fun _ _ => nx * nx)).
  - apply sum2_le. intros i j Hi' Hj. rewrite <- (Rabs_pos_eq (f i j * f i j)), Rabs_mult by apply Rle_0_sqr.
    assert (Rabs (f i j) <= nx) by (apply (proj1 Hx); exists i, j; auto). pose proof (Rabs_pos (f i j)). nra.
  - unfold sum2. rewrite (Rs_ext r _ (fun _ => INR c * (nx * nx))) by (intros; apply Rs_const).
    rewrite Rs_const, mult_INR. lra.
Qed.
(* column sum <= sqrt(r) * sqrt(sum of squares of the column) <= sqrt(r) * norm_frob *)
Lemma cmp_1_frob : n1 <= R_sqrt.sqrt (INR r) * nf.
Proof.
  apply (ismax_le _ _ _ H1); [apply Rmult_le_pos; apply sqrt_pos|]. intros x (j & Hj & ->).
  unfold nf. rewrite <- sqrt_mult_alt by apply pos_INR. apply le_sqrt_of_sq.
  - apply Rmult_le_pos; [apply pos_INR|apply S2_nonneg].
  - eapply Rle_trans; [apply (Rs_sq_le_n r (fun i => Rabs (f i j)))|].
    apply Rmult_le_compat_l; [apply pos_INR|].
    rewrite (Rs_ext r (fun i => Rabs (f i j) * Rabs (f i j)) (fun i => f i j * f i j))
      by (intros i _; rewrite <- Rabs_mult; apply Rabs_pos_eq, Rle_0_sqr).
    unfold S2. rewrite sum2_swap.
    apply (Rs_term_le c (fun j => Rs r (fun i => f i j * f i j)) j); auto.
    intros j' _. apply Rs_sq_nonneg.
Qed.
Lemma cmp_inf_frob : ni <= R_sqrt.sqrt (INR c) * nf.
Proof.
  apply (ismax_le _ _ _ Hi); [apply Rmult_le_pos; apply sqrt_pos|]. intros x (i & Hi' & ->).
  unfold nf. rewrite <- sqrt_mult_alt by apply pos_INR. apply le_sqrt_of_sq.
  - apply Rmult_le_pos; [apply pos_INR|apply S2_nonneg].
  - eapply Rle_trans; [apply (Rs_sq_le_n c (fun j => Rabs (f i j)))|].
    apply Rmult_le_compat_l; [apply pos_INR|].
    rewrite (Rs_ext c (fun j => Rabs (f i j) * Rabs (f i j)) (fun j => f i j * f i j))
      by (intros j _; rewrite <- Rabs_mult; apply Rabs_pos_eq, Rle_0_sqr).
    apply (Rs_term_le r (fun i => Rs c (fun j => f i j * f i j)) i); auto.
    intros i' _. apply Rs_sq_nonneg.
Qed.
(* sum of squares = Sum_j (Sum_i a_ij^2) <= Sum_j (column sum)^2 <= c * norm_1^2 *)
Lemma cmp_frob_1 : nf <= R_sqrt.sqrt (INR c) * n1.
Proof.
  rewrite <- (sqrt_square n1) at 1 by apply n1_pos. rewrite <- sqrt_mult_alt by apply pos_INR.
  apply sqrt_le_1_alt. unfold S2. rewrite sum2_swap. unfold sum2.
  apply Rle_trans with (Rs c (fun _ => n1 * n1)); [|rewrite Rs_const; lra].
  apply Rs_le. intros j Hj.
  apply Rle_trans with (csum r f j * csum r f j).
  - rewrite (Rs_ext r (fun i => f i j * f i j) (fun i => Rabs (f i j) * Rabs (f i j)))
      by (intros i _; rewrite <- Rabs_mult; symmetry; apply Rabs_pos_eq, Rle_0_sqr).
    apply (Rs_sq_le_sq r (fun i => Rabs (f i j))). intros; apply Rabs_pos.
  - assert (csum r f j <= n1) by (apply (proj1 H1); exists j; auto). pose proof (csum_nonneg r f j). nra.
Qed.
Lemma cmp_frob_inf : nf <= R_sqrt.sqrt (INR r) * ni.
Proof.
  rewrite <- (sqrt_square ni) at 1 by apply ni_pos. rewrite <- sqrt_mult_alt by apply pos_INR.
  apply sqrt_le_1_alt. unfold S2, sum2.
  apply Rle_trans with (Rs r (fun _ => ni * ni)); [|rewrite Rs_const; lra].
  apply Rs_le. intros i Hi'.
  apply Rle_trans with (rsum c f i * rsum c f i).
  - rewrite (Rs_ext c (fun j => f i j * f i j) (fun j => Rabs (f i j) * Rabs (f i j)))
      by (intros j _; rewrite <- Rabs_mult; symmetry; apply Rabs_pos_eq, Rle_0_sqr).
    apply (Rs_sq_le_sq c (fun j => Rabs (f i j))). intros; apply Rabs_pos.
  - assert (rsum c f i <= ni) by (apply (proj1 Hi); exists i; auto). pose proof (rsum_nonneg c f i). nra.
Qed.
(* everything is below the entrywise 1-norm *)
Lemma s1_nonneg : 0 <= s1.
Proof. apply sum2_nonneg. intros; apply Rabs_pos. Qed.
Lemma cmp_1_s1 : n1 <= s1.
Proof.
  apply (ismax_le _ _ _ H1 s1_nonneg). intros x (j & Hj & ->). unfold s1. rewrite sum2_swap.
  apply (Rs_term_le c (fun j => Rs r (fun i => Rabs (f i j))) j); auto.
  intros j' _. apply Rs_nonneg. intros; apply Rabs_pos.
Qed.
Lemma cmp_inf_s1 : ni <= s1.
Proof.
  apply (ismax_le _ _ _ Hi s1_nonneg). intros x (i & Hi' & ->).
  apply (Rs_term_le r (fun i => Rs c (fun j => Rabs (f i j))) i); auto.
  intros i' _. apply Rs_nonneg. intros; apply Rabs_pos.
Qed.
Lemma cmp_frob_s1 : nf <= s1.
Proof.
  rewrite <- (sqrt_square s1) by apply s1_nonneg. apply sqrt_le_1_alt.
  unfold S2, s1. rewrite !Rs2_flat_sum2.
  rewrite (Rs_ext _ (fun k => f (k / c)%nat (k mod c)%nat * f (k / c)%nat (k mod c)%nat)
             (fun k => Rabs (f (k / c)%nat (k mod c)%nat) * Rabs (f (k / c)%nat (k mod c)%nat)))
    by (intros k _; rewrite <- Rabs_mult; symmetry; apply Rabs_pos_eq, Rle_0_sqr).
  apply (Rs_sq_le_sq (r * c) (fun k => Rabs (f (k / c)%nat (k mod c)%nat))). intros; apply Rabs_pos.
Qed.
End Compare.

Lemma matnorm_comparison_lemma (m : matrix AR) : wf m ->
  exists n1 ni nx nf s1, mnorm_1 (S:=SAR) m = Ok n1 /\ mnorm_inf (S:=SAR) m = Ok ni /\
    mnorm_max (S:=SAR) m = Ok nx /\ mnorm_frob (S:=SAR) m = Ok nf /\ np 1 m = Ok s1 /\
    (nx <= n1 /\ nx <= ni /\ nx <= nf) /\
    (n1 <= INR (rows m) * nx /\ ni <= INR (cols m) * nx /\ nf <= R_sqrt.sqrt (INR (rows m * cols m)) * nx) /\
    (n1 <= R_sqrt.sqrt (INR (rows m)) * nf /\ ni <= R_sqrt.sqrt (INR (cols m)) * nf) /\
    (nf <= R_sqrt.sqrt (INR (cols m)) * n1 /\ nf <= R_sqrt.sqrt (INR (rows m)) * ni) /\
    (n1 <= s1 /\ ni <= s1 /\ nf <= s1).
Proof.
  intros Hw. pose proof (msp_self m Hw) as Hm.
  destruct (n1_msp _ _ _ m Hm) as (n1 & E1 & H1). destruct (ninf_msp _ _ _ m Hm) as (ni & Ei & Hi).
  destruct (nmax_msp _ _ _ m Hm) as (nx & Ex & Hx).
  exists n1, ni, nx. do 2 eexists. split; [exact E1|]. split; [exact Ei|]. split; [exact Ex|].
  split; [apply (nfrob_msp _ _ _ m Hm)|].
  split; [rewrite (norm_p_real_1_lemma m Hw); apply f_equal; apply (buf_sum_msp _ _ _ m Hm Rabs)|].
  split; [|split; [|split; [|split]]].
  - split; [|split]; [apply (cmp_max_1 _ _ _ _ _ H1 Hx)|apply (cmp_max_inf _ _ _ _ _ Hi Hx)|apply (cmp_max_frob _ _ _ _ Hx)].
  - split; [|split]; [apply (cmp_1_max _ _ _ _ _ H1 Hx)|apply (cmp_inf_max _ _ _ _ _ Hi Hx)|apply (cmp_frob_max _ _ _ _ Hx)].
  - split; [apply (cmp_1_frob _ _ _ _ H1)|apply (cmp_inf_frob _ _ _ _ Hi)].
  - split; [apply (cmp_frob_1 _ _ _ _ H1)|apply (cmp_frob_inf _ _ _ _ Hi)].
  - split; [|split]; [apply (cmp_1_s1 _ _ _ _ H1)|apply (cmp_inf_s1 _ _ _ _ Hi)|apply cmp_frob_s1].
Qed.

(* ------------------------------------------------------------------ norm_p is non-increasing in p *)
Lemma pw_exp_mono b p q : 0 <= b <= 1 -> p <= q -> pw b q <= pw b p.
Proof.
  intros [Hb0 Hb1] Hpq. destruct Hb0 as [Hb0|<-]; [|rewrite !pw_0; lra].
  rewrite !pw_pos by exact Hb0. unfold Rpower. apply exp_le_mono.
  assert (ln b <= 0).
  { destruct Hb1 as [Hb1| ->]; [|rewrite ln_1; lra]. rewrite <- ln_1. left. now apply ln_increasing. }
  nra.
Qed.

Lemma Rs_pmono n (a : nat -> R) p q : (forall k, 0 <= a k) -> 0 < p -> p <= q ->
  pw (Rs n (fun k => pw (a k) q)) (1 / q) <= pw (Rs n (fun k => pw (a k) p)) (1 / p).
Proof.
  intros Ha Hp Hpq. assert (Hq : 0 < q) by lra.
  assert (Hq' : 0 < 1 / q) by (apply Rdiv_lt_0_compat; lra).
  set (Sp := Rs n (fun k => pw (a k) p)).
  assert (HSp : 0 <= Sp) by (apply Rs_nonneg; intros; apply pw_nonneg).
  destruct HSp as [HSp|HSp].
  2:{ assert (Ha0 : forall k, (k < n)%nat -> a k = 0).
      { intros k Hk. apply (pw_eq0 _ p (Ha k)). apply (Rs_eq0 n (fun k => pw (a k) p)); auto. intros; apply pw_nonneg. }
      rewrite (Rs_all0 n (fun k => pw (a k) q)) by (intros k Hk; rewrite (Ha0 k Hk); apply pw_0).
      rewrite pw_0. apply pw_nonneg. }
  set (A := pw Sp (1 / p)). assert (HA : 0 < A) by (apply pw_gt0; exact HSp).
  assert (EA : pw A p = Sp) by (apply pw_root'; lra).
  assert (HaA : forall k, (k < n)%nat -> a k <= A).
  { intros k Hk. destruct (Rle_lt_dec (a k) A) as [|Hgt]; auto. exfalso.
    assert (pw A p < pw (a k) p) by (apply pw_lt; lra).
    assert (pw (a k) p <= Sp) by (apply (Rs_term_le n (fun k => pw (a k) p) k); auto; intros; apply pw_nonneg). lra. }
  assert (HS : Rs n (fun k => pw (a k) q) <= pw A q).
  { apply Rle_trans with (Rs n (fun k => pw A q * (pw (a k) p / Sp))).
    - apply Rs_le. intros k Hk.
      assert (Hb : 0 <= a k / A <= 1).
      { split; [apply Rmult_le_pos; [apply Ha|left; now apply Rinv_0_lt_compat]|].
        apply (Rmult_le_reg_r A); [exact HA|]. unfold Rdiv. rewrite Rmult_assoc, Rinv_l by lra. specialize (HaA k Hk). lra. }
      replace (a k) with (A * (a k / A)) at 1 by (field; lra).
      rewrite pw_mult by lra. apply Rmult_le_compat_l; [apply pw_nonneg|].
      apply Rle_trans with (pw (a k / A) p); [now apply pw_exp_mono|].
      apply Req_le. rewrite <- EA. apply (Rmult_eq_reg_r (pw A p)); [|rewrite EA; lra].
      rewrite <- pw_mult by lra. unfold Rdiv. rewrite !Rmult_assoc, !Rinv_l, !Rmult_1_r; [reflexivity|rewrite EA; lra|lra].
    - rewrite Rs_scal. unfold Rdiv. rewrite Rs_scal_r. fold Sp. rewrite Rinv_r by lra. lra. }
  apply Rle_trans with (pw (pw A q) (1 / q)).
  - apply pw_le; auto. apply Rs_nonneg. intros; apply pw_nonneg.
  - rewrite pw_root by lra. lra.
Qed.

Lemma norm_p_monotone_lemma (m : matrix AR) (p q : R) : wf m -> 0 < p -> p <= q ->
  exists n_p n_q, np p m = Ok n_p /\ np q m = Ok n_q /\ n_q <= n_p.
Proof.
  intros Hw Hp Hpq. pose proof (msp_self m Hw) as Hm.
  do 2 eexists. split; [apply (np_msp _ _ _ m Hm)|]. split; [apply (np_msp _ _ _ m Hm)|].
  rewrite !Rs2_flat_sum2.
  apply (Rs_pmono (rows m * cols m) (fun k => Rabs (entry m (k / cols m)%nat (k mod cols m)%nat)) p q); auto.
  intros; apply Rabs_pos.
Qed.

(* ------------------------------------------------------------------ the identity matrix *)
Lemma Rs_delta n j (x : R) : (j < n)%nat -> Rs n (fun i => if (i =? j)%nat then x else 0) = x.
Proof.
  induction n as [|n IH]; intros Hj; [lia|]. rewrite Rs_S.
  destruct (Nat.eq_dec j n) as [->|Hne].
  - rewrite Nat.eqb_refl, Rs_all0; [ring|]. intros i Hi. destruct (Nat.eqb_spec i n); [lia|reflexivity].
  - rewrite IH by lia. destruct (Nat.eqb_spec n j); [lia|ring].
Qed.

Definition delta (i j : nat) : R := if (i =? j)%nat then 1 else 0.

Lemma delta_abs i j : Rabs (delta i j) = delta i j.
Proof. unfold delta. destruct (i =? j)%nat; [apply Rabs_R1|apply Rabs_R0]. Qed.

Lemma matnorm_eye_lemma (n : nat) : (1 <= n)%nat ->
  exists e, eye (A:=AR) n = Ok e /\ mnorm_1 (S:=SAR) e = Ok 1 /\ mnorm_inf (S:=SAR) e = Ok 1 /\
    mnorm_max (S:=SAR) e = Ok 1 /\ mnorm_frob (S:=SAR) e = Ok (R_sqrt.sqrt (INR n)).
Proof.
  intros Hn. destruct (eye_msp (A:=AR) n) as (e & Ee & He).
  change (msp (A:=AR) n n delta e) in He.
  exists e. split; [exact Ee|].
  assert (Hcs : forall j, (j < n)%nat -> csum n delta j = 1).
  { intros j Hj. unfold csum. rewrite (Rs_ext n _ (fun i => if (i =? j)%nat then 1 else 0)) by (intros; apply delta_abs).
    now apply Rs_delta. }
  assert (Hrs : forall i, (i < n)%nat -> rsum n delta i = 1).
  { intros i Hi. unfold rsum. rewrite (Rs_ext n _ (fun j => if (j =? i)%nat then 1 else 0)).
    - now apply Rs_delta.
    - intros j _. rewrite delta_abs. unfold delta. now rewrite Nat.eqb_sym. }
  destruct (n1_msp _ _ _ e He) as (n1 & E1 & Hub1 & Hm1). destruct (ninf_msp _ _ _ e He) as (ni & Ei & Hubi & Hmi).
  destruct (nmax_msp _ _ _ e He) as (nx & Ex & Hubx & Hmx).
  split; [|split; [|split]].
  - rewrite E1. apply f_equal. assert (1 <= n1) by (apply Hub1; exists 0%nat; split; [lia|symmetry; apply Hcs; lia]).
    destruct Hm1 as [->|(j & Hj & ->)]; [lra|now apply Hcs].
  - rewrite Ei. apply f_equal. assert (1 <= ni) by (apply Hubi; exists 0%nat; split; [lia|symmetry; apply Hrs; lia]).
    destruct Hmi as [->|(i & Hi & ->)]; [lra|now apply Hrs].
  - rewrite Ex. apply f_equal.
    assert (1 <= nx) by (apply Hubx; exists 0%nat, 0%nat; repeat split; try lia; unfold delta; cbn; now rewrite Rabs_R1).
    destruct Hmx as [->|(i & j & _ & _ & ->)]; [lra|].
    rewrite delta_abs in *. unfold delta in *. destruct (i =? j)%nat; [reflexivity|lra].
  - rewrite (nfrob_msp _ _ _ e He). do 2 apply f_equal. unfold sum2.
    rewrite (Rs_ext n _ (fun _ => 1)); [rewrite Rs_const; ring|].
    intros i Hi. rewrite (Rs_ext n _ (fun j => if (j =? i)%nat then 1 else 0)); [now apply Rs_delta|].
    intros j _. unfold delta. rewrite Nat.eqb_sym. destruct (j =? i)%nat; ring.
Qed.
