(* Proofs/RoundTriFloat.v -- the triangular solves of Model/Solve.v at the PRIMITIVE-FLOAT instance (AF, IEEE
   binary64), through Flocq: Higham's Theorem 8.5 for the floats themselves.

     backsolve_backward_error_float_lemma :  backsolve (A := AF) m b = Ok x  ->
         (U + dU) FR(x) = FR(b)   with  |dU_ij| <= gam n |u_ij| ,  u = 2^-53 ,  U = upper triangle of m,
       provided  every x_k is finite, every diagonal entry is finite and nonzero, and no product  m_kj * x_j  (j > k)
       and no quotient  (accumulated row value) / m_kk  underflows.  All conditions are about values one can compute:
       the inputs, the answer, and [racc m b x k n] -- the accumulated value of row k, a float expression in m, b, x.
     fwdsolve_backward_error_float_lemma  :  the same for the unit-lower forward substitution of solve_lu.

   Method: Proofs/RoundTrace.v gives, over any arithmetic, x_k = racc m b x k n / m_kk with racc a left fold; a finite
   fold result forces every intermediate to be finite, so no operation overflowed and each one is the correctly rounded
   exact operation (Flocq's Bminus/Bmult/Bdiv_correct); hence the fold at AF maps, under FR, to the same fold in the
   total standard-model arithmetic A64r (Proofs/RoundDotFloat.v), to which the analysis of the fold applies.
   No hypothesis about rounding remains.  Not covered: underflowing products/quotients, overflow, and the factorisation
   (the matrix handed to backsolve is whatever the elimination computed). *)
From Coq Require Import ZArith Reals Lra Lia List Floats Bool Arith.
From Flocq Require Import Core BinarySingleNaN PrimFloat Relative Plus_error.
From OV Require Import Base.Panic Base.Arith Base.RoundModel Model.Vector Model.Matrix Model.Solve Inst.FloatInst
  Proofs.Matrix Proofs.LUPrim Proofs.LUSolve Proofs.ComplexRound Proofs.RoundDot Proofs.RoundMatvec Proofs.RoundBacksolve
  Proofs.RoundDotFloat Proofs.RoundTrace.
Import ListNotations.
Local Open Scope R_scope.

Notation HP := Flocq.IEEE754.PrimFloat.Hprec.
Notation HM := Flocq.IEEE754.PrimFloat.Hmax.
Notation fmt := (generic_format radix2 (FLT_exp (-1074) 53)).

(* ---------------------------------------------------------------- the fold  s - a_0 x_0 - a_1 x_1 - ...  in the standard model *)
Section EaccRound.
Variable u : R.
Hypothesis u_range : 0 <= u < 1.
Variables fadd fsub fmul fdiv : R -> R -> R.
Hypothesis fsub_ok : forall x y, exists d, Rabs d <= u /\ fsub x y = (x - y) * (1 + d).
Hypothesis fmul_ok : forall x y, exists d, Rabs d <= u /\ fmul x y = x * y * (1 + d).
Notation AR := (ARm fadd fsub fmul fdiv).
Notation bnd := (bnd u).

Lemma eacc_round (m : matrix AR) (x : list R) (tgt : nat) (js : list nat) (s : R) :
  exists P W, bnd (length js) P /\ (forall t, (t < length js)%nat -> bnd (t + 1) (W t)) /\
    (eacc (A := AR) m x tgt js s : R)
    = P * (s - Rsum (length js) (fun t => ent (A := AR) m tgt (nth t js 0%nat) * nth (nth t js 0%nat) x 0 * W t)).
Proof using u_range fsub_ok fmul_ok.
  revert s. induction js as [|j js IH]; intros s.
  - exists 1, (fun _ => 1). split; [apply bnd_0|]. split; [intros; cbn in *; lia|].
    change (s = 1 * (s - 0)). ring.
  - change (eacc (A := AR) m x tgt (j :: js) s)
      with (eacc (A := AR) m x tgt js (fsub s (fmul (ent (A := AR) m tgt j) (nth j x 0)))).
    destruct (fmul_bnd u u_range fmul fmul_ok (ent (A := AR) m tgt j) (nth j x 0)) as (em & Hem & Em).
    destruct (fsub_bnd u u_range fsub fsub_ok s (fmul (ent (A := AR) m tgt j) (nth j x 0))) as (es & Hes & Es).
    destruct (IH (fsub s (fmul (ent (A := AR) m tgt j) (nth j x 0)))) as (P & W & HP' & HW & E).
    exists (P * es), (fun t => match t with O => em | S t' => W t' / es end).
    cbn [length]. split; [replace (S (length js)) with (length js + 1)%nat by lia; now apply bnd_mul|]. split.
    { intros [|t'] Ht; [exact Hem|]. replace (S t' + 1)%nat with ((t' + 1) + 1)%nat by lia.
      apply bnd_div; [exact u_range|apply HW; lia|exact Hes]. }
    rewrite E, Es, Em, Rsum_shift. cbn [nth].
    rewrite (Rsum_ext (length js)
               (fun k => ent (A := AR) m tgt (nth k js 0%nat) * nth (nth k js 0%nat) x 0 * (W k / es))
               (fun k => / es * (ent (A := AR) m tgt (nth k js 0%nat) * nth (nth k js 0%nat) x 0 * W k))).
    2:{ intros k Hk. pose proof (bnd_nz u u_range _ _ Hes). field. assumption. }
    rewrite Rsum_scal. pose proof (bnd_nz u u_range _ _ Hes). field. assumption.
Qed.
End EaccRound.

(* ---------------------------------------------------------------- float operations, backwards from a finite result *)
Lemma fsub_finite_inv (x y : pfloat) : ffinite (x - y)%float ->
  ffinite x /\ ffinite y /\ FR (x - y)%float = rnd64 (FR x - FR y).
Proof.
  unfold ffinite, FR. rewrite sub_equiv. intros H.
  assert (Fxy : is_finite (Prim2B x) = true /\ is_finite (Prim2B y) = true).
  { destruct (Prim2B x) as [sx|sx| |sx mx ex Bx], (Prim2B y) as [sy|sy| |sy my ey By]; cbn in H |- *;
      try (split; reflexivity); try discriminate; destruct (Bool.eqb sx (negb sy)); discriminate. }
  destruct Fxy as [Fx Fy]. split; [exact Fx|]. split; [exact Fy|].
  pose proof (Bminus_correct prec emax HP HM mode_NE (Prim2B x) (Prim2B y) Fx Fy) as K.
  change (round radix2 (fexp prec emax) (round_mode mode_NE)) with rnd64 in K.
  destruct (Rlt_bool (Rabs (rnd64 (B2R (Prim2B x) - B2R (Prim2B y)))) (bpow radix2 emax)).
  - exact (proj1 K).
  - destruct K as (K & _). rewrite <- is_finite_SF_B2SF, K in H. discriminate.
Qed.

Lemma fdiv_finite_inv (x y : pfloat) : ffinite (x / y)%float -> FR y <> 0 ->
  ffinite x /\ FR (x / y)%float = rnd64 (FR x / FR y).
Proof.
  unfold ffinite, FR. rewrite div_equiv. intros H Hy.
  pose proof (Bdiv_correct prec emax HP HM mode_NE (Prim2B x) (Prim2B y) Hy) as K.
  change (round radix2 (fexp prec emax) (round_mode mode_NE)) with rnd64 in K.
  destruct (Rlt_bool (Rabs (rnd64 (B2R (Prim2B x) / B2R (Prim2B y)))) (bpow radix2 emax)).
  - destruct K as (K1 & K2 & _). rewrite K2 in H. auto.
  - rewrite <- is_finite_SF_B2SF, K in H. discriminate.
Qed.

Lemma Fsub_fmt x y : fmt x -> fmt y -> Fsub x y = rnd64 (x - y).
Proof. intros Fx Fy. unfold Fsub. apply isfmt_true in Fx, Fy. now rewrite Fx, Fy. Qed.
Lemma Fdiv_nounder x y : no_underflow (x / y) -> Fdiv x y = rnd64 (x / y).
Proof. intros H. unfold Fdiv. apply nounder_true in H. now rewrite H. Qed.

(* ---------------------------------------------------------------- real images of float data *)
Definition mFR (m : matrix AF) : matrix A64r := @mkM A64r (map FR (buf m)) (rows m) (cols m).

Lemma FR_0 : FR 0%float = 0.
Proof. reflexivity. Qed.

Lemma nth_map_FR (l : list pfloat) k : nth k (map FR l) 0 = FR (nth k l 0%float).
Proof. rewrite <- FR_0 at 1. apply map_nth. Qed.

Lemma ent_mFR (m : matrix AF) i j : ent (A := A64r) (mFR m) i j = FR (ent (A := AF) m i j).
Proof. unfold ent, mFR. cbn [buf cols]. apply nth_map_FR. Qed.

Lemma mFR_shape (m : matrix AF) r c : shape (A := AF) m r c -> shape (A := A64r) (mFR m) r c.
Proof. intros (W & Hr & Hc). unfold shape, wf, mFR in *. cbn [buf rows cols]. now rewrite map_length. Qed.

(* the fold at the floats IS the fold in A64r on the real values, when its result is finite and no product underflows *)
Lemma eacc_float_transfer (m : matrix AF) (x : list pfloat) (tgt : nat) (js : list nat) (s : pfloat) :
  ffinite (eacc (A := AF) m x tgt js s) ->
  (forall j, In j js -> no_underflow (FR (ent (A := AF) m tgt j) * FR (nth j x 0%float))) ->
  ffinite s /\
  FR (eacc (A := AF) m x tgt js s) = eacc (A := A64r) (mFR m) (map FR x) tgt js (FR s).
Proof.
  revert s. induction js as [|j js IH]; intros s Hf Hu.
  - split; [exact Hf|reflexivity].
  - change (eacc (A := AF) m x tgt (j :: js) s)
      with (eacc (A := AF) m x tgt js (s - ent (A := AF) m tgt j * nth j x 0%float)%float) in *.
    destruct (IH _ Hf ltac:(intros j' Hj'; apply Hu; right; exact Hj')) as (Fs' & E').
    destruct (fsub_finite_inv _ _ Fs') as (Fs & Fp & Es). destruct (fmul_finite_inv _ _ Fp) as (_ & _ & Ep).
    split; [exact Fs|]. rewrite E'.
    change (eacc (A := A64r) (mFR m) (map FR x) tgt (j :: js) (FR s))
      with (eacc (A := A64r) (mFR m) (map FR x) tgt js
              (Fsub (FR s) (Fmul (ent (A := A64r) (mFR m) tgt j) (nth j (map FR x) 0)))).
    f_equal. rewrite ent_mFR, nth_map_FR.
    rewrite (Fmul_nounder _ _ (Hu j ltac:(left; reflexivity))).
    rewrite Fsub_fmt by (apply FR_fmt || apply rnd64_fmt).
    rewrite Es, Ep. reflexivity.
Qed.

(* ---------------------------------------------------------------- backsolve at the primitive floats *)
Notation bnd64 := (bnd u64).
Notation rentry64 := (rentry Fadd Fsub Fmul Fdiv).
Notation triu64 := (triu Fadd Fsub Fmul Fdiv).
Notation tril64 := (tril1 Fadd Fsub Fmul Fdiv).

Lemma rentry_mFR (m : matrix AF) i j : rentry64 (mFR m) i j = fentry m i j.
Proof. unfold rentry, fentry, mFR. cbn [buf cols]. apply nth_map_FR. Qed.

Lemma seq_nth_lt a l t : (t < l)%nat -> nth t (seq a l) 0%nat = (a + t)%nat.
Proof. intros H. now rewrite seq_nth. Qed.

Theorem backsolve_backward_error_float_lemma (m : matrix AF) (b x : list pfloat) :
  wf m -> rows m = cols m -> length b = rows m -> INR (rows m) * u64 < 1 ->
  backsolve (A := AF) m b = Ok x ->
  (forall k, (k < rows m)%nat -> ffinite (nth k x 0%float) /\ fentry m k k <> 0) ->
  (forall k j, (k < j)%nat -> (j < rows m)%nat -> no_underflow (fentry m k j * FR (nth j x 0%float))) ->
  (forall k, (k < rows m)%nat -> no_underflow (FR (racc (A := AF) m b x k (rows m)) / fentry m k k)) ->
  length x = rows m /\
  exists dU : nat -> nat -> R,
    (forall i j, (i < rows m)%nat -> (j < rows m)%nat -> Rabs (dU i j) <= g64 (rows m) * Rabs (triu64 (mFR m) i j)) /\
    forall i, (i < rows m)%nat ->
      Rsum (rows m) (fun j => (triu64 (mFR m) i j + dU i j) * FR (nth j x 0%float)) = FR (nth i b 0%float).
Proof.
  intros W Sq Lb Hn E Hfin Hup Huq. set (n := rows m) in *.
  assert (SH : shape (A := AF) m n n) by (split; [exact W|split; [reflexivity|symmetry; exact Sq]]).
  destruct (backsolve_trace (A := AF) m n b x SH Lb E) as (Lx & Tr). split; [exact Lx|].
  (* every row of the real images satisfies the perturbed equation with rounding-factor counts *)
  assert (Rows : forall k, (k < n)%nat -> urow_ok u64 Fadd Fsub Fmul Fdiv (mFR m) n (map FR b) (map FR x) k).
  { intros k Hk. specialize (Tr k Hk). cbn in Tr. injection Tr as Tr.
    destruct (Hfin k Hk) as (Fxk & Dk). unfold fentry in Dk.
    change (nth (k * cols m + k) (buf m) 0%float) with (ent (A := AF) m k k) in Dk.
    assert (Fq : ffinite (racc (A := AF) m b x k n / ent (A := AF) m k k)%float).
    { change (@zero AF) with 0%float in Tr. now rewrite Tr. }
    destruct (fdiv_finite_inv _ _ Fq Dk) as (Fr & Eq).
    change (@zero AF) with 0%float in Tr. rewrite Tr in Eq.
    assert (Hu : forall j, In j (seq (k + 1) (n - (k + 1))) ->
               no_underflow (FR (ent (A := AF) m k j) * FR (nth j x 0%float))).
    { intros j Hj. apply in_seq in Hj. apply (Hup k j); lia. }
    destruct (eacc_float_transfer m x k (seq (k + 1) (n - (k + 1))) (nth k b 0%float) Fr Hu) as (_ & Et).
    assert (Era : FR (racc (A := AF) m b x k n)
                  = eacc (A := A64r) (mFR m) (map FR x) k (seq (k + 1) (n - (k + 1))) (FR (nth k b 0%float)))
      by exact Et.
    destruct (eacc_round u64 u64_range Fadd Fsub Fmul Fdiv Fsub_ok Fmul_ok (mFR m) (map FR x) k
                (seq (k + 1) (n - (k + 1))) (FR (nth k b 0%float))) as (P & Wt & HP' & HWt & Er).
    rewrite seq_length in HP', HWt, Er.
    specialize (Huq k Hk). fold n in Huq. unfold fentry in Huq.
    change (nth (k * cols m + k) (buf m) 0%float) with (ent (A := AF) m k k) in Huq.
    destruct (rnd64_rel_ex _ Huq) as (dq & Hdq & Eqr).
    pose proof (bnd_1pd u64 u64_range dq Hdq) as Hed.
    exists (/ (P * (1 + dq))), Wt.
    split; [replace (n - k)%nat with ((n - (k + 1)) + 1)%nat by lia; apply bnd_inv; [exact u64_range|];
            apply bnd_mul; [exact u64_range|exact HP'|exact Hed]|].
    split; [intros t Ht; apply HWt; lia|].
    rewrite !nth_map_FR, rentry_mFR. unfold fentry.
    change (nth (k * cols m + k) (buf m) 0%float) with (ent (A := AF) m k k).
    assert (Exk : FR (nth k x 0%float)
                  = P * (FR (nth k b 0%float)
                         - Rsum (n - (k + 1))
                             (fun t => ent (A := A64r) (mFR m) k (nth t (seq (k + 1) (n - (k + 1))) 0%nat)
                                       * nth (nth t (seq (k + 1) (n - (k + 1))) 0%nat) (map FR x) 0 * Wt t))
                    / FR (ent (A := AF) m k k) * (1 + dq)).
    { rewrite Eq, Eqr. f_equal. f_equal. etransitivity; [exact Era|exact Er]. }
    rewrite Exk.
    replace (n - 1 - k)%nat with (n - (k + 1))%nat by lia.
    rewrite (Rsum_ext (n - (k + 1))
               (fun t => rentry64 (mFR m) k (k + 1 + t) * Wt t * nth (k + 1 + t)%nat (map FR x) 0)
               (fun t => ent (A := A64r) (mFR m) k (nth t (seq (k + 1) (n - (k + 1))) 0%nat)
                         * nth (nth t (seq (k + 1) (n - (k + 1))) 0%nat) (map FR x) 0 * Wt t)).
    2:{ intros t Ht. rewrite seq_nth_lt by exact Ht.
        change (rentry64 (mFR m) k (k + 1 + t)) with (ent (A := A64r) (mFR m) k (k + 1 + t)). ring. }
    pose proof (bnd_nz u64 u64_range _ _ HP'). pose proof (bnd_nz u64 u64_range _ _ Hed).
    field. repeat split; assumption. }
  destruct (fin_choice (fun _ : nat => 0)
              (fun i (d : nat -> R) => (forall j, (j < n)%nat -> Rabs (d j) <= g64 n * Rabs (triu64 (mFR m) i j)) /\
                 Rsum n (fun j => (triu64 (mFR m) i j + d j) * nth j (map FR x) 0) = nth i (map FR b) 0) n) as (F & HF).
  - intros i Hi. apply (urow_to_full u64 u64_range Fadd Fsub Fmul Fdiv (mFR m) n (map FR b) (map FR x) i Hi Hn).
    now apply Rows.
  - exists F. split.
    + intros i j Hi Hj. now apply (proj1 (HF i Hi)).
    + intros i Hi. destruct (HF i Hi) as (_ & Es). rewrite nth_map_FR in Es. rewrite <- Es.
      apply Rsum_ext. intros j Hj. now rewrite nth_map_FR.
Qed.

(* ---------------------------------------------------------------- the forward substitution of solve_lu at the primitive floats *)
Theorem fwdsolve_backward_error_float_lemma (m : matrix AF) (b y : list pfloat) :
  wf m -> rows m = cols m -> length b = rows m -> INR (rows m) * u64 < 1 ->
  fwd_loop (A := AF) m b = Ok y ->
  (forall i, (i < rows m)%nat -> ffinite (nth i y 0%float)) ->
  (forall i j, (j < i)%nat -> (i < rows m)%nat -> no_underflow (fentry m i j * FR (nth j y 0%float))) ->
  length y = rows m /\
  exists dL : nat -> nat -> R,
    (forall i j, (i < rows m)%nat -> (j < rows m)%nat -> Rabs (dL i j) <= g64 (rows m) * Rabs (tril64 (mFR m) i j)) /\
    forall i, (i < rows m)%nat ->
      Rsum (rows m) (fun j => (tril64 (mFR m) i j + dL i j) * FR (nth j y 0%float)) = FR (nth i b 0%float).
Proof.
  intros W Sq Lb Hn E Hfin Hup. set (n := rows m) in *.
  assert (SH : shape (A := AF) m n n) by (split; [exact W|split; [reflexivity|symmetry; exact Sq]]).
  destruct (fwd_loop_trace (A := AF) m n b SH Lb) as (y' & E' & Ly & Tr).
  rewrite E in E'. injection E' as <-. split; [exact Ly|].
  assert (Rows : forall i, (i < n)%nat -> lrow_ok u64 Fadd Fsub Fmul Fdiv (mFR m) (map FR b) (map FR y) i).
  { intros i Hi. specialize (Tr i Hi). change (@zero AF) with 0%float in Tr.
    assert (Fr : ffinite (eacc (A := AF) m y i (seq 0 i) (nth i b 0%float))).
    { change (ffinite (lacc (A := AF) m b y i)). pose proof (Hfin i Hi) as Fi. unfold ffinite in *.
      replace (lacc (A := AF) m b y i) with (nth i y 0%float) by exact Tr. exact Fi. }
    assert (Hu : forall j, In j (seq 0 i) -> no_underflow (FR (ent (A := AF) m i j) * FR (nth j y 0%float))).
    { intros j Hj. apply in_seq in Hj. apply (Hup i j); lia. }
    destruct (eacc_float_transfer m y i (seq 0 i) (nth i b 0%float) Fr Hu) as (_ & Et).
    destruct (eacc_round u64 u64_range Fadd Fsub Fmul Fdiv Fsub_ok Fmul_ok (mFR m) (map FR y) i
                (seq 0 i) (FR (nth i b 0%float))) as (P & Wt & HP' & HWt & Er).
    rewrite seq_length in HP', HWt, Er.
    exists (/ P), Wt. split; [now apply bnd_inv; [exact u64_range|]|]. split; [exact HWt|].
    rewrite !nth_map_FR.
    assert (Eyi : FR (nth i y 0%float)
                  = P * (FR (nth i b 0%float)
                         - Rsum i (fun t => ent (A := A64r) (mFR m) i (nth t (seq 0 i) 0%nat)
                                            * nth (nth t (seq 0 i) 0%nat) (map FR y) 0 * Wt t))).
    { transitivity (FR (lacc (A := AF) m b y i)); [f_equal; exact Tr|]. etransitivity; [exact Et|exact Er]. }
    rewrite Eyi.
    rewrite (Rsum_ext i (fun t => rentry64 (mFR m) i t * Wt t * nth t (map FR y) 0)
               (fun t => ent (A := A64r) (mFR m) i (nth t (seq 0 i) 0%nat)
                         * nth (nth t (seq 0 i) 0%nat) (map FR y) 0 * Wt t)).
    2:{ intros t Ht. rewrite seq_nth_lt by exact Ht. cbn [Nat.add].
        change (rentry64 (mFR m) i t) with (ent (A := A64r) (mFR m) i t). ring. }
    pose proof (bnd_nz u64 u64_range _ _ HP'). field. assumption. }
  destruct (fin_choice (fun _ : nat => 0)
              (fun i (d : nat -> R) => (forall j, (j < n)%nat -> Rabs (d j) <= g64 n * Rabs (tril64 (mFR m) i j)) /\
                 Rsum n (fun j => (tril64 (mFR m) i j + d j) * nth j (map FR y) 0) = nth i (map FR b) 0) n) as (F & HF).
  - intros i Hi. apply (lrow_to_full u64 u64_range Fadd Fsub Fmul Fdiv (mFR m) n (map FR b) (map FR y) i Hi Hn).
    now apply Rows.
  - exists F. split.
    + intros i j Hi Hj. now apply (proj1 (HF i Hi)).
    + intros i Hi. destruct (HF i Hi) as (_ & Es). rewrite nth_map_FR in Es. rewrite <- Es.
      apply Rsum_ext. intros j Hj. now rewrite nth_map_FR.
Qed.

(* ---------------------------------------------------------------- a concrete float system for the examples *)
(* [[2,1],[0,3]] x = [1,1]: x_1 = fl(1/3) is inexact *)
Definition exf_m : matrix AF := @mkM AF [2%float; 1%float; 0%float; 3%float] 2 2.
Definition exf_b : list pfloat := [1%float; 1%float].
Definition exf_x : list pfloat := [((1 - 1 * (1 / 3)) / 2)%float; (1 / 3)%float].

Lemma exf_backsolve : backsolve (A := AF) exf_m exf_b = Ok exf_x.
Proof. vm_compute. reflexivity. Qed.

Lemma exf_conditions :
  (forall k, (k < rows exf_m)%nat -> ffinite (nth k exf_x 0%float) /\ fentry exf_m k k <> 0) /\
  (forall k j, (k < j)%nat -> (j < rows exf_m)%nat -> no_underflow (fentry exf_m k j * FR (nth j exf_x 0%float))) /\
  (forall k, (k < rows exf_m)%nat -> no_underflow (FR (racc (A := AF) exf_m exf_b exf_x k (rows exf_m)) / fentry exf_m k k)).
Proof.
  assert (E1 : FR 1%float = 1) by fr_eval. assert (E2 : FR 2%float = 2) by fr_eval.
  assert (E3 : FR 3%float = 3) by fr_eval.
  assert (B3 : / 4 <= FR (1 / 3)%float <= / 2) by (split; fr_eval).
  assert (B23 : / 2 <= FR (1 - 1 * (1 / 3))%float <= 1) by (split; fr_eval).
  split; [|split].
  - intros [|[|k]] Hk; cbn in Hk; try lia; (split; [apply ffinite_SF; reflexivity|]);
      unfold fentry; cbn [nth exf_m buf cols Nat.mul Nat.add]; rewrite ?E2, ?E3; lra.
  - intros [|[|k]] [|[|j]] Hkj Hj; cbn in Hj; try lia.
    unfold fentry; cbn [nth exf_m exf_x buf cols Nat.mul Nat.add]. rewrite E1.
    apply no_underflow_ge_small. rewrite Rabs_pos_eq; lra.
  - intros [|[|k]] Hk; cbn in Hk; try lia; apply no_underflow_ge_small.
    + change (racc (A := AF) exf_m exf_b exf_x 0 (rows exf_m)) with (1 - 1 * (1 / 3))%float.
      unfold fentry; cbn [nth exf_m buf cols Nat.mul Nat.add]. rewrite E2.
      rewrite Rabs_pos_eq; [|apply Rmult_le_pos; lra]. lra.
    + change (racc (A := AF) exf_m exf_b exf_x 1 (rows exf_m)) with 1%float.
      unfold fentry; cbn [nth exf_m buf cols Nat.mul Nat.add]. rewrite E1, E3.
      rewrite Rabs_pos_eq; lra.
Qed.
