(* Proofs/SparseDupHist.v -- C06 (P2) without the duplicate-freeness hypothesis: every in-range history of
   insert / scale / transpose on ANY well-formed storage returns, and refines the same history of operations on the
   abstract matrix  (i,j) |-> the LIST of the values stored for (i,j)  ([dvals], Proofs/SparseDup.v):
     insert i j v   replaces the head of the list of (i,j) by v (a one-element list when nothing was stored),
     scale a        multiplies every stored value,
     transpose      swaps the arguments.
   The lookup in the final storage is the head of the final list, the dense entry its last element, the entry the
   products work with its sum.  With no position stored twice every list has at most one element and this is
   sp_refines_map (Props/C06.v). *)
From Coq Require Import List Arith Lia Bool Permutation.
From OV Require Import Base.Panic Base.Arith Model.Vector Model.Matrix Model.Sparse
                       Proofs.SparseBase Proofs.SparseMul Proofs.SparseWf Proofs.SparseHist Proofs.SparseViews
                       Proofs.SparseRefine Proofs.SparseTranspose Proofs.SparseFinal Proofs.SparseDup Proofs.SparseDupOps.
Import ListNotations.

Section DupHist.
Context {A : Arith}.
Notation T := (T A).
Notation sparse := (sparse A).

(* the abstract matrix with multiplicities *)
Definition dmap : Type := nat -> nat -> list T.
Definition dabs (s : sparse) : dmap := fun i j => dvals s i j.

Definition dspec_step (F : dmap) (o : sop A) : dmap :=
  match o with
  | SInsert i j v => fun i' j' => if (i' =? i) && (j' =? j) then v :: tl (F i j) else F i' j'
  | SScale a => fun i' j' => map (fun v => mul v a) (F i' j')
  | STranspose => fun i' j' => F j' i'
  end.
Definition dspec_run (ops : list (sop A)) (F : dmap) : dmap := fold_left dspec_step ops F.

Definition dagree (r c : nat) (F G : dmap) : Prop := forall i j, i < r -> j < c -> F i j = G i j.

Lemma dspec_run_agree ops : forall r c F G, ops_ok r c ops -> dagree r c F G ->
  dagree (fst (dims_after r c ops)) (snd (dims_after r c ops)) (dspec_run ops F) (dspec_run ops G).
Proof.
  induction ops as [|o t IH]; intros r c F G Hok H; cbn [dspec_run fold_left dims_after fst snd]; auto.
  destruct o as [i j v|a|]; cbn [dims_after ops_ok] in *.
  - destruct Hok as (Hi & Hj & Hok). apply IH; auto.
    intros i' j' Hi' Hj'. cbn [dspec_step]. rewrite (H i j Hi Hj).
    destruct ((i' =? i) && (j' =? j)); auto.
  - apply IH; auto. intros i' j' Hi' Hj'. cbn [dspec_step]. now rewrite H.
  - apply IH; auto. intros i' j' Hi' Hj'. cbn [dspec_step]. now apply H.
Qed.

(* scale multiplies every stored value *)
Lemma scale_with_duplicates (s : sparse) (a : T) : wfS s ->
  exists s', sp_scale s a = Ok s' /\ wfS s' /\ sp_rows s' = sp_rows s /\ sp_cols s' = sp_cols s /\
    forall i j, j < sp_cols s -> dvals s' i j = map (fun v => mul v a) (dvals s i j).
Proof.
  intros Hwf. exists (with_val s (map (fun v => mul v a) (sp_val s))).
  assert (Hl : length (map (fun v => mul v a) (sp_val s)) = length (sp_val s)) by apply map_length.
  split; [now apply sp_scale_ok|]. split; [now apply with_val_wf|]. split; [reflexivity|]. split; [reflexivity|].
  intros i j Hj. rewrite dvals_with_val. unfold dvals. rewrite map_map. apply map_ext_in. intros k Hk.
  apply (dupk_lt s i j k Hwf Hj) in Hk as [Hk _].
  assert (Hv : length (sp_val s) = sp_nonzero s) by (destruct Hwf as (_ & _ & _ & _ & Hv & _); auto).
  rewrite (nth_indep _ zero (mul zero a)) by (rewrite map_length; lia).
  now rewrite (map_nth (fun v => mul v a)).
Qed.

(* one step *)
Lemma sp_step_dup (s : sparse) o : wfS s -> ops_ok (sp_rows s) (sp_cols s) [o] ->
  exists s', sp_step s o = Ok s' /\ wfS s' /\
    (sp_rows s', sp_cols s') = dims_after (sp_rows s) (sp_cols s) [o] /\
    dagree (sp_rows s') (sp_cols s') (dabs s') (dspec_step (dabs s) o).
Proof.
  intros Hwf Hok. destruct o as [i j v|a|]; cbn [sp_step ops_ok dims_after] in *.
  - destruct Hok as (Hi & Hj & _).
    destruct (insert_with_duplicates_lemma s i j v Hwf Hi Hj) as (s' & E & Hwf' & Hr & Hc & Hd).
    exists s'. split; [auto|]. split; [auto|]. split; [congruence|].
    intros i' j' Hi' Hj'. unfold dabs. cbn [dspec_step]. apply Hd; congruence.
  - destruct (scale_with_duplicates s a Hwf) as (s' & E & Hwf' & Hr & Hc & Hd).
    exists s'. split; [auto|]. split; [auto|]. split; [congruence|].
    intros i' j' Hi' Hj'. unfold dabs. cbn [dspec_step]. apply Hd; congruence.
  - destruct (transpose_duplicates_lemma s Hwf) as (s' & E & Hwf' & Hr & Hc & _ & Hd).
    exists s'. split; [auto|]. split; [auto|]. split; [congruence|].
    intros i' j' Hi' Hj'. unfold dabs. cbn [dspec_step]. apply Hd; congruence.
Qed.

(* every in-range history, on any well-formed storage *)
Theorem history_with_duplicates_lemma (ops : list (sop A)) : forall (s : sparse), wfS s ->
  ops_ok (sp_rows s) (sp_cols s) ops ->
  exists s' D, sp_run ops s = Ok s' /\ wfS s' /\
    (sp_rows s', sp_cols s') = dims_after (sp_rows s) (sp_cols s) ops /\
    sp_to_dense s' = Ok D /\
    forall i j, i < sp_rows s' -> j < sp_cols s' ->
      dvals s' i j = dspec_run ops (dabs s) i j /\
      sp_get s' i j = Ok (hd_error (dspec_run ops (dabs s) i j)) /\
      mget D i j = Ok (last (dspec_run ops (dabs s) i j) zero) /\
      sp_entry s' i j = suml (dspec_run ops (dabs s) i j).
Proof.
  assert (G : forall (s : sparse), wfS s -> ops_ok (sp_rows s) (sp_cols s) ops ->
    exists s', sp_run ops s = Ok s' /\ wfS s' /\
      (sp_rows s', sp_cols s') = dims_after (sp_rows s) (sp_cols s) ops /\
      dagree (sp_rows s') (sp_cols s') (dabs s') (dspec_run ops (dabs s))).
  { unfold sp_run. induction ops as [|o t IH]; intros s Hwf Hok.
    - exists s. cbn [foldM dims_after dspec_run fold_left]. split; [auto|]. split; [auto|]. split; [auto|].
      intros i j _ _. reflexivity.
    - assert (Hok1 : ops_ok (sp_rows s) (sp_cols s) [o]).
      { destruct o; cbn [ops_ok] in *; tauto. }
      destruct (sp_step_dup s o Hwf Hok1) as (s1 & E1 & Hwf1 & Hd1 & Ha1).
      assert (Hokt : ops_ok (sp_rows s1) (sp_cols s1) t).
      { destruct o; cbn [ops_ok dims_after] in *; injection Hd1 as -> ->; tauto. }
      destruct (IH s1 Hwf1 Hokt) as (s' & E' & Hwf' & Hd' & Ha').
      exists s'. cbn [foldM]. rewrite E1. cbn [bind]. split; auto. split; auto. split.
      + rewrite Hd'. destruct o; cbn [dims_after] in *; injection Hd1 as -> ->; reflexivity.
      + intros i j Hi Hj. rewrite Ha' by auto. cbn [dspec_run fold_left].
        pose proof (dspec_run_agree t _ _ _ _ Hokt Ha1) as Hag. rewrite <- Hd' in Hag. cbn [fst snd] in Hag.
        apply Hag; auto. }
  intros s Hwf Hok. destruct (G s Hwf Hok) as (s' & E & Hwf' & Hd & Ha).
  destruct (to_dense_last_duplicate_lemma s' Hwf') as (D & ED & _ & _ & HD).
  exists s', D. split; auto. split; auto. split; auto. split; auto.
  intros i j Hi Hj. specialize (Ha i j Hi Hj). unfold dabs at 1 in Ha. rewrite <- Ha.
  split; [reflexivity|]. split; [now apply get_first_duplicate_lemma|]. split; [now apply HD|reflexivity].
Qed.

End DupHist.
