(* Proofs/Newton2Inst.v -- the affine-systems theorems of Proofs/Newton2Sys.v at the rational
   instance AQ (the arithmetic of the exact tier of the correspondence check) and at the complex
   instance ACR = CArith SAR over the reals (the idealisation of Newton<Vector<Cmplx>>, through
   NCplx: tol/delta are real, |z| = sqrt(re^2 + im^2), delta enters as (delta, 0)).
   Package newton2. *)
From Coq Require Import List Arith Lia Bool ZArith QArith Qcanon Reals Lra.
From OV Require Import Base.Panic Base.Arith Model.Complex Model.Vector Model.Matrix Model.Solve Model.Newton
  Inst.QcInst Proofs.Matrix Proofs.SolveBase Proofs.Solve Proofs.SolveComplete Proofs.SolveQc Proofs.SolveR Proofs.SolveC
  Proofs.NewtonLoop Proofs.Newton Proofs.NewtonJac Proofs.NewtonSys Proofs.Newton2Sys.
Import ListNotations.
Local Open Scope nat_scope.

(* ---------------- Qc ---------------- *)
Lemma Qc_leb_abs0 (tl : Qc) : (0 <= tl)%Qc -> leb (mag (NReal AQ) zero) tl = true.
Proof.
  intros H. change (Qc_leb 0%Qc tl = true). unfold Qc_leb, Qccompare.
  unfold Qcle, Qle in H. unfold Qcompare. unfold Z.le in H.
  destruct (_ ?= _)%Z; auto; congruence.
Qed.

Lemma newton_sys_affine_Qc_lemma (M : matrix AQ) (c0 : list AQ) (tl dl : Qc) n x0 :
  wf M -> rows M = cols M -> 1 <= rows M -> dl <> 0%Qc -> (0 <= tl)%Qc ->
  (exists N : nat -> nat -> AQ, left_inverse (rows M) N (ent M)) ->
  length x0 = cols M -> 2 <= n ->
  exists x evs, newton_sys (NReal AQ) (mkCfg tl dl n x0) (fun p => Ok (aff (NReal AQ) M c0 p)) = Ok (NOk x, evs) /\
    length x = cols M /\ is_root (NReal AQ) M c0 x /\
    (forall y, length y = cols M -> is_root (NReal AQ) M c0 y -> y = x) /\
    length evs <= 2 * (cols M + 2).
Proof.
  intros W Hsq Hne Hd Ht Hinv L0 Hn.
  exact (newton_sys_affine_full (NReal AQ) AQ_FieldLaws AQ_PivLaws M c0 tl dl W Hsq Hne Hd eq_refl
           (Qc_leb_abs0 tl Ht) Hinv n x0 L0 Hn).
Qed.

Lemma newton_sysjac_affine_Qc_lemma (M : matrix AQ) (c0 : list AQ) (tl dl : Qc) n x0 :
  wf M -> rows M = cols M -> 1 <= rows M -> (0 <= tl)%Qc ->
  (exists N : nat -> nat -> AQ, left_inverse (rows M) N (ent M)) ->
  length x0 = cols M -> 2 <= n ->
  exists x evs, newton_sysjac (NReal AQ) (mkCfg tl dl n x0) (fun p => Ok (aff (NReal AQ) M c0 p)) (fun _ => Ok M) = Ok (NOk x, evs) /\
    length x = cols M /\ is_root (NReal AQ) M c0 x /\
    (forall y, length y = cols M -> is_root (NReal AQ) M c0 y -> y = x) /\
    length evs <= 4.
Proof.
  intros W Hsq Hne Ht Hinv L0 Hn.
  exact (newton_sysjac_affine_full (NReal AQ) AQ_FieldLaws AQ_PivLaws M c0 tl dl W Hsq Hne eq_refl
           (Qc_leb_abs0 tl Ht) Hinv n x0 L0 Hn).
Qed.

(* ---------------- C = R[i] through NCplx ---------------- *)
Definition NCR : NOps := NCplx SAR.

Local Open Scope R_scope.

Lemma NCR_mag0 : mag NCR zero = 0.
Proof.
  cbn. unfold abs_sqr. cbn. replace (0 * 0 + 0 * 0) with 0 by ring. apply sqrt_0.
Qed.

Lemma NCR_lt0 : ltb (mag NCR zero) (mag NCR zero) = false.
Proof.
  rewrite NCR_mag0. cbn. unfold R_ltb. destruct (Rlt_dec 0 0); auto; lra.
Qed.

Lemma NCR_le0 (tl : R) : 0 <= tl -> @leb (NR NCR) (mag NCR zero) tl = true.
Proof.
  intros H. rewrite NCR_mag0. cbn. unfold R_leb. destruct (Rle_dec 0 tl); auto; contradiction.
Qed.

Lemma NCR_emb (dl : R) : dl <> 0 -> emb NCR dl <> zero.
Proof. intros H E. apply (f_equal re) in E. cbn in E. contradiction. Qed.

Lemma newton_sys_affine_C_lemma (M : matrix ACR) (c0 : list ACR) (tl dl : R) n x0 :
  wf M -> rows M = cols M -> (1 <= rows M)%nat -> dl <> 0 -> 0 <= tl ->
  (exists N : nat -> nat -> ACR, left_inverse (rows M) N (ent M)) ->
  length x0 = cols M -> (2 <= n)%nat ->
  exists x evs, newton_sys NCR (mkCfg tl dl n x0) (fun p => Ok (aff NCR M c0 p)) = Ok (NOk x, evs) /\
    length x = cols M /\ is_root NCR M c0 x /\
    (forall y, length y = cols M -> is_root NCR M c0 y -> y = x) /\
    (length evs <= 2 * (cols M + 2))%nat.
Proof.
  intros W Hsq Hne Hd Ht Hinv L0 Hn.
  exact (newton_sys_affine_full NCR ACR_FieldLaws ACR_PivLaws M c0 tl dl W Hsq Hne (NCR_emb dl Hd) NCR_lt0
           (NCR_le0 tl Ht) Hinv n x0 L0 Hn).
Qed.

Lemma newton_sysjac_affine_C_lemma (M : matrix ACR) (c0 : list ACR) (tl dl : R) n x0 :
  wf M -> rows M = cols M -> (1 <= rows M)%nat -> 0 <= tl ->
  (exists N : nat -> nat -> ACR, left_inverse (rows M) N (ent M)) ->
  length x0 = cols M -> (2 <= n)%nat ->
  exists x evs, newton_sysjac NCR (mkCfg tl dl n x0) (fun p => Ok (aff NCR M c0 p)) (fun _ => Ok M) = Ok (NOk x, evs) /\
    length x = cols M /\ is_root NCR M c0 x /\
    (forall y, length y = cols M -> is_root NCR M c0 y -> y = x) /\
    (length evs <= 4)%nat.
Proof.
  intros W Hsq Hne Ht Hinv L0 Hn.
  exact (newton_sysjac_affine_full NCR ACR_FieldLaws ACR_PivLaws M c0 tl dl W Hsq Hne NCR_lt0
           (NCR_le0 tl Ht) Hinv n x0 L0 Hn).
Qed.

(* ---- non-vacuity witness at C: [[1, i], [0, 1]] with inverse [[1, -i], [0, 1]] ---- *)
Definition M2c : matrix ACR :=
  @mkM ACR [mkC (A:=AR) 1 0; mkC (A:=AR) 0 1; mkC (A:=AR) 0 0; mkC (A:=AR) 1 0] 2 2.
Definition N2c : matrix ACR :=
  @mkM ACR [mkC (A:=AR) 1 0; mkC (A:=AR) 0 (-1); mkC (A:=AR) 0 0; mkC (A:=AR) 1 0] 2 2.

Lemma M2c_left_inverse : left_inverse (rows M2c) (ent N2c) (ent M2c).
Proof.
  intros i j Hi Hj. change (rows M2c) with 2%nat in *.
  destruct i as [|[|i]]; try lia; destruct j as [|[|j]]; try lia;
    cbn; unfold ent; cbn; apply cplx_eq; cbn; ring.
Qed.
