(* Proofs/RootsRoundCardano.v -- the CARDANO branch of the model's cubic_solve in the standard model of rounding, away from the
   recorded failure class KF-C10-F: FORWARD error of each of the three returned values, and the residual that follows. *)
From Coq Require Import List Arith Bool Reals Lra Lia Psatz.
From Coquelicot Require Import Complex.
From OV Require Import Base.Panic Base.Arith gen.Params Model.Roots Proofs.RootsRound Proofs.RootsRoundCubic.
Import ListNotations.
Local Open Scope R_scope.
Import RRN. Import RCN.

(* the values the model computes in the Cardano branch *)
Definition c_uhat (O : RoundOps) : C := (Ropp (/ 2), o_rdiv O (o_rsqrt O (INR 3)) (INR 2)).
Definition c_khat (eps : R) (O : RoundOps) (a b c d : C) : C :=
  let '(d0, d1, rad) := cubic_disc (RoundRAo eps O) a b c d in
  let sq := o_sqrt O rad in
  o_pow O (o_kdivr O (if cubic_minus (RoundRAo eps O) true d1 sq then o_sub O d1 sq else o_add O d1 sq) (INR 2))
          (o_rdiv O 1 (INR 3), 0).
(* one root from the cube root w: -(b + w + d0/w) / (3a) *)
Definition c_root (O : RoundOps) (a b d0 w : C) : C :=
  o_div O (- (o_add O (o_add O b w) (o_div O d0 w)))%C (o_scale O a (INR 3)).

Lemma cubic_solve_cardano_eq (eps : R) (O : RoundOps) (a b c d : C) :
  ~ (c_d0 O a b c = C0 /\ c_d1 O a b c d = C0) ->
  let k := c_khat eps O a b c d in let u := c_uhat O in let d0 := c_d0 O a b c in
  cubic_solve (RoundRAo eps O) a b c d =
  Ok [c_root O a b d0 k; c_root O a b d0 (o_mul O u k); c_root O a b d0 (o_mul O (o_mul O u u) k)].
Proof.
  intros Hbr k u d0. unfold cubic_solve, cubic_solve_gen. unfold k, c_khat.
  unfold cubic_disc, RoundRAo.
  cbn [osqrt opow RoundRA bind kmulr kdivr kre kconj rhalf KK RR SA rlit of_nat andb KKm RRm sub mul add neg div eqb leb ltb
       zero one T mkk sqrt].
  fold (c_d0 O a b c). fold (c_d1 O a b c d).
  destruct (Ceq_dec (c_d0 O a b c) C0) as [Z0|N0]; destruct (Ceq_dec (c_d1 O a b c d) C0) as [Z1|N1];
    try (exfalso; apply Hbr; split; assumption); reflexivity.
Qed.

(* ---------------------------------------------------------------- exact algebra *)
Definition d0x (a b c : C) : C := (b * b - c3 * a * c)%C.
Definition d1x (a b c d : C) : C := ((C1 + C1) * b * b * b - c3 * c3 * a * b * c + c3 * c3 * c3 * a * a * d)%C.
(* "w^3 is a root of K^2 - d1 K + d0^3": w is one of the six Cardano cube roots *)
Definition cardano_eq (a b c d w : C) : Prop :=
  ((w * w * w) * (w * w * w) - d1x a b c d * (w * w * w) + d0x a b c * d0x a b c * d0x a b c)%C = C0.
Definition cardano_val (a b c w : C) : C := (- (b + w + d0x a b c / w) / (c3 * a))%C.

Lemma cardano_root (a b c d w : C) : a <> C0 -> w <> C0 -> cardano_eq a b c d w ->
  cval a b c d (cardano_val a b c w) = C0.
Proof.
  intros Ha Hw H. unfold cardano_eq in H.
  transitivity (- ((w * w * w) * (w * w * w) - d1x a b c d * (w * w * w) + d0x a b c * d0x a b c * d0x a b c)
                / (c3 * c3 * c3 * a * a * (w * w * w)))%C.
  - unfold cval, cardano_val, d0x, d1x. field. repeat split; first [exact Ha | exact Hw | pair_nz].
  - rewrite H. field. repeat split; first [exact Ha | exact Hw | pair_nz].
Qed.

Lemma cardano_eq_u (a b c d u k : C) : (u * u + u + C1)%C = C0 -> cardano_eq a b c d k -> cardano_eq a b c d (u * k)%C.
Proof.
  intros Hu H. unfold cardano_eq in *.
  assert (U3 : (u * u * u)%C = C1).
  { transitivity ((u - C1) * (u * u + u + C1) + C1)%C; [ring | rewrite Hu; ring]. }
  replace (u * k * (u * k) * (u * k))%C with ((u * u * u) * (k * k * k))%C by ring. rewrite U3.
  replace (C1 * (k * k * k))%C with (k * k * k)%C by ring. exact H.
Qed.

Lemma u_neq0 (u : C) : (u * u + u + C1)%C = C0 -> u <> C0.
Proof.
  intros Hu Z. rewrite Z in Hu. replace (C0 * C0 + C0 + C1)%C with C1 in Hu by ring.
  apply RtoC_inj in Hu. lra.
Qed.

(* ---------------------------------------------------------------- products of near-1 factors, linearised *)
Lemma lin_mul (e al be X Y : R) : 0 <= e <= / 100 -> 0 <= al -> 0 <= be ->
  1 <= X <= 1 + al * e -> 1 <= Y <= 1 + be * e -> 1 <= X * Y <= 1 + (al + be + al * be / 100) * e.
Proof.
  intros He Ha Hb HX HY. split; [nra|].
  assert (X * Y <= (1 + al * e) * (1 + be * e)) by (apply Rmult_le_compat; lra).
  assert (al * be * (e * e) <= al * be * (e / 100)).
  { apply Rmult_le_compat_l; [apply Rmult_le_pos; assumption|]. nra. }
  nra.
Qed.

Lemma lin_inv (e al X : R) : 0 <= e <= / 100 -> 0 <= al <= 20 -> 1 <= X <= 1 + al * e ->
  1 <= / (2 - X) <= 1 + (al + al * al / 80) * e.
Proof.
  intros He Ha HX. assert (Xs : X <= 1.2) by nra. assert (P : 0 < 2 - X) by lra. split.
  - rewrite <- Rinv_1 at 1. apply Rinv_le_contravar; lra.
  - apply (Rmult_le_reg_r (2 - X)); [exact P|]. rewrite Rinv_l by lra.
    assert (K : (1 + (al + al * al / 80) * e) * (1 - al * e) <= (1 + (al + al * al / 80) * e) * (2 - X)).
    { apply Rmult_le_compat_l; [nra|lra]. }
    assert (al * e <= 0.2) by nra.
    assert (0 <= al * al * e) by (repeat apply Rmult_le_pos; lra).
    assert (G : 1 <= (1 + (al + al * al / 80) * e) * (1 - al * e)).
    { replace ((1 + (al + al * al / 80) * e) * (1 - al * e))
        with (1 + (al * al * e) * (/ 80 - e - (al * e) / 80)) by field. nra. }
    lra.
Qed.

(* ---------------------------------------------------------------- one root *)
Lemma sum3_pert (b w q pb pw pq : C) (X kap : R) : near pb X -> near pw X -> near pq X ->
  Cmod b + Cmod w + Cmod q <= kap * Cmod (b + w + q)%C ->
  Cmod ((b * pb + w * pw + q * pq) - (b + w + q))%C <= kap * (X - 1) * Cmod (b + w + q)%C.
Proof.
  intros Hb Hw Hq Hk. pose proof (near_ge1 _ _ Hb) as X1.
  replace (b * pb + w * pw + q * pq - (b + w + q))%C with ((b * pb - b) + (w * pw - w) + (q * pq - q))%C by ring.
  eapply Rle_trans; [apply Cmod_tri3|].
  pose proof (near_pert b pb X Hb). pose proof (near_pert w pw X Hw). pose proof (near_pert q pq X Hq).
  assert ((X - 1) * (Cmod b + Cmod w + Cmod q) <= (X - 1) * (kap * Cmod (b + w + q)%C)) by (apply Rmult_le_compat_l; lra).
  lra.
Qed.

Lemma root_forward (e kap : R) (a b d0 w dh wh q s1 s2 a3 r pw : C) (al : R) :
  0 <= e <= / 100 -> a <> C0 -> w <> C0 -> 0 <= al <= 5.2 ->
  wh = (w * pw)%C -> near pw (1 + al * e) -> relc e dh d0 ->
  relc e q (dh / wh)%C -> relc e s1 (b + wh)%C -> relc e s2 (s1 + q)%C -> relc e a3 (a * RtoC (INR 3))%C ->
  relc e r (- s2 / a3)%C ->
  Cmod b + Cmod w + Cmod (d0 / w)%C <= kap * Cmod (b + w + d0 / w)%C ->
  Cmod (r - (- (b + w + d0 / w) / (c3 * a)))%C <= kap * (12 * e) * Cmod (- (b + w + d0 / w) / (c3 * a))%C.
Proof.
  intros He Ha Hw Hal Ewh Npw Hdh Hq Hs1 Hs2 Ha3 Hr Hk. destruct He as [He0 He]. unfold relc in *.
  destruct (rel_mult e _ _ He0 Hdh) as (e0 & D0 & E0).
  destruct (rel_mult e _ _ He0 Hq) as (e5 & D5 & E5).
  destruct (rel_mult e _ _ He0 Hs1) as (e1 & D1 & E1).
  destruct (rel_mult e _ _ He0 Hs2) as (e2 & D2 & E2).
  destruct (rel_mult e _ _ He0 Ha3) as (e3 & D3 & E3).
  destruct (rel_mult e _ _ He0 Hr) as (e4 & D4 & E4).
  assert (B1 : 1 <= 1 + e <= 1 + 1 * e) by lra.
  assert (Bw : 1 <= 1 + al * e <= 1 + al * e) by nra.
  assert (Npw2 : 1 + al * e < 2) by nra.
  assert (Zpw : pw <> C0) by (apply (near_nz _ _ Npw Npw2)).
  assert (Z3 : (C1 + e3)%C <> C0) by (apply (near_nz _ (1 + e)); [apply near_1pd; exact D3 | lra]).
  set (rho := ((C1 + e4) * / (C1 + e3))%C).
  (* bounds of the three weights *)
  destruct (lin_inv e 1 (1 + e) (conj He0 He) ltac:(lra) B1) as [I3a I3b].
  destruct (lin_inv e al (1 + al * e) (conj He0 He) ltac:(lra) Bw) as [Iwa Iwb].
  assert (Nrho : near rho ((1 + e) * / (2 - (1 + e)))).
  { unfold rho. apply near_mul; [apply near_1pd; exact D4 | apply near_inv; [apply near_1pd; exact D3 | lra]]. }
  assert (Brho : 1 <= (1 + e) * / (2 - (1 + e)) <= 1 + 2.03 * e).
  { pose proof (lin_mul e 1 (1 + 1 * 1 / 80) _ _ (conj He0 He) ltac:(lra) ltac:(lra) B1 (conj I3a I3b)) as K. lra. }
  assert (B2 : 1 <= (1 + e) * (1 + e) <= 1 + 2.01 * e).
  { pose proof (lin_mul e 1 1 _ _ (conj He0 He) ltac:(lra) ltac:(lra) B1 B1) as K. lra. }
  set (pb := ((C1 + e1) * (C1 + e2) * rho)%C).
  set (pw' := (pw * ((C1 + e1) * (C1 + e2)) * rho)%C).
  set (pq := ((C1 + e0) * / pw * ((C1 + e5) * (C1 + e2)) * rho)%C).
  assert (Er : r = (- (b * pb + w * pw' + d0 / w * pq) / (c3 * a))%C).
  { rewrite E4, E3, E2, E1, E5, E0, Ewh, R2C_3. unfold pb, pw', pq, rho. field.
    repeat split; first [exact Ha | exact Hw | exact Zpw | exact Z3 | pair_nz]. }
  set (Y2 := (1 + e) * (1 + e)) in *. set (Yr := (1 + e) * / (2 - (1 + e))) in *.
  assert (B2r : 1 <= Y2 * Yr <= 1 + 4.09 * e).
  { pose proof (lin_mul e 2.01 2.03 _ _ (conj He0 He) ltac:(lra) ltac:(lra) B2 Brho) as K. lra. }
  assert (Npb : near pb (Y2 * Yr)).
  { unfold pb, Y2. apply near_mul; [apply near_mul; apply near_1pd; assumption | exact Nrho]. }
  assert (Npw' : near pw' ((1 + al * e) * Y2 * Yr)).
  { unfold pw', Y2. apply near_mul; [apply near_mul; [exact Npw | apply near_mul; apply near_1pd; assumption] | exact Nrho]. }
  assert (Npq : near pq ((1 + e) * / (2 - (1 + al * e)) * Y2 * Yr)).
  { unfold pq, Y2. apply near_mul; [apply near_mul; [apply near_mul; [apply near_1pd; exact D0 | apply near_inv; [exact Npw|exact Npw2]]
      | apply near_mul; apply near_1pd; assumption] | exact Nrho]. }
  set (X := 1 + 12 * e).
  assert (al2 : al * al <= 5.2 * al) by nra.
  assert (Hpb : Y2 * Yr <= X) by (unfold X; lra).
  assert (Hpw : (1 + al * e) * Y2 * Yr <= X).
  { rewrite Rmult_assoc.
    pose proof (lin_mul e al 4.09 _ _ (conj He0 He) ltac:(lra) ltac:(lra) Bw B2r) as [_ U]. unfold X. nra. }
  assert (Hpq : (1 + e) * / (2 - (1 + al * e)) * Y2 * Yr <= X).
  { rewrite (Rmult_assoc _ Y2 Yr).
    assert (Iw : 1 <= / (2 - (1 + al * e)) <= 1 + 5.54 * e) by (split; [lra | nra]).
    assert (Bq : 1 <= (1 + e) * / (2 - (1 + al * e)) <= 1 + 6.6 * e).
    { pose proof (lin_mul e 1 5.54 _ _ (conj He0 He) ltac:(lra) ltac:(lra) B1 Iw) as K. lra. }
    pose proof (lin_mul e 6.6 4.09 _ _ (conj He0 He) ltac:(lra) ltac:(lra) Bq B2r) as [_ U]. unfold X. lra. }
  pose proof (sum3_pert b w (d0 / w)%C pb pw' pq X kap (near_mono _ _ _ Npb Hpb) (near_mono _ _ _ Npw' Hpw)
                (near_mono _ _ _ Npq Hpq) Hk) as S.
  rewrite Er.
  replace (- (b * pb + w * pw' + d0 / w * pq) / (c3 * a) - - (b + w + d0 / w) / (c3 * a))%C
    with (- ((b * pb + w * pw' + d0 / w * pq) - (b + w + d0 / w)) / (c3 * a))%C
    by (field; repeat split; first [exact Ha | exact Hw | pair_nz]).
  assert (N3a : (c3 * a)%C <> C0) by (apply Cmult_neq_0; [exact c3_neq0 | exact Ha]).
  rewrite !Cmod_div by exact N3a. rewrite !Cmod_opp.
  assert (P3a : 0 < Cmod (c3 * a)%C) by (now apply Cmod_gt_0).
  unfold Rdiv. rewrite <- Rmult_assoc. apply Rmult_le_compat_r; [apply Rlt_le, Rinv_0_lt_compat; exact P3a|].
  unfold X in S. replace (1 + 12 * e - 1) with (12 * e) in S by ring. exact S.
Qed.

(* ---------------------------------------------------------------- the three returned values *)
Theorem cubic_cardano_forward_lemma (eps : R) (O : RoundOps) (a b c d k u : C) (kap : R) :
  0 <= eps <= / 100 -> std_model eps O -> a <> C0 ->
  ~ (c_d0 O a b c = C0 /\ c_d1 O a b c d = C0) ->
  k <> C0 -> cardano_eq a b c d k -> (u * u + u + C1)%C = C0 ->
  relc eps (c_khat eps O a b c d) k -> relc eps (c_uhat O) u -> relc eps (c_d0 O a b c) (d0x a b c) ->
  (forall w : C, w = k \/ w = (u * k)%C \/ w = (u * u * k)%C ->
     Cmod b + Cmod w + Cmod (d0x a b c / w)%C <= kap * Cmod (b + w + d0x a b c / w)%C) ->
  exists r0 r1 r2 : C, cubic_solve (RoundRAo eps O) a b c d = Ok [r0; r1; r2] /\
    cval a b c d (cardano_val a b c k) = C0 /\ cval a b c d (cardano_val a b c (u * k)%C) = C0 /\
    cval a b c d (cardano_val a b c (u * u * k)%C) = C0 /\
    Cmod (r0 - cardano_val a b c k)%C <= kap * (12 * eps) * Cmod (cardano_val a b c k) /\
    Cmod (r1 - cardano_val a b c (u * k)%C)%C <= kap * (12 * eps) * Cmod (cardano_val a b c (u * k)%C) /\
    Cmod (r2 - cardano_val a b c (u * u * k)%C)%C <= kap * (12 * eps) * Cmod (cardano_val a b c (u * u * k)%C).
Proof.
  intros Heps HO Ha Hbr Hk Hcard Hu Hkh Huh Hd0 Hkap.
  pose proof HO as (Hadd & Hsub & Hmul & Hdiv & Hsc & _).
  destruct Heps as [He0 He].
  pose proof (u_neq0 u Hu) as Nu.
  assert (Nuk : (u * k)%C <> C0) by (apply Cmult_neq_0; assumption).
  assert (Nuuk : (u * u * k)%C <> C0) by (repeat apply Cmult_neq_0; assumption).
  pose proof (cardano_eq_u a b c d u k Hu Hcard) as Hcard1.
  pose proof (cardano_eq_u a b c d u (u * k)%C Hu Hcard1) as Hcard2.
  replace (u * (u * k))%C with (u * u * k)%C in Hcard2 by ring.
  rewrite (cubic_solve_cardano_eq eps O a b c d Hbr). cbv zeta.
  set (kh := c_khat eps O a b c d) in *. set (uh := c_uhat O) in *. set (d0h := c_d0 O a b c) in *.
  destruct (rel_mult eps _ _ He0 Hkh) as (dk & Dk & Ek).
  destruct (rel_mult eps _ _ He0 Huh) as (du & Du & Eu).
  destruct (rel_mult eps _ _ He0 (Hmul uh kh)) as (e1 & D1 & E1).
  destruct (rel_mult eps _ _ He0 (Hmul uh uh)) as (e2 & D2 & E2).
  destruct (rel_mult eps _ _ He0 (Hmul (o_mul O uh uh) kh)) as (e3 & D3 & E3).
  (* a3 <> 0 *)
  destruct (rel_mult eps _ _ He0 (Hsc a (INR 3))) as (e4 & D4 & E4).
  assert (N3a : o_scale O a (INR 3) <> C0).
  { rewrite E4, R2C_3. repeat apply Cmult_neq_0; [exact Ha | exact c3_neq0 |].
    apply (near_nz _ (1 + eps)); [apply near_1pd; exact D4 | lra]. }
  assert (E3' : 1 + eps <= 1 + 1 * eps) by lra.
  assert (H2 : (1 + eps) * (1 + eps) <= 1 + 2.01 * eps) by nra.
  assert (L2 : 1 <= (1 + eps) * (1 + eps)) by nra.
  assert (H3 : (1 + eps) * (1 + eps) * (1 + eps) <= 1 + 3.04 * eps).
  { revert H2 L2. generalize ((1 + eps) * (1 + eps)). intros y H2 L2. nra. }
  destruct (numeric_bounds eps (conj He0 He)) as (N5 & _).
  (* one root, generically *)
  assert (ONE : forall (w wh pw : C) (al : R), w <> C0 -> 0 <= al <= 5.2 -> wh = (w * pw)%C -> near pw (1 + al * eps) ->
            Cmod b + Cmod w + Cmod (d0x a b c / w)%C <= kap * Cmod (b + w + d0x a b c / w)%C ->
            Cmod (c_root O a b d0h wh - cardano_val a b c w)%C <= kap * (12 * eps) * Cmod (cardano_val a b c w)).
  { intros w wh pw al Nw Hal Ewh Npw Hkw. unfold c_root, cardano_val.
    assert (Nwh : wh <> C0).
    { rewrite Ewh. apply Cmult_neq_0; [exact Nw|]. apply (near_nz _ _ Npw). nra. }
    apply (root_forward eps kap a b (d0x a b c) w d0h wh (o_div O d0h wh) (o_add O b wh)
             (o_add O (o_add O b wh) (o_div O d0h wh)) (o_scale O a (INR 3)) _ pw al); try assumption.
    - split; assumption.
    - apply Hdiv. exact Nwh.
    - apply Hadd.
    - apply Hadd.
    - apply Hsc.
    - apply Hdiv. exact N3a. }
  do 3 eexists. split; [reflexivity|].
  split; [apply cardano_root; assumption|]. split; [apply cardano_root; assumption|]. split; [apply cardano_root; assumption|].
  split; [|split].
  - apply (ONE k kh (C1 + dk)%C 1); [exact Hk | lra | exact Ek | | apply Hkap; now left].
    replace (1 + 1 * eps) with (1 + eps) by ring. apply near_1pd. exact Dk.
  - apply (ONE (u * k)%C (o_mul O uh kh) ((C1 + du) * (C1 + dk) * (C1 + e1))%C 3.04); [exact Nuk | lra | | | apply Hkap; right; now left].
    + rewrite E1, Eu, Ek. ring.
    + eapply near_mono; [repeat apply near_mul; apply near_1pd; eassumption | exact H3].
  - apply (ONE (u * u * k)%C (o_mul O (o_mul O uh uh) kh) ((C1 + du) * (C1 + du) * (C1 + e2) * (C1 + dk) * (C1 + e3))%C 5.11);
      [exact Nuuk | lra | | | apply Hkap; right; now right].
    + rewrite E3, E2, Eu, Ek. ring.
    + eapply near_mono; [repeat apply near_mul; apply near_1pd; eassumption | lra].
Qed.

(* ---------------------------------------------------------------- forward error -> residual *)
Lemma cubic_forward_to_residual (a b c d x r : C) (tau : R) : 0 <= tau <= / 10 ->
  cval a b c d x = C0 -> Cmod (r - x)%C <= tau * Cmod x ->
  Cmod (cval a b c d r) <= 5 * tau * csize a b c d r.
Proof.
  intros Ht Hx Hr. destruct (Ceq_dec x C0) as [Zx|Nx].
  - rewrite Zx, Cmod_0, Rmult_0_r in Hr. apply Cmod_sub_0 in Hr. rewrite Hr, <- Zx, Hx, Cmod_0.
    apply Rmult_le_pos; [lra|]. unfold csize.
    pose proof (Cmod_ge_0 a). pose proof (Cmod_ge_0 b). pose proof (Cmod_ge_0 c). pose proof (Cmod_ge_0 d). pose proof (Cmod_ge_0 x).
    assert (0 <= Cmod a * Cmod x * Cmod x * Cmod x) by (repeat apply Rmult_le_pos; assumption).
    assert (0 <= Cmod b * Cmod x * Cmod x) by (repeat apply Rmult_le_pos; assumption).
    assert (0 <= Cmod c * Cmod x) by (apply Rmult_le_pos; assumption). lra.
  - set (rho := (r / x)%C).
    assert (Px : 0 < Cmod x) by (now apply Cmod_gt_0).
    assert (Hrho : near rho (1 + tau)).
    { unfold near, rho. replace (r / x - C1)%C with ((r - x) / x)%C by (field; exact Nx).
      rewrite Cmod_div by exact Nx. apply (Rmult_le_reg_r (Cmod x)); [exact Px|].
      unfold Rdiv. rewrite Rmult_assoc, Rinv_l by lra. lra. }
    assert (Er : r = (x * rho)%C) by (unfold rho; field; exact Nx).
    rewrite Er.
    replace (cval a b c d (x * rho)%C)
      with (cval a b c d x + a * x * x * x * (rho * rho * rho - C1) + b * x * x * (rho * rho - C1) + c * x * (rho - C1))%C
      by (unfold cval; ring).
    rewrite Hx.
    pose proof (near_mul _ _ _ _ Hrho Hrho) as Hr2. pose proof (near_mul _ _ _ _ Hr2 Hrho) as Hr3.
    pose proof (near_lo _ _ Hrho) as Lr. unfold near in Hrho, Hr2, Hr3.
    set (Y := 1 + tau) in *. set (g := 2 - Y) in *. set (rr := Cmod rho) in *.
    set (A3 := Cmod a * Cmod x * Cmod x * Cmod x). set (B2 := Cmod b * Cmod x * Cmod x). set (C1' := Cmod c * Cmod x).
    pose proof (Cmod_ge_0 a). pose proof (Cmod_ge_0 b). pose proof (Cmod_ge_0 c). pose proof (Cmod_ge_0 d).
    assert (P3 : 0 <= A3) by (unfold A3; repeat apply Rmult_le_pos; lra).
    assert (P2 : 0 <= B2) by (unfold B2; repeat apply Rmult_le_pos; lra).
    assert (P1 : 0 <= C1') by (unfold C1'; apply Rmult_le_pos; lra).
    assert (U : Cmod (C0 + a * x * x * x * (rho * rho * rho - C1) + b * x * x * (rho * rho - C1) + c * x * (rho - C1))%C
                <= A3 * (Y * Y * Y - 1) + B2 * (Y * Y - 1) + C1' * (Y - 1) + Cmod d * 0).
    { eapply Rle_trans; [apply Cmod_tri4|]. rewrite Cmod_0, !Cmod_mult. fold A3 B2 C1'.
      assert (A3 * Cmod (rho * rho * rho - C1)%C <= A3 * (Y * Y * Y - 1)) by (apply Rmult_le_compat_l; assumption).
      assert (B2 * Cmod (rho * rho - C1)%C <= B2 * (Y * Y - 1)) by (apply Rmult_le_compat_l; assumption).
      assert (C1' * Cmod (rho - C1)%C <= C1' * (Y - 1)) by (apply Rmult_le_compat_l; assumption).
      lra. }
    assert (Pg : 0 <= g) by (unfold g, Y; lra).
    assert (L : A3 * (g * g * g) + B2 * (g * g) + C1' * g + Cmod d <= csize a b c d (x * rho)%C).
    { unfold csize. rewrite Cmod_mult. fold rr.
      assert (G1 : g <= rr) by exact Lr.
      assert (G2 : g * g <= rr * rr) by (apply Rmult_le_compat; lra).
      assert (G3 : g * g * g <= rr * rr * rr) by (apply Rmult_le_compat; nra).
      assert (A3 * (g * g * g) <= A3 * (rr * rr * rr)) by (apply Rmult_le_compat_l; assumption).
      assert (B2 * (g * g) <= B2 * (rr * rr)) by (apply Rmult_le_compat_l; assumption).
      assert (C1' * g <= C1' * rr) by (apply Rmult_le_compat_l; assumption).
      replace (Cmod a * (Cmod x * rr) * (Cmod x * rr) * (Cmod x * rr)) with (A3 * (rr * rr * rr)) by (unfold A3; ring).
      replace (Cmod b * (Cmod x * rr) * (Cmod x * rr)) with (B2 * (rr * rr)) by (unfold B2; ring).
      replace (Cmod c * (Cmod x * rr)) with (C1' * rr) by (unfold C1'; ring). lra. }
    assert (F3 : Y * Y * Y - 1 <= 5 * tau * (g * g * g)).
    { unfold g, Y. assert (0.729 <= (2 - (1 + tau)) * (2 - (1 + tau)) * (2 - (1 + tau))).
      { assert (0.81 <= (2 - (1 + tau)) * (2 - (1 + tau))) by nra. nra. }
      assert ((1 + tau) * (1 + tau) * (1 + tau) - 1 <= 3.31 * tau) by nra. nra. }
    assert (F2 : Y * Y - 1 <= 5 * tau * (g * g)) by (unfold g, Y; nra).
    assert (F1 : Y - 1 <= 5 * tau * g) by (unfold g, Y; nra).
    assert (F0 : 0 <= 5 * tau) by lra.
    pose proof (combine4 A3 B2 C1' (Cmod d) _ _ _ _ g (5 * tau) P3 P2 P1 ltac:(lra) Pg F3 F2 F1 F0) as K.
    assert (K' : 5 * tau * (A3 * (g * g * g) + B2 * (g * g) + C1' * g + Cmod d) <= 5 * tau * csize a b c d (x * rho)%C)
      by (apply Rmult_le_compat_l; [lra|exact L]).
    lra.
Qed.

(* the residual form of cubic_cardano_forward_lemma *)
Theorem cubic_cardano_residual_lemma (eps : R) (O : RoundOps) (a b c d k u : C) (kap : R) :
  0 <= eps <= / 100 -> std_model eps O -> a <> C0 ->
  ~ (c_d0 O a b c = C0 /\ c_d1 O a b c d = C0) ->
  k <> C0 -> cardano_eq a b c d k -> (u * u + u + C1)%C = C0 ->
  relc eps (c_khat eps O a b c d) k -> relc eps (c_uhat O) u -> relc eps (c_d0 O a b c) (d0x a b c) ->
  (forall w : C, w = k \/ w = (u * k)%C \/ w = (u * u * k)%C ->
     Cmod b + Cmod w + Cmod (d0x a b c / w)%C <= kap * Cmod (b + w + d0x a b c / w)%C) ->
  0 <= kap -> kap * (12 * eps) <= / 10 ->
  exists r0 r1 r2 : C, cubic_solve (RoundRAo eps O) a b c d = Ok [r0; r1; r2] /\
    forall x : C, x = r0 \/ x = r1 \/ x = r2 -> Cmod (cval a b c d x) <= 60 * kap * eps * csize a b c d x.
Proof.
  intros Heps HO Ha Hbr Hk Hcard Hu Hkh Huh Hd0 Hkap Pk Hsmall.
  destruct (cubic_cardano_forward_lemma eps O a b c d k u kap Heps HO Ha Hbr Hk Hcard Hu Hkh Huh Hd0 Hkap)
    as (r0 & r1 & r2 & E & Z0 & Z1 & Z2 & F0 & F1 & F2).
  exists r0, r1, r2. split; [exact E|].
  assert (T : 0 <= kap * (12 * eps) <= / 10) by (split; [apply Rmult_le_pos; lra | exact Hsmall]).
  intros x [-> | [-> | ->]].
  - pose proof (cubic_forward_to_residual a b c d _ r0 _ T Z0 F0). lra.
  - pose proof (cubic_forward_to_residual a b c d _ r1 _ T Z1 F1). lra.
  - pose proof (cubic_forward_to_residual a b c d _ r2 _ T Z2 F2). lra.
Qed.

(* ---------------------------------------------------------------- non-vacuity: x^3 - 1 *)
(* the perturbing arithmetic of Proofs/RootsRoundEx.v with Complex::pow returning the exact Cardano cube root -3 of this cubic
   (pow is an oracle of the model: std_model says nothing about it -- its accuracy is the hypothesis relc eps (c_khat ..) k) *)
From OV Require Import Proofs.RootsRoundEx.
Definition cardano_ops (e : R) : RoundOps := {|
  o_radd := Rplus; o_rsub := Rminus; o_rmul := Rmult; o_rdiv := Rdiv; o_rsqrt := R_sqrt.sqrt; o_rfrac := [];
  o_kabs := Cmod; o_kabsA := fun z => RtoC (Cmod z); o_kdivr := fun z r => (z / RtoC r)%C;
  o_kltb := fun _ _ => false; o_kleb := fun _ _ => false; o_pow := fun _ _ => RtoC (-3); o_polar := fun r _ => RtoC r;
  o_add := o_add (pert_ops e); o_sub := o_sub (pert_ops e); o_mul := o_mul (pert_ops e); o_div := o_div (pert_ops e);
  o_scale := o_scale (pert_ops e); o_sqrt := o_sqrt (pert_ops e) |}.

Lemma cardano_nonvacuous_lemma :
  let e := / 1024 in let O := cardano_ops e in
  let a := RtoC 1 in let b := RtoC 0 in let c := RtoC 0 in let d := RtoC (-1) in
  let k := RtoC (-3) in let u : C := (Ropp (/ 2), R_sqrt.sqrt 3 / 2) in
  0 <= e <= / 100 /\ std_model e O /\ a <> C0 /\ ~ (c_d0 O a b c = C0 /\ c_d1 O a b c d = C0) /\
  k <> C0 /\ cardano_eq a b c d k /\ (u * u + u + C1)%C = C0 /\
  relc e (c_khat e O a b c d) k /\ relc e (c_uhat O) u /\ relc e (c_d0 O a b c) (d0x a b c) /\
  (forall w : C, w = k \/ w = (u * k)%C \/ w = (u * u * k)%C ->
     Cmod b + Cmod w + Cmod (d0x a b c / w)%C <= 1 * Cmod (b + w + d0x a b c / w)%C) /\
  0 <= 1 /\ 1 * (12 * e) <= / 10 /\ cardano_val a b c k = RtoC 1.
Proof.
  intros e O a b c d k u.
  assert (He : 0 <= e <= / 100) by (unfold e; lra).
  assert (S3 : R_sqrt.sqrt 3 * R_sqrt.sqrt 3 = 3) by (apply R_sqrt.sqrt_sqrt; lra).
  assert (Hu : (u * u + u + C1)%C = C0).
  { unfold u, Cmult, Cplus, RtoC. cbn [fst snd]. f_equal; nra. }
  assert (Nk : k <> C0) by (intros H; apply RtoC_inj in H; lra).
  assert (Zd0 : c_d0 O a b c = C0).
  { unfold c_d0, O, a, b, c. cbn [o_sub o_mul o_scale cardano_ops pert_ops]. ring. }
  assert (Ed0x : d0x a b c = C0) by (unfold d0x, b, c; ring).
  split; [exact He|]. split; [exact (pert_std_model e (proj1 He))|].
  split; [intros H; apply RtoC_inj in H; lra|].
  split.
  { intros [_ Z1]. unfold c_d1, O, a, b, c, d in Z1. cbn [o_add o_sub o_mul o_scale cardano_ops pert_ops] in Z1.
    rewrite INR_27 in Z1.
    repeat (rewrite <- RtoC_mult in Z1 || rewrite <- RtoC_minus in Z1 || rewrite <- RtoC_plus in Z1).
    apply RtoC_inj in Z1. cbn [INR] in Z1. unfold e in Z1. nra. }
  split; [exact Nk|].
  split.
  { unfold cardano_eq, d1x, d0x, a, b, c, d, k.
    repeat (rewrite <- RtoC_mult || rewrite <- RtoC_minus || rewrite <- RtoC_plus). f_equal. ring. }
  split; [exact Hu|].
  split.
  { unfold relc, c_khat. unfold cubic_disc. cbn. replace (RtoC (-3) - k)%C with C0 by (unfold k; ring).
    rewrite Cmod_0. pose proof (Cmod_ge_0 k). nra. }
  split.
  { assert (Eu : c_uhat O = u).
    { unfold c_uhat, O, u. cbn [o_rdiv o_rsqrt cardano_ops]. cbn [INR]. replace (1 + 1 + 1) with 3 by ring.
      replace (1 + 1) with 2 by ring. reflexivity. }
    unfold relc. rewrite Eu. replace (u - u)%C with C0 by ring. rewrite Cmod_0. pose proof (Cmod_ge_0 u). nra. }
  split.
  { unfold relc. rewrite Zd0, Ed0x. replace (C0 - C0)%C with C0 by ring. rewrite Cmod_0. lra. }
  split.
  { intros w Hw. assert (Nw : w <> C0).
    { pose proof (u_neq0 u Hu) as Nu. destruct Hw as [-> | [-> | ->]]; [exact Nk | now apply Cmult_neq_0 | now repeat apply Cmult_neq_0]. }
    rewrite Ed0x. replace (C0 / w)%C with C0 by (field; exact Nw). unfold b.
    replace (RtoC 0 + w + C0)%C with w by ring. rewrite Cmod_0. lra. }
  split; [lra|]. split; [unfold e; lra|].
  unfold cardano_val. rewrite Ed0x. unfold a, b, k.
  replace (C0 / RtoC (-3))%C with C0 by (field; intros H; apply RtoC_inj in H; lra).
  replace (RtoC 0 + RtoC (-3) + C0)%C with (RtoC (-3)) by ring.
  rewrite <- !RtoC_plus, <- RtoC_mult, <- RtoC_opp, <- RtoC_div by lra. f_equal. field.
Qed.
