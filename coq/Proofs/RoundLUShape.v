(* Proofs/RoundLUShape.v -- over ANY arithmetic (no ring or field law): whatever lu_decomp / gauss_with_pivot return
   has the shape of the input (well-formed buffer, same dimensions).  Partial correctness: "if it returned Ok".
   Needed to apply the rounding analysis of the triangular solves (Proofs/RoundBacksolve.v) to the factors that
   solve_lu and solve_basic actually hand to them in the rounded arithmetic, where no field law is available. *)
From Coq Require Import List Arith Lia Bool.
From OV Require Import Base.Panic Base.Arith Model.Vector Model.Matrix Model.Solve Proofs.Matrix Proofs.LUPrim.
Import ListNotations.

Section Shape.
Context {A : Arith}.
Notation matrix := (matrix A).

Lemma mset_shape (m m' : matrix) r c i j x : shape m r c -> mset m i j x = Ok m' -> shape m' r c.
Proof.
  intros (W & Hr & Hc) E. unfold mset in E. apply bind_ok in E as (b & Eb & E). injection E as <-.
  apply upd_Ok_inv in Eb as (_ & ->). unfold shape, wf in *; cbn. rewrite upd_list_length. auto.
Qed.

Lemma swap_elem_shape (m m' : matrix) r c r1 c1 r2 c2 : shape m r c -> swap_elem m r1 c1 r2 c2 = Ok m' -> shape m' r c.
Proof.
  intros SH E. unfold swap_elem in E.
  apply bind_ok in E as (t & _ & E). apply bind_ok in E as (o & _ & E). apply bind_ok in E as (m1 & E1 & E).
  apply (mset_shape m1 m' r c _ _ _ (mset_shape m m1 r c _ _ _ SH E1) E).
Qed.

Lemma swap_rows_shape (m m' : matrix) r c r1 r2 : shape m r c -> swap_rows m r1 r2 = Ok m' -> shape m' r c.
Proof.
  intros SH E. unfold swap_rows in E. destruct ((rows m <=? r1) || (rows m <=? r2)); [discriminate|].
  refine (for_inv_partial (fun _ (x : matrix) => shape x r c) 0 (cols m) _ m m' ltac:(lia) SH _ E).
  intros j s s1 _ Hs Es. exact (swap_elem_shape s s1 r c _ _ _ _ Hs Es).
Qed.

Lemma vswap_length (x x' : list A) p k : vswap x p k = Ok x' -> length x' = length x.
Proof.
  unfold vswap. intros E. apply bind_ok in E as (a & _ & E). apply bind_ok in E as (b & _ & E).
  apply bind_ok in E as (v1 & E1 & E). apply upd_Ok_inv in E1 as (_ & ->). apply upd_Ok_inv in E as (_ & ->).
  now rewrite !upd_list_length.
Qed.

(* lu_decomp (either variant of the zero-pivot rule) *)
Lemma lu_gen_shape sk (m lu perm : matrix) piv : wf m -> rows m = cols m ->
  lu_gen sk m = Ok (lu, piv, perm) ->
  shape lu (rows m) (rows m) /\ shape perm (rows m) (rows m).
Proof.
  intros W Sq E. set (n := rows m) in *.
  assert (SH : shape m n n) by (split; [exact W|split; [reflexivity|symmetry; exact Sq]]).
  unfold lu_gen in E. fold n in E. rewrite <- Sq in E. fold n in E. rewrite Nat.eqb_refl in E. cbn [negb] in E.
  destruct (eye_ok (A := A) n) as (p0 & Ep & SP & _). rewrite Ep in E. cbn [bind] in E.
  pose (I := fun (_ : nat) (s : matrix * nat * matrix) => shape (fst (fst s)) n n /\ shape (snd s) n n).
  assert (G : I n (lu, piv, perm)).
  { refine (for_inv_partial I 0 n _ (m, 0, p0) (lu, piv, perm) ltac:(lia) _ _ E).
    - split; [exact SH|exact SP].
    - clear E. intros i [[m1 pv] pm] s1 Hi [S1 S2] E. cbn [fst snd] in S1, S2.
      apply bind_ok in E as ([mx imx] & _ & E).
      apply bind_ok in E as ([[m2 pv2] pm2] & E2 & E).
      assert (S2' : shape m2 n n /\ shape pm2 n n).
      { destruct (negb (imx =? i)).
        - apply bind_ok in E2 as (pm' & Ea & E2). apply bind_ok in E2 as (m' & Eb & E2).
          injection E2 as <- _ <-. split; [exact (swap_rows_shape m1 m' n n _ _ S1 Eb)|exact (swap_rows_shape pm pm' n n _ _ S2 Ea)].
        - injection E2 as <- _ <-. now split. }
      destruct S2' as [Sm2 Sp2].
      destruct (sk && eqb mx zero).
      + injection E as <-. split; assumption.
      + apply bind_ok in E as (m3 & E3 & E). injection E as <-. split; [|exact Sp2]. cbn [fst].
        destruct Sm2 as (Wm2 & Rm2 & Cm2). rewrite Rm2 in E3.
        refine (for_inv_partial (fun _ (x : matrix) => shape x n n) (i + 1) n _ m2 m3 ltac:(lia) _ _ E3).
        * repeat split; assumption.
        * intros j s s' Hj Ss Es.
          apply bind_ok in Es as (ii & _ & Es). apply bind_ok in Es as (ji & _ & Es).
          apply bind_ok in Es as (q & _ & Es). apply bind_ok in Es as (s2 & Em & Es).
          pose proof (mset_shape s s2 n n _ _ _ Ss Em) as Ss2.
          destruct Ss2 as (Ws2 & Rs2 & Cs2). rewrite Rs2 in Es.
          refine (for_inv_partial (fun _ (x : matrix) => shape x n n) (i + 1) n _ s2 s' ltac:(lia) _ _ Es).
          -- repeat split; assumption.
          -- intros k t t' Hk St Et.
             apply bind_ok in Et as (a1 & _ & Et). apply bind_ok in Et as (a2 & _ & Et).
             apply bind_ok in Et as (a3 & _ & Et). exact (mset_shape t t' n n _ _ _ St Et). }
  exact G.
Qed.

(* gauss_with_pivot: the eliminated matrix and right-hand side keep their shape *)
Lemma gauss_shape (m m' : matrix) (x x' : list A) : wf m -> rows m = cols m ->
  gauss_with_pivot m x = Ok (m', x') ->
  shape m' (rows m) (rows m) /\ length x' = length x.
Proof.
  intros W Sq E. set (n := rows m) in *.
  assert (SH : shape m n n) by (split; [exact W|split; [reflexivity|symmetry; exact Sq]]).
  unfold gauss_with_pivot in E. fold n in E. apply bind_ok in E as (hi & Eh & E).
  assert (Hh : hi <= n).
  { unfold usub in Eh. destruct (1 <=? n); [|discriminate]. injection Eh as <-. lia. }
  pose (I := fun (_ : nat) (s : matrix * list A) => shape (fst s) n n /\ length (snd s) = length x).
  assert (G : I hi (m', x')).
  { refine (for_inv_partial I 0 hi _ (m, x) (m', x') ltac:(lia) _ _ E).
    - split; [exact SH|reflexivity].
    - clear E. intros k [m1 x1] s1 Hk [S1 L1] E. cbn [fst snd] in S1, L1.
      apply bind_ok in E as ([m2 x2] & E2 & E).
      assert (S2 : shape m2 n n /\ length x2 = length x).
      { unfold partial_pivot in E2. apply bind_ok in E2 as (p & _ & E2). apply bind_ok in E2 as (ma & Ea & E2).
        apply bind_ok in E2 as (xa & Eb & E2). injection E2 as <- <-.
        split; [exact (swap_rows_shape m1 ma n n _ _ S1 Ea)|]. rewrite (vswap_length _ _ _ _ Eb). exact L1. }
      destruct S2 as [Sm2 Lx2]. cbn [fst] in E. destruct (Sm2) as (Wm2 & Rm2 & Cm2). rewrite Rm2 in E.
      refine (for_inv_partial I (k + 1) n _ (m2, x2) s1 ltac:(lia) _ _ E).
      + split; assumption.
      + intros i [m3 x3] s3 Hi [S3 L3] Es. cbn [fst snd] in S3, L3.
        apply bind_ok in Es as (aik & _ & Es). apply bind_ok in Es as (akk & _ & Es).
        apply bind_ok in Es as (el & _ & Es). apply bind_ok in Es as (m4 & E4 & Es).
        apply bind_ok in Es as (xk & _ & Es). apply bind_ok in Es as (xi & _ & Es).
        apply bind_ok in Es as (x4 & Eu & Es). injection Es as <-. cbn [fst snd].
        split.
        * destruct (S3) as (W3 & R3 & C3). rewrite R3 in E4.
          refine (for_inv_partial (fun _ (y : matrix) => shape y n n) k n _ m3 m4 ltac:(lia) S3 _ E4).
          intros j t t' Hj St Et. apply bind_ok in Et as (a1 & _ & Et). apply bind_ok in Et as (a2 & _ & Et).
          exact (mset_shape t t' n n _ _ _ St Et).
        * cbn [snd]. apply upd_Ok_inv in Eu as (_ & ->). rewrite upd_list_length. exact L3. }
  exact G.
Qed.

End Shape.
