(* Proofs/LU.v -- the in-place LU factorisation with partial pivoting of Model/Solve.v
   (src/matrix/solve.rs: lu_decomp_in_place) is a factorisation  P*M = unit_lower(LU)*upper(LU)
   for EVERY square matrix (singular included), over any field with a sane magnitude (PivLaws).
   Loop invariant of the outer loop (column i): the buffer W holds L's multipliers in the finished
   columns k < i (below the diagonal), U's rows in the finished rows, and the Schur complement in
   the block [i,n) x [i,n);  (P*M)[r,c] = sum_{k<i} L[r,k]*U[k,c] + rest_i[r,c].
   Stdlib style only. *)
From Coq Require Import List Arith Lia Bool Ring Ring_theory Field_theory.
From OV Require Import Base.Panic Base.Arith Model.Vector Model.Matrix Model.Solve
  Proofs.Matrix Proofs.LUPrim Proofs.LUSum.
Import ListNotations.
Local Open Scope arith_scope.

Ltac nb :=
  repeat match goal with
  | |- context [?a =? ?b] => destruct (Nat.eqb_spec a b)
  | |- context [?a <? ?b] => destruct (Nat.ltb_spec a b)
  | |- context [?a <=? ?b] => destruct (Nat.leb_spec a b)
  end; cbn [andb orb negb]; try lia; try congruence.

Section LU.
Context {A : Arith} (FL : FieldLaws A) (PL : PivLaws A).
Add Ring Ar : (A_ring FL).
Notation matrix := (matrix A).
Notation inv := (inv FL).

(* ---- the loop nest of lu_gen, named piece by piece (convertible with the model) ---- *)
Definition pivot_loop (m : matrix) (i : nat) : res (A * nat) :=
  for_ i (rows m) (fun k (s : A * nat) =>
    let '(mx, imax) := s in
    let* a := mget m k i in
    if gtb (abs a) mx then Ok (abs a, k) else Ok (mx, imax)) (zero, i).

Definition elim_loop (m : matrix) (i : nat) : res matrix :=
  for_ (i + 1) (rows m) (fun j m =>
    let* ii := mget m i i in
    let* ji := mget m j i in
    let* q := div ji ii in
    let* m := mset m j i q in
    for_ (i + 1) (rows m) (fun k m =>
      let* ji := mget m j i in
      let* ik := mget m i k in
      let* jk := mget m j k in
      mset m j k (jk - ji * ik)) m) m.

Definition swap_phase (m : matrix) (piv : nat) (perm : matrix) (i imax : nat)
  : res (matrix * nat * matrix) :=
  if negb (imax =? i) then
    let* perm := swap_rows perm i imax in
    let* m := swap_rows m i imax in
    Ok (m, S piv, perm)
  else Ok (m, piv, perm).

Definition lu_step (skip_zero : bool) (i : nat) (s : matrix * nat * matrix)
  : res (matrix * nat * matrix) :=
  let '(m, piv, perm) := s in
  let* r := pivot_loop m i in
  let '(max_a, imax) := r in
  let* s := swap_phase m piv perm i imax in
  let '(m, piv, perm) := s in
  if skip_zero && eqb max_a zero then Ok (m, piv, perm) else
  let* m := elim_loop m i in
  Ok (m, piv, perm).

Lemma lu_gen_eq sz (m : matrix) :
  lu_gen sz m = if negb (rows m =? cols m) then Panic Guard else
                let* p0 := eye (rows m) in for_ 0 (rows m) (lu_step sz) (m, 0, p0).
Proof. reflexivity. Qed.

(* ---- 1. the pivot search ---- *)
Lemma abs_zero : abs (@zero A) = zero.
Proof. now apply (pl_abs0 A PL). Qed.

Lemma pivot_loop_ok (W : matrix) n i : shape W n n -> i < n ->
  exists mx imax, pivot_loop W i = Ok (mx, imax) /\ i <= imax < n /\
    (mx = zero -> forall k, i <= k < n -> ent W k i = zero) /\
    (mx <> zero -> ent W imax i <> zero).
Proof.
  intros SH Hi. unfold pivot_loop. destruct (SH) as (_ & Er & _). rewrite Er.
  destruct (for_inv (fun k (s : A * nat) =>
              i <= snd s < n /\
              (fst s = zero -> forall k', i <= k' < k -> ent W k' i = zero) /\
              (fst s = zero \/ fst s = abs (ent W (snd s) i)))
            i n (fun k (s : A * nat) =>
              let '(mx, imax) := s in
              let* a := mget W k i in
              if gtb (abs a) mx then Ok (abs a, k) else Ok (mx, imax)) (zero, i))
    as ([mx imax] & E & Hr & Hz & Hm).
  - lia.
  - cbn. repeat split; try lia. auto.
  - intros k [mx imax] Hk (Hr & Hz & Hm); cbn [fst snd] in *.
    rewrite (mget_ok W n n k i SH) by lia. cbn [bind].
    unfold gtb. destruct (ltb mx (abs (ent W k i))) eqn:L.
    + eexists; split; [reflexivity|]. cbn [fst snd]. repeat split; try lia; auto.
      intros Z. exfalso. rewrite Z in L.
      destruct Hm as [->| ->].
      * rewrite <- abs_zero in L at 1. rewrite (pl_nneg A PL) in L. discriminate.
      * rewrite (pl_nneg A PL) in L. discriminate.
    + eexists; split; [reflexivity|]. cbn [fst snd]. repeat split; try lia; auto.
      intros Z k' Hk'. destruct (Nat.eq_dec k' k) as [->|Hn]; [|apply Hz; auto; lia].
      destruct (eqb (ent W k i) zero) eqn:E0; [now apply (fl_eqb A FL) in E0|].
      apply (eqb_false_neq FL) in E0. apply (pl_pos A PL) in E0. rewrite Z in L. congruence.
  - cbn [fst snd] in *. exists mx, imax. repeat split; auto; try lia.
    intros Hn. destruct Hm as [->| ->]; [congruence|].
    intros Z. apply Hn. rewrite Z. apply abs_zero.
Qed.

(* ---- 2. the elimination of column i ---- *)
Definition elim_ent (W : matrix) (i r c : nat) : A :=
  if i <? r then
    (if c =? i then ent W r i * inv (ent W i i)
     else if i <? c then ent W r c - (ent W r i * inv (ent W i i)) * ent W i c
     else ent W r c)
  else ent W r c.

Lemma elim_loop_ok (W : matrix) n i : shape W n n -> i < n -> ent W i i <> zero ->
  exists W', elim_loop W i = Ok W' /\ shape W' n n /\
    forall r c, r < n -> c < n -> ent W' r c = elim_ent W i r c.
Proof.
  intros SH Hi Hp. unfold elim_loop. destruct (SH) as (_ & Er & _). rewrite Er.
  destruct (for_inv (fun j (s : matrix) => shape s n n /\
              forall r c, r < n -> c < n -> ent s r c = if r <? j then elim_ent W i r c else ent W r c)
            (i + 1) n
            (fun j m =>
              let* ii := mget m i i in
              let* ji := mget m j i in
              let* q := div ji ii in
              let* m := mset m j i q in
              for_ (i + 1) (rows m) (fun k m =>
                let* ji := mget m j i in
                let* ik := mget m i k in
                let* jk := mget m j k in
                mset m j k (jk - ji * ik)) m) W) as (W' & E & S' & V').
  - lia.
  - split; auto. intros r c Hr Hc. unfold elim_ent. nb.
  - intros j s Hj (Ss & Vs).
    rewrite (mget_ok s n n i i Ss), (mget_ok s n n j i Ss) by lia. cbn [bind].
    assert (Eii : ent s i i = ent W i i). { rewrite Vs by lia. unfold elim_ent. nb. }
    assert (Eji : ent s j i = ent W j i). { rewrite Vs by lia. nb. }
    rewrite Eii, Eji. rewrite (div_ok FL) by exact Hp. cbn [bind].
    set (q := ent W j i * inv (ent W i i)).
    destruct (mset_ok s n n j i q Ss) as (s1 & E1 & S1 & V1); [lia|lia|].
    rewrite E1. cbn [bind]. destruct (S1) as (_ & Er1 & _). rewrite Er1.
    destruct (for_inv (fun k (t : matrix) => shape t n n /\
                forall r c, r < n -> c < n -> ent t r c =
                  if r =? j then (if c =? i then q
                                  else if (i <? c) && (c <? k) then ent W j c - q * ent W i c
                                  else ent W j c)
                  else ent s r c)
              (i + 1) n
              (fun k m =>
                let* ji := mget m j i in
                let* ik := mget m i k in
                let* jk := mget m j k in
                mset m j k (jk - ji * ik)) s1) as (t & Et & St & Vt).
    + lia.
    + split; auto. intros r c Hr Hc. rewrite V1 by auto.
      destruct (Nat.eqb_spec r j) as [->|Hn]; cbn [andb]; auto.
      destruct (Nat.eqb_spec c i) as [->|Hn]; auto.
      rewrite Vs by lia. nb.
    + intros k t Hk (St & Vt).
      rewrite (mget_ok t n n j i St), (mget_ok t n n i k St), (mget_ok t n n j k St) by lia.
      cbn [bind].
      destruct (mset_ok t n n j k (ent t j k - ent t j i * ent t i k) St) as (t1 & E2 & S2 & V2); [lia|lia|].
      exists t1; split; auto; split; auto.
      intros r c Hr Hc. rewrite V2 by auto.
      assert (X1 : ent t j i = q). { rewrite Vt by lia. nb. }
      assert (X2 : ent t i k = ent W i k). { rewrite Vt, Vs by lia. unfold elim_ent. nb. }
      assert (X3 : ent t j k = ent W j k). { rewrite Vt by lia. nb. }
      rewrite X1, X2, X3. rewrite Vt by auto. nb.
    + exists t; split; auto; split; auto.
      intros r c Hr Hc. rewrite Vt by auto.
      destruct (Nat.eqb_spec r j) as [->|Hn].
      * replace (j <? S j) with true by (symmetry; apply Nat.ltb_lt; lia).
        unfold elim_ent, q. nb.
      * rewrite Vs by auto. nb.
  - exists W'; split; auto; split; auto.
    intros r c Hr Hc. rewrite V' by auto. apply Nat.ltb_lt in Hr as ->. reflexivity.
Qed.

(* ---- 3. the invariant of the outer loop ---- *)
Definition lu_rest (W : matrix) (i r c : nat) : A :=
  if r <? i then upper W r c else if i <=? c then ent W r c else zero.

Definition lu_inv (M : matrix) (n i : nat) (s : matrix * nat * matrix) : Prop :=
  let '(W, piv, P) := s in
  shape W n n /\ shape P n n /\ exists sw, perm_by_swaps n piv P sw /\
  forall r c, r < n -> c < n ->
    ent M (perm_of sw r) c =
      sum_n i (fun k => (if k <? r then ent W r k else zero) * upper W k c) + lu_rest W i r c.

Lemma swap_phase_ok M n i W piv P imax : lu_inv M n i (W, piv, P) -> i <= imax < n ->
  exists W1 piv1 P1, swap_phase W piv P i imax = Ok (W1, piv1, P1) /\
    lu_inv M n i (W1, piv1, P1) /\ shape W1 n n /\
    forall k c, c < n -> ent W1 k c = ent W (tr i imax k) c.
Proof.
  intros (SW & SP & sw & (Hl & Hs & HP) & HI) Hm. unfold swap_phase.
  destruct (Nat.eqb_spec imax i) as [->|Hn]; cbn [negb].
  - exists W, piv, P. split; auto. split; [|split; auto].
    + split; auto. split; auto. exists sw. split; auto. split; auto.
    + intros k c _. now rewrite tr_same.
  - destruct (swap_rows_ok P n n i imax SP) as (P1 & EP & SP1 & VP); [lia|lia|].
    destruct (swap_rows_ok W n n i imax SW) as (W1 & EW & SW1 & VW); [lia|lia|].
    rewrite EP, EW. cbn [bind].
    exists W1, (S piv), P1. split; auto. split; [|split; auto].
    split; auto. split; auto. exists ((i, imax) :: sw). split.
    + split; [cbn; lia|]. split.
      * constructor; auto. cbn. lia.
      * intros r c Hr Hc. rewrite VP by auto. cbn [perm_of]. apply HP; auto. apply tr_lt; lia.
    + intros r c Hr Hc. cbn [perm_of].
      rewrite HI by (auto; apply tr_lt; lia).
      f_equal.
      * apply sum_n_ext. intros k Hk.
        assert (U : upper W1 k c = upper W k c).
        { unfold upper. rewrite VW by auto. rewrite tr_other by lia. reflexivity. }
        rewrite U. f_equal. rewrite VW by lia.
        unfold tr. nb.
      * unfold lu_rest, upper. rewrite !VW by auto. unfold tr. nb.
Qed.

Lemma skip_phase_ok M n i W piv P : i < n -> lu_inv M n i (W, piv, P) ->
  (forall k, i <= k < n -> ent W k i = zero) -> lu_inv M n (S i) (W, piv, P).
Proof.
  intros Hi (SW & SP & sw & HP & HI) Hz.
  split; auto. split; auto. exists sw. split; auto.
  intros r c Hr Hc. rewrite HI by auto. rewrite sum_n_S.
  unfold lu_rest.
  destruct (Nat.ltb_spec r i) as [Hlt|Hge].
  - replace (r <? S i) with true by (symmetry; apply Nat.ltb_lt; lia).
    replace (i <? r) with false by (symmetry; apply Nat.ltb_ge; lia). ring.
  - destruct (Nat.eq_dec r i) as [->|Hne].
    + rewrite Nat.ltb_irrefl.
      replace (i <? S i) with true by (symmetry; apply Nat.ltb_lt; lia). unfold upper. ring.
    + replace (r <? S i) with false by (symmetry; apply Nat.ltb_ge; lia).
      replace (i <? r) with true by (symmetry; apply Nat.ltb_lt; lia).
      rewrite (Hz r) by lia.
      destruct (Nat.eq_dec c i) as [->|Hc'].
      * rewrite Nat.leb_refl. replace (S i <=? i) with false by (symmetry; apply Nat.leb_gt; lia).
        rewrite (Hz r) by lia. ring.
      * replace (S i <=? c) with (i <=? c) by nb. ring.
Qed.

Lemma elim_phase_ok M n i W piv P W2 : i < n -> lu_inv M n i (W, piv, P) ->
  ent W i i <> zero -> shape W2 n n ->
  (forall r c, r < n -> c < n -> ent W2 r c = elim_ent W i r c) ->
  lu_inv M n (S i) (W2, piv, P).
Proof.
  intros Hi (SW & SP & sw & HP & HI) Hp S2 V2.
  split; auto. split; auto. exists sw. split; auto.
  intros r c Hr Hc. rewrite HI by auto. rewrite sum_n_S.
  assert (E : sum_n i (fun k => (if k <? r then ent W2 r k else zero) * upper W2 k c) =
              sum_n i (fun k => (if k <? r then ent W r k else zero) * upper W k c)).
  { apply sum_n_ext. intros k Hk. f_equal.
    - destruct (Nat.ltb_spec k r); auto. rewrite V2 by lia. unfold elim_ent. nb.
    - unfold upper. destruct (Nat.leb_spec k c); auto. rewrite V2 by lia. unfold elim_ent. nb. }
  rewrite E.
  assert (Ip : inv (ent W i i) * ent W i i = one) by now apply inv_l.
  assert (F1 : forall c', c' < n -> ent W2 i c' = ent W i c').
  { intros c' Hc'. rewrite V2 by lia. unfold elim_ent. now rewrite Nat.ltb_irrefl. }
  unfold lu_rest.
  destruct (Nat.ltb_spec r i) as [Hlt|Hge].
  - replace (r <? S i) with true by (symmetry; apply Nat.ltb_lt; lia).
    replace (i <? r) with false by (symmetry; apply Nat.ltb_ge; lia).
    unfold upper. rewrite (V2 r c) by lia. unfold elim_ent.
    replace (i <? r) with false by (symmetry; apply Nat.ltb_ge; lia). ring.
  - destruct (Nat.eq_dec r i) as [->|Hne].
    + rewrite Nat.ltb_irrefl.
      replace (i <? S i) with true by (symmetry; apply Nat.ltb_lt; lia).
      unfold upper. rewrite F1 by lia. ring.
    + replace (r <? S i) with false by (symmetry; apply Nat.ltb_ge; lia).
      replace (i <? r) with true by (symmetry; apply Nat.ltb_lt; lia).
      unfold upper. rewrite F1 by lia. rewrite !V2 by lia. unfold elim_ent.
      replace (i <? r) with true by (symmetry; apply Nat.ltb_lt; lia).
      rewrite Nat.eqb_refl.
      destruct (Nat.lt_trichotomy c i) as [Hc1|[->|Hc1]].
      * replace (i <=? c) with false by (symmetry; apply Nat.leb_gt; lia).
        replace (S i <=? c) with false by (symmetry; apply Nat.leb_gt; lia). ring.
      * rewrite Nat.leb_refl.
        replace (S i <=? i) with false by (symmetry; apply Nat.leb_gt; lia).
        transitivity (sum_n i (fun k => (if k <? r then ent W r k else zero) * (if k <=? i then ent W k i else zero))
                  + ent W r i * (inv (ent W i i) * ent W i i)); [rewrite Ip|]; ring.
      * replace (i <=? c) with true by (symmetry; apply Nat.leb_le; lia).
        replace (S i <=? c) with true by (symmetry; apply Nat.leb_le; lia).
        replace (c =? i) with false by (symmetry; apply Nat.eqb_neq; lia).
        replace (i <? c) with true by (symmetry; apply Nat.ltb_lt; lia). ring.
Qed.

Lemma lu_step_ok M n i s : i < n -> lu_inv M n i s ->
  exists s', lu_step true i s = Ok s' /\ lu_inv M n (S i) s'.
Proof.
  intros Hi HI. destruct s as [[W piv] P]. unfold lu_step.
  assert (SW : shape W n n) by apply HI.
  destruct (pivot_loop_ok W n i SW Hi) as (mx & imax & Ep & Hm & Hz & Hnz).
  rewrite Ep. cbn [bind].
  destruct (swap_phase_ok M n i W piv P imax HI Hm) as (W1 & piv1 & P1 & Es & HI1 & SW1 & VW1).
  rewrite Es. cbn [bind andb].
  destruct (eqb mx zero) eqn:E0.
  - apply (fl_eqb A FL) in E0. eexists; split; [reflexivity|].
    apply skip_phase_ok; auto.
    intros k Hk. rewrite VW1 by lia. apply Hz; auto.
    assert (tr i imax k < n) by (apply tr_lt; lia).
    unfold tr in *. nb.
  - apply (eqb_false_neq FL) in E0.
    assert (Hp : ent W1 i i <> zero). { rewrite VW1 by lia. rewrite tr_l. auto. }
    destruct (elim_loop_ok W1 n i SW1 Hi Hp) as (W2 & E2 & S2 & V2).
    rewrite E2. cbn [bind]. eexists; split; [reflexivity|].
    eapply elim_phase_ok; eauto.
Qed.

(* ---- 4. the factorisation ---- *)
Lemma lu_decomp_ok (M : matrix) n : shape M n n ->
  exists LU piv P sw, lu_decomp M = Ok (LU, piv, P) /\ shape LU n n /\ shape P n n /\
    perm_by_swaps n piv P sw /\
    forall r c, r < n -> c < n ->
      ent M (perm_of sw r) c = mprod n (unit_lower LU) (upper LU) r c.
Proof.
  intros SH. unfold lu_decomp. rewrite lu_gen_eq.
  destruct (SH) as (_ & Er & Ec). rewrite Er, Ec, Nat.eqb_refl. cbn [negb].
  destruct (@eye_ok A n) as (P0 & E0 & SP0 & V0). rewrite E0. cbn [bind].
  destruct (for_inv (lu_inv M n) 0 n (lu_step true) (M, 0, P0)) as ([[LU piv] P] & E & HI).
  - lia.
  - split; auto. split; auto. exists []. split.
    + split; auto. split; [constructor|]. intros r c Hr Hc. now apply V0.
    + intros r c Hr Hc. cbn [perm_of sum_n]. unfold lu_rest. cbn. ring.
  - intros i s Hi. apply lu_step_ok; lia.
  - destruct HI as (SL & SP & sw & HP & HI).
    exists LU, piv, P, sw. repeat split; auto; try apply SL; try apply SP; try apply HP.
    intros r c Hr Hc. rewrite HI by auto. rewrite (mprod_unit_lower FL) by auto.
    unfold lu_rest. apply Nat.ltb_lt in Hr as ->. reflexivity.
Qed.

(* the product form  P*M = L*U  of the pinned statement *)
Lemma perm_mprod n piv P sw (M : matrix) r c : perm_by_swaps n piv P sw -> r < n -> c < n ->
  mprod n (ent P) (ent M) r c = ent M (perm_of sw r) c.
Proof.
  intros (_ & Hs & HP) Hr Hc. unfold mprod.
  rewrite <- (sum_n_delta_l FL n (perm_of sw r) (fun k => ent M k c)) by now apply perm_of_lt.
  apply sum_n_ext. intros k Hk. now rewrite HP.
Qed.

Lemma lu_spec_lemma (M : matrix) : wf M -> rows M = cols M ->
  exists LU piv P sw, lu_decomp M = Ok (LU, piv, P) /\
    shape LU (rows M) (rows M) /\ shape P (rows M) (rows M) /\
    perm_by_swaps (rows M) piv P sw /\
    forall r c, r < rows M -> c < rows M ->
      mprod (rows M) (ent P) (ent M) r c = mprod (rows M) (unit_lower LU) (upper LU) r c.
Proof.
  intros W E.
  destruct (lu_decomp_ok M (rows M)) as (LU & piv & P & sw & E1 & SL & SP & HP & HI).
  { split; auto. }
  exists LU, piv, P, sw. repeat split; auto; try apply SL; try apply SP; try apply HP.
  intros r c Hr Hc. rewrite (perm_mprod _ _ _ _ _ _ _ HP) by auto. now apply HI.
Qed.

(* ---- 5. determinant: (+/-) the product of U's diagonal, sign by the parity of the exchanges ---- *)
Fixpoint prod_n (n : nat) (f : nat -> A) : A :=
  match n with 0 => one | S n' => prod_n n' f * f n' end.

Lemma determinant_eq (M : matrix) n : shape M n n ->
  exists LU piv P sw, lu_decomp M = Ok (LU, piv, P) /\ shape LU n n /\ shape P n n /\
    perm_by_swaps n piv P sw /\
    (forall r c, r < n -> c < n ->
      ent M (perm_of sw r) c = mprod n (unit_lower LU) (upper LU) r c) /\
    determinant M = Ok (if Nat.even piv then prod_n n (fun i => ent LU i i)
                        else - prod_n n (fun i => ent LU i i)).
Proof.
  intros SH.
  destruct (lu_decomp_ok M n SH) as (LU & piv & P & sw & E & SL & SP & HP & HI).
  exists LU, piv, P, sw. repeat split; auto; try apply SL; try apply SP; try apply HP.
  unfold determinant, determinant_gen. unfold lu_decomp in E. rewrite E. cbn [bind].
  destruct (SH) as (_ & Er & _). rewrite Er.
  destruct (for_inv (fun k (d : A) => d = prod_n k (fun i => ent LU i i)) 0 n
              (fun i (d : A) => let* a := mget LU i i in Ok (d * a)) one) as (d & Ed & Hd).
  - lia.
  - reflexivity.
  - intros i d Hi ->. rewrite (mget_ok LU n n i i SL) by lia. cbn [bind].
    eexists; split; reflexivity.
  - rewrite Ed. cbn [bind]. now rewrite Hd.
Qed.

End LU.
