(* Proofs/ParSchedAccuracy.v -- C16, the half that was only searched in round one: "equal up to reassociation" on
   ARBITRARY data, as a theorem in the STANDARD MODEL of floating-point arithmetic (the arithmetic [ARnd] of
   Proofs/TridiagRound.v: fadd x y = (x + y)(1 + d), fmul x y = x y (1 + d), |d| <= u, arbitrary otherwise; no
   underflow/overflow), about the SAME Gallina function pardot that the correspondence check runs on IEEE floats:

       | fl(pardot t v w) - sum v_i w_i |  <=  ((1 + u)^(len + t + 1) - 1) * sum |v_i| |w_i|

   for every worker count t >= 1 and every length, and the same with exponent len + 1 for the sequential dot; hence
   the two differ by at most the sum of the two bounds ("up to reassociation"), and so does every interleaved
   execution of the scoped-thread program (sched_deterministic).  This is the bound driver/c16.py searches with
   (gamma_(n), n = len + t + 2).
   Route: a left-to-right floating sum of terms y_j from x is EXACTLY x f_0 + sum y_j f_j with every factor a product
   of at most (number of terms) factors (1 + d) [sum_rnd]; a computed product carries one more [prod_factors]; a
   worker's partial sum then carries at most L_k + 1 factors per product, main's additions t more [fac_mul]; the
   exact sums of the chunks add up to the exact sum (pardot_exact at R). *)
From Coq Require Import List Arith Lia Reals Lra Psatz.
From OV Require Import Base.Panic Base.Arith Model.Vector Model.ParDot Model.ParSched
  Proofs.ParDot Proofs.ParSched Proofs.VectorR Proofs.TridiagRound Proofs.BandedDet2Round.
Import ListNotations.
Local Open Scope R_scope.

(* ------------------------------------------------------------------ real sums over lists *)
Fixpoint wsum (ys fs : list R) : R :=
  match ys, fs with y :: ys', f :: fs' => y * f + wsum ys' fs' | _, _ => 0 end.

Definition mulp (p : R * R) : R := fst p * snd p.

Lemma fold_add_shift_gen {X} (f : X -> R) (l : list X) z :
  fold_left (fun acc x => acc + f x) l z = z + Rsum (map f l).
Proof. revert z; induction l as [|x t IH]; intros z; cbn [fold_left map Rsum]; [lra|]. rewrite IH. lra. Qed.

Lemma dotR_Rsum (a b : list R) : dot_raw (A := AR) a b = Rsum (map mulp (combine a b)).
Proof. unfold dot_raw. change (@zero AR) with 0. rewrite (fold_add_shift_gen mulp). apply Rplus_0_l. Qed.

Lemma combine_map_abs (a b : list R) :
  map Rabs (map mulp (combine a b)) = map mulp (combine (map Rabs a) (map Rabs b)).
Proof.
  revert b; induction a as [|x a IH]; intros [|y b]; cbn [map combine]; auto.
  rewrite IH. f_equal. unfold mulp; cbn [fst snd]. apply Rabs_mult.
Qed.

Lemma Rsum_abs_nonneg (l : list R) : 0 <= Rsum (map Rabs l).
Proof. induction l as [|x t IH]; cbn [map Rsum]; [lra|]. pose proof (Rabs_pos x). lra. Qed.

Lemma wsum_err (B : R) (ps fs : list R) : length fs = length ps ->
  Forall (fun f => Rabs (f - 1) <= B) fs -> Rabs (wsum ps fs - Rsum ps) <= B * Rsum (map Rabs ps).
Proof.
  revert fs; induction ps as [|p ps IH]; intros [|f fs] HL HF; cbn [wsum Rsum map length] in *; try discriminate.
  - replace (0 - 0) with 0 by ring. rewrite Rabs_R0. lra.
  - inversion HF as [|? ? Hf HF']; subst. specialize (IH fs ltac:(lia) HF').
    replace (p * f + wsum ps fs - (p + Rsum ps)) with (p * (f - 1) + (wsum ps fs - Rsum ps)) by ring.
    eapply Rle_trans; [apply Rabs_triang|]. rewrite Rabs_mult.
    pose proof (Rabs_pos p). pose proof (Rabs_pos (f - 1)). nra.
Qed.

Lemma wsum_scale g (ps fs : list R) : wsum ps (map (Rmult g) fs) = g * wsum ps fs.
Proof. revert fs; induction ps as [|p ps IH]; intros [|f fs]; cbn [wsum map]; try ring. rewrite IH. ring. Qed.

Section Std.
Variable u : R.
Hypothesis u_range : 0 <= u <= 1.
Variables fadd fsub fmul fdiv : R -> R -> R.
Hypothesis fadd_ok : forall x y, exists d, Rabs d <= u /\ fadd x y = (x + y) * (1 + d).
Hypothesis fmul_ok : forall x y, exists d, Rabs d <= u /\ fmul x y = x * y * (1 + d).

Notation ARnd := (ARnd fadd fsub fmul fdiv).
Notation pw := (pw u).
Notation bnd m := (fun f : R => Rabs (f - 1) <= pw m - 1).

Lemma fac_mul e1 e2 m k : Rabs (e1 - 1) <= pw m - 1 -> Rabs (e2 - 1) <= pw k - 1 ->
  Rabs (e1 * e2 - 1) <= pw (m + k) - 1.
Proof.
  intros H1 H2. unfold BandedDet2Round.pw in *. rewrite pow_add.
  pose proof (pw_ge1 u u_range m) as P1. pose proof (pw_ge1 u u_range k) as P2. unfold BandedDet2Round.pw in *.
  set (P := (1 + u) ^ m) in *. set (Q := (1 + u) ^ k) in *.
  replace (e1 * e2 - 1) with ((e1 - 1) + (e2 - 1) + (e1 - 1) * (e2 - 1)) by ring.
  eapply Rle_trans; [apply Rabs_triang|]. eapply Rle_trans; [apply Rplus_le_compat_r, Rabs_triang|].
  rewrite Rabs_mult. pose proof (Rabs_pos (e1 - 1)). pose proof (Rabs_pos (e2 - 1)). nra.
Qed.

Lemma Forall_bnd_weaken m k fs : (m <= k)%nat -> Forall (bnd m) fs -> Forall (bnd k) fs.
Proof. intros H. apply Forall_impl. intros f. now apply (fac_weaken u u_range). Qed.

(* a left-to-right floating sum from x *)
Lemma sum_rnd (ys : list R) : forall x, exists f0 fs, length fs = length ys /\
  Rabs (f0 - 1) <= pw (length ys) - 1 /\ Forall (bnd (length ys)) fs /\
  fold_left fadd ys x = x * f0 + wsum ys fs.
Proof.
  induction ys as [|y r IH]; intros x.
  - exists 1, []. cbn. repeat split; auto. + replace (1 - 1) with 0 by ring. rewrite Rabs_R0. lra. + ring.
  - cbn [fold_left length]. destruct (fadd_ok x y) as (d & Hd & E).
    destruct (IH (fadd x y)) as (f0 & fs & HL & H0 & HF & EF).
    exists ((1 + d) * f0), ((1 + d) * f0 :: fs). split; [cbn; lia|].
    assert (HB : Rabs ((1 + d) * f0 - 1) <= pw (S (length r)) - 1) by now apply (fac_step u u_range).
    split; [exact HB|]. split.
    + constructor; [exact HB|]. apply (Forall_bnd_weaken (length r)); [lia|exact HF].
    + rewrite EF, E. cbn [wsum]. ring.
Qed.

(* the computed products carry one more factor *)
Lemma prod_factors m (l : list (R * R)) : forall fs, length fs = length l -> Forall (bnd m) fs ->
  exists fs', length fs' = length l /\ Forall (bnd (S m)) fs' /\
    wsum (map (fun p => fmul (fst p) (snd p)) l) fs = wsum (map mulp l) fs'.
Proof.
  induction l as [|p l IH]; intros [|f fs] HL HF; cbn [length] in HL; try discriminate.
  - exists []. cbn. auto.
  - inversion HF as [|? ? Hf HF']; subst. destruct (IH fs ltac:(lia) HF') as (fs' & HL' & HF2 & E).
    destruct (fmul_ok (fst p) (snd p)) as (d & Hd & Em).
    exists ((1 + d) * f :: fs'). split; [cbn; lia|]. split.
    + constructor; [now apply (fac_step u u_range)|exact HF2].
    + cbn [map wsum]. rewrite E, Em. unfold mulp. ring.
Qed.

(* a worker (and the sequential dot): the computed dot is the exact weighted sum *)
Lemma dot_rnd_factors (a b : list R) : exists fs, length fs = length (combine a b) /\
  Forall (bnd (S (length (combine a b)))) fs /\
  dot_raw (A := ARnd) a b = wsum (map mulp (combine a b)) fs.
Proof.
  unfold dot_raw. change (@zero ARnd) with 0. change (@add ARnd) with fadd. change (@mul ARnd) with fmul.
  rewrite <- (fold_left_map_gen fadd (fun p : R * R => fmul (fst p) (snd p))).
  destruct (sum_rnd (map (fun p => fmul (fst p) (snd p)) (combine a b)) 0) as (f0 & fs & HL & _ & HF & E).
  rewrite map_length in HL, HF.
  destruct (prod_factors _ (combine a b) fs HL HF) as (fs' & HL' & HF' & E').
  exists fs'. split; [exact HL'|split; [exact HF'|]].
  etransitivity; [exact E|]. rewrite E', Rmult_0_l. apply Rplus_0_l.
Qed.

Lemma dot_rnd_error (a b : list R) :
  Rabs (dot_raw (A := ARnd) a b - dot_raw (A := AR) a b)
  <= (pw (S (length (combine a b))) - 1) * dot_raw (A := AR) (map Rabs a) (map Rabs b).
Proof.
  destruct (dot_rnd_factors a b) as (fs & HL & HF & E). rewrite E, !dotR_Rsum, <- combine_map_abs.
  apply wsum_err; [now rewrite map_length|exact HF].
Qed.

(* ---- the threaded product ---- *)
Section Chunks.
Variables (v w : list R) (t : nat).
Hypothesis Ht : (1 <= t)%nat.
Hypothesis Hl : length v = length w.

Definition dk (k : nat) : R := dot_raw (A := ARnd) (slice_of v t k) (slice_of w t k).
Definition Sk (k : nat) : R := dot_raw (A := AR) (slice_of v t k) (slice_of w t k).
Definition Mk (k : nat) : R := dot_raw (A := AR) (map Rabs (slice_of v t k)) (map Rabs (slice_of w t k)).
(* the longest chunk is the last one *)
Definition Lmax : nat := length v - (t - 1) * (length v / t).
Definition Bnd : R := pw (Lmax + t + 1) - 1.

Lemma Mk_nonneg k : 0 <= Mk k.
Proof. unfold Mk. rewrite dotR_Rsum, <- combine_map_abs. apply Rsum_abs_nonneg. Qed.

Lemma slice_len_le k : (k < t)%nat -> (length (combine (slice_of v t k) (slice_of w t k)) <= Lmax)%nat.
Proof.
  intros Hk. rewrite combine_length. unfold slice_of, Lmax. rewrite <- Hl. unfold chunk_bounds.
  pose proof (chunk_mul_le (length v) t) as Hc. set (c := (length v / t)%nat) in *.
  rewrite !firstn_length, !skipn_length.
  assert (Hd : (t * c = (t - 1) * c + c)%nat) by (destruct t; [lia|cbn; lia]).
  destruct (Nat.eqb_spec k (t - 1)) as [->|Hne]; [lia|].
  assert (((k + 1) * c - k * c = c)%nat) by nia. lia.
Qed.

(* one partial sum after main's additions: d_k g against the exact chunk sum *)
Lemma chunk_error k g : (k < t)%nat -> Rabs (g - 1) <= pw t - 1 -> Rabs (dk k * g - Sk k) <= Bnd * Mk k.
Proof.
  intros Hk Hg. unfold dk, Sk, Mk, Bnd.
  destruct (dot_rnd_factors (slice_of v t k) (slice_of w t k)) as (fs & HL & HF & E). rewrite E.
  rewrite Rmult_comm, <- wsum_scale, !dotR_Rsum, <- combine_map_abs.
  apply wsum_err; [now rewrite !map_length|].
  apply Forall_forall. intros f Hf. apply in_map_iff in Hf as (f' & <- & Hf').
  rewrite Forall_forall in HF. specialize (HF f' Hf'). cbv beta in HF.
  apply (fac_weaken u u_range _ (t + S (length (combine (slice_of v t k) (slice_of w t k))))).
  - pose proof (slice_len_le k Hk). lia.
  - now apply fac_mul.
Qed.

Lemma main_error (ks : list nat) : Forall (fun k => (k < t)%nat) ks ->
  forall gs, length gs = length ks -> Forall (bnd t) gs ->
  Rabs (wsum (map dk ks) gs - Rsum (map Sk ks)) <= Bnd * Rsum (map Mk ks).
Proof.
  induction 1 as [|k ks Hk Hks IH]; intros [|g gs] HL HF; cbn [length] in HL; try discriminate; cbn [map wsum Rsum].
  - replace (0 - 0) with 0 by ring. rewrite Rabs_R0. lra.
  - inversion HF as [|? ? Hg HF']; subst. specialize (IH gs ltac:(lia) HF').
    replace (dk k * g + wsum (map dk ks) gs - (Sk k + Rsum (map Sk ks)))
      with ((dk k * g - Sk k) + (wsum (map dk ks) gs - Rsum (map Sk ks))) by ring.
    eapply Rle_trans; [apply Rabs_triang|]. pose proof (chunk_error k g Hk Hg). lra.
Qed.

Lemma chunks_exact (x y : list R) : length x = length y ->
  Rsum (map (fun k => dot_raw (A := AR) (slice_of x t k) (slice_of y t k)) (seq 0 t)) = dot_raw (A := AR) x y.
Proof.
  intros Hxy. pose proof (pardot_exact_lemma AR_RingLaws t x y Ht Hxy) as E.
  rewrite (pardot_closed_form_lemma (A := AR) t x y Ht Hxy) in E.
  assert (Ed : dot (A := AR) x y = Ok (dot_raw (A := AR) x y)).
  { unfold dot. change (T AR) with R. rewrite Hxy, Nat.eqb_refl. reflexivity. }
  rewrite Ed in E. injection E as E. rewrite <- E.
  etransitivity; [|symmetry; exact (fold_add_shift_gen (fun k => dot_raw (A := AR) (slice_of x t k) (slice_of y t k)) (seq 0 t) 0)].
  symmetry. apply Rplus_0_l.
Qed.

Lemma slice_of_map {X Y} (f : X -> Y) (l : list X) k : slice_of (map f l) t k = map f (slice_of l t k).
Proof.
  unfold slice_of. rewrite map_length. destruct (chunk_bounds (length l) t k) as [s e].
  now rewrite <- firstn_map, <- skipn_map.
Qed.

Lemma pardot_forward_error_lemma : exists r, pardot (A := ARnd) t v w = Ok r /\
  Rabs (r - dot_raw (A := AR) v w) <= Bnd * dot_raw (A := AR) (map Rabs v) (map Rabs w).
Proof.
  rewrite (pardot_closed_form_lemma (A := ARnd) t v w Ht Hl). eexists; split; [reflexivity|].
  change (@zero ARnd) with 0. change (@add ARnd) with fadd. fold dk.
  rewrite <- (fold_left_map_gen fadd dk).
  destruct (sum_rnd (map dk (seq 0 t)) 0) as (f0 & gs & HL & _ & HF & E).
  rewrite map_length, seq_length in HL, HF. rewrite E.
  replace (0 * f0 + wsum (map dk (seq 0 t)) gs) with (wsum (map dk (seq 0 t)) gs) by ring.
  rewrite <- (chunks_exact v w Hl).
  rewrite <- (chunks_exact (map Rabs v) (map Rabs w)) by (rewrite !map_length; exact Hl).
  rewrite (map_ext (fun k => dot_raw (A := AR) (slice_of (map Rabs v) t k) (slice_of (map Rabs w) t k)) Mk)
    by (intros k; unfold Mk; now rewrite !slice_of_map).
  apply main_error; [|now rewrite seq_length|exact HF].
  apply Forall_forall. intros k Hk. apply in_seq in Hk. lia.
Qed.

Lemma Lmax_le : (Lmax <= length v)%nat.
Proof. unfold Lmax. lia. Qed.

End Chunks.

Lemma dot_forward_error_lemma (v w : list R) : length v = length w -> exists r, dot (A := ARnd) v w = Ok r /\
  Rabs (r - dot_raw (A := AR) v w) <= (pw (length v + 1) - 1) * dot_raw (A := AR) (map Rabs v) (map Rabs w).
Proof.
  intros Hl.
  assert (Ed : dot (A := ARnd) v w = Ok (dot_raw (A := ARnd) v w)).
  { unfold dot. change (T ARnd) with R. rewrite Hl, Nat.eqb_refl. reflexivity. }
  rewrite Ed. eexists; split; [reflexivity|].
  pose proof (dot_rnd_error v w) as H. rewrite combine_length, <- Hl, Nat.min_id in H.
  replace (length v + 1)%nat with (S (length v)) by lia. exact H.
Qed.

End Std.

(* ------------------------------------------------------------------ statements with the bound written out *)
Lemma pardot_forward_error_ex (u : R) (Hu : 0 <= u <= 1) (fadd fsub fmul fdiv : R -> R -> R)
  (Hadd : forall x y, exists d, Rabs d <= u /\ fadd x y = (x + y) * (1 + d))
  (Hmul : forall x y, exists d, Rabs d <= u /\ fmul x y = x * y * (1 + d))
  (t : nat) (v w : list R) : (1 <= t)%nat -> length v = length w ->
  exists r, pardot (A := ARnd fadd fsub fmul fdiv) t v w = Ok r /\
    Rabs (r - dot_raw (A := AR) v w)
    <= ((1 + u) ^ (length v + t + 1) - 1) * dot_raw (A := AR) (map Rabs v) (map Rabs w).
Proof.
  intros Ht Hl.
  destruct (pardot_forward_error_lemma u Hu fadd fsub fmul fdiv Hadd Hmul v w t Ht Hl) as (r & Er & Br).
  exists r. split; [exact Er|]. eapply Rle_trans; [exact Br|]. apply Rmult_le_compat_r.
  - rewrite dotR_Rsum, <- combine_map_abs. apply Rsum_abs_nonneg.
  - unfold Bnd. pose proof (pw_mono u Hu (Lmax v t + t + 1) (length v + t + 1)) as H.
    unfold BandedDet2Round.pw in *. assert (Lmax v t <= length v)%nat by (unfold Lmax; lia). apply Rplus_le_compat_r. apply H. lia.
Qed.

(* the tight form: the exponent is (longest chunk) + t + 1, about len/t + t instead of len *)
Lemma pardot_forward_error_tight_ex (u : R) (Hu : 0 <= u <= 1) (fadd fsub fmul fdiv : R -> R -> R)
  (Hadd : forall x y, exists d, Rabs d <= u /\ fadd x y = (x + y) * (1 + d))
  (Hmul : forall x y, exists d, Rabs d <= u /\ fmul x y = x * y * (1 + d))
  (t : nat) (v w : list R) : (1 <= t)%nat -> length v = length w ->
  exists r, pardot (A := ARnd fadd fsub fmul fdiv) t v w = Ok r /\
    Rabs (r - dot_raw (A := AR) v w)
    <= ((1 + u) ^ ((length v - (t - 1) * (length v / t)) + t + 1) - 1) * dot_raw (A := AR) (map Rabs v) (map Rabs w).
Proof. intros Ht Hl. exact (pardot_forward_error_lemma u Hu fadd fsub fmul fdiv Hadd Hmul v w t Ht Hl). Qed.

Lemma dot_forward_error_ex (u : R) (Hu : 0 <= u <= 1) (fadd fsub fmul fdiv : R -> R -> R)
  (Hadd : forall x y, exists d, Rabs d <= u /\ fadd x y = (x + y) * (1 + d))
  (Hmul : forall x y, exists d, Rabs d <= u /\ fmul x y = x * y * (1 + d))
  (v w : list R) : length v = length w ->
  exists r, dot (A := ARnd fadd fsub fmul fdiv) v w = Ok r /\
    Rabs (r - dot_raw (A := AR) v w)
    <= ((1 + u) ^ (length v + 1) - 1) * dot_raw (A := AR) (map Rabs v) (map Rabs w).
Proof. intros Hl. exact (dot_forward_error_lemma u Hu fadd fsub fmul fdiv Hadd Hmul v w Hl). Qed.

(* "equal up to reassociation": the threaded and the sequential product differ by at most the two bounds *)
Lemma pardot_vs_dot_ex (u : R) (Hu : 0 <= u <= 1) (fadd fsub fmul fdiv : R -> R -> R)
  (Hadd : forall x y, exists d, Rabs d <= u /\ fadd x y = (x + y) * (1 + d))
  (Hmul : forall x y, exists d, Rabs d <= u /\ fmul x y = x * y * (1 + d))
  (t : nat) (v w : list R) : (1 <= t)%nat -> length v = length w ->
  exists rp rs, pardot (A := ARnd fadd fsub fmul fdiv) t v w = Ok rp /\ dot (A := ARnd fadd fsub fmul fdiv) v w = Ok rs /\
    Rabs (rp - rs)
    <= (((1 + u) ^ (length v + t + 1) - 1) + ((1 + u) ^ (length v + 1) - 1)) * dot_raw (A := AR) (map Rabs v) (map Rabs w).
Proof.
  intros Ht Hl.
  destruct (pardot_forward_error_ex u Hu fadd fsub fmul fdiv Hadd Hmul t v w Ht Hl) as (rp & Ep & Bp).
  destruct (dot_forward_error_ex u Hu fadd fsub fmul fdiv Hadd Hmul v w Hl) as (rs & Es & Bs).
  exists rp, rs. split; [exact Ep|split; [exact Es|]].
  replace (rp - rs) with ((rp - dot_raw (A := AR) v w) - (rs - dot_raw (A := AR) v w)) by ring.
  eapply Rle_trans; [apply Rabs_triang|]. rewrite Rabs_Ropp. lra.
Qed.

(* ... and so does every maximal interleaved execution of the scoped-thread program run in that arithmetic *)
Lemma sched_forward_error_ex (u : R) (Hu : 0 <= u <= 1) (fadd fsub fmul fdiv : R -> R -> R)
  (Hadd : forall x y, exists d, Rabs d <= u /\ fadd x y = (x + y) * (1 + d))
  (Hmul : forall x y, exists d, Rabs d <= u /\ fmul x y = x * y * (1 + d))
  (v w : list R) t s0 n s :
  par_program (A := ARnd fadd fsub fmul fdiv) v w t = Ok s0 ->
  steps (A := ARnd fadd fsub fmul fdiv) v w t n s0 s -> terminal (A := ARnd fadd fsub fmul fdiv) v w t s ->
  exists r, main s = MRet (Ok r) /\
    Rabs (r - dot_raw (A := AR) v w)
    <= ((1 + u) ^ (length v + t + 1) - 1) * dot_raw (A := AR) (map Rabs v) (map Rabs w).
Proof.
  intros HP HS HT.
  destruct (sched_deterministic_lemma (A := ARnd fadd fsub fmul fdiv) v w t s0 n s HP HS HT) as [_ Em].
  apply (par_program_ok (A := ARnd fadd fsub fmul fdiv)) in HP as (Ht & Hl & _).
  destruct (pardot_forward_error_ex u Hu fadd fsub fmul fdiv Hadd Hmul t v w Ht Hl) as (r & Er & Br).
  exists r. split; [|exact Br]. now rewrite Em, Er.
Qed.

(* non-vacuity: an arithmetic in the model (every sum and product 25% too large, u = 1/2) *)
Lemma std_model_example :
  0 <= / 2 <= 1 /\
  (forall x y : R, exists d : R, Rabs d <= / 2 /\ (x + y) * (1 + / 4) = (x + y) * (1 + d)) /\
  (forall x y : R, exists d : R, Rabs d <= / 2 /\ x * y * (1 + / 4) = x * y * (1 + d)).
Proof.
  split; [split; lra|]. assert (H : Rabs (/ 4) <= / 2) by (rewrite Rabs_pos_eq; lra).
  split; intros x y; exists (/ 4); split; [exact H|reflexivity|exact H|reflexivity].
Qed.
