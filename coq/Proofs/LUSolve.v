(* Proofs/LUSolve.v -- solve_lu of Model/Solve.v (src/matrix/solve.rs: solve_lu, backsolve) is sound:
   whatever it returns solves M x = b.  P*b through Matrix::multiply, the unit-lower forward
   substitution and the code's backsolve, each by its loop invariant; then
   (P M) x = L (U x) = L y = P b and P is onto.  Stdlib style only. *)
From Coq Require Import List Arith Lia Bool Ring Ring_theory Field_theory.
From OV Require Import Base.Panic Base.Arith Model.Vector Model.Matrix Model.Solve
  Proofs.Matrix Proofs.LUPrim Proofs.LUSum Proofs.LU.
Import ListNotations.
Local Open Scope arith_scope.

Section LUSolve.
Context {A : Arith} (FL : FieldLaws A) (PL : PivLaws A).
Add Ring Ar : (A_ring FL).
Notation matrix := (matrix A).
Notation inv := (inv FL).

(* a list as an index function *)
Definition vn (x : list A) : nat -> A := fun k => nth k x zero.

Lemma vn_upd (x : list A) i v k : i < length x -> vn (upd_list x i v) k = if k =? i then v else vn x k.
Proof. intros H. unfold vn. now apply nth_upd_list. Qed.

(* ---------- dot and Matrix::multiply ---------- *)
Lemma sum_n_shift n (f : nat -> A) : sum_n (S n) f = f 0 + sum_n n (fun k => f (S k)).
Proof.
  induction n as [|n IH].
  - cbn. ring.
  - rewrite (sum_n_S (S n)), IH. rewrite (sum_n_S n). ring.
Qed.

Lemma fold_dot (l : list (A * A)) (acc : A) :
  fold_left (fun acc p => acc + fst p * snd p) l acc =
  acc + sum_n (length l) (fun k => fst (nth k l (zero, zero)) * snd (nth k l (zero, zero))).
Proof.
  revert acc; induction l as [|p t IH]; intros acc; cbn [fold_left length].
  - cbn. ring.
  - rewrite IH, sum_n_shift. cbn [nth]. ring.
Qed.

Lemma dot_raw_sum (u w : list A) : length u = length w ->
  dot_raw u w = sum_n (length u) (fun k => vn u k * vn w k).
Proof.
  intros H. unfold dot_raw. rewrite fold_dot, combine_length, <- H, Nat.min_id.
  transitivity (sum_n (length u) (fun k => vn u k * vn w k)); [|reflexivity].
  rewrite <- (sum_n_ext (length u) (fun k => fst (nth k (combine u w) (zero, zero)) * snd (nth k (combine u w) (zero, zero)))
                (fun k => vn u k * vn w k)).
  - ring.
  - intros k _. rewrite combine_nth by auto. reflexivity.
Qed.

Lemma get_row_ok (m : matrix) r c row : shape m r c -> row < r ->
  exists v, get_row m row = Ok v /\ length v = c /\ forall j, j < c -> vn v j = ent m row j.
Proof.
  intros SH Hr. unfold get_row. destruct (SH) as (W & Er & Ec). rewrite Er, Ec.
  replace (r <=? row) with false by (symmetry; apply Nat.leb_gt; lia).
  destruct (for_inv (fun j (v : list A) => length v = c /\ forall j', j' < j -> vn v j' = ent m row j')
              0 c (fun j v => let* x := rd (buf m) (row * c + j) in upd v j x) (repeat zero c))
    as (v & E & Hl & Hv).
  - lia.
  - split; [apply repeat_length|]. intros; lia.
  - intros j v Hj (Hl & Hv).
    rewrite (rd_ok _ _ zero) by (rewrite W, Er, Ec; now apply idx_lt). cbn [bind].
    rewrite upd_ok by lia. eexists; split; [reflexivity|]. split.
    + now rewrite upd_list_length.
    + intros j' Hj'. rewrite vn_upd by lia. destruct (Nat.eqb_spec j' j) as [->|Hn].
      * unfold ent. now rewrite Ec.
      * apply Hv; lia.
  - exists v; auto.
Qed.

Lemma multiply_ok (m : matrix) r c (v : list A) : shape m r c -> length v = c ->
  exists w, multiply m v = Ok w /\ length w = r /\
    forall i, i < r -> vn w i = mvprod c (ent m) (vn v) i.
Proof.
  intros SH Hv. unfold multiply. destruct (SH) as (W & Er & Ec). rewrite Er, Ec, Hv, Nat.eqb_refl.
  cbn [negb].
  destruct (for_inv (fun i (acc : list A) => length acc = i /\
                forall i', i' < i -> vn acc i' = mvprod c (ent m) (vn v) i')
              0 r (fun row acc => let* r := get_row m row in let* d := dot r v in Ok (acc ++ [d])) [])
    as (w & E & Hl & Hw).
  - lia.
  - split; auto. intros; lia.
  - intros i acc Hi (Hl & Hacc).
    destruct (get_row_ok m r c i SH) as (rw & E1 & L1 & V1); [lia|].
    rewrite E1. cbn [bind]. unfold dot. rewrite L1, Hv, Nat.eqb_refl. cbn [bind].
    eexists; split; [reflexivity|]. split.
    + rewrite app_length; cbn; lia.
    + intros i' Hi'. unfold vn. destruct (Nat.eq_dec i' i) as [->|Hn].
      * rewrite app_nth2 by lia. rewrite Hl, Nat.sub_diag. cbn [nth].
        rewrite dot_raw_sum by lia. rewrite L1. unfold mvprod. apply sum_n_ext.
        intros k Hk. now rewrite V1.
      * rewrite app_nth1 by lia. apply Hacc; lia.
  - exists w; auto.
Qed.

(* ---------- forward substitution with the unit lower triangle ---------- *)
Definition fwd_loop (lu : matrix) (x : list A) : res (list A) :=
  for_ 0 (rows lu) (fun i x =>
    for_ 0 i (fun k x =>
      let* xk := rd x k in
      let* xi := rd x i in
      let* a := mget lu i k in
      upd x i (xi - a * xk)) x) x.

Lemma mvprod_unit_lower n (LU : matrix) (y : nat -> A) r : r < n ->
  mvprod n (unit_lower LU) y r = sum_n r (fun k => ent LU r k * y k) + y r.
Proof.
  intros Hr. unfold mvprod.
  transitivity (sum_n n (fun k => (if k <? r then ent LU r k * y k else zero)
                                  + (if k =? r then y k else zero))).
  - apply sum_n_ext. intros k _. unfold unit_lower. nb; ring.
  - rewrite sum_n_add, (sum_n_pick FL) by auto. f_equal.
    rewrite (sum_n_trunc FL n r) by (try lia; intros k Hk; nb).
    apply sum_n_ext. intros k Hk. nb.
Qed.

Lemma fwd_loop_ok (LU : matrix) n (x0 : list A) : shape LU n n -> length x0 = n ->
  exists y, fwd_loop LU x0 = Ok y /\ length y = n /\
    forall r, r < n -> mvprod n (unit_lower LU) (vn y) r = vn x0 r.
Proof.
  intros SH Hl. unfold fwd_loop. destruct (SH) as (_ & Er & _). rewrite Er.
  destruct (for_inv (fun i (x : list A) => length x = n /\
               (forall r, i <= r -> vn x r = vn x0 r) /\
               (forall r, r < i -> sum_n r (fun k => ent LU r k * vn x k) + vn x r = vn x0 r))
              0 n (fun i x =>
                for_ 0 i (fun k x =>
                  let* xk := rd x k in
                  let* xi := rd x i in
                  let* a := mget LU i k in
                  upd x i (xi - a * xk)) x) x0) as (y & E & Hy & _ & Hd).
  - lia.
  - split; auto. split; auto. intros; lia.
  - intros i x Hi (Hx & Hu & Hd).
    destruct (for_inv (fun k (x' : list A) => length x' = n /\
                 (forall r, r <> i -> vn x' r = vn x r) /\
                 vn x' i = vn x i - sum_n k (fun k' => ent LU i k' * vn x k'))
                0 i (fun k x =>
                  let* xk := rd x k in
                  let* xi := rd x i in
                  let* a := mget LU i k in
                  upd x i (xi - a * xk)) x) as (x' & E' & Hx' & Ho & Hi').
    + lia.
    + split; auto. split; auto. cbn. ring.
    + intros k t Hk (Ht & Ho & Hti).
      rewrite (rd_ok t k zero), (rd_ok t i zero) by lia.
      rewrite (mget_ok LU n n i k SH) by lia. cbn [bind].
      rewrite upd_ok by lia. eexists; split; [reflexivity|]. split; [now rewrite upd_list_length|]. split.
      * intros r Hr. rewrite vn_upd by lia. rewrite (proj2 (Nat.eqb_neq _ _) Hr). now apply Ho.
      * rewrite vn_upd by lia. rewrite Nat.eqb_refl. fold (vn t i) (vn t k). rewrite Hti, sum_n_S.
        rewrite (Ho k) by lia. ring.
    + exists x'; split; auto. split; auto. split.
      * intros r Hr. rewrite Ho by lia. apply Hu; lia.
      * intros r Hr. destruct (Nat.eq_dec r i) as [->|Hn].
        -- rewrite Hi'. rewrite <- (Hu i) by lia.
           rewrite (sum_n_ext i (fun k => ent LU i k * vn x' k) (fun k => ent LU i k * vn x k))
             by (intros k Hk; rewrite Ho by lia; reflexivity).
           ring.
        -- rewrite Ho by auto. rewrite <- (Hd r) by lia. f_equal.
           apply sum_n_ext. intros k Hk. rewrite Ho by lia. reflexivity.
  - exists y; split; auto. split; auto.
    intros r Hr. rewrite mvprod_unit_lower by auto. now apply Hd.
Qed.

(* ---------- backsolve ---------- *)
(* once x[k] has been set to (y_k - sum_{j>k} U_kj x_j)/U_kk, row k of U x = y holds *)
Lemma row_done (U : matrix) n k (xf : nat -> A) (yk : A) : k < n -> ent U k k <> zero ->
  xf k = (yk - sum_n n (fun j => if k <? j then ent U k j * xf j else zero)) * inv (ent U k k) ->
  mvprod n (upper U) xf k = yk.
Proof.
  intros Hk Hd Hx. unfold mvprod.
  transitivity (sum_n n (fun j => (if j =? k then ent U k j * xf j else zero)
                                  + (if k <? j then ent U k j * xf j else zero))).
  - apply sum_n_ext. intros j _. unfold upper. nb; ring.
  - rewrite sum_n_add, (sum_n_pick FL) by auto. rewrite Hx.
    set (s := sum_n n (fun j => if k <? j then ent U k j * xf j else zero)).
    assert (Ip : inv (ent U k k) * ent U k k = one) by now apply inv_l.
    transitivity ((yk - s) * (inv (ent U k k) * ent U k k) + s); [ring|]. rewrite Ip. ring.
Qed.

Lemma backsolve_sound (U : matrix) n (y z : list A) : shape U n n -> length y = n ->
  backsolve U y = Ok z ->
  length z = n /\ forall k, k < n -> mvprod n (upper U) (vn z) k = vn y k.
Proof.
  intros SH Hl H. unfold backsolve in H. destruct (SH) as (_ & Er & _). rewrite Er in H.
  unfold usub in H at 1. destruct (Nat.leb_spec 1 n) as [Hn|Hn]; [|discriminate]. cbn [bind] in H.
  rewrite (rd_ok y (n - 1) zero) in H by lia.
  rewrite (mget_ok U n n (n - 1) (n - 1) SH) in H by lia. cbn [bind] in H.
  destruct (div (nth (n - 1) y zero) (ent U (n - 1) (n - 1))) as [q|] eqn:Eq; [|discriminate].
  apply (div_Ok_inv FL) in Eq as (Hd0 & Hq). cbn [bind] in H.
  rewrite upd_ok in H by lia. cbn [bind] in H.
  (* invariant: rows >= n+1-n' are solved, rows below are untouched *)
  pose (J := fun (n' : nat) (x : list A) => length x = n /\
               (forall k, k < n + 1 - n' -> vn x k = vn y k) /\
               (forall k, n + 1 - n' <= k < n -> mvprod n (upper U) (vn x) k = vn y k)).
  assert (HJ : J (n + 1)%nat z).
  { eapply (for_inv_partial J 2 (n + 1)%nat); [lia| | |exact H].
    - (* after the first division *)
      split; [now rewrite upd_list_length|]. split.
      + intros k Hk. rewrite vn_upd by lia. replace (k =? n - 1) with false by (symmetry; apply Nat.eqb_neq; lia). reflexivity.
      + intros k Hk. assert (k = (n - 1)%nat) as -> by lia.
        apply row_done; auto; [lia|].
        rewrite vn_upd by lia. rewrite Nat.eqb_refl.
        rewrite (sum_n_zero FL) by (intros j Hj; nb). rewrite Hq. unfold vn. ring.
    - (* one step: row k = n - n' *)
      clear H. intros n' x x1 Hn' (Hx & Hu & Hdn) H.
      unfold usub in H. replace (n' <=? n) with true in H by (symmetry; apply Nat.leb_le; lia).
      cbn [bind] in H. set (k := (n - n')%nat) in *.
      destruct (for_inv (fun j (x' : list A) => length x' = n /\
                   (forall r, r <> k -> vn x' r = vn x r) /\
                   vn x' k = vn x k - sum_n j (fun j' => if k <? j' then ent U k j' * vn x j' else zero))
                  (k + 1)%nat n (fun j x =>
                     let* xj := rd x j in
                     let* xk := rd x k in
                     let* a := mget U k j in
                     upd x k (xk - a * xj)) x) as (x' & E' & Hx' & Ho & Hk').
      + lia.
      + split; auto. split; auto. rewrite (sum_n_zero FL); [ring|]. intros j Hj. unfold k. nb.
      + intros j t Hj (Ht & Ho & Htk).
        rewrite (rd_ok t j zero), (rd_ok t k zero) by (unfold k; lia).
        rewrite (mget_ok U n n k j SH) by (unfold k; lia). cbn [bind].
        rewrite upd_ok by (unfold k; lia). eexists; split; [reflexivity|].
        split; [now rewrite upd_list_length|]. split.
        * intros r Hr. rewrite vn_upd by (unfold k; lia). rewrite (proj2 (Nat.eqb_neq _ _) Hr). now apply Ho.
        * rewrite vn_upd by (unfold k; lia). rewrite Nat.eqb_refl. fold (vn t k) (vn t j).
          rewrite Htk, sum_n_S. replace (k <? j) with true by (symmetry; apply Nat.ltb_lt; unfold k; lia).
          rewrite (Ho j) by (unfold k; lia). ring.
      + rewrite E' in H. cbn [bind] in H.
        rewrite (rd_ok x' k zero) in H by (unfold k; lia).
        rewrite (mget_ok U n n k k SH) in H by (unfold k; lia). cbn [bind] in H.
        destruct (div (nth k x' zero) (ent U k k)) as [q'|] eqn:Eq'; [|discriminate].
        apply (div_Ok_inv FL) in Eq' as (Hd & Hq'). cbn [bind] in H.
        rewrite upd_ok in H by (unfold k; lia). injection H as <-.
        split; [now rewrite upd_list_length|]. split.
        * intros r Hr. rewrite vn_upd by (unfold k; lia).
          replace (r =? k) with false by (symmetry; apply Nat.eqb_neq; unfold k; lia).
          rewrite Ho by (unfold k; lia). apply Hu. lia.
        * intros r Hr. destruct (Nat.eq_dec r k) as [->|Hne].
          -- apply row_done; auto; [unfold k; lia|].
             rewrite vn_upd by (unfold k; lia). rewrite Nat.eqb_refl. rewrite Hq'. fold (vn x' k).
             rewrite Hk'. rewrite (Hu k) by (unfold k; lia).
             f_equal. f_equal. apply sum_n_ext. intros j Hj.
             destruct (Nat.ltb_spec k j); auto.
             rewrite vn_upd by (unfold k; lia).
             replace (j =? k) with false by (symmetry; apply Nat.eqb_neq; lia).
             rewrite Ho by lia. reflexivity.
          -- rewrite <- (Hdn r) by (unfold k in Hne; lia). unfold mvprod. apply sum_n_ext.
             intros j Hj. unfold upper. destruct (Nat.leb_spec r j); [|ring].
             rewrite vn_upd by (unfold k; lia).
             replace (j =? k) with false by (symmetry; apply Nat.eqb_neq; unfold k in *; lia).
             rewrite Ho by (unfold k in *; lia). reflexivity. }
  destruct HJ as (Hz & _ & Hdn). split; auto. intros k Hk. apply Hdn. lia.
Qed.

(* ---------- (P M) z = L (U z) ---------- *)
Lemma lu_combine (M LU : matrix) n (sigma : nat -> nat) (y z x0 : nat -> A) :
  (forall r c, r < n -> c < n -> ent M (sigma r) c = mprod n (unit_lower LU) (upper LU) r c) ->
  (forall r, r < n -> mvprod n (unit_lower LU) y r = x0 r) ->
  (forall k, k < n -> mvprod n (upper LU) z k = y k) ->
  forall r, r < n -> mvprod n (ent M) z (sigma r) = x0 r.
Proof.
  intros HM Hy Hz r Hr.
  transitivity (mvprod n (mprod n (unit_lower LU) (upper LU)) z r).
  - unfold mvprod at 1 2. apply sum_n_ext. intros c Hc. now rewrite HM.
  - rewrite (mprod_mvprod FL). rewrite <- Hy by auto. unfold mvprod at 1 3.
    apply sum_n_ext. intros k Hk. now rewrite Hz.
Qed.

(* ---------- solve_lu ---------- *)
Lemma solve_lu_shape_sound (M : matrix) n (b x : list A) : shape M n n -> length b = n ->
  solve_lu M b = Ok x ->
  length x = n /\ forall i, i < n -> mvprod n (ent M) (vn x) i = vn b i.
Proof.
  intros SH Hb H. unfold solve_lu in H. destruct (SH) as (_ & Er & Ec).
  rewrite Er, Ec, Hb, Nat.eqb_refl in H. cbn [negb] in H.
  destruct (lu_decomp_ok FL PL M n SH) as (LU & piv & P & sw & E & SL & SP & (_ & Hs & HP) & HI).
  rewrite E in H. cbn [bind] in H.
  destruct (multiply_ok P n n b SP Hb) as (x0 & E0 & L0 & V0). rewrite E0 in H. cbn [bind] in H.
  destruct (fwd_loop_ok LU n x0 SL L0) as (y & Ey & Ly & Vy).
  unfold fwd_loop in Ey. rewrite Ey in H. cbn [bind] in H.
  destruct (backsolve_sound LU n y x SL Ly H) as (Lx & Vx).
  split; auto. intros i Hi.
  destruct (perm_of_surj n sw i Hs Hi) as (r & Hr & <-).
  rewrite (lu_combine M LU n (perm_of sw) (vn y) (vn x) (vn x0)); auto.
  rewrite V0 by auto. unfold mvprod.
  rewrite <- (sum_n_delta_l FL n (perm_of sw r) (vn b)) by now apply perm_of_lt.
  apply sum_n_ext. intros k Hk. now rewrite HP.
Qed.

Lemma solve_lu_sound_lemma (M : matrix) (b x : list A) :
  wf M -> rows M = cols M -> length b = rows M -> solve_lu M b = Ok x ->
  length x = rows M /\
  forall i, i < rows M -> mvprod (rows M) (ent M) (fun k => nth k x zero) i = nth i b zero.
Proof.
  intros W E Hb H.
  apply (solve_lu_shape_sound M (rows M) b x); auto. split; auto.
Qed.

End LUSolve.
