(* Proofs/SrcEqWrapNewton.v -- src/newton.rs: the setters tolerance / delta / iterations / guess and parameters
   regenerated from the source of this run as gen/SrcWrapNewton.v and each proved equal to its hand-written model (package C17).
   Every consuming operator form computes exactly what the by-reference form computes; every Clone impl is the identity that
   the translation of `x.clone()` assumes. *)
From Coq Require Import List Arith ZArith Lia Bool.
From OV Require Import Base.Panic Base.Arith Model.Vector Model.Matrix Model.Tridiag Model.Banded Model.Poly Model.Newton gen.SrcPrelude gen.SrcWrapNewton Proofs.SrcEqBase.
Import ListNotations.

Section SrcEqWrapNewton.
Context {A : Arith}.

Lemma src_newton_tolerance (c : ncfg (T A) (T A)) (x : T A) : s_newton_tolerance c x = Ok (mkCfg x (delta c) (max_iter c) (guess c)).
Proof. reflexivity. Qed.
Lemma src_newton_delta (c : ncfg (T A) (T A)) (x : T A) : s_newton_delta c x = Ok (mkCfg (tol c) x (max_iter c) (guess c)).
Proof. reflexivity. Qed.
Lemma src_newton_iterations (c : ncfg (T A) (T A)) (n : nat) : s_newton_iterations c n = Ok (mkCfg (tol c) (delta c) n (guess c)).
Proof. reflexivity. Qed.
Lemma src_newton_guess (c : ncfg (T A) (T A)) (x : T A) : s_newton_guess c x = Ok (mkCfg (tol c) (delta c) (max_iter c) x).
Proof. reflexivity. Qed.
Lemma src_newton_parameters (c : ncfg (T A) (T A)) : s_newton_parameters c = Ok (tol c, delta c, max_iter c, guess c).
Proof. reflexivity. Qed.

Definition model_is_source_WrapNewton : Prop :=
  (forall (c : ncfg (T A) (T A)) (x : T A), s_newton_tolerance c x = Ok (mkCfg x (delta c) (max_iter c) (guess c))) /\
  (forall (c : ncfg (T A) (T A)) (x : T A), s_newton_delta c x = Ok (mkCfg (tol c) x (max_iter c) (guess c))) /\
  (forall (c : ncfg (T A) (T A)) (n : nat), s_newton_iterations c n = Ok (mkCfg (tol c) (delta c) n (guess c))) /\
  (forall (c : ncfg (T A) (T A)) (x : T A), s_newton_guess c x = Ok (mkCfg (tol c) (delta c) (max_iter c) x)) /\
  (forall (c : ncfg (T A) (T A)), s_newton_parameters c = Ok (tol c, delta c, max_iter c, guess c)).
Lemma model_is_source_WrapNewton_lemma : model_is_source_WrapNewton.
Proof. exact (conj src_newton_tolerance (conj src_newton_delta (conj src_newton_iterations (conj src_newton_guess src_newton_parameters)))). Qed.

End SrcEqWrapNewton.
