(* Proofs/SrcEqMesh.v -- src/mesh1d.rs and src/mesh2d.rs (storage paths, interpolation loop, trapezium rules; file I/O
   excluded), regenerated from the source of this run as gen/SrcMesh.v, against the hand-written model Model/Mesh.v
   (package C19): every definition s_<f> equals its hand-written counterpart, for every arithmetic, every coordinate type,
   every mesh value (well-formed or not) -- no hypothesis.  The literals 0.5 / 0.25 / 1.0e-7 of the source are the
   parameters half / quarter / snap of the model: a regenerated function that uses any of them takes all three, in this order,
   so that each lemma says WHICH literal the source uses where. *)
From Coq Require Import List Arith ZArith Lia Bool.
From OV Require Import Base.Panic Base.Arith Model.Vector Model.Matrix Model.Mesh gen.SrcPrelude gen.SrcMesh Proofs.SrcEqBase.
Import ListNotations.

Lemma push_const_loop' {Y} (k : Y) n lo (t : list Y) :
  for_from n lo (fun _ t => Ok (t ++ [k])) t = Ok (t ++ repeat k n).
Proof.
  revert lo t; induction n as [|n IH]; intros lo t; cbn [for_from repeat bind]; [now rewrite app_nil_r|].
  rewrite IH, <- app_assoc. reflexivity.
Qed.

Lemma repeat_mul {Y} (k : Y) n m : forall lo (t : list Y),
  for_from n lo (fun _ t => for_ 0 m (fun _ t => Ok (t ++ [k])) t) t = Ok (t ++ repeat k (n * m)).
Proof.
  induction n as [|n IH]; intros lo t; cbn [for_from repeat bind Nat.mul]; [now rewrite app_nil_r|].
  unfold for_ at 1. rewrite Nat.sub_0_r, push_const_loop'. cbn [bind]. rewrite IH, <- app_assoc, repeat_app. reflexivity.
Qed.

Section SrcEqMesh.
Context {A : Arith} {X : Type}.
Local Notation TA := (T A).
Implicit Types (ma : mesh1 A X) (mf : mesh1 A TA) (mb : mesh2 A TA).

(* ------------------------------------------------------------------ Mesh1D<T, X> *)
Lemma src_mesh1_new (nodes : list X) (nvars : nat) : s_mesh1_new (A := A) nodes nvars = Ok (mesh1_new nodes nvars).
Proof. unfold s_mesh1_new, mesh1_new, for_. rewrite Nat.sub_0_r, push_const_loop'. reflexivity. Qed.
Lemma src_mesh1_nnodes ma : s_mesh1_nnodes ma = Ok (nnodes1 ma).
Proof. reflexivity. Qed.
Lemma src_mesh1_nvars ma : s_mesh1_nvars ma = Ok (m1_nvars ma).
Proof. reflexivity. Qed.
Lemma src_mesh1_coord ma node : s_mesh1_coord ma node = coord1 ma node.
Proof. reflexivity. Qed.
Lemma src_mesh1_set_nodes_vars ma node (v : list TA) : s_mesh1_set_nodes_vars ma node v = set_nodes_vars1 ma node v.
Proof. reflexivity. Qed.
Lemma src_mesh1_get_nodes_vars ma node : s_mesh1_get_nodes_vars ma node = get_nodes_vars1 ma node.
Proof. reflexivity. Qed.
Lemma src_mesh1_nodes ma : s_mesh1_nodes ma = Ok (m1_nodes ma).
Proof. reflexivity. Qed.
Lemma src_mesh1_index ma node : s_mesh1_index ma node = index1 ma node.
Proof. reflexivity. Qed.

(* ------------------------------------------------------------------ impl Mesh1D<f64, f64> *)
(* get_interpolated_vars: the source re-reads nodes[node] / nodes[node+1] inside the lazily evaluated cell test and again
   in the body; the model reads both once.  Inside the loop (node < size - 1) every such read succeeds. *)
Lemma src_mesh1_interp (half quarter snap : TA) mf (x : TA) : s_mesh1_interp half quarter snap mf x = interp1 snap mf x.
Proof.
  unfold s_mesh1_interp, interp1. apply bind_ext_ok; intros n1 E. apply usub_Ok in E. destruct E as [Hle ->].
  apply for_ext; intros node res Hn.
  rewrite !(rd_ok (m1_nodes mf) node zero) by lia. rewrite !(rd_ok (m1_nodes mf) (node + 1) zero) by lia.
  cbn [bind]. unfold in_cell, cell_line.
  set (xl := nth node (m1_nodes mf) zero). set (xr := nth (node + 1) (m1_nodes mf) zero).
  destruct (ltb xl x); cbn [bind andb orb].
  - destruct (gtb xr x); cbn [bind andb orb].
    + try rewrite !bind_assoc; repeat (apply bind_ext; intros ?); reflexivity.
    + destruct (ltb (abs (sub xl x)) snap); cbn [bind andb orb].
      * try rewrite !bind_assoc; repeat (apply bind_ext; intros ?); reflexivity.
      * destruct (ltb (abs (sub xr x)) snap); cbn [bind]; [|reflexivity].
        try rewrite !bind_assoc; repeat (apply bind_ext; intros ?); reflexivity.
  - destruct (ltb (abs (sub xl x)) snap); cbn [bind andb orb].
    + try rewrite !bind_assoc; repeat (apply bind_ext; intros ?); reflexivity.
    + destruct (ltb (abs (sub xr x)) snap); cbn [bind]; [|reflexivity].
      try rewrite !bind_assoc; repeat (apply bind_ext; intros ?); reflexivity.
Qed.

Lemma src_mesh1_trapezium (half quarter snap : TA) mf var : s_mesh1_trapezium half quarter snap mf var = trapezium1 half mf var.
Proof. unfold s_mesh1_trapezium, trapezium1, trap1_cell, var_at. src_eq. Qed.

(* ------------------------------------------------------------------ Mesh2D<T> *)
Lemma src_mesh2_new (xs ys : list TA) (nvars : nat) : s_mesh2_new xs ys nvars = Ok (mesh2_new xs ys nvars).
Proof. unfold s_mesh2_new, mesh2_new, for_ at 1. rewrite Nat.sub_0_r, repeat_mul. reflexivity. Qed.
Lemma src_mesh2_nvars mb : s_mesh2_nvars mb = Ok (m2_nvars mb).
Proof. reflexivity. Qed.
Lemma src_mesh2_nnodes mb : s_mesh2_nnodes mb = Ok (m2_nx mb, m2_ny mb).
Proof. reflexivity. Qed.
Lemma src_mesh2_coord mb i j : s_mesh2_coord mb i j = coord2 mb i j.
Proof. reflexivity. Qed.
Lemma src_mesh2_xnodes mb : s_mesh2_xnodes mb = Ok (m2_x mb).
Proof. reflexivity. Qed.
Lemma src_mesh2_ynodes mb : s_mesh2_ynodes mb = Ok (m2_y mb).
Proof. reflexivity. Qed.

(* the range test `( nodex > self.nx - 1 ) || ( nodey > self.ny - 1 )`: lazily evaluated boolean in the source, two
   successive guards in the model *)
Lemma src_mesh2_set_nodes_vars mb i j (v : list TA) : s_mesh2_set_nodes_vars mb i j v = set_nodes_vars2 mb i j v.
Proof.
  unfold s_mesh2_set_nodes_vars, set_nodes_vars2, range_guard2. rewrite !bind_assoc. apply bind_ext; intros a.
  destruct (a <? i); cbn [bind]; [reflexivity|]. rewrite !bind_assoc. apply bind_ext; intros b.
  cbn [bind]. destruct (b <? j); reflexivity.
Qed.
Lemma src_mesh2_get_nodes_vars mb i j : s_mesh2_get_nodes_vars mb i j = get_nodes_vars2 mb i j.
Proof.
  unfold s_mesh2_get_nodes_vars, get_nodes_vars2, range_guard2. rewrite !bind_assoc. apply bind_ext; intros a.
  destruct (a <? i); cbn [bind]; [reflexivity|]. rewrite !bind_assoc. apply bind_ext; intros b.
  cbn [bind]. destruct (b <? j); reflexivity.
Qed.

(* assign / apply: the source threads the whole record through the loops, the model only the field `vars` *)
Definition vars_rel mb (s : mesh2 A TA) (vs : list (list TA)) : Prop := s = with_vars2 mb vs.
Lemma with_vars2_id mb : mb = with_vars2 mb (m2_vars mb).
Proof. destruct mb; reflexivity. Qed.

Lemma src_mesh2_assign mb (x : TA) : s_mesh2_assign mb x = assign2 mb x.
Proof.
  unfold s_mesh2_assign, assign2.
  match goal with |- ?L = _ => transitivity (bind L Ok); [symmetry; apply bind_ret|] end.
  apply (res_rel_bind (vars_rel mb)); [|intros s vs HH; unfold vars_rel in HH; subst s; reflexivity].
  apply for_sim; [apply with_vars2_id|]. intros i s vs Hi HH; unfold vars_rel in HH; subst s. cbn [with_vars2 m2_nx m2_ny m2_nvars m2_vars].
  apply for_sim; [reflexivity|]. intros j s vs' Hj HH; unfold vars_rel in HH; subst s. cbn [with_vars2 m2_nx m2_ny m2_nvars m2_vars].
  apply for_sim; [reflexivity|]. intros v s vs'' Hv HH; unfold vars_rel in HH; subst s. cbn [with_vars2 m2_nx m2_ny m2_nvars m2_vars]. unfold set_elem.
  destruct (rd vs'' (i * m2_ny mb + j)) as [row|]; cbn [bind res_rel]; [|reflexivity].
  destruct (upd row v x) as [row'|]; cbn [bind res_rel]; [|reflexivity].
  destruct (upd vs'' (i * m2_ny mb + j) row'); cbn [bind res_rel]; try unfold vars_rel; reflexivity.
Qed.

Lemma src_mesh2_apply mb (func : TA -> TA -> res TA) var : s_mesh2_apply mb func var = apply2 func mb var.
Proof.
  unfold s_mesh2_apply, apply2.
  match goal with |- ?L = _ => transitivity (bind L Ok); [symmetry; apply bind_ret|] end.
  apply (res_rel_bind (vars_rel mb)); [|intros s vs HH; unfold vars_rel in HH; subst s; reflexivity].
  apply for_sim; [apply with_vars2_id|]. intros i s vs Hi HH; unfold vars_rel in HH; subst s. cbn [with_vars2 m2_nx m2_ny m2_nvars m2_vars m2_x m2_y].
  destruct (rd (m2_x mb) i) as [x|]; cbn [bind res_rel]; [|reflexivity].
  apply for_sim; [reflexivity|]. intros j s vs' Hj HH; unfold vars_rel in HH; subst s. cbn [with_vars2 m2_nx m2_ny m2_nvars m2_vars m2_x m2_y]. unfold set_elem.
  destruct (rd (m2_y mb) j) as [y|]; cbn [bind res_rel]; [|reflexivity].
  destruct (func x y) as [w|]; cbn [bind res_rel]; [|reflexivity].
  destruct (rd vs' (i * m2_ny mb + j)) as [row|]; cbn [bind res_rel]; [|reflexivity].
  destruct (upd row var w) as [row'|]; cbn [bind res_rel]; [|reflexivity].
  destruct (upd vs' (i * m2_ny mb + j) row'); cbn [bind res_rel]; try unfold vars_rel; reflexivity.
Qed.

Lemma src_mesh2_cross_section_xnode mb nodex : s_mesh2_cross_section_xnode mb nodex = cross_section_xnode mb nodex.
Proof. reflexivity. Qed.
Lemma src_mesh2_cross_section_ynode mb nodey : s_mesh2_cross_section_ynode mb nodey = cross_section_ynode mb nodey.
Proof. reflexivity. Qed.
Lemma src_mesh2_var_as_matrix mb var : s_mesh2_var_as_matrix mb var = var_as_matrix mb var.
Proof. reflexivity. Qed.
Lemma src_mesh2_index mb (ij : nat * nat) : s_mesh2_index mb ij = index2 mb (fst ij) (snd ij).
Proof. reflexivity. Qed.

(* ------------------------------------------------------------------ impl Mesh2D<f64> *)
Lemma src_mesh2_trapezium (half quarter snap : TA) mb var : s_mesh2_trapezium half quarter snap mb var = trapezium2 quarter mb var.
Proof. unfold s_mesh2_trapezium, trapezium2, trap2_gen, trap2_cell, var_at. src_eq. Qed.
Lemma src_mesh2_square_trapezium (half quarter snap : TA) mb var : s_mesh2_square_trapezium half quarter snap mb var = square_trapezium2 quarter mb var.
Proof. unfold s_mesh2_square_trapezium, square_trapezium2, trap2_gen, trap2_cell, var_at. src_eq. Qed.

Definition model_is_source_Mesh : Prop :=
  (forall (nodes : list X) (nvars : nat), s_mesh1_new (A := A) nodes nvars = Ok (mesh1_new nodes nvars)) /\
  (forall ma, s_mesh1_nnodes ma = Ok (nnodes1 ma)) /\
  (forall ma, s_mesh1_nvars ma = Ok (m1_nvars ma)) /\
  (forall ma node, s_mesh1_coord ma node = coord1 ma node) /\
  (forall ma node (v : list TA), s_mesh1_set_nodes_vars ma node v = set_nodes_vars1 ma node v) /\
  (forall ma node, s_mesh1_get_nodes_vars ma node = get_nodes_vars1 ma node) /\
  (forall ma, s_mesh1_nodes ma = Ok (m1_nodes ma)) /\
  (forall ma node, s_mesh1_index ma node = index1 ma node) /\
  (forall (half quarter snap : TA) mf (x : TA), s_mesh1_interp half quarter snap mf x = interp1 snap mf x) /\
  (forall (half quarter snap : TA) mf var, s_mesh1_trapezium half quarter snap mf var = trapezium1 half mf var) /\
  (forall (xs ys : list TA) (nvars : nat), s_mesh2_new xs ys nvars = Ok (mesh2_new xs ys nvars)) /\
  (forall mb, s_mesh2_nvars mb = Ok (m2_nvars mb)) /\
  (forall mb, s_mesh2_nnodes mb = Ok (m2_nx mb, m2_ny mb)) /\
  (forall mb i j, s_mesh2_coord mb i j = coord2 mb i j) /\
  (forall mb, s_mesh2_xnodes mb = Ok (m2_x mb)) /\
  (forall mb, s_mesh2_ynodes mb = Ok (m2_y mb)) /\
  (forall mb i j (v : list TA), s_mesh2_set_nodes_vars mb i j v = set_nodes_vars2 mb i j v) /\
  (forall mb i j, s_mesh2_get_nodes_vars mb i j = get_nodes_vars2 mb i j) /\
  (forall mb (x : TA), s_mesh2_assign mb x = assign2 mb x) /\
  (forall mb nodex, s_mesh2_cross_section_xnode mb nodex = cross_section_xnode mb nodex) /\
  (forall mb nodey, s_mesh2_cross_section_ynode mb nodey = cross_section_ynode mb nodey) /\
  (forall mb var, s_mesh2_var_as_matrix mb var = var_as_matrix mb var) /\
  (forall mb (func : TA -> TA -> res TA) var, s_mesh2_apply mb func var = apply2 func mb var) /\
  (forall (half quarter snap : TA) mb var, s_mesh2_trapezium half quarter snap mb var = trapezium2 quarter mb var) /\
  (forall (half quarter snap : TA) mb var, s_mesh2_square_trapezium half quarter snap mb var = square_trapezium2 quarter mb var) /\
  (forall mb (ij : nat * nat), s_mesh2_index mb ij = index2 mb (fst ij) (snd ij)).
Lemma model_is_source_Mesh_lemma : model_is_source_Mesh.
Proof. exact (conj src_mesh1_new (conj src_mesh1_nnodes (conj src_mesh1_nvars (conj src_mesh1_coord (conj src_mesh1_set_nodes_vars (conj src_mesh1_get_nodes_vars (conj src_mesh1_nodes (conj src_mesh1_index (conj src_mesh1_interp (conj src_mesh1_trapezium (conj src_mesh2_new (conj src_mesh2_nvars (conj src_mesh2_nnodes (conj src_mesh2_coord (conj src_mesh2_xnodes (conj src_mesh2_ynodes (conj src_mesh2_set_nodes_vars (conj src_mesh2_get_nodes_vars (conj src_mesh2_assign (conj src_mesh2_cross_section_xnode (conj src_mesh2_cross_section_ynode (conj src_mesh2_var_as_matrix (conj src_mesh2_apply (conj src_mesh2_trapezium (conj src_mesh2_square_trapezium src_mesh2_index))))))))))))))))))))))))). Qed.

End SrcEqMesh.
