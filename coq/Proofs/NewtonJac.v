(* Proofs/NewtonJac.v -- C18: the entries of the finite-difference Jacobian are the forward
   difference quotients (over a ring, where (a + d) - d = a restores the coordinate), and the
   Jacobian of an affine map x -> Mx + c is M exactly (over a field). *)
From Coq Require Import List Arith Lia Bool Ring_theory Field_theory Ring Field.
From OV Require Import Base.Panic Base.Arith Model.Vector Model.Matrix Model.Newton
  Proofs.Matrix Proofs.Newton.
Import ListNotations.

(* ---------------------------------------------------------------- index arithmetic *)
Lemma nw_idx_inj c i j i' j' : j < c -> j' < c -> i * c + j = i' * c + j' -> i = i' /\ j = j'.
Proof.
  intros Hj Hj' E.
  assert (Hi : i = i').
  { apply (f_equal (fun t => t / c)) in E.
    rewrite (Nat.add_comm (i * c)), (Nat.add_comm (i' * c)) in E.
    rewrite !Nat.div_add, !Nat.div_small in E by lia. exact E. }
  subst i'. split; [reflexivity|lia].
Qed.

Lemma nw_rd_upd_list {Y} (l : list Y) k k' v :
  k < length l -> rd (upd_list l k v) k' = if k' =? k then Ok v else rd l k'.
Proof.
  intros H. unfold rd. rewrite nth_error_upd_list by exact H.
  destruct (k' =? k); reflexivity.
Qed.

Section MatSpec.
Context {A : Arith}.

(* the column setter: column c becomes v, every other entry is kept *)
Lemma nw_set_col_spec (m : matrix A) c v m' :
  wf m -> set_col m c v = Ok m' ->
  forall i j, i < rows m -> j < cols m ->
    mget m' i j = if j =? c then rd v i else mget m i j.
Proof.
  intros W H. unfold set_col in H.
  destruct (Nat.eqb_spec (length v) (rows m)) as [Lv|]; [|discriminate]. cbn [negb] in H.
  destruct (Nat.leb_spec (cols m) c) as [|Hc]; [discriminate|].
  eapply (for_inv_partial (fun k (s : matrix A) =>
            rows s = rows m /\ cols s = cols m /\ length (buf s) = length (buf m) /\
            forall i j, i < rows m -> j < cols m ->
              mget s i j = if (j =? c) && (i <? k) then rd v i else mget m i j)) in H; [|lia| |].
  - destruct H as (_ & _ & _ & H). intros i j Hi Hj. rewrite (H i j Hi Hj).
    destruct (j =? c); cbn [andb]; [|reflexivity].
    destruct (Nat.ltb_spec i (rows m)); [reflexivity|lia].
  - repeat split; auto. intros i j _ _. rewrite andb_false_r. reflexivity.
  - intros k s s1 Hk (R & C & B & Hs) Hb. inv_bind Hb.
    pose proof (nw_mset_shape _ _ _ _ _ Hb) as (R1 & C1 & B1).
    repeat split; try congruence.
    intros i j Hi Hj. unfold mset in Hb. inv_bind Hb. injection Hb as <-.
    apply upd_Ok_inv in E0 as [Lk ->]. unfold mget. cbn [buf cols].
    rewrite nw_rd_upd_list by exact Lk. rewrite C.
    destruct (Nat.eqb_spec (i * cols m + j) (k * cols m + c)) as [Eq|Ne].
    + apply nw_idx_inj in Eq as [-> ->]; auto.
      rewrite Nat.eqb_refl. cbn [andb]. destruct (Nat.ltb_spec k (S k)); [|lia]. exact (eq_sym E).
    + specialize (Hs i j Hi Hj). unfold mget in Hs. rewrite C in Hs. rewrite Hs.
      destruct (Nat.eqb_spec j c) as [Ejc|]; cbn [andb]; [|reflexivity].
      assert (i <> k) by (intros Eik; apply Ne; now rewrite Eik, Ejc).
      destruct (Nat.ltb_spec i k), (Nat.ltb_spec i (S k)); try lia; reflexivity.
Qed.

Lemma nw_mapM_nth {Y Z} (g : Y -> res Z) l l' i dy dz :
  mapM g l = Ok l' -> i < length l -> g (nth i l dy) = Ok (nth i l' dz).
Proof.
  revert l' i; induction l as [|y t IH]; cbn; intros l' i H Hi; [lia|].
  inv_bind H. injection H as <-. destruct i as [|i]; cbn; auto. apply IH; auto; lia.
Qed.

Lemma nw_zipw_nth (g : A -> A -> A) (u v : list A) i :
  i < length u -> i < length v -> nth i (zipw g u v) zero = g (nth i u zero) (nth i v zero).
Proof.
  revert v i; induction u as [|a u IH]; intros [|b v] i Hu Hv; cbn in *; try lia.
  destruct i as [|i]; cbn; auto. apply IH; lia.
Qed.

End MatSpec.

(* ---------------------------------------------------------------- entries *)
Section Entry.
Context (O : NOps) (RL : RingLaws (NA O)).
Notation A := (NA O).
Add Ring Aring2 : (rl_ring A RL).

(* column j of the Jacobian: ( f(x + d e_j) - f(x) ) / d, computed as the code computes it *)
Definition fd_col (f : list A -> res (list A)) (f0 x : list A) (d : A) (j : nat) : res (list A) :=
  let* fj := f (perturbed O x d j) in let* diff := vsub fj f0 in vdiv diff d.

Lemma jacobian_tr_entries (f : list A -> res (list A)) (x : list A) (d : A) st J evs :
  jacobian_tr O f x d = Ok (st, J, evs) ->
  exists f0, f x = Ok f0 /\ rows J = length f0 /\ cols J = length x /\
    forall j, j < length x -> exists col, fd_col f f0 x d j = Ok col /\
      forall i, i < length f0 -> mget J i j = rd col i.
Proof.
  unfold jacobian_tr. intros H. inv_bind H. rename x0 into f0. exists f0. split; auto.
  eapply (for_inv_partial (fun k (s : list A * matrix A * list (list A)) =>
            let '(st, J, _) := s in
            st = x /\ wf J /\ rows J = length f0 /\ cols J = length x /\
            forall j, j < k -> exists col, fd_col f f0 x d j = Ok col /\
              forall i, i < length f0 -> mget J i j = rd col i)) in H; [|lia| |].
  - destruct H as (_ & _ & R & C & H). repeat split; auto.
  - split; [reflexivity|]. split; [unfold wf, mat_new; cbn; now rewrite repeat_length|].
    split; [reflexivity|]. split; [reflexivity|]. intros j Hj; lia.
  - intros k [[s jac] ev] s1 Hk (-> & W & R & C & Hcols) Hb.
    unfold jac_body in Hb. inv_bind Hb. injection Hb as <-.
    apply (rd_Ok_inv _ _ _ zero) in E0 as [Lk ->].
    apply upd_Ok_inv in E1 as [_ ->].
    apply (rd_Ok_inv _ _ _ zero) in E3 as [_ ->].
    apply upd_Ok_inv in E4 as [_ ->].
    rewrite (nth_upd_list x k k _ zero Lk), Nat.eqb_refl, nw_upd_list_twice.
    replace (sub (add (nth k x zero) d) d) with (nth k x zero) by ring.
    rewrite nw_upd_list_same.
    pose proof (nw_set_col_shape _ _ _ _ E7) as (R1 & C1 & B1).
    split; [reflexivity|]. split; [unfold wf in *; rewrite B1, R1, C1; exact W|].
    split; [congruence|]. split; [congruence|].
    intros j Hj.
    assert (Hcolk : fd_col f f0 x d k = Ok x6).
    { unfold fd_col, perturbed. rewrite E2. cbn [bind]. rewrite E5. cbn [bind]. exact E6. }
    destruct (Nat.eq_dec j k) as [->|Hne].
    + exists x6. split; [exact Hcolk|]. intros i Hi.
      rewrite (nw_set_col_spec _ _ _ _ W E7 i k) by lia. now rewrite Nat.eqb_refl.
    + destruct (Hcols j) as (col & Ec & Hc); [lia|]. exists col. split; [exact Ec|].
      intros i Hi. rewrite (nw_set_col_spec _ _ _ _ W E7 i j) by lia.
      destruct (Nat.eqb_spec j k); [lia|]. apply Hc; exact Hi.
Qed.

(* entry (i, j) is the forward difference quotient of component i in coordinate j *)
Lemma jacobian_entry_lemma (f : list A -> res (list A)) (x : list A) (d : A) J evs :
  jacobian O f x d = Ok (J, evs) ->
  exists f0, f x = Ok f0 /\ rows J = length f0 /\ cols J = length x /\
    forall i j, i < length f0 -> j < length x ->
      exists fj q, f (perturbed O x d j) = Ok fj /\
                   div (sub (nth i fj zero) (nth i f0 zero)) d = Ok q /\ mget J i j = Ok q.
Proof.
  unfold jacobian. intros H. inv_bind H. destruct x0 as [[st J'] ev]. injection H as <- _.
  apply jacobian_tr_entries in E as (f0 & E0 & R & C & H). exists f0. repeat split; auto.
  intros i j Hi Hj. destruct (H j Hj) as (col & Ec & Hc).
  unfold fd_col in Ec. inv_bind Ec. rename x0 into fj. rename x1 into diff.
  pose proof (nw_vsub_length _ _ _ E1) as [Ld Lf].
  unfold vsub in E1. destruct (length fj =? length f0); [|discriminate]. injection E1 as <-.
  unfold vdiv in Ec. pose proof (nw_mapM_length _ _ _ Ec) as Lc.
  exists fj, (nth i col zero). split; [exact E|]. split.
  - rewrite <- (nw_zipw_nth sub fj f0 i) by lia.
    apply (nw_mapM_nth _ _ _ i zero zero Ec). lia.
  - rewrite (Hc i Hi). apply rd_ok. lia.
Qed.

End Entry.

(* ---------------------------------------------------------------- affine maps *)
Section Affine.
Context (O : NOps) (FL : FieldLaws (NA O)).
Notation A := (NA O).
Add Field Afield : (fl_field A FL).

Lemma nw_ring_laws : RingLaws A.
Proof. constructor. exact (F_R (fl_field A FL)). Qed.

(* M[i,j] and the textbook affine map  (M x + c)_i = sum_k M[i,k] x_k + c_i *)
Definition ment (M : matrix A) (i j : nat) : A := nth (i * cols M + j) (buf M) zero.
Definition aff (M : matrix A) (c p : list A) : list A :=
  map (fun i => add (sum_n (cols M) (fun k => mul (ment M i k) (nth k p zero))) (nth i c zero))
      (seq 0 (rows M)).

Lemma sum_n_perturbed (a : nat -> A) (x : list A) (d : A) j n :
  j < length x ->
  sum_n n (fun k => mul (a k) (nth k (perturbed O x d j) zero)) =
  add (sum_n n (fun k => mul (a k) (nth k x zero))) (if j <? n then mul (a j) d else zero).
Proof.
  intros Hj. induction n as [|n IH]; cbn [sum_n].
  - cbn. ring.
  - rewrite IH. unfold perturbed. rewrite (nth_upd_list x j n _ zero Hj).
    destruct (Nat.eqb_spec n j) as [->|Hn].
    + destruct (Nat.ltb_spec j j); [lia|]. destruct (Nat.ltb_spec j (S j)); [|lia]. ring.
    + destruct (Nat.ltb_spec j n), (Nat.ltb_spec j (S n)); try lia; ring.
Qed.

Lemma aff_length M c p : length (aff M c p) = rows M.
Proof. unfold aff. now rewrite map_length, seq_length. Qed.

Lemma aff_nth M c p i : i < rows M ->
  nth i (aff M c p) zero = add (sum_n (cols M) (fun k => mul (ment M i k) (nth k p zero))) (nth i c zero).
Proof.
  intros Hi. unfold aff.
  rewrite (nth_indep _ zero (add (sum_n (cols M) (fun k => mul (ment M 0 k) (nth k p zero))) (nth 0 c zero)))
    by (rewrite map_length, seq_length; exact Hi).
  rewrite (map_nth (fun i => add (sum_n (cols M) (fun k => mul (ment M i k) (nth k p zero))) (nth i c zero)) (seq 0 (rows M)) 0 i).
  now rewrite seq_nth by exact Hi.
Qed.

Lemma jacobian_affine_lemma (M : matrix A) (c x : list A) (d : A) :
  d <> zero -> wf M -> length x = cols M ->
  exists J evs, jacobian O (fun p => Ok (aff M c p)) x d = Ok (J, evs) /\
    wf J /\ rows J = rows M /\ cols J = cols M /\
    forall i j, i < rows M -> j < cols M -> mget J i j = Ok (ment M i j).
Proof.
  intros Hd W Lx.
  assert (Hdiv : forall a : A, exists q, div a d = Ok q).
  { intros a. rewrite (fl_div A FL). destruct (eqb d zero) eqn:E; [|eauto].
    apply (fl_eqb A FL) in E. contradiction. }
  destruct (jacobian_shape_lemma O (fun p => Ok (aff M c p)) x d (rows M)) as (J & evs & EJ & WJ & RJ & CJ & _);
    [intros y _; eexists; split; [reflexivity|apply aff_length]|exact Hdiv|].
  exists J, evs. split; [exact EJ|]. repeat split; auto; [congruence|].
  intros i j Hi Hj.
  destruct (jacobian_entry_lemma O nw_ring_laws _ _ _ _ _ EJ) as (f0 & E0 & _ & _ & H).
  injection E0 as <-.
  destruct (H i j) as (fj & q & Ej & Eq & ->); [rewrite aff_length; exact Hi|lia|].
  injection Ej as <-. f_equal.
  rewrite !aff_nth in Eq by exact Hi.
  rewrite sum_n_perturbed in Eq by lia.
  destruct (Nat.ltb_spec j (cols M)) as [_|]; [|lia].
  rewrite (fl_div A FL) in Eq. destruct (eqb d zero) eqn:E; [discriminate|].
  injection Eq as <-. field. exact Hd.
Qed.

(* two well-formed matrices of the same shape with the same entries are the same record *)
Lemma nw_mat_ext (J M : matrix A) :
  wf J -> wf M -> rows J = rows M -> cols J = cols M ->
  (forall i j, i < rows M -> j < cols M -> mget J i j = Ok (ment M i j)) -> J = M.
Proof.
  destruct J as [bj rj cj], M as [bm rm cm]. unfold wf, mget, ment. cbn.
  intros WJ WM -> -> H. f_equal.
  apply (nth_ext _ _ zero zero); [congruence|].
  intros k Hk. rewrite WJ in Hk.
  assert (Hc : 0 < cm) by (destruct cm; [lia|lia]).
  assert (Hq : k / cm < rm) by (apply Nat.div_lt_upper_bound; lia).
  assert (Hr : k mod cm < cm) by (apply Nat.mod_upper_bound; lia).
  specialize (H (k / cm) (k mod cm) Hq Hr).
  replace (k / cm * cm + k mod cm) with k in H by (rewrite (Nat.div_mod k cm) at 1; lia).
  apply (rd_Ok_inv _ _ _ zero) in H as [_ H]. now rewrite H.
Qed.

Lemma jacobian_affine_eq (M : matrix A) (c x : list A) (d : A) :
  d <> zero -> wf M -> length x = cols M ->
  exists evs, jacobian O (fun p => Ok (aff M c p)) x d = Ok (M, evs).
Proof.
  intros Hd W Lx.
  destruct (jacobian_affine_lemma M c x d Hd W Lx) as (J & evs & EJ & WJ & RJ & CJ & H).
  exists evs. rewrite EJ. do 2 f_equal. now apply nw_mat_ext.
Qed.

End Affine.
