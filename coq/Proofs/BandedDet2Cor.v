(* Proofs/BandedDet2Cor.v -- the hypothesis m1 <= n dropped where it can be: with Proofs/BandedDet2Wide.v (m1 > n
   panics, index error) the soundness theorem of band_solve holds for every well-formed band, and the alternatives
   "exact answer / refused at a zero pivot" become a trichotomy that covers every (n, m1, m2). *)
From Coq Require Import List Arith Lia ZArith Bool Ring_theory Field_theory.
From OV Require Import Base.Panic Base.Arith Model.Vector Model.Matrix Model.Banded
                       Proofs.Banded Proofs.BandedLU Proofs.BandedTotal Proofs.BandedComplete Proofs.BandedDet
                       Proofs.BandedDet2Wide.
Import ListNotations.
Local Open Scope nat_scope.

Section Cor.
Context {A : Arith}.
Notation T := (T A).
Notation banded := (banded A).
Variable FL : FieldLaws A.

(* soundness without m1 <= n: whatever band_solve returns on a well-formed band solves the dense twin's system *)
Lemma band_solve_sound_all_lemma (B : banded) (b x : list T) :
  wfB B -> length b = bn B -> band_solve B b = Ok x -> length x = bn B /\ dense_mulv B x = b.
Proof.
  intros Hwf Hb H. destruct (Nat.le_gt_cases (bm1 B) (bn B)) as [Hm1|Hm1].
  - now apply (band_solve_sound_lemma FL B b x).
  - rewrite (proj2 (band_wide_panics_lemma B Hwf Hm1)) in H. destruct (bn B =? length b); discriminate.
Qed.

(* every well-formed band, every right-hand side of the right length: exactly one of three outcomes *)
Lemma band_solve_trichotomy_lemma (B : banded) (b : list T) :
  wfB B -> length b = bn B ->
  (exists x, band_solve B b = Ok x /\ length x = bn B /\ dense_mulv B x = b) \/
  (bm1 B <= bn B /\ band_solve B b = Panic DivZero /\
   exists auN alN indexN dN,
     decompose_gen false B (compact B) (mat_new (bn B) (bm1 B) zero) (repeat 0 (bn B)) = Ok (auN, alN, indexN, dN) /\
     exists i, i < bn B /\ mat_at auN (bm1 B + bm2 B + 1) i 0 = zero) \/
  (bn B < bm1 B /\ band_solve B b = Panic Index).
Proof.
  intros Hwf Hb. destruct (Nat.le_gt_cases (bm1 B) (bn B)) as [Hm1|Hm1].
  - destruct (band_solve_exact_or_refuses_lemma FL B b Hwf Hb Hm1) as [H|(H1 & H2)]; [now left|].
    right; left. auto.
  - right; right. split; auto. rewrite (proj2 (band_wide_panics_lemma B Hwf Hm1)).
    rewrite <- Hb, Nat.eqb_refl. reflexivity.
Qed.

End Cor.
